import PallasVerif.Streams.Registry
open PallasVerif

def main (args : List String) : IO UInt32 := do
  match args with
  | [name] =>
    match Streams.registry.find? (·.name = name) with
    | some s => s.run; return 0
    | none => IO.eprintln s!"unknown stream {name}"; return 2
  | _ =>
    IO.println (" ".intercalate (Streams.registry.map (·.name)))
    return 0
