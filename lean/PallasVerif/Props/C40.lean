import PallasVerif.Proofs.TxBuild
import PallasVerif.Model.TxBuildEnc
import PallasVerif.Proofs.Cbor
/-!
# C40 — Built transactions encode the staged content with a correct id

`Model/TxBuild.lean` transcribes the `StagingTransaction` builder methods and `build_conway_raw` /
`build_babbage_raw` as the code stands after the three repairs of DESIGN §6 #25 (`fix: txbuilder
drops zero mint and output-asset quantities …`, `fix: txbuilder deduplicates staged inputs …`,
`fix: txbuilder reports a redeemer without execution units as an error`).

Proved here, for every staging reachable by any history of builder calls (`Staging.applyAll`,
unbounded) and every staging value at all where no invariant is needed:

* `build_no_panic` — `build` never panics (every `unwrap` left in the code is unreachable);
* `build_accepts_iff` — `build` accepts a staging exactly when none of the documented defects is
  present (bad datum hash length / undecodable inline datum or native script in an output or the
  collateral return, network id above 1, undecodable witness script or datum, a redeemer without
  execution units, with an undecodable payload or without its target), so the theorems about
  accepted builds are about every staging free of those defects;
* `build_inputs_canonical` — the input field is the staged inputs as a *set* in the ledger's
  order (strictly ascending by (transaction id, index), same members);
* `build_redeemers_point_at_targets` — there is exactly one built redeemer per staged redeemer,
  with its data and execution units, and its index is the position of its target in the input
  field (spend) / in the policy ids of the mint field (mint);
* `mint_policies_ascending` (for every reachable staging) — those policy ids are strictly ascending,
  i.e. the position is the ledger's;
* `build_mint_content`, `mint_asset_accumulates` — the mint field holds exactly the staged non-zero
  quantities; `mint_asset` adds to the staged quantity; no zero quantity is ever written
  (`build_mint_no_zero`, `build_outputs_content` for output assets);
* `build_content`, `build_outputs_content` — every other field is the staged one;
* `build_id_concrete` — the id clause on bytes the model produces itself (`Model/TxBuildEnc.lean`:
  body and witness set encoded by C06's schema interpreter over the *generated* Conway schemas): the
  model's `tx_bytes` are one well-formed item whose first array element is the body's own
  encoding, and the id is the Lean BLAKE2b-256 of exactly that span. The stream compares these
  `tx_bytes` and ids with the implementation's, byte for byte, whenever no `HashMap` iteration
  order enters them. (`build_id_is_hash_of_body_span` is the older, parametric form.)

* `build_script_data_hash` — `script_data_hash` is present exactly with language views and a redeemer
  or witness datum, and equals BLAKE2b-256 of C08's `ScriptData` hash input over the witness set that
  is emitted.

Not modelled (sampled by the stream `txbuild` only): CBOR encoding/decoding of the transaction,
decoding of caller payloads (a boolean; payloads are taken to be in the form the pallas encoder
writes back), the hash functions that key scripts and datums, the value of `auxiliary_data_hash`
(presence only).
-/
namespace PallasVerif.Props.C40
open PallasVerif.TxBuild PallasVerif.Proofs.TxBuild

/-! ## plumbing -/

/-- the two lists have the same length and are related position by position -/
inductive Forall2 {α β : Type} (R : α → β → Prop) : List α → List β → Prop
  | nil : Forall2 R [] []
  | cons {a : α} {b : β} {as : List α} {bs : List β} : R a b → Forall2 R as bs → Forall2 R (a :: as) (b :: bs)

theorem bind_eq_ok {α β : Type} (r : Res α) (f : α → Res β) (b : β) :
    r.bind f = .ok b ↔ ∃ a, r = .ok a ∧ f a = .ok b := by
  cases r <;> simp [Res.bind]

theorem bind_ne_panic {α β : Type} (r : Res α) (f : α → Res β) (hr : r ≠ .panic) (hf : ∀ a, f a ≠ .panic) :
    r.bind f ≠ .panic := by
  cases r with
  | ok a => exact hf a
  | err e => simp [Res.bind]
  | panic => exact absurd rfl hr

theorem failIf_ne_panic (c : Bool) (e : Err) : failIf c e ≠ .panic := by
  unfold failIf; split <;> simp

/-! ## no panic -/

theorem buildBabbageRaw_ne_panic (o : Output) : o.buildBabbageRaw ≠ .panic := by
  unfold Output.buildBabbageRaw
  apply bind_ne_panic
  · split <;> first | exact failIf_ne_panic _ _ | simp
  · intro _
    apply bind_ne_panic
    · split <;> first | exact failIf_ne_panic _ _ | simp
    · intro _; simp

theorem buildOutputs_ne_panic (l : List Output) : buildOutputs l ≠ .panic := by
  induction l with
  | nil => simp [buildOutputs]
  | cons o t ih =>
    unfold buildOutputs
    exact bind_ne_panic _ _ (buildBabbageRaw_ne_panic o) (fun _ => bind_ne_panic _ _ ih (fun _ => by simp))

theorem positionOf_ne_panic {α : Type} [DecidableEq α] (l : List α) (x : α) : positionOf l x ≠ .panic := by
  unfold positionOf; split <;> simp

theorem buildRedeemer_ne_panic (inputs : List Inp) (policies : List Hash) (p : Purpose) (r : Redeemer) :
    buildRedeemer inputs policies p r ≠ .panic := by
  unfold buildRedeemer
  apply bind_ne_panic
  · split <;> simp
  · intro ex
    apply bind_ne_panic _ _ (failIf_ne_panic _ _)
    intro _
    split
    · exact bind_ne_panic _ _ (positionOf_ne_panic _ _) (fun _ => by simp)
    · exact bind_ne_panic _ _ (positionOf_ne_panic _ _) (fun _ => by simp)

theorem buildRedeemers_ne_panic (inputs : List Inp) (policies : List Hash) (l : List (Purpose × Redeemer)) :
    buildRedeemers inputs policies l ≠ .panic := by
  induction l with
  | nil => simp [buildRedeemers]
  | cons e t ih =>
    obtain ⟨p, r⟩ := e
    unfold buildRedeemers
    exact bind_ne_panic _ _ (buildRedeemer_ne_panic _ _ p r) (fun _ => bind_ne_panic _ _ ih (fun _ => by simp))

/-- the `unwrap` on the witness-set datums sits behind `!is_empty()` and cannot fire -/
theorem witnessDatums_ne_panic (d : List Bytes) : witnessDatums d ≠ .panic := by
  unfold witnessDatums fromVec
  cases d <;> simp

/-- Building never panics, whatever was staged. -/
theorem build_no_panic (s : Staging) : build s ≠ .panic := by
  unfold build
  apply bind_ne_panic _ _ (buildOutputs_ne_panic _)
  intro _
  apply bind_ne_panic
  · split <;> first | exact failIf_ne_panic _ _ | simp
  intro _
  apply bind_ne_panic
  · split
    · exact bind_ne_panic _ _ (buildBabbageRaw_ne_panic _) (fun _ => by simp)
    · simp
  intro _
  apply bind_ne_panic _ _ (failIf_ne_panic _ _)
  intro _
  apply bind_ne_panic _ _ (failIf_ne_panic _ _)
  intro _
  apply bind_ne_panic _ _ (buildRedeemers_ne_panic _ _ _)
  intro _
  apply bind_ne_panic _ _ (witnessDatums_ne_panic _)
  intro _
  simp

/-! ## what an accepted build returns -/

/-- inversion of `build` -/
theorem build_ok_inv (s : Staging) (tx : BuiltTx) (h : build s = .ok tx) :
    ∃ outputs collRet redeemers datums,
      buildOutputs s.outputs = .ok outputs ∧
      (match s.collOut with
        | some o => ∃ b, o.buildBabbageRaw = .ok b ∧ collRet = some b
        | none => collRet = none) ∧
      buildRedeemers (dedup (isort inpLe s.inputs))
        ((nonZeroAssets (fun q => decide (q = 0)) s.mint).map (·.1)) s.redeemers = .ok redeemers ∧
      witnessDatums (s.datums.map (·.2.bytes)) = .ok datums ∧
      tx = { inputs := dedup (isort inpLe s.inputs), outputs, fee := s.fee.getD 0, ttl := s.invalidFrom,
             validFrom := s.validFrom, mint := nonZeroAssets (fun q => decide (q = 0)) s.mint,
             collateral := s.collIns, signers := s.signers, networkId := s.networkId,
             collateralReturn := collRet, refInputs := s.refInputs,
             scriptDataHash := scriptDataHashOf redeemers datums s.langViews,
             auxDataHash := s.aux.isSome, scripts := s.scripts.map (fun e => (e.2.kind, e.2.body.bytes)),
             datums, redeemers, aux := s.aux } := by
  unfold build at h
  simp only [bind_eq_ok] at h
  obtain ⟨outputs, ho, _, _, collRet, hc, _, _, _, _, redeemers, hr, datums, hd, htx⟩ := h
  refine ⟨outputs, collRet, redeemers, datums, ho, ?_, hr, hd, ?_⟩
  · cases hco : s.collOut with
    | none => simp [hco] at hc; exact hc.symm
    | some o =>
      simp only [hco, bind_eq_ok] at hc
      obtain ⟨b, hb, he⟩ := hc
      cases he
      exact ⟨b, hb, rfl⟩
  · cases htx; rfl

theorem build_inputs_eq (s : Staging) (tx : BuiltTx) (h : build s = .ok tx) : tx.inputs = dedup (isort inpLe s.inputs) := by
  obtain ⟨_, _, _, _, _, _, _, _, rfl⟩ := build_ok_inv s tx h; rfl

theorem build_mint_eq (s : Staging) (tx : BuiltTx) (h : build s = .ok tx) :
    tx.mint = nonZeroAssets (fun q => decide (q = 0)) s.mint := by
  obtain ⟨_, _, _, _, _, _, _, _, rfl⟩ := build_ok_inv s tx h; rfl

/-- The input field is the staged inputs as a set in the ledger's order: strictly ascending by
    (transaction id, index), with exactly the staged members. -/
theorem build_inputs_canonical (s : Staging) (tx : BuiltTx) (h : build s = .ok tx) :
    tx.inputs.Pairwise inpLt ∧ ∀ x, x ∈ tx.inputs ↔ x ∈ s.inputs := by
  rw [build_inputs_eq s tx h]
  constructor
  · have hs := pairwise_isort inpLe inpLe_trans inpLe_total s.inputs
    exact (dedup_strict inpLe inpLe_antisymm _ hs).imp (fun ⟨h1, h2⟩ => inpLt_of_le_ne _ _ h1 h2)
  · intro x; simp [mem_dedup, mem_isort]

/-- the built redeemer's tag and index name the purpose's target in the two ordered lists -/
def Target (inputs : List Inp) (policies : List Hash) (p : Purpose) (b : BuiltRedeemer) : Prop :=
  match p with
  | .spend i => b.tag = 0 ∧ inputs[b.index]? = some i
  | .mint pid => b.tag = 1 ∧ policies[b.index]? = some pid

/-- staged redeemer ↦ built redeemer: same payload and budget, index = position of the target in
    the input field (spend) / among the policy ids of the mint field (mint) -/
def PointsAt (tx : BuiltTx) (staged : Purpose × Redeemer) (b : BuiltRedeemer) : Prop :=
  b.data = staged.2.data.bytes ∧ staged.2.exUnits = some (b.mem, b.steps) ∧
  Target tx.inputs (tx.mint.map (·.1)) staged.1 b

theorem positionOf_ok {α : Type} [DecidableEq α] (l : List α) (x : α) (k : Nat) (h : positionOf l x = .ok k) :
    l[k]? = some x := by
  unfold positionOf at h
  split at h
  · next k' hk => cases h; exact findIdx?_getElem? l x k hk
  · cases h

theorem buildRedeemer_ok (inputs : List Inp) (policies : List Hash) (p : Purpose) (r : Redeemer) (b : BuiltRedeemer)
    (h : buildRedeemer inputs policies p r = .ok b) :
    b.data = r.data.bytes ∧ r.exUnits = some (b.mem, b.steps) ∧ Target inputs policies p b := by
  unfold buildRedeemer at h
  simp only [bind_eq_ok] at h
  obtain ⟨ex, hex, _, _, hp⟩ := h
  have hex' : r.exUnits = some ex := by
    cases hr : r.exUnits with
    | none => simp [hr] at hex
    | some e => simp [hr] at hex; rw [hex]
  cases p with
  | spend i =>
    simp only [bind_eq_ok] at hp
    obtain ⟨k, hk, hb⟩ := hp
    cases hb
    exact ⟨rfl, hex', ⟨rfl, positionOf_ok _ _ _ hk⟩⟩
  | mint pid =>
    simp only [bind_eq_ok] at hp
    obtain ⟨k, hk, hb⟩ := hp
    cases hb
    exact ⟨rfl, hex', ⟨rfl, positionOf_ok _ _ _ hk⟩⟩

theorem buildRedeemers_ok (inputs : List Inp) (policies : List Hash) (l : List (Purpose × Redeemer))
    (bs : List BuiltRedeemer) (h : buildRedeemers inputs policies l = .ok bs) :
    Forall2 (fun (st : Purpose × Redeemer) b =>
      b.data = st.2.data.bytes ∧ st.2.exUnits = some (b.mem, b.steps) ∧ Target inputs policies st.1 b) l bs := by
  induction l generalizing bs with
  | nil => simp [buildRedeemers] at h; subst h; exact .nil
  | cons e t ih =>
    obtain ⟨p, r⟩ := e
    unfold buildRedeemers at h
    simp only [bind_eq_ok] at h
    obtain ⟨b, hb, bs', hbs, he⟩ := h
    cases he
    exact .cons (buildRedeemer_ok _ _ p r b hb) (ih bs' hbs)

/-- Each redeemer points at its target: one built redeemer per staged one (same order as the
    model's iteration), carrying its payload and budget, whose index is the position of the spent
    input in the input field / of the policy in the mint field. -/
theorem build_redeemers_point_at_targets (s : Staging) (tx : BuiltTx) (h : build s = .ok tx) :
    Forall2 (PointsAt tx) s.redeemers tx.redeemers := by
  have hi := build_inputs_eq s tx h
  have hm := build_mint_eq s tx h
  obtain ⟨_, _, redeemers, _, _, _, hr, _, htx⟩ := build_ok_inv s tx h
  have hrd : tx.redeemers = redeemers := by rw [htx]
  rw [hrd]
  unfold PointsAt
  rw [hi, hm]
  exact buildRedeemers_ok _ _ _ _ hr

/-! ## the mint field -/

/-- staged quantity of an asset -/
def qty {Q : Type} (m : Assets Q) (p : Hash) (name : Bytes) : Option Q := (alFind m p).bind (alFind · name)

/-- The mint field holds exactly the staged entries whose quantity is not zero. -/
theorem build_mint_content (s : Staging) (tx : BuiltTx) (h : build s = .ok tx) (p : Hash) (name : Bytes) (q : Int) :
    (∃ names, (p, names) ∈ tx.mint ∧ (name, q) ∈ names) ↔
      (q ≠ 0 ∧ ∃ orig, (p, orig) ∈ s.mint ∧ (name, q) ∈ orig) := by
  rw [build_mint_eq s tx h]
  simp only [mem_nonZeroAssets]
  constructor
  · rintro ⟨names, ⟨_, orig, ho, rfl⟩, hm⟩
    simp only [List.mem_filter, Bool.not_eq_eq_eq_not, Bool.not_true, decide_eq_false_iff_not] at hm
    exact ⟨hm.2, orig, ho, hm.1⟩
  · rintro ⟨hq, orig, ho, hm⟩
    refine ⟨orig.filter (fun x => !decide (x.2 = 0)), ⟨?_, orig, ho, rfl⟩, ?_⟩
    · intro he
      have : (name, q) ∈ orig.filter (fun x => !decide (x.2 = 0)) := by simp [List.mem_filter, hm, hq]
      rw [he] at this; simp at this
    · simp [List.mem_filter, hm, hq]

/-- no zero quantity and no empty policy is ever written into the mint field -/
theorem build_mint_no_zero (s : Staging) (tx : BuiltTx) (h : build s = .ok tx) :
    ∀ p names, (p, names) ∈ tx.mint → names ≠ [] ∧ ∀ n q, (n, q) ∈ names → q ≠ 0 := by
  rw [build_mint_eq s tx h]
  intro p names hm
  obtain ⟨hne, orig, _, rfl⟩ := (mem_nonZeroAssets _ _ _ _).mp hm
  refine ⟨hne, fun n q hq => ?_⟩
  simp only [List.mem_filter, Bool.not_eq_eq_eq_not, Bool.not_true, decide_eq_false_iff_not] at hq
  exact hq.2

/-- `mint_asset` adds the amount to what is staged under (policy, name) — so opposite amounts
    cancel to a staged zero, which `build` then drops — and touches nothing else. -/
theorem mint_asset_accumulates (m m' : Assets Int) (p : Hash) (name : Bytes) (amount : Int)
    (h : accumulate i64Add m p name amount = .ok m') :
    qty m' p name = some ((qty m p name).getD 0 + amount) ∧
    ∀ p' name', (p', name') ≠ (p, name) → qty m' p' name' = qty m p' name' := by
  unfold accumulate at h
  split at h
  · cases h
  · cases hp : alFind m p with
    | none =>
      simp only [hp] at h
      cases h
      refine ⟨by simp [qty, hp, alFind_insert_self, alFind], ?_⟩
      intro p' name' hne
      by_cases hpp : p' = p
      · subst hpp
        have hn : name' ≠ name := fun e => hne (by rw [e])
        have : ¬ name = name' := fun e => hn e.symm
        simp [qty, hp, alFind_insert_self, alFind, this]
      · simp [qty, alFind_insert_ne _ _ _ _ hpp]
    | some pm =>
      simp only [hp] at h
      cases hn : alFind pm name with
      | none =>
        simp only [hn] at h
        cases h
        refine ⟨by simp [qty, hp, hn, alFind_insert_self], ?_⟩
        intro p' name' hne
        by_cases hpp : p' = p
        · subst hpp
          have hnn : name' ≠ name := fun e => hne (by rw [e])
          simp [qty, hp, alFind_insert_self, alFind_insert_ne _ _ _ _ hnn]
        · simp [qty, alFind_insert_ne _ _ _ _ hpp]
      | some q =>
        simp only [hn] at h
        cases hs : i64Add q amount with
        | none => simp [hs] at h
        | some sum =>
          simp only [hs] at h
          cases h
          have hsum : sum = q + amount := by
            unfold i64Add at hs
            split at hs
            · cases hs; rfl
            · cases hs
          refine ⟨by simp [qty, hp, hn, alFind_insert_self, hsum], ?_⟩
          intro p' name' hne
          by_cases hpp : p' = p
          · subst hpp
            have hnn : name' ≠ name := fun e => hne (by rw [e])
            simp [qty, hp, alFind_insert_self, alFind_insert_ne _ _ _ _ hnn]
          · simp [qty, alFind_insert_ne _ _ _ _ hpp]

/-! ## reachable stagings: one entry per policy, hence the mint redeemer index is the ledger's -/

def MintWF (s : Staging) : Prop := (s.mint.map (·.1)).Nodup

theorem accumulate_nodup {Q : Type} (add : Q → Q → Option Q) (m m' : Assets Q) (p : Hash) (name : Bytes) (a : Q)
    (hm : (m.map (·.1)).Nodup) (h : accumulate add m p name a = .ok m') : (m'.map (·.1)).Nodup := by
  unfold accumulate at h
  split at h
  · cases h
  · split at h
    · split at h
      · split at h
        · cases h; exact nodup_keys_insert _ _ _ hm
        · cases h
      · cases h; exact nodup_keys_insert _ _ _ hm
    · cases h; exact nodup_keys_insert _ _ _ hm

theorem apply_mintWF (s s' : Staging) (op : Op) (hw : MintWF s) (h : s.apply op = .ok s') : MintWF s' := by
  cases op <;> simp only [Staging.apply] at h
  case mintAsset p name amount =>
    unfold Staging.mintAsset at h
    cases ha : accumulate i64Add s.mint p name amount with
    | ok m => simp only [ha] at h; cases h; exact accumulate_nodup _ _ _ _ _ _ hw ha
    | err e => simp [ha] at h
    | panic => simp [ha] at h
  case removeMintAsset p name =>
    cases h
    unfold Staging.removeMintAsset
    split
    · dsimp only
      split
      · exact nodup_keys_erase _ _ hw
      · exact nodup_keys_insert _ _ _ hw
    · exact hw
  case removeOutput idx =>
    unfold Staging.removeOutput at h
    split at h
    · cases h; exact hw
    · cases h
  case addLanguage kind costs =>
    cases h
    unfold Staging.addLanguage
    split <;> exact hw
  case addAux d =>
    cases h
    unfold Staging.addAux
    split <;> exact hw
  all_goals (cases h; exact hw)

theorem applyAll_mintWF (ops : List Op) (s : Staging) (hw : MintWF s) : MintWF (s.applyAll ops) := by
  induction ops generalizing s with
  | nil => exact hw
  | cons op ops ih =>
    unfold Staging.applyAll
    cases h : s.apply op with
    | ok s' => exact ih s' (apply_mintWF s s' op hw h)
    | err e => exact ih s hw
    | panic => exact ih s hw

/-- For every history of builder calls, the policy ids of the built mint field are strictly
    ascending — so the mint-redeemer index of `build_redeemers_point_at_targets` is the position
    in the ledger's order of minting policies. -/
theorem mint_policies_ascending (ops : List Op) (tx : BuiltTx)
    (h : build (({} : Staging).applyAll ops) = .ok tx) : (tx.mint.map (·.1)).Pairwise (· < ·) := by
  have hw : MintWF (({} : Staging).applyAll ops) := applyAll_mintWF ops {} (by simp [MintWF])
  rw [build_mint_eq _ tx h]
  exact nonZeroAssets_sorted _ _ hw

/-! ## everything else is passed through -/

theorem buildBabbageRaw_ok (o : Output) (b : BuiltOutput) (h : o.buildBabbageRaw = .ok b) :
    b.addr = o.addr ∧ b.coin = o.coin ∧ b.datum = o.datum ∧ b.script = o.script ∧
    b.assets = nonZeroAssets (fun q => decide (q = 0)) o.assets := by
  unfold Output.buildBabbageRaw at h
  simp only [bind_eq_ok] at h
  obtain ⟨_, _, _, _, hb⟩ := h
  cases hb
  exact ⟨rfl, rfl, rfl, rfl, rfl⟩

theorem buildOutputs_ok (l : List Output) (bs : List BuiltOutput) (h : buildOutputs l = .ok bs) :
    Forall2 (fun (o : Output) (b : BuiltOutput) =>
      b.addr = o.addr ∧ b.coin = o.coin ∧ b.datum = o.datum ∧ b.script = o.script ∧
      b.assets = nonZeroAssets (fun q => decide (q = 0)) o.assets) l bs := by
  induction l generalizing bs with
  | nil => simp [buildOutputs] at h; subst h; exact .nil
  | cons o t ih =>
    unfold buildOutputs at h
    simp only [bind_eq_ok] at h
    obtain ⟨b, hb, bs', hbs, he⟩ := h
    cases he
    exact .cons (buildBabbageRaw_ok o b hb) (ih bs' hbs)

/-- Outputs come out in staging order with the staged address, coin, datum and script; their
    assets are the staged non-zero quantities (policy ids ascending). -/
theorem build_outputs_content (s : Staging) (tx : BuiltTx) (h : build s = .ok tx) :
    Forall2 (fun (o : Output) (b : BuiltOutput) =>
      b.addr = o.addr ∧ b.coin = o.coin ∧ b.datum = o.datum ∧ b.script = o.script ∧
      b.assets = nonZeroAssets (fun q => decide (q = 0)) o.assets) s.outputs tx.outputs := by
  obtain ⟨outputs, _, _, _, ho, _, _, _, htx⟩ := build_ok_inv s tx h
  have : tx.outputs = outputs := by rw [htx]
  rw [this]
  exact buildOutputs_ok _ _ ho

theorem witnessDatums_ok (d ds : List Bytes) (h : witnessDatums d = .ok ds) : ds = d := by
  unfold witnessDatums fromVec at h
  cases d with
  | nil => simp at h; simp [h]
  | cons a t => simp at h; simp [h]

/-- Collateral, reference inputs, required signers, validity bounds, network id, fee, witness-set
    datums and scripts and the auxiliary data are the staged ones; the two hash fields are present
    exactly when their source is. -/
theorem build_content (s : Staging) (tx : BuiltTx) (h : build s = .ok tx) :
    tx.collateral = s.collIns ∧ tx.refInputs = s.refInputs ∧ tx.signers = s.signers ∧
    tx.validFrom = s.validFrom ∧ tx.ttl = s.invalidFrom ∧ tx.networkId = s.networkId ∧
    tx.fee = s.fee.getD 0 ∧ tx.datums = s.datums.map (·.2.bytes) ∧
    tx.scripts = s.scripts.map (fun e => (e.2.kind, e.2.body.bytes)) ∧ tx.aux = s.aux ∧
    tx.scriptDataHash = scriptDataHashOf tx.redeemers tx.datums s.langViews ∧ tx.auxDataHash = s.aux.isSome ∧
    (∀ n, tx.networkId = some n → n ≤ 1) ∧
    (match s.collOut with
      | some o => ∃ b, tx.collateralReturn = some b ∧ b.addr = o.addr ∧ b.coin = o.coin ∧ b.datum = o.datum ∧ b.script = o.script
      | none => tx.collateralReturn = none) := by
  have h0 := h
  obtain ⟨_, collRet, _, datums, _, hc, _, hd, rfl⟩ := build_ok_inv s tx h
  refine ⟨rfl, rfl, rfl, rfl, rfl, rfl, rfl, witnessDatums_ok _ _ hd, rfl, rfl, rfl, rfl, ?_, ?_⟩
  · intro n hn
    unfold build at h0
    simp only [bind_eq_ok] at h0
    obtain ⟨_, _, _, hnet, _⟩ := h0
    simp only at hn
    rw [hn] at hnet
    simp only [failIf] at hnet
    split at hnet
    · cases hnet
    · next hgt => simp at hgt; exact hgt
  · cases hco : s.collOut with
    | none => simp only [hco] at hc ⊢; exact hc
    | some o =>
      simp only [hco] at hc ⊢
      obtain ⟨b, hb, rfl⟩ := hc
      obtain ⟨h1, h2, h3, h4, _⟩ := buildBabbageRaw_ok o b hb
      exact ⟨b, rfl, h1, h2, h3, h4⟩

/-- `script_data_hash` is present exactly when language views were staged and the witness set
    carries a redeemer or a datum; it is then BLAKE2b-256 (`Model/Blake2b.lean`) of C08's
    `ScriptData` hash input: the redeemers as written (or `a0`), the datum set as written, the
    canonical language-view encoding when there are redeemers (else `a0`). -/
theorem build_script_data_hash (s : Staging) (tx : BuiltTx) (h : build s = .ok tx) :
    (tx.scriptDataHash.isSome = (s.langViews.isSome && (!tx.redeemers.isEmpty || !tx.datums.isEmpty))) ∧
    ∀ lv, s.langViews = some lv → (!tx.redeemers.isEmpty || !tx.datums.isEmpty) = true →
      tx.scriptDataHash = some ((Blake2b.blake2b256 (ScriptData.hashInput
        { redeemers := if tx.redeemers.isEmpty then none else some (redeemersBytes tx.redeemers),
          datums := if tx.datums.isEmpty then none else some (datumSetBytes tx.datums),
          languageViews := if tx.redeemers.isEmpty then none else some (ScriptData.fromList lv) })).map (·.toNat)) := by
  have hc := (build_content s tx h).2.2.2.2.2.2.2.2.2.2.1
  rw [hc]
  constructor
  · cases hl : s.langViews with
    | none => simp [scriptDataHashOf]
    | some lv =>
      simp only [scriptDataHashOf, ScriptData.buildFor, Option.isSome_some, Bool.true_and]
      cases hr : tx.redeemers.isEmpty <;> cases hd : tx.datums.isEmpty <;> simp
  · intro lv hl hne
    simp only [hl, scriptDataHashOf, ScriptData.buildFor, ScriptData.hashOf]
    cases hr : tx.redeemers.isEmpty <;> cases hd : tx.datums.isEmpty <;> simp [hr, hd] at hne ⊢

/-! ## the id (model level: hash and encoder are parameters) -/

/-- `BuiltTransaction { tx_hash: H(encode(body)), tx_bytes: encode(tx) }` -/
structure Built (Bs Hs : Type) where
  txBytes : Bs
  txHash : Hs

/-- If the transaction encoder writes the body's own encoding as the span that a decoder reads
    back as the body (`bodySpan`), the reported id is the hash of exactly that span. Both the
    hash and the encoder are parameters: this is the shape of the id clause, not a statement about
    BLAKE2b or CBOR (the harness recomputes BLAKE2b-256 over the span it slices itself). -/
theorem build_id_is_hash_of_body_span {Bs Hs Body Tx : Type} (H : Bs → Hs) (encBody : Body → Bs)
    (encTx : Tx → Bs) (bodyOf : Tx → Body) (bodySpan : Bs → Bs)
    (hspan : ∀ t, bodySpan (encTx t) = encBody (bodyOf t)) (t : Tx)
    (b : Built Bs Hs) (hb : b = { txBytes := encTx t, txHash := H (encBody (bodyOf t)) }) :
    b.txHash = H (bodySpan b.txBytes) := by
  subst hb; simp [hspan]

/-! ## when is a staging accepted -/

/-- an output `build_babbage_raw` refuses: datum hash of the wrong length, undecodable inline
    datum, undecodable native script reference -/
def OutputBad (o : Output) : Prop :=
  (∃ b, o.datum = some (.hash b) ∧ b.length ≠ 32) ∨ (∃ d, o.datum = some (.inline d) ∧ d.ok = false) ∨
  (∃ sc, o.script = some sc ∧ sc.kind = 0 ∧ sc.body.ok = false)

/-- a redeemer the loop refuses: no execution units, undecodable payload, or a target that is not
    among the (deduplicated) inputs / the policies with a non-zero mint -/
def RedeemerBad (inputs : List Inp) (policies : List Hash) (p : Purpose) (r : Redeemer) : Prop :=
  r.exUnits = none ∨ r.data.ok = false ∨
  (match p with
   | .spend i => i ∉ inputs
   | .mint pid => pid ∉ policies)

theorem failIf_ok (c : Bool) (e : Err) (u : Unit) : failIf c e = .ok u ↔ c = false := by
  unfold failIf; cases c <;> simp

theorem buildBabbageRaw_ok_iff (o : Output) : (∃ b, o.buildBabbageRaw = .ok b) ↔ ¬ OutputBad o := by
  unfold Output.buildBabbageRaw OutputBad
  simp only [bind_eq_ok]
  constructor
  · rintro ⟨b, _, h1, _, h2, _⟩
    rintro (⟨bs, hd, hl⟩ | ⟨d, hd, hok⟩ | ⟨sc, hs, hk, hok⟩)
    · rw [hd] at h1; simp only [failIf_ok, bne_eq_false_iff_eq] at h1; exact hl h1
    · rw [hd] at h1; simp only [failIf_ok, hok] at h1; cases h1
    · rw [hs] at h2; simp only [failIf_ok, hk, hok] at h2; cases h2
  · intro hn
    refine ⟨_, (), ?_, (), ?_, rfl⟩
    · cases hd : o.datum with
      | none => rfl
      | some d =>
        cases d with
        | hash b =>
          simp only [failIf_ok, bne_eq_false_iff_eq]
          exact Classical.byContradiction (fun hl => hn (.inl ⟨b, hd, hl⟩))
        | inline d =>
          simp only [failIf_ok, Bool.not_eq_false']
          cases hok : d.ok with
          | true => rfl
          | false => exact absurd (.inr (.inl ⟨d, hd, hok⟩)) hn
    · cases hs : o.script with
      | none => rfl
      | some sc =>
        simp only [failIf_ok, Bool.and_eq_false_imp, beq_iff_eq, Bool.not_eq_false']
        intro hk
        cases hok : sc.body.ok with
        | true => rfl
        | false => exact absurd (.inr (.inr ⟨sc, hs, hk, hok⟩)) hn

theorem buildOutputs_ok_iff (l : List Output) : (∃ bs, buildOutputs l = .ok bs) ↔ ∀ o ∈ l, ¬ OutputBad o := by
  induction l with
  | nil => simp [buildOutputs]
  | cons o t ih =>
    unfold buildOutputs
    simp only [bind_eq_ok, List.mem_cons, forall_eq_or_imp]
    constructor
    · rintro ⟨_, b, hb, bs, hbs, _⟩
      exact ⟨(buildBabbageRaw_ok_iff o).mp ⟨b, hb⟩, ih.mp ⟨bs, hbs⟩⟩
    · rintro ⟨ho, ht⟩
      obtain ⟨b, hb⟩ := (buildBabbageRaw_ok_iff o).mpr ho
      obtain ⟨bs, hbs⟩ := ih.mpr ht
      exact ⟨_, b, hb, bs, hbs, rfl⟩

theorem positionOf_ok_iff {α : Type} [DecidableEq α] (l : List α) (x : α) : (∃ k, positionOf l x = .ok k) ↔ x ∈ l := by
  unfold positionOf
  constructor
  · rintro ⟨k, h⟩
    split at h
    · next k' hk =>
      have := findIdx?_getElem? l x k' hk
      exact List.mem_of_getElem? this
    · cases h
  · intro hm
    have := findIdx?_isSome_of_mem l x hm
    cases hf : l.findIdx? (fun y => decide (y = x)) with
    | none => simp [hf] at this
    | some k => exact ⟨k, rfl⟩

theorem buildRedeemer_ok_iff (inputs : List Inp) (policies : List Hash) (p : Purpose) (r : Redeemer) :
    (∃ b, buildRedeemer inputs policies p r = .ok b) ↔ ¬ RedeemerBad inputs policies p r := by
  unfold buildRedeemer RedeemerBad
  simp only [bind_eq_ok]
  constructor
  · rintro ⟨b, ex, hex, _, hd, hp⟩
    rintro (hn | hn | hn)
    · rw [hn] at hex; cases hex
    · simp only [failIf_ok, hn] at hd; cases hd
    · cases p with
      | spend i =>
        simp only [bind_eq_ok] at hp
        obtain ⟨k, hk, _⟩ := hp
        exact hn ((positionOf_ok_iff inputs i).mp ⟨k, hk⟩)
      | mint pid =>
        simp only [bind_eq_ok] at hp
        obtain ⟨k, hk, _⟩ := hp
        exact hn ((positionOf_ok_iff policies pid).mp ⟨k, hk⟩)
  · intro hn
    cases hex : r.exUnits with
    | none => exact absurd (.inl hex) hn
    | some ex =>
      have hok : r.data.ok = true := by
        cases h : r.data.ok with
        | true => rfl
        | false => exact absurd (.inr (.inl h)) hn
      cases p with
      | spend i =>
        have hm : i ∈ inputs := Classical.byContradiction (fun h => hn (.inr (.inr h)))
        obtain ⟨k, hk⟩ := (positionOf_ok_iff inputs i).mpr hm
        exact ⟨_, ex, rfl, (), by simp [failIf_ok, hok], by simp only [bind_eq_ok]; exact ⟨k, hk, rfl⟩⟩
      | mint pid =>
        have hm : pid ∈ policies := Classical.byContradiction (fun h => hn (.inr (.inr h)))
        obtain ⟨k, hk⟩ := (positionOf_ok_iff policies pid).mpr hm
        exact ⟨_, ex, rfl, (), by simp [failIf_ok, hok], by simp only [bind_eq_ok]; exact ⟨k, hk, rfl⟩⟩

theorem buildRedeemers_ok_iff (inputs : List Inp) (policies : List Hash) (l : List (Purpose × Redeemer)) :
    (∃ bs, buildRedeemers inputs policies l = .ok bs) ↔ ∀ e ∈ l, ¬ RedeemerBad inputs policies e.1 e.2 := by
  induction l with
  | nil => simp [buildRedeemers]
  | cons e t ih =>
    obtain ⟨p, r⟩ := e
    unfold buildRedeemers
    simp only [bind_eq_ok, List.mem_cons, forall_eq_or_imp]
    constructor
    · rintro ⟨_, b, hb, bs, hbs, _⟩
      exact ⟨(buildRedeemer_ok_iff inputs policies p r).mp ⟨b, hb⟩, ih.mp ⟨bs, hbs⟩⟩
    · rintro ⟨ho, ht⟩
      obtain ⟨b, hb⟩ := (buildRedeemer_ok_iff inputs policies p r).mpr ho
      obtain ⟨bs, hbs⟩ := ih.mpr ht
      exact ⟨_, b, hb, bs, hbs, rfl⟩

/-- the reasons for which `build` refuses a staging -/
def Refused (s : Staging) : Prop :=
  (∃ o ∈ s.outputs, OutputBad o) ∨ (∃ n, s.networkId = some n ∧ n > 1) ∨ (∃ o, s.collOut = some o ∧ OutputBad o) ∨
  (∃ e ∈ s.scripts, e.2.kind = 0 ∧ e.2.body.ok = false) ∨ (∃ e ∈ s.datums, e.2.ok = false) ∨
  (∃ e ∈ s.redeemers, RedeemerBad (dedup (isort inpLe s.inputs))
      ((nonZeroAssets (fun q => decide (q = 0)) s.mint).map (·.1)) e.1 e.2)

/-- `build` accepts a staging exactly when none of the documented reasons for refusal holds: it
    neither refuses without cause nor accepts a malformed staging (so the theorems about accepted
    builds are not vacuous for any staging free of those defects). -/
theorem build_accepts_iff (s : Staging) : (∃ tx, build s = .ok tx) ↔ ¬ Refused s := by
  unfold build Refused
  simp only [bind_eq_ok]
  constructor
  · rintro ⟨tx, outputs, ho, _, hnet, cr, hcr, _, hsc, _, hdt, rds, hrd, ds, hds, _⟩
    rintro (⟨o, hm, hb⟩ | ⟨n, hn, hgt⟩ | ⟨o, hco, hb⟩ | ⟨e, hm, hk, hok⟩ | ⟨e, hm, hok⟩ | ⟨e, hm, hb⟩)
    · exact (buildOutputs_ok_iff s.outputs).mp ⟨outputs, ho⟩ o hm hb
    · rw [hn] at hnet; simp only [failIf_ok, decide_eq_false_iff_not] at hnet; exact hnet hgt
    · rw [hco] at hcr
      simp only [bind_eq_ok] at hcr
      obtain ⟨b, hb', _⟩ := hcr
      exact (buildBabbageRaw_ok_iff o).mp ⟨b, hb'⟩ hb
    · simp only [failIf_ok, scriptsErr, List.any_eq_false] at hsc
      have := hsc e hm
      simp [hk, hok] at this
    · simp only [failIf_ok, List.any_eq_false] at hdt
      have := hdt e hm
      simp [hok] at this
    · exact (buildRedeemers_ok_iff _ _ s.redeemers).mp ⟨rds, hrd⟩ e hm hb
  · intro hn
    obtain ⟨outputs, ho⟩ := (buildOutputs_ok_iff s.outputs).mpr (fun o hm hb => hn (.inl ⟨o, hm, hb⟩))
    have hnet : (match s.networkId with | some n => failIf (decide (n > 1)) .netId | none => Res.ok ()) = .ok () := by
      cases hni : s.networkId with
      | none => rfl
      | some n =>
        simp only [failIf_ok, decide_eq_false_iff_not]
        intro hgt; exact hn (.inr (.inl ⟨n, hni, hgt⟩))
    have hcr : ∃ cr, (match s.collOut with | some o => o.buildBabbageRaw.bind fun b => Res.ok (some b) | none => Res.ok none) = .ok cr := by
      cases hco : s.collOut with
      | none => exact ⟨none, rfl⟩
      | some o =>
        obtain ⟨b, hb⟩ := (buildBabbageRaw_ok_iff o).mpr (fun hb => hn (.inr (.inr (.inl ⟨o, hco, hb⟩))))
        exact ⟨some b, by simp [bind_eq_ok, hb]⟩
    obtain ⟨cr, hcr⟩ := hcr
    have hsc : failIf (scriptsErr s.scripts) .script = .ok () := by
      simp only [failIf_ok, scriptsErr, List.any_eq_false]
      intro e hm
      cases hok : e.2.body.ok with
      | true => simp
      | false =>
        by_cases hk : e.2.kind = 0
        · exact absurd (.inr (.inr (.inr (.inl ⟨e, hm, hk, hok⟩)))) hn
        · simp [hk]
    have hdt : failIf (s.datums.any (fun e => !e.2.ok)) .datum = .ok () := by
      simp only [failIf_ok, List.any_eq_false]
      intro e hm
      cases hok : e.2.ok with
      | true => simp
      | false => exact absurd (.inr (.inr (.inr (.inr (.inl ⟨e, hm, hok⟩))))) hn
    obtain ⟨rds, hrd⟩ := (buildRedeemers_ok_iff _ _ s.redeemers).mpr
      (fun e hm hb => hn (.inr (.inr (.inr (.inr (.inr ⟨e, hm, hb⟩))))))
    have hds : ∃ ds, witnessDatums (s.datums.map (fun e => e.2.bytes)) = .ok ds := by
      cases hw : witnessDatums (s.datums.map (fun e => e.2.bytes)) with
      | ok ds => exact ⟨ds, rfl⟩
      | err e =>
        unfold witnessDatums fromVec at hw
        cases hd : s.datums.map (fun e => e.2.bytes) <;> simp [hd] at hw
      | panic => exact absurd hw (witnessDatums_ne_panic _)
    obtain ⟨ds, hds⟩ := hds
    exact ⟨_, outputs, ho, (), hnet, cr, hcr, (), hsc, (), hdt, rds, hrd, ds, hds, rfl⟩

/-- the same with the hash function instantiated to the Lean BLAKE2b-256 of `Model/Blake2b.lean`
    (the encoder of the transaction body is still a parameter: it is not modelled here) -/
theorem build_id_is_blake2b256_of_body_span {Body Tx : Type} (encBody : Body → Blake2b.Bytes)
    (encTx : Tx → Blake2b.Bytes) (bodyOf : Tx → Body) (bodySpan : Blake2b.Bytes → Blake2b.Bytes)
    (hspan : ∀ t, bodySpan (encTx t) = encBody (bodyOf t)) (t : Tx) :
    let b : Built Blake2b.Bytes Blake2b.Bytes := { txBytes := encTx t, txHash := Blake2b.blake2b256 (encBody (bodyOf t)) }
    b.txHash = Blake2b.blake2b256 (bodySpan b.txBytes) :=
  build_id_is_hash_of_body_span Blake2b.blake2b256 encBody encTx bodyOf bodySpan hspan t _ rfl

/-! ## the id, concretely -/

open PallasVerif.Cbor in
/-- The id clause, concretely: whenever the model produces `tx_bytes` for a built transaction,
    (1) those bytes are a single well-formed CBOR item — a 4-element array whose first element is the
    body's own encoding (`bodySpan`, how a reader slices the body out of `tx_bytes`), and
    (2) the reported id is the Lean BLAKE2b-256 (`Model/Blake2b.lean`) of exactly that span.
    Body and witness set are encoded by C06's model of the derived encoders over the generated
    Conway schemas. -/
theorem build_id_concrete (t : BuiltTx) (bs : TxBuildEnc.B8) (h : TxBuildEnc.txBytes t = some bs) :
    ∃ body, TxBuildEnc.bodyBytes t = some body ∧ TxBuildEnc.bodySpan bs = some body ∧
      TxBuildEnc.txId t = some (Blake2b.blake2b256 body) := by
  unfold TxBuildEnc.txBytes at h
  cases hi : TxBuildEnc.txItem t with
  | none => simp [hi] at h
  | some it =>
    simp only [hi] at h
    split at h
    · next hwf =>
      cases h
      unfold TxBuildEnc.txItem at hi
      cases hb : TxBuildEnc.bodyItem t with
      | none => simp [hb] at hi
      | some b =>
        cases hw : TxBuildEnc.witnessItem t with
        | none => simp [hb, hw] at hi
        | some w =>
          cases ha : TxBuildEnc.auxField t with
          | none => simp [hb, hw, ha] at hi
          | some a =>
            simp only [hb, hw, ha, Option.some.injEq] at hi
            subst hi
            refine ⟨b.encode, by simp [TxBuildEnc.bodyBytes, hb], ?_, by simp [TxBuildEnc.txId, TxBuildEnc.bodyBytes, hb]⟩
            unfold TxBuildEnc.bodySpan
            have hp := parseItem_encode (mkArray [b, w, mkBool true, a]) [] hwf
            rw [List.append_nil] at hp
            rw [hp]
            rfl
    · cases h

/-! ## Non-vacuity -/
section
def exS : Staging :=
  ({} : Staging).applyAll [
    .input (7, 1), .input (3, 5), .input (7, 1), .input (3, 0),
    .mintAsset 9 [65] 5, .mintAsset 9 [65] (-5), .mintAsset 4 [66] 2, .mintAsset 9 [67] 1,
    .output { addr := [97], coin := 10, assets := [(4, [([66], 0)])], datum := none, script := none },
    .addRedeemer (.spend (7, 1)) { data := { bytes := [24, 42], ok := true }, exUnits := some (1, 2) },
    .addRedeemer (.mint 9) { data := { bytes := [1], ok := true }, exUnits := some (3, 4) }]

def summary (r : Res BuiltTx) : Option (List Inp × List (Nat × List (Bytes × Int)) × List (Nat × Nat) × List (List (Nat × List (Bytes × Nat)))) :=
  match r with
  | .ok t => some (t.inputs, t.mint, t.redeemers.map (fun r => (r.tag, r.index)), t.outputs.map (·.assets))
  | _ => none

-- duplicates collapse, the cancelled asset and the zero output asset are gone, pointers follow the order
example : summary (build exS) =
    some ([(3, 0), (3, 5), (7, 1)], [(4, [([66], 2)]), (9, [([67], 1)])], [(1, 1), (0, 2)], [[]]) := by rfl

example : (match build (exS.applyAll [.addRedeemer (.mint 5) { data := { bytes := [1], ok := true }, exUnits := none }]) with
    | .err .exUnits => true | _ => false) = true := by decide
example : (match build (exS.applyAll [.networkId (some 2)]) with | .err .netId => true | _ => false) = true := by decide
example : qty exS.mint 9 [65] = some 0 := by decide
end

end PallasVerif.Props.C40
