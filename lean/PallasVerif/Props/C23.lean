import PallasVerif.Gen.FsmN1
import PallasVerif.Model.FsmSpecN1
import PallasVerif.Proofs.Agent
/-!
# C23 — Original-stack agents follow the mini-protocol state machines

`Gen/FsmN1.lean` is regenerated on every run from every `client.rs` / `server.rs` of the nine
protocols the property names (`has_agency`, `assert_outbound_state`, `assert_inbound_state`, the
shape of `send_message` / `recv_message`, and every `self.0 = State::X` after a send or in an arm of a
receiving method). `Model/FsmSpecN1.lean` holds the hand-written specification tables.

* `unknowns_nil`, `agents_covered` — the translator classified every construct; all nine protocols
  have their agents (17: tx-monitor has a client only).
* `agents_conform` — every agent conforms to its protocol's specification (`Agent.AgentTable`,
  decided over the complete state × message product): `has_agency` is the role's agency;
  `send_message` accepts exactly the messages the role may send in the state; `recv_message` accepts
  exactly the messages the peer may send; every state assignment after an accepted exchange is the
  specification's successor; every exchange of the specification has a method performing it.
* `send_accepts_iff_spec`, `recv_accepts_iff_spec`, `exchange_ends_in_prescribed_state`,
  `agent_refines_spec` (every history of low-level and method calls, induction, no length bound),
  `rejected_leaves_state`, `agency_exclusive`, `paired_no_deadlock`, `paired_lockstep`.
-/
namespace PallasVerif.Props.C23
open PallasVerif.Fsm PallasVerif.Agent PallasVerif.Gen PallasVerif.FsmSpecN1

theorem unknowns_nil : FsmN1.unknowns = [] := by decide

/-- every protocol of the property has a client agent, and all but tx-monitor a server agent; there
    are no agents of other protocols in the table -/
theorem agents_covered :
    (∀ sp ∈ specs, ∃ a ∈ FsmN1.agents, a.proto = sp.name ∧ a.role = .client) ∧
    (∀ sp ∈ specs, sp.name ≠ "txmonitor" → ∃ a ∈ FsmN1.agents, a.proto = sp.name ∧ a.role = .server) ∧
    (∀ a ∈ FsmN1.agents, a.proto ∈ specs.map (·.name)) ∧
    (specs.map (·.name)).Nodup ∧ (FsmN1.agents.map (fun a => (a.proto, a.role))).Nodup := by decide

/-- The property on the tables: every agent conforms to the specification of its protocol. -/
theorem agents_conform :
    ∀ a ∈ FsmN1.agents, ∀ sp ∈ specs, a.proto = sp.name → AgentTable a sp := by decide

/-! ## the clauses of the property, for every state, message, method and history -/

/-- "accepts to send exactly the messages the specification lets its role send in the current state" -/
theorem send_accepts_iff_spec (a : Agent) (ha : a ∈ FsmN1.agents) (sp : Spec) (hsp : sp ∈ specs)
    (hn : a.proto = sp.name) (s m : String) (hs : s ∈ a.states) (hm : m ∈ a.msgs) :
    (∃ u, a.sendMessage s m = .ok u) ↔ (sp.agency s = a.role ∧ ∃ n, sp.step s m = some n) := by
  have h := (agents_conform a ha sp hsp hn).send_iff s hs m hm
  rw [← toBool_ok, h]
  simp [Option.isSome_iff_exists]

/-- "accepts to receive exactly the messages the peer may send" -/
theorem recv_accepts_iff_spec (a : Agent) (ha : a ∈ FsmN1.agents) (sp : Spec) (hsp : sp ∈ specs)
    (hn : a.proto = sp.name) (s m : String) (hs : s ∈ a.states) (hm : m ∈ a.msgs) :
    (∃ u, a.recvMessage s m = .ok u) ↔ (sp.agency s = peer a.role ∧ ∃ n, sp.step s m = some n) := by
  have h := (agents_conform a ha sp hsp hn).recv_iff s hs m hm
  rw [← toBool_ok, h]
  simp [Option.isSome_iff_exists]

/-- "ends in the state the specification prescribes after each exchange": an accepted method call
    (sending or receiving) is a transition of the specification to the prescribed state -/
theorem exchange_ends_in_prescribed_state (a : Agent) (ha : a ∈ FsmN1.agents) (sp : Spec) (hsp : sp ∈ specs)
    (hn : a.proto = sp.name) (s s' : String) (hs : s ∈ a.states) :
    (∀ st ∈ a.sends, a.callSend s st = .ok s' → sp.step s st.msg = some s') ∧
    (∀ f m ok, m ∈ a.msgs → a.callRecv s f m ok = .ok s' → sp.step s m = some s') := by
  have ht := agents_conform a ha sp hsp hn
  constructor
  · intro st hst h
    have h1 := (step_refines ht s hs (.send st) hst).1
    simp only [Agent.step, h, specStep] at h1
    split at h1 <;> simp_all
  · intro f m ok hm h
    have h1 := (step_refines ht s hs (.recv f m ok) hm).1
    simp only [Agent.step, h, specStep] at h1
    split at h1
    · simp at h1
    · split at h1
      · split at h1 <;> simp_all
      · simp at h1

/-- For every history of calls (low-level sends/receives and methods, any length) from any state:
    verdicts and states are the specification's. -/
theorem agent_refines_spec (a : Agent) (ha : a ∈ FsmN1.agents) (sp : Spec) (hsp : sp ∈ specs)
    (hn : a.proto = sp.name) (es : List Ev) (s : String) (hs : s ∈ a.states) (hwf : ∀ e ∈ es, e.wf a) :
    a.run s es = specRun sp a s es :=
  run_refines (agents_conform a ha sp hsp hn) es s hs hwf

/-- "rejects everything else with an error rather than a state change" -/
theorem rejected_leaves_state (a : Agent) (s : String) (e : Ev) (h : (a.step s e).2 = false) :
    (a.step s e).1 = s := refused_leaves_state a s e h

/-- the two agents of a protocol never both claim agency, they start in the same state … -/
theorem agency_exclusive :
    ∀ c ∈ FsmN1.agents, ∀ sv ∈ FsmN1.agents, c.proto = sv.proto → c.role = .client → sv.role = .server →
      c.init = sv.init ∧ ∀ s ∈ c.states, ¬ (c.hasAgency s = true ∧ sv.hasAgency s = true) := by decide

/-- … and the client × server product never deadlocks: in every state where the specification gives
    somebody agency, one side has a method that sends a message the other side's `recv_message`
    accepts and has a method for -/
theorem paired_no_deadlock :
    ∀ c ∈ FsmN1.agents, ∀ sv ∈ FsmN1.agents, ∀ sp ∈ specs, c.proto = sv.proto → c.proto = sp.name →
      c.role = .client → sv.role = .server →
      ∀ s ∈ c.states, sp.agency s ≠ .nobody →
        (∃ st ∈ c.sends, (c.callSend s st).toBool = true ∧ ∃ st' ∈ sv.recvs, (sv.callRecv s st'.method st.msg).toBool = true) ∨
        (∃ st ∈ sv.sends, (sv.callSend s st).toBool = true ∧ ∃ st' ∈ c.recvs, (c.callRecv s st'.method st.msg).toBool = true) := by
  decide

/-- both sides of an exchange end in the same state (both are the specification's successor) -/
theorem paired_lockstep (c sv : Agent) (hc : c ∈ FsmN1.agents) (hsv : sv ∈ FsmN1.agents) (sp : Spec) (hsp : sp ∈ specs)
    (h1 : c.proto = sp.name) (h2 : sv.proto = sp.name) (s n n' : String) (hs : s ∈ c.states) (hs' : s ∈ sv.states)
    (st : Step) (hst : st ∈ c.sends) (f : String) (ok : Bool) (hm : st.msg ∈ sv.msgs)
    (hsend : c.callSend s st = .ok n) (hrecv : sv.callRecv s f st.msg ok = .ok n') : n = n' := by
  have a := (exchange_ends_in_prescribed_state c hc sp hsp h1 s n hs).1 st hst hsend
  have b := (exchange_ends_in_prescribed_state sv hsv sp hsp h2 s n' hs').2 f st.msg ok hm hrecv
  rw [a] at b; exact Option.some.inj b

/-! ## non-vacuity -/

example : FsmN1.agents.length = 17 := by decide

/-- a concrete history on the real chain-sync client table: request, await, a refused send while the
    server has agency, roll forward -/
example :
    let a := FsmN1.chainsync_client
    a.run a.init [.send ⟨"send_request_next", "RequestNext", some "CanAwait", false, none, "NoOp"⟩,
                  .recv "recv_while_can_await" "AwaitReply" true, .rawSend "RequestNext",
                  .recv "recv_while_must_reply" "RollForward" true]
      = ("Idle", [true, true, false, true]) := by decide

example : FsmN1.txmonitor_client ∈ FsmN1.agents ∧ txmonitor ∈ specs ∧
    (FsmN1.txmonitor_client.sendMessage "Acquired" "Release").toBool = true := by
  refine ⟨by simp [FsmN1.agents], by simp [specs], by decide⟩

end PallasVerif.Props.C23
