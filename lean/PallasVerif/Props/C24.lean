import PallasVerif.Gen.FsmN2
import PallasVerif.Model.FsmSpecN2
import PallasVerif.Proofs.Fsm
/-!
# C24 — P2P stack protocol state machines implement the specification

`Gen/FsmN2.lean` is regenerated on every run from the `State::apply` functions under
`pallas-network2/src/protocol` (one row per state class × message class, Rust's first-match-wins
resolved by the translator; `unknowns` lists anything it could not classify).
`Model/FsmSpecN2.lean` holds the specification tables, written by hand from DESIGN Appendix A.

* `unknowns_nil`, `protocols_covered` — the translator understood every arm, and the code has a state
  machine for exactly the eight protocols the property names.
* `FullStatement` — the property at full strength: every extracted table conforms to its
  specification (`Fsm.Table`: same state and message classes, same initial state, `apply` succeeds
  exactly on the permitted (state, message) pairs with the prescribed successor class, the successor
  carries the message's data). It is **false** on the current tree: `C24_full_fails_at_witness`
  (tx-submission `Txs + ReplyTxs` ends in `Txs`, the specification says `Idle`; known finding).
* `apply_eq_spec_partial` — every (protocol, state, message) triple except that one agrees with
  the specification; `conforms_partial` — seven protocols conform completely, tx-submission
  conforms to the specification amended in that one row (`asImplemented`).
* `apply_refines_spec`, `history_refines_spec`, `apply_carries_data`, `accepts_only_under_agency`,
  `rejected_leaves_state` — the lifting from the finite tables to every concrete state, every message
  payload and every message history (induction on the history, no length bound).
-/
namespace PallasVerif.Props.C24
open PallasVerif.Fsm PallasVerif.Gen PallasVerif.FsmSpecN2

/-- the translator classified every construct of every `apply` -/
theorem unknowns_nil : FsmN2.unknowns = [] := by decide

/-- the code's state machines and the specified protocols are the same eight, each once -/
theorem protocols_covered :
    (∀ p ∈ FsmN2.protos, p.name ∈ specs.map (·.name)) ∧ (∀ sp ∈ specs, sp.name ∈ FsmN2.protos.map (·.name)) ∧
    (FsmN2.protos.map (·.name)).Nodup ∧ (specs.map (·.name)).Nodup := by decide

/-- The property at full strength. -/
def FullStatement : Prop :=
  ∀ p ∈ FsmN2.protos, ∀ sp ∈ specs, p.name = sp.name → Table p sp

/-- the one place where the (repaired) tree still deviates — see known_findings.d/C24.json -/
def knownDeviation (proto st msg : String) : Prop :=
  proto = "txsubmission" ∧ st = "Txs" ∧ msg = "ReplyTxs"

instance (a b c : String) : Decidable (knownDeviation a b c) := by unfold knownDeviation; infer_instance

theorem C24_full_fails_at_witness : ¬ FullStatement := by
  intro h
  have ht := h FsmN2.txsubmission (by simp [FsmN2.protos]) txsubmission (by simp [specs]) (by decide)
  have := ht.step "Txs" (by decide) "ReplyTxs" (by decide)
  revert this
  decide

/-- every transition of every protocol agrees with the specification, except the recorded one -/
theorem apply_eq_spec_partial :
    ∀ p ∈ FsmN2.protos, ∀ sp ∈ specs, p.name = sp.name →
      ∀ s ∈ p.stateNames, ∀ m ∈ p.msgNames, ¬ knownDeviation p.name s m →
        (p.step s m).next? = sp.step s m := by decide

/-- the specification each protocol is shown to conform to: the specification itself, except for
    tx-submission's recorded row -/
def asImplemented (sp : Spec) : Spec :=
  if sp.name = "txsubmission" then txsubmissionAsImplemented else sp

theorem asImplemented_eq (sp : Spec) (h : sp.name ≠ "txsubmission") : asImplemented sp = sp := by
  simp [asImplemented, h]

/-- the amended tx-submission table differs from the specification in the recorded row only -/
theorem asImplemented_differs_only_at_known :
    ∀ s ∈ txsubmission.stateNames, ∀ m ∈ txsubmission.msgs, ¬ knownDeviation "txsubmission" s m →
      txsubmissionAsImplemented.row? s m = txsubmission.row? s m := by decide

/-- full table conformance (classes, initial state, transitions, carried data) of all eight
    protocols — seven against the specification itself -/
theorem conforms_partial :
    ∀ p ∈ FsmN2.protos, ∀ sp ∈ specs, p.name = sp.name → Table p (asImplemented sp) := by decide

/-! ## lifting to concrete states, payloads and histories -/

/-- For every protocol, every concrete state and message (any payload): `apply` succeeds exactly
    when the specification permits the message in the state, and yields the prescribed class. -/
theorem apply_refines_spec (p : Proto) (hp : p ∈ FsmN2.protos) (sp : Spec) (hsp : sp ∈ specs)
    (hn : p.name = sp.name) (s : CState) (m : CMsg)
    (hs : s.cls ∈ p.stateNames) (hm : m.cls ∈ p.msgNames) :
    (match apply p s m with | .ok s' => some s'.cls | .error _ => none) = (asImplemented sp).step s.cls m.cls :=
  apply_refines (conforms_partial p hp sp hsp hn) s m hs hm

/-- For every message history of any length, starting in any state: the verdict on every message and
    the final state class are those of the specification's run. -/
theorem history_refines_spec (p : Proto) (hp : p ∈ FsmN2.protos) (sp : Spec) (hsp : sp ∈ specs)
    (hn : p.name = sp.name) (ms : List CMsg) (s : CState)
    (hs : s.cls ∈ p.stateNames) (hms : ∀ m ∈ ms, m.cls ∈ p.msgNames) :
    ((run p s ms).1.cls, (run p s ms).2) = (asImplemented sp).run s.cls (ms.map (·.cls)) :=
  run_refines (conforms_partial p hp sp hsp hn) ms s hs hms

/-- … in particular from the initial state, which is the specification's. -/
theorem initial_state_eq_spec (p : Proto) (hp : p ∈ FsmN2.protos) (sp : Spec) (hsp : sp ∈ specs)
    (hn : p.name = sp.name) : p.initState.cls = sp.init ∧ p.initState.cls ∈ p.stateNames := by
  revert p sp; decide

/-- An accepted message's data is carried by the successor state: every field the specification
    marks as carried occurs in the payload of the new state (for any payload values). -/
theorem apply_carries_data (p : Proto) (hp : p ∈ FsmN2.protos) (sp : Spec) (hsp : sp ∈ specs)
    (hn : p.name = sp.name) (s s' : CState) (m : CMsg) (h : apply p s m = .ok s')
    (r : SpecRow) (hr : (asImplemented sp).row? s.cls m.cls = some r)
    (i : Nat) (hi : i ∈ r.carried) (hlen : i < m.args.length) :
    m.args[i] ∈ Val.subtermsL s'.data :=
  apply_carries (conforms_partial p hp sp hsp hn) s s' m h r hr i hi hlen

/-- Whatever `apply` accepts is sent by the side that holds agency in that state; in particular
    nothing is accepted in a state where nobody has agency (`Done`). -/
theorem accepts_only_under_agency (p : Proto) (hp : p ∈ FsmN2.protos) (sp : Spec) (hsp : sp ∈ specs)
    (hn : p.name = sp.name) (s s' : CState) (m : CMsg)
    (hs : s.cls ∈ p.stateNames) (hm : m.cls ∈ p.msgNames) (h : apply p s m = .ok s') :
    (asImplemented sp).agency s.cls ≠ .nobody := by
  have ht := conforms_partial p hp sp hsp hn
  have h1 := apply_ok_cls h
  rw [ht.step _ hs _ hm] at h1
  obtain ⟨r, hr, hst, _, _⟩ := Spec.step_some h1
  exact hst ▸ (ht.wf r hr).2.2.2

/-- A refused message leaves the state untouched (`apply` is pure; the history semantics keeps the
    old state), so the rest of the history is judged from the same state. -/
theorem rejected_leaves_state (p : Proto) (s : CState) (m : CMsg) (ms : List CMsg) (k : String)
    (h : apply p s m = .error k) : run p s (m :: ms) = ((run p s ms).1, false :: (run p s ms).2) := by
  simp [run, h]

/-! ## non-vacuity -/

example : FsmN2.protos.length = 8 ∧ (FsmN2.protos.map (fun p => p.rows.length)).sum ≥ 150 := by decide

/-- a concrete history that is accepted, with data arriving in the state -/
example :
    let s0 := FsmN2.chainsync.initState
    let ms : List CMsg := [⟨"RequestNext", []⟩, ⟨"AwaitReply", []⟩, ⟨"Done", []⟩,
                           ⟨"RollForward", [.atom "hdr", .atom "tip"]⟩]
    (run FsmN2.chainsync s0 ms).2 = [true, true, false, true] ∧
    (run FsmN2.chainsync s0 ms).1.render = "Idle(Content(hdr,tip))" := by decide

/-- the hypotheses of the lifted theorems are inhabited -/
example : FsmN2.blockfetch ∈ FsmN2.protos ∧ blockfetch ∈ specs ∧ FsmN2.blockfetch.name = blockfetch.name ∧
    "Streaming" ∈ FsmN2.blockfetch.stateNames ∧ "Block" ∈ FsmN2.blockfetch.msgNames ∧
    (∃ r, (asImplemented blockfetch).row? "Streaming" "Block" = some r ∧ 0 ∈ r.carried) := by
  refine ⟨by simp [FsmN2.protos], by simp [specs], by decide, by decide, by decide, ⟨_, rfl, by decide⟩⟩

end PallasVerif.Props.C24
