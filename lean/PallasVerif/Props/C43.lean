import PallasVerif.Proofs.ChunkReader
import PallasVerif.Props.C42
import PallasVerif.Model.ImmutableDbFiles
/-!
# C43 — Immutable-DB readers report corrupted files as errors

`Model/ChunkReader.lean` transcribes the primary-index, secondary-index and chunk readers over
files given as byte lists, as the code stands after the two repairs (`fix: hardano chunk reader
rejects decreasing offsets and reads no more than the file holds`, `fix: hardano secondary index
reader rejects an entry offset behind the read position`). In that model a reader's outcome is a
list of blocks / errors by construction — the two subtraction sites are `checkedSub` — so the
content of the property is carried by:

* `blocks_within_file` — for **arbitrary** index contents and file lengths every yielded block is a
  slice of the chunk file, the slices lie one after another, and together they are no longer than
  what is left of the file: nothing is ever allocated beyond the file (no `oom`);
* `secondary_never_seeks_back` — every secondary entry is read at or after the end of the
  previous one (the seek distance is never negative);
* `fixed_refines_unfixed_chunk`, `fixed_refines_unfixed_secondary` — on every input on which the
  *unrepaired* readers (`Unfixed`, with their unchecked subtractions as `panic` and their eager
  `vec![0; delta]` as a recorded allocation) finish, the repaired readers return the same items:
  the repairs change nothing but the failure mode;
* `unfixed_chunk_panics_at_witness`, `unfixed_secondary_panics_at_witness`,
  `unfixed_allocates_beyond_file_at_witness` — the unrepaired code panics / asks for memory
  unrelated to the file size at concrete corrupted indexes (DESIGN §6 #28 and the second site
  named by the property, `current - start`);
* `intact_slicing`, `intact_roundtrip` — on an intact index (offsets = running sums of the block
  lengths) the chunk reader yields exactly the blocks; and byte for byte: a primary index file
  without empty slots, a secondary index file with one 56-byte entry per block and the chunk file
  made of the blocks are read back, through all three readers, as exactly the blocks.

* `damaged_db_total`, `intact_db_from_files` — the composed model (`Model/ImmutableDbFiles.lean`: the
  directory level of C42 over what these file readers deliver, chunks that fail to open included):
  for arbitrary bytes in every file `read_blocks_from_point` / `get_tip` return a result or an error;
  and for intact files, end to end from index bytes to the returned suffix, the reads are the ones
  C42 specifies.

Not modelled: OS read errors other than end of file, the `u32` relative-slot counter of the primary
reader (overflows only on a primary index above 16 GiB), directory-level composition (sampled).
-/
namespace PallasVerif.Props.C43
open PallasVerif.ChunkReader PallasVerif.Proofs.ChunkReader

variable {β : Type}

/-! ## every block is a slice of the file; nothing beyond the file is touched -/

def blockBytes : List (BlockItem β) → Nat
  | [] => 0
  | .block b :: t => b.length + blockBytes t
  | _ :: t => blockBytes t

/-- the blocks are consecutive slices `c[a₁..a₁+n₁], c[a₂..], …` with `pos ≤ a₁`, `aᵢ + nᵢ ≤ aᵢ₊₁` -/
inductive SlicesFrom (c : List β) : Nat → List (BlockItem β) → Prop
  | nil (pos : Nat) : SlicesFrom c pos []
  | block (pos start : Nat) (n : Nat) (t : List (BlockItem β)) :
      pos ≤ start → SlicesFrom c (start + n) t → SlicesFrom c pos (.block ((c.drop start).take n) :: t)
  | readErr (pos pos' : Nat) (t : List (BlockItem β)) : pos ≤ pos' → SlicesFrom c pos' t → SlicesFrom c pos (.readErr :: t)
  | indexErr (pos : Nat) (t : List (BlockItem β)) : SlicesFrom c pos t → SlicesFrom c pos (.indexErr :: t)

theorem checkedSub_some (a b d : Nat) (h : checkedSub a b = some d) : b ≤ a ∧ d = a - b := by
  unfold checkedSub at h
  split at h
  · cases h; exact ⟨by assumption, rfl⟩
  · cases h

theorem chunkItems_slices (c : List β) (pos : Nat) (sec : List SecItem) :
    SlicesFrom c pos (chunkItems c pos sec) := by
  induction sec generalizing pos with
  | nil =>
    unfold chunkItems readLast
    have : c.drop pos = (c.drop pos).take (c.drop pos).length := (List.take_length).symm
    rw [this]
    exact .block pos pos _ [] (Nat.le_refl _) (.nil _)
  | cons item rest ih =>
    cases item with
    | inconsistent => unfold chunkItems; exact .indexErr pos [] (.nil _)
    | entry off =>
      unfold chunkItems
      simp only
      unfold readMiddle
      cases hs : checkedSub off pos with
      | none => exact .readErr pos pos _ (Nat.le_refl _) (ih pos)
      | some delta =>
        simp only
        split
        · next hlen => exact .block pos pos delta _ (Nat.le_refl _) (ih (pos + delta))
        · exact .readErr pos _ _ (Nat.le_add_right _ _) (ih _)

theorem slices_bytes_le (c : List β) (pos : Nat) (items : List (BlockItem β)) (h : SlicesFrom c pos items) :
    blockBytes items ≤ c.length - pos := by
  induction h with
  | nil pos => simp [blockBytes]
  | block pos start n t hle _ ih =>
    simp only [blockBytes, List.length_take, List.length_drop]
    omega
  | readErr pos pos' t hle _ ih => simp only [blockBytes]; omega
  | indexErr pos t _ ih => simp only [blockBytes]; exact ih

/-- For arbitrary primary / secondary / chunk file contents: whatever the chunk reader yields, the
    blocks are consecutive slices of the chunk file and their total size is at most the file's —
    a corrupted offset can produce errors or fewer / shorter blocks, never memory unrelated to the
    file. -/
theorem blocks_within_file (p s : Bytes) (c : List β) (items : List (BlockItem β))
    (h : readChunk p s c = some items) : SlicesFrom c 0 items ∧ blockBytes items ≤ c.length := by
  unfold readChunk at h
  cases hsec : secondaryEntries p s with
  | none => simp [hsec] at h
  | some sec =>
    simp only [hsec, Option.map_some, Option.some.injEq] at h
    subst h
    have hs : SlicesFrom c 0 (chunkBlocksOf c sec) := by
      unfold chunkBlocksOf
      cases sec with
      | nil => exact .nil 0
      | cons _ rest => exact chunkItems_slices c 0 rest
    exact ⟨hs, by simpa using slices_bytes_le c 0 _ hs⟩

/-! ## the secondary reader only moves forward -/

/-- positions at which entries are read by `secondaryItems`, in order -/
def readPositions (s : Bytes) : Nat → List Nat → List Nat
  | _, [] => []
  | pos, cur :: rest =>
    match checkedSub cur pos with
    | none => []
    | some _ => if cur + 56 ≤ s.length then cur :: readPositions s (cur + 56) rest else []

/-- Every entry is read at or after the current position, and the position after it is 56 bytes
    further: consecutive reads never overlap or go backwards, whatever the primary index says. -/
theorem secondary_never_seeks_back (s : Bytes) (pos : Nat) (occ : List Nat) :
    (readPositions s pos occ).Pairwise (fun a b => a + 56 ≤ b) ∧ ∀ a ∈ readPositions s pos occ, pos ≤ a := by
  induction occ generalizing pos with
  | nil => simp [readPositions]
  | cons cur rest ih =>
    unfold readPositions
    cases hs : checkedSub cur pos with
    | none => simp
    | some d =>
      have hle := (checkedSub_some _ _ _ hs).1
      simp only
      split
      · obtain ⟨h1, h2⟩ := ih (cur + 56)
        refine ⟨List.Pairwise.cons (fun b hb => h2 b hb) h1, ?_⟩
        intro a ha
        rcases List.mem_cons.mp ha with e | e
        · omega
        · have := h2 a e; omega
      · simp

/-! ## the code before the repairs -/
namespace Unfixed

/-- outcome of the unrepaired readers: items, or a panic (`a - b` with `a < b` under overflow
    checks); `alloc` records the largest `vec![0u8; delta]` requested -/
structure Run (α : Type) where
  items : List α
  alloc : Nat

/-- `read_middle_block` as it was: `next_offset - start` unchecked, `vec![0u8; delta]`, `read_exact` -/
def readMiddle (c : List β) (pos nextOffset : Nat) : Option (BlockItem β × Nat × Nat) :=
  if nextOffset < pos then none
  else
    let delta := nextOffset - pos
    let got := (c.drop pos).take delta
    if got.length = delta then some (.block got, pos + delta, delta) else some (.readErr, pos + got.length, delta)

def chunkItems (c : List β) : Nat → List SecItem → Option (Run (BlockItem β))
  | pos, [] => some ⟨[readLast c pos], 0⟩
  | _, .inconsistent :: _ => some ⟨[.indexErr], 0⟩
  | pos, .entry off :: rest =>
    match readMiddle c pos off with
    | none => none
    | some (item, pos', a) =>
      match chunkItems c pos' rest with
      | none => none
      | some r => some ⟨item :: r.items, max a r.alloc⟩

/-- `secondary::Reader::next` as it was: `current as u64 - start` unchecked -/
def secondaryItems (s : Bytes) : Nat → List Nat → Option (List SecItem)
  | _, [] => some []
  | pos, cur :: rest =>
    if cur < pos then none
    else if cur + 56 ≤ s.length then
      (secondaryItems s (cur + 56) rest).map (fun t => .entry (beNat ((s.drop cur).take 8)) :: t)
    else some [.inconsistent]

end Unfixed

/-- Wherever the unrepaired chunk reader finishes, the repaired one yields the same items. -/
theorem fixed_refines_unfixed_chunk (c : List β) (pos : Nat) (sec : List SecItem) (r : Unfixed.Run (BlockItem β))
    (h : Unfixed.chunkItems c pos sec = some r) : chunkItems c pos sec = r.items := by
  induction sec generalizing pos r with
  | nil => simp [Unfixed.chunkItems] at h; subst h; rfl
  | cons item rest ih =>
    cases item with
    | inconsistent => simp [Unfixed.chunkItems] at h; subst h; rfl
    | entry off =>
      unfold Unfixed.chunkItems at h
      cases hm : Unfixed.readMiddle c pos off with
      | none => simp [hm] at h
      | some t =>
        obtain ⟨item, pos', a⟩ := t
        simp only [hm] at h
        cases hr : Unfixed.chunkItems c pos' rest with
        | none => simp [hr] at h
        | some r' =>
          simp only [hr, Option.some.injEq] at h
          subst h
          have ih' := ih pos' r' hr
          unfold Unfixed.readMiddle at hm
          split at hm
          · cases hm
          · next hge =>
            have hcs : checkedSub off pos = some (off - pos) := by
              unfold checkedSub; simp; omega
            unfold chunkItems readMiddle
            simp only [hcs]
            dsimp only at hm
            split at hm
            · next hl =>
              simp only [Option.some.injEq, Prod.mk.injEq] at hm
              obtain ⟨rfl, rfl, rfl⟩ := hm
              simp only [hl, ↓reduceIte, ih']
            · next hl =>
              simp only [Option.some.injEq, Prod.mk.injEq] at hm
              obtain ⟨rfl, rfl, rfl⟩ := hm
              simp only [hl, ↓reduceIte, ih']

/-- Wherever the unrepaired secondary reader finishes, the repaired one yields the same items. -/
theorem fixed_refines_unfixed_secondary (s : Bytes) (pos : Nat) (occ : List Nat) (items : List SecItem)
    (h : Unfixed.secondaryItems s pos occ = some items) : secondaryItems s pos occ = items := by
  induction occ generalizing pos items with
  | nil => simp [Unfixed.secondaryItems] at h; subst h; rfl
  | cons cur rest ih =>
    unfold Unfixed.secondaryItems at h
    split at h
    · cases h
    · next hge =>
      have hcs : checkedSub cur pos = some (cur - pos) := by unfold checkedSub; simp; omega
      unfold secondaryItems
      simp only [hcs]
      split at h
      · next hl =>
        cases hr : Unfixed.secondaryItems s (cur + 56) rest with
        | none => simp [hr] at h
        | some t =>
          simp only [hr, Option.map_some, Option.some.injEq] at h
          subst h
          simp [hl, ih _ _ hr]
      · next hl =>
        cases h
        simp [hl]

/-- DESIGN §6 #28: a secondary offset of 0 for the second block — the unrepaired chunk reader
    computes `0 - 3` and panics; the repaired one reports a read error and goes on -/
theorem unfixed_chunk_panics_at_witness :
    Unfixed.chunkItems [1, 2, 3, 4, 5] 0 [.entry 3, .entry 0] = none ∧
    chunkItems [1, 2, 3, 4, 5] 0 [.entry 3, .entry 0] = [.block [1, 2, 3], .readErr, .block [4, 5]] := by
  decide

/-- the second subtraction named by the property: two occupied primary offsets closer than one
    entry (0 and 10) make the unrepaired secondary reader compute `10 - 56` -/
theorem unfixed_secondary_panics_at_witness :
    Unfixed.secondaryItems (List.replicate 112 0) 0 [0, 10] = none ∧
    secondaryItems (List.replicate 112 0) 0 [0, 10] = [.entry 0, .inconsistent] := by
  decide

/-- an offset of `2^64 - 1`: the unrepaired reader asks for that many bytes for a 5-byte file -/
theorem unfixed_allocates_beyond_file_at_witness :
    (Unfixed.chunkItems [1, 2, 3, 4, 5] 0 [.entry 18446744073709551615]).map (·.alloc) = some 18446744073709551615 ∧
    chunkItems [1, 2, 3, 4, 5] 0 [.entry 18446744073709551615] = [.readErr, .block []] := by
  constructor
  · simp [Unfixed.chunkItems, Unfixed.readMiddle, readLast]
  · simp [chunkItems, readMiddle, checkedSub, readLast]

/-! ## intact index: the blocks come back -/

/-- offsets of the blocks after the first: running sums of the lengths -/
def startsFrom (pos : Nat) : List (List β) → List Nat
  | [] => []
  | b :: t => (pos + b.length) :: startsFrom (pos + b.length) t

/-- the chunk reader positioned at the start of block `b`, given the starting offsets of the blocks
    after it, yields `b` and the following blocks exactly -/
theorem chunkItems_intact (pre b : List β) (rest : List (List β)) :
    chunkItems (pre ++ (b :: rest).flatten) pre.length
        ((startsFrom pre.length (b :: rest)).dropLast.map .entry) = (b :: rest).map .block := by
  induction rest generalizing pre b with
  | nil =>
    simp [startsFrom, chunkItems, readLast]
  | cons b' rest ih =>
    have hst : (startsFrom pre.length (b :: b' :: rest)).dropLast
        = (pre.length + b.length) :: (startsFrom (pre.length + b.length) (b' :: rest)).dropLast := by
      simp [startsFrom]
    rw [hst, List.map_cons]
    have hc : pre ++ (b :: b' :: rest).flatten = (pre ++ b) ++ (b' :: rest).flatten := by simp [List.flatten_cons]
    have hrm : readMiddle (pre ++ (b :: b' :: rest).flatten) pre.length (pre.length + b.length)
        = (.block b, pre.length + b.length) := by
      unfold readMiddle
      have hcs : checkedSub (pre.length + b.length) pre.length = some b.length := by unfold checkedSub; simp
      simp only [hcs]
      have hgot : ((pre ++ (b :: b' :: rest).flatten).drop pre.length).take b.length = b := by simp [List.flatten_cons]
      simp [hgot]
    unfold chunkItems
    simp only [hrm]
    have := ih (pre ++ b) b'
    rw [List.length_append] at this
    rw [hc, this]
    simp

/-- On an intact chunk (secondary offsets = running sums of the block lengths, one entry per
    block) the reader yields exactly the blocks, in order. -/
theorem intact_slicing (b : List β) (rest : List (List β)) :
    chunkBlocksOf ((b :: rest).flatten) ((0 :: (startsFrom 0 (b :: rest)).dropLast).map .entry) = (b :: rest).map .block := by
  unfold chunkBlocksOf
  simp only [List.map_cons]
  have := chunkItems_intact ([] : List β) b rest
  simpa using this

/-! ## intact files, byte for byte -/
theorem startsFrom_length {β : Type} (pos : Nat) (bs : List (List β)) : (startsFrom pos bs).length = bs.length := by
  induction bs generalizing pos with
  | nil => rfl
  | cons b t ih => simp [startsFrom, ih]

theorem mem_startsFrom_le {β : Type} (pos : Nat) (bs : List (List β)) (x : Nat) (h : x ∈ startsFrom pos bs) :
    x ≤ pos + bs.flatten.length := by
  induction bs generalizing pos with
  | nil => simp [startsFrom] at h
  | cons b t ih =>
    simp only [startsFrom, List.mem_cons] at h
    simp only [List.flatten_cons, List.length_append]
    rcases h with e | e
    · omega
    · have := ih _ e; omega

/-- An intact chunk — primary index without empty slots, one 56-byte secondary entry per block
    holding the running sum of the block lengths, chunk file = the blocks one after another — is
    read back as exactly its blocks, through all three readers. -/
theorem intact_roundtrip {β : Type} (b : List β) (rest : List (List β))
    (hidx : 56 * ((b :: rest).length + 1) ≤ 256 ^ 4) (hsz : (b :: rest).flatten.length < 256 ^ 8) :
    readChunk (primaryBytes (arith 0 ((b :: rest).length + 1)))
        (secondaryBytes (0 :: (startsFrom 0 (b :: rest)).dropLast)) ((b :: rest).flatten)
      = some ((b :: rest).map BlockItem.block) := by
  unfold readChunk secondaryEntries
  have hp : primaryOffsets (primaryBytes (arith 0 ((b :: rest).length + 1))) = some (arith 0 ((b :: rest).length + 1)) := by
    apply primaryOffsets_primaryBytes
    intro o ho
    have := mem_arith_lt 0 _ o ho
    omega
  rw [hp]
  simp only [Option.map_some, occupied_arith]
  have hstarts : (0 :: (startsFrom 0 (b :: rest)).dropLast).length = (b :: rest).length := by
    simp [startsFrom_length]
  have hb : ∀ o ∈ (0 :: (startsFrom 0 (b :: rest)).dropLast), o < 256 ^ 8 := by
    intro o ho
    rcases List.mem_cons.mp ho with e | e
    · subst e; decide
    · have := mem_startsFrom_le 0 (b :: rest) o (List.dropLast_subset _ e)
      omega
  have hs := secondaryItems_intact [] (0 :: (startsFrom 0 (b :: rest)).dropLast) [] hb
  simp only [List.nil_append, List.append_nil, List.length_nil, hstarts] at hs
  rw [hs]
  exact congrArg some (intact_slicing b rest)

/-! ## the damaged database: file readers composed with the directory level -/
section Composed
open PallasVerif.ImmutableDb PallasVerif.Proofs.ImmutableDb
variable {β H : Type} [DecidableEq H]

theorem chunkCmpF_ne_panic (slot : Nat) (c : FChunk H) : chunkCmpF slot c ≠ .panic := by
  cases c with
  | none => simp [chunkCmpF]
  | some c => exact C42.chunkCmp_ne_panic slot c

/-- For **any** bytes in the primary index, secondary index and chunk file of **any** chunk — truncated,
    overwritten, inconsistent — and any behaviour of the block decoder on what is sliced out,
    `read_blocks_from_point` and `get_tip` over the files return a result or an error: the file
    readers yield items (their model has no failing arithmetic left, `blocks_within_file`), the
    binary search stays in bounds and terminates, the peek loop ends. -/
theorem damaged_db_total (decode : List β → Option (Block H)) (files : List (ImmutableDbFiles.ChunkFiles β))
    (slot : Nat) (hash : Option H) :
    ImmutableDbFiles.readBlocksFromPoint decode files slot hash ≠ .panic ∧
    ImmutableDbFiles.getTip decode files ≠ .panic := by
  constructor
  · unfold ImmutableDbFiles.readBlocksFromPoint readBlocksFromPointF
    have hb := C42.binary_search_total (stackF (ImmutableDbFiles.dbOf decode files)) (chunkCmpF slot) (chunkCmpF_ne_panic slot)
    simp only
    cases hs : chunkBinarySearch (stackF (ImmutableDbFiles.dbOf decode files)) (chunkCmpF slot) with
    | panic => exact absurd hs hb
    | err e => simp
    | ok r =>
      cases r with
      | none => simp
      | some idx => simp only; exact C42.iterateTillPoint_ne_panic _ _ _
  · unfold ImmutableDbFiles.getTip getTipF
    split
    · simp
    · simp
    · split <;> simp

/-! ### when every chunk opens, the file-aware functions are the plain ones -/

theorem readersF_some (l : List (Chunk H)) : readersF (l.map some) = readers l := by
  unfold readersF readers
  rw [← List.map_reverse]
  have h1 : ((l.reverse.map some).takeWhile Option.isSome) = l.reverse.map some := by
    induction l.reverse with
    | nil => rfl
    | cons a t ih => simp [List.takeWhile_cons, ih]
  rw [h1]
  have h2 : ∀ (x : List (Chunk H)), (x.map some).filterMap id = x := by
    intro x; induction x with
    | nil => rfl
    | cons a t ih => simp [List.filterMap_cons, ih]
  rw [h2]

theorem bsLoop_map {α γ : Type} (f : α → γ) (chunks : List α) (cmp : γ → Res Ordering) (fuel left right size : Nat) :
    bsLoop (chunks.map f) cmp fuel left right size = bsLoop chunks (fun c => cmp (f c)) fuel left right size := by
  induction fuel generalizing left right size with
  | zero => rfl
  | succ fuel ih =>
    unfold bsLoop
    simp only [List.getElem?_map, List.length_map]
    split
    · cases hc : chunks[left + size / 2]? with
      | none => simp
      | some c =>
        simp only [Option.map_some]
        cases cmp (f c) with
        | err e => rfl
        | panic => rfl
        | ok o => cases o <;> simp only [ih]
    · rfl

theorem chunkBinarySearch_map {α γ : Type} (f : α → γ) (chunks : List α) (cmp : γ → Res Ordering) :
    chunkBinarySearch (chunks.map f) cmp = chunkBinarySearch chunks (fun c => cmp (f c)) := by
  unfold chunkBinarySearch
  rw [List.length_map]
  exact bsLoop_map f chunks cmp _ _ _ _

theorem stackF_some (all : List (Chunk H)) : stackF (all.map some) = (stack all).map some := by
  unfold stackF stack
  rw [List.map_reverse, List.map_dropLast]

theorem readFromF_some (all : List (Chunk H)) (slot : Nat) (hash : Option H) :
    readBlocksFromPointF (all.map some) slot hash = readBlocksFromPoint all slot hash := by
  unfold readBlocksFromPointF readBlocksFromPoint
  simp only [stackF_some, chunkBinarySearch_map]
  have : (fun c : Chunk H => chunkCmpF slot (some c)) = chunkCmp slot := rfl
  rw [this]
  cases chunkBinarySearch (stack all) (chunkCmp slot) with
  | err e => rfl
  | panic => rfl
  | ok r =>
    cases r with
    | none => rfl
    | some idx => simp only [← List.map_take, readersF_some]

theorem readBlocksF_some (all : List (Chunk H)) : readBlocksF (all.map some) = readBlocks all := by
  unfold readBlocksF readBlocks; rw [stackF_some, readersF_some]

theorem getTipF_some (all : List (Chunk H)) : getTipF (all.map some) = getTip all := by
  unfold getTipF getTip
  rw [stackF_some]
  cases stack all with
  | nil => rfl
  | cons c t => rfl

/-! ### an intact database given as files -/

/-- the three files of a chunk holding the blocks `bs` (encoded by `enc`), as `intact_roundtrip` builds them -/
def intactFiles (enc : Block H → List β) (bs : List (Block H)) : ImmutableDbFiles.ChunkFiles β :=
  let blocks := bs.map enc
  { primary := primaryBytes (arith 0 (blocks.length + 1))
    secondary := secondaryBytes (0 :: (startsFrom 0 blocks).dropLast)
    chunk := blocks.flatten }

theorem chunkOf_intact (enc : Block H → List β) (decode : List β → Option (Block H)) (hdec : ∀ b, decode (enc b) = some b)
    (bs : List (Block H)) (hne : bs ≠ [])
    (hidx : 56 * (bs.length + 1) ≤ 256 ^ 4) (hsz : ((bs.map enc).flatten).length < 256 ^ 8) :
    ImmutableDbFiles.chunkOf decode (intactFiles enc bs) = some (C42.toChunk bs) := by
  cases bs with
  | nil => exact absurd rfl hne
  | cons b rest =>
    unfold ImmutableDbFiles.chunkOf intactFiles
    simp only [List.map_cons]
    have hr := intact_roundtrip (enc b) (rest.map enc) (by simpa using hidx) (by simpa using hsz)
    simp only [List.length_cons, List.length_map] at hr ⊢
    rw [hr]
    simp only [Option.map_some, C42.toChunk, List.map_cons, List.map_map, ImmutableDbFiles.itemOf, hdec, Option.some.injEq,
      List.cons.injEq, true_and]
    apply List.map_congr_left
    intro x _
    simp [Function.comp, ImmutableDbFiles.itemOf, hdec]

/-- **End to end on intact files**: a database whose chunk files hold the blocks of `db` (any encoding
    `enc` the block decoder inverts), with the index files written the way the node writes them, is
    read as C42 says — in particular reading from an existing point yields the suffix starting at
    that block — through the byte-level index parsers, the chunk slicing, the binary search and the
    peek loop together. -/
theorem intact_db_from_files (enc : Block H → List β) (decode : List β → Option (Block H)) (hdec : ∀ b, decode (enc b) = some b)
    (db : List (List (Block H))) (newest : List (Block H))
    (hne : ∀ c ∈ db ++ [newest], c ≠ []) (hsorted : C42.Sorted db.flatten)
    (hidx : ∀ c ∈ db ++ [newest], 56 * (c.length + 1) ≤ 256 ^ 4) (hsz : ∀ c ∈ db ++ [newest], ((c.map enc).flatten).length < 256 ^ 8)
    (pre post : List (Block H)) (b : Block H) (hchain : db.flatten = pre ++ b :: post) :
    ImmutableDbFiles.readBlocksFromPoint decode ((db ++ [newest]).map (intactFiles enc)) b.slot (some b.hash)
      = .ok ((b :: post).map Item.blk) ∧
    ImmutableDbFiles.readBlocks decode ((db ++ [newest]).map (intactFiles enc)) = db.flatten.map Item.blk ∧
    ImmutableDbFiles.getTip decode ((db ++ [newest]).map (intactFiles enc)) = .ok db.flatten.getLast? := by
  have hdb : ImmutableDbFiles.dbOf decode ((db ++ [newest]).map (intactFiles enc)) = ((db ++ [newest]).map C42.toChunk).map some := by
    unfold ImmutableDbFiles.dbOf
    rw [List.map_map, List.map_map]
    apply List.map_congr_left
    intro c hc
    exact chunkOf_intact enc decode hdec c (hne c hc) (hidx c hc) (hsz c hc)
  have hint : C42.Intact ((db ++ [newest]).map C42.toChunk) db := by
    refine ⟨?_, fun c hc => hne c (by simp [hc]), hsorted⟩
    simp [List.map_append, List.dropLast_concat]
  refine ⟨?_, ?_, ?_⟩
  · unfold ImmutableDbFiles.readBlocksFromPoint
    rw [hdb, readFromF_some]
    exact C42.from_existing_point _ db hint pre post b hchain
  · unfold ImmutableDbFiles.readBlocks
    rw [hdb, readBlocksF_some]
    exact (C42.read_all _ db hint).1
  · unfold ImmutableDbFiles.getTip
    rw [hdb, getTipF_some]
    exact C42.tip_is_last _ db hint
end Composed


/-! ## Non-vacuity -/
example : readChunk [1, 0,0,0,0, 0,0,0,56, 0,0,0,112] (List.replicate 56 0 ++ ([0,0,0,0,0,0,0,2] ++ List.replicate 48 0)) [7, 8, 9]
    = some [.block [7, 8], .block [9]] := by decide
example : readChunk ([] : Bytes) [] [7, 8, 9] = none := by decide
example : readChunk (primaryBytes (arith 0 3)) (secondaryBytes [0, 2]) [7, 8, 9] = some [.block [7, 8], .block [9]] :=
  intact_roundtrip [7, 8] [[9]] (by decide) (by decide)
example : occupied [0, 0, 56, 56, 56, 112] = [0, 56] := by decide
example : startsFrom 0 [[1, 2], [3], [4, 5, 6]] = [2, 3, 6] := by decide

end PallasVerif.Props.C43
