import PallasVerif.Model.ChunkReader
/-!
# C43 — Immutable-DB readers report corrupted files as errors

`Model/ChunkReader.lean` transcribes the primary-index, secondary-index and chunk readers over
files given as byte lists, as the code stands after the two repairs (`fix: hardano chunk reader
rejects decreasing offsets and reads no more than the file holds`, `fix: hardano secondary index
reader rejects an entry offset behind the read position`). In that model a reader's outcome is a
list of blocks / errors by construction — the two subtraction sites are `checkedSub` — so the
content of the property is carried by:

* `blocks_within_file` — for **arbitrary** index contents and file lengths every yielded block is a
  slice of the chunk file, the slices lie one after another, and together they are no longer than
  what is left of the file: nothing is ever allocated beyond the file (no `oom`);
* `secondary_never_seeks_back` — every secondary entry is read at or after the end of the
  previous one (the seek distance is never negative);
* `fixed_refines_unfixed_chunk`, `fixed_refines_unfixed_secondary` — on every input on which the
  *unrepaired* readers (`Unfixed`, with their unchecked subtractions as `panic` and their eager
  `vec![0; delta]` as a recorded allocation) finish, the repaired readers return the same items:
  the repairs change nothing but the failure mode;
* `unfixed_chunk_panics_at_witness`, `unfixed_secondary_panics_at_witness`,
  `unfixed_allocates_beyond_file_at_witness` — the unrepaired code panics / asks for memory
  unrelated to the file size at concrete corrupted indexes (DESIGN §6 #28 and the second site
  named by the property, `current - start`);
* `intact_slicing` — on an intact index (offsets = running sums of the block lengths) the chunk
  reader yields exactly the blocks.

Not modelled: OS read errors other than end of file, the `u32` relative-slot counter of the primary
reader (overflows only on a primary index above 16 GiB), directory-level composition (sampled).
-/
namespace PallasVerif.Props.C43
open PallasVerif.ChunkReader

variable {β : Type}

/-! ## every block is a slice of the file; nothing beyond the file is touched -/

def blockBytes : List (BlockItem β) → Nat
  | [] => 0
  | .block b :: t => b.length + blockBytes t
  | _ :: t => blockBytes t

/-- the blocks are consecutive slices `c[a₁..a₁+n₁], c[a₂..], …` with `pos ≤ a₁`, `aᵢ + nᵢ ≤ aᵢ₊₁` -/
inductive SlicesFrom (c : List β) : Nat → List (BlockItem β) → Prop
  | nil (pos : Nat) : SlicesFrom c pos []
  | block (pos start : Nat) (n : Nat) (t : List (BlockItem β)) :
      pos ≤ start → SlicesFrom c (start + n) t → SlicesFrom c pos (.block ((c.drop start).take n) :: t)
  | readErr (pos pos' : Nat) (t : List (BlockItem β)) : pos ≤ pos' → SlicesFrom c pos' t → SlicesFrom c pos (.readErr :: t)
  | indexErr (pos : Nat) (t : List (BlockItem β)) : SlicesFrom c pos t → SlicesFrom c pos (.indexErr :: t)

theorem checkedSub_some (a b d : Nat) (h : checkedSub a b = some d) : b ≤ a ∧ d = a - b := by
  unfold checkedSub at h
  split at h
  · cases h; exact ⟨by assumption, rfl⟩
  · cases h

theorem chunkItems_slices (c : List β) (pos : Nat) (sec : List SecItem) :
    SlicesFrom c pos (chunkItems c pos sec) := by
  induction sec generalizing pos with
  | nil =>
    unfold chunkItems readLast
    have : c.drop pos = (c.drop pos).take (c.drop pos).length := (List.take_length).symm
    rw [this]
    exact .block pos pos _ [] (Nat.le_refl _) (.nil _)
  | cons item rest ih =>
    cases item with
    | inconsistent => unfold chunkItems; exact .indexErr pos [] (.nil _)
    | entry off =>
      unfold chunkItems
      simp only
      unfold readMiddle
      cases hs : checkedSub off pos with
      | none => exact .readErr pos pos _ (Nat.le_refl _) (ih pos)
      | some delta =>
        simp only
        split
        · next hlen => exact .block pos pos delta _ (Nat.le_refl _) (ih (pos + delta))
        · exact .readErr pos _ _ (Nat.le_add_right _ _) (ih _)

theorem slices_bytes_le (c : List β) (pos : Nat) (items : List (BlockItem β)) (h : SlicesFrom c pos items) :
    blockBytes items ≤ c.length - pos := by
  induction h with
  | nil pos => simp [blockBytes]
  | block pos start n t hle _ ih =>
    simp only [blockBytes, List.length_take, List.length_drop]
    omega
  | readErr pos pos' t hle _ ih => simp only [blockBytes]; omega
  | indexErr pos t _ ih => simp only [blockBytes]; exact ih

/-- For arbitrary primary / secondary / chunk file contents: whatever the chunk reader yields, the
    blocks are consecutive slices of the chunk file and their total size is at most the file's —
    a corrupted offset can produce errors or fewer / shorter blocks, never memory unrelated to the
    file. -/
theorem blocks_within_file (p s : Bytes) (c : List β) (items : List (BlockItem β))
    (h : readChunk p s c = some items) : SlicesFrom c 0 items ∧ blockBytes items ≤ c.length := by
  unfold readChunk at h
  cases hsec : secondaryEntries p s with
  | none => simp [hsec] at h
  | some sec =>
    simp only [hsec, Option.map_some, Option.some.injEq] at h
    subst h
    have hs : SlicesFrom c 0 (chunkBlocksOf c sec) := by
      unfold chunkBlocksOf
      cases sec with
      | nil => exact .nil 0
      | cons _ rest => exact chunkItems_slices c 0 rest
    exact ⟨hs, by simpa using slices_bytes_le c 0 _ hs⟩

/-! ## the secondary reader only moves forward -/

/-- positions at which entries are read by `secondaryItems`, in order -/
def readPositions (s : Bytes) : Nat → List Nat → List Nat
  | _, [] => []
  | pos, cur :: rest =>
    match checkedSub cur pos with
    | none => []
    | some _ => if cur + 56 ≤ s.length then cur :: readPositions s (cur + 56) rest else []

/-- Every entry is read at or after the current position, and the position after it is 56 bytes
    further: consecutive reads never overlap or go backwards, whatever the primary index says. -/
theorem secondary_never_seeks_back (s : Bytes) (pos : Nat) (occ : List Nat) :
    (readPositions s pos occ).Pairwise (fun a b => a + 56 ≤ b) ∧ ∀ a ∈ readPositions s pos occ, pos ≤ a := by
  induction occ generalizing pos with
  | nil => simp [readPositions]
  | cons cur rest ih =>
    unfold readPositions
    cases hs : checkedSub cur pos with
    | none => simp
    | some d =>
      have hle := (checkedSub_some _ _ _ hs).1
      simp only
      split
      · obtain ⟨h1, h2⟩ := ih (cur + 56)
        refine ⟨List.Pairwise.cons (fun b hb => h2 b hb) h1, ?_⟩
        intro a ha
        rcases List.mem_cons.mp ha with e | e
        · omega
        · have := h2 a e; omega
      · simp

/-! ## the code before the repairs -/
namespace Unfixed

/-- outcome of the unrepaired readers: items, or a panic (`a - b` with `a < b` under overflow
    checks); `alloc` records the largest `vec![0u8; delta]` requested -/
structure Run (α : Type) where
  items : List α
  alloc : Nat

/-- `read_middle_block` as it was: `next_offset - start` unchecked, `vec![0u8; delta]`, `read_exact` -/
def readMiddle (c : List β) (pos nextOffset : Nat) : Option (BlockItem β × Nat × Nat) :=
  if nextOffset < pos then none
  else
    let delta := nextOffset - pos
    let got := (c.drop pos).take delta
    if got.length = delta then some (.block got, pos + delta, delta) else some (.readErr, pos + got.length, delta)

def chunkItems (c : List β) : Nat → List SecItem → Option (Run (BlockItem β))
  | pos, [] => some ⟨[readLast c pos], 0⟩
  | _, .inconsistent :: _ => some ⟨[.indexErr], 0⟩
  | pos, .entry off :: rest =>
    match readMiddle c pos off with
    | none => none
    | some (item, pos', a) =>
      match chunkItems c pos' rest with
      | none => none
      | some r => some ⟨item :: r.items, max a r.alloc⟩

/-- `secondary::Reader::next` as it was: `current as u64 - start` unchecked -/
def secondaryItems (s : Bytes) : Nat → List Nat → Option (List SecItem)
  | _, [] => some []
  | pos, cur :: rest =>
    if cur < pos then none
    else if cur + 56 ≤ s.length then
      (secondaryItems s (cur + 56) rest).map (fun t => .entry (beNat ((s.drop cur).take 8)) :: t)
    else some [.inconsistent]

end Unfixed

/-- Wherever the unrepaired chunk reader finishes, the repaired one yields the same items. -/
theorem fixed_refines_unfixed_chunk (c : List β) (pos : Nat) (sec : List SecItem) (r : Unfixed.Run (BlockItem β))
    (h : Unfixed.chunkItems c pos sec = some r) : chunkItems c pos sec = r.items := by
  induction sec generalizing pos r with
  | nil => simp [Unfixed.chunkItems] at h; subst h; rfl
  | cons item rest ih =>
    cases item with
    | inconsistent => simp [Unfixed.chunkItems] at h; subst h; rfl
    | entry off =>
      unfold Unfixed.chunkItems at h
      cases hm : Unfixed.readMiddle c pos off with
      | none => simp [hm] at h
      | some t =>
        obtain ⟨item, pos', a⟩ := t
        simp only [hm] at h
        cases hr : Unfixed.chunkItems c pos' rest with
        | none => simp [hr] at h
        | some r' =>
          simp only [hr, Option.some.injEq] at h
          subst h
          have ih' := ih pos' r' hr
          unfold Unfixed.readMiddle at hm
          split at hm
          · cases hm
          · next hge =>
            have hcs : checkedSub off pos = some (off - pos) := by
              unfold checkedSub; simp; omega
            unfold chunkItems readMiddle
            simp only [hcs]
            dsimp only at hm
            split at hm
            · next hl =>
              simp only [Option.some.injEq, Prod.mk.injEq] at hm
              obtain ⟨rfl, rfl, rfl⟩ := hm
              simp only [hl, ↓reduceIte, ih']
            · next hl =>
              simp only [Option.some.injEq, Prod.mk.injEq] at hm
              obtain ⟨rfl, rfl, rfl⟩ := hm
              simp only [hl, ↓reduceIte, ih']

/-- Wherever the unrepaired secondary reader finishes, the repaired one yields the same items. -/
theorem fixed_refines_unfixed_secondary (s : Bytes) (pos : Nat) (occ : List Nat) (items : List SecItem)
    (h : Unfixed.secondaryItems s pos occ = some items) : secondaryItems s pos occ = items := by
  induction occ generalizing pos items with
  | nil => simp [Unfixed.secondaryItems] at h; subst h; rfl
  | cons cur rest ih =>
    unfold Unfixed.secondaryItems at h
    split at h
    · cases h
    · next hge =>
      have hcs : checkedSub cur pos = some (cur - pos) := by unfold checkedSub; simp; omega
      unfold secondaryItems
      simp only [hcs]
      split at h
      · next hl =>
        cases hr : Unfixed.secondaryItems s (cur + 56) rest with
        | none => simp [hr] at h
        | some t =>
          simp only [hr, Option.map_some, Option.some.injEq] at h
          subst h
          simp [hl, ih _ _ hr]
      · next hl =>
        cases h
        simp [hl]

/-- DESIGN §6 #28: a secondary offset of 0 for the second block — the unrepaired chunk reader
    computes `0 - 3` and panics; the repaired one reports a read error and goes on -/
theorem unfixed_chunk_panics_at_witness :
    Unfixed.chunkItems [1, 2, 3, 4, 5] 0 [.entry 3, .entry 0] = none ∧
    chunkItems [1, 2, 3, 4, 5] 0 [.entry 3, .entry 0] = [.block [1, 2, 3], .readErr, .block [4, 5]] := by
  decide

/-- the second subtraction named by the property: two occupied primary offsets closer than one
    entry (0 and 10) make the unrepaired secondary reader compute `10 - 56` -/
theorem unfixed_secondary_panics_at_witness :
    Unfixed.secondaryItems (List.replicate 112 0) 0 [0, 10] = none ∧
    secondaryItems (List.replicate 112 0) 0 [0, 10] = [.entry 0, .inconsistent] := by
  decide

/-- an offset of `2^64 - 1`: the unrepaired reader asks for that many bytes for a 5-byte file -/
theorem unfixed_allocates_beyond_file_at_witness :
    (Unfixed.chunkItems [1, 2, 3, 4, 5] 0 [.entry 18446744073709551615]).map (·.alloc) = some 18446744073709551615 ∧
    chunkItems [1, 2, 3, 4, 5] 0 [.entry 18446744073709551615] = [.readErr, .block []] := by
  constructor
  · simp [Unfixed.chunkItems, Unfixed.readMiddle, readLast]
  · simp [chunkItems, readMiddle, checkedSub, readLast]

/-! ## intact index: the blocks come back -/

/-- offsets of the blocks after the first: running sums of the lengths -/
def startsFrom (pos : Nat) : List (List β) → List Nat
  | [] => []
  | b :: t => (pos + b.length) :: startsFrom (pos + b.length) t

/-- the chunk reader positioned at the start of block `b`, given the starting offsets of the blocks
    after it, yields `b` and the following blocks exactly -/
theorem chunkItems_intact (pre b : List β) (rest : List (List β)) :
    chunkItems (pre ++ (b :: rest).flatten) pre.length
        ((startsFrom pre.length (b :: rest)).dropLast.map .entry) = (b :: rest).map .block := by
  induction rest generalizing pre b with
  | nil =>
    simp [startsFrom, chunkItems, readLast]
  | cons b' rest ih =>
    have hst : (startsFrom pre.length (b :: b' :: rest)).dropLast
        = (pre.length + b.length) :: (startsFrom (pre.length + b.length) (b' :: rest)).dropLast := by
      simp [startsFrom]
    rw [hst, List.map_cons]
    have hc : pre ++ (b :: b' :: rest).flatten = (pre ++ b) ++ (b' :: rest).flatten := by simp [List.flatten_cons]
    have hrm : readMiddle (pre ++ (b :: b' :: rest).flatten) pre.length (pre.length + b.length)
        = (.block b, pre.length + b.length) := by
      unfold readMiddle
      have hcs : checkedSub (pre.length + b.length) pre.length = some b.length := by unfold checkedSub; simp
      simp only [hcs]
      have hgot : ((pre ++ (b :: b' :: rest).flatten).drop pre.length).take b.length = b := by simp [List.flatten_cons]
      simp [hgot]
    unfold chunkItems
    simp only [hrm]
    have := ih (pre ++ b) b'
    rw [List.length_append] at this
    rw [hc, this]
    simp

/-- On an intact chunk (secondary offsets = running sums of the block lengths, one entry per
    block) the reader yields exactly the blocks, in order. -/
theorem intact_slicing (b : List β) (rest : List (List β)) :
    chunkBlocksOf ((b :: rest).flatten) ((0 :: (startsFrom 0 (b :: rest)).dropLast).map .entry) = (b :: rest).map .block := by
  unfold chunkBlocksOf
  simp only [List.map_cons]
  have := chunkItems_intact ([] : List β) b rest
  simpa using this

/-! ## Non-vacuity -/
example : readChunk [1, 0,0,0,0, 0,0,0,56, 0,0,0,112] (List.replicate 56 0 ++ ([0,0,0,0,0,0,0,2] ++ List.replicate 48 0)) [7, 8, 9]
    = some [.block [7, 8], .block [9]] := by decide
example : readChunk ([] : Bytes) [] [7, 8, 9] = none := by decide
example : occupied [0, 0, 56, 56, 56, 112] = [0, 56] := by decide
example : startsFrom 0 [[1, 2], [3], [4, 5, 6]] = [2, 3, 6] := by decide

end PallasVerif.Props.C43
