import PallasVerif.Model.IdHash
import PallasVerif.Proofs.Cbor
import PallasVerif.Proofs.Traverse
/-!
# C05 — identity hashes are taken over the original on-wire bytes (partial)

`Model/IdHash.lean` defines the identifiers (tx id, header / block hash with the Byron prefixes,
datum hash, native-script hash) as BLAKE2b of a span delimited by the strict generic parser —
no typed decoder and no encoder of ledger values occurs in the definitions. Proved here, for
all byte strings:

* `elemSpan_is_slice` / `txId_is_hash_of_slice` — the hashed span of element `k` is literally a
  contiguous slice `bs = pre ++ span ++ post` of the wire bytes, where `pre` is the container head
  followed by the spans of the preceding elements, and the span is exactly one well-formed item;
* `blockHash_is_hash_of_slice`, `itemsOfKey_slices` — the same for the header inside a block and for
  the witness-set datums / native scripts inside a witness set;
* `encode_injective` / `id_input_changes_with_encoding` — two different concrete encodings
  (definite vs indefinite, wider heads, reordered entries, chunked strings …) are different hash
  inputs, so an identifier computed from any normalising re-encoding cannot agree with these
  identifiers on both (up to BLAKE2b collisions, which are not claimed impossible);
* `byron_prefix` — the Byron header hash input is the encoding of the two-element array
  `[tag, header]` whose second element is the *original* header span;
* `keepraw_span` — `KeepRaw::decode` stores exactly the generic span whenever the inner decoder
  stops where the first item ends (the `ConsumesItem` hypothesis).

* `proper_prefix_not_item`, `decoded_span_is_one_item`, `underconsuming_decoder_span_not_item` — CBOR
  is prefix-free, so a typed decoder that stops before the end of the item (a break byte left
  unread, trailing elements ignored) makes `KeepRaw` keep bytes that are not one well-formed item
  and differ from the wire item: exactly what the stream's oracle (span of the strict parser)
  compares against;

NOT proved (why this is `partial`): that pallas' typed era decoders satisfy `ConsumesItem` and
that `MultiEraTx::hash` etc. read the `KeepRaw` of the right element — this is compared, not
proved: stream `idhash` checks pallas against these definitions on every corpus tx / block /
header and on structural CBOR mutants.
-/
namespace PallasVerif.Props.C05
open PallasVerif.Cbor PallasVerif.IdHash

/-! ## spans are slices of the input -/

theorem encodeList_append (xs ys : List Item) : encodeList (xs ++ ys) = encodeList xs ++ encodeList ys := by
  induction xs with
  | nil => simp [encodeList]
  | cons x xs ih => simp [encodeList, ih]

theorem encodeList_split (xs : List Item) (k : Nat) (hk : k < xs.length) :
    encodeList xs = encodeList (xs.take k) ++ (xs[k].encode ++ encodeList (xs.drop (k + 1))) := by
  have h : xs = xs.take k ++ xs[k] :: xs.drop (k + 1) := by
    rw [List.getElem_cons_drop hk, List.take_append_drop]
  conv => lhs; rw [h]
  rw [encodeList_append]; simp [encodeList]

/-- the container head bytes in front of the elements -/
def containerHead : Item → Bytes
  | .seq h _ => h.encode
  | .seqIndef m _ => [initByte m 31]
  | _ => []

theorem array_encode (top : Item) (xs : List Item) (h : top.arrayItems? = some xs) :
    ∃ tail, top.encode = containerHead top ++ (encodeList xs ++ tail) := by
  cases top with
  | seq hd ys =>
    simp only [Item.arrayItems?] at h
    split at h
    · cases h; exact ⟨[], by simp [Item.encode, containerHead]⟩
    · cases h
  | seqIndef m ys =>
    simp only [Item.arrayItems?] at h
    split at h
    · cases h; exact ⟨[0xff], by simp [Item.encode, containerHead]⟩
    · cases h
  | atom _ => simp [Item.arrayItems?] at h
  | str _ _ => simp [Item.arrayItems?] at h
  | strIndef _ _ => simp [Item.arrayItems?] at h
  | tag _ _ => simp [Item.arrayItems?] at h

/-- **the span of element `k` is a contiguous slice of the wire bytes**, positioned after the
    container head and the spans of elements `0 .. k-1`, and is one well-formed item -/
theorem elemSpan_is_slice (k : Nat) (bs span : Bytes) (h : elemSpan k bs = some span) :
    ∃ (top : Item) (xs : List Item) (post : Bytes) (hk : k < xs.length),
      top.arrayItems? = some xs ∧ top.wf = true ∧
      bs = (containerHead top ++ encodeList (xs.take k)) ++ span ++ post ∧
      span = xs[k].encode ∧ xs[k].wf = true ∧ isSingleItem span = true := by
  unfold elemSpan at h
  cases hp : parseItem bs with
  | none => simp [hp] at h
  | some p =>
    obtain ⟨top, r⟩ := p
    simp only [hp] at h
    cases ha : top.arrayItems? with
    | none => simp [ha] at h
    | some xs =>
      simp only [ha, Option.map_eq_some_iff] at h
      obtain ⟨x, hx, rfl⟩ := h
      obtain ⟨hk, hxk⟩ := List.getElem?_eq_some_iff.mp hx
      obtain ⟨e, wtop⟩ := parseItem_sound bs top r hp
      obtain ⟨tail, ht⟩ := array_encode top xs ha
      have wx : xs[k].wf = true := by
        have wl : wfList xs = true := by
          cases top with
          | seq hd ys =>
            simp only [Item.arrayItems?] at ha; split at ha
            · cases ha; simp only [Item.wf, Bool.and_eq_true] at wtop; exact wtop.2
            · cases ha
          | seqIndef m ys =>
            simp only [Item.arrayItems?] at ha; split at ha
            · cases ha; simp only [Item.wf, Bool.and_eq_true] at wtop; exact wtop.2
            · cases ha
          | atom _ => simp [Item.arrayItems?] at ha
          | str _ _ => simp [Item.arrayItems?] at ha
          | strIndef _ _ => simp [Item.arrayItems?] at ha
          | tag _ _ => simp [Item.arrayItems?] at ha
        exact wfList_getElem xs k hk wl
      refine ⟨top, xs, encodeList (xs.drop (k + 1)) ++ (tail ++ r), hk, ha, wtop, ?_, by rw [hxk], wx, ?_⟩
      · rw [e, ht, encodeList_split xs k hk, ← hxk]; simp [List.append_assoc]
      · rw [← hxk]; exact isSingleItem_encode _ wx
where
  wfList_getElem : ∀ (xs : List Item) (k : Nat) (hk : k < xs.length), wfList xs = true → xs[k].wf = true
    | x :: xs, 0, _, h => by simp only [wfList, Bool.and_eq_true] at h; exact h.1
    | x :: xs, k + 1, hk, h => by
      simp only [wfList, Bool.and_eq_true] at h
      exact wfList_getElem xs k (by simpa using hk) h.2

/-- the transaction id is BLAKE2b-256 of a slice of the wire bytes that starts right after the
    outer array head (element 0), and that slice is exactly one well-formed item -/
theorem txId_is_hash_of_slice (bs d : Bytes) (h : txId bs = some d) :
    ∃ (pre span post : Bytes), bs = pre ++ span ++ post ∧ d = Blake2b.blake2b256 span ∧
      isSingleItem span = true ∧ 1 ≤ pre.length ∧ pre.length ≤ 9 := by
  simp only [txId, Option.map_eq_some_iff] at h
  obtain ⟨span, hs, rfl⟩ := h
  obtain ⟨top, xs, post, hk, ha, wtop, hb, _, _, hsingle⟩ := elemSpan_is_slice 0 bs span hs
  refine ⟨containerHead top, span, post, by simpa [encodeList] using hb, rfl, hsingle, ?_⟩
  cases top with
  | seq hd ys =>
    simp only [Item.wf, Bool.and_eq_true] at wtop
    have hw := (Head.wf_iff hd).mp wtop.1.1.1.1
    have : hd.arg.length ≤ 8 := by
      have := hw.2.2
      unfold argLen at this
      split at this <;> (try split at this) <;> (try split at this) <;> (try split at this) <;>
        (try split at this) <;> (try split at this) <;> simp at this <;> omega
    simp [containerHead, Head.encode]; omega
  | seqIndef m ys => simp [containerHead]
  | atom _ => simp [Item.arrayItems?] at ha
  | str _ _ => simp [Item.arrayItems?] at ha
  | strIndef _ _ => simp [Item.arrayItems?] at ha
  | tag _ _ => simp [Item.arrayItems?] at ha

/-! ## block hash, witness-set datums and native scripts: slices too -/

open PallasVerif.TxView PallasVerif.Traverse.Slices in
/-- the block hash is BLAKE2b-256 of (the Byron prefix and) a contiguous slice of the block bytes -/
theorem blockHash_is_hash_of_slice (bs d : Bytes) (h : blockHash bs = some d) :
    ∃ (tag : Nat) (span : Bytes), Slice span bs ∧ isSingleItem span = true ∧ d = headerHash tag span := by
  unfold blockHash at h
  cases hv : viewBlock bs with
  | none => simp [hv] at h
  | some v =>
    simp only [hv, Option.some.injEq] at h
    unfold viewBlock at hv
    split at hv
    · rename_i top hp
      obtain ⟨e, wtop⟩ := parseItem_sound bs top [] hp
      have e' : bs = top.encode := by simpa using e
      obtain ⟨hh, _, _, _, _, hwf⟩ := view_parts_are_slices top v hv
      exact ⟨v.tag, v.header.encode, by rw [e']; exact hh, isSingleItem_encode _ (hwf wtop), h.symm⟩
    · cases hv

open PallasVerif.TxView PallasVerif.Traverse.Slices in
theorem mapGet_mem (k : Nat) : ∀ (es : List (Item × Item)) (v : Item), mapGet k es = some v → ∃ p ∈ es, p.2 = v
  | [], v, h => by simp [mapGet] at h
  | (key, x) :: rest, v, h => by
    simp only [mapGet] at h
    split at h
    · cases h; exact ⟨(key, x), by simp, rfl⟩
    · obtain ⟨p, hp, e⟩ := mapGet_mem k rest v h
      exact ⟨p, List.mem_cons_of_mem _ hp, e⟩

open PallasVerif.TxView PallasVerif.Traverse.Slices in
theorem slice_untag258 (v : Item) : Slice (untag258 v).encode v.encode := by
  cases v with
  | tag h i =>
    simp only [untag258]
    split
    · exact ⟨h.encode, [], by simp [Item.encode]⟩
    · exact Slice.refl _
  | atom _ => exact Slice.refl _
  | str _ _ => exact Slice.refl _
  | strIndef _ _ => exact Slice.refl _
  | seq _ _ => exact Slice.refl _
  | seqIndef _ _ => exact Slice.refl _

open PallasVerif.TxView PallasVerif.Traverse.Slices in
/-- every datum / native-script span that is hashed is a contiguous slice of the witness-set bytes -/
theorem itemsOfKey_slices (set : Bool) (k : Nat) (m x : Item) (hx : x ∈ itemsOfKey set k m) :
    Slice x.encode m.encode := by
  unfold itemsOfKey at hx
  cases hm : m.mapEntries? with
  | none => simp [hm] at hx
  | some es =>
    simp only [hm] at hx
    cases hg : mapGet k es with
    | none => simp [hg] at hx
    | some v =>
      simp only [hg] at hx
      obtain ⟨p, hp, rfl⟩ := mapGet_mem k es v hg
      have hv : Slice p.2.encode m.encode := slice_child m p.2 (Or.inr ⟨es, hm, p, hp, Or.inr rfl⟩)
      cases ha : (if set then untag258 p.2 else p.2).arrayItems? with
      | none => simp [ha] at hx
      | some xs =>
        simp only [ha, Option.getD_some] at hx
        have h1 : Slice x.encode (if set then untag258 p.2 else p.2).encode := slice_arr ha hx
        have h2 : Slice (if set then untag258 p.2 else p.2).encode p.2.encode := by
          cases set
          · simpa using Slice.refl _
          · simpa using slice_untag258 p.2
        exact (h1.trans h2).trans hv


/-! ## different encodings are different hash inputs -/

/-- well-formed concrete syntax trees are determined by their bytes -/
theorem encode_injective (i j : Item) (wi : i.wf = true) (wj : j.wf = true) (h : i.encode = j.encode) : i = j := by
  have a := parseItem_encode i [] wi
  have b := parseItem_encode j [] wj
  rw [h, b] at a
  cases a; rfl

/-- **any two different encodings are different hash inputs** — whatever value-level
    normalisation `canon` identifies them (definite vs indefinite, head widths, entry order,
    chunking): an identifier computed from `canon` would feed BLAKE2b the same bytes for both,
    the identifiers defined here feed it different bytes -/
theorem id_input_changes_with_encoding {V : Type} (canon : Item → V) (i j : Item)
    (wi : i.wf = true) (wj : j.wf = true) (_same : canon i = canon j) (hne : i ≠ j) :
    i.encode ≠ j.encode :=
  fun h => hne (encode_injective i j wi wj h)

/-! ## Byron prefix -/

/-- the Byron header hash input `82 <tag> <original header bytes>` is the encoding of the array
    `[tag, header]` with the header's own (original) encoding as second element -/
theorem byron_prefix (tag : Nat) (_ht : tag < 24) (hdr : Item) :
    byronPrefixed (UInt8.ofNat tag) hdr.encode = (Item.seq ⟨4, 2, []⟩ [.atom ⟨0, tag, []⟩, hdr]).encode := by
  simp [byronPrefixed, Item.encode, encodeList, Head.encode, initByte]

theorem headerHash_cases (span : Bytes) :
    headerHash 0 span = Blake2b.blake2b256 (0x82 :: 0x00 :: span) ∧
    headerHash 1 span = Blake2b.blake2b256 (0x82 :: 0x01 :: span) ∧
    ∀ t, 2 ≤ t → headerHash t span = Blake2b.blake2b256 span := by
  refine ⟨by simp [headerHash, byronPrefixed], by simp [headerHash, byronPrefixed], ?_⟩
  intro t ht
  have h0 : t ≠ 0 := by omega
  have h1 : t ≠ 1 := by omega
  simp [headerHash, h0, h1]

/-! ## KeepRaw -/

/-- `KeepRaw::decode`: run the inner decoder from `start`, keep `all[start..end]` -/
def keepRawDecode {α} (inner : Bytes → Nat → Option (α × Nat)) (all : Bytes) (start : Nat) :
    Option ((α × Bytes) × Nat) :=
  match inner all start with
  | some (a, e) => some ((a, (all.drop start).take (e - start)), e)
  | none => none

/-- the inner decoder stops exactly where the first generic item ends -/
def ConsumesItem {α} (inner : Bytes → Nat → Option (α × Nat)) (all : Bytes) (start : Nat) : Prop :=
  ∀ a e, inner all start = some (a, e) →
    ∃ span, firstSpan (all.drop start) = some span ∧ e = start + span.length

theorem keepraw_span {α} (inner : Bytes → Nat → Option (α × Nat)) (all : Bytes) (start : Nat)
    (hc : ConsumesItem inner all start) (a : α) (raw : Bytes) (e : Nat)
    (h : keepRawDecode inner all start = some ((a, raw), e)) :
    firstSpan (all.drop start) = some raw := by
  unfold keepRawDecode at h
  cases hi : inner all start with
  | none => simp [hi] at h
  | some p =>
    obtain ⟨a', e'⟩ := p
    simp only [hi, Option.some.injEq, Prod.mk.injEq] at h
    obtain ⟨⟨rfl, hraw⟩, rfl⟩ := h
    obtain ⟨span, hs, he⟩ := hc a' e' hi
    rw [hs, ← hraw, he]
    -- span is a prefix of `all.drop start`
    unfold firstSpan at hs
    cases hp : parseItem (all.drop start) with
    | none => simp [hp] at hs
    | some q =>
      simp only [hp, Option.some.injEq] at hs
      rw [← hs]; simp

/-! ## a decoder that stops early is detectable: its span is not an item -/

/-- CBOR is prefix-free: no proper prefix of a well-formed item is itself a well-formed item -/
theorem proper_prefix_not_item (i : Item) (wi : i.wf = true) (raw suf : Bytes)
    (h : i.encode = raw ++ suf) (hs : suf ≠ []) : isSingleItem raw = false := by
  cases hr : isSingleItem raw with
  | false => rfl
  | true =>
    obtain ⟨j, wj, rfl⟩ := (isSingleItem_iff raw).mp hr
    have a := parseItem_encode j suf wj
    have b := parseItem_encode i [] wi
    rw [List.append_nil, h, a] at b
    cases b
    exact absurd rfl hs

/-- the span the oracle hashes (the first item of the input, as delimited by the strict generic
    parser) is always exactly one well-formed item -/
theorem decoded_span_is_one_item (bs span : Bytes) (h : firstSpan bs = some span) :
    isSingleItem span = true ∧ ∃ rest, bs = span ++ rest := by
  unfold firstSpan at h
  cases hp : parseItem bs with
  | none => simp [hp] at h
  | some p =>
    obtain ⟨i, r⟩ := p
    obtain ⟨e, wi⟩ := parseItem_sound bs i r hp
    simp only [hp, Option.some.injEq] at h
    subst e
    have : span = i.encode := by rw [← h]; simp
    subst this
    exact ⟨isSingleItem_encode i wi, r, rfl⟩

/-- **the general fact behind a left-over break byte**: if the inner decoder of a `KeepRaw` stops
    before the end of the item (`e < start + |span|`, e.g. it never reads the `ff` that closes an
    indefinite-length container, or ignores trailing array elements), the bytes `KeepRaw` keeps are
    NOT one well-formed item and differ from the wire item — whatever is hashed is not the item
    that appeared on the wire -/
theorem underconsuming_decoder_span_not_item {α} (inner : Bytes → Nat → Option (α × Nat)) (all : Bytes)
    (start : Nat) (a : α) (raw : Bytes) (e : Nat)
    (h : keepRawDecode inner all start = some ((a, raw), e))
    (span : Bytes) (hspan : firstSpan (all.drop start) = some span)
    (hlt : e < start + span.length) :
    isSingleItem raw = false ∧ raw ≠ span := by
  unfold keepRawDecode at h
  cases hi : inner all start with
  | none => simp [hi] at h
  | some p =>
    obtain ⟨a', e'⟩ := p
    simp only [hi, Option.some.injEq, Prod.mk.injEq] at h
    obtain ⟨⟨rfl, hraw⟩, rfl⟩ := h
    obtain ⟨hone, rest, hall⟩ := decoded_span_is_one_item _ span hspan
    obtain ⟨i, wi, rfl⟩ := (isSingleItem_iff span).mp hone
    -- raw is the proper prefix of the item of length e' - start
    have hr : raw = i.encode.take (e' - start) := by
      rw [← hraw, hall, List.take_append_of_le_length (by omega)]
    have hsplit : i.encode = raw ++ i.encode.drop (e' - start) := by rw [hr, List.take_append_drop]
    have hne : i.encode.drop (e' - start) ≠ [] := by
      intro hnil
      have := congrArg List.length hnil
      simp only [List.length_drop, List.length_nil] at this
      have hlen := size_le i
      omega
    refine ⟨proper_prefix_not_item i wi raw _ hsplit hne, fun heq => ?_⟩
    rw [heq] at hsplit
    have := congrArg List.length hsplit
    simp only [List.length_append, List.length_drop] at this
    have hpos : 0 < (i.encode.drop (e' - start)).length := List.length_pos_iff.mpr hne
    simp only [List.length_drop] at hpos
    omega

/-- `MultiEraHeader::decode(tag, subtag, ·).hash()` in the model: which prefix each entry point uses -/
theorem headerHashN2N_cases (span : Bytes) :
    headerHashN2N 0 (some 0) span = Blake2b.blake2b256 (0x82 :: 0x00 :: span) ∧
    (∀ st, st ≠ some 0 → headerHashN2N 0 st span = Blake2b.blake2b256 (0x82 :: 0x01 :: span)) ∧
    (∀ t st, 1 ≤ t → headerHashN2N t st span = Blake2b.blake2b256 span) := by
  refine ⟨by simp [headerHashN2N, byronPrefixed], ?_, ?_⟩
  · intro st hst; simp [headerHashN2N, byronPrefixed, hst]
  · intro t st ht
    have : t ≠ 0 := by omega
    simp [headerHashN2N, this]

/-! ## Non-vacuity: the same array `[[1], 2]` with a definite and an indefinite element 0 -/

example : elemSpan 0 [0x82, 0x81, 0x01, 0x02] = some [0x81, 0x01] := by decide
example : elemSpan 0 [0x82, 0x9f, 0x01, 0xff, 0x02] = some [0x9f, 0x01, 0xff] := by decide
example : elemSpan 0 [0x82, 0x81, 0x18, 0x01, 0x02] = some [0x81, 0x18, 0x01] := by decide
example : elemSpan 1 [0x9f, 0x81, 0x01, 0x02, 0xff] = some [0x02] := by decide
example : elemSpan 0 [0x82, 0x81, 0x01] = none := by decide
example : byronPrefixed 1 [0x85, 0x00] = [0x82, 0x01, 0x85, 0x00] := by decide
-- `[{_ }]` with an indefinite empty map: the full item is one item, the bytes without the break are not
example : isSingleItem [0x81, 0xbf, 0xff] = true ∧ isSingleItem [0x81, 0xbf] = false := by decide

end PallasVerif.Props.C05
