import PallasVerif.Model.Kes
import PallasVerif.Props.C10
import PallasVerif.Gen.KesConsts
/-!
# C12 — KES keys sign verifiably for exactly their current period   (partial)

All theorems are about `Model/Kes.lean` (the `sum_kes!` / `sum_compact_kes!` macros transcribed for an
arbitrary depth `d`, parametric in the primitives) and are proved by induction on `d` — there is no
bound at 7 — for every seed, period and message:

* `evolve_keygen` / `period_after_updates` — a key evolved `t < 2^d` times is the closed form
  `keyAt d s t` and reports period `t`;
* `pk_invariant` — its public key (`to_pk`) is the one `keygen` returned;
* `update_fails_iff` — evolution of that key fails exactly when `t = 2^d − 1`;
* `verify_own_period`, `cverify_own_period` — its signature verifies at period `t` under that key
  (hypothesis: the base scheme accepts its own signatures — for Ed25519 that is C11);
* `verify_other_period_fails`, `cverify_other_period_fails` — it fails at every other period
  `p < 2^d`. **Idealisation, stated as explicit hypotheses and not as axioms:** the pair hash is
  injective (`HashInj`), a base signature verifies only under its maker's key (`SigIdeal`, sum
  construction only) and the `2^d` leaf keys of this tree are pairwise different (`LeavesDistinct`).
  Concretely: "fails unless there is a BLAKE2b-256 collision among the ≤ 2^(d+1) node keys of this
  tree or an Ed25519 signature that verifies under a different leaf key of the tree". The symbolic
  instance `sym` (free hash, free key derivation, ideal signature) satisfies all of them
  (`sym_hashInj`, `sym_sigIdeal`, `sym_leavesDistinct`, `sym_baseCorrect`), so the theorems are not
  vacuous and hold unconditionally there (`sym_verify_iff`, `sym_cverify_iff`);
* `sumSig_bytes_roundtrip`, `cSig_bytes_roundtrip` — signatures round-trip through bytes.
* `gen_unknowns`, `gen_constants`, `gen_sizes`, `gen_instantiations` — the size formulas, constants and the
  macro instantiation chain *regenerated from the pallas sources on every run* (`lib/translate_kes.py` →
  `Gen/KesConsts.lean`) are the model's; `keyBytes_length` / `skBytes_length` — the model's key buffer has
  `32 + 96·d (+ 4)` bytes at every period.

Not proved: the hypotheses for the concrete BLAKE2b/Ed25519 instance (they are cryptographic
assumptions), and that the byte layout `keyBytes` is what the Rust slices hold — the latter is
checked on every run by comparing the real key buffer with `skBytes` after every update.
-/
namespace PallasVerif.Props.C12
open PallasVerif.Kes

variable (P : Prims)

/-! ## evolution -/

theorem two_pow_succ (d : Nat) : 2 ^ (d + 1) = 2 ^ d + 2 ^ d := by rw [Nat.pow_succ]; omega

theorem keyAt_zero (d : Nat) (s : P.Seed) : keyAt P d s 0 = (keygen P d s).1 := by
  induction d generalizing s with
  | zero => rfl
  | succ d ih =>
    have : 0 < 2 ^ d := Nat.two_pow_pos d
    simp [keyAt, keygen, this, ih, pkTree]

theorem update_keyAt (d : Nat) (s : P.Seed) (t : Nat) (h : t + 1 < 2 ^ d) :
    update P d (keyAt P d s t) t = some (keyAt P d s (t + 1)) := by
  induction d generalizing s t with
  | zero => simp at h
  | succ d ih =>
    have hp := two_pow_succ d
    by_cases h1 : t < 2 ^ d
    · have hne : ¬ (t + 1 = 2 ^ (d + 1)) := by omega
      by_cases h2 : t + 1 < 2 ^ d
      · simp [keyAt, h1, h2, update, hne, ih _ _ h2]
      · have h3 : t + 1 = 2 ^ d := by omega
        have h4 : ¬ (2 ^ d < 2 ^ d) := by omega
        have h6 : ¬ (2 ^ d = 2 ^ (d + 1)) := by omega
        simp [keyAt, h1, update, h3, h4, h6, keyAt_zero]
    · have hne : ¬ (t + 1 = 2 ^ (d + 1)) := by omega
      have h2 : ¬ (t + 1 < 2 ^ d) := by omega
      have h3 : ¬ (t + 1 = 2 ^ d) := by omega
      have h4 : (t - 2 ^ d) + 1 < 2 ^ d := by omega
      have h5 : t + 1 - 2 ^ d = t - 2 ^ d + 1 := by omega
      simp [keyAt, h1, update, hne, h2, h3, ih _ _ h4, h5]

theorem update_fails_at_end (d : Nat) (s : P.Seed) :
    update P d (keyAt P d s (2 ^ d - 1)) (2 ^ d - 1) = none := by
  cases d with
  | zero => rfl
  | succ d =>
    have hp := two_pow_succ d
    have : 0 < 2 ^ d := Nat.two_pow_pos d
    have h1 : ¬ (2 ^ (d + 1) - 1 < 2 ^ d) := by omega
    have h2 : 2 ^ (d + 1) - 1 + 1 = 2 ^ (d + 1) := by omega
    simp [keyAt, h1, update, h2]

/-- `n` successive `KesSk::update` calls (`none` as soon as one fails) -/
def evolve (k : SK P) : Nat → Option (SK P)
  | 0 => some k
  | n + 1 => (evolve k n).bind (skUpdate P)

/-- a key evolved `t < 2^d` times from `keygen d s` is `keyAt d s t` with period counter `t` -/
theorem evolve_keygen (d : Nat) (s : P.Seed) (t : Nat) (ht : t < 2 ^ d) :
    evolve P (skKeygen P d s).1 t = some { depth := d, key := keyAt P d s t, period := t } := by
  induction t with
  | zero => simp [evolve, skKeygen, keyAt_zero]
  | succ t ih =>
    simp only [evolve, ih (by omega), Option.bind_some, skUpdate]
    rw [update_keyAt P d s t ht]; rfl

/-- **reports period `t`** -/
theorem period_after_updates (d : Nat) (s : P.Seed) (t : Nat) (ht : t < 2 ^ d) :
    (evolve P (skKeygen P d s).1 t).map (·.period) = some t := by
  rw [evolve_keygen P d s t ht]; rfl

theorem toPk_keyAt (d : Nat) (s : P.Seed) (t : Nat) : toPk P (keyAt P d s t) = pkTree P d s := by
  cases d with
  | zero => rfl
  | succ d => simp only [keyAt]; split <;> simp [toPk, pkTree, keygen]

/-- **keeps the original public key** -/
theorem pk_invariant (d : Nat) (s : P.Seed) (t : Nat) (ht : t < 2 ^ d) :
    (evolve P (skKeygen P d s).1 t).map (fun k => toPk P k.key) = some (skKeygen P d s).2 := by
  rw [evolve_keygen P d s t ht]; simp [toPk_keyAt, skKeygen, pkTree]

/-- **evolution fails exactly when `t = 2^d − 1`** -/
theorem update_fails_iff (d : Nat) (s : P.Seed) (t : Nat) (ht : t < 2 ^ d) :
    (evolve P (skKeygen P d s).1 (t + 1) = none) ↔ t = 2 ^ d - 1 := by
  simp only [evolve, evolve_keygen P d s t ht, Option.bind_some, skUpdate]
  constructor
  · intro h
    by_cases h1 : t + 1 < 2 ^ d
    · rw [update_keyAt P d s t h1] at h; simp at h
    · omega
  · intro h; subst h; rw [update_fails_at_end]; rfl

/-! ## own period -/

/-- the base scheme accepts its own signatures (Ed25519: C11) -/
def BaseCorrect : Prop := ∀ (s : P.Seed) (m : Bytes), P.bverify (P.leafPk s) m (P.bsign s m) = true

theorem pkTree_succ (d : Nat) (s : P.Seed) :
    pkTree P (d + 1) s = P.h2 (pkTree P d (P.split s).1) (pkTree P d (P.split s).2) := rfl

/-- **sum construction: the signature of period `t` verifies at period `t`** -/
theorem verify_own_period (hc : BaseCorrect P) (d : Nat) (s : P.Seed) (t : Nat) (m : Bytes) :
    verify P d (sign P (keyAt P d s t) m) t (pkTree P d s) m = true := by
  induction d generalizing s t with
  | zero => exact hc s m
  | succ d ih =>
    by_cases h1 : t < 2 ^ d
    · simp [keyAt, h1, sign, verify, pkTree_succ, ih]
    · simp [keyAt, h1, sign, verify, pkTree_succ, ih]

/-- closed form of the compact signature made at period `t` -/
def csigAt : Nat → P.Seed → Nat → Bytes → CSig P
  | 0, s, _, m => .leaf (P.bsign s m) (P.leafPk s)
  | d + 1, s, t, m =>
    if t < 2 ^ d then .node (csigAt d (P.split s).1 t m) (pkTree P d (P.split s).2)
    else .node (csigAt d (P.split s).2 (t - 2 ^ d) m) (pkTree P d (P.split s).1)

theorem csign_keyAt (d : Nat) (s : P.Seed) (t : Nat) (m : Bytes) :
    csign P d (keyAt P d s t) m t = some (csigAt P d s t m) := by
  induction d generalizing s t with
  | zero => rfl
  | succ d ih =>
    by_cases h1 : t < 2 ^ d
    · simp [keyAt, h1, csign, csigAt, ih]
    · simp [keyAt, h1, csign, csigAt, ih]

theorem recompute_own (hc : BaseCorrect P) (d : Nat) (s : P.Seed) (t : Nat) (m : Bytes) :
    recompute P d (csigAt P d s t m) t m = some (pkTree P d s) := by
  induction d generalizing s t with
  | zero => simp [csigAt, recompute, hc s m, pkTree, keygen]
  | succ d ih =>
    by_cases h1 : t < 2 ^ d
    · simp [csigAt, h1, recompute, ih, pkTree_succ]
    · simp [csigAt, h1, recompute, ih, pkTree_succ]

/-- **compact construction: the signature of period `t` verifies at period `t`** -/
theorem cverify_own_period (hc : BaseCorrect P) (d : Nat) (s : P.Seed) (t : Nat) (m : Bytes) :
    (csign P d (keyAt P d s t) m t).map (fun sg => cverify P d sg t (pkTree P d s) m) = some true := by
  rw [csign_keyAt]; simp [cverify, recompute_own P hc]

/-! ## other periods (under the idealisation) -/

/-- no collision of the pair hash -/
def HashInj : Prop := ∀ a b c e : P.Pk, P.h2 a b = P.h2 c e → a = c ∧ b = e
/-- a base signature verifies only under the key of the seed that made it -/
def SigIdeal : Prop := ∀ (pk : P.Pk) (s : P.Seed) (m : Bytes), P.bverify pk m (P.bsign s m) = true → pk = P.leafPk s
/-- the leaf keys of the depth-`d` tree grown from `s` are pairwise different -/
def LeavesDistinct (d : Nat) (s : P.Seed) : Prop :=
  ∀ p t, p < 2 ^ d → t < 2 ^ d → p ≠ t → P.leafPk (leafSeed P d s p) ≠ P.leafPk (leafSeed P d s t)

theorem pkTree_eq_leaves (hi : HashInj P) (d : Nat) (s s' : P.Seed) (h : pkTree P d s = pkTree P d s') (q : Nat) :
    P.leafPk (leafSeed P d s q) = P.leafPk (leafSeed P d s' q) := by
  induction d generalizing s s' q with
  | zero => exact h
  | succ d ih =>
    rw [pkTree_succ, pkTree_succ] at h
    obtain ⟨h1, h2⟩ := hi _ _ _ _ h
    simp only [leafSeed]
    split
    · exact ih _ _ h1 _
    · exact ih _ _ h2 _

theorem verify_true_pk (hs : SigIdeal P) (d : Nat) (s : P.Seed) (t p : Nat) (pk : P.Pk) (m : Bytes)
    (h : verify P d (sign P (keyAt P d s t) m) p pk m = true) : pk = pkTree P d s := by
  cases d with
  | zero => exact hs pk s m h
  | succ d =>
    by_cases h1 : t < 2 ^ d
    · simp only [keyAt, h1, ↓reduceIte, sign, verify] at h
      split at h
      · simp at h
      · next hh => rw [pkTree_succ]; exact (Decidable.not_not.mp hh).symm
    · simp only [keyAt, h1, ↓reduceIte, sign, verify] at h
      split at h
      · simp at h
      · next hh => rw [pkTree_succ]; exact (Decidable.not_not.mp hh).symm

theorem verify_true_leaf (hi : HashInj P) (hs : SigIdeal P) (d : Nat) (s : P.Seed) (t p : Nat) (pk : P.Pk)
    (m : Bytes) (h : verify P d (sign P (keyAt P d s t) m) p pk m = true) :
    P.leafPk (leafSeed P d s t) = P.leafPk (leafSeed P d s p) := by
  induction d generalizing s t p pk with
  | zero => rfl
  | succ d ih =>
    by_cases h1 : t < 2 ^ d <;> by_cases h2 : p < 2 ^ d <;>
      simp only [keyAt, h1, h2, ↓reduceIte, sign, verify, leafSeed] at h ⊢ <;>
      split at h <;> try (simp at h)
    · exact ih _ _ _ _ h
    · have e := verify_true_pk P hs d _ _ _ _ m h
      rw [ih _ _ _ _ h]
      exact (pkTree_eq_leaves P hi d _ _ e _).symm
    · have e := verify_true_pk P hs d _ _ _ _ m h
      rw [ih _ _ _ _ h]
      exact (pkTree_eq_leaves P hi d _ _ e _).symm
    · exact ih _ _ _ _ h

/-- **sum construction: the signature of period `t` fails at every other period `p < 2^d`** -/
theorem verify_other_period_fails (hi : HashInj P) (hs : SigIdeal P) (d : Nat) (s : P.Seed)
    (hd : LeavesDistinct P d s) (t p : Nat) (ht : t < 2 ^ d) (hp : p < 2 ^ d) (hne : p ≠ t) (pk : P.Pk) (m : Bytes) :
    verify P d (sign P (keyAt P d s t) m) p pk m = false := by
  cases hv : verify P d (sign P (keyAt P d s t) m) p pk m with
  | false => rfl
  | true => exact absurd (verify_true_leaf P hi hs d s t p pk m hv).symm (hd p t hp ht hne)

theorem recompute_true_leaf (hi : HashInj P) (d : Nat) (s : P.Seed) (t p : Nat) (m : Bytes)
    (h : recompute P d (csigAt P d s t m) p m = some (pkTree P d s)) :
    P.leafPk (leafSeed P d s t) = P.leafPk (leafSeed P d s p) := by
  induction d generalizing s t p with
  | zero => rfl
  | succ d ih =>
    rw [pkTree_succ] at h
    by_cases h1 : t < 2 ^ d <;> by_cases h2 : p < 2 ^ d <;>
      simp only [csigAt, h1, h2, ↓reduceIte, recompute, leafSeed, Option.map_eq_some_iff] at h ⊢ <;>
      obtain ⟨k, hk, he⟩ := h <;> obtain ⟨e1, e2⟩ := hi _ _ _ _ he
    · subst e1; exact ih _ _ _ hk
    · subst e2
      rw [ih _ _ _ (by rw [hk, e1])]
      exact pkTree_eq_leaves P hi d _ _ e1.symm _
    · subst e1
      rw [ih _ _ _ (by rw [hk, e2])]
      exact pkTree_eq_leaves P hi d _ _ e2.symm _
    · subst e2; exact ih _ _ _ hk

/-- **compact construction: the signature of period `t` fails at every other period `p < 2^d`** -/
theorem cverify_other_period_fails (hi : HashInj P) (d : Nat) (s : P.Seed)
    (hd : LeavesDistinct P d s) (t p : Nat) (ht : t < 2 ^ d) (hp : p < 2 ^ d) (hne : p ≠ t) (m : Bytes) :
    (csign P d (keyAt P d s t) m t).map (fun sg => cverify P d sg p (pkTree P d s) m) = some false := by
  rw [csign_keyAt]
  simp only [Option.map_some, cverify, Option.some.injEq]
  cases hr : recompute P d (csigAt P d s t m) p m with
  | none => rfl
  | some k =>
    by_cases hk : k = pkTree P d s
    · subst hk
      exact absurd (recompute_true_leaf P hi d s t p m hr).symm (hd p t hp ht hne)
    · simp [hk]

/-! ## the symbolic instance satisfies the idealisation (non-vacuity) -/

theorem sym_hashInj : HashInj sym := by
  intro a b c e h; exact PkT.h2.inj h

theorem sym_sigIdeal : SigIdeal sym := by
  intro pk s m h
  have : pk = PkT.leaf s ∧ m = m := by simpa [sym] using h
  exact this.1

theorem sym_baseCorrect : BaseCorrect sym := by
  intro s m; simp

theorem leafSeed_under (d : Nat) (s : Path) (q : Nat) : s <+: leafSeed sym d s q := by
  induction d generalizing s q with
  | zero => exact List.prefix_refl _
  | succ d ih =>
    simp only [leafSeed]; split
    · exact List.IsPrefix.trans (List.prefix_append s [Dir.L]) (ih _ _)
    · exact List.IsPrefix.trans (List.prefix_append s [Dir.R]) (ih _ _)

theorem sides_differ (s x y : Path) (h1 : s ++ [Dir.L] <+: x) (h2 : s ++ [Dir.R] <+: y) : x ≠ y := by
  intro e; subst e
  obtain ⟨a, ha⟩ := h1
  obtain ⟨b, hb⟩ := h2
  have : (s ++ [Dir.L]) ++ a = (s ++ [Dir.R]) ++ b := by rw [ha, hb]
  simp [List.append_assoc] at this

theorem sym_leafSeed_injective (d : Nat) (s : Path) (p t : Nat) (hp : p < 2 ^ d) (ht : t < 2 ^ d) (hne : p ≠ t) :
    leafSeed sym d s p ≠ leafSeed sym d s t := by
  induction d generalizing s p t with
  | zero => simp at hp ht; omega
  | succ d ih =>
    have h2 := two_pow_succ d
    by_cases h1 : p < 2 ^ d <;> by_cases h3 : t < 2 ^ d <;> simp only [leafSeed, h1, h3, ↓reduceIte]
    · exact ih _ _ _ h1 h3 hne
    · exact sides_differ s _ _ (leafSeed_under d _ _) (leafSeed_under d _ _)
    · exact (sides_differ s _ _ (leafSeed_under d _ _) (leafSeed_under d _ _)).symm
    · exact ih _ _ _ (by omega) (by omega) (by omega)

theorem sym_leavesDistinct (d : Nat) (s : Path) : LeavesDistinct sym d s := by
  intro p t hp ht hne h
  exact sym_leafSeed_injective d s p t hp ht hne (PkT.leaf.inj h)

/-- in the symbolic model, unconditionally: a signature verifies at its own period and at no other -/
theorem sym_verify_iff (d : Nat) (s : Path) (t p : Nat) (ht : t < 2 ^ d) (hp : p < 2 ^ d) (m : Bytes) :
    verify sym d (sign sym (keyAt sym d s t) m) p (pkTree sym d s) m = decide (p = t) := by
  by_cases h : p = t
  · subst h; simp [verify_own_period sym sym_baseCorrect]
  · simp [h, verify_other_period_fails sym sym_hashInj sym_sigIdeal d s (sym_leavesDistinct d s) t p ht hp h]

theorem sym_cverify_iff (d : Nat) (s : Path) (t p : Nat) (ht : t < 2 ^ d) (hp : p < 2 ^ d) (m : Bytes) :
    (csign sym d (keyAt sym d s t) m t).map (fun sg => cverify sym d sg p (pkTree sym d s) m) = some (decide (p = t)) := by
  by_cases h : p = t
  · subst h; simp [cverify_own_period sym sym_baseCorrect]
  · simp [h, cverify_other_period_fails sym sym_hashInj d s (sym_leavesDistinct d s) t p ht hp h]


/-! ## signatures round-trip through bytes (concrete instance) -/

/-- a sum signature as `from_bytes` can produce it: 64-byte Ed25519 signature, 32-byte keys -/
def SumShape : Nat → SumSig conc → Prop
  | 0, .leaf s => s.length = 64
  | d + 1, .node sg l r => SumShape d sg ∧ l.length = 32 ∧ r.length = 32
  | _, _ => False

theorem sumSigBytes_length (d : Nat) (sg : SumSig conc) (h : SumShape d sg) :
    (sumSigBytes sg).length = 64 + 64 * d := by
  induction d generalizing sg with
  | zero => cases sg with
    | leaf s => simpa [SumShape, sumSigBytes] using h
    | node _ _ _ => simp [SumShape] at h
  | succ d ih => cases sg with
    | leaf s => simp [SumShape] at h
    | node sg l r =>
      obtain ⟨h1, h2, h3⟩ := h
      simp [sumSigBytes, ih sg h1, h2, h3]; omega

/-- **`SumdKesSig::from_bytes (to_bytes sig) = sig`** -/
theorem sumSig_bytes_roundtrip (d : Nat) (sg : SumSig conc) (h : SumShape d sg) :
    sumSigOfBytes d (sumSigBytes sg) = some sg := by
  induction d generalizing sg with
  | zero => cases sg with
    | leaf s => simp [SumShape] at h; simp [sumSigOfBytes, sumSigBytes, h]
    | node _ _ _ => simp [SumShape] at h
  | succ d ih => cases sg with
    | leaf s => simp [SumShape] at h
    | node sg l r =>
      obtain ⟨h1, h2, h3⟩ := h
      have hl := sumSigBytes_length d sg h1
      have hlen : (sumSigBytes sg ++ l ++ r).length = 64 + 64 * (d + 1) := by simp [hl, h2, h3]; omega
      simp only [sumSigOfBytes, sumSigBytes, hlen, ↓reduceIte]
      have e1 : (sumSigBytes sg ++ l ++ r).take (64 + 64 * d) = sumSigBytes sg := by
        rw [List.append_assoc, List.take_append_of_le_length (by omega), List.take_of_length_le (by omega)]
      have e2 : (sumSigBytes sg ++ l ++ r).drop (64 + 64 * d) = l ++ r := by
        rw [List.append_assoc, List.drop_append_of_le_length (by omega), List.drop_of_length_le (by omega), List.nil_append]
      have e3 : (sumSigBytes sg ++ l ++ r).drop (64 + 64 * d + 32) = r := by
        rw [← List.drop_drop, e2, List.drop_append_of_le_length (by omega), List.drop_of_length_le (by omega), List.nil_append]
      rw [e1, e2, e3, ih sg h1]
      simp [List.take_append_of_le_length, h2]

/-- a compact signature as `from_bytes` can produce it (the leaf key must decompress) -/
def CShape : Nat → CSig conc → Prop
  | 0, .leaf s pk => s.length = 64 ∧ pk.length = 32 ∧ (PallasVerif.Ed25519.decodeLenient pk).isSome = true
  | d + 1, .node sg pk => CShape d sg ∧ pk.length = 32
  | _, _ => False

theorem cSigBytes_length (d : Nat) (sg : CSig conc) (h : CShape d sg) :
    (cSigBytes sg).length = 96 + 32 * d := by
  induction d generalizing sg with
  | zero => cases sg with
    | leaf s pk => obtain ⟨h1, h2, _⟩ := h; simp [cSigBytes, h1, h2]
    | node _ _ => simp [CShape] at h
  | succ d ih => cases sg with
    | leaf s pk => simp [CShape] at h
    | node sg pk =>
      obtain ⟨h1, h2⟩ := h
      simp [cSigBytes, ih sg h1, h2]; omega

/-- **`SumdCompactKesSig::from_bytes (to_bytes sig) = sig`** -/
theorem cSig_bytes_roundtrip (d : Nat) (sg : CSig conc) (h : CShape d sg) :
    cSigOfBytes d (cSigBytes sg) = some sg := by
  induction d generalizing sg with
  | zero => cases sg with
    | leaf s pk =>
      obtain ⟨h1, h2, h3⟩ := h
      have hlen : (s ++ pk).length = 96 := by simp [h1, h2]
      have e1 : (s ++ pk).take 64 = s := by
        rw [List.take_append_of_le_length (by omega), List.take_of_length_le (by omega)]
      have e2 : (s ++ pk).drop 64 = pk := by
        rw [List.drop_append_of_le_length (by omega), List.drop_of_length_le (by omega), List.nil_append]
      simp only [cSigOfBytes, cSigBytes, hlen, ↓reduceIte, e1, e2, h3]
    | node _ _ => simp [CShape] at h
  | succ d ih => cases sg with
    | leaf s pk => simp [CShape] at h
    | node sg pk =>
      obtain ⟨h1, h2⟩ := h
      have hl := cSigBytes_length d sg h1
      have hlen : (cSigBytes sg ++ pk).length = 96 + 32 * (d + 1) := by simp [hl, h2]; omega
      have e1 : (cSigBytes sg ++ pk).take (96 + 32 * d) = cSigBytes sg := by
        rw [List.take_append_of_le_length (by omega), List.take_of_length_le (by omega)]
      have e2 : (cSigBytes sg ++ pk).drop (96 + 32 * d) = pk := by
        rw [List.drop_append_of_le_length (by omega), List.drop_of_length_le (by omega), List.nil_append]
      simp only [cSigOfBytes, cSigBytes, hlen, ↓reduceIte, e1, e2, ih sg h1, Option.map_some]

/-! ## sizes: generated from the sources (tie A) and of the model's buffers -/

theorem gen_unknowns : PallasVerif.Gen.KesConsts.unknowns = [] := by decide

theorem gen_constants : PallasVerif.Gen.KesConsts.individualSecretSize = 32 ∧ PallasVerif.Gen.KesConsts.sigmaSize = 64 ∧
    PallasVerif.Gen.KesConsts.publicKeySize = 32 ∧ PallasVerif.Gen.KesConsts.seedSize = 32 := by decide

/-- the `const SIZE` formulas written in the two macros are the model's sizes, for every depth -/
theorem gen_sizes (d : Nat) :
    PallasVerif.Gen.KesConsts.keySizeSum d = keySize d ∧ PallasVerif.Gen.KesConsts.keySizeCompact d = keySize d ∧
    PallasVerif.Gen.KesConsts.sigSizeSum d = sumSigSize d ∧ PallasVerif.Gen.KesConsts.sigSizeCompact d = cSigSize d := by
  simp only [PallasVerif.Gen.KesConsts.keySizeSum, PallasVerif.Gen.KesConsts.keySizeCompact,
    PallasVerif.Gen.KesConsts.sigSizeSum, PallasVerif.Gen.KesConsts.sigSizeCompact,
    PallasVerif.Gen.KesConsts.individualSecretSize, PallasVerif.Gen.KesConsts.publicKeySize,
    PallasVerif.Gen.KesConsts.sigmaSize, keySize, sumSigSize, cSigSize]
  omega

def chainEntry (compact : Bool) (k : Nat) : String × String × String × String × Nat × Bool :=
  let c := if compact then "Compact" else ""
  (s!"Sum{k}{c}Kes", s!"Sum{k}{c}KesSig", s!"Sum{k - 1}{c}Kes", s!"Sum{k - 1}{c}KesSig", k, compact)

/-- the macro invocations are exactly depth k on top of depth k−1 of the same construction, k = 1..7 -/
theorem gen_instantiations :
    PallasVerif.Gen.KesConsts.instantiations =
      (List.range 7).map (fun i => chainEntry false (i + 1)) ++ (List.range 7).map (fun i => chainEntry true (i + 1)) := by
  decide +kernel

theorem leBytes_len (w n : Nat) : (PallasVerif.Ed25519.leBytes w n).length = w := by
  induction w generalizing n with
  | zero => rfl
  | succ w ih => simp [PallasVerif.Ed25519.leBytes, ih]

theorem conc_pk_length (d : Nat) (s : Bytes) : (pkTree conc d s).length = 32 := by
  cases d with
  | zero =>
    show (PallasVerif.Ed25519.publicKey s).length = 32
    simp [PallasVerif.Ed25519.publicKey, PallasVerif.Ed25519.pkOf, PallasVerif.Ed25519.ed, PallasVerif.Ed25519.encode, leBytes_len]
  | succ d =>
    rw [pkTree_succ]
    exact PallasVerif.Props.C10.blake2b_length 32 _ (by decide)

theorem conc_split_length (s : Bytes) : (conc.split s).1.length = 32 ∧ (conc.split s).2.length = 32 :=
  ⟨PallasVerif.Props.C10.blake2b_length 32 _ (by decide), PallasVerif.Props.C10.blake2b_length 32 _ (by decide)⟩

/-- **the key buffer of a depth-`d` key has `32 + 96·d` bytes at every period** (+ 4 for the period) -/
theorem keyBytes_length (d : Nat) (s : Bytes) (t : Nat) (hs : s.length = 32) :
    (keyBytes (keyAt conc d s t)).length = keySize d := by
  induction d generalizing s t with
  | zero => simpa [keyAt, keyBytes, keySize] using hs
  | succ d ih =>
    obtain ⟨h1, h2⟩ := conc_split_length s
    have p1 := conc_pk_length d (conc.split s).1
    have p2 := conc_pk_length d (conc.split s).2
    by_cases ht : t < 2 ^ d
    · simp only [keyAt, ht, ↓reduceIte, keyBytes, List.length_append, ih _ _ h1, p1, p2, Option.getD_some, h2, keySize]
      omega
    · simp only [keyAt, ht, ↓reduceIte, keyBytes, List.length_append, ih _ _ h2, p1, p2, Option.getD_none,
        List.length_replicate, keySize]
      omega

theorem skBytes_length (d : Nat) (s : Bytes) (t : Nat) (hs : s.length = 32) :
    (skBytes { depth := d, key := keyAt conc d s t, period := t }).length = keySize d + 4 := by
  simp [skBytes, keyBytes_length d s t hs, be32]

/-! ## non-vacuity examples (depth 2, symbolic) -/

example : (evolve sym (skKeygen sym 2 []).1 3).map (·.period) = some 3 := by decide
example : evolve sym (skKeygen sym 2 []).1 4 = none := by
  have := (update_fails_iff sym 2 [] 3 (by decide)).mpr (by decide); exact this
example : verify sym 2 (sign sym (keyAt sym 2 [] 1) [7]) 1 (pkTree sym 2 []) [7] = true := by decide
example : verify sym 2 (sign sym (keyAt sym 2 [] 1) [7]) 2 (pkTree sym 2 []) [7] = false := by decide

end PallasVerif.Props.C12
