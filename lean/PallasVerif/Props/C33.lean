import PallasVerif.Gen.PanicSitesC33
import PallasVerif.Proofs.ValueTotal
import PallasVerif.Proofs.Value
import PallasVerif.Model.ExUnits
import PallasVerif.Model.FeeSize
import PallasVerif.Model.Witness
import PallasVerif.Model.ValidateTxs
import PallasVerif.Model.PhaseOneArith
import PallasVerif.Model.NativeScript
/-!
# C33 — Phase-1 validation is total  (level: `other`)

The property is a statement about ~6 kLoC of Rust (five era validators and `utils.rs`). What is **proved** here:

* for every rule that has a Lean model (the models of C34–C37 and C39 re-transcribed to the code as it stands after the
  C33 `fix:` commits, plus `Model/PhaseOneArith.lean` for the leftover arithmetic) the verdict is never `panic`, for
  all inputs in the ranges of the Rust types: `exunits_total`, `min_fee_total`, `fee_and_size_total`,
  `collateral_total`, `lovelace_diff_total`, `collateral_balance_total`, `collateral_alonzo_total`, `min_lovelace_total`, `deposits_total`, `mir_total`, `preservation_total`,
  `preservation_total_shelleyMA`, `preservation_total_conway`, `byron_fees_total`, `witness_total`,
  `witness_total_shelley`, `validate_txs_total`; and `validate_total`: a validator assembled from these rules in any
  order with first-failure semantics never panics;
* the panic inventory: `Gen/PanicSitesC33.lean` is regenerated on every run from `phase1/*.rs`, `utils.rs`, `utils/*.rs`
  (`lib/scan_panics_c33.py`); `panic_sites_all_audited` holds only while every syntactic panic site has an entry in the
  audited allow-list `lib/panic_audit_C33.json`.

* `eval_total`, `native_scripts_total`: Shelley-MA native-script evaluation (`Model/NativeScript.lean`) never panics;
* the script / datum / redeemer / minting-policy / language / metadata / script-integrity rules have no partial operation in
  their own code (`script_rule_sites_benign`, from the inventory); as total functions of observations they are in
  `Model/Rules.lean` (C38).

What is **not** modelled (decided by search only: stream `valtotal`, mutated fixtures and synthesized extremes under
`catch_unwind`): UTxO look-ups and address decoding, the hashing / encoding those rules call, certificates, the Byron
witness rule, and everything the validators call in `pallas-traverse`, `pallas-addresses`, `pallas-primitives` and
`pallas-codec`.
-/
namespace PallasVerif.Props.C33
open PallasVerif

/-! ## Panic inventory -/

theorem panic_sites_all_audited : Gen.PanicSitesC33.unaudited = [] := by decide
theorem all_anchored_files_scanned : Gen.PanicSitesC33.filesScanned = Gen.PanicSitesC33.filesExpected := by decide
theorem inventory_nonempty : 40 ≤ Gen.PanicSitesC33.sites.length := by decide

/-- the functions that make up the script, datum, redeemer, minting-policy, language and script-integrity rules (stated as
    total functions of the observations in `Model/Rules.lean`, C38) -/
def scriptRuleFns : List String :=
  ["check_minting", "check_witness_set", "check_witnesses", "check_needed_scripts", "check_needed_scripts_are_included", "check_datums",
   "check_input_datum_hash_in_witness_set", "check_datums_from_witness_set_in_inputs_or_outputs", "check_redeemers",
   "mk_plutus_script_redeemer_pointers", "redeemer_pointers_coincide", "check_languages", "tx_languages", "available_langs", "allowed_langs",
   "block_langs", "compute_all_outputs", "check_script_data_hash", "cost_model_cbor", "cost_model_for_tx", "get_script_hash_from_reference_input",
   "get_reference_script_hashes", "check_well_formedness", "check_auxiliary_data", "check_metadata"]

/-- every syntactic panic site inside those functions is `KeepRaw::unwrap` / `CborWrap::unwrap` (a method named `unwrap`, no
    panic) or the infallible `Vec` encoder of `cost_model_cbor`: their own code has no partial operation, so their totality
    rests on the callee crates only (searched, not proved) -/
theorem script_rule_sites_benign :
    (Gen.PanicSitesC33.sites.filter (fun s => scriptRuleFns.contains s.2.1)).all
      (fun s => s.2.2.2 == "method-named-unwrap" || s.2.2.2 == "infallible") = true := by decide
theorem script_rule_sites_nonempty : 5 ≤ (Gen.PanicSitesC33.sites.filter (fun s => scriptRuleFns.contains s.2.1)).length := by decide

/-! ## Execution units, fee, size -/

theorem exunits_total (era : ExUnits.Era) (w : ExUnits.Wits) (maxMem maxSteps : Nat) :
    ExUnits.checkTxExUnits era w maxMem maxSteps ≠ .panic := by
  have hs : ∀ bs, ExUnits.sumAndCompare bs maxMem maxSteps ≠ .panic := by
    intro bs; unfold ExUnits.sumAndCompare; split
    · simp
    · split <;> simp
  cases era <;> simp only [ExUnits.checkTxExUnits] <;> repeat (first | split | exact hs _ | simp)

/-- `minfee_b as u64 + minfee_a as u64 * size as u64` cannot overflow for `u32` operands -/
theorem min_fee_total (fee a b size : Nat) (ha : a ≤ FeeSize.U32_MAX) (hb : b ≤ FeeSize.U32_MAX)
    (hs : size ≤ FeeSize.U32_MAX) : FeeSize.checkMinFee fee a b size ≠ .panic := by
  have hm : a * size ≤ FeeSize.U32_MAX * FeeSize.U32_MAX := Nat.mul_le_mul ha hs
  have h1 : ¬ a * size > FeeSize.U64_MAX := by simp only [FeeSize.U32_MAX, FeeSize.U64_MAX] at *; omega
  have h2 : ¬ b + a * size > FeeSize.U64_MAX := by simp only [FeeSize.U32_MAX, FeeSize.U64_MAX] at *; omega
  unfold FeeSize.checkMinFee
  rw [if_neg h1, if_neg h2]
  split <;> simp

theorem fee_and_size_total (era : FeeSize.Era) (p : FeeSize.Parts) (fee a b maxSize : Nat)
    (ha : a ≤ FeeSize.U32_MAX) (hb : b ≤ FeeSize.U32_MAX) : FeeSize.feeAndSize era p fee a b maxSize ≠ .panic := by
  have hsz : FeeSize.validatorSize p ≤ FeeSize.U32_MAX := by
    unfold FeeSize.validatorSize
    have := Nat.mod_lt (FeeSize.traverseSize p) (y := FeeSize.U32_MAX + 1) (by simp [FeeSize.U32_MAX])
    omega
  have hf := min_fee_total fee a b (FeeSize.validatorSize p) ha hb hsz
  have hts : FeeSize.checkTxSize (FeeSize.validatorSize p) maxSize ≠ .panic := by
    unfold FeeSize.checkTxSize; split <;> simp
  cases era <;> simp only [FeeSize.feeAndSize]
  · cases h : FeeSize.checkTxSize (FeeSize.validatorSize p) maxSize <;> simp_all
  all_goals (cases h : FeeSize.checkMinFee fee a b (FeeSize.validatorSize p) <;> simp_all)

/-! ## Collateral, minimum lovelace, deposits, MIR -/

theorem collateral_total (paid fee percentage : Nat) (hp : paid ≤ PhaseOneArith.U64_MAX)
    (hf : fee ≤ PhaseOneArith.U64_MAX) (hc : percentage ≤ PhaseOneArith.U32_MAX) :
    PhaseOneArith.collateralEnough paid fee percentage ≠ .panic := by
  have h1 : fee * percentage ≤ PhaseOneArith.U64_MAX * PhaseOneArith.U32_MAX := Nat.mul_le_mul hf hc
  have hn1 : ¬ fee * percentage > PhaseOneArith.U128_MAX := by
    simp only [PhaseOneArith.U32_MAX, PhaseOneArith.U64_MAX, PhaseOneArith.U128_MAX] at *; omega
  have hn2 : ¬ paid * 100 > PhaseOneArith.U128_MAX := by
    simp only [PhaseOneArith.U64_MAX, PhaseOneArith.U128_MAX] at *; omega
  unfold PhaseOneArith.collateralEnough
  rw [if_neg hn1, if_neg hn2]
  split <;> simp

/-- under protocol parameters below `2^32` (every network: 4310, 34482, 1000000/27) and value sizes below `2^31`
    words (no in-memory transaction is larger) the unchecked `u64` product cannot overflow -/
theorem min_lovelace_total (lovelace coinsPerUnit words overhead : Nat) (hc : coinsPerUnit ≤ PhaseOneArith.U32_MAX)
    (hw : words + overhead ≤ 2147483648) :
    PhaseOneArith.checkMinLovelace lovelace coinsPerUnit words overhead ≠ .panic := by
  have hm : coinsPerUnit * (words + overhead) ≤ PhaseOneArith.U32_MAX * 2147483648 := Nat.mul_le_mul hc hw
  have h1 : ¬ words + overhead > PhaseOneArith.U64_MAX := by simp only [PhaseOneArith.U64_MAX]; omega
  have h2 : ¬ coinsPerUnit * (words + overhead) > PhaseOneArith.U64_MAX := by
    simp only [PhaseOneArith.U32_MAX, PhaseOneArith.U64_MAX] at *; omega
  unfold PhaseOneArith.checkMinLovelace PhaseOneArith.minLovelace
  rw [if_neg h1, if_neg h2]
  simp only
  split <;> simp

/-- deposits below `2^40` lovelace (500 ADA and 2 ADA on every network) times fewer than `2^20` certificates -/
theorem deposits_total (poolDeposit poolCount keyDeposit keyCount : Nat)
    (h1 : poolDeposit ≤ 1099511627776) (h2 : keyDeposit ≤ 1099511627776) (h3 : poolCount ≤ 1048576) (h4 : keyCount ≤ 1048576) :
    PhaseOneArith.totalDeposits poolDeposit poolCount keyDeposit keyCount ≠ none := by
  have a := Nat.mul_le_mul h1 h3
  have b := Nat.mul_le_mul h2 h4
  have n1 : ¬ poolDeposit * poolCount > PhaseOneArith.U64_MAX := by simp only [PhaseOneArith.U64_MAX]; omega
  have n2 : ¬ keyDeposit * keyCount > PhaseOneArith.U64_MAX := by simp only [PhaseOneArith.U64_MAX]; omega
  have n3 : ¬ poolDeposit * poolCount + keyDeposit * keyCount > PhaseOneArith.U64_MAX := by
    simp only [PhaseOneArith.U64_MAX]; omega
  unfold PhaseOneArith.totalDeposits
  rw [if_neg n1, if_neg n2, if_neg n3]
  simp

theorem mir_total (pot : Nat) (amounts : List Nat) : PhaseOneArith.mirWithinPot pot amounts ≠ .panic := by
  unfold PhaseOneArith.mirWithinPot; split
  · simp
  · split <;> simp

/-! ## Collateral balance (`lovelace_diff_or_fail`, `check_collaterals_assets`) -/

section collateral
open PhaseOneArith

/-- the subtraction panics exactly when the guard `f >= s` is missing -/
theorem subU64_panics_iff (f s : Int) : subU64 f s = .panic ↔ f < s := by
  unfold subU64; split <;> simp_all

/-- **`lovelace_diff_or_fail` / `conway_lovelace_diff_or_fail` never panic**: every arm that subtracts does so under `f >= s` -/
theorem lovelace_diff_total (a b : Value.Value) : lovelaceDiffOrFail a b ≠ .panic := by
  intro h
  cases a <;> cases b <;> simp only [lovelaceDiffOrFail] at h
  · split at h
    · rename_i hg; exact absurd ((subU64_panics_iff _ _).mp h) (by omega)
    · cases h
  · cases h
  · split at h
    · rename_i hg; exact absurd ((subU64_panics_iff _ _).mp h) (by omega)
    · cases h
  · split at h
    · rename_i hg; exact absurd ((subU64_panics_iff _ _).mp h) (by omega)
    · cases h

/-- the balance is at most what the collateral inputs hold -/
theorem lovelace_diff_le (a b : Value.Value) (d : Int) (h : lovelaceDiffOrFail a b = .ok d) (hb : 0 ≤ coinV b) : d ≤ coinV a := by
  have key : ∀ f s : Int, subU64 f s = .ok d → 0 ≤ s → d ≤ f := by
    intro f s hs h0; unfold subU64 at hs; split at hs
    · cases hs
    · simp only [Value.R.ok.injEq] at hs; omega
  cases a <;> cases b <;> simp only [lovelaceDiffOrFail] at h <;> simp only [coinV] at *
  · split at h
    · exact key _ _ h hb
    · cases h
  · cases h
  · split at h
    · exact key _ _ h hb
    · cases h
  · split at h
    · exact key _ _ h hb
    · cases h

theorem addLovelace_le (a b c : Int) (h : Value.addLovelace a b = .ok c) : c ≤ Value.U64_MAX := by
  unfold Value.addLovelace at h; split at h
  · cases h
  · simp only [Value.R.ok.injEq] at h; omega

theorem addValues_coin_le (a b c : Value.Value) (h : Value.addValues a b = .ok c) : coinV c ≤ Value.U64_MAX := by
  cases a <;> cases b <;> simp only [Value.addValues, Value.R.map_ok, Value.R.bind_ok] at h
  · obtain ⟨x, hx, rfl⟩ := h; exact addLovelace_le _ _ _ hx
  · obtain ⟨x, hx, rfl⟩ := h; exact addLovelace_le _ _ _ hx
  · obtain ⟨x, hx, rfl⟩ := h; exact addLovelace_le _ _ _ hx
  · obtain ⟨x, hx, _, _, _, _, _, _, _, _, rfl⟩ := h; exact addLovelace_le _ _ _ hx

theorem conwayAddValues_coin_le (a b c : Value.Value) (h : Value.conwayAddValues a b = .ok c) : coinV c ≤ Value.U64_MAX := by
  cases a <;> cases b <;> simp only [Value.conwayAddValues, Value.R.map_ok, Value.R.bind_ok] at h
  · obtain ⟨x, hx, rfl⟩ := h; exact addLovelace_le _ _ _ hx
  · obtain ⟨x, hx, rfl⟩ := h; exact addLovelace_le _ _ _ hx
  · obtain ⟨x, hx, rfl⟩ := h; exact addLovelace_le _ _ _ hx
  · obtain ⟨x, hx, _, _, _, _, rfl⟩ := h; exact addLovelace_le _ _ _ hx

theorem sumFrom_coin_le : ∀ (vs : List Value.Value) (acc r : Value.Value), Value.sumFrom acc vs = .ok r →
    coinV acc ≤ Value.U64_MAX → coinV r ≤ Value.U64_MAX := by
  intro vs
  induction vs with
  | nil => intro acc r h ha; simp only [Value.sumFrom, Value.R.ok.injEq] at h; subst h; exact ha
  | cons v rest ih =>
    intro acc r h _
    simp only [Value.sumFrom, Value.R.bind_ok] at h
    obtain ⟨acc', h1, h2⟩ := h
    exact ih acc' r h2 (addValues_coin_le _ _ _ h1)

theorem conwaySumFrom_coin_le : ∀ (vs : List Value.Value) (acc r : Value.Value), Value.conwaySumFrom acc vs = .ok r →
    coinV acc ≤ Value.U64_MAX → coinV r ≤ Value.U64_MAX := by
  intro vs
  induction vs with
  | nil => intro acc r h ha; simp only [Value.conwaySumFrom, Value.R.ok.injEq] at h; subst h; exact ha
  | cons v rest ih =>
    intro acc r h _
    simp only [Value.conwaySumFrom, Value.R.bind_ok] at h
    obtain ⟨acc', h1, h2⟩ := h
    exact ih acc' r h2 (conwayAddValues_coin_le _ _ _ h1)

theorem returnValue_coin (conway legacy : Bool) (ret : Option Value.Value) (hret : ∀ r, ret = some r → 0 ≤ coinV r) :
    0 ≤ coinV (returnValue conway legacy ret) := by
  cases ret with
  | none => simp [returnValue, coinV]
  | some r =>
    have := hret r rfl
    cases r <;> simp only [returnValue]
    · exact this
    · split <;> exact this

/-- **Babbage / Conway `check_collaterals_assets` never panics** for collateral inputs and a collateral return in the range
    of `u64`, a fee in `u64`, a percentage in `u32`, and (Conway) a non-empty collateral list, which `check_collaterals_number`
    has established before. The proof uses `lovelace_diff_total`, i.e. exactly the `f >= s` guard of each arm. -/
theorem collateral_balance_total (conway legacy : Bool) (ins : List Value.Value) (ret : Option Value.Value)
    (fee pct : Nat) (total : Option Nat) (hne : conway = true → ins ≠ [])
    (hins : ∀ v ∈ ins, coinV v ≤ Value.U64_MAX) (hret : ∀ r, ret = some r → 0 ≤ coinV r)
    (hf : fee ≤ U64_MAX) (hc : pct ≤ U32_MAX) :
    collateralBalance conway legacy ins ret fee pct total ≠ .panic := by
  have hsum : collateralSum conway ins ≠ .panic ∧ ∀ input, collateralSum conway ins = .ok input → coinV input ≤ Value.U64_MAX := by
    unfold collateralSum
    cases conway with
    | false =>
      simp only [Bool.false_eq_true, if_false]
      exact ⟨Value.sumFrom_np _ _, fun input h => sumFrom_coin_le _ _ _ h (by simp [Value.emptyValue, coinV, Value.U64_MAX])⟩
    | true =>
      simp only [if_true]
      cases ins with
      | nil => exact absurd rfl (hne rfl)
      | cons i is =>
        exact ⟨Value.conwaySumFrom_np _ _, fun input h => conwaySumFrom_coin_le _ _ _ h (hins i (by simp))⟩
  unfold collateralBalance
  obtain ⟨hnp, hle⟩ := hsum
  split
  · rename_i h; exact absurd h hnp
  · simp
  · rename_i input hin
    split
    · rename_i h; exact absurd h (lovelace_diff_total _ _)
    · simp
    · rename_i paid hp
      have hpaid : paid ≤ Value.U64_MAX := Int.le_trans (lovelace_diff_le _ _ _ hp (returnValue_coin _ _ _ hret)) (hle input hin)
      have hnat : paid.toNat ≤ U64_MAX := by simp only [Value.U64_MAX, U64_MAX] at *; omega
      split
      · rename_i h; exact absurd h (collateral_total _ _ _ hnat hf hc)
      · simp
      · split
        · split <;> simp
        · simp

/-- **`check_collaterals` (number, then assets) never panics**: the count check discharges the non-emptiness that
    Conway's `first().unwrap()` needs — no hypothesis about the list is left -/
theorem collateral_rule_total (conway legacy : Bool) (maxInputs : Nat) (ins : List Value.Value) (ret : Option Value.Value)
    (fee pct : Nat) (total : Option Nat)
    (hins : ∀ v ∈ ins, coinV v ≤ Value.U64_MAX) (hret : ∀ r, ret = some r → 0 ≤ coinV r)
    (hf : fee ≤ U64_MAX) (hc : pct ≤ U32_MAX) :
    collateralRule conway legacy maxInputs ins ret fee pct total ≠ .panic := by
  unfold collateralRule
  split
  · simp
  · rename_i hne
    split
    · simp
    · exact collateral_balance_total conway legacy ins ret fee pct total (fun _ h => by simp [h] at hne) hins hret hf hc

/-- **Alonzo `check_collaterals_assets` never panics** (products in `u128`) -/
theorem collateral_alonzo_total (fee pct : Nat) (hf : fee ≤ U64_MAX) (hc : pct ≤ U32_MAX) :
    ∀ ins : List Value.Value, (∀ v ∈ ins, coinV v ≤ Value.U64_MAX) → collateralAlonzo fee pct ins ≠ .panic := by
  intro ins
  induction ins with
  | nil => intro _; simp [collateralAlonzo]
  | cons v rest ih =>
    intro h
    have hv := h v (by simp)
    have hnat : (coinV v).toNat ≤ U64_MAX := by simp only [Value.U64_MAX, U64_MAX] at *; omega
    unfold collateralAlonzo
    split
    · rename_i hp; exact absurd hp (collateral_total _ _ _ hnat hf hc)
    · simp
    · split
      · simp
      · exact ih (fun w hw => h w (List.mem_cons_of_mem _ hw))

-- non-vacuity: the arms, and what the missing guard would do
example : lovelaceDiffOrFail (.multi 7 [("p", [("a", 3)])]) (.multi 5 [("p", [("a", 3)])]) = .ok 2 := by decide
example : lovelaceDiffOrFail (.multi 5 [("p", [("a", 3)])]) (.multi 7 [("p", [("a", 3)])]) = .err := by decide
example : lovelaceDiffOrFail (.multi 7 [("p", [("a", 3)])]) (.multi 5 [("p", [("a", 4)])]) = .err := by decide
example : lovelaceDiffOrFail (.multi 7 []) (.coin 7) = .ok 0 := by decide
example : lovelaceDiffOrFail (.coin 7) (.multi 1 []) = .err := by decide
example : subU64 5 7 = .panic := by decide
example : collateralBalance true false [.multi 5000000 [("p", [("a", 3)])]] (some (.multi 7000000 [("p", [("a", 3)])])) 200000 150 none = .nonLovelace := by decide
example : collateralBalance false false [.coin 5000000, .coin 1] (some (.coin 4000000)) 200000 150 (some 1000001) = .ok := by decide
example : collateralBalance false false [.coin 5000000] none 200000 150 (some 1) = .annotation := by decide
example : collateralAlonzo 200000 150 [.coin 300000, .multi 300000 [("p", [("a", 1)])]] = .nonLovelace := by decide
end collateral

/-! ## Native scripts (`eval_native_script`, `check_native_scripts`) -/

section native
open NativeScript

mutual
theorem eval_total (keys : List String) (low upp : Option Nat) : (s : NS) → fits s = true → eval keys low upp s ≠ none
  | .pubkey _, _ => by simp [eval]
  | .all l, h => by
    simp only [fits, Bool.and_eq_true] at h
    simp only [eval]; exact evalAll_total keys low upp l h.2
  | .any l, h => by
    simp only [fits, Bool.and_eq_true] at h
    simp only [eval]; exact evalAny_total keys low upp l h.2
  | .nOfK n l, h => by
    simp only [fits, Bool.and_eq_true, decide_eq_true_eq] at h
    simp only [eval]
    have := count_total keys low upp l 0 h.2 (by omega)
    cases hc : count keys low upp 0 l with
    | none => exact absurd hc this
    | some c => simp
  | .invalidBefore _, _ => by simp [eval]
  | .invalidHereafter _, _ => by simp [eval]
theorem evalAll_total (keys : List String) (low upp : Option Nat) : (l : List NS) → fitsList l = true → evalAll keys low upp l ≠ none
  | [], _ => by simp [evalAll]
  | s :: rest, h => by
    simp only [fitsList, Bool.and_eq_true] at h
    have h1 := eval_total keys low upp s h.1
    have h2 := evalAll_total keys low upp rest h.2
    simp only [evalAll]
    cases he : eval keys low upp s with
    | none => exact absurd he h1
    | some b => cases b <;> simp [h2]
theorem evalAny_total (keys : List String) (low upp : Option Nat) : (l : List NS) → fitsList l = true → evalAny keys low upp l ≠ none
  | [], _ => by simp [evalAny]
  | s :: rest, h => by
    simp only [fitsList, Bool.and_eq_true] at h
    have h1 := eval_total keys low upp s h.1
    have h2 := evalAny_total keys low upp rest h.2
    simp only [evalAny]
    cases he : eval keys low upp s with
    | none => exact absurd he h1
    | some b => cases b <;> simp [h2]
/-- the `u32` count cannot overflow: it never exceeds the number of sub-scripts seen so far -/
theorem count_total (keys : List String) (low upp : Option Nat) : (l : List NS) → (acc : Nat) → fitsList l = true →
    acc + l.length ≤ U32_MAX → count keys low upp acc l ≠ none
  | [], _, _, _ => by simp [count]
  | s :: rest, acc, h, hb => by
    simp only [fitsList, Bool.and_eq_true] at h
    have h1 := eval_total keys low upp s h.1
    simp only [List.length_cons] at hb
    simp only [count]
    cases he : eval keys low upp s with
    | none => exact absurd he h1
    | some b =>
      have hle : acc + (if b = true then 1 else 0) ≤ acc + 1 := by cases b <;> simp
      simp only
      rw [if_neg (by omega)]
      exact count_total keys low upp rest _ h.2 (by omega)
end

/-- **`check_native_scripts` never panics** -/
theorem native_scripts_total (keys : List String) (low upp : Option Nat) : ∀ l : List NS, fitsList l = true →
    checkNativeScripts keys low upp l ≠ none := by
  intro l
  induction l with
  | nil => intro _; simp [checkNativeScripts]
  | cons s rest ih =>
    intro h
    simp only [fitsList, Bool.and_eq_true] at h
    have h1 := eval_total keys low upp s h.1
    simp only [checkNativeScripts]
    cases he : eval keys low upp s with
    | none => exact absurd he h1
    | some b => cases b <;> simp [ih h.2]

/-- n-of-k is `count ≥ n` on the full count: `n = 0` holds for every list, `n > k` for none -/
theorem nOfK_zero (keys : List String) (low upp : Option Nat) (l : List NS) (h : fits (.nOfK 0 l) = true) :
    eval keys low upp (.nOfK 0 l) = some true := by
  have := eval_total keys low upp (.nOfK 0 l) h
  simp only [eval] at this ⊢
  cases hc : count keys low upp 0 l with
  | none => simp [hc] at this
  | some c => simp

example : eval ["a"] none none (.nOfK 0 [.pubkey "a", .pubkey "b"]) = some true := by decide
example : eval ["a"] none none (.nOfK 1 [.pubkey "a", .pubkey "b"]) = some true := by decide
example : eval ["a"] none none (.nOfK 2 [.pubkey "a", .pubkey "b"]) = some false := by decide
example : eval ["a", "b"] none none (.nOfK 3 [.pubkey "a", .pubkey "b"]) = some false := by decide
example : eval [] none none (.nOfK 0 []) = some true := by decide
example : eval [] none none (.all []) = some true ∧ eval [] none none (.any []) = some false := by decide
example : eval [] (some 100) (some 200) (.all [.invalidBefore 100, .invalidHereafter 200]) = some true := by decide
example : eval [] (some 100) (some 200) (.any [.invalidBefore 101, .invalidHereafter 199]) = some false := by decide
example : eval [] none none (.any [.invalidBefore 0, .invalidHereafter 0]) = some false := by decide
example : eval ["a"] (some 5) none (.all [.nOfK 1 [.any [.pubkey "x", .pubkey "a"], .invalidBefore 9], .nOfK 0 []]) = some true := by decide
end native

/-! ## Preservation of value, Byron fees -/

theorem preservation_total (ins outs : List Value.Value) (fee : Int) (mint : Option Value.MA) :
    Value.checkPreservation ins outs fee mint ≠ .panic := by
  unfold Value.checkPreservation
  apply Value.resOf_np
  refine Value.R.bind_np _ _ (Value.sumFrom_np _ _) (fun c => ?_)
  refine Value.R.bind_np _ _ (Value.sumFrom_np _ _) (fun p => ?_)
  refine Value.R.bind_np _ _ (Value.addValues_np _ _) (fun o => ?_)
  refine Value.R.bind_np _ _ ?_ (fun i => by intro h; cases h)
  cases mint with
  | none => intro h; cases h
  | some m => exact Value.addMintedValue_np _ _

theorem preservation_total_shelleyMA (shelley : Bool) (ins outs : List Value.Value) (fee : Int) (mint : Option Value.MA) :
    Value.checkPreservationShelleyMA shelley ins outs fee mint ≠ .panic := by
  unfold Value.checkPreservationShelleyMA
  split
  · simp
  · simp
  · rename_i h; exact absurd h (Value.sumShelley_np _ _ _)
  · split
    · simp
    · rename_i h
      refine absurd h (Value.R.bind_np _ _ (Value.addValues_np _ _) (fun r2 => ?_))
      cases mint with
      | none => intro h; cases h
      | some m => exact Value.addMintedValue_np _ _
    · split
      · simp
      · simp
      · rename_i h; exact absurd h (Value.sumShelley_np _ _ _)
      · apply Value.resOf_np
        refine Value.R.bind_np _ _ (Value.addValues_np _ _) (fun p2 => ?_)
        exact Value.R.bind_np _ _ (Value.addValues_np _ _) (fun p3 => by intro h; cases h)

theorem preservation_total_conway (ins outs : List Value.Value) (fee : Int) (mint : Option Value.MA) :
    Value.checkPreservationConway ins outs fee mint ≠ .panic := by
  unfold Value.checkPreservationConway
  split
  · simp
  · split
    · simp
    · rename_i h; exact absurd h (Value.conwaySumFrom_np _ _)
    · split
      · simp
      · apply Value.resOf_np
        refine Value.R.bind_np _ _ (Value.conwaySumFrom_np _ _) (fun p => ?_)
        refine Value.R.bind_np _ _ (Value.conwayAddValues_np _ _) (fun o => ?_)
        refine Value.R.bind_np _ _ ?_ (fun i => by intro h; cases h)
        cases mint with
        | none => intro h; cases h
        | some m => exact Value.conwayAddMintedNonZero_np _ _

theorem byron_fees_total (ins outs : List Int) (size summand multiplier : Int) (onlyRedeem : Bool) :
    Value.byronCheckFees ins outs size summand multiplier onlyRedeem ≠ .panic := by
  unfold Value.byronCheckFees
  repeat (first | split | simp)

/-! ## Witnesses -/

section witnesses
open Witness
variable {H : Type} [DecidableEq H] (hash : Bytes → H) (verify : Bytes → Bytes → Bytes → Bool)

theorem verifySignature_some (w : Wit) (msg : Bytes) : ∃ b, verifySignature verify w msg = some b := by
  unfold verifySignature; split
  · exact ⟨_, rfl⟩
  · split <;> exact ⟨_, rfl⟩

theorem checkVkWit_np (h : H) (msg : Bytes) : ∀ l, checkVkWit hash verify h msg l ≠ .panic := by
  intro l
  induction l with
  | nil => simp [checkVkWit]
  | cons p rest ih =>
    obtain ⟨c, w⟩ := p
    unfold checkVkWit
    split
    · obtain ⟨b, hb⟩ := verifySignature_some verify w msg
      rw [hb]; cases b <;> simp
    · split
      · simp
      · simp
      · rename_i hp; exact absurd hp ih

theorem checkRemaining_np (msg : Bytes) : ∀ l, checkRemaining verify msg l ≠ .panic := by
  intro l
  induction l with
  | nil => simp [checkRemaining]
  | cons p rest ih =>
    obtain ⟨c, w⟩ := p
    unfold checkRemaining
    split
    · obtain ⟨b, hb⟩ := verifySignature_some verify w msg
      rw [hb]; cases b
      · simp
      · exact ih
    · exact ih

theorem findAndCheckReqSigner_np (h : H) (msg : Bytes) : ∀ ws, findAndCheckReqSigner hash verify h msg ws ≠ .panic := by
  intro ws
  induction ws with
  | nil => simp [findAndCheckReqSigner]
  | cons w rest ih =>
    unfold findAndCheckReqSigner
    split
    · obtain ⟨b, hb⟩ := verifySignature_some verify w msg
      rw [hb]; cases b <;> simp
    · exact ih

theorem reqLoop_np (msg : Bytes) (ws : List Wit) : ∀ rs, reqLoop hash verify msg ws rs ≠ .panic := by
  intro rs
  induction rs with
  | nil => simp [reqLoop]
  | cons r rest ih =>
    unfold reqLoop
    split
    · exact ih
    · simp
    · rename_i hp; exact absurd hp (findAndCheckReqSigner_np hash verify r msg ws)

theorem inputLoop_np (msg : Bytes) : ∀ ins l, inputLoop hash verify msg ins l ≠ .panic := by
  intro ins
  induction ins with
  | nil => intro l; simp [inputLoop]
  | cons v vs ih =>
    intro l
    cases v <;> simp only [inputLoop]
    · simp
    · exact ih l
    · simp
    · split
      · exact ih _
      · simp
      · rename_i hp; exact absurd hp (checkVkWit_np hash verify _ msg l)
    · exact ih l

theorem inputLoopShelley_np (msg : Bytes) : ∀ ins l, inputLoopShelley hash verify msg ins l ≠ .panic := by
  intro ins
  induction ins with
  | nil => intro l; simp [inputLoopShelley]
  | cons v vs ih =>
    intro l
    cases v <;> simp only [inputLoopShelley]
    · simp
    · exact ih l
    · simp
    · split
      · exact ih _
      · simp
      · rename_i hp; exact absurd hp (checkVkWit_np hash verify _ msg l)
    · split
      · exact ih l
      · simp

theorem checkVkeyInputWits_np (wits : Option (List Wit)) (ins : List (InputView H)) (msg : Bytes) :
    checkVkeyInputWits hash verify wits ins msg ≠ .panic := by
  unfold checkVkeyInputWits
  split
  · split
    · exact checkRemaining_np verify msg _
    · simp
    · rename_i hp; exact absurd hp (inputLoop_np hash verify msg ins _)
  · simp
  · rename_i hp; cases wits <;> simp [mkCheckList] at hp

theorem witness_total (conway : Bool) (req : Option (List H)) (wits : Option (List Wit))
    (ins : List (InputView H)) (msg : Bytes) : checkWitnessSet hash verify conway req wits ins msg ≠ .panic := by
  unfold checkWitnessSet
  split
  · exact checkVkeyInputWits_np hash verify _ ins msg
  · simp
  · rename_i hp
    unfold checkRequiredSigners at hp
    split at hp
    · cases hp
    · split at hp
      · exact absurd hp (reqLoop_np hash verify msg _ _)
      · cases hp

theorem witness_total_shelley (wits : Option (List Wit)) (ins : List (InputView H)) (nativeOk : Bool) (msg : Bytes) :
    checkWitnessesShelley hash verify wits ins nativeOk msg ≠ .panic := by
  unfold checkWitnessesShelley
  split
  · split
    · split
      · exact checkRemaining_np verify msg _
      · simp
    · simp
    · rename_i hp; exact absurd hp (inputLoopShelley_np hash verify msg ins _)
  · simp
  · rename_i hp; cases wits <;> simp [mkCheckList] at hp
end witnesses

/-! ## The sequence rule -/

/-- `validate_txs` panics only through the `usize → u32` index conversion, i.e. never below `2^32` transactions
    (whatever `validate_tx` does short of panicking itself, which is what the rest of this file is about) -/
theorem validate_txs_total {S T E : Type} (step : ValidateTxs.Step S T E) (s : S) (txs : List T)
    (hlen : txs.length ≤ ValidateTxs.U32_MAX + 1) : (ValidateTxs.validateTxs step s txs).2 ≠ .panic := by
  have key : ∀ (txs : List T) (m : ValidateTxs.Mem S) (i : Nat), i + txs.length ≤ ValidateTxs.U32_MAX + 1 →
      (ValidateTxs.loopMem step m i txs).2 ≠ .panic := by
    intro txs
    induction txs with
    | nil => intro m i _; simp [ValidateTxs.loopMem]
    | cons tx rest ih =>
      intro m i hl
      simp only [List.length_cons] at hl
      unfold ValidateTxs.loopMem
      rw [if_neg (by omega)]
      split
      · exact ih _ _ (by omega)
      · simp
  have := key txs { caller := s, delta := s } 0 (by omega)
  unfold ValidateTxs.validateTxs
  cases hl : ValidateTxs.loopMem step { caller := s, delta := s } 0 txs with
  | mk m r =>
    rw [hl] at this
    cases r <;> simp_all

/-! ## `validate_total`: any ordered composition of the modelled rules -/

inductive Verdict where
  | ok | rejected | panic
  deriving DecidableEq, Repr

/-- an era validator: the rules in order, the first verdict that is not `ok` is the result (`?` after each check) -/
def firstFailure : List Verdict → Verdict
  | [] => .ok
  | .ok :: rest => firstFailure rest
  | v :: _ => v

theorem firstFailure_total (vs : List Verdict) (h : ∀ v ∈ vs, v ≠ .panic) : firstFailure vs ≠ .panic := by
  induction vs with
  | nil => simp [firstFailure]
  | cons v rest ih =>
    cases v with
    | ok => simp only [firstFailure]; exact ih (fun w hw => h w (List.mem_cons_of_mem _ hw))
    | rejected => simp [firstFailure]
    | panic => exact absurd rfl (h .panic (by simp))

def ofFee : FeeSize.Res → Verdict
  | .ok => .ok | .panic => .panic | _ => .rejected
def ofValue : Value.Res → Verdict
  | .ok => .ok | .panic => .panic | _ => .rejected
def ofEx : ExUnits.Res → Verdict
  | .ok => .ok | .panic => .panic | _ => .rejected
def ofArith : PhaseOneArith.Res → Verdict
  | .ok => .ok | .panic => .panic | .rejected => .rejected
def ofColl : PhaseOneArith.CollRes → Verdict
  | .ok => .ok | .panic => .panic | _ => .rejected
def ofWit : Witness.R Unit → Verdict
  | .ok () => .ok | .panic => .panic | .err _ => .rejected

/-- everything the modelled rules of a post-Byron validator look at -/
structure TxView (H : Type) where
  feeEra : FeeSize.Era
  exEra : ExUnits.Era
  parts : FeeSize.Parts
  fee : Nat
  minfeeA : Nat
  minfeeB : Nat
  maxSize : Nat
  alonzoEra : Bool                      -- Alonzo: per-input collateral rule; Babbage / Conway: the balance
  collateralIns : List Value.Value     -- values of the collateral inputs' UTxO entries
  collateralReturn : Option Value.Value
  legacyReturn : Bool
  totalCollateral : Option Nat
  maxCollateralInputs : Nat
  collateralPercentage : Nat
  outputs : List (Nat × Nat)          -- (lovelace, value size in words) of each output
  coinsPerUnit : Nat
  overhead : Nat
  spent : List Value.Value
  produced : List Value.Value
  mint : Option Value.MA
  exWits : ExUnits.Wits
  maxMem : Nat
  maxSteps : Nat
  conway : Bool
  requiredSigners : Option (List H)
  witnesses : Option (List Witness.Wit)
  inputViews : List (Witness.InputView H)
  txId : Witness.Bytes

/-- the quantities are in the ranges of their Rust types and the parameters are those of a Cardano network -/
structure InRange {H : Type} (v : TxView H) : Prop where
  a : v.minfeeA ≤ FeeSize.U32_MAX
  b : v.minfeeB ≤ FeeSize.U32_MAX
  fee : v.fee ≤ PhaseOneArith.U64_MAX
  collIns : ∀ x ∈ v.collateralIns, PhaseOneArith.coinV x ≤ Value.U64_MAX
  collRet : ∀ r, v.collateralReturn = some r → 0 ≤ PhaseOneArith.coinV r
  pct : v.collateralPercentage ≤ PhaseOneArith.U32_MAX
  coins : v.coinsPerUnit ≤ PhaseOneArith.U32_MAX
  words : ∀ o ∈ v.outputs, o.2 + v.overhead ≤ 2147483648

/-- the modelled rules of the Alonzo / Babbage / Conway validators in the order of `validate_<era>_tx` (the Conway flavour
    of the value rule when `conway`) -/
def modelledRules {H : Type} [DecidableEq H] (hash : Witness.Bytes → H) (verify : Witness.Bytes → Witness.Bytes → Witness.Bytes → Bool)
    (v : TxView H) : List Verdict :=
  [ ofFee (FeeSize.checkMinFee v.fee v.minfeeA v.minfeeB (FeeSize.validatorSize v.parts)),
    ofColl (if v.alonzoEra then PhaseOneArith.collateralAlonzo v.fee v.collateralPercentage v.collateralIns
            else PhaseOneArith.collateralRule v.conway v.legacyReturn v.maxCollateralInputs v.collateralIns v.collateralReturn v.fee v.collateralPercentage v.totalCollateral),
    ofValue (if v.conway then Value.checkPreservationConway v.spent v.produced v.fee v.mint
             else Value.checkPreservation v.spent v.produced v.fee v.mint) ]
  ++ v.outputs.map (fun o => ofArith (PhaseOneArith.checkMinLovelace o.1 v.coinsPerUnit o.2 v.overhead))
  ++ [ ofFee (FeeSize.checkTxSize (FeeSize.validatorSize v.parts) v.maxSize),
       ofEx (ExUnits.checkTxExUnits v.exEra v.exWits v.maxMem v.maxSteps),
       ofWit (Witness.checkWitnessSet hash verify v.conway v.requiredSigners v.witnesses v.inputViews v.txId) ]

/-- **Totality of the modelled rule set**: for every transaction view in range, every hash function and every
    signature predicate, the validator assembled from the modelled rules returns `ok` or a rejection, never `panic`. -/
theorem validate_total {H : Type} [DecidableEq H] (hash : Witness.Bytes → H)
    (verify : Witness.Bytes → Witness.Bytes → Witness.Bytes → Bool) (v : TxView H) (hr : InRange v) :
    firstFailure (modelledRules hash verify v) ≠ .panic := by
  apply firstFailure_total
  intro x hx
  have hsz : FeeSize.validatorSize v.parts ≤ FeeSize.U32_MAX := by
    unfold FeeSize.validatorSize
    have := Nat.mod_lt (FeeSize.traverseSize v.parts) (y := FeeSize.U32_MAX + 1) (by simp [FeeSize.U32_MAX])
    omega
  simp only [modelledRules, List.mem_append, List.mem_cons, List.mem_map, List.not_mem_nil, or_false] at hx
  rcases hx with ((rfl | rfl | rfl) | ⟨o, ho, rfl⟩) | (rfl | rfl | rfl)
  · have := min_fee_total v.fee v.minfeeA v.minfeeB _ hr.a hr.b hsz
    cases h : FeeSize.checkMinFee v.fee v.minfeeA v.minfeeB (FeeSize.validatorSize v.parts) <;> simp_all [ofFee]
  · cases ha : v.alonzoEra
    · have := collateral_rule_total v.conway v.legacyReturn v.maxCollateralInputs v.collateralIns v.collateralReturn v.fee
        v.collateralPercentage v.totalCollateral hr.collIns hr.collRet hr.fee hr.pct
      simp only [Bool.false_eq_true, if_false]
      cases h : PhaseOneArith.collateralRule v.conway v.legacyReturn v.maxCollateralInputs v.collateralIns v.collateralReturn v.fee v.collateralPercentage v.totalCollateral <;> simp_all [ofColl]
    · have := collateral_alonzo_total v.fee v.collateralPercentage hr.fee hr.pct v.collateralIns hr.collIns
      simp only [if_true]
      cases h : PhaseOneArith.collateralAlonzo v.fee v.collateralPercentage v.collateralIns <;> simp_all [ofColl]
  · cases hc : v.conway
    · have := preservation_total v.spent v.produced v.fee v.mint
      simp only [Bool.false_eq_true, if_false]
      cases h : Value.checkPreservation v.spent v.produced (↑v.fee) v.mint <;> simp_all [ofValue]
    · have := preservation_total_conway v.spent v.produced v.fee v.mint
      simp only [if_true]
      cases h : Value.checkPreservationConway v.spent v.produced (↑v.fee) v.mint <;> simp_all [ofValue]
  · have := min_lovelace_total o.1 v.coinsPerUnit o.2 v.overhead hr.coins (hr.words o ho)
    cases h : PhaseOneArith.checkMinLovelace o.1 v.coinsPerUnit o.2 v.overhead <;> simp_all [ofArith]
  · unfold FeeSize.checkTxSize; split <;> simp [ofFee]
  · have := exunits_total v.exEra v.exWits v.maxMem v.maxSteps
    cases h : ExUnits.checkTxExUnits v.exEra v.exWits v.maxMem v.maxSteps <;> simp_all [ofEx]
  · have := witness_total hash verify v.conway v.requiredSigners v.witnesses v.inputViews v.txId
    cases h : Witness.checkWitnessSet hash verify v.conway v.requiredSigners v.witnesses v.inputViews v.txId <;> simp_all [ofWit]

/-! ## Non-vacuity -/
example : PhaseOneArith.collateralEnough 18446744073709551615 18446744073709551615 4294967295 = .rejected := by decide
example : PhaseOneArith.collateralEnough 7500000 5000000 150 = .ok := by decide
example : PhaseOneArith.checkMinLovelace 1000000 4310 3 160 = .ok := by decide
example : PhaseOneArith.checkMinLovelace 0 18446744073709551615 3 160 = .panic := by decide   -- arbitrary parameters can overflow
example : PhaseOneArith.mirWithinPot 100 [18446744073709551615, 5] = .rejected := by decide
example : FeeSize.checkMinFee 0 4294967295 4294967295 4294967295 = .feeBelowMin := by decide
example : firstFailure [.ok, .rejected, .panic] = .rejected := by decide

end PallasVerif.Props.C33
