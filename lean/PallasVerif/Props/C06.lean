import PallasVerif.Proofs.SchemaIsoMain
import PallasVerif.Gen.SchemaEra
/-!
# C06 — Era ledger codecs are isomorphic on chain data and round-trip all values

The codecs of `pallas-primitives/src/{lib.rs, alonzo, babbage, conway, byron}/model.rs` are *data*
here: `Gen/SchemaEra.lean` is regenerated on every run from the `#[derive(Encode, Decode)]` items,
their `#[n(i)]` / `#[cbor(..)]` attributes, the `codec_by_datatype!` arms and the hand-written
`[variant, field..]` sums of those files (`lib/translate_derive.py`), and interpreted by
`Model/Schema.lean` (the encode / decode semantics of minicbor 0.26, minicbor-derive 0.16 and the
pallas-codec wrappers, transcribed once).

Proved once, for *every* schema (induction on the interpreter's fuel, `Proofs/Schema*.lean`):
`enc_dec_good` — on values that carry no retained raw bytes, every encoding is exactly one
well-formed CBOR item and decodes back to the value (up to the raw bytes `KeepRaw` retains while
decoding; exactly, when the type holds no `KeepRaw`).  Instantiated here at every generated
schema; the side conditions are decided on the generated terms (`table_ok`, `env_valid`).

The other half of the property, *isomorphism on chain data*, rests on `KeepRaw`:
`keepraw_reencodes` / `keepraw_iso_bytes` state that whatever a `KeepRaw<T>` decoder accepts is
re-encoded byte for byte, for every `T`; `C06_block_iso_partial` composes this over the shape of
the Alonzo / Babbage / Conway blocks: a block whose glue between the raw-retaining parts is
canonical (minimal heads, sorted minimal auxiliary-data keys, body / witness arrays definite or
indefinite) and that the decoder accepts re-encodes to exactly the same item.  That the glue of
the real chain is of this form is a fact about the chain, not a theorem: it is checked on every
block of the corpus by the stream `chain` (pallas and the model both decode and re-encode).
`vec_never_indefinite` is why the two block arrays cannot be plain `Vec`s (they were, see
known_findings.d/C06.json).

Full statement vs. what is proved: see `FullStatement` / `C06_roundtrip_partial` below.
-/
namespace PallasVerif.Props.C06
open PallasVerif.Cbor PallasVerif.Schema PallasVerif.Gen.SchemaEra

/-- "decoding the encoding yields an equal value", on bytes, for one schema: the encoding is
    exactly one well-formed item, and the typed decoder applied to it (followed by anything)
    returns the value — up to the raw bytes `KeepRaw` retains — and leaves what followed. -/
def RoundTrips (env : Env) (s : Schema) : Prop :=
  ∀ fuel v bs, v.rawFree = true → encodeBytes env fuel s v = some bs →
    isSingleItem bs = true ∧
    ∀ rest, ∃ v', decodeBytes env fuel s (bs ++ rest) = some (v', rest) ∧ v'.strip = v

/-- the same with plain equality (types without `KeepRaw`) -/
def RoundTripsExactly (env : Env) (s : Schema) : Prop :=
  ∀ fuel v bs, v.rawFree = true → encodeBytes env fuel s v = some bs →
    isSingleItem bs = true ∧ ∀ rest, decodeBytes env fuel s (bs ++ rest) = some (v, rest)

/-! ## the generic theorem on bytes -/

theorem schema_roundtrip (env : Env) (hv : env.valid = true) (hc : CustomsGood env) (s : Schema)
    (hs : ok env okFuel s = true) : RoundTrips env s := by
  intro fuel v bs hr he
  simp only [encodeBytes, Option.map_eq_some_iff] at he
  obtain ⟨it, hit, rfl⟩ := he
  obtain ⟨hw, _, v', hd, hstrip, _⟩ := enc_dec_good env hv hc fuel s okFuel hs v it hr hit
  refine ⟨isSingleItem_encode it hw, fun rest => ⟨v', ?_, hstrip⟩⟩
  simp [decodeBytes, parseItem_encode it rest hw, hd]

theorem schema_roundtrip_exact (env : Env) (hv : env.valid = true) (hc : CustomsGood env) (s : Schema)
    (hs : ok env okFuel s = true) (hn : noRaw env okFuel s = true) : RoundTripsExactly env s := by
  intro fuel v bs hr he
  simp only [encodeBytes, Option.map_eq_some_iff] at he
  obtain ⟨it, hit, rfl⟩ := he
  obtain ⟨hw, _, v', hd, _, hex⟩ := enc_dec_good env hv hc fuel s okFuel hs v it hr hit
  have := hex ⟨okFuel, hn⟩
  subst this
  refine ⟨isSingleItem_encode it hw, fun rest => ?_⟩
  simp [decodeBytes, parseItem_encode it rest hw, hd]

/-! ## the generated schemas are inside the fragment the theorem covers -/

/-- the translator classified every construct of the claimed types (fail-closed tie A) -/
theorem translator_complete : unknowns = [] := by decide

/-- declarations of the recursive types (datatypes, raw-freeness) are honoured -/
theorem env_valid : env.valid = true := by decide +kernel

/-- every generated schema passes the static side conditions: increasing `#[n]` indices,
    distinct variant numbers, `Option` / `Nullable` payloads that never encode as `null`,
    unambiguous `codec_by_datatype!` arms, raw-free map keys -/
theorem table_ok : table.all (fun p => ok env okFuel p.2) = true := by decide +kernel

theorem customs_good : CustomsGood env := Hand.customs_good env.customs rfl

/-! ## C06, value half: every translated era type round-trips -/

/-- For every type of the era modules that the translator covers (listed in `table`: headers,
    transaction bodies, outputs, witness sets, certificates, relays, rationals, values, metadata,
    redeemers, governance actions, protocol parameter updates, blocks, transactions, ..), every
    in-memory value, every fuel that suffices to encode it: the encoding is one well-formed item
    and decodes back to the value. -/
theorem C06_roundtrip_partial : ∀ p, p ∈ table → RoundTrips env p.2 := by
  intro p hp
  have h := table_ok
  rw [List.all_eq_true] at h
  exact schema_roundtrip env env_valid customs_good p.2 (h p hp)

/-- with plain equality for the types that hold no `KeepRaw` -/
theorem C06_roundtrip_exact_partial :
    ∀ p, p ∈ table → noRaw env okFuel p.2 = true → RoundTripsExactly env p.2 := by
  intro p hp hn
  have h := table_ok
  rw [List.all_eq_true] at h
  exact schema_roundtrip_exact env env_valid customs_good p.2 (h p hp) hn

/-- The full value half of the property: *every* type with a codec in the five anchored files.
    `table` misses the Byron types whose codec has a catch-all variant (`TxIn`, `Twit`, `TxFeePol`
    and what contains them, listed in `skipped`), and treats `PlutusData` as an opaque item
    (its codec is C07's subject), hence the `_partial` names above. -/
def FullStatement : Prop := skipped = [] ∧ ∀ p, p ∈ table → RoundTrips env p.2

/-! ## C06, chain half: `KeepRaw` re-encodes whatever it accepted -/

theorem keepraw_reencodes (env : Env) (fuel : Nat) (s : Schema) (it : Item) (v : Value)
    (h : dec env (fuel + 1) (.keepRaw s) it = some v) : enc env (fuel + 1) (.keepRaw s) v = some it := by
  simp only [dec, decKeepRaw, Option.map_eq_some_iff] at h
  obtain ⟨x, _, rfl⟩ := h
  simp [enc, encKeepRaw]

/-- on bytes: if the decoder of `KeepRaw<T>` accepts a prefix of `bs`, re-encoding the result
    gives exactly that prefix — for every `T`, canonical or not -/
theorem keepraw_iso_bytes (env : Env) (fuel : Nat) (s : Schema) (bs rest : Bytes) (v : Value)
    (h : decodeBytes env (fuel + 1) (.keepRaw s) bs = some (v, rest)) :
    ∃ pre, bs = pre ++ rest ∧ encodeBytes env (fuel + 1) (.keepRaw s) v = some pre := by
  unfold decodeBytes at h
  cases hp : parseItem bs with
  | none => simp [hp] at h
  | some q =>
    obtain ⟨it, r⟩ := q
    simp only [hp, Option.map_eq_some_iff, Prod.mk.injEq] at h
    obtain ⟨x, hx, rfl, rfl⟩ := h
    obtain ⟨hb, _⟩ := parseItem_sound bs it r hp
    exact ⟨it.encode, hb, by simp [encodeBytes, keepraw_reencodes env fuel s it x hx]⟩

/-- the same through a `Vec` of `KeepRaw` fields written with a minimal definite head (the
    shape of `transaction_bodies` / `transaction_witness_sets` in a block) -/
theorem vec_keepraw_reencodes (env : Env) (fuel : Nat) (s : Schema) (xs : List Item) (v : Value)
    (hl : xs.length < 2 ^ 64)
    (h : dec env (fuel + 2) (.vec (.keepRaw s)) (mkArray xs) = some v) :
    enc env (fuel + 2) (.vec (.keepRaw s)) v = some (mkArray xs) := by
  simp only [dec, decVec, decVecItems, mkArray_items, Option.map_eq_some_iff] at h
  obtain ⟨vs, hvs, rfl⟩ := h
  have key : ∀ (ys : List Item) (ws : List Value),
      mapOpt (decKeepRaw (dec env fuel s)) ys = some ws → ws.length = ys.length ∧
      mapOpt (encKeepRaw (enc env fuel s)) ws = some ys := by
    intro ys
    induction ys with
    | nil => intro ws h; simp [mapOpt] at h; subst h; exact ⟨rfl, rfl⟩
    | cons y ys ih =>
      intro ws h
      simp only [mapOpt] at h
      cases h1 : decKeepRaw (dec env fuel s) y with
      | none => simp [h1] at h
      | some w =>
        cases h2 : mapOpt (decKeepRaw (dec env fuel s)) ys with
        | none => simp [h1, h2] at h
        | some ws' =>
          simp [h1, h2] at h; subst h
          simp only [decKeepRaw, Option.map_eq_some_iff] at h1
          obtain ⟨x, _, rfl⟩ := h1
          obtain ⟨l, e⟩ := ih ws' h2
          exact ⟨by simp [l], by simp [mapOpt, encKeepRaw, e]⟩
  have hvs' : mapOpt (decKeepRaw (dec env fuel s)) xs = some vs := by
    simpa [dec] using hvs
  obtain ⟨l, e⟩ := key xs vs hvs'
  simp only [enc, encVec, l, hl, if_true, Option.map_eq_some_iff]
  exact ⟨xs, e, rfl⟩

/-- a `Vec<T>` is always written with a definite head: an indefinite array accepted by its
    decoder is never reproduced (the reason block bodies / witness sets need `MaybeIndefArray`) -/
theorem vec_never_indefinite (env : Env) (fuel : Nat) (s : Schema) (v : Value) (it : Item)
    (h : enc env (fuel + 1) (.vec s) v = some it) : ∃ xs, it = mkArray xs := by
  simp only [enc, encVec] at h
  cases v <;> simp at h
  obtain ⟨_, xs, _, rfl⟩ := h
  exact ⟨xs, rfl⟩

/-- the generated block schemas have the shape `block_iso` is about -/
theorem block_shapes :
    alonzo_Block = blockSchema alonzo_Header alonzo_TransactionBody alonzo_WitnessSet alonzo_AuxiliaryData ∧
    babbage_Block = blockSchema babbage_Header babbage_TransactionBody babbage_WitnessSet alonzo_AuxiliaryData ∧
    conway_Block = blockSchema babbage_Header conway_TransactionBody conway_WitnessSet alonzo_AuxiliaryData :=
  ⟨rfl, rfl, rfl⟩

/-- **C06, chain half (model level).** For the three post-Byron block types as translated from the
    source: a block item `[header, bodies, witness sets, {index => aux data}, ? [index]]` whose
    glue is canonical and that the typed decoder accepts is re-encoded to the same item — for
    arbitrary (also non-canonical) content of header, bodies, witness sets and auxiliary data.
    Partial: canonicity of the glue is a hypothesis (true of every block of the corpus, stream
    `chain`); Byron blocks are only covered by the correspondence. -/
theorem C06_block_iso_partial (S : Schema) (hS : S ∈ [alonzo_Block, babbage_Block, conway_Block])
    (n : Nat) (hdr bodies wits : Item) (bx wx : List Item)
    (kas : List (Nat × Item)) (inv : Option (List Nat)) (v : Value)
    (hb : ArrOf bodies bx) (hw : ArrOf wits wx)
    (hk : ∀ p, p ∈ kas → p.1 < 2 ^ 32) (hs : strictSorted (kas.map (fun p => Value.nat p.1)) = true)
    (hl : kas.length < 2 ^ 64)
    (hi : ∀ idxs, inv = some idxs → (∀ i, i ∈ idxs → i < 2 ^ 32) ∧ idxs.length < 2 ^ 64)
    (hd : dec env (n + 4) S
      (mkArray ([hdr, bodies, wits, mkMapFlat (flattenPairs (auxPairs kas))] ++ invItems inv)) = some v) :
    enc env (n + 4) S v
      = some (mkArray ([hdr, bodies, wits, mkMapFlat (flattenPairs (auxPairs kas))] ++ invItems inv)) := by
  obtain ⟨h1, h2, h3⟩ := block_shapes
  simp only [List.mem_cons, List.mem_nil_iff, or_false] at hS
  rcases hS with rfl | rfl | rfl
  · rw [h1] at hd ⊢; exact block_iso env n _ _ _ _ hdr bodies wits bx wx kas inv v hb hw hk hs hl hi hd
  · rw [h2] at hd ⊢; exact block_iso env n _ _ _ _ hdr bodies wits bx wx kas inv v hb hw hk hs hl hi hd
  · rw [h3] at hd ⊢; exact block_iso env n _ _ _ _ hdr bodies wits bx wx kas inv v hb hw hk hs hl hi hd

/-- the hypotheses are satisfiable: an empty Conway-shaped block with an indefinite body array
    and one auxiliary-data entry passes through `blockSchema` of trivial parts -/
example :
    let S := blockSchema .any .any .any .any
    let it := mkArray ([mkUInt 7, Item.seqIndef 4 [mkUInt 1], mkArray [], mkMapFlat (flattenPairs (auxPairs [(0, mkUInt 9)]))] ++ invItems (some [0]))
    ((dec env 10 S it).bind (enc env 10 S)).map Item.encode = some it.encode := by
  decide +kernel

/-! ## C06, chain half for every translated type: canonical items re-encode to themselves -/

/-- the hand-modelled Conway `CostModels` codec declares no item canonical (it only occurs under
    `KeepRaw` in blocks and transactions), so the contract is vacuous for it -/
theorem customs_iso : CustomsIso env := by
  intro i c hi it hcn
  cases i with
  | zero =>
    simp [env, Hand.customs] at hi
    subst hi
    simp [Hand.costModelsCustom] at hcn
  | succ i => simp [env, Hand.customs] at hi

/-- **C06, chain half, every type** (Byron `Block` / `EbBlock` included, through the hand-written sums
    and wrappers): an item that is canonical for the schema (`Model/SchemaCanon.lean`: minimal heads,
    definite containers where the Rust type does not keep the form, entries in field / key order, no
    surplus elements, `null` exactly where the encoder writes it; anything under `KeepRaw`) and
    that the typed decoder accepts is re-encoded to exactly itself.  `canon` is decidable and is
    evaluated on every artefact of the corpus by the check (evidence: `chain_canonical`). -/
theorem C06_chain_iso_partial : ∀ p, p ∈ table → ∀ fuel it v,
    canon env fuel p.2 it = true → dec env fuel p.2 it = some v → enc env fuel p.2 v = some it := by
  intro p hp fuel it v hcn hd
  have h := table_ok
  rw [List.all_eq_true] at h
  exact canon_iso env env_valid customs_iso fuel p.2 okFuel it (h p hp) hcn v hd

/-- the same on bytes: the decoder accepts a prefix of `bs`, that prefix is canonical, and
    re-encoding the decoded value gives exactly that prefix -/
theorem C06_chain_iso_bytes_partial : ∀ p, p ∈ table → ∀ fuel bs it rest v,
    parseItem bs = some (it, rest) → canon env fuel p.2 it = true →
    decodeBytes env fuel p.2 bs = some (v, rest) →
    ∃ pre, bs = pre ++ rest ∧ encodeBytes env fuel p.2 v = some pre := by
  intro p hp fuel bs it rest v hpi hcn hd
  simp only [decodeBytes, hpi, Option.map_eq_some_iff, Prod.mk.injEq] at hd
  obtain ⟨x, hx, rfl, _⟩ := hd
  obtain ⟨hb, _⟩ := parseItem_sound bs it rest hpi
  exact ⟨it.encode, hb, by simp [encodeBytes, C06_chain_iso_partial p hp fuel it x hcn hx]⟩

/-- the Byron block types are among them -/
example : (table.lookup "byron.Block").isSome = true ∧ (table.lookup "byron.EbBlock").isSome = true := by
  constructor <;> decide +kernel

/-- non-vacuity: a canonical `Relay` item, and a non-canonical one (non-minimal port) that decodes
    to the same value but is not reproduced -/
example : canon env 50 crate_Relay (mkArray [mkUInt 1, mkUInt 3001, mkText [0x61]]) = true := by decide +kernel
example : canon env 50 crate_Relay (mkArray [mkUInt 1, .atom ⟨0, 26, [0, 0, 0x0b, 0xb9]⟩, mkText [0x61]]) = false := by
  decide +kernel

/-! ## non-vacuity: concrete layouts the generated schemas produce -/

/-- `Relay::SingleHostName(Some(3001), "a.b")` is `[1, 3001, "a.b"]`, an `array(3)` -/
example : encodeBytes env 50 crate_Relay (.variant 1 [.some (.nat 3001), .text [0x61, 0x2e, 0x62]])
    = some [0x83, 0x01, 0x19, 0x0b, 0xb9, 0x63, 0x61, 0x2e, 0x62] := by decide +kernel

/-- the same fields under an `array(4)` head are not one well-formed item -/
example : isSingleItem [0x84, 0x01, 0x19, 0x0b, 0xb9, 0x63, 0x61, 0x2e, 0x62] = false := by decide +kernel

/-- derived struct: a trailing `None` is dropped (`TransactionOutput` without datum hash is `array(2)`) -/
example : encodeBytes env 50 alonzo_TransactionOutput (.list [.bytes [0x61], .variant 0 [.nat 5], .none])
    = some [0x82, 0x41, 0x61, 0x05] := by decide +kernel

/-- derived flat enum: a trailing `None` is written as `null` (`UpdateDRepCert(cred, None)` is `array(3)`) -/
example : encodeBytes env 50 conway_Certificate (.variant 16 [.variant 1 [.bytes (List.replicate 28 0)], .none])
    = some ([0x83, 0x12, 0x82, 0x00, 0x58, 0x1c] ++ List.replicate 28 0 ++ [0xf6]) := by decide +kernel

/-- the decoder accepts that encoding (followed by anything) and leaves what followed -/
example : (decodeBytes env 50 crate_Relay [0x83, 0x01, 0x19, 0x0b, 0xb9, 0x63, 0x61, 0x2e, 0x62, 0xff]).map
      (fun p => (encodeBytes env 50 crate_Relay p.1, p.2))
    = some (some [0x83, 0x01, 0x19, 0x0b, 0xb9, 0x63, 0x61, 0x2e, 0x62], [0xff]) := by decide +kernel

example : (Value.variant 1 [.some (.nat 3001), .text [0x61, 0x2e, 0x62]]).rawFree = true := by decide

end PallasVerif.Props.C06
