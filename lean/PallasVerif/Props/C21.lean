import PallasVerif.Model.Reassembly
import PallasVerif.Proofs.Keepalive
import PallasVerif.Proofs.Codec
/-!
# C21 — Message reassembly is independent of segment boundaries

`Model/Reassembly.lean` transcribes the two receive paths: network1 `ChannelBuffer::recv_full_msg`
(+ `try_decode_message`) and network2 `BearerReadHalf::read_full_msgs` (+ `try_decode_msg`,
`AnyMessage::from_payload` dispatch, per-channel partial buffers keyed by `channel & !0x8000`), both
generic in the message decoder.

`Good dec enc` is what the property needs from a codec: **RT + no look-ahead** (`dec (enc m ++ r)`
returns `m` and consumes exactly `|enc m|` bytes whatever follows), **prefix-eoi** (every proper
prefix of an encoding is an end-of-input error, never another error), encodings are non-empty,
and the empty buffer is end-of-input.

Theorems (any message list, any split of the concatenated encodings into chunks — empty and
one-byte chunks included —, no bound on lengths):

* `reassembly_network1` — `msgs.length` calls of `recv_full_msg` return exactly `msgs`, in order, with
  an empty `temp` and only empty chunks left;
* `reassembly_network1_progress`, `recv_after_all_blocks` — no further chunk is needed to get the last
  message out (no stall), and the next call blocks with an empty buffer; `skipping_loop_stalls` shows a loop
  that skips a decode attempt after a full-size chunk violates this;
* `reassembly_network2` — for every channel, whatever other channels are interleaved on the bearer,
  the messages `read_full_msgs` yields on that channel are exactly `msgs`, and the partial buffer of
  the channel ends empty;
* `good_keepalive` — the keep-alive codec of both stacks (modelled over minicbor's `array()` / `u16()`
  primitives, tied by the `kdec` ops of the stream) satisfies `Good`; `reassembly_network1_keepalive`,
  `reassembly_network2_keepalive` are the hypothesis-free instances;
* `good_blockfetch` — likewise the block-fetch codec of both stacks (`array()`, `u16()`, `u64()`, `tag()`,
  `bytes()`; `Point`s; block bodies of any length `< 2^64`, i.e. messages spanning many segments), tied by
  the `bfdec`/`bfenc` ops; `reassembly_network1_blockfetch`, `reassembly_network2_blockfetch`;
* `good_chainsync` — likewise the node-to-node chain-sync codec (header content with Byron prefix, tips,
  points, the point list of `FindIntersect`), tied by the `csdec`/`csenc` ops;
* `good_lenCodec` — a synthetic length-prefixed codec satisfies `Good`.

What is **not** proved here: that the *other* pallas message decoders satisfy `Good` (that is C22's
schema layer); the correspondence stream replays real protocol messages of both stacks through the
real receive paths at every split and through this model with a "one well-formed CBOR item" decoder.
-/
namespace PallasVerif.Props.C21
open PallasVerif.Reassembly

variable {M : Type} {D : M → Prop}

/-- what reassembly needs from a codec, on the messages satisfying `D` (size limits of the wire
    format: `u64` fields, lengths below `2^64`; `fun _ => True` when there are none) -/
structure Good (D : M → Prop) (dec : Decoder M) (enc : M → Bytes) : Prop where
  /-- round trip, consuming exactly the encoding, independent of what follows (no look-ahead) -/
  rt : ∀ m, D m → ∀ r, dec (enc m ++ r) = .ok m (enc m).length
  /-- a proper prefix of an encoding is an end-of-input error -/
  pfx : ∀ m, D m → ∀ p, p <+: enc m → p ≠ enc m → dec p = .eoi
  nonempty : ∀ m, D m → enc m ≠ []
  empty : dec [] = .eoi

def encAll (enc : M → Bytes) (msgs : List M) : Bytes := (msgs.map enc).flatten

/-! ## list facts -/

theorem split_long {a x e r : Bytes} (h : a ++ x = e ++ r) (hl : e.length ≤ a.length) :
    ∃ r1, a = e ++ r1 ∧ r1 ++ x = r := by
  rcases List.append_eq_append_iff.1 h with ⟨a', h1, h2⟩ | ⟨c', h1, h2⟩
  · -- e = a ++ a'
    have : a'.length = 0 := by
      have := congrArg List.length h1; simp only [List.length_append] at this; omega
    have ha' : a' = [] := List.eq_nil_of_length_eq_zero this
    subst ha'
    exact ⟨[], by simpa using h1.symm, by simpa using h2⟩
  · exact ⟨c', h1, h2.symm⟩

theorem split_short {a x e r : Bytes} (h : a ++ x = e ++ r) (hl : a.length < e.length) :
    a <+: e ∧ a ≠ e := by
  rcases List.append_eq_append_iff.1 h with ⟨a', h1, _⟩ | ⟨c', h1, _⟩
  · exact ⟨⟨a', h1.symm⟩, fun e' => by rw [e'] at hl; omega⟩
  · have := congrArg List.length h1; simp only [List.length_append] at this; omega

theorem drop_left_len (e r : Bytes) : (e ++ r).drop e.length = r := List.drop_left' rfl

/-! ## network1 -/

theorem tryDecode_full {dec : Decoder M} {enc : M → Bytes} (h : Good D dec enc) (m : M) (hm : D m)
    (r : Bytes) : tryDecode dec (enc m ++ r) = .msg m r := by
  simp [tryDecode, h.rt m hm r, drop_left_len]

theorem tryDecode_short {dec : Decoder M} {enc : M → Bytes} (h : Good D dec enc) (m : M) (hm : D m)
    (p : Bytes) (hp : p <+: enc m) (hne : p ≠ enc m) : tryDecode dec p = .needMore := by
  simp [tryDecode, h.pfx m hm p hp hne]

/-- the loop of `recv_full_msg` finds the next message whatever the chunk boundaries -/
theorem recvLoop_spec {dec : Decoder M} {enc : M → Bytes} (h : Good D dec enc) (m : M) (hm : D m)
    (R : Bytes) :
    ∀ (chunks : List Bytes) (temp : Bytes), temp ++ chunks.flatten = enc m ++ R →
      temp.length < (enc m).length →
      ∃ t' c', recvLoop dec temp chunks = .msg m t' c' ∧ t' ++ c'.flatten = R := by
  intro chunks
  induction chunks with
  | nil =>
    intro temp heq hlt
    have := congrArg List.length heq
    simp only [List.flatten_nil, List.append_nil, List.length_append] at this
    omega
  | cons chunk cs ih =>
    intro temp heq hlt
    have heq' : (temp ++ chunk) ++ cs.flatten = enc m ++ R := by
      simpa [List.flatten_cons, List.append_assoc] using heq
    by_cases hl : (enc m).length ≤ (temp ++ chunk).length
    · obtain ⟨r1, h1, h2⟩ := split_long heq' hl
      refine ⟨r1, cs, ?_, h2⟩
      simp only [recvLoop]
      rw [h1, tryDecode_full h m hm]
    · have hl' : (temp ++ chunk).length < (enc m).length := by omega
      obtain ⟨hp, hne⟩ := split_short heq' hl'
      simp only [recvLoop]
      rw [tryDecode_short h m hm _ hp hne]
      exact ih (temp ++ chunk) heq' hl'

/-- one call of `recv_full_msg` -/
theorem recvFullMsg_spec {dec : Decoder M} {enc : M → Bytes} (h : Good D dec enc) (m : M) (hm : D m)
    (R : Bytes) (temp : Bytes) (chunks : List Bytes) (heq : temp ++ chunks.flatten = enc m ++ R) :
    ∃ t' c', recvFullMsg dec temp chunks = .msg m t' c' ∧ t' ++ c'.flatten = R := by
  unfold recvFullMsg
  by_cases he : temp.isEmpty = true
  · have ht : temp = [] := List.isEmpty_iff.1 he
    simp only [he, if_true]
    apply recvLoop_spec h m hm R chunks temp heq
    rw [ht]
    exact List.length_pos_iff.2 (h.nonempty m hm)
  · simp only [he]
    by_cases hl : (enc m).length ≤ temp.length
    · obtain ⟨r1, h1, h2⟩ := split_long heq hl
      refine ⟨r1, chunks, ?_, h2⟩
      rw [h1, tryDecode_full h m hm]; simp
    · have hl' : temp.length < (enc m).length := by omega
      obtain ⟨hp, hne⟩ := split_short heq hl'
      rw [tryDecode_short h m hm _ hp hne]
      simpa using recvLoop_spec h m hm R chunks temp heq hl'

theorem recvN_spec {dec : Decoder M} {enc : M → Bytes} (h : Good D dec enc) :
    ∀ (msgs : List M), (∀ m ∈ msgs, D m) → ∀ (temp : Bytes) (chunks : List Bytes),
      temp ++ chunks.flatten = encAll enc msgs →
      ∃ t c, recvN dec msgs.length temp chunks = some (msgs, t, c) ∧ t ++ c.flatten = [] := by
  intro msgs
  induction msgs with
  | nil =>
    intro _ temp chunks heq
    exact ⟨temp, chunks, rfl, by simpa [encAll] using heq⟩
  | cons m ms ih =>
    intro hD temp chunks heq
    have heq' : temp ++ chunks.flatten = enc m ++ encAll enc ms := by
      simpa [encAll] using heq
    obtain ⟨t', c', h1, h2⟩ :=
      recvFullMsg_spec h m (hD m (List.mem_cons_self ..)) _ temp chunks heq'
    obtain ⟨t, c, h3, h4⟩ := ih (fun x hx => hD x (List.mem_cons_of_mem _ hx)) t' c' h2
    refine ⟨t, c, ?_, h4⟩
    simp only [List.length_cons, recvN, h1, h3]

/-- **network1.** For any messages and any split of their concatenated encodings into chunks,
    `msgs.length` calls of `recv_full_msg` return exactly the messages, in order; afterwards `temp` is
    empty and every chunk still queued is empty (no left-over bytes). -/
theorem reassembly_network1 {dec : Decoder M} {enc : M → Bytes} (h : Good D dec enc) (msgs : List M)
    (hD : ∀ m ∈ msgs, D m) (splits : List Bytes) (hs : splits.flatten = encAll enc msgs) :
    ∃ c, recvN dec msgs.length [] splits = some (msgs, [], c) ∧ c.flatten = [] := by
  obtain ⟨t, c, h1, h2⟩ := recvN_spec h msgs hD [] splits (by simpa using hs)
  have ht : t = [] := (List.append_eq_nil_iff.1 h2).1
  have hc : c.flatten = [] := (List.append_eq_nil_iff.1 h2).2
  subst ht
  exact ⟨c, h1, hc⟩

/-- once every byte has been consumed, a further `recv_full_msg` finds nothing and waits: `blocked` with
    an empty buffer (it neither invents a message nor fails) -/
theorem recv_after_all_blocks {dec : Decoder M} {enc : M → Bytes} (h : Good D dec enc) :
    ∀ c : List Bytes, c.flatten = [] → recvFullMsg dec [] c = .blocked [] := by
  intro c
  induction c with
  | nil => intro _; rfl
  | cons x xs ih =>
    intro hc
    have hc' : x ++ xs.flatten = [] := by rw [← List.flatten_cons]; exact hc
    have hx : x = [] := (List.append_eq_nil_iff.1 hc').1
    have hxs : xs.flatten = [] := (List.append_eq_nil_iff.1 hc').2
    subst hx
    have := ih hxs
    simp only [recvFullMsg, List.isEmpty_nil, if_true] at this ⊢
    simp only [recvLoop, List.append_nil, tryDecode, h.empty]
    exact this

/-- **network1, with progress.** The chunks of `msgs` alone — no further chunk is needed — make
    `msgs.length` calls return exactly `msgs` (so a complete message is never left waiting in the
    buffer, whatever the size of the chunk that completed it), and the call after that blocks with an
    empty buffer. A receive loop that skips the decode attempt after some chunk (e.g. after a full-size
    segment) does not satisfy this: see `skipping_loop_stalls`. -/
theorem reassembly_network1_progress {dec : Decoder M} {enc : M → Bytes} (h : Good D dec enc)
    (msgs : List M) (hD : ∀ m ∈ msgs, D m) (splits : List Bytes)
    (hs : splits.flatten = encAll enc msgs) :
    ∃ c, recvN dec msgs.length [] splits = some (msgs, [], c) ∧ recvFullMsg dec [] c = .blocked [] := by
  obtain ⟨c, h1, h2⟩ := reassembly_network1 h msgs hD splits hs
  exact ⟨c, h1, recv_after_all_blocks h c h2⟩

/-! ## network2 -/

theorem tryDecode2_full {dec : Decoder M} {enc : M → Bytes} (h : Good D dec enc) (m : M) (hm : D m)
    (r : Bytes) : tryDecode2 dec (enc m ++ r) = some (m, r) := by
  simp [tryDecode2, h.rt m hm r, drop_left_len]

theorem tryDecode2_short {dec : Decoder M} {enc : M → Bytes} (h : Good D dec enc) (m : M) (hm : D m)
    (p : Bytes) (hp : p <+: enc m) (hne : p ≠ enc m) : tryDecode2 dec p = none := by
  simp [tryDecode2, h.pfx m hm p hp hne]

/-- the `while let Some(..) = from_payload(..)` loop delivers every complete message of the payload
    and leaves exactly the incomplete tail -/
theorem drain_spec {dec : Decoder M} {enc : M → Bytes} (h : Good D dec enc) :
    ∀ (ms : List M), (∀ m ∈ ms, D m) → ∀ (payload future : Bytes) (fuel : Nat),
      payload ++ future = encAll enc ms → payload.length < fuel →
      ∃ ms1 ms2, ms = ms1 ++ ms2 ∧ (drain dec fuel payload).1 = ms1 ∧
        (drain dec fuel payload).2 ++ future = encAll enc ms2 ∧
        (ms2 = [] ∨ ∃ m ms2', ms2 = m :: ms2' ∧ (drain dec fuel payload).2.length < (enc m).length) := by
  intro ms
  induction ms with
  | nil =>
    intro _ payload future fuel heq hf
    have hp : payload = [] := by
      have : payload ++ future = [] := by simpa [encAll] using heq
      exact (List.append_eq_nil_iff.1 this).1
    subst hp
    cases fuel with
    | zero => omega
    | succ f =>
      refine ⟨[], [], rfl, ?_, ?_, Or.inl rfl⟩
      · simp [drain, tryDecode2, h.empty]
      · simp only [drain, tryDecode2, h.empty]; simpa using heq
  | cons m ms ih =>
    intro hD payload future fuel heq hf
    have hm : D m := hD m (List.mem_cons_self ..)
    have hD' : ∀ x ∈ ms, D x := fun x hx => hD x (List.mem_cons_of_mem _ hx)
    have heq' : payload ++ future = enc m ++ encAll enc ms := by simpa [encAll] using heq
    cases fuel with
    | zero => omega
    | succ f =>
      by_cases hl : (enc m).length ≤ payload.length
      · obtain ⟨r1, h1, h2⟩ := split_long heq' hl
        have hpos : 0 < (enc m).length := List.length_pos_iff.2 (h.nonempty m hm)
        have hf' : r1.length < f := by
          have := congrArg List.length h1; simp only [List.length_append] at this; omega
        obtain ⟨ms1, ms2, e1, e2, e3, e4⟩ := ih hD' r1 future f h2 hf'
        refine ⟨m :: ms1, ms2, by simp [e1], ?_, ?_, ?_⟩
        · simp only [drain]; rw [h1, tryDecode2_full h m hm]; simp [e2]
        · simp only [drain]; rw [h1, tryDecode2_full h m hm]; exact e3
        · simp only [drain]; rw [h1, tryDecode2_full h m hm]; exact e4
      · have hl' : payload.length < (enc m).length := by omega
        obtain ⟨hp, hne⟩ := split_short heq' hl'
        refine ⟨[], m :: ms, rfl, ?_, ?_, Or.inr ⟨m, ms, rfl, ?_⟩⟩
        · simp only [drain]; rw [tryDecode2_short h m hm _ hp hne]
        · simp only [drain]; rw [tryDecode2_short h m hm _ hp hne]; exact heq
        · simp only [drain]; rw [tryDecode2_short h m hm _ hp hne]; exact hl'

/-- channel key of a segment: `raw_channel & !PROTOCOL_SERVER` -/
def keyOf (seg : UInt16 × Bytes) : UInt16 := seg.1 &&& ~~~PROTOCOL_SERVER

/-- the bytes that arrive on channel `c`, in order -/
def bytesOn (c : UInt16) (segs : List (UInt16 × Bytes)) : Bytes :=
  ((segs.filter fun s => keyOf s = c).map (·.2)).flatten

/-- the messages delivered on channel `c`, in order -/
def msgsOn (c : UInt16) (out : List (UInt16 × M)) : List M :=
  (out.filter fun x => x.1 = c).map (·.2)

def partialOf (p : UInt16 → Option Bytes) (c : UInt16) : Bytes := (p c).getD []

theorem readFullMsgs_other (tbl : Table M) (p : UInt16 → Option Bytes) (seg : UInt16 × Bytes)
    (c : UInt16) (hc : keyOf seg ≠ c) : (readFullMsgs tbl p seg).2 c = p c := by
  have hc' : ¬ c = seg.1 &&& ~~~PROTOCOL_SERVER := fun e => hc e.symm
  unfold readFullMsgs
  simp only
  cases tbl (seg.1 &&& ~~~PROTOCOL_SERVER) with
  | none => simp [setPartial, hc']
  | some dec =>
    simp only
    split <;> (split <;> simp [setPartial, hc'])

theorem readFullMsgs_same (tbl : Table M) (dec : Decoder M) (p : UInt16 → Option Bytes)
    (seg : UInt16 × Bytes) (c : UInt16) (hc : keyOf seg = c) (ht : tbl c = some dec) :
    (readFullMsgs tbl p seg).1 =
        (drain dec ((partialOf p c ++ seg.2).length + 1) (partialOf p c ++ seg.2)).1 ∧
    partialOf (readFullMsgs tbl p seg).2 c =
        (drain dec ((partialOf p c ++ seg.2).length + 1) (partialOf p c ++ seg.2)).2 := by
  have hk : seg.1 &&& ~~~PROTOCOL_SERVER = c := hc
  unfold readFullMsgs
  simp only [hk, ht]
  cases hp : p c with
  | none =>
    simp only [partialOf, hp, Option.getD_none, List.nil_append]
    split
    · rename_i he
      refine ⟨rfl, ?_⟩
      simp only [setPartial, if_true, Option.getD_none]
      exact (List.isEmpty_iff.1 he).symm
    · refine ⟨rfl, ?_⟩
      simp [setPartial]
  | some x =>
    simp only [partialOf, hp, Option.getD_some]
    split
    · rename_i he
      refine ⟨rfl, ?_⟩
      simp only [setPartial, if_true, Option.getD_none]
      exact (List.isEmpty_iff.1 he).symm
    · refine ⟨rfl, ?_⟩
      simp [setPartial]

theorem msgsOn_append (c : UInt16) (a b : List (UInt16 × M)) :
    msgsOn c (a ++ b) = msgsOn c a ++ msgsOn c b := by
  simp [msgsOn, List.filter_append]

theorem msgsOn_tag_same (c : UInt16) (l : List M) : msgsOn c (l.map fun m => (c, m)) = l := by
  induction l with
  | nil => rfl
  | cons x xs ih => simp [msgsOn] at ih ⊢; exact ih

theorem msgsOn_tag_other (c k : UInt16) (hk : k ≠ c) (l : List M) :
    msgsOn c (l.map fun m => (k, m)) = [] := by
  induction l with
  | nil => rfl
  | cons x xs ih => simp [msgsOn, hk] at ih ⊢

/-- the buffered bytes of a channel never contain a complete message (`read_full_msgs` drains) -/
def Drained (enc : M → Bytes) (buffered : Bytes) (ms : List M) : Prop :=
  ms = [] ∨ ∃ m ms', ms = m :: ms' ∧ buffered.length < (enc m).length

theorem reassembly_network2_aux {tbl : Table M} {dec : Decoder M} {enc : M → Bytes} (c : UInt16)
    (ht : tbl c = some dec) (h : Good D dec enc) :
    ∀ (segs : List (UInt16 × Bytes)) (p : UInt16 → Option Bytes) (ms : List M), (∀ m ∈ ms, D m) →
      partialOf p c ++ bytesOn c segs = encAll enc ms → Drained enc (partialOf p c) ms →
      msgsOn c (readAll tbl p segs).1 = ms ∧ partialOf (readAll tbl p segs).2 c = [] := by
  intro segs
  induction segs with
  | nil =>
    intro p ms _ heq hd
    have hp : partialOf p c = encAll enc ms := by simpa [bytesOn] using heq
    rcases hd with hd | ⟨m, ms', hd, hlt⟩
    · subst hd
      exact ⟨by simp [readAll, msgsOn], by simpa [readAll, encAll] using hp⟩
    · subst hd
      have := congrArg List.length hp
      simp only [encAll, List.map_cons, List.flatten_cons, List.length_append] at this
      omega
  | cons seg segs ih =>
    intro p ms hD heq hd
    by_cases hk : keyOf seg = c
    · have hb : bytesOn c (seg :: segs) = seg.2 ++ bytesOn c segs := by
        simp [bytesOn, List.filter_cons, hk]
      rw [hb, ← List.append_assoc] at heq
      obtain ⟨e1, e2⟩ := readFullMsgs_same tbl dec p seg c hk ht
      obtain ⟨ms1, ms2, hms, d1, d2, d3⟩ :=
        drain_spec h ms hD (partialOf p c ++ seg.2) (bytesOn c segs)
          ((partialOf p c ++ seg.2).length + 1) heq (Nat.lt_succ_self _)
      have hdr : Drained enc (partialOf (readFullMsgs tbl p seg).2 c) ms2 := by
        rw [e2]; exact d3
      have hq : partialOf (readFullMsgs tbl p seg).2 c ++ bytesOn c segs = encAll enc ms2 := by
        rw [e2]; exact d2
      have hD2 : ∀ m ∈ ms2, D m := fun x hx => hD x (by rw [hms]; exact List.mem_append_right _ hx)
      obtain ⟨i1, i2⟩ := ih (readFullMsgs tbl p seg).2 ms2 hD2 hq hdr
      refine ⟨?_, by simpa [readAll] using i2⟩
      have hk' : seg.1 &&& ~~~PROTOCOL_SERVER = c := hk
      simp only [readAll, msgsOn_append, hk', msgsOn_tag_same, i1, e1, d1, hms]
    · have hb : bytesOn c (seg :: segs) = bytesOn c segs := by
        simp [bytesOn, List.filter_cons, hk]
      rw [hb] at heq
      have hsame : partialOf (readFullMsgs tbl p seg).2 c = partialOf p c := by
        unfold partialOf; rw [readFullMsgs_other tbl p seg c hk]
      obtain ⟨i1, i2⟩ := ih (readFullMsgs tbl p seg).2 ms hD (by rw [hsame]; exact heq)
        (by rw [hsame]; exact hd)
      refine ⟨?_, by simpa [readAll] using i2⟩
      have hk' : seg.1 &&& ~~~PROTOCOL_SERVER ≠ c := hk
      simp only [readAll, msgsOn_append, msgsOn_tag_other c _ hk', List.nil_append, i1]

/-- **network2.** For every supported channel `c` whose decoder is `Good`: if the bytes arriving on
    `c` are the concatenated encodings of `ms`, then — however they are cut into segments (either
    direction bit) and whatever segments of other channels are interleaved on the bearer — starting
    from empty partial buffers the messages yielded on `c` are exactly `ms`, in order, and the
    partial buffer of `c` ends empty (no left-over bytes). -/
theorem reassembly_network2 {tbl : Table M} {dec : Decoder M} {enc : M → Bytes} (c : UInt16)
    (ht : tbl c = some dec) (h : Good D dec enc) (segs : List (UInt16 × Bytes)) (ms : List M)
    (hD : ∀ m ∈ ms, D m) (hs : bytesOn c segs = encAll enc ms) :
    msgsOn c (readAll tbl (fun _ => none) segs).1 = ms ∧
      partialOf (readAll tbl (fun _ => none) segs).2 c = [] := by
  apply reassembly_network2_aux c ht h segs (fun _ => none) ms hD
  · simpa [partialOf] using hs
  · cases ms with
    | nil => exact Or.inl rfl
    | cons m ms' =>
      exact Or.inr ⟨m, ms', rfl, by
        simpa [partialOf] using List.length_pos_iff.2 (h.nonempty m (hD m (List.mem_cons_self ..)))⟩

/-- an unsupported channel never yields a message and keeps no bytes -/
theorem unsupported_channel (tbl : Table M) (p : UInt16 → Option Bytes) (seg : UInt16 × Bytes)
    (hu : tbl (keyOf seg) = none) :
    (readFullMsgs tbl p seg).1 = [] ∧ (readFullMsgs tbl p seg).2 (keyOf seg) = none := by
  have hk : tbl (seg.1 &&& ~~~PROTOCOL_SERVER) = none := hu
  unfold readFullMsgs
  simp [hk, setPartial, keyOf]

/-! ## the hypotheses are satisfiable: a concrete codec -/

/-- messages = byte strings shorter than 256 bytes, encoded as `length ‖ bytes` -/
def LenMsg := { b : Bytes // b.length < 256 }

def lenEnc (m : LenMsg) : Bytes := UInt8.ofNat m.val.length :: m.val

def lenDec : Decoder LenMsg := fun bs =>
  match bs with
  | [] => .eoi
  | n :: rest =>
    if h : n.toNat ≤ rest.length then
      .ok ⟨rest.take n.toNat, by
        have := n.toNat_lt
        simp only [List.length_take]; omega⟩ (1 + n.toNat)
    else .eoi

theorem good_lenCodec : Good (fun _ => True) lenDec lenEnc := by
  refine ⟨?_, ?_, ?_, rfl⟩
  · intro m _ r
    obtain ⟨b, hb⟩ := m
    have hn : (UInt8.ofNat b.length).toNat = b.length := by simp; omega
    simp only [lenEnc, lenDec, List.cons_append, hn, List.length_append, List.length_cons]
    have : b.length ≤ b.length + r.length := by omega
    simp only [this, dite_true]
    congr 1
    · apply Subtype.ext; simp
    · omega
  · intro m _ p hp hne
    obtain ⟨b, hb⟩ := m
    have hn : (UInt8.ofNat b.length).toNat = b.length := by simp; omega
    obtain ⟨t, ht⟩ := hp
    cases p with
    | nil => rfl
    | cons x xs =>
      simp only [lenEnc, List.cons_append, List.cons.injEq] at ht
      obtain ⟨hx, hxs⟩ := ht
      subst hx
      have hlen : xs.length < b.length := by
        have hl := congrArg List.length hxs
        simp only [List.length_append] at hl
        have : t ≠ [] := by
          intro e; subst e
          apply hne
          simp only [List.append_nil] at hxs
          simp [lenEnc, hxs]
        have := List.length_pos_iff.2 this
        omega
      simp only [lenDec, hn]
      have : ¬ b.length ≤ xs.length := by omega
      simp [this]
  · intro m _; simp [lenEnc]

/-- the network1 theorem instantiated with a concrete codec (no hypothesis left) -/
theorem reassembly_network1_lenCodec (msgs : List LenMsg) (splits : List Bytes)
    (hs : splits.flatten = encAll lenEnc msgs) :
    ∃ c, recvN lenDec msgs.length [] splits = some (msgs, [], c) ∧ c.flatten = [] :=
  reassembly_network1 good_lenCodec msgs (fun _ _ => trivial) splits hs

/-! ## a real pallas codec: keep-alive (both stacks) -/

/-- the keep-alive message codec (`array(2) u16(label) cookie` / `array(1) u16(2)`, decoded with
    minicbor's `array()` / `u16()`) satisfies `Good` -/
theorem good_keepalive : Good (fun _ => True) kDec kEnc :=
  ⟨fun m _ => Proofs.Keepalive.kRt m, fun m _ => Proofs.Keepalive.kPfx m,
    fun m _ => Proofs.Keepalive.kNonempty m, rfl⟩

/-- network1, keep-alive messages: no hypothesis left -/
theorem reassembly_network1_keepalive (msgs : List KMsg) (splits : List Bytes)
    (hs : splits.flatten = encAll kEnc msgs) :
    ∃ c, recvN kDec msgs.length [] splits = some (msgs, [], c) ∧ c.flatten = [] :=
  reassembly_network1 good_keepalive msgs (fun _ _ => trivial) splits hs

/-- network2, keep-alive channel of any decoder table that maps it to the keep-alive decoder -/
theorem reassembly_network2_keepalive (tbl : Table KMsg) (c : UInt16) (ht : tbl c = some kDec)
    (segs : List (UInt16 × Bytes)) (ms : List KMsg) (hs : bytesOn c segs = encAll kEnc ms) :
    msgsOn c (readAll tbl (fun _ => none) segs).1 = ms ∧
      partialOf (readAll tbl (fun _ => none) segs).2 c = [] :=
  reassembly_network2 c ht good_keepalive segs ms (fun _ _ => trivial) hs

/-! ## a second real codec: block-fetch (both stacks), the protocol whose messages span segments -/

open Proofs.Codec in
/-- the block-fetch codec (`array(n) u16(label) …` with `Point`s and a tag-24 byte string, decoded with
    minicbor's `array()` / `u16()` / `u64()` / `tag()` / `bytes()`) satisfies `Good` on every message
    whose slot numbers fit `u64` and whose byte strings are shorter than `2^64` -/
theorem good_blockfetch : Good Proofs.Codec.WFMsg bfDec bfEnc := by
  refine ⟨?_, ?_, ?_, rfl⟩
  · intro m hm r
    simp only [bfDec, (Proofs.Codec.parses_blockfetch m hm).1 r]
  · intro m hm p hp hne
    simp only [bfDec, (Proofs.Codec.parses_blockfetch m hm).2 p hp hne]
  · intro m _
    cases m <;> simp [bfEnc]

/-- network1, block-fetch messages (a block body may be far longer than a segment) -/
theorem reassembly_network1_blockfetch (msgs : List BFMsg) (hD : ∀ m ∈ msgs, Proofs.Codec.WFMsg m)
    (splits : List Bytes) (hs : splits.flatten = encAll bfEnc msgs) :
    ∃ c, recvN bfDec msgs.length [] splits = some (msgs, [], c) ∧ c.flatten = [] :=
  reassembly_network1 good_blockfetch msgs hD splits hs

/-- network2, block-fetch channel -/
theorem reassembly_network2_blockfetch (tbl : Table BFMsg) (c : UInt16) (ht : tbl c = some bfDec)
    (segs : List (UInt16 × Bytes)) (ms : List BFMsg) (hD : ∀ m ∈ ms, Proofs.Codec.WFMsg m)
    (hs : bytesOn c segs = encAll bfEnc ms) :
    msgsOn c (readAll tbl (fun _ => none) segs).1 = ms ∧
      partialOf (readAll tbl (fun _ => none) segs).2 c = [] :=
  reassembly_network2 c ht good_blockfetch segs ms hD hs

/-! ## a third real codec: chain-sync with header content (node-to-node, both stacks) -/

/-- the chain-sync codec (`HeaderContent` with its Byron prefix, `Tip`, `Point`, the point list of
    `FindIntersect` decoded through `Vec<T>` / `ArrayIter`) satisfies `Good` on every message that
    pallas can send and receive (`WFCS`: integers in `u8`/`u64`, lengths below `2^64`, Byron prefix
    present exactly for variant 0) -/
theorem good_chainsync : Good Proofs.Codec.WFCS csDec csEnc := by
  refine ⟨?_, ?_, ?_, rfl⟩
  · intro m hm r
    simp only [csDec, (Proofs.Codec.parses_chainsync m hm).1 r]
  · intro m hm p hp hne
    simp only [csDec, (Proofs.Codec.parses_chainsync m hm).2 p hp hne]
  · intro m _
    cases m <;> simp [csEnc]

theorem reassembly_network1_chainsync (msgs : List CSMsg) (hD : ∀ m ∈ msgs, Proofs.Codec.WFCS m)
    (splits : List Bytes) (hs : splits.flatten = encAll csEnc msgs) :
    ∃ c, recvN csDec msgs.length [] splits = some (msgs, [], c) ∧ c.flatten = [] :=
  reassembly_network1 good_chainsync msgs hD splits hs

theorem reassembly_network2_chainsync (tbl : Table CSMsg) (c : UInt16) (ht : tbl c = some csDec)
    (segs : List (UInt16 × Bytes)) (ms : List CSMsg) (hD : ∀ m ∈ ms, Proofs.Codec.WFCS m)
    (hs : bytesOn c segs = encAll csEnc ms) :
    msgsOn c (readAll tbl (fun _ => none) segs).1 = ms ∧
      partialOf (readAll tbl (fun _ => none) segs).2 c = [] :=
  reassembly_network2 c ht good_chainsync segs ms hD hs

/-! ## a receive loop that skips a decode attempt stalls (why the model tries after *every* chunk) -/

/-- `recvLoop` with the shortcut "a chunk of exactly `full` bytes means more is coming: do not try to
    decode yet" -/
def recvLoopSkip {M : Type} (full : Nat) (dec : Decoder M) (temp : Bytes) : List Bytes → Recv M
  | [] => .blocked temp
  | chunk :: chunks =>
    if chunk.length = full then recvLoopSkip full dec (temp ++ chunk) chunks
    else
      match tryDecode dec (temp ++ chunk) with
      | .msg m rest => .msg m rest chunks
      | .needMore => recvLoopSkip full dec (temp ++ chunk) chunks
      | .error => .error

/-- with the shortcut, a message that ends exactly at the end of a full-size chunk stays in the buffer:
    the loop blocks holding the complete message, whereas `recvLoop` yields it -/
def isBlockedWith {M : Type} (t : Bytes) : Recv M → Bool
  | .blocked t' => t' == t
  | _ => false

def isMsgWith (body : Bytes) : Recv LenMsg → Bool
  | .msg m t c => m.val == body && t.isEmpty && c.isEmpty
  | _ => false

theorem skipping_loop_stalls :
    isBlockedWith [3, 1, 2, 3] (recvLoopSkip 4 lenDec [] [[3, 1, 2, 3]]) = true ∧
    isMsgWith [1, 2, 3] (recvLoop lenDec [] [[3, 1, 2, 3]]) = true := by
  decide

/-! ## Non-vacuity -/
def m1 : LenMsg := ⟨[1, 2, 3], by decide⟩
def m2 : LenMsg := ⟨[], by decide⟩
def m3 : LenMsg := ⟨[9], by decide⟩

example : encAll lenEnc [m1, m2, m3] = [3, 1, 2, 3, 0, 1, 9] := by decide
/-- one-byte chunks, an empty chunk, and a chunk spanning two messages -/
example : (recvN lenDec 3 [] [[3], [1], [], [2, 3, 0, 1], [9], []]).map (fun r => (r.1.map (·.val), r.2)) =
    some ([[1, 2, 3], [], [9]], [], [[]]) := by decide
example : (recvN lenDec 3 [] [[3, 1, 2, 3, 0, 1, 9]]).map (fun r => (r.1.map (·.val), r.2)) =
    some ([[1, 2, 3], [], [9]], [], []) := by decide
/-- a decoder that reports a non-eoi error on a proper prefix is not `Good`, and reassembly fails -/
example : (recvN (fun bs => if bs.length < 4 then .fail else lenDec bs) 1 [] [[3], [1, 2, 3]]).isNone := by
  decide
example : itemDec [0x82, 0x00, 0x19, 0x01, 0x02, 0xAA] = .ok [0x82, 0x00, 0x19, 0x01, 0x02] 5 := by decide
example : itemDec [0x82, 0x00, 0x19, 0x01] = .eoi := by decide
example : itemDec [0x9f, 0x01, 0x5f, 0x41, 0x00, 0xff, 0xff] = .ok [0x9f, 0x01, 0x5f, 0x41, 0x00, 0xff, 0xff] 7 := by
  decide
example : itemDec [0xff] = .fail ∧ itemDec [0x1c] = .fail := by decide

example : kEnc (.keepAlive 0x1234) = [0x82, 0x00, 0x19, 0x12, 0x34] ∧ kEnc (.response 7) = [0x82, 0x01, 0x07] ∧
    kEnc .done = [0x81, 0x02] := by decide
example : kDec [0x82, 0x00, 0x19, 0x12] = .eoi ∧ kDec [0x82, 0x00, 0x1a, 0, 1, 0, 0] = .fail ∧
    kDec [0x82, 0x00, 0x1a, 0, 0, 0x12, 0x34, 0xff] = .ok (.keepAlive 0x1234) 7 := by decide

example : bfEnc (.block [1, 2, 3]) = [0x82, 0x04, 0xd8, 0x18, 0x43, 1, 2, 3] := by decide
example : bfEnc (.requestRange .origin (.specific 1000 [0xAA])) =
    [0x83, 0x00, 0x80, 0x82, 0x19, 0x03, 0xe8, 0x41, 0xAA] := by decide
example : bfDec [0x82, 0x04, 0xd8, 0x18, 0x43, 1, 2] = .eoi ∧
    bfDec [0x82, 0x04, 0xd8, 0x18, 0x5f, 0x41, 1, 0xff] = .fail ∧
    bfDec [0x82, 0x04, 0xc1, 0x41, 7, 9] = .ok (.block [7]) 5 := by decide
/-- a block body longer than a segment is inside the domain -/
example : Proofs.Codec.WFMsg (.block (List.replicate 70000 0)) := by
  show (List.replicate 70000 (0 : UInt8)).length < 18446744073709551616
  rw [List.length_replicate]; decide

example : csEnc (.rollForward ⟨6, none, [0x80]⟩ ⟨.origin, 5⟩) =
    [0x83, 0x02, 0x82, 0x06, 0xd8, 0x18, 0x41, 0x80, 0x82, 0x80, 0x05] := by decide
example : csDec [0x82, 0x04, 0x9f, 0x80, 0x80, 0xff, 0x00] = .ok (.findIntersect [.origin, .origin]) 6 ∧
    csDec [0x82, 0x04, 0x9f, 0x80] = .eoi ∧ csDec [0x82, 0x04, 0x82, 0x80] = .eoi := by decide
example : Proofs.Codec.WFCS (.rollForward ⟨0, some (1, 2), [1, 2, 3]⟩ ⟨.specific 7 [9], 1⟩) := by
  refine ⟨⟨by decide, by decide, fun _ => ⟨1, 2, rfl, by decide, by decide⟩, fun h => absurd rfl h⟩,
    ⟨⟨by decide, by decide⟩, by decide⟩⟩

end PallasVerif.Props.C21
