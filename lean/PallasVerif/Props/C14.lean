import PallasVerif.Model.Memsec
import PallasVerif.Proofs.Memsec
/-!
# C14 — Constant-time byte comparisons agree with ordinary comparisons

Model: `Model/Memsec.lean` (`i32` = `BitVec 32`, arithmetic shift, wrapping `+`/`-`).
Statement: for all equal-length non-empty byte strings `memeq` is `decide (a = b)` and `memcmp`
is the lexicographic `compare` of core Lean (`List.compareLex compare`, the order `<[u8]>::cmp`
implements). Proof shape: the branchless mask is tabulated over the 511 possible byte
differences (`decide +kernel`, a complete finite table), lifted to all byte pairs and ALL
accumulator values by bit algebra (`step_spec`), then the loops are handled by induction on the
strings (no bound on the length).
-/
namespace PallasVerif.Props.C14
open PallasVerif.Memsec PallasVerif.Proofs.Memsec

/-- the mask `((diff - 1) & !diff) >> 8` is all-ones for `diff = 0` and `0` for each of the
    other 510 possible differences of two bytes -/
theorem mask_cases : ∀ k : Fin 511,
    mask (dOf k.val) = if k.val = 255 then BitVec.allOnes 32 else 0 := by
  decide +kernel

/-- the final `((res - 1) >> 8) + (res >> 8) + 1` followed by `cmp(&0)` is the sign of the
    difference, for each possible difference -/
theorem final_cases : ∀ k : Fin 511, cmpZero (finalize (dOf k.val)) = compare k.val 255 := by
  decide +kernel

/-- no `i32` operation of `memcmp` wraps on any value that can occur (so the dev-profile overflow
    checks cannot fire and wrapping `BitVec` arithmetic is the right model) -/
theorem no_overflow_cases : ∀ k : Fin 511,
    (dOf k.val).toInt = (k.val : Int) - 255 ∧
    (dOf k.val - 1).toInt = (dOf k.val).toInt - 1 ∧
    ((dOf k.val - 1).sshiftRight 8 + (dOf k.val).sshiftRight 8).toInt =
      ((dOf k.val - 1).sshiftRight 8).toInt + ((dOf k.val).sshiftRight 8).toInt ∧
    (finalize (dOf k.val)).toInt =
      ((dOf k.val - 1).sshiftRight 8).toInt + ((dOf k.val).sshiftRight 8).toInt + 1 := by
  decide +kernel

theorem mask_diff (a b : UInt8) :
    mask (diff a b) = if a = b then BitVec.allOnes 32 else 0 := by
  rw [diff_eq_dOf]
  have h := mask_cases ⟨_, diff_idx_lt a b⟩
  simp only at h
  rw [h]
  have ha := a.toNat_lt
  have hb := b.toNat_lt
  by_cases e : a = b
  · subst e; simp
  · have : a.toNat ≠ b.toNat := fun h => e (UInt8.toNat_inj.mp h)
    simp [e]; omega

/-- the branchless combination step, for EVERY accumulator value `res : i32` and every pair of
    bytes: an equal pair keeps the accumulator, a differing pair overwrites it -/
theorem step_spec (res : BitVec 32) (a b : UInt8) :
    step res (diff a b) = if a = b then res else diff a b := by
  unfold step
  rw [mask_diff]
  by_cases e : a = b
  · subst e; rw [if_pos rfl, if_pos rfl, BitVec.and_allOnes, diff_self]; simp
  · simp [e]

/-- after the reversed loop the accumulator is the difference at the first differing index -/
theorem acc_eq_firstDiff (a b : List UInt8) : memcmpAcc a b = firstDiff a b := by
  unfold memcmpAcc
  rw [List.foldl_reverse]
  induction a generalizing b with
  | nil => simp [firstDiff]
  | cons x xs ih =>
    cases b with
    | nil => simp [firstDiff]
    | cons y ys =>
      simp only [List.zip_cons_cons, List.foldr_cons, firstDiff]
      rw [step_spec, ih]

/-- sign extraction on a byte difference -/
theorem final_sign (a b : UInt8) : cmpZero (finalize (diff a b)) = compare a b := by
  rw [diff_eq_dOf]
  have h := final_cases ⟨_, diff_idx_lt a b⟩
  simp only at h
  rw [h, compare_u8, compare_shift _ _ a.toNat_lt b.toNat_lt]

theorem sign_firstDiff (a b : List UInt8) (h : a.length = b.length) :
    cmpZero (finalize (firstDiff a b)) = compare a b := by
  induction a generalizing b with
  | nil => cases b with
    | nil => decide
    | cons y ys => simp at h
  | cons x xs ih =>
    cases b with
    | nil => simp at h
    | cons y ys =>
      simp only [List.length_cons, Nat.add_right_cancel_iff] at h
      rw [List.compare_cons_cons]
      by_cases e : x = y
      · subst e
        have : compare x x = .eq := by rw [compare_u8]; exact Nat.compare_eq_eq.mpr rfl
        simp only [firstDiff, if_true, this, Ordering.then]
        exact ih ys h
      · simp only [firstDiff, e, if_false]
        rw [final_sign]
        have : compare x y ≠ .eq := by
          rw [compare_u8]; intro h'
          exact e (UInt8.toNat_inj.mp (Nat.compare_eq_eq.mp h'))
        cases hc : compare x y <;> simp_all [Ordering.then]

/-- **memcmp = lexicographic order**, all equal-length non-empty strings (any length) -/
theorem memcmp_eq_lex (a b : List UInt8) (hlen : a.length = b.length) (hne : a ≠ []) :
    memcmp a b = some (compare a b) := by
  have : a.length ≠ 0 := fun h => hne (List.eq_nil_of_length_eq_zero h)
  simp only [memcmp, this, if_false, acc_eq_firstDiff, sign_firstDiff a b hlen]

/-- **memeq = equality**, all equal-length non-empty strings (any length) -/
theorem memeq_iff (a b : List UInt8) (hlen : a.length = b.length) (hne : a ≠ []) :
    memeq a b = some (decide (a = b)) := by
  have : a.length ≠ 0 := fun h => hne (List.eq_nil_of_length_eq_zero h)
  simp only [memeq, this, if_false, Option.some.injEq]
  rw [Bool.eq_iff_iff]
  simp only [beq_iff_eq, decide_eq_true_eq, memeqAcc, foldl_or_eq_zero, true_and,
    zip_all_eq_iff a b hlen]

/-- the documented panic: length 0 -/
theorem empty_panics (b : List UInt8) : memcmp [] b = none ∧ memeq [] b = none := by
  simp [memcmp, memeq]

/-- every value the accumulator can hold is one of the 511 tabulated differences, hence
    `no_overflow_cases` covers every run -/
theorem acc_in_table (a b : List UInt8) : ∃ k : Fin 511, memcmpAcc a b = dOf k.val := by
  rw [acc_eq_firstDiff]; exact firstDiff_is_dOf a b

/-! non-vacuity: hypotheses are inhabited, both verdict kinds occur, prefix-equal strings -/
example : memcmp [1, 2, 3] [1, 2, 4] = some .lt := by decide
example : memcmp [1, 200, 3] [1, 2, 255] = some .gt := by decide
example : memcmp [0, 0] [0, 0] = some .eq := by decide
example : memeq [1, 2, 3] [1, 2, 3] = some true := by decide
example : memeq [1, 2, 3] [1, 2, 4] = some false := by decide
example : ([1, 2, 3] : List UInt8).length = ([1, 2, 4] : List UInt8).length ∧ ([1, 2, 3] : List UInt8) ≠ [] := by decide

end PallasVerif.Props.C14
