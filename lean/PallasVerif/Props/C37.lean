import PallasVerif.Model.ExUnits
/-!
# C37 — Accepted script transactions respect the execution-unit budget

`Model/ExUnits.lean` transcribes `check_tx_ex_units` (+ `presence_of_plutus_scripts`) of Alonzo,
Babbage and Conway. The property is stated against exact sums in `Nat` (`sumMem`, `sumSteps`),
defined here independently of the accumulating loop of the model.

* `exunits_sound` — for every era, witness-set view, budget and redeemer collection in either
  encoding: verdict `ok` ⇒ `Σ mem ≤ max.mem ∧ Σ steps ≤ max.steps`. For Alonzo the hypothesis
  "the transaction has Plutus scripts" is `presence .alonzo w` (all Plutus scripts of an Alonzo
  transaction are in its witness set); for Babbage and Conway no hypothesis about scripts is needed
  (reference scripts included) because the fixed code sums whenever redeemers are present.
* `exunits_needs_redeemers` — an accepted transaction with Plutus scripts in its witness set has redeemers.
* `exunits_encoding_irrelevant` — Conway list and map forms with the same budgets get the same verdict.
* `exunits_boundary_*` — budget exactly met is accepted, one unit more is rejected (no panic below 2^64).

A sum that leaves `u64` is the `exceeded` verdict (`checked_add`, C33 `fix:`), in every build profile.
-/
namespace PallasVerif.Props.C37
open PallasVerif.ExUnits

/-- exact sums, in unbounded arithmetic -/
def sumMem (bs : List ExU) : Nat := (bs.map (·.mem)).sum
def sumSteps (bs : List ExU) : Nat := (bs.map (·.steps)).sum

theorem accumulate_exact (bs : List ExU) : ∀ (m s m' s' : Nat),
    accumulate m s bs = some (m', s') → m' = m + sumMem bs ∧ s' = s + sumSteps bs := by
  induction bs with
  | nil => intro m s m' s' h; simp [accumulate] at h; simp [sumMem, sumSteps, h.1, h.2]
  | cons x xs ih =>
    intro m s m' s' h
    unfold accumulate at h
    split at h
    · simp at h
    · split at h
      · simp at h
      · have := ih _ _ _ _ h
        simp only [sumMem, sumSteps, List.map_cons, List.sum_cons] at this ⊢
        omega

theorem accumulate_no_overflow (bs : List ExU) : ∀ (m s : Nat),
    m + sumMem bs ≤ U64_MAX → s + sumSteps bs ≤ U64_MAX →
    accumulate m s bs = some (m + sumMem bs, s + sumSteps bs) := by
  induction bs with
  | nil => intro m s _ _; simp [accumulate, sumMem, sumSteps]
  | cons x xs ih =>
    intro m s hm hs
    simp only [sumMem, sumSteps, List.map_cons, List.sum_cons] at hm hs ⊢
    have h1 : ¬ m + x.mem > U64_MAX := by
      have : (List.map (fun x => x.mem) xs).sum ≥ 0 := Nat.zero_le _
      omega
    have h2 : ¬ s + x.steps > U64_MAX := by omega
    unfold accumulate
    rw [if_neg h1, if_neg h2]
    have := ih (m + x.mem) (s + x.steps) (by simp only [sumMem]; omega) (by simp only [sumSteps]; omega)
    rw [this]; simp only [sumMem, sumSteps]; congr 2 <;> omega

theorem sumAndCompare_ok (bs : List ExU) (maxMem maxSteps : Nat)
    (h : sumAndCompare bs maxMem maxSteps = .ok) : sumMem bs ≤ maxMem ∧ sumSteps bs ≤ maxSteps := by
  unfold sumAndCompare at h
  split at h
  · simp at h
  · rename_i m s hacc
    have := accumulate_exact bs 0 0 m s hacc
    split at h
    · simp at h
    · rename_i hc
      simp only [Bool.or_eq_true, decide_eq_true_eq, not_or, Nat.not_lt] at hc
      omega

/-- **The property.** Accept ⇒ exact sums within the per-transaction maximum, whichever era and
    whichever redeemer encoding. -/
theorem exunits_sound (era : Era) (w : Wits) (maxMem maxSteps : Nat) (rs : Redeemers)
    (hacc : checkTxExUnits era w maxMem maxSteps = .ok)
    (hred : w.redeemers = some rs)
    (hplutus : era = .alonzo → presence .alonzo w = true) :
    sumMem rs.budgets ≤ maxMem ∧ sumSteps rs.budgets ≤ maxSteps := by
  cases era with
  | alonzo =>
    simp only [checkTxExUnits, hplutus rfl, if_true, hred] at hacc
    exact sumAndCompare_ok _ _ _ hacc
  | babbage =>
    simp only [checkTxExUnits, hred] at hacc
    exact sumAndCompare_ok _ _ _ hacc
  | conway =>
    simp only [checkTxExUnits, hred] at hacc
    exact sumAndCompare_ok _ _ _ hacc

/-- An accepted transaction with Plutus scripts in its witness set carries redeemers. -/
theorem exunits_needs_redeemers (era : Era) (w : Wits) (maxMem maxSteps : Nat)
    (hacc : checkTxExUnits era w maxMem maxSteps = .ok) (hp : presence era w = true) :
    ∃ rs, w.redeemers = some rs := by
  cases hr : w.redeemers with
  | some rs => exact ⟨rs, rfl⟩
  | none =>
    cases era <;> simp [checkTxExUnits, hp, hr] at hacc

/-- The verdict depends on the budgets only, not on the list/map encoding of the redeemers. -/
theorem exunits_encoding_irrelevant (era : Era) (v1 v2 v3 : Option Nat) (rs : List (Key × ExU))
    (maxMem maxSteps : Nat) :
    checkTxExUnits era ⟨v1, v2, v3, some (.list rs)⟩ maxMem maxSteps =
    checkTxExUnits era ⟨v1, v2, v3, some (.map rs)⟩ maxMem maxSteps := by
  cases era <;> rfl

/-- Budget met exactly (and representable): accepted. -/
theorem exunits_boundary_accept (era : Era) (w : Wits) (rs : Redeemers)
    (hred : w.redeemers = some rs)
    (hm : sumMem rs.budgets ≤ U64_MAX) (hs : sumSteps rs.budgets ≤ U64_MAX) :
    checkTxExUnits era w (sumMem rs.budgets) (sumSteps rs.budgets) = .ok := by
  have hacc := accumulate_no_overflow rs.budgets 0 0 (by omega) (by omega)
  simp only [Nat.zero_add] at hacc
  have hc : sumAndCompare rs.budgets (sumMem rs.budgets) (sumSteps rs.budgets) = .ok := by
    simp [sumAndCompare, hacc]
  cases era with
  | alonzo =>
    simp only [checkTxExUnits, hred]
    split <;> simp [hc]
  | babbage => simp only [checkTxExUnits, hred, hc]
  | conway => simp only [checkTxExUnits, hred, hc]

/-- One unit of memory (or one step) above the budget: never accepted. -/
theorem exunits_boundary_reject (era : Era) (w : Wits) (rs : Redeemers) (maxMem maxSteps : Nat)
    (hred : w.redeemers = some rs) (hplutus : era = .alonzo → presence .alonzo w = true)
    (hover : maxMem < sumMem rs.budgets ∨ maxSteps < sumSteps rs.budgets) :
    checkTxExUnits era w maxMem maxSteps ≠ .ok := by
  intro h
  have := exunits_sound era w maxMem maxSteps rs h hred hplutus
  omega

/-! ## Non-vacuity -/
private def two : List (Key × ExU) := [(⟨0, 0⟩, ⟨700, 900⟩), (⟨1, 0⟩, ⟨300, 100⟩)]
example : checkTxExUnits .conway ⟨none, none, some 1, some (.map two)⟩ 1000 1000 = .ok := by decide
example : checkTxExUnits .conway ⟨none, none, some 1, some (.map two)⟩ 999 1000 = .exceeded := by decide
example : checkTxExUnits .conway ⟨none, none, none, some (.list two)⟩ 1000 999 = .exceeded := by decide
example : checkTxExUnits .babbage ⟨none, some 2, none, some (.list two)⟩ 1 1 = .exceeded := by decide
example : checkTxExUnits .alonzo ⟨some 1, none, none, some (.list two)⟩ 1000 1000 = .ok := by decide
example : checkTxExUnits .alonzo ⟨some 1, none, none, none⟩ 1000 1000 = .redeemerMissing := by decide
example : checkTxExUnits .alonzo ⟨some 0, none, none, some (.list two)⟩ 1 1 = .ok := by decide
example : checkTxExUnits .conway ⟨none, none, some 1,
    some (.list [(⟨0, 0⟩, ⟨U64_MAX, 1⟩), (⟨0, 1⟩, ⟨1, 1⟩)])⟩ U64_MAX U64_MAX = .exceeded := by decide
example : presence .alonzo ⟨some 1, none, none, none⟩ = true := by decide

end PallasVerif.Props.C37
