import PallasVerif.Proofs.P2PErr
/-!
# C27 — Peer promotion keeps peer sets consistent and banned peers away

Model: `Model/P2PInitiator.lean` (the whole `InitiatorBehavior`: promotion, connection, handshake,
keepalive, discovery, blockfetch, chainsync, leios visitors, `handle_io`/`execute`, with the
mini-protocol machines of `Model/P2PProto.lean` computing `violation`). A history is any list of
`Ev` (commands: include / housekeeping / ban / demote / start-sync / …; interface events:
connected / disconnected / recv / sent / error / idle). The hash-map iteration order of each
housekeeping pass and the subset drained from discovery are *part of the event*, so "for all
histories" also means "for all iteration orders".

* `promo_inv` — every history shorter than 2^32 events runs without panic and ends in a state whose
  cold/warm/hot/banned sets are duplicate free, pairwise disjoint and within the configured limits
  (`sets_consistent` spells the invariant out); `promo_inv_of_run` drops the length bound whenever
  the run is defined. The bound is only there because `error_count: u32` is incremented unchecked.
* `banned_never_connected` — once `p` is in `banned_peers`, no later event makes the initiator emit
  `Connect(p)`; `ban_command_bans`, `violation_bans`, `error_threshold_bans` show that the three ways
  of banning named by the property do put the peer into `banned_peers` (for ever: `banned_forever`).

The unrepaired tree violated the property (DESIGN §6 #14, #15, and BanPeer of an untracked peer);
the model follows the four `fix:` commits recorded in `known_findings.d/C27.json`.
A `DemotePeer` command only retags the peer (the sets are not touched; making it move the peer
breaks the pinned test `demote_peer_returns_to_cold`): the sets stay disjoint, which is all C27 asks.
-/
namespace PallasVerif.Props.C27
open PallasVerif.P2P

/-- the invariant in words -/
theorem sets_consistent {s : St} (h : Inv s) :
    (∀ x, ¬ (x ∈ s.cold ∧ x ∈ s.warm)) ∧ (∀ x, ¬ (x ∈ s.cold ∧ x ∈ s.hot)) ∧
    (∀ x, ¬ (x ∈ s.cold ∧ x ∈ s.banned)) ∧ (∀ x, ¬ (x ∈ s.warm ∧ x ∈ s.hot)) ∧
    (∀ x, ¬ (x ∈ s.warm ∧ x ∈ s.banned)) ∧ (∀ x, ¬ (x ∈ s.hot ∧ x ∈ s.banned)) ∧
    s.cold.Nodup ∧ s.warm.Nodup ∧ s.hot.Nodup ∧ s.banned.Nodup ∧
    s.warm.length ≤ s.cfg.maxWarm ∧ s.hot.length ≤ s.cfg.maxHot ∧
    s.cold.length + s.warm.length + s.hot.length ≤ s.cfg.maxPeers :=
  ⟨fun x h' => h.sets.dCW x h'.1 h'.2, fun x h' => h.sets.dCH x h'.1 h'.2,
   fun x h' => h.sets.dCB x h'.1 h'.2, fun x h' => h.sets.dWH x h'.1 h'.2,
   fun x h' => h.sets.dWB x h'.1 h'.2, fun x h' => h.sets.dHB x h'.1 h'.2,
   h.sets.ndC, h.sets.ndW, h.sets.ndH, h.sets.ndB, h.sets.limW, h.sets.limH, h.sets.limT⟩

/-- a defined step had room for the `error_count` increment -/
theorem errRoom_of_step {s f : St} {e : Ev} (h : step s e = some f) : ErrRoom s e := by
  intro p st he hp
  subst he
  unfold step at h
  dsimp only at h
  unfold onErrored at h
  split at h
  · rename_i hn
    rw [show ({ s with out := [] } : St).peers p = s.peers p from rfl, hp] at hn; cases hn
  · rename_i st' hp2
    rw [show ({ s with out := [] } : St).peers p = s.peers p from rfl, hp] at hp2
    cases hp2
    split at h
    · assumption
    · cases h

theorem step_inv {s f : St} {e : Ev} (hi : Inv s) (h : step s e = some f) : Good s.banned f := by
  obtain ⟨f', h', g⟩ := step_good e hi (errRoom_of_step h)
  rw [h] at h'; cases h'; exact g

theorem run_inv : ∀ (h : List Ev) {s f : St}, Inv s → run s h = some f →
    Inv f ∧ ∀ q, q ∈ s.banned → q ∈ f.banned := by
  intro h
  induction h with
  | nil => intro s f hi hr; simp only [run, Option.some.injEq] at hr; subst hr; exact ⟨hi, fun _ hq => hq⟩
  | cons e es ih =>
    intro s f hi hr
    unfold run at hr
    cases h1 : step s e with
    | none => simp only [h1] at hr; cases hr
    | some s1 =>
      simp only [h1] at hr
      have g := step_inv hi h1
      obtain ⟨hi2, hb2⟩ := ih g.inv hr
      exact ⟨hi2, fun q hq => hb2 q (g.bsub q hq)⟩

/-- **Sets consistent, all histories**: no panic and the invariant at the end of every history
    (every prefix of a history is a history, so also after every event of it). -/
theorem promo_inv (cfg : Cfg) (h : List Ev) (hl : h.length < u32Bound) :
    ∃ s, run (St.init cfg) h = some s ∧ Inv s := by
  obtain ⟨f, hr, hi, _⟩ := run_good cfg h (St.init cfg) 0 (init_inv cfg) (init_err cfg) (by omega)
  exact ⟨f, hr, hi⟩

/-- the same without the length bound, for every history on which the model does not panic -/
theorem promo_inv_of_run (cfg : Cfg) (h : List Ev) (s : St) (hr : run (St.init cfg) h = some s) : Inv s :=
  (run_inv h (init_inv cfg) hr).1

/-- bans are for ever -/
theorem banned_forever (cfg : Cfg) (h1 h2 : List Ev) (s1 s2 : St) (p : Nat)
    (hr1 : run (St.init cfg) h1 = some s1) (hr2 : run s1 h2 = some s2) (hb : p ∈ s1.banned) :
    p ∈ s2.banned :=
  (run_inv h2 (promo_inv_of_run cfg h1 s1 hr1) hr2).2 p hb

/-- **Banned peers stay away**: after any history `h1` that left `p` in `banned_peers`, no
    continuation `h2 ++ [e]` makes the initiator emit `Connect(p)`. -/
theorem banned_never_connected (cfg : Cfg) (h1 h2 : List Ev) (e : Ev) (s1 s2 s3 : St) (p : Nat)
    (hr1 : run (St.init cfg) h1 = some s1) (hb : p ∈ s1.banned)
    (hr2 : run s1 h2 = some s2) (hs : step s2 e = some s3) :
    Out.connect p ∉ s3.out := by
  have hi1 := promo_inv_of_run cfg h1 s1 hr1
  obtain ⟨hi2, hb2⟩ := run_inv h2 hi1 hr2
  intro hc
  exact (step_inv hi2 hs).noconn p hc (hb2 p hb)

theorem onTagged_ban_mem (s : St) (p : Nat) (h : (s.peers p).isSome = true ∨ p ∈ s.banned) :
    p ∈ (onTagged s p (fun st => { st with tag := .banned })).banned := by
  unfold onTagged
  split
  · rename_i hn
    rcases h with h | h
    · rw [hn] at h; simp at h
    · exact h
  · dsimp only
    split
    · exact mem_sinsert.mpr (Or.inl rfl)
    · rename_i hc
      by_cases hb : p ∈ s.banned
      · exact hb
      · exact absurd ⟨rfl, hb⟩ hc

/-- an explicit `BanPeer(p)` puts `p` into `banned_peers`, tracked or not -/
theorem ban_command_bans (s s' : St) (p : Nat) (h : step s (.banPeer p) = some s') : p ∈ s'.banned := by
  unfold step at h
  simp only [Option.some.injEq] at h
  subst h
  by_cases ht : (s.peers p).isSome = true
  · simp only [ht, if_true]
    exact onTagged_ban_mem _ p (Or.inl ht)
  · simp only [ht]
    exact onTagged_ban_mem _ p (Or.inr (mem_sinsert.mpr (Or.inl rfl)))

/-- a peer flagged with a protocol violation is banned by the next housekeeping / inbound pass -/
theorem violation_bans (s s' : St) (p : Nat) (st st' : Peer) (hv : st.violation = true)
    (h : categorize s p st = some (s', st')) : p ∈ s'.banned ∧ st'.tag = .banned ∨ p ∈ s.banned := by
  by_cases hb : p ∈ s.banned
  · exact Or.inr hb
  · left
    unfold categorize at h
    rw [if_pos ⟨hv, hb⟩] at h
    simp only [banPeer, Option.some.injEq, Prod.mk.injEq] at h
    obtain ⟨rfl, rfl⟩ := h
    exact ⟨mem_sinsert.mpr (Or.inl rfl), rfl⟩

/-- … and so is a peer whose error count exceeds the configured threshold -/
theorem error_threshold_bans (s s' : St) (p : Nat) (st st' : Peer) (he : st.errorCount > s.cfg.maxErr)
    (h : categorize s p st = some (s', st')) : p ∈ s'.banned ∧ st'.tag = .banned ∨ p ∈ s.banned := by
  by_cases hb : p ∈ s.banned
  · exact Or.inr hb
  · left
    unfold categorize at h
    by_cases hv : st.violation = true
    · rw [if_pos ⟨hv, hb⟩] at h
      simp only [banPeer, Option.some.injEq, Prod.mk.injEq] at h
      obtain ⟨rfl, rfl⟩ := h
      exact ⟨mem_sinsert.mpr (Or.inl rfl), rfl⟩
    · rw [if_neg (fun c => hv c.1), if_pos ⟨he, hb⟩] at h
      simp only [banPeer, Option.some.injEq, Prod.mk.injEq] at h
      obtain ⟨rfl, rfl⟩ := h
      exact ⟨mem_sinsert.mpr (Or.inl rfl), rfl⟩

/-! ## Non-vacuity: concrete histories reach every set and emit `Connect` -/

def cfg0 : Cfg := { maxPeers := 3, maxWarm := 2, maxHot := 1, maxErr := 1 }

/-- include 1, housekeeping, connect, handshake, housekeeping: peer 1 becomes hot -/
def hHot : List Ev :=
  [.includePeer 1, .housekeeping [1] [], .connected 1, .sent 1 (.hs (.propose [])),
   .recv 1 [.hs (.accept 13 1)], .housekeeping [1] []]

example : (run (St.init cfg0) hHot).map (fun s => (s.cold, s.warm, s.hot, s.banned)) = some ([], [], [1], []) := by
  decide

example : (run (St.init cfg0) [.includePeer 1, .housekeeping [1] []]).map (fun s => s.out) =
    some [Out.connect 1] := by decide

/-- the §6 #15 history on the repaired model: the commanded ban sticks, no `Connect(1)` at the end -/
def hBan : List Ev :=
  [.includePeer 1, .housekeeping [1] [], .connected 1, .banPeer 1, .housekeeping [1] [], .disconnected 1,
   .includePeer 1, .housekeeping [1] []]

example : (run (St.init cfg0) hBan).map (fun s => (s.banned, s.out)) = some ([1], []) := by decide

/-- a violation (unsolicited keep-alive response) bans at once; limits bind: 3 peers, 2 warm slots -/
example : (run (St.init cfg0) [.includePeer 1, .includePeer 2, .includePeer 3, .housekeeping [3, 1, 2] [],
      .recv 3 [.ka (.response 7)]]).map (fun s => (s.cold, s.warm, s.banned)) = some ([2], [1], [3]) := by
  decide

end PallasVerif.Props.C27
