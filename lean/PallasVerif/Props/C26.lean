import PallasVerif.Model.Rollback
/-!
# C26 — Rollback buffer behaves like a chain-suffix model

`Model/Rollback.lean` transcribes the deque operations (index based: `position`,
`truncate(x+1)`, `checked_sub`, `drain(0..ready)`). Here an independent *specification*
is given without indices (`takeWhile`/`dropWhile`-style, on the chain suffix as a list) and the model is
shown to refine it for every operation, hence for every history.
-/
namespace PallasVerif.Props.C26
open PallasVerif.Rollback

set_option linter.unusedSectionVars false
variable {α : Type} [DecidableEq α]

/-! ## Abstract specification (no indices) -/

/-- keep everything up to and including the first occurrence of `p` -/
def specUpTo (p : α) : List α → List α
  | [] => []
  | x :: xs => if x = p then [x] else x :: specUpTo p xs

def specBack (b : List α) (p : α) : Effect × List α :=
  if p ∈ b then (.handled, specUpTo p b) else (.outOfScope, [])

/-- the `n` newest points stay, the rest (oldest first) is returned -/
def specPop (b : List α) (d : Nat) : List α × List α :=
  (b.take (b.length - d), b.drop (b.length - d))

def specStep (b : List α) : Op α → List α × Out α
  | .fwd p => (b ++ [p], .unit)
  | .back p => let r := specBack b p; (r.2, .effect r.1)
  | .pop d => let r := specPop b d; (r.2, .popped r.1)

/-! ## Refinement lemmas -/

theorem findIdx?_none_of_not_mem (b : List α) (p : α) (h : p ∉ b) :
    b.findIdx? (· = p) = none := by
  induction b with
  | nil => rfl
  | cons x xs ih =>
    simp only [List.mem_cons, not_or] at h
    have hx : ¬ x = p := fun e => h.1 e.symm
    simp [List.findIdx?_cons, hx, ih h.2]

theorem take_findIdx (b : List α) (p : α) (i : Nat)
    (h : b.findIdx? (· = p) = some i) : b.take (i + 1) = specUpTo p b := by
  induction b generalizing i with
  | nil => simp at h
  | cons x xs ih =>
    by_cases hx : x = p
    · simp [List.findIdx?_cons, hx] at h
      subst h; simp [specUpTo, hx]
    · simp [List.findIdx?_cons, hx] at h
      obtain ⟨j, hj, rfl⟩ := h
      simp [specUpTo, hx, ih j hj]

theorem findIdx?_some_of_mem (b : List α) (p : α) (h : p ∈ b) :
    ∃ i, b.findIdx? (· = p) = some i := by
  cases hf : b.findIdx? (· = p) with
  | some i => exact ⟨i, rfl⟩
  | none =>
    rw [List.findIdx?_eq_none_iff] at hf
    have := hf p h
    simp at this

/-- roll-back to a buffered point keeps everything up to (and including) it -/
theorem rollback_found (b : Buf α) (p : α) (h : p ∈ b) :
    rollBack b p = (.handled, specUpTo p b) := by
  obtain ⟨i, hi⟩ := findIdx?_some_of_mem b p h
  simp [rollBack, position, hi, take_findIdx b p i hi]

/-- roll-back to an unknown point empties the buffer and reports out-of-scope -/
theorem rollback_missing (b : Buf α) (p : α) (h : p ∉ b) :
    rollBack b p = (.outOfScope, []) := by
  simp [rollBack, position, findIdx?_none_of_not_mem b p h]

theorem rollBack_eq_spec (b : Buf α) (p : α) : rollBack b p = specBack b p := by
  unfold specBack
  by_cases h : p ∈ b
  · simp [h, rollback_found b p h]
  · simp [h, rollback_missing b p h]

/-- popping returns the oldest points beyond the requested depth, in order -/
theorem pop_spec (b : Buf α) (d : Nat) : popWithDepth b d = specPop b d := by
  unfold popWithDepth specPop
  by_cases h : d ≤ b.length
  · simp [h]
  · have : b.length - d = 0 := by omega
    simp [h, this]

theorem pop_partition (b : Buf α) (d : Nat) :
    (popWithDepth b d).1 ++ (popWithDepth b d).2 = b ∧
    (popWithDepth b d).2.length = min d b.length := by
  rw [pop_spec]; simp [specPop]; omega

theorem step_eq_spec (b : Buf α) (op : Op α) :
    (step b op).1 = (specStep b op).1 ∧
    (match (step b op).2, (specStep b op).2 with
      | .unit, .unit => True
      | .effect e, .effect e' => e = e'
      | .popped ps, .popped ps' => ps = ps'
      | _, _ => False) := by
  cases op with
  | fwd p => simp [step, specStep, rollForward]
  | back p => simp [step, specStep, rollBack_eq_spec]
  | pop d => simp [step, specStep, pop_spec]

/-! ## The property: every history -/

def specRun (b : List α) (ops : List (Op α)) : List α :=
  ops.foldl (fun b op => (specStep b op).1) b

/-- For every operation history the buffer holds exactly the points the list
    specification holds. -/
theorem buffer_refines_spec (b : Buf α) (ops : List (Op α)) : run b ops = specRun b ops := by
  induction ops generalizing b with
  | nil => rfl
  | cons op ops ih =>
    simp only [run, specRun, List.foldl_cons] at *
    rw [(step_eq_spec b op).1]; exact ih _

/-- what "up to it" means: the kept part is a prefix of the buffer that ends in `p`
    and contains `p` nowhere else -/
theorem specUpTo_prefix (p : α) (b : List α) (h : p ∈ b) :
    ∃ rest, b = specUpTo p b ++ rest ∧ (specUpTo p b).getLast? = some p ∧
      p ∉ (specUpTo p b).dropLast := by
  induction b with
  | nil => simp at h
  | cons x xs ih =>
    by_cases hx : x = p
    · exact ⟨xs, by simp [specUpTo, hx]⟩
    · have hm : p ∈ xs := by
        rcases List.mem_cons.mp h with e | e
        · exact absurd e.symm hx
        · exact e
      obtain ⟨rest, h1, h2, h3⟩ := ih hm
      have hne : specUpTo p xs ≠ [] := by
        intro e; rw [e] at h2; simp at h2
      refine ⟨rest, ?_, ?_, ?_⟩
      · simp [specUpTo, hx]; exact h1
      · simp [specUpTo, hx]
        cases hs : specUpTo p xs with
        | nil => exact absurd hs hne
        | cons y ys => rw [hs] at h2; simpa [List.getLast?_cons_cons] using h2
      · simp only [specUpTo, hx, if_false]
        cases hs : specUpTo p xs with
        | nil => exact absurd hs hne
        | cons y ys =>
          rw [hs] at h3
          simp only [List.dropLast_cons_cons, List.mem_cons, not_or]
          exact ⟨fun e => hx e.symm, h3⟩

/-! ## History-level chain view: confirmed output is never retracted

`runOut` also collects what `pop_with_depth` returned over a whole history. The followed
chain is `popped ++ buffer`; the theorems below say that roll-forward extends it, popping
leaves it unchanged (it only moves the confirmed/volatile boundary), and a roll-back — found
or not — never touches what has already been popped. -/

/-- run a history, collecting every popped point in order -/
def runOut (b : Buf α) (acc : List α) : List (Op α) → List α × Buf α
  | [] => (acc, b)
  | .fwd p :: ops => runOut (rollForward b p) acc ops
  | .back p :: ops => runOut (rollBack b p).2 acc ops
  | .pop d :: ops => runOut (popWithDepth b d).2 (acc ++ (popWithDepth b d).1) ops

theorem runOut_buf (b : Buf α) (acc : List α) (ops : List (Op α)) :
    (runOut b acc ops).2 = run b ops := by
  induction ops generalizing b acc with
  | nil => rfl
  | cons op ops ih =>
    cases op <;> simp only [runOut, run, List.foldl_cons, step] <;> exact ih _ _

/-- popped output only ever grows: what was confirmed before a history is a prefix of what
    is confirmed after it, whatever roll-backs the history contains -/
theorem popped_monotone (b : Buf α) (acc : List α) (ops : List (Op α)) :
    ∃ more, (runOut b acc ops).1 = acc ++ more := by
  induction ops generalizing b acc with
  | nil => exact ⟨[], by simp [runOut]⟩
  | cons op ops ih =>
    cases op with
    | fwd p => exact ih _ _
    | back p => exact ih _ _
    | pop d =>
      obtain ⟨m, hm⟩ := ih (popWithDepth b d).2 (acc ++ (popWithDepth b d).1)
      exact ⟨(popWithDepth b d).1 ++ m, by simp only [runOut, hm, List.append_assoc]⟩

/-- a roll-back keeps a prefix of the buffer (nothing is invented or reordered) -/
theorem rollBack_prefix (b : Buf α) (p : α) : ∃ rest, b = (rollBack b p).2 ++ rest := by
  by_cases h : p ∈ b
  · obtain ⟨rest, h1, _⟩ := specUpTo_prefix p b h
    exact ⟨rest, by rw [rollback_found b p h]; exact h1⟩
  · exact ⟨b, by rw [rollback_missing b p h]; rfl⟩

/-- without roll-backs the followed chain `popped ++ buffer` is exactly the start chain
    extended by the forwarded points, in order: nothing is lost, duplicated or reordered,
    for any interleaving of `roll_forward` and `pop_with_depth` at any depths -/
def forwarded : List (Op α) → List α
  | [] => []
  | .fwd p :: ops => p :: forwarded ops
  | _ :: ops => forwarded ops

def noBack : List (Op α) → Bool
  | [] => true
  | .back _ :: _ => false
  | _ :: ops => noBack ops

theorem chain_conserved (b : Buf α) (acc : List α) (ops : List (Op α)) (h : noBack ops = true) :
    (runOut b acc ops).1 ++ (runOut b acc ops).2 = acc ++ b ++ forwarded ops := by
  induction ops generalizing b acc with
  | nil => simp [runOut, forwarded]
  | cons op ops ih =>
    cases op with
    | fwd p =>
      simp only [runOut, forwarded]
      rw [ih _ _ (by simpa [noBack] using h)]; simp [rollForward]
    | back p => simp [noBack] at h
    | pop d =>
      simp only [runOut, forwarded]
      rw [ih _ _ (by simpa [noBack] using h)]
      have := (pop_partition b d).1
      rw [List.append_assoc acc, this]

/-- in general (roll-backs included) the followed chain after a history is the confirmed
    part, which extends what was confirmed before, followed by the buffer -/
theorem chain_after_history (b : Buf α) (acc : List α) (ops : List (Op α)) :
    ∃ more, (runOut b acc ops).1 ++ (runOut b acc ops).2 = acc ++ more ++ run b ops := by
  obtain ⟨m, hm⟩ := popped_monotone b acc ops
  exact ⟨m, by rw [hm, runOut_buf]⟩

/-- after a handled roll-back the tip is the requested point -/
theorem latest_after_rollback (b : Buf α) (p : α) (h : p ∈ b) :
    latest (rollBack b p).2 = some p := by
  obtain ⟨_, _, h2, _⟩ := specUpTo_prefix p b h
  rw [rollback_found b p h]; exact h2

/-- rolling back twice to the same buffered point is the same as once -/
theorem rollBack_idem (b : Buf α) (p : α) (h : p ∈ b) :
    rollBack (rollBack b p).2 p = rollBack b p := by
  have hm : ∀ l : List α, p ∈ l → p ∈ specUpTo p l ∧ specUpTo p (specUpTo p l) = specUpTo p l := by
    intro l hl
    induction l with
    | nil => simp at hl
    | cons x xs ih =>
      by_cases hx : x = p
      · simp [specUpTo, hx]
      · have : p ∈ xs := by
          rcases List.mem_cons.mp hl with e | e
          · exact absurd e.symm hx
          · exact e
        obtain ⟨i1, i2⟩ := ih this
        exact ⟨by simp [specUpTo, hx, i1], by simp [specUpTo, hx, i2]⟩
  rw [rollback_found b p h]
  obtain ⟨m1, m2⟩ := hm b h
  rw [rollback_found _ p m1, m2]

theorem latest_after_fwd (b : Buf α) (p : α) : latest (rollForward b p) = some p := by
  simp [latest, rollForward]

/-! ## Non-vacuity -/
example : runOut [1, 2] [] [.fwd 3, .pop 1, .back 3, .fwd 4, .pop 0] = ([1, 2, 3, 4], ([] : List Nat)) := by
  decide
example : noBack ([.fwd 3, .pop 1, .fwd 4] : List (Op Nat)) = true := by decide
example : rollBack [1, 2, 3, 2, 4] 2 = (.handled, [1, 2]) := by decide
example : rollBack [1, 2, 3] 7 = (.outOfScope, ([] : List Nat)) := by decide
example : popWithDepth [1, 2, 3, 4, 5] 2 = ([1, 2, 3], [4, 5]) := by decide
example : popWithDepth [1, 2] 5 = ([], [1, 2]) := by decide

end PallasVerif.Props.C26
