import PallasVerif.Model.Rollback
/-!
# C26 — Rollback buffer behaves like a chain-suffix model

`Model/Rollback.lean` transcribes the deque operations (index based: `position`,
`truncate(x+1)`, `checked_sub`, `drain(0..ready)`). Here an independent *specification*
is given without indices (`takeWhile`/`dropWhile`-style, on the chain suffix as a list) and the model is
shown to refine it for every operation, hence for every history.
-/
namespace PallasVerif.Props.C26
open PallasVerif.Rollback

set_option linter.unusedSectionVars false
variable {α : Type} [DecidableEq α]

/-! ## Abstract specification (no indices) -/

/-- keep everything up to and including the first occurrence of `p` -/
def specUpTo (p : α) : List α → List α
  | [] => []
  | x :: xs => if x = p then [x] else x :: specUpTo p xs

def specBack (b : List α) (p : α) : Effect × List α :=
  if p ∈ b then (.handled, specUpTo p b) else (.outOfScope, [])

/-- the `n` newest points stay, the rest (oldest first) is returned -/
def specPop (b : List α) (d : Nat) : List α × List α :=
  (b.take (b.length - d), b.drop (b.length - d))

def specStep (b : List α) : Op α → List α × Out α
  | .fwd p => (b ++ [p], .unit)
  | .back p => let r := specBack b p; (r.2, .effect r.1)
  | .pop d => let r := specPop b d; (r.2, .popped r.1)

/-! ## Refinement lemmas -/

theorem findIdx?_none_of_not_mem (b : List α) (p : α) (h : p ∉ b) :
    b.findIdx? (· = p) = none := by
  induction b with
  | nil => rfl
  | cons x xs ih =>
    simp only [List.mem_cons, not_or] at h
    have hx : ¬ x = p := fun e => h.1 e.symm
    simp [List.findIdx?_cons, hx, ih h.2]

theorem take_findIdx (b : List α) (p : α) (i : Nat)
    (h : b.findIdx? (· = p) = some i) : b.take (i + 1) = specUpTo p b := by
  induction b generalizing i with
  | nil => simp at h
  | cons x xs ih =>
    by_cases hx : x = p
    · simp [List.findIdx?_cons, hx] at h
      subst h; simp [specUpTo, hx]
    · simp [List.findIdx?_cons, hx] at h
      obtain ⟨j, hj, rfl⟩ := h
      simp [specUpTo, hx, ih j hj]

theorem findIdx?_some_of_mem (b : List α) (p : α) (h : p ∈ b) :
    ∃ i, b.findIdx? (· = p) = some i := by
  cases hf : b.findIdx? (· = p) with
  | some i => exact ⟨i, rfl⟩
  | none =>
    rw [List.findIdx?_eq_none_iff] at hf
    have := hf p h
    simp at this

/-- roll-back to a buffered point keeps everything up to (and including) it -/
theorem rollback_found (b : Buf α) (p : α) (h : p ∈ b) :
    rollBack b p = (.handled, specUpTo p b) := by
  obtain ⟨i, hi⟩ := findIdx?_some_of_mem b p h
  simp [rollBack, position, hi, take_findIdx b p i hi]

/-- roll-back to an unknown point empties the buffer and reports out-of-scope -/
theorem rollback_missing (b : Buf α) (p : α) (h : p ∉ b) :
    rollBack b p = (.outOfScope, []) := by
  simp [rollBack, position, findIdx?_none_of_not_mem b p h]

theorem rollBack_eq_spec (b : Buf α) (p : α) : rollBack b p = specBack b p := by
  unfold specBack
  by_cases h : p ∈ b
  · simp [h, rollback_found b p h]
  · simp [h, rollback_missing b p h]

/-- popping returns the oldest points beyond the requested depth, in order -/
theorem pop_spec (b : Buf α) (d : Nat) : popWithDepth b d = specPop b d := by
  unfold popWithDepth specPop
  by_cases h : d ≤ b.length
  · simp [h]
  · have : b.length - d = 0 := by omega
    simp [h, this]

theorem pop_partition (b : Buf α) (d : Nat) :
    (popWithDepth b d).1 ++ (popWithDepth b d).2 = b ∧
    (popWithDepth b d).2.length = min d b.length := by
  rw [pop_spec]; simp [specPop]; omega

theorem step_eq_spec (b : Buf α) (op : Op α) :
    (step b op).1 = (specStep b op).1 ∧
    (match (step b op).2, (specStep b op).2 with
      | .unit, .unit => True
      | .effect e, .effect e' => e = e'
      | .popped ps, .popped ps' => ps = ps'
      | _, _ => False) := by
  cases op with
  | fwd p => simp [step, specStep, rollForward]
  | back p => simp [step, specStep, rollBack_eq_spec]
  | pop d => simp [step, specStep, pop_spec]

/-! ## The property: every history -/

def specRun (b : List α) (ops : List (Op α)) : List α :=
  ops.foldl (fun b op => (specStep b op).1) b

/-- For every operation history the buffer holds exactly the points the list
    specification holds. -/
theorem buffer_refines_spec (b : Buf α) (ops : List (Op α)) : run b ops = specRun b ops := by
  induction ops generalizing b with
  | nil => rfl
  | cons op ops ih =>
    simp only [run, specRun, List.foldl_cons] at *
    rw [(step_eq_spec b op).1]; exact ih _

/-- what "up to it" means: the kept part is a prefix of the buffer that ends in `p`
    and contains `p` nowhere else -/
theorem specUpTo_prefix (p : α) (b : List α) (h : p ∈ b) :
    ∃ rest, b = specUpTo p b ++ rest ∧ (specUpTo p b).getLast? = some p ∧
      p ∉ (specUpTo p b).dropLast := by
  induction b with
  | nil => simp at h
  | cons x xs ih =>
    by_cases hx : x = p
    · exact ⟨xs, by simp [specUpTo, hx]⟩
    · have hm : p ∈ xs := by
        rcases List.mem_cons.mp h with e | e
        · exact absurd e.symm hx
        · exact e
      obtain ⟨rest, h1, h2, h3⟩ := ih hm
      have hne : specUpTo p xs ≠ [] := by
        intro e; rw [e] at h2; simp at h2
      refine ⟨rest, ?_, ?_, ?_⟩
      · simp [specUpTo, hx]; exact h1
      · simp [specUpTo, hx]
        cases hs : specUpTo p xs with
        | nil => exact absurd hs hne
        | cons y ys => rw [hs] at h2; simpa [List.getLast?_cons_cons] using h2
      · simp only [specUpTo, hx, if_false]
        cases hs : specUpTo p xs with
        | nil => exact absurd hs hne
        | cons y ys =>
          rw [hs] at h3
          simp only [List.dropLast_cons_cons, List.mem_cons, not_or]
          exact ⟨fun e => hx e.symm, h3⟩

/-! ## Non-vacuity -/
example : rollBack [1, 2, 3, 2, 4] 2 = (.handled, [1, 2]) := by decide
example : rollBack [1, 2, 3] 7 = (.outOfScope, ([] : List Nat)) := by decide
example : popWithDepth [1, 2, 3, 4, 5] 2 = ([1, 2, 3], [4, 5]) := by decide
example : popWithDepth [1, 2] 5 = ([], [1, 2]) := by decide

end PallasVerif.Props.C26
