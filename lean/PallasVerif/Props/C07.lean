import PallasVerif.Model.PlutusData
import PallasVerif.Proofs.PlutusDataOrd
import PallasVerif.Proofs.PlutusDataCodec
import PallasVerif.Proofs.PlutusDataDec
/-!
# C07 — PlutusData round-trips; its comparison is a total order

Model: `Model/PlutusData.lean` (transcription of `pallas-primitives/src/plutus_data.rs`).
`cmp?` is the faithful comparison (`none` = the Rust panics in `Constr::constr_index`).

Quantifier. All theorems hold for **every** value of any depth and width with valid constructor tags
(`wfTag`: every `Constr` node has a tag in 121..127 ∪ 1280..1400, or tag 102 with `any_constructor`
present). On any other tag `constr_index` panics, so `cmp`/`==` is not a function there at all
(`cmp_panics_on_invalid_tag`, `cmp_panics_on_missing_any_constructor`); such values are constructible
through the public fields but are never produced by the decoder and lie outside the property's
quantifier (DESIGN §6 #7). The codec theorems additionally assume `fits` — the value inhabits the
Rust types (`u64` tags / lengths, minicbor's 65-bit `Int`) — which is no restriction on Rust values.

What "equal" means: `cmp? a b = some .eq`. It is coarser than structural equality: it ignores the
definite/indefinite flags (`eq_ignores_def_indef`), `any_constructor` when the tag is not 102, the
tag-102 spelling of a constructor index (`Constr 102 (some 0)` = `Constr 121`), and the representation
of integers (`Int 14` = `BigUInt [0, 14]`; `BigNInt bs` is ranked as `−bs`, not CBOR's `−1−bs`; the
pinned unit tests fix this reading). "Antisymmetric up to equality" is `cmp_swap`.
-/
namespace PallasVerif.Props.C07
open PallasVerif.Cbor PallasVerif.PlutusData

/-! ## total order -/

/-- on valid tags the comparison never panics -/
theorem cmp_total (a b : PData) (ha : wfTag a = true) (hb : wfTag b = true) :
    ∃ o, cmp? a b = some o := ⟨_, cmp?_eq_cmp a b ha hb⟩

/-- reflexive -/
theorem cmp_refl (a : PData) (ha : wfTag a = true) : cmp? a a = some .eq := by
  rw [cmp?_eq_cmp a a ha ha, laws_cmp.refl]

/-- total and antisymmetric up to equality: swapping the arguments swaps the outcome
    (`lt ↔ gt`, `eq ↔ eq`) -/
theorem cmp_swap (a b : PData) (ha : wfTag a = true) (hb : wfTag b = true) :
    cmp? a b = (cmp? b a).map Ordering.swap := by
  rw [cmp?_eq_cmp a b ha hb, cmp?_eq_cmp b a hb ha, laws_cmp.swap a b]; rfl

/-- transitive, all outcomes: `<` then `<`, `=` then `=`, `>` then `>` -/
theorem cmp_trans (a b c : PData) (ha : wfTag a = true) (hb : wfTag b = true) (hc : wfTag c = true)
    (o : Ordering) (h1 : cmp? a b = some o) (h2 : cmp? b c = some o) : cmp? a c = some o := by
  rw [cmp?_eq_cmp a b ha hb] at h1
  rw [cmp?_eq_cmp b c hb hc] at h2
  rw [cmp?_eq_cmp a c ha hc]
  simp only [Option.some.injEq] at h1 h2 ⊢
  cases o
  · exact laws_cmp.lt_trans a b c h1 h2
  · exact laws_cmp.eq_trans a b c h1 h2
  · exact laws_cmp.gt_trans a b c h1 h2

/-- `≤` is transitive (mixed `<` / `=` chains) -/
theorem cmp_le_trans (a b c : PData) (ha : wfTag a = true) (hb : wfTag b = true) (hc : wfTag c = true)
    (h1 : cmp? a b ≠ some .gt) (h2 : cmp? b c ≠ some .gt) : cmp? a c ≠ some .gt := by
  rw [cmp?_eq_cmp a b ha hb] at h1
  rw [cmp?_eq_cmp b c hb hc] at h2
  rw [cmp?_eq_cmp a c ha hc]
  simp only [ne_eq, Option.some.injEq] at h1 h2 ⊢
  exact laws_cmp.le_trans a b c h1 h2

/-- values that compare equal are indistinguishable by the comparison -/
theorem cmp_eq_congr (a b c : PData) (ha : wfTag a = true) (hb : wfTag b = true) (hc : wfTag c = true)
    (h : cmp? a b = some .eq) : cmp? a c = cmp? b c ∧ cmp? c a = cmp? c b := by
  rw [cmp?_eq_cmp a b ha hb] at h
  simp only [Option.some.injEq] at h
  rw [cmp?_eq_cmp a c ha hc, cmp?_eq_cmp b c hb hc, cmp?_eq_cmp c a hc ha, cmp?_eq_cmp c b hc hb,
    laws_cmp.eqc a b c h, laws_cmp.eqc_right c a b h]
  exact ⟨rfl, rfl⟩

/-- `BigInt::cmp` is numeric comparison of `rank` (sign flag applied to the stripped magnitude), for
    all three representations and any number of leading zero bytes -/
theorem bigint_cmp_is_compare_rank (a b : BigInt) : cmpBig a b = compare a.rank b.rank :=
  cmpBig_eq_compare_rank a b

/-- the rank of an `Int` of the Rust type is the integer itself -/
theorem rank_int (i : Int) (h : (BigInt.int i).fits = true) : (BigInt.int i).rank = i := by
  simp only [BigInt.fits, Bool.and_eq_true, decide_eq_true_eq] at h
  have hb : (u64Bound : Int) = 18446744073709551616 := by simp [u64Bound]
  rw [hb] at h
  simp only [BigInt.rank, BigInt.mag, BigInt.toBytes, ofBe_stripZeros, ofBe_be]
  have : i.natAbs % 256 ^ 16 = i.natAbs := Nat.mod_eq_of_lt (by
    have : (256:Nat) ^ 16 = 340282366920938463463374607431768211456 := by decide
    omega)
  rw [this]
  by_cases hi : i < 0 <;> simp [hi] <;> omega

/-- the outcome does not depend on any definite/indefinite flag, at any depth -/
theorem cmp_ignores_def_indef (a b : PData) (ha : wfTag a = true) (hb : wfTag b = true) :
    cmp? (eraseDef a) (eraseDef b) = cmp? a b := by
  rw [cmp?_eq_cmp a b ha hb, cmp?_eq_cmp _ _ (by rw [wfTag_eraseDef]; exact ha) (by rw [wfTag_eraseDef]; exact hb),
    cmp_eraseDef]

/-- equality ignores the definite/indefinite container encodings -/
theorem eq_ignores_def_indef (a b : PData) (ha : wfTag a = true) (hb : wfTag b = true)
    (h : eraseDef a = eraseDef b) : cmp? a b = some .eq := by
  rw [← cmp_ignores_def_indef a b ha hb, h]
  exact cmp_refl _ (by rw [wfTag_eraseDef]; exact hb)

/-! ## the panics that delimit the quantifier -/

theorem cmp_panics_on_invalid_tag (t : Nat) (a : Option Nat) (d : Bool) (fs : List PData)
    (h1 : ¬ (121 ≤ t ∧ t ≤ 127)) (h2 : ¬ (1280 ≤ t ∧ t ≤ 1400)) (h3 : t ≠ 102) :
    cmp? (.constr t a d fs) (.constr t a d fs) = none ∧
    (∀ t' a' d' fs', cmp? (.constr t a d fs) (.constr t' a' d' fs') = none) := by
  have : constrIndex t a = none := by simp [constrIndex, h1, h2, h3]
  constructor <;> intros <;> simp [cmp?, this]

theorem cmp_panics_on_missing_any_constructor (d : Bool) (fs : List PData) :
    cmp? (.constr 102 none d fs) (.constr 102 none d fs) = none := by
  simp [cmp?, constrIndex]

/-! ## codec -/

/-- re-assembling the 64-byte chunks gives the byte string back -/
theorem chunks_join (bs : Bytes) : (chunks 64 bs).flatten = bs :=
  PlutusData.chunks_join 64 (by decide) bs

/-- chunk shape of the Haskell encoder: 64-byte blocks, then at most one shorter non-empty block -/
theorem chunks_shape (bs : Bytes) : fullThenRest 64 (chunks 64 bs) = true :=
  chunks_full 64 (by decide) bs

/-- byte strings of at most 64 bytes are one definite string; longer ones are an indefinite string of
    the `chunks 64` blocks, each with a minimal head -/
theorem bytes_encoding (bs : Bytes) :
    encode (.bytes bs) =
      if bs.length ≤ 64 then (minHead 2 bs.length).encode ++ bs
      else 0x5f :: (encodeChunks ((chunks 64 bs).map fun c => (minHead 2 c.length, c)) ++ [0xff]) := by
  unfold encode
  simp only [toItem, bbItem]
  split <;> simp [mkBytes, Item.encode, initByte]

/-- the encoding is exactly one well-formed CBOR data item -/
theorem encode_single_item (d : PData) (h : fits d = true) : isSingleItem (encode d) = true :=
  isSingleItem_encode _ (toItem_wf d h)

/-- **round trip**: decoding the encoding yields a value that compares equal to the original and
    re-encodes to the same bytes (trailing input is ignored, as `minicbor::decode` does) -/
theorem pdata_roundtrip (d : PData) (r : Bytes) (h : fits d = true) (hw : wfTag d = true) :
    ∃ d', decode (encode d ++ r) = some d' ∧ cmp? d' d = some .eq ∧ encode d' = encode d := by
  refine ⟨normAny d, decode_encode d r h hw, ?_, ?_⟩
  · rw [cmp?_eq_cmp _ _ (wfTag_normAny d hw) hw, cmp_normAny_left, laws_cmp.refl]
  · unfold encode; rw [toItem_normAny d hw]

/-- `any_constructor` is `None` on every constructor whose tag is not 102 (what decoding produces) -/
def anyCanonical (d : PData) : Prop := normAny d = d

/-- **round trip, structural**: on values in the decoder's normal form the result is the very same
    value, flags and integer representations included -/
theorem pdata_roundtrip_exact (d : PData) (h : fits d = true) (hw : wfTag d = true) (hc : anyCanonical d) :
    decode (encode d) = some d := by
  have := decode_encode d [] h hw
  rw [List.append_nil, hc] at this
  exact this

/-- decoded values are in normal form, so one round trip reaches the fixed point -/
theorem decode_encode_canonical (d : PData) : anyCanonical (normAny d) := normAny_idem_of_canon d

/-! ## the byte-level decoder (transcription of the Rust `Decode` impls over minicbor's primitives) -/

/-- the byte-level decoder refines the tree decoder: on **any** valid encoding (canonical or not —
    any head widths, any chunking of byte strings and bignums, definite or indefinite containers)
    that `ofItem` maps to `d`, followed by arbitrary bytes, it returns `d` and stops after the item -/
theorem decoder_refines_tree (i : Item) (d : PData) (r : Bytes) (hw : i.wf = true) (ho : ofItem i = some d) :
    Dec.decodeBytes (i.encode ++ r) = some (d, r) := Dec.decodeBytes_refines i d r hw ho

/-- **round trip through the byte-level decoder**: the result compares equal to the original,
    re-encodes to the same bytes, and exactly the encoding is consumed -/
theorem pdata_roundtrip_bytes (d : PData) (r : Bytes) (h : fits d = true) (hw : wfTag d = true) :
    ∃ d', Dec.decodeBytes (encode d ++ r) = some (d', r) ∧ cmp? d' d = some .eq ∧ encode d' = encode d := by
  refine ⟨normAny d, Dec.decodeBytes_refines _ _ r (toItem_wf d h) (ofItem_toItem d h hw), ?_, ?_⟩
  · rw [cmp?_eq_cmp _ _ (wfTag_normAny d hw) hw, cmp_normAny_left, laws_cmp.refl]
  · unfold encode; rw [toItem_normAny d hw]

theorem pdata_roundtrip_bytes_exact (d : PData) (r : Bytes) (h : fits d = true) (hw : wfTag d = true)
    (hc : anyCanonical d) : Dec.decodeBytes (encode d ++ r) = some (d, r) := by
  have := Dec.decodeBytes_refines _ _ r (toItem_wf d h) (ofItem_toItem d h hw)
  rw [hc] at this
  exact this

/-- any chunking of a byte string decodes to the re-assembled bytes (not only the 64-byte one) -/
theorem bytes_any_chunking (cs : List (Head × Bytes)) (r : Bytes) (hw : chunksWf 2 cs = true) :
    Dec.decodeBytes ((Item.strIndef 2 cs).encode ++ r) = some (.bytes (chunksPayload cs), r) :=
  Dec.decodeBytes_refines _ _ r (by simp [Item.wf, hw]) (by simp [ofItem])

/-- **the decoder never leaves the quantifier**: whatever it returns, on any input (malformed,
    lenient, truncated-then-completed …), has valid constructor tags at every depth — so comparing
    decoded values cannot panic — and is in `any_constructor` normal form -/
theorem decoded_in_quantifier (bs : Bytes) (d : PData) (r : Bytes) (h : Dec.decodeBytes bs = some (d, r)) :
    wfTag d = true ∧ anyCanonical d := Dec.decodeBytes_good bs d r h

/-- decoded values are totally ordered by the library comparison -/
theorem decoded_cmp_total (bs bs' : Bytes) (a b : PData) (r r' : Bytes)
    (ha : Dec.decodeBytes bs = some (a, r)) (hb : Dec.decodeBytes bs' = some (b, r')) :
    ∃ o, cmp? a b = some o ∧ cmp? b a = some o.swap := by
  have wa := (decoded_in_quantifier bs a r ha).1
  have wb := (decoded_in_quantifier bs' b r' hb).1
  refine ⟨cmp a b, cmp?_eq_cmp a b wa wb, ?_⟩
  rw [cmp?_eq_cmp b a wb wa, laws_cmp.swap b a]

/-- round trip from the byte side: re-encoding a decoded value and decoding again gives the very
    same value (`fits` holds for every in-memory Rust value) -/
theorem decode_reencode_stable (bs : Bytes) (d : PData) (r r' : Bytes)
    (h : Dec.decodeBytes bs = some (d, r)) (hf : fits d = true) :
    Dec.decodeBytes (encode d ++ r') = some (d, r') := by
  obtain ⟨hw, hc⟩ := decoded_in_quantifier bs d r h
  exact pdata_roundtrip_bytes_exact d r' hf hw hc

/-! ## non-vacuity -/

def ex1 : PData := .constr 121 none true [.int (.int 14), .bytes [1, 2, 3], .map false [(.int (.bigU [0, 14]), .array false [])]]
def ex2 : PData := .constr 102 (some 0) false [.int (.bigU [14]), .bytes [1, 2, 3], .map true [(.int (.int 14), .array true [])]]

example : wfTag ex1 = true ∧ wfTag ex2 = true ∧ fits ex1 = true := by decide
example : cmp? ex1 ex2 = some .eq := by decide
example : cmp? (.int (.int (-2))) (.int (.int (-1))) = some .lt := by decide
example : cmp? (.int (.bigN [])) (.int (.int 0)) = some .eq := by decide
example : cmp? (.int (.bigN [0, 5])) (.int (.int (-4))) = some .lt := by decide
example : cmp? (.constr 5 none true []) (.constr 5 none true []) = none := by decide
example : cmp? (.constr 126 none true [.int (.int 999)]) (.constr 1281 none true []) = some .lt := by decide
example : encode (.bytes (List.replicate 65 7)) =
    [0x5f, 0x58, 0x40] ++ List.replicate 64 7 ++ [0x41, 7, 0xff] := by decide
example : decode (encode ex1) = some ex1 := pdata_roundtrip_exact ex1 (by decide) (by decide) rfl
example : chunks 2 [1, 2, 3, 4, 5] = [[1, 2], [3, 4], [5]] := by decide
example : Dec.decodeBytes (encode ex1 ++ [0xaa]) = some (ex1, [0xaa]) :=
  pdata_roundtrip_bytes_exact ex1 [0xaa] (by decide) (by decide) rfl
-- alternative encoding: 2-byte head for the tag, indefinite bytes in chunks of 1 and 0, 8-byte int head
set_option maxRecDepth 8192 in
example : Dec.decodeBytes [0xd9, 0x00, 0x79, 0x9f, 0x5f, 0x41, 0x07, 0x40, 0xff, 0x1b, 0, 0, 0, 0, 0, 0, 0, 5, 0xff] =
    some (.constr 121 none false [.bytes [7], .int (.int 5)], []) := by rfl
-- the tag-102 leniency of the Rust (`d.array()?` ignores the length): accepted by the byte-level
-- decoder, rejected by the strict tree decoder
example : Dec.decodeBytes [0xd8, 0x66, 0x83, 0x00, 0x80, 0x05] = some (.constr 102 (some 0) true [], [0x05]) := by rfl
example : decode [0xd8, 0x66, 0x83, 0x00, 0x80, 0x05] = none := by decide

end PallasVerif.Props.C07
