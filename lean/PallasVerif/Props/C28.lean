import PallasVerif.Proofs.P2PProtoTie
import PallasVerif.Proofs.P2PAsync
/-!
# C28 — The P2P initiator never violates a protocol it speaks

Model: the initiator model of C27/C29 (`Model/P2PInitiator.lean`) composed in `Model/P2PNet.lean` with
the specification tables of DESIGN.md Appendix A and, per peer, a connection that keeps the
emitted-but-unconfirmed `Send`s, the messages still on the wire, a specification-conformant
responder's view and its undelivered replies. A schedule (`List Sched`) interleaves commands
(including repeated housekeeping) with `connect / confirm / arrive / reply / deliver / drop / fail`
steps in any order; the responder *observes a violation* when it consumes a message the
specification does not permit in its view.

* `FullStatement` — no schedule makes the responder observe a violation. It is **false** on the
  faithful model (`initiator_conformant_fails_at_witness`): protocol state only advances on `Sent`,
  so two housekeeping passes before the first confirmation emit `KeepAlive` twice (DESIGN §6 #16;
  the same holds for ShareRequest, FindIntersect, RequestRange, leios requests).
* `initiator_conformant_partial` — on **lock-step schedules** (`List SStep`, `syncRun`: every step
  that feeds an event to the initiator is followed at once by the `Sent` confirmation of each `Send`
  it queued and by its arrival at the responder — "each Send is confirmed before the next
  housekeeping", what the pinned tests do) the responder never observes a violation, for any number
  of peers, any commands (repeated housekeeping, include, start/continue-sync, block and EB requests,
  ban/demote), any hash-map iteration order (without repetition: `SStep.ok`), any timing and choice of
  the responder's replies, any batching of their delivery, and any drops, errors and reconnects.
  Proof: the invariant `Sync` — per live connection the initiator's tracked view, advanced by the
  replies still in flight, *is* the responder's view; records of peers without a live connection
  are in the initial view — is kept by every step (`Proofs/P2PSync.lean`).
  `lockstep_is_schedule` / `lockstep_run_is_schedule` show that lock-step runs are runs of the
  general schedule semantics (the domain is a subset of the quantifier of `FullStatement`).
* `emit_permitted_by_own_view` (all states, all events, all iteration orders): every `Send` the
  initiator queues is permitted by the specification *in the view the initiator itself tracks* for
  that peer. This is the guard discipline of every emitter (keepalive, discovery, blockfetch,
  chainsync housekeeping and tagged, leios notify/fetch, handshake proposal).

* `initiator_conformant_delayed` — the same conclusion on the **general** schedule semantics
  (`List Sched`, `sysRun`: `Sent` confirmations, arrivals at the responder, replies and deliveries
  delayed and interleaved arbitrarily) for every schedule in `InDomain`, i.e. satisfying two side
  conditions: (a) `EmitOK` — no step queues a `Send` of protocol X for a connection that still has an
  unconfirmed `Send` of X; (b) a reply of protocol X is not delivered while the X request on that
  connection is unconfirmed (a real connection reports `Sent` before the answer can be read).
  `emitOK_complement` says that the negation of (a) is literally the situation of the known finding
  (a `Send` queued while an earlier `Send` of the same protocol on that connection is unconfirmed):
  with (b) granted, the theorem and the known finding partition the schedules. `inDomainB` is a
  computable, sound domain check; the #16 witness is outside the domain, a delayed-confirmation
  variant of it is inside.

Not proved: schedules violating (b) (a reply overtaking the confirmation of its request); they are
sampled by the `p2p_sched` stream only (no violation found there).
-/
namespace PallasVerif.Props.C28
open PallasVerif.P2P

/-- the property at full strength -/
def FullStatement : Prop :=
  ∀ (cfg : Cfg) (sched : List Sched) (y : Sys), sysRun (Sys.init cfg) sched = some y → y.observed = []

def cfgW : Cfg := { maxPeers := 2, maxWarm := 2, maxHot := 2, maxErr := 1 }

/-- include, connect, handshake, then two housekeeping passes with no `Sent` in between -/
def witness : List Sched :=
  [.ev (.includePeer 0), .ev (.housekeeping [0] []), .connect 0, .confirm 0, .arrive 0, .reply 0 .hs 0,
   .deliver 0 0, .ev (.housekeeping [0] []), .ev (.housekeeping [0] []), .arrive 0, .arrive 0, .arrive 0]

theorem witness_observed :
    (sysRun (Sys.init cfgW) witness).map (fun y => y.observed.map (fun o => (o.peer, o.view.ka, o.msg))) =
      some [(0, SKa.server, Msg.ka (.keepAlive 65535))] := by decide

theorem initiator_conformant_fails_at_witness : ¬ FullStatement := by
  intro h
  cases hr : sysRun (Sys.init cfgW) witness with
  | none =>
    have := witness_observed
    rw [hr] at this; cases this
  | some y =>
    have h1 := h cfgW witness y hr
    have h2 := witness_observed
    rw [hr] at h2
    simp only [Option.map_some, Option.some.injEq] at h2
    rw [h1] at h2
    cases h2

/-- **own view permits** (re-export of `step_emit_permitted`) -/
theorem emit_permitted_by_own_view (s s' : St) (e : Ev) (h : step s e = some s') (p : Nat) (m : Msg)
    (hm : Out.send p m ∈ s'.out) : ∃ st, s.peers p = some st ∧ (clientStep (viewOf st) m).isSome = true := by
  obtain ⟨st, h1, h2⟩ := step_emit_permitted h p m hm
  exact ⟨st, h1, h2.2.1⟩

/-- **conformance on lock-step schedules** -/
theorem initiator_conformant_partial (cfg : Cfg) (ss : List SStep) (hok : ∀ a, a ∈ ss → a.ok) (y : Sys)
    (h : syncRun (Sys.init cfg) ss = some y) : y.observed = [] :=
  (sync_run ss (sync_init cfg) hok h).obs

/-- a lock-step step is a general schedule step followed by `confirm`/`arrive` steps -/
theorem lockstep_is_schedule (y : Sys) (a : SStep) : ∃ tail : List Sched, sysRun y (a.toSched :: tail) = syncStep y a :=
  syncStep_is_schedule y a

theorem sysRun_append (a b : List Sched) : ∀ (y : Sys), sysRun y (a ++ b) = (sysRun y a).bind (fun y' => sysRun y' b) := by
  induction a with
  | nil => intro y; rfl
  | cons x xs ih =>
    intro y
    simp only [List.cons_append, sysRun]
    cases sysStep y x with
    | none => rfl
    | some y1 => exact ih y1

/-- every lock-step run is a run of the general schedule semantics -/
theorem lockstep_run_is_schedule : ∀ (ss : List SStep) (y : Sys), ∃ sched : List Sched, sysRun y sched = syncRun y ss := by
  intro ss
  induction ss with
  | nil => intro y; exact ⟨[], rfl⟩
  | cons a as ih =>
    intro y
    obtain ⟨tail, ht⟩ := syncStep_is_schedule y a
    cases hs : syncStep y a with
    | none => exact ⟨a.toSched :: tail, by rw [ht, hs]; simp only [syncRun, hs]⟩
    | some y1 =>
      obtain ⟨sched', hs'⟩ := ih y1
      refine ⟨(a.toSched :: tail) ++ sched', ?_⟩
      rw [sysRun_append, ht, hs]
      simp only [Option.bind, syncRun, hs, hs']

/-- **conformance with delayed confirmations**: any schedule of the general semantics that never
    queues a `Send` of a protocol with an unconfirmed `Send` on the same connection (and never
    delivers a reply ahead of the confirmation of its request) -/
theorem initiator_conformant_delayed (cfg : Cfg) (sched : List Sched) (hd : InDomain (Sys.init cfg) sched) (y : Sys)
    (h : sysRun (Sys.init cfg) sched = some y) : y.observed = [] :=
  (gen_run sched (gen_init cfg) hd h).obs

/-- the complement of side condition (a) is the known finding's situation -/
theorem emitOK_complement (y : Sys) (outs : List Out) :
    ¬ EmitOK y outs ↔ ∃ p l m m', y.links p = .up l ∧ m ∈ sendsTo p outs ∧ m' ∈ l.unconfirmed ∧ m'.proto = m.proto := by
  constructor
  · intro h
    apply Classical.byContradiction
    intro hn
    apply h
    intro p l hl m hm m' hm' he
    exact hn ⟨p, l, m, m', hl, hm, hm', he⟩
  · intro ⟨p, l, m, m', hl, hm, hm', he⟩ h
    exact h p l hl m hm m' hm' he

/-- `inDomainB` decides membership soundly -/
theorem inDomain_of_check (y : Sys) (sched : List Sched) (h : inDomainB y sched = true) : InDomain y sched :=
  inDomainB_sound sched y h

/-! ## Non-vacuity -/

/-- the witness' commands on a lock-step schedule: handshake, three housekeeping passes, a keep-alive
    round trip, a peer-sharing reply — five requests reach the responder, none is a violation -/
def lockstep : List SStep :=
  [.cmd (.includePeer 0), .cmd (.housekeeping [0] []), .connect 0, .reply 0 .hs 0, .deliver 0 0,
   .cmd (.housekeeping [0] []), .cmd (.housekeeping [0] []), .reply 0 .ka 0, .reply 0 .ps 1, .deliver 0 1,
   .cmd (.housekeeping [0] [7, 8])]

example : ∀ a, a ∈ lockstep → a.ok := by
  intro a ha
  simp only [lockstep, List.mem_cons, List.mem_nil_iff, or_false] at ha
  rcases ha with rfl | rfl | rfl | rfl | rfl | rfl | rfl | rfl | rfl | rfl | rfl <;> simp [SStep.ok]

example : (syncRun (Sys.init cfgW) lockstep).map
    (fun y => (y.observed.length, (match y.links 0 with | .up l => some (l.w.hs, l.w.ka, l.w.ps) | _ => none), y.st.cold)) =
    some (0, some (SHs.done, SKa.server, SPs.idle), [7]) := by decide

/-- the protocol machines used by the model are those of the sources (table regenerated on every run) -/
theorem keepalive_machine_matches_source (s : KaSt) (m : KaMsg) :
    (PallasVerif.Gen.FsmN2.keepalive.step (KaSt.cls s) (KaMsg.kind m)).next? = (s.apply m).map KaSt.cls :=
  ka_matches_source s m

/-- the #16 witness is outside the domain (its second housekeeping queues KeepAlive while the first is unconfirmed) … -/
example : inDomainB (Sys.init cfgW) witness = false := by decide

/-- … while this schedule is inside it and conformant: the proposal reaches the responder and is
    answered before its `Sent` arrives; KeepAlive and ShareRequest reach the responder, and KeepAlive
    is even answered, while both are still unconfirmed; the confirmations come late and out of step
    with the arrivals; the last KeepAlive is still unconfirmed at the end -/
def delayed : List Sched :=
  [.ev (.includePeer 0), .ev (.housekeeping [0] []), .connect 0, .arrive 0, .reply 0 .hs 0, .confirm 0, .deliver 0 0,
   .ev (.housekeeping [0] []), .arrive 0, .reply 0 .ka 0, .arrive 0, .confirm 0, .reply 0 .ps 1, .confirm 0,
   .deliver 0 1, .ev (.housekeeping [0] []), .arrive 0]

example : inDomainB (Sys.init cfgW) delayed = true := by decide

example : (sysRun (Sys.init cfgW) delayed).map (fun y => (y.observed.length,
    (match y.links 0 with | .up l => some (l.unconfirmed.length, l.toResp.length) | _ => none), y.st.discovered)) =
    some (0, some (1, 0), [8, 7]) := by
  decide

end PallasVerif.Props.C28
