import PallasVerif.Proofs.P2PConf
/-!
# C28 — The P2P initiator never violates a protocol it speaks

Model: the initiator model of C27/C29 (`Model/P2PInitiator.lean`) composed in `Model/P2PNet.lean` with
the specification tables of DESIGN.md Appendix A and, per peer, a connection that keeps the
emitted-but-unconfirmed `Send`s, the messages still on the wire, a specification-conformant
responder's view and its undelivered replies. A schedule (`List Sched`) interleaves commands
(including repeated housekeeping) with `connect / confirm / arrive / reply / deliver / drop / fail`
steps in any order; the responder *observes a violation* when it consumes a message the
specification does not permit in its view.

* `FullStatement` — no schedule makes the responder observe a violation. It is **false** on the
  faithful model (`initiator_conformant_fails_at_witness`): protocol state only advances on `Sent`,
  so two housekeeping passes before the first confirmation emit `KeepAlive` twice (DESIGN §6 #16;
  the same holds for ShareRequest, FindIntersect, RequestRange, leios requests).
* `emit_permitted_by_own_view` (all states, all events, all iteration orders): every `Send` the
  initiator queues is permitted by the specification *in the view the initiator itself tracks* for
  that peer. This is the guard discipline of every emitter (keepalive, discovery, blockfetch,
  chainsync housekeeping and tagged, leios notify/fetch, handshake proposal).
-/
namespace PallasVerif.Props.C28
open PallasVerif.P2P

/-- the property at full strength -/
def FullStatement : Prop :=
  ∀ (cfg : Cfg) (sched : List Sched) (y : Sys), sysRun (Sys.init cfg) sched = some y → y.observed = []

def cfgW : Cfg := { maxPeers := 2, maxWarm := 2, maxHot := 2, maxErr := 1 }

/-- include, connect, handshake, then two housekeeping passes with no `Sent` in between -/
def witness : List Sched :=
  [.ev (.includePeer 0), .ev (.housekeeping [0] []), .connect 0, .confirm 0, .arrive 0, .reply 0 .hs 0,
   .deliver 0 0, .ev (.housekeeping [0] []), .ev (.housekeeping [0] []), .arrive 0, .arrive 0, .arrive 0]

theorem witness_observed :
    (sysRun (Sys.init cfgW) witness).map (fun y => y.observed.map (fun o => (o.peer, o.view.ka, o.msg))) =
      some [(0, SKa.server, Msg.ka (.keepAlive 65535))] := by decide

theorem initiator_conformant_fails_at_witness : ¬ FullStatement := by
  intro h
  cases hr : sysRun (Sys.init cfgW) witness with
  | none =>
    have := witness_observed
    rw [hr] at this; cases this
  | some y =>
    have h1 := h cfgW witness y hr
    have h2 := witness_observed
    rw [hr] at h2
    simp only [Option.map_some, Option.some.injEq] at h2
    rw [h1] at h2
    cases h2

/-- **own view permits** (re-export of `step_emit_permitted`) -/
theorem emit_permitted_by_own_view (s s' : St) (e : Ev) (h : step s e = some s') (p : Nat) (m : Msg)
    (hm : Out.send p m ∈ s'.out) : ∃ st, s.peers p = some st ∧ (clientStep (viewOf st) m).isSome = true :=
  step_emit_permitted h p m hm

end PallasVerif.Props.C28
