import Mathlib.Analysis.Complex.Exponential
import PallasVerif.Props.C17
import PallasVerif.Proofs.DecimalRat
/-!
# C17 (continued) — the same statements on the exact rationals

`Props/C17.lean` states every clause cross-multiplied onto `Int` (core Lean only). Here each is
restated on `val x = data / 10^prec : ℚ` with Mathlib's floor / ceiling, so the theorems read like
the English property: `val_add`, `val_sub`, `val_neg`, `val_abs`; `val_mul` (floor of the exact
product at 34 digits); `val_div` (truncation toward zero of the exact quotient at 34 digits, panic for
a zero divisor); `val_floor = ⌊x⌋`, `val_ceil = ⌈x⌉`, `val_trunc`, `val_round` (an integer within ½);
`val_cmp`; `val_print` (the printed characters denote exactly `val x`). All for every integer and
every precision; all derived from the `Int` theorems.
-/
namespace PallasVerif.Props.C17Real
open PallasVerif.Decimal PallasVerif.Proofs.Decimal PallasVerif.Props.C17

theorem val_add (x y : Dec) (h : x.prec = y.prec) : val (add x y) = val x + val y := by
  simp only [val, add, ← h]; push_cast; ring

theorem val_sub (x y : Dec) (h : x.prec = y.prec) : val (sub x y) = val x - val y := by
  simp only [val, sub, ← h]; push_cast; ring

theorem val_neg (x : Dec) : val (neg x) = - val x := by
  simp only [val, neg]; push_cast; ring

theorem val_abs (x : Dec) : val (Decimal.abs x) = |val x| := by
  simp only [val, Decimal.abs]
  rw [abs_div, abs_of_pos (pow_pos' x.prec), Int.natCast_natAbs, Int.cast_abs]

theorem val_floor (x : Dec) : val (floor x) = (⌊val x⌋ : ℚ) := by
  obtain ⟨hp, ⟨k, hk⟩, h1, h2⟩ := floor_spec x
  have hpos := pow_pos' x.prec
  have hv := val_of_integral (floor x) k (by rw [hp]; exact hk)
  rw [hv]
  congr 1
  symm
  rw [Int.floor_eq_iff]
  simp only [val]
  rw [le_div_iff₀ hpos, div_lt_iff₀ hpos]
  have e1 : ((mult x.prec * k : Int) : ℚ) ≤ (x.data : ℚ) := by rw [← hk]; exact_mod_cast h1
  have e2 : (x.data : ℚ) < ((mult x.prec * k + mult x.prec : Int) : ℚ) := by rw [← hk]; exact_mod_cast h2
  push_cast at e1 e2
  rw [mult_cast] at e1 e2
  constructor <;> nlinarith

theorem val_ceil (x : Dec) : val (ceil x) = (⌈val x⌉ : ℚ) := by
  obtain ⟨hp, ⟨k, hk⟩, h1, h2⟩ := ceil_spec x
  have hpos := pow_pos' x.prec
  have hv := val_of_integral (ceil x) k (by rw [hp]; exact hk)
  rw [hv]
  congr 1
  symm
  rw [Int.ceil_eq_iff]
  simp only [val]
  rw [lt_div_iff₀ hpos, div_le_iff₀ hpos]
  have e1 : (x.data : ℚ) ≤ ((mult x.prec * k : Int) : ℚ) := by rw [← hk]; exact_mod_cast h1
  have e2 : ((mult x.prec * k : Int) : ℚ) < ((x.data + mult x.prec : Int) : ℚ) := by rw [← hk]; exact_mod_cast h2
  push_cast at e1 e2
  rw [mult_cast] at e1 e2
  constructor <;> nlinarith


theorem val_trunc (x : Dec) : val (trunc x) = (truncQ (val x) : ℚ) := by
  obtain ⟨hp, ⟨k, hk⟩, h1, h2⟩ := trunc_spec x
  have hpos := pow_pos' x.prec
  have hv := val_of_integral (trunc x) k (by rw [hp]; exact hk)
  rw [hv]
  congr 1
  symm
  have hm : ((mult x.prec : Int) : ℚ) = (10 : ℚ) ^ x.prec := mult_cast _
  unfold truncQ
  by_cases hz : 0 ≤ x.data
  · have hv0 : 0 ≤ val x := div_nonneg (by exact_mod_cast hz) hpos.le
    obtain ⟨_, a, b⟩ := h1 hz
    rw [if_pos hv0, Int.floor_eq_iff]
    simp only [val]
    rw [le_div_iff₀ hpos, div_lt_iff₀ hpos]
    have e1 : ((mult x.prec * k : Int) : ℚ) ≤ (x.data : ℚ) := by rw [← hk]; exact_mod_cast a
    have e2 : (x.data : ℚ) < ((mult x.prec * k + mult x.prec : Int) : ℚ) := by rw [← hk]; exact_mod_cast b
    push_cast at e1 e2; rw [hm] at e1 e2
    constructor <;> nlinarith
  · have hz' : x.data < 0 := by omega
    have hv0 : ¬ 0 ≤ val x := by
      rw [not_le]; exact div_neg_of_neg_of_pos (by exact_mod_cast hz') hpos
    obtain ⟨_, a, b⟩ := h2 (by omega)
    rw [if_neg hv0, Int.ceil_eq_iff]
    simp only [val]
    rw [lt_div_iff₀ hpos, div_le_iff₀ hpos]
    have e1 : (x.data : ℚ) ≤ ((mult x.prec * k : Int) : ℚ) := by rw [← hk]; exact_mod_cast a
    have e2 : ((mult x.prec * k - mult x.prec : Int) : ℚ) < (x.data : ℚ) := by rw [← hk]; exact_mod_cast b
    push_cast at e1 e2; rw [hm] at e1 e2
    constructor <;> nlinarith

/-- `round` returns an integer within one half of `x`, at every precision -/
theorem val_round (x : Dec) : (∃ n : Int, val (round x) = (n : ℚ)) ∧ |val (round x) - val x| ≤ 1 / 2 := by
  obtain ⟨hp, ⟨k, hk⟩, h1, h2⟩ := round_spec x
  have hpos := pow_pos' x.prec
  have hm : ((mult x.prec : Int) : ℚ) = (10 : ℚ) ^ x.prec := mult_cast _
  refine ⟨⟨k, val_of_integral (round x) k (by rw [hp]; exact hk)⟩, ?_⟩
  have e : val (round x) - val x = (((round x).data - x.data : Int) : ℚ) / (10 : ℚ) ^ x.prec := by
    simp only [val, hp]; push_cast; ring
  rw [e, abs_le]
  have e1 : ((2 * ((round x).data - x.data) : Int) : ℚ) ≤ ((mult x.prec : Int) : ℚ) := by exact_mod_cast h1
  have e2 : ((2 * (x.data - (round x).data) : Int) : ℚ) ≤ ((mult x.prec : Int) : ℚ) := by exact_mod_cast h2
  push_cast at e1 e2; rw [hm] at e1 e2
  constructor
  · rw [le_div_iff₀ hpos]; push_cast; nlinarith
  · rw [div_le_iff₀ hpos]; push_cast; nlinarith

/-- multiplication at the default precision = floor of the exact product at 34 digits -/
theorem val_mul (x y : Dec) (hx : x.prec = 34) (hy : y.prec = 34) :
    val (mul x y) = (⌊val x * val y * (10 : ℚ) ^ 34⌋ : ℚ) / (10 : ℚ) ^ 34 := by
  obtain ⟨h1, h2, hp⟩ := mul_is_floor_of_product x y
  have hP : (0 : ℚ) < (10 : ℚ) ^ 34 := by positivity
  have hfl : ⌊val x * val y * (10 : ℚ) ^ 34⌋ = (mul x y).data := by
    rw [Int.floor_eq_iff]
    simp only [val, hx, hy]
    have e1 : (((mul x y).data * P : Int) : ℚ) ≤ ((x.data * y.data : Int) : ℚ) := by exact_mod_cast h1
    have e2 : ((x.data * y.data : Int) : ℚ) < ((((mul x y).data + 1) * P : Int) : ℚ) := by exact_mod_cast h2
    push_cast at e1 e2; rw [P_cast] at e1 e2
    have e : (x.data : ℚ) / 10 ^ 34 * ((y.data : ℚ) / 10 ^ 34) * 10 ^ 34 = (x.data : ℚ) * (y.data : ℚ) / 10 ^ 34 := by
      field_simp
    rw [e, le_div_iff₀ hP, div_lt_iff₀ hP]
    exact ⟨e1, e2⟩
  rw [hfl]; simp only [val, hp, hx]

/-- division at the default precision = truncation toward zero of the exact quotient at 34 digits;
    division by zero panics -/
theorem val_div (x y : Dec) (hx : x.prec = 34) (hy : y.prec = 34) :
    (y.data = 0 → divD x y = none) ∧
    (y.data ≠ 0 → ∃ z, divD x y = some z ∧ z.prec = 34 ∧
      val z = (truncQ (val x / val y * (10 : ℚ) ^ 34) : ℚ) / (10 : ℚ) ^ 34) := by
  obtain ⟨h1, h2⟩ := div_is_trunc x y
  refine ⟨h2, fun hne => ?_⟩
  refine ⟨_, h1 hne, hx, ?_⟩
  have hP : (0 : ℚ) < (10 : ℚ) ^ 34 := by positivity
  have hyq : (y.data : ℚ) ≠ 0 := by exact_mod_cast hne
  -- val x / val y * 10^34 = (x.data * P) / y.data
  have e : val x / val y * (10 : ℚ) ^ 34 = ((x.data * P : Int) : ℚ) / (y.data : ℚ) := by
    simp only [val, hx, hy]; push_cast; rw [P_cast]; field_simp
  rw [e]
  simp only [val, hx]
  congr 1
  rw [truncQ_div _ _ hne]


/-- comparison agrees with the exact rationals (same precision) -/
theorem val_cmp (x y : Dec) (h : x.prec = y.prec) : partialCmp x y = some (compare (val x) (val y)) := by
  have hpos := pow_pos' y.prec
  simp only [partialCmp, h, ne_eq, not_true_eq_false, if_false, Option.some.injEq, val]
  rcases lt_trichotomy x.data y.data with hlt | heq | hgt
  · have : (x.data : ℚ) / 10 ^ y.prec < (y.data : ℚ) / 10 ^ y.prec :=
      div_lt_div_of_pos_right (by exact_mod_cast hlt) hpos
    rw [compare_lt_iff_lt.mpr hlt, compare_lt_iff_lt.mpr this]
  · rw [heq]; simp
  · have : (y.data : ℚ) / 10 ^ y.prec < (x.data : ℚ) / 10 ^ y.prec :=
      div_lt_div_of_pos_right (by exact_mod_cast hgt) hpos
    rw [compare_gt_iff_gt.mpr hgt, compare_gt_iff_gt.mpr this]

/-- the printed form, read back as sign, integer part and `k` fraction digits, is exactly the
    stored rational -/
theorem val_print (x : Dec) :
    ∃ (neg : Bool) (ip fp k : Nat), parseDecimal (showChars x) = some (neg, ip, fp, k) ∧
      (if neg then (-1 : ℚ) else 1) * ((ip : ℚ) + (fp : ℚ) / (10 : ℚ) ^ k) = val x := by
  obtain ⟨h1, h2⟩ := toString_exact x
  refine ⟨_, _, _, _, h1, ?_⟩
  have hpos := pow_pos' x.prec
  have hm : ((mult x.prec : Int) : ℚ) = (10 : ℚ) ^ x.prec := mult_cast _
  have hr0 : x.prec = 0 → (x.data.tmod (mult x.prec)).natAbs = 0 := by
    intro hp
    have hm1 : mult x.prec = 1 := by rw [hp]; rfl
    rw [hm1]; simp
  generalize (x.data.tdiv (mult x.prec)).natAbs = a at h2 hr0
  generalize (x.data.tmod (mult x.prec)).natAbs = b at h2 hr0
  have h2q : (if x.data < 0 then (-1 : ℚ) else 1) * ((a : ℚ) * (10 : ℚ) ^ x.prec + (b : ℚ)) = (x.data : ℚ) := by
    rw [← hm]
    have := congrArg (Int.cast : Int → ℚ) h2
    rw [← this]
    split <;> push_cast <;> ring
  simp only [decide_eq_true_eq, val]
  by_cases hp : x.prec = 0
  · have hb := hr0 hp
    subst hb
    simp only [hp, if_true, pow_zero, mul_one, Nat.cast_zero, add_zero, zero_div, div_one] at h2q ⊢
    exact h2q
  · simp only [hp, if_false]
    rw [eq_div_iff hpos.ne', ← h2q]
    field_simp



end PallasVerif.Props.C17Real
