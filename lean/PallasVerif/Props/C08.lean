import PallasVerif.Model.ScriptData
import PallasVerif.Proofs.ScriptData
/-!
# C08 — Script integrity hash follows the ledger formula

Model: `Model/ScriptData.lean` (transcription of `pallas-primitives/src/conway/script_data.rs`:
`impl Encode for LanguageViews`, `ScriptData::hash`, `ScriptData::build_for`, plus the encoders of
`Redeemers` it calls). The Lean side is an *independent implementation* of the whole formula (own CBOR
encoder, own BLAKE2b-256 from `Model/Blake2b.lean`); the correspondence stream compares its digests
with `ScriptData::hash` / `build_for` on generated inputs and on the five real transactions.

Theorems:
* `views_canonical` — for **every** set of `u8` language ids (every `BTreeMap<u8, CostModel>`, i.e. every
  strictly ascending key list below 256) the keys are written in canonical CBOR order, both in the
  length-first sense Cardano uses (RFC 7049 §3.9) and bytewise (RFC 8949 §4.2.1); `views_keys_complete`
  — each language is written exactly once; `views_invariant_of_collect` — every value the API can build
  satisfies the hypothesis; `views_plutus_order` — V2, V3, then V1; `v1_entry_quirk` — the V1 entry is
  key `41 00` and a byte string that holds an indefinite list.
* `hash_formula`, `no_hash_iff`, `build_keeps_inputs`, `datum_only_has_empty_views`.
* `ws_hash_formula` — from witness-set bytes: redeemer and datum bytes are contiguous slices of the
  input ("as they appeared"), never a re-encoding.
-/
namespace PallasVerif.Props.C08
open PallasVerif.Cbor PallasVerif.PlutusData PallasVerif.ScriptData

/-! ## language views -/

/-- every `LanguageViews` built by `FromIterator` / `insert` satisfies the BTreeMap invariant -/
theorem views_invariant_of_collect (xs : List (Nat × CostModel)) : keysAsc (keys (fromList xs)) = true :=
  fromList_keysAsc xs

/-- **canonical key order for every subset of `u8` language ids** -/
theorem views_canonical (m : LanguageViews) (h : keysAsc (keys m) = true) (hb : ∀ k ∈ keys m, k < 256) :
    chain canonLt ((canonicalOrder m).map keyBytes) = true ∧
    chain bytewiseLt ((canonicalOrder m).map keyBytes) = true := by
  have hasc := canonicalOrder_ascBy m h hb
  have hlt : ∀ l ∈ canonicalOrder m, l < 256 := fun l hl => hb l ((canonicalOrder_mem m h l).1 hl)
  exact ⟨chain_of_ascBy canonLt (fun a b ha hb' => (canonLt_keyBytes a b ha hb').1) _ hlt hasc,
         chain_of_ascBy bytewiseLt (fun a b ha hb' => (canonLt_keyBytes a b ha hb').2) _ hlt hasc⟩

/-- every language of the map is written, once (the order is a re-arrangement of the keys) -/
theorem views_keys_complete (m : LanguageViews) (h : keysAsc (keys m) = true) :
    (∀ k, k ∈ canonicalOrder m ↔ k ∈ keys m) ∧ (canonicalOrder m).length = m.length :=
  ⟨canonicalOrder_mem m h, canonicalOrder_length m h⟩

/-- the order in closed form: the ascending keys with a leading 0 (PlutusV1) moved to the end -/
theorem views_order (m : LanguageViews) (h : keysAsc (keys m) = true) :
    canonicalOrder m = moveZeroLast (keys m) := canonicalOrder_eq m h

/-- V2, V3, then V1 — for every subset of {V1, V2, V3} and any cost models -/
theorem views_plutus_order (a b c : CostModel) :
    canonicalOrder [(0, a), (1, b), (2, c)] = [1, 2, 0] ∧
    canonicalOrder [(0, a), (1, b)] = [1, 0] ∧ canonicalOrder [(0, a), (2, c)] = [2, 0] ∧
    canonicalOrder [(1, b), (2, c)] = [1, 2] ∧ canonicalOrder [(0, a)] = [0] ∧
    canonicalOrder [(1, b)] = [1] ∧ canonicalOrder [(2, c)] = [2] ∧ canonicalOrder [] = [] := by
  refine ⟨?_, ?_, ?_, ?_, ?_, ?_, ?_, ?_⟩ <;> simp [canonicalOrder, keys] <;> decide

/-- the PlutusV1 quirk: key is the *byte string* `00` (`41 00`), value is a byte string wrapping an
    indefinite-length list of the coefficients; all other languages: uint key, definite list -/
theorem v1_entry_quirk (cm : CostModel) :
    (keyItem 0).encode = [0x41, 0x00] ∧
    (valueItem 0 cm).encode =
      (minHead 2 (cm.map fun c => (mkInt c).encode).flatten.length.succ.succ).encode ++
        (0x9f :: (cm.map fun c => (mkInt c).encode).flatten ++ [0xff]) ∧
    (∀ l, l ≠ 0 → (keyItem l).encode = (minHead 0 l).encode ∧
      (valueItem l cm).encode = (minHead 4 cm.length).encode ++ (cm.map fun c => (mkInt c).encode).flatten) := by
  have hl : ∀ xs : List Int, encodeList (xs.map mkInt) = (xs.map fun c => (mkInt c).encode).flatten := by
    intro xs; induction xs with
    | nil => rfl
    | cons x xs ih => simp [encodeList, ih]
  refine ⟨by decide, ?_, ?_⟩
  · simp [valueItem, mkBytes, Item.encode, hl, initByte]
  · intro l h
    simp [keyItem, valueItem, h, mkUInt, mkArray, Item.encode, hl]

/-- the language views are exactly one well-formed CBOR data item: a definite map with one entry per
    language (for every map whose cost models fit the Rust types: `viewsFit`) -/
theorem views_single_item (m : LanguageViews) (h : keysAsc (keys m) = true) (hm : viewsFit m = true) :
    isSingleItem (viewsBytes m) = true ∧
    ∃ es, viewsItem m = .seq (minHead 5 m.length) es ∧ es.length = 2 * m.length := by
  refine ⟨isSingleItem_encode _ (viewsItem_wf m h hm), entryItems m (canonicalOrder m), rfl, ?_⟩
  have hk : ∀ l ∈ canonicalOrder m, l < 256 := by
    intro l hl
    have := (canonicalOrder_mem m h l).1 hl
    simp only [keys, List.mem_map] at this
    obtain ⟨kv, hkv, rfl⟩ := this
    simp only [viewsFit, Bool.and_eq_true, List.all_eq_true, decide_eq_true_eq] at hm
    exact (hm.2 kv hkv).1
  rw [(entryItems_wf m hm _ hk).2, canonicalOrder_length m h]

/-! ## hash assembly -/

/-- **the formula**: BLAKE2b-256 of redeemer bytes (or the empty map), the datum bytes (or nothing),
    the language views (or the empty map) -/
theorem hash_formula (sd : ScriptData) :
    hashOf sd = Blake2b.blake2b256 (sd.redeemers.getD [0xa0] ++ sd.datums.getD [] ++
      (sd.languageViews.map viewsBytes).getD [0xa0]) := by
  unfold hashOf hashInput
  cases sd.redeemers <;> cases sd.datums <;> cases sd.languageViews <;> rfl

/-- no hash is produced exactly when there are neither redeemers nor datums -/
theorem no_hash_iff (r d : Option Bytes) (v : Option LanguageViews) :
    buildFor r d v = none ↔ r = none ∧ d = none := by
  unfold buildFor
  cases r <;> cases d <;> simp

/-- what is hashed is what was given: redeemer and datum bytes untouched; language views only
    together with redeemers -/
theorem build_keeps_inputs (r d : Option Bytes) (v : Option LanguageViews) (sd : ScriptData)
    (h : buildFor r d v = some sd) :
    sd.redeemers = r ∧ sd.datums = d ∧ sd.languageViews = (if r.isSome then v else none) := by
  unfold buildFor at h
  split at h
  · simp at h
  · simp only [Option.some.injEq] at h
    subst h
    cases r <;> cases v <;> simp

/-- a datum-only witness set hashes `a0 ‖ datums ‖ a0` whatever cost models are supplied -/
theorem datum_only_has_empty_views (d : Bytes) (v : Option LanguageViews) :
    (buildFor none (some d) v).map hashOf = some (Blake2b.blake2b256 ([0xa0] ++ d ++ [0xa0])) := by
  simp [buildFor, hashOf, hashInput]

/-! ## pallas-txbuilder -/

/-- the builder writes a hash iff it stages redeemers or datums (and was given language views); the
    hash is the formula over the very bytes it puts into the witness set; a datum-only transaction
    hashes `a0 ‖ datums ‖ a0` -/
theorem txbuilder_hash_formula (reds : List Redeemer) (dats : List PData) (lv : LanguageViews) :
    txBuilderHashOf reds dats (some lv) =
      if reds.isEmpty && dats.isEmpty then none
      else some (Blake2b.blake2b256
        ((if reds.isEmpty then [0xa0] else redeemersBytes (.list reds)) ++
         (if dats.isEmpty then [] else datumSetBytes dats) ++
         (if reds.isEmpty then [0xa0] else viewsBytes lv))) := by
  unfold txBuilderHashOf buildFor hashOf hashInput
  cases hr : reds.isEmpty <;> cases hd : dats.isEmpty <;> simp

theorem txbuilder_no_views_no_hash (reds : List Redeemer) (dats : List PData) :
    txBuilderHashOf reds dats none = none := rfl

/-! ## from the bytes of a witness set -/

/-- `x` occurs in `ws` as a contiguous slice -/
def IsSlice (x ws : Bytes) : Prop := ∃ pre post, ws = pre ++ x ++ post

theorem field_is_slice (ws : Bytes) (i : Item) (r : Bytes) (es : List Item) (k : Nat) (v : Item)
    (hp : parseItem ws = some (i, r)) (he : wsEntries i = some es) (hf : fieldOf k es = some v) :
    IsSlice v.encode ws := by
  obtain ⟨e, _⟩ := parseItem_sound ws i r hp
  obtain ⟨p1, q1, e1⟩ := wsEntries_span i es he
  obtain ⟨p2, q2, e2⟩ := fieldOf_span k es v hf
  exact ⟨p1 ++ p2, q2 ++ q1 ++ r, by rw [e, e1, e2]; simp⟩

/-- **hash of a decoded witness set**: the redeemer and datum parts are slices of the original
    bytes (the values of keys 5 and 4), combined by the formula; a hash exists iff one of them does -/
theorem ws_hash_formula (ws : Bytes) (views : Option LanguageViews) (res : Option Bytes)
    (H : wsBuildHash ws views = some res) :
    ∃ r d : Option Bytes, (∀ x ∈ r, IsSlice x ws) ∧ (∀ x ∈ d, IsSlice x ws) ∧
      (res = none ↔ r = none ∧ d = none) ∧
      (∀ h ∈ res, h = Blake2b.blake2b256 (r.getD [0xa0] ++ d.getD [] ++
        ((if r.isSome then views else none).map viewsBytes).getD [0xa0])) := by
  unfold wsBuildHash at H
  split at H
  · simp at H
  · rename_i i rest hp
    split at H
    · simp at H
    · rename_i es he
      simp only [Option.some.injEq] at H
      refine ⟨(fieldOf 5 es).map Item.encode, (fieldOf 4 es).map Item.encode, ?_, ?_, ?_, ?_⟩
      · intro x hx
        simp only [Option.mem_def, Option.map_eq_some_iff] at hx
        obtain ⟨v, hv, rfl⟩ := hx
        exact field_is_slice ws i rest es 5 v hp he hv
      · intro x hx
        simp only [Option.mem_def, Option.map_eq_some_iff] at hx
        obtain ⟨v, hv, rfl⟩ := hx
        exact field_is_slice ws i rest es 4 v hp he hv
      · rw [← H, Option.map_eq_none_iff, no_hash_iff]
      · intro h hh
        rw [← H] at hh
        simp only [Option.mem_def, Option.map_eq_some_iff] at hh
        obtain ⟨sd, hsd, rfl⟩ := hh
        obtain ⟨h1, h2, h3⟩ := build_keeps_inputs _ _ _ sd hsd
        rw [hash_formula, h1, h2, h3]

/-! ## non-vacuity -/

example : keysAsc (keys [(0, [1]), (1, [2]), (2, [3]), (24, []), (255, [])]) = true := by decide
example : canonicalOrder [(0, [1]), (1, [2]), (23, []), (24, []), (255, [])] = [1, 23, 24, 255, 0] := by decide
example : fromList [(2, [5]), (0, [1]), (2, [7]), (1, [])] = [(0, [1]), (1, []), (2, [7])] := by decide
example : viewsBytes [(0, [1, -2]), (1, [3])] =
    [0xa2, 0x01, 0x81, 0x03, 0x41, 0x00, 0x44, 0x9f, 0x01, 0x21, 0xff] := by decide
example : viewsBytes [] = [0xa0] := by decide
example : viewsFit [(0, [1, -2]), (1, [9223372036854775807, -9223372036854775808]), (255, [])] = true := by decide
example : (buildFor none none (some [(1, [])])).isNone = true := by decide
example : (buildFor (some [0x80]) none none).isSome = true := by decide
example : hashInput ⟨none, some [0xd9, 0x01, 0x02, 0x81, 0x00], some [(1, [])]⟩ =
    [0xa0, 0xd9, 0x01, 0x02, 0x81, 0x00, 0xa1, 0x01, 0x80] := by decide
example : redeemersBytes (.list [⟨0, 1, .int (.int 5), 7, 9⟩]) = [0x81, 0x84, 0x00, 0x01, 0x05, 0x82, 0x07, 0x09] := by decide
example : redeemersBytes (Redeemers.mapOf [⟨1, 0, .int (.int 5), 7, 9⟩, ⟨0, 3, .bytes [], 1, 2⟩]) =
    [0xa2, 0x82, 0x00, 0x03, 0x82, 0x40, 0x82, 0x01, 0x02, 0x82, 0x01, 0x00, 0x82, 0x05, 0x82, 0x07, 0x09] := by decide

end PallasVerif.Props.C08
