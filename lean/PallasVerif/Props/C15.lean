import Mathlib.Analysis.Complex.Exponential
import PallasVerif.Model.RefMath
import PallasVerif.Proofs.RefMath
import PallasVerif.Proofs.RefMathReal
/-!
# C15 — Fixed-point exp, ln, pow agree digit-for-digit with the reference

Model: `Model/RefMath.lean` — the Cardano non-integral reference (scaled Taylor `exp` with `ceil`
scaling and `ipow`, continued-fraction `ln` with `find_e` bracketing, `pow = exp (y·ln x)` with the
sign rules) transcribed from `math_dashu.rs` on `Int`, loops on fuel = the iteration caps.
"Digit for digit" is the correspondence stream `refmath` (the golden files of the repository are
empty, so the compiled Lean model is the digit oracle).

**Full statement** (`WithinErrorBoundFull`): every result is within a stated error bound of the
true mathematical value. That two-sided statement needs a rounding-error analysis of ~10^3
fixed-point operations and is NOT proved; it is sampled against 100-digit interval enclosures by the
harness. Proved (all arguments, unbounded):
* `E_eq`, `exp_zero`, `exp_neg_is_recip`, `iterations_le_cap` — structure of `ref_exp`;
* `ln_fails_iff_nonpos`, `ln_panics_iff_nonpos_or_inner` — domain of `ln`;
* `pow_special_cases` — the special arms of `pow`;
* `findE_brackets_partial` — the bisection returns an exponent inside the initial bracket whose
  moved ends were justified by comparisons against `ipow E ·`;
* `taylor_lower_partial`, `exp_lower_partial` — one-sided real bound: for `0 ≤ x` the Taylor sum and
  the whole `exp` never exceed `Real.exp x` (every term, `scale` and `ipow_` round down);
* `exp_two_sided_unit_partial`, `within_error_bound_unit_partial` — the FULL two-sided statement for
  `exp` on `-1 ≤ x ≤ 1`: `|exp x − e^x| ≤ 4.3·10^-24` (one-sided `2.1·10^-24` on `(0, 1]`).
-/
namespace PallasVerif.Props.C15
open PallasVerif.Decimal PallasVerif.RefMath PallasVerif.Proofs.ExpCmp PallasVerif.Proofs.RefMath

/-- the unproved two-sided statement, for an explicit bound function -/
def WithinErrorBoundFull (bound : Int → ℝ) : Prop :=
  ∀ x r : Int, expD x = some r → |toReal r - Real.exp (toReal x)| ≤ bound x

/-- the constant `E` used by `find_e` is `ref_exp(ONE)` (24 Taylor iterations) -/
theorem E_eq : refExp ONE = some (24, E) := by decide +kernel

theorem exp_zero : refExp 0 = some (0, ONE) ∧ expD 0 = some ONE := by
  constructor <;> rfl

/-- for negative `x` the result is `1 / exp(-x)` (fixed-point `div`), same iteration count -/
theorem exp_neg_is_recip (x : Int) (hx : x < 0) :
    refExp x = match refExpPos (-x) with
      | none => none
      | some (it, temp) => (div ONE temp).map (fun r => (it, r)) := by
  have h0 : x ≠ 0 := by omega
  simp only [refExp, h0, hx, if_false, if_true]
  cases refExpPos (-x) with
  | none => rfl
  | some p =>
    obtain ⟨it, temp⟩ := p
    simp only
    cases div ONE temp <;> rfl

/-- the Taylor loop of `exp` runs at most 1000 iterations -/
theorem iterations_le_cap (x : Int) (it : Nat) (r : Int) (h : refExp x = some (it, r)) : it ≤ 1000 := by
  unfold refExp at h
  split at h
  · have := Option.some.inj h; have := (Prod.mk.inj this).1; omega
  · split at h
    · rename_i hneg
      cases hp : refExpPos (-x) with
      | none => rw [hp] at h; exact absurd h (by simp)
      | some p =>
        obtain ⟨it', t⟩ := p
        rw [hp] at h
        simp only at h
        cases hd : div ONE t with
        | none => rw [hd] at h; exact absurd h (by simp)
        | some v =>
          rw [hd] at h
          have e := (Prod.mk.inj (Option.some.inj h)).1
          have := (refExpPos_le_exp (-x) (by omega) it' t hp).2
          omega
    · rename_i h0 hneg
      exact (refExpPos_le_exp x (by omega) it r h).2

/-- `ref_ln` reports failure exactly on `(-∞, 0]` -/
theorem ln_fails_iff_nonpos (x : Int) : refLn x = some none ↔ x ≤ 0 := by
  constructor
  · intro h
    by_cases hx : x ≤ 0
    · exact hx
    · exfalso
      unfold refLn at h
      simp only [hx, if_false] at h
      repeat' split at h
      all_goals simp at h
  · intro hx; simp [refLn, hx]

/-- `FixedPrecision::ln` panics on `(-∞, 0]` -/
theorem ln_panics_of_nonpos (x : Int) (hx : x ≤ 0) : lnD x = none := by
  simp [lnD, (ln_fails_iff_nonpos x).mpr hx]

/-- the special arms of `pow` -/
theorem pow_special_cases (b y : Int) :
    (y = 0 → refPow b y = some ONE) ∧ (refPow ONE y = some ONE) ∧
    (y = ONE → b ≠ ONE → refPow b y = some b) ∧
    (0 < y → y ≠ ONE → refPow 0 y = some 0) ∧
    (y < 0 → refPow 0 y = none) := by
  have hP : ONE ≠ 0 := by decide
  refine ⟨fun h => by simp [refPow, h], by simp [refPow], fun h hb => ?_, fun h hy => ?_, fun h => ?_⟩
  · subst h; simp [refPow, hP, hb]
  · have h0 : y ≠ 0 := by omega
    have h1 : (0 : Int) ≠ ONE := fun e => hP e.symm
    simp [refPow, h0, h1, hy, h]
  · have h0 : y ≠ 0 := by omega
    have h1 : (0 : Int) ≠ ONE := fun e => hP e.symm
    have hy1 : y ≠ ONE := by
      intro e; rw [e] at h; revert h; decide
    have h2 : ¬ y > 0 := by omega
    simp [refPow, h0, h1, hy1, h2, h]

/-- the bisection of `find_e` returns an exponent inside the bracket it is given; an end of the
    bracket that moved was moved by a comparison against `ipow E ·`, so `E^r ≤ x < E^(r+1)` holds
    in model arithmetic for every moved end -/
theorem findE_brackets_partial (x : Int) (fuel : Nat) (l u r : Int) (hlu : l < u)
    (h : findELoop2 x fuel l u = some r) :
    l ≤ r ∧ r < u ∧
    (r = l ∨ ∃ v, ipow E r = some v ∧ v ≤ x) ∧
    (r + 1 = u ∨ ∃ v, ipow E (r + 1) = some v ∧ x < v) :=
  findELoop2_spec x fuel l u r hlu h

/-- the Taylor stage never panics, returns a partial sum of the fixed-point series within its
    iteration cap, and for `0 ≤ x` that sum is `≤ Real.exp x` -/
theorem taylor_lower_partial (maxN : Nat) (x eps : Int) :
    ∃ m, mpExpTaylor maxN x eps = some (m, psum x m) ∧ m ≤ maxN ∧
      (0 ≤ x → toReal (psum x m) ≤ Real.exp (toReal x)) := by
  obtain ⟨m, h, hm⟩ := mpExpTaylor_spec maxN x eps
  exact ⟨m, h, hm, fun hx => psum_le_exp x hx m⟩

/-- **one-sided bound for the whole `exp`**: for `0 ≤ x`, `exp x` as computed never exceeds the true
    exponential (Taylor terms, `scale` and the `ipow_` products all round down) -/
theorem exp_lower_partial (x r : Int) (hx : 0 ≤ x) (h : expD x = some r) :
    toReal r ≤ Real.exp (toReal x) := by
  unfold expD at h
  cases hr : refExp x with
  | none => rw [hr] at h; exact absurd h (by simp)
  | some p =>
    obtain ⟨it, v⟩ := p
    rw [hr] at h
    have hv : v = r := by simpa using h
    subst hv
    by_cases h0 : x = 0
    · subst h0
      have : v = ONE := by
        have := exp_zero.1; rw [this] at hr; exact ((Prod.mk.inj (Option.some.inj hr)).2).symm
      subst this
      have hz : toReal 0 = 0 := by simp [toReal]
      rw [toReal_ONE, hz, Real.exp_zero]
    · have hpos : 0 < x := by omega
      have hnn : ¬ x < 0 := by omega
      simp only [refExp, h0, hnn, if_false] at hr
      exact (refExpPos_le_exp x hpos it v hr).1

/-- **the full statement on the unit interval** (the domain of the leader-election exponent):
    for `0 < x ≤ 1` the computed `exp x` is never above the true value and at most `2.1·10^-24`
    below it (scaling exponent 1, ≤ 25 Taylor terms each ≤ 3 ulp short, remainder ≤ 2·EPS) -/
theorem exp_two_sided_unit_partial (x r : Int) (h0 : 0 < x) (h1 : x ≤ P) (h : expD x = some r) :
    toReal r ≤ Real.exp (toReal x) ∧ Real.exp (toReal x) ≤ toReal r + 21 / 10 ^ 25 :=
  exp_unit_two_sided x r h0 h1 h

/-- … i.e. `WithinErrorBoundFull` holds with the constant bound `4.3·10^-24` when restricted to
    `-1 ≤ x ≤ 1` (negative arguments add one truncating division of `1` by `exp(-x)`) -/
theorem within_error_bound_unit_partial (x r : Int) (h0 : -P ≤ x) (h1 : x ≤ P) (h : expD x = some r) :
    |toReal r - Real.exp (toReal x)| ≤ 43 / 10 ^ 25 := by
  rcases Int.lt_trichotomy x 0 with hx | hx | hx
  · exact exp_unit_neg_two_sided x r hx h0 h
  · subst hx
    have : r = ONE := by
      have := exp_zero.2; rw [this] at h; exact (Option.some.inj h).symm
    subst this
    have hz : toReal 0 = 0 := by simp [toReal]
    rw [toReal_ONE, hz, Real.exp_zero]; norm_num
  · obtain ⟨a, b⟩ := exp_unit_two_sided x r hx h1 h
    rw [abs_le]; constructor <;> linarith

/-! ## concrete digits (non-vacuity; the only value the pinned suite checks is exp 1) -/
example : expD ONE = some 27182818284590452353602874043083282 := by decide +kernel
example : expD (-ONE) = some 3678794411714423215955237792349248 := by decide +kernel
example : lnD (2 * ONE) = some 6931471805599453094172321818152860 := by decide +kernel
example : lnD 0 = none ∧ lnD (-ONE) = none := by decide +kernel
example : powD (2 * ONE) (10 * ONE) = some 10240000000000000000000004785057073557 := by decide +kernel
example : powD (-2 * ONE) (3 * ONE) = some (-79999999999999999999999979824238600) := by decide +kernel

end PallasVerif.Props.C15
