import PallasVerif.Proofs.Value
/-!
# C34 — Accepted transactions conserve value exactly

`Model/Value.lean` transcribes the value arithmetic of `utils.rs` and the preservation rule of every era.
Here the exact balance is stated with plain integer sums (`sumCoins`, `sumAssets`, `tot`: the quantity of one asset
in a value, summed over **all** entries with that key, so nothing is hidden by a look-up) and proved for every
list of spent values, produced values, fee and mint:

* `preservation_sound` — Alonzo, Babbage (`checkPreservation`);
* `preservation_sound_shelleyMA` — Shelley, Allegra, Mary (zero deposit / refund terms, as the property demands a
  transaction without certificates and withdrawals);
* `preservation_sound_conway` — Conway; the spent and produced values and the mint must have unique keys, which
  every decoded `BTreeMap` has (`Norm`, `NodupMA`: decidable, examples below);
* `byron_fees_sound` — Byron: outputs never exceed inputs, and (unless every input is a redeem address) inputs exceed
  outputs by at least `summand + multiplier * size`.

Each says: verdict `ok` ⇒ for ada and for every asset, spent + minted = produced + fee, in `Int`.
The counter-examples the unchanged tree accepted (DESIGN §6 #21) are rejected by the model of the fixed code
(`examples` at the end); they are replayed against the real code from `corpus/C34`.
-/
namespace PallasVerif.Props.C34
open PallasVerif.Value

def mintTot (mint : Option MA) (p n : String) : Int :=
  match mint with
  | some m => tot m p n
  | none => 0

/-- spent + minted = produced + fee, for ada and for every asset, in unbounded integers -/
def Balanced (ins outs : List Value) (fee : Int) (mint : Option MA) : Prop :=
  sumCoins ins = sumCoins outs + fee ∧
  ∀ p n, sumAssets ins p n + mintTot mint p n = sumAssets outs p n

theorem emptyValue_facts : coinOf emptyValue = 0 ∧ (∀ p n, assetTot emptyValue p n = 0) ∧
    isMultiV emptyValue = true ∧ Norm emptyValue :=
  ⟨rfl, fun _ _ => rfl, rfl, nodupMA_nil⟩

/-- **Alonzo, Babbage.** -/
theorem preservation_sound (ins outs : List Value) (fee : Int) (mint : Option MA)
    (h : checkPreservation ins outs fee mint = .ok) : Balanced ins outs fee mint := by
  have h := resOf_ok h
  simp only [R.bind_ok] at h
  obtain ⟨consumed, hc, produced, hp, output, ho, input, hi, heq⟩ := h
  simp only [R.ok.injEq] at heq
  obtain ⟨e0, e1, e2, e3⟩ := emptyValue_facts
  obtain ⟨cc, ca, cn⟩ := sumFrom_spec ins emptyValue consumed hc
  obtain ⟨pc, pa, pn⟩ := sumFrom_spec outs emptyValue produced hp
  obtain ⟨cm, cnorm⟩ := cn e2 e3
  obtain ⟨pm, pnorm⟩ := pn e2 e3
  obtain ⟨oc, oa, on⟩ := addValues_spec produced (.coin fee) output ho
  obtain ⟨_, onorm⟩ := on pm pnorm
  cases mint with
  | none =>
    simp only [R.ok.injEq] at hi; subst hi
    obtain ⟨qc, qa⟩ := valuesAreEqual_spec consumed output heq cnorm onorm
    refine ⟨by simp only [coinOf_coin] at oc; omega, ?_⟩
    intro p n
    have := qa p n; have := ca p n; have := pa p n; have := oa p n; have := e1 p n
    simp only [mintTot, assetTot_coin] at *; omega
  | some m =>
    simp only at hi
    obtain ⟨ic, ia, inn⟩ := addMintedValue_spec consumed input m hi
    obtain ⟨_, inorm⟩ := inn cm
    obtain ⟨qc, qa⟩ := valuesAreEqual_spec input output heq inorm onorm
    refine ⟨by simp only [coinOf_coin] at oc; omega, ?_⟩
    intro p n
    have := qa p n; have := ca p n; have := pa p n; have := oa p n; have := e1 p n; have := ia p n
    simp only [mintTot, assetTot_coin] at *; omega

/-- **Shelley, Allegra, Mary** (no certificates, no withdrawals: the deposit and refund terms are zero). -/
theorem preservation_sound_shelleyMA (shelley : Bool) (ins outs : List Value) (fee : Int) (mint : Option MA)
    (h : checkPreservationShelleyMA shelley ins outs fee mint = .ok) : Balanced ins outs fee mint := by
  obtain ⟨e0, e1, e2, e3⟩ := emptyValue_facts
  unfold checkPreservationShelleyMA at h
  split at h
  · cases h
  · cases h
  · cases h
  · rename_i r hr
    have hr := sumShelley_ok ins shelley emptyValue r hr
    obtain ⟨cc, ca, cn⟩ := sumFrom_spec ins emptyValue r hr
    obtain ⟨rm, rnorm⟩ := cn e2 e3
    split at h
    · cases h
    · cases h
    · rename_i consumed hcons
      simp only [R.bind_ok] at hcons
      obtain ⟨r2, hr2, hmint⟩ := hcons
      obtain ⟨c2, a2, n2⟩ := addValues_spec r (.coin 0) r2 hr2
      obtain ⟨r2m, r2norm⟩ := n2 rm rnorm
      split at h
      · cases h
      · cases h
      · cases h
      · rename_i pr hpr
        have hpr := sumShelley_ok outs shelley emptyValue pr hpr
        obtain ⟨pc, pa, pn⟩ := sumFrom_spec outs emptyValue pr hpr
        obtain ⟨pm, pnorm⟩ := pn e2 e3
        have h := resOf_ok h
        simp only [R.bind_ok, R.ok.injEq] at h
        obtain ⟨p2, hp2, produced, hp3, heq⟩ := h
        obtain ⟨c3, a3, n3⟩ := addValues_spec pr (.coin fee) p2 hp2
        obtain ⟨p2m, p2norm⟩ := n3 pm pnorm
        obtain ⟨c4, a4, n4⟩ := addValues_spec p2 (.coin 0) produced hp3
        obtain ⟨_, prodnorm⟩ := n4 p2m p2norm
        cases mint with
        | none =>
          simp only [R.ok.injEq] at hmint; subst hmint
          obtain ⟨qc, qa⟩ := valuesAreEqual_spec r2 produced heq r2norm prodnorm
          refine ⟨by simp only [coinOf_coin] at c2 c3 c4; omega, ?_⟩
          intro p n
          have := qa p n; have := ca p n; have := pa p n; have := a2 p n; have := a3 p n; have := a4 p n; have := e1 p n
          simp only [mintTot, assetTot_coin] at *; omega
        | some m =>
          simp only at hmint
          obtain ⟨ic, ia, inn⟩ := addMintedValue_spec r2 consumed m hmint
          obtain ⟨_, inorm⟩ := inn r2m
          obtain ⟨qc, qa⟩ := valuesAreEqual_spec consumed produced heq inorm prodnorm
          refine ⟨by simp only [coinOf_coin] at c2 c3 c4; omega, ?_⟩
          intro p n
          have := qa p n; have := ca p n; have := pa p n; have := a2 p n; have := a3 p n; have := a4 p n; have := e1 p n; have := ia p n
          simp only [mintTot, assetTot_coin] at *; omega

/-- **Conway.** -/
theorem preservation_sound_conway (ins outs : List Value) (fee : Int) (mint : Option MA)
    (hins : ∀ v ∈ ins, Norm v) (houts : ∀ v ∈ outs, Norm v) (hmint : ∀ m, mint = some m → NodupMA m)
    (h : checkPreservationConway ins outs fee mint = .ok) : Balanced ins outs fee mint := by
  unfold checkPreservationConway at h
  split at h
  · cases h
  · rename_i i is
    split at h
    · cases h
    · cases h
    · rename_i consumed hc
      split at h
      · cases h
      · rename_i o os
        have h := resOf_ok h
        simp only [R.bind_ok, R.ok.injEq] at h
        obtain ⟨produced, hp, output, ho, input, hi, heq⟩ := h
        obtain ⟨cc, ca, cn⟩ := conwaySumFrom_spec is i consumed hc
        obtain ⟨pc, pa, pn⟩ := conwaySumFrom_spec os o produced hp
        have cnorm := cn (hins i (by simp)) (fun v hv => hins v (List.mem_cons_of_mem _ hv))
        have pnorm := pn (houts o (by simp)) (fun v hv => houts v (List.mem_cons_of_mem _ hv))
        obtain ⟨oc, oa, on⟩ := conwayAddValues_spec produced (.coin fee) output ho
        have onorm := on pnorm nodupMA_nil
        cases mint with
        | none =>
          simp only [R.ok.injEq] at hi; subst hi
          obtain ⟨qc, qa⟩ := valuesAreEqual_spec consumed output heq cnorm onorm
          refine ⟨by simp only [coinOf_coin, sumCoins_cons] at *; omega, ?_⟩
          intro p n
          have := qa p n; have := ca p n; have := pa p n; have := oa p n
          simp only [mintTot, assetTot_coin, sumAssets_cons] at *; omega
        | some m =>
          simp only at hi
          obtain ⟨ic, ia, inn⟩ := conwayAddMintedNonZero_spec consumed input m hi
          have inorm := inn (hmint m rfl)
          obtain ⟨qc, qa⟩ := valuesAreEqual_spec input output heq inorm onorm
          refine ⟨by simp only [coinOf_coin, sumCoins_cons] at *; omega, ?_⟩
          intro p n
          have := qa p n; have := ca p n; have := pa p n; have := oa p n; have := ia p n
          simp only [mintTot, assetTot_coin, sumAssets_cons] at *; omega

/-- **Byron**: outputs never exceed inputs, and unless every input is a redeem address the difference covers the
    minimum fee `summand + multiplier * size`. -/
theorem byron_fees_sound (ins outs : List Int) (size summand multiplier : Int) (onlyRedeem : Bool)
    (h : byronCheckFees ins outs size summand multiplier onlyRedeem = .ok) :
    ins.sum - outs.sum ≥ 0 ∧ (onlyRedeem = false → ins.sum - outs.sum ≥ summand + multiplier * size) := by
  unfold byronCheckFees at h
  split at h
  · cases h
  · rename_i ib hib
    have e1 := sumU64_spec ins 0 ib hib
    split at h
    · cases h
    · rename_i ob hob
      have e2 := sumU64_spec outs 0 ob hob
      split at h
      · cases h
      · refine ⟨by omega, ?_⟩
        intro hr
        subst hr
        simp only [Bool.false_eq_true, if_false] at h
        split at h
        · cases h
        · split at h
          · cases h
          · split at h
            · cases h
            · omega

/-! ## The equality test must be the two-way inclusion -/

/-- the one-way variant (same number of policies + consumed side included in the produced side): not what the code has -/
def oneWayEqual (fma sma : MA) : Bool := fma.length == sma.length && multiAssetIncluded fma sma

/-- counter-model: inputs hold `p.a = 5`, outputs hold `p.a = 5` and `p.b = 1000000`, nothing minted. The one-way test calls the
    two sides equal, the model's `multiAssetsAreEqual` (two inclusions, as `multi_assets_are_equal` in utils.rs) does not, the
    rule rejects, and the transaction is indeed not balanced — `preservation_sound` could not be proved over `oneWayEqual`. -/
theorem one_way_inclusion_is_unsound :
    oneWayEqual [("p", [("a", 5)])] [("p", [("a", 5), ("b", 1000000)])] = true ∧
    multiAssetsAreEqual [("p", [("a", 5)])] [("p", [("a", 5), ("b", 1000000)])] = false ∧
    checkPreservation [.multi 9000000 [("p", [("a", 5)])]] [.multi 8800000 [("p", [("a", 5), ("b", 1000000)])]] 200000 none = .notPreserved ∧
    ¬ Balanced [.multi 9000000 [("p", [("a", 5)])]] [.multi 8800000 [("p", [("a", 5), ("b", 1000000)])]] 200000 none := by
  refine ⟨by decide, by decide, by decide, ?_⟩
  intro h
  have := h.2 "p" "b"
  revert this
  decide
-- the siblings: a name on the consumed side only, the same name under another policy, a zero quantity on one side (harmless)
example : checkPreservation [.multi 9000000 [("p", [("a", 5), ("b", 1)])]] [.multi 8800000 [("p", [("a", 5)])]] 200000 none = .notPreserved := by decide
example : checkPreservation [.multi 9000000 [("p", [("a", 5)])]] [.multi 8800000 [("q", [("a", 5)])]] 200000 none = .notPreserved := by decide
example : checkPreservation [.multi 9000000 [("p", [("a", 5)])]] [.multi 8800000 [("p", [("a", 5), ("b", 0)])]] 200000 none = .ok := by decide
example : checkPreservationShelleyMA false [.multi 9000000 [("p", [("a", 5)])]] [.multi 8800000 [("p", [("a", 5), ("b", 7)])]] 200000 none = .notPreserved := by decide

/-! ## Non-vacuity, and the witnesses of DESIGN §6 #21 on the fixed model -/
section examples
private def a5 : MA := [("05", [("01", 5)])]
example : checkPreservation [.multi 9000000 a5] [.multi 8800000 [("05", [("01", 3)])]] 200000
    (some [("05", [("01", -2)])]) = .ok := by decide
example : checkPreservation [.multi 9000000 a5] [.multi 8800000 a5] 200000 (some [("05", [("01", -2)])]) = .notPreserved := by decide
example : checkPreservationShelleyMA true [.coin 10, .coin 5] [.coin 12] 3 none = .ok := by decide
example : checkPreservationShelleyMA true [.coin 10, .multi 5 []] [.coin 12] 3 none = .wrongEra := by decide
example : checkPreservationConway [.coin 9000000] [.multi 8800000 [("33", [("4e", 7)])]] 200000
    (some [("33", [("4e", 7)])]) = .ok := by decide
/-- burn of an asset no input holds, "balanced" by an output carrying 2^64 - 1 of it: rejected now -/
example : checkPreservationConway [.multi 9000000 [("11", [("01", 3)])]]
    [.multi 8587734 [("05", [("01", 18446744073709551615)]), ("11", [("01", 3)])]] 412266
    (some [("05", [("01", -1)])]) = .negativeValue := by decide
/-- 12 + (2^64 - 6) of one asset spent, 6 produced: rejected now -/
example : checkPreservation [.multi 5000000 [("05", [("01", 12)])], .multi 5000000 [("05", [("01", 18446744073709551610)])]]
    [.multi 9999925 [("05", [("01", 6)])]] 75 none = .negativeValue := by decide
example : byronCheckFees [100, 50] [120] 10 5 2 false = .ok := by decide
example : byronCheckFees [100, 50] [126] 10 5 2 false = .feesBelowMin := by decide
example : byronCheckFees [100] [126] 10 5 2 false = .feesBelowMin := by decide
/-- redeem-only inputs are exempt from the minimum fee but not from the balance -/
example : byronCheckFees [100] [100] 10 5 2 true = .ok := by decide
example : byronCheckFees [100] [126] 10 5 2 true = .feesBelowMin := by decide
example : Norm (.multi 1 [("11", [("01", 3), ("02", 4)]), ("22", [("01", 1)])]) := by
  refine ⟨by decide, ?_⟩; intro e he; simp [maOf] at he; rcases he with rfl | rfl <;> decide
end examples

end PallasVerif.Props.C34
