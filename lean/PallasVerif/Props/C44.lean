import PallasVerif.Model.U5c
import PallasVerif.Model.U5cTx
/-!
# C44 — UTxO RPC mapping preserves ledger content

`Model/U5c.lean` transcribes the numeric conversions and the recursive datum mapping shared by the
v1alpha and v1beta mappers, as the code stands after `fix: utxorpc maps Plutus integers outside i64
to big-integer bytes`.

* `bigint_exact` — for **every** Plutus integer (CBOR integers of any size, big-integer byte
  strings of any length) the mapped value denotes the same integer;
* `bigint_small_as_int`, `bigint_large_as_bytes`, `bigint_result_fits` — values inside `i64` come
  out as `Int`, values outside as big-integer bytes, and an `Int` result always fits `i64`:
  nothing is truncated;
* `u64_exact`, `i64_exact` — the two scalar helpers are exact on their whole domain;
* `datum_map_preserves` — by mutual structural induction, the mapped datum has the same content
  (constructor tag / alternative, fields, map pairs in order, array items in order, integers by
  value, byte strings) as the source, for every datum whose constructor tags fit the schema's
  `u32` (`TagsOk`; ledger tags are 102, 121–127, 1280–1400).
* `unfixed_truncates_at_witness` — the code before the repair (`i128::from(x) as i64`) maps 2^63 to
  −2^63 and −2^64 to 0 (DESIGN §6 #29).

* `map_tx_preserves`, `map_block_preserves` — `Model/U5cTx.lean` transcribes `map_tx`, `map_tx_output`,
  `map_tx_datum`, `map_tx_input`, `map_policy_assets`/`map_asset`, `map_any_script`, `map_redeemer`,
  `map_withdrawals`, `map_block` as a projection from the ledger view of a transaction (what the
  mapper reads through pallas-traverse) to the message (one model for both schema versions: they
  build the same content). For every view within the ledger's ranges (`TxWf`): hash, inputs /
  collateral / reference inputs, every output (address bytes, coin, assets, datum hash / inline
  content / original bytes, script), collateral return, fee, total collateral, validity interval,
  mint, withdrawals, certificate count, witness datums, redeemers and the validity flag of the
  message equal the ledger's. `input_index_truncates_at_witness` shows the one place where the
  projection loses information outside `TxWf` (`index as u32`).

Outside the model (the stream `u5c` ties the model to both mappers on every transaction of every
block / tx file of `test_data` and on generated transactions, and an oracle re-extracts each field):
how pallas-traverse reads the view from bytes, the prost wrappers and the version-specific extras
(`original_cbor` of outputs / redeemers, v1beta-only witness redeemers and bootstrap witnesses), the
contents of certificates, governance actions, auxiliary data and protocol parameters, resolved
inputs (`as_output`).
-/
namespace PallasVerif.Props.C44
open PallasVerif.U5c PallasVerif.U5cTx

/-! ## byte strings and numbers -/

theorem beNat_append_single (l : Bytes) (d : Nat) : beNat (l ++ [d]) = beNat l * 256 + d := by
  simp [beNat, List.foldl_append]

theorem beNat_natToBytesF (fuel n : Nat) (h : n ≤ fuel) : beNat (natToBytesF fuel n) = n := by
  induction fuel generalizing n with
  | zero =>
    have : n = 0 := by omega
    subst this; simp [natToBytesF, beNat]
  | succ fuel ih =>
    unfold natToBytesF
    by_cases hn : n = 0
    · subst hn; simp [beNat]
    · simp only [hn, ↓reduceIte]
      rw [beNat_append_single, ih (n / 256) (by omega)]
      omega

theorem beNat_natToBytes (n : Nat) : beNat (natToBytes n) = n :=
  beNat_natToBytesF n n (Nat.le_refl n)

theorem beNat_be8 (v : Nat) (h : v < 18446744073709551616) : beNat (be8 v) = v := by
  simp only [be8, beNat, List.foldl_cons, List.foldl_nil]
  omega

/-! ## integers -/

/-- Every Plutus integer is represented exactly. -/
theorem bigint_exact (i : PInt) : (mapPlutusBigInt i).val = i.val := by
  cases i with
  | bigUInt b => rfl
  | bigNInt b => rfl
  | int v =>
    simp only [mapPlutusBigInt]
    cases hf : fitsI64 v with
    | true => simp [UInt.val, PInt.val]
    | false =>
      by_cases hv : v ≥ 0
      · simp only [hv, ↓reduceIte, UInt.val, PInt.val, beNat_natToBytes, Bool.false_eq_true]; omega
      · simp only [hv, ↓reduceIte, UInt.val, PInt.val, beNat_natToBytes, Bool.false_eq_true]; omega

/-- small values come out as integers -/
theorem bigint_small_as_int (v : Int) (h1 : i64Min ≤ v) (h2 : v ≤ i64Max) :
    mapPlutusBigInt (.int v) = .int v := by
  simp [mapPlutusBigInt, fitsI64, h1, h2]

/-- larger ones as big-integer bytes (`BigUInt` above, `BigNInt` below) -/
theorem bigint_large_as_bytes (v : Int) :
    (i64Max < v → ∃ b, mapPlutusBigInt (.int v) = .bigUInt b) ∧
    (v < i64Min → ∃ b, mapPlutusBigInt (.int v) = .bigNInt b) := by
  constructor
  · intro h
    have hf : fitsI64 v = false := by simp [fitsI64]; intro _; omega
    have : v ≥ 0 := by unfold i64Max at h; omega
    exact ⟨natToBytes v.toNat, by simp [mapPlutusBigInt, hf, this]⟩
  · intro h
    have hf : fitsI64 v = false := by simp [fitsI64]; omega
    have : ¬ v ≥ 0 := by unfold i64Min at h; omega
    exact ⟨natToBytes (-1 - v).toNat, by simp [mapPlutusBigInt, hf, this]⟩

/-- an `Int` result always fits the schema's `int64`: nothing is truncated into it -/
theorem bigint_result_fits (i : PInt) (v : Int) (h : mapPlutusBigInt i = .int v) :
    i = .int v ∧ fitsI64 v = true := by
  cases i with
  | bigUInt b => simp [mapPlutusBigInt] at h
  | bigNInt b => simp [mapPlutusBigInt] at h
  | int w =>
    simp only [mapPlutusBigInt] at h
    cases hf : fitsI64 w with
    | true => simp only [hf, ↓reduceIte, UInt.int.injEq] at h; subst h; exact ⟨rfl, hf⟩
    | false =>
      simp only [hf, Bool.false_eq_true, ↓reduceIte] at h
      split at h <;> cases h

/-- `u64_to_bigint` is exact on all of `u64` -/
theorem u64_exact (v : Nat) (h : v < 18446744073709551616) : (u64ToBigInt v).val = v := by
  unfold u64ToBigInt
  split
  · rfl
  · simp only [UInt.val, beNat_be8 v h]

/-- and yields an `Int` only when it fits -/
theorem u64_int_fits (v : Nat) (w : Int) (h : u64ToBigInt v = .int w) : fitsI64 w = true := by
  unfold u64ToBigInt at h
  split at h
  · next hle => cases h; simp [fitsI64, hle, i64Min]
  · cases h

theorem i64_exact (v : Int) : (i64ToBigInt v).val = v := rfl

/-! ## the code before the repair -/

/-- `i128::from(x) as i64`: two's-complement truncation -/
def wrapI64 (v : Int) : Int := (v + 9223372036854775808) % 18446744073709551616 - 9223372036854775808

def Unfixed.mapPlutusBigInt : PInt → UInt
  | .int v => .int (wrapI64 v)
  | .bigUInt b => .bigUInt b
  | .bigNInt b => .bigNInt b

/-- DESIGN §6 #29: 2^63 became −2^63 and −2^64 became 0 -/
theorem unfixed_truncates_at_witness :
    (Unfixed.mapPlutusBigInt (.int 9223372036854775808)).val = -9223372036854775808 ∧
    (Unfixed.mapPlutusBigInt (.int (-18446744073709551616))).val = 0 ∧
    (mapPlutusBigInt (.int 9223372036854775808)).val = 9223372036854775808 ∧
    (mapPlutusBigInt (.int (-18446744073709551616))).val = -18446744073709551616 := by
  refine ⟨by decide, by decide, ?_, ?_⟩ <;> rw [bigint_exact] <;> rfl

/-! ## datums -/

/-- the content of a datum, independent of either representation -/
inductive Val where
  | constr (tag alt : Nat) (fields : List Val)
  | map (pairs : List (Val × Val))
  | array (items : List Val)
  | int (v : Int)
  | bytes (b : Bytes)

mutual
def denoteP : PData → Val
  | .constr tag any fields => .constr tag (any.getD 0) (denotePs fields)
  | .map pairs => .map (denotePPairs pairs)
  | .array items => .array (denotePs items)
  | .bigInt i => .int i.val
  | .bytes b => .bytes b
def denotePs : List PData → List Val
  | [] => []
  | d :: t => denoteP d :: denotePs t
def denotePPairs : List (PData × PData) → List (Val × Val)
  | [] => []
  | (k, v) :: t => (denoteP k, denoteP v) :: denotePPairs t
end

mutual
def denoteU : UData → Val
  | .constr tag any fields => .constr tag any (denoteUs fields)
  | .map pairs => .map (denoteUPairs pairs)
  | .array items => .array (denoteUs items)
  | .bigInt i => .int i.val
  | .bytes b => .bytes b
def denoteUs : List UData → List Val
  | [] => []
  | d :: t => denoteU d :: denoteUs t
def denoteUPairs : List (UData × UData) → List (Val × Val)
  | [] => []
  | (k, v) :: t => (denoteU k, denoteU v) :: denoteUPairs t
end

mutual
/-- every constructor tag fits the schema's `uint32` -/
def TagsOk : PData → Prop
  | .constr tag _ fields => tag < 4294967296 ∧ TagsOkL fields
  | .map pairs => TagsOkP pairs
  | .array items => TagsOkL items
  | .bigInt _ => True
  | .bytes _ => True
def TagsOkL : List PData → Prop
  | [] => True
  | d :: t => TagsOk d ∧ TagsOkL t
def TagsOkP : List (PData × PData) → Prop
  | [] => True
  | (k, v) :: t => TagsOk k ∧ TagsOk v ∧ TagsOkP t
end

mutual
theorem datum_map_preserves (d : PData) (h : TagsOk d) : denoteU (mapDatum d) = denoteP d := by
  cases d with
  | constr tag any fields =>
    simp only [TagsOk] at h
    simp only [mapDatum, denoteU, denoteP, datums_map_preserve fields h.2, Nat.mod_eq_of_lt h.1]
  | map pairs =>
    simp only [TagsOk] at h
    simp only [mapDatum, denoteU, denoteP, pairs_map_preserve pairs h]
  | array items =>
    simp only [TagsOk] at h
    simp only [mapDatum, denoteU, denoteP, datums_map_preserve items h]
  | bigInt i => simp only [mapDatum, denoteU, denoteP, bigint_exact]
  | bytes b => simp only [mapDatum, denoteU, denoteP]
theorem datums_map_preserve (l : List PData) (h : TagsOkL l) : denoteUs (mapDatums l) = denotePs l := by
  cases l with
  | nil => simp only [mapDatums, denoteUs, denotePs]
  | cons d t =>
    simp only [TagsOkL] at h
    simp only [mapDatums, denoteUs, denotePs, datum_map_preserves d h.1, datums_map_preserve t h.2]
theorem pairs_map_preserve (l : List (PData × PData)) (h : TagsOkP l) : denoteUPairs (mapPairs l) = denotePPairs l := by
  cases l with
  | nil => simp only [mapPairs, denoteUPairs, denotePPairs]
  | cons p t =>
    obtain ⟨k, v⟩ := p
    simp only [TagsOkP] at h
    simp only [mapPairs, denoteUPairs, denotePPairs, datum_map_preserves k h.1, datum_map_preserves v h.2.1,
      pairs_map_preserve t h.2.2]
end

/-! ## Non-vacuity -/
example : mapPlutusBigInt (.int 9223372036854775808) = .bigUInt [128, 0, 0, 0, 0, 0, 0, 0] := by decide
example : mapPlutusBigInt (.int (-9223372036854775809)) = .bigNInt [128, 0, 0, 0, 0, 0, 0, 0] := by decide
example : mapPlutusBigInt (.int (-18446744073709551616)) = .bigNInt [255, 255, 255, 255, 255, 255, 255, 255] := by decide
example : mapPlutusBigInt (.int (-9223372036854775808)) = .int (-9223372036854775808) := by decide
example : u64ToBigInt 18446744073709551615 = .bigUInt [255, 255, 255, 255, 255, 255, 255, 255] := by decide
example : u64ToBigInt 9223372036854775807 = .int 9223372036854775807 := by decide
example : TagsOk (.constr 121 none [.bigInt (.int 18446744073709551615), .map [(.bytes [1], .array [])]]) := by
  simp [TagsOk, TagsOkL, TagsOkP]

/-! ## `map_tx` / `map_block`: every projected field equals the ledger field -/

def u64Bound : Nat := 18446744073709551616

/-- quantities by value -/
def assetVals (m : List (Bytes × List (Bytes × UInt))) : List (Bytes × List (Bytes × Int)) :=
  m.map (fun p => (p.1, p.2.map (fun a => (a.1, a.2.val))))

/-- the ledger-side ranges: `u64` coins and quantities, tags that fit the schema (`TagsOk`) -/
def OutputWf (o : LOutput) : Prop :=
  o.coin < u64Bound ∧ (∀ p ∈ o.assets, ∀ a ∈ p.2, a.2 < u64Bound) ∧
  (∀ c d, o.datum = some (.inline c d) → TagsOk d)

def TxWf (t : LTx) : Prop :=
  (∀ i ∈ t.inputs ++ t.collateral ++ t.referenceInputs, i.index < 4294967296) ∧
  (∀ o ∈ t.outputs, OutputWf o) ∧ (∀ o, t.collateralReturn = some o → OutputWf o) ∧
  t.fee.getD 0 < u64Bound ∧ t.totalCollateral.getD 0 < u64Bound ∧
  (∀ w ∈ t.withdrawals, w.2 < u64Bound) ∧ (∀ d ∈ t.witnessDatums, TagsOk d.2) ∧ (∀ r ∈ t.redeemers, TagsOk r.data)

theorem mapInput_exact (i : LInput) (h : i.index < 4294967296) :
    (mapInput i).txHash = i.hash ∧ (mapInput i).outputIndex = i.index := by
  simp [mapInput, Nat.mod_eq_of_lt h]

theorem mapInputs_exact (l : List LInput) (h : ∀ i ∈ l, i.index < 4294967296) :
    (l.map mapInput).map (fun u => (u.txHash, u.outputIndex)) = l.map (fun i => (i.hash, i.index)) := by
  rw [List.map_map]
  apply List.map_congr_left
  intro i hi
  simp [mapInput, Nat.mod_eq_of_lt (h i hi)]

theorem outputAssets_exact (m : LAssets Nat) (h : ∀ p ∈ m, ∀ a ∈ p.2, a.2 < u64Bound) :
    assetVals (mapOutputAssets m) = m.map (fun p => (p.1, p.2.map (fun a => (a.1, (a.2 : Int))))) := by
  unfold assetVals mapOutputAssets
  rw [List.map_map]
  apply List.map_congr_left
  intro p hp
  simp only [Function.comp, List.map_map, Prod.mk.injEq, true_and]
  apply List.map_congr_left
  intro a ha
  simp [Function.comp, u64_exact a.2 (h p hp a ha)]

theorem mintNames_exact (l : List (Bytes × Int)) :
    (l.map (fun a => (a.1, i64ToBigInt a.2))).map (fun a => (a.1, a.2.val)) = l := by
  induction l with
  | nil => rfl
  | cons a t ih => simp only [List.map_cons, ih, i64_exact]

theorem mintAssets_exact (m : LAssets Int) : assetVals (mapMintAssets m) = m := by
  induction m with
  | nil => rfl
  | cons p t ih =>
    unfold assetVals mapMintAssets at ih ⊢
    simp only [List.map_cons, ih, mintNames_exact]

/-- what an output's datum must carry over -/
def DatumPreserved (witness : List (Bytes × PData)) : Option LDatum → UDatum → Prop
  | none, u => u.hash = [] ∧ u.payload = none ∧ u.originalCbor = []
  | some (.hash h), u => u.hash = h ∧ u.originalCbor = [] ∧
      (match findDatum witness h with
       | none => u.payload = none
       | some d => ∃ p, u.payload = some p ∧ (TagsOk d → denoteU p = denoteP d))
  | some (.inline c d), u => u.hash = datumHash c ∧ u.originalCbor = c ∧
      ∃ p, u.payload = some p ∧ (TagsOk d → denoteU p = denoteP d)

theorem mapTxDatum_preserves (witness : List (Bytes × PData)) (d : Option LDatum) :
    DatumPreserved witness d (mapTxDatum witness d) := by
  cases d with
  | none => simp [DatumPreserved, mapTxDatum]
  | some x =>
    cases x with
    | hash h =>
      simp only [DatumPreserved, mapTxDatum, true_and]
      cases hf : findDatum witness h with
      | none => simp
      | some d => exact ⟨mapDatum d, by simp, fun ht => datum_map_preserves d ht⟩
    | inline c d =>
      exact ⟨rfl, rfl, mapDatum d, rfl, fun ht => datum_map_preserves d ht⟩

/-- an output keeps its address bytes, coin, assets (policy, name, quantity by value, in order),
    datum (hash / inline content / original bytes) and script reference -/
def OutputPreserved (witness : List (Bytes × PData)) (o : LOutput) (u : UOutput) : Prop :=
  u.address = o.address ∧ u.coin.val = o.coin ∧
  assetVals u.assets = o.assets.map (fun p => (p.1, p.2.map (fun a => (a.1, (a.2 : Int))))) ∧
  DatumPreserved witness o.datum u.datum ∧
  (match o.script, u.script with
   | none, none => True
   | some (.native s), some (.native s') => s' = s
   | some (.plutus v b), some (.plutus v' b') => v' = v ∧ b' = b
   | _, _ => False)

theorem mapOutput_preserves (witness : List (Bytes × PData)) (o : LOutput) (h : OutputWf o) :
    OutputPreserved witness o (mapOutput witness o) := by
  refine ⟨rfl, u64_exact o.coin h.1, outputAssets_exact o.assets h.2.1, mapTxDatum_preserves witness o.datum, ?_⟩
  simp only [mapOutput]
  cases o.script with
  | none => simp
  | some s => cases s <;> simp [mapScript]

/-- position by position -/
inductive Forall2 {α β : Type} (R : α → β → Prop) : List α → List β → Prop
  | nil : Forall2 R [] []
  | cons {a : α} {b : β} {as : List α} {bs : List β} : R a b → Forall2 R as bs → Forall2 R (a :: as) (b :: bs)

theorem forall2_map {α β : Type} (R : α → β → Prop) (f : α → β) (l : List α) (h : ∀ a ∈ l, R a (f a)) :
    Forall2 R l (l.map f) := by
  induction l with
  | nil => exact .nil
  | cons a t ih => exact .cons (h a (by simp)) (ih (fun x hx => h x (by simp [hx])))

/-- **`map_tx` preserves the ledger content**, for every transaction view within the ledger's ranges
    (`TxWf`), in either schema version (they share this projection): hash; inputs, collateral and
    reference inputs as (transaction id, index), in order; every output (address bytes, coin, assets,
    datum, script) and the collateral return; fee and total collateral by value; validity interval;
    mint (policy, name, signed quantity); withdrawals; number of certificates; witness datums and
    redeemer payloads by content; validity flag. -/
theorem map_tx_preserves (t : LTx) (h : TxWf t) :
    (mapTx t).hash = t.hash ∧
    (mapTx t).inputs.map (fun u => (u.txHash, u.outputIndex)) = t.inputs.map (fun i => (i.hash, i.index)) ∧
    (mapTx t).collateral.map (fun u => (u.txHash, u.outputIndex)) = t.collateral.map (fun i => (i.hash, i.index)) ∧
    (mapTx t).referenceInputs.map (fun u => (u.txHash, u.outputIndex)) = t.referenceInputs.map (fun i => (i.hash, i.index)) ∧
    Forall2 (OutputPreserved t.witnessDatums) t.outputs (mapTx t).outputs ∧
    (match t.collateralReturn, (mapTx t).collateralReturn with
      | none, none => True
      | some o, some u => OutputPreserved t.witnessDatums o u
      | _, _ => False) ∧
    (mapTx t).fee.val = t.fee.getD 0 ∧ (mapTx t).totalCollateral.val = t.totalCollateral.getD 0 ∧
    (mapTx t).validityStart = t.validityStart.getD 0 ∧ (mapTx t).ttl = t.ttl.getD 0 ∧
    assetVals (mapTx t).mint = t.mint ∧
    (mapTx t).withdrawals.map (fun w => (w.1, w.2.val)) = t.withdrawals.map (fun w => (w.1, (w.2 : Int))) ∧
    (mapTx t).certs = t.certs ∧
    (mapTx t).witnessDatums.map denoteU = t.witnessDatums.map (fun d => denoteP d.2) ∧
    Forall2 (fun (r : LRedeemer) (u : URedeemer) => u.purpose = r.tag + 1 ∧ u.index = r.index ∧ u.mem = r.mem ∧
      u.steps = r.steps ∧ denoteU u.payload = denoteP r.data) t.redeemers (mapTx t).redeemers ∧
    (mapTx t).successful = t.isValid := by
  obtain ⟨hidx, hout, hcr, hfee, htc, hwd, hpd, hrd⟩ := h
  refine ⟨rfl, ?_, ?_, ?_, ?_, ?_, u64_exact _ hfee, u64_exact _ htc, rfl, rfl, mintAssets_exact t.mint, ?_, rfl, ?_, ?_, rfl⟩
  · exact mapInputs_exact _ (fun i hi => hidx i (by simp [hi]))
  · exact mapInputs_exact _ (fun i hi => hidx i (by simp [hi]))
  · exact mapInputs_exact _ (fun i hi => hidx i (by simp [hi]))
  · exact forall2_map _ _ _ (fun o ho => mapOutput_preserves _ o (hout o ho))
  · simp only [mapTx]
    cases hc : t.collateralReturn with
    | none => simp
    | some o => simpa using mapOutput_preserves _ o (hcr o hc)
  · simp only [mapTx, List.map_map]
    apply List.map_congr_left
    intro w hw
    simp [Function.comp, u64_exact w.2 (hwd w hw)]
  · simp only [mapTx, List.map_map]
    apply List.map_congr_left
    intro d hd
    simp [Function.comp, datum_map_preserves d.2 (hpd d hd)]
  · exact forall2_map _ _ _ (fun r hr => ⟨rfl, rfl, rfl, rfl, datum_map_preserves r.data (hrd r hr)⟩)

/-- `map_block`: slot, hash, height and the transactions in order, each mapped by `map_tx` -/
theorem map_block_preserves (b : LBlock) :
    (mapBlock b).slot = b.slot ∧ (mapBlock b).hash = b.hash ∧ (mapBlock b).height = b.height ∧
    (mapBlock b).txs = b.txs.map mapTx := ⟨rfl, rfl, rfl, rfl⟩

/-- where the projection is *not* faithful: an output index that does not fit the schema's `uint32`
    is truncated (`index() as u32`) — outside `TxWf` -/
theorem input_index_truncates_at_witness :
    (mapInput { hash := [1], index := 4294967296 }).outputIndex = 0 := by decide

/-! ### non-vacuity -/
def exOut : LOutput :=
  { address := [97], coin := 18446744073709551615, assets := [([5], [([65], 9223372036854775808)])],
    datum := some (.inline [24, 42] (.bigInt (.int 18446744073709551615))), script := some (.plutus 2 [1, 2]) }

def exTx : LTx :=
  { hash := [9], inputs := [⟨[1], 0⟩, ⟨[1], 7⟩], outputs := [exOut], fee := some 170000, validityStart := none, ttl := some 5,
    mint := [([5], [([65], -9223372036854775808)])], collateral := [], collateralReturn := none, totalCollateral := none,
    referenceInputs := [], withdrawals := [([224], 3)], certs := 1,
    witnessDatums := [([7], .constr 121 none [.bytes [1]])], redeemers := [], isValid := true }

example : TxWf exTx := by
  refine ⟨by simp [exTx], ?_, by simp [exTx], by simp [exTx, u64Bound], by simp [exTx, u64Bound], by simp [exTx, u64Bound], ?_, by simp [exTx]⟩
  · intro o ho
    simp only [exTx, List.mem_singleton] at ho
    subst ho
    refine ⟨by simp [exOut, u64Bound], by simp [exOut, u64Bound], ?_⟩
    intro c d h
    simp only [exOut, Option.some.injEq, LDatum.inline.injEq] at h
    obtain ⟨_, rfl⟩ := h
    simp [TagsOk]
  · intro d hd
    simp only [exTx, List.mem_singleton] at hd
    subst hd
    simp [TagsOk, TagsOkL]

example : (mapTx exTx).fee = .int 170000 ∧ ((mapTx exTx).outputs.map (·.coin)) = [.bigUInt [255, 255, 255, 255, 255, 255, 255, 255]] := by decide

end PallasVerif.Props.C44
