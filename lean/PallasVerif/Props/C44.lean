import PallasVerif.Model.U5c
/-!
# C44 — UTxO RPC mapping preserves ledger content

`Model/U5c.lean` transcribes the numeric conversions and the recursive datum mapping shared by the
v1alpha and v1beta mappers, as the code stands after `fix: utxorpc maps Plutus integers outside i64
to big-integer bytes`.

* `bigint_exact` — for **every** Plutus integer (CBOR integers of any size, big-integer byte
  strings of any length) the mapped value denotes the same integer;
* `bigint_small_as_int`, `bigint_large_as_bytes`, `bigint_result_fits` — values inside `i64` come
  out as `Int`, values outside as big-integer bytes, and an `Int` result always fits `i64`:
  nothing is truncated;
* `u64_exact`, `i64_exact` — the two scalar helpers are exact on their whole domain;
* `datum_map_preserves` — by mutual structural induction, the mapped datum has the same content
  (constructor tag / alternative, fields, map pairs in order, array items in order, integers by
  value, byte strings) as the source, for every datum whose constructor tags fit the schema's
  `u32` (`TagsOk`; ledger tags are 102, 121–127, 1280–1400).
* `unfixed_truncates_at_witness` — the code before the repair (`i128::from(x) as i64`) maps 2^63 to
  −2^63 and −2^64 to 0 (DESIGN §6 #29).

Only sampled by the stream `u5c` (oracle in the harness, no Lean model): `map_tx`, `map_tx_output`,
`map_block` on all blocks and transactions of `test_data` in both schema versions — hash, inputs,
outputs (address, coin, assets), fee, validity, datums — and generated transactions carrying
datums with integers over the full CBOR range. That is why the claimed level is `other`.
-/
namespace PallasVerif.Props.C44
open PallasVerif.U5c

/-! ## byte strings and numbers -/

theorem beNat_append_single (l : Bytes) (d : Nat) : beNat (l ++ [d]) = beNat l * 256 + d := by
  simp [beNat, List.foldl_append]

theorem beNat_natToBytesF (fuel n : Nat) (h : n ≤ fuel) : beNat (natToBytesF fuel n) = n := by
  induction fuel generalizing n with
  | zero =>
    have : n = 0 := by omega
    subst this; simp [natToBytesF, beNat]
  | succ fuel ih =>
    unfold natToBytesF
    by_cases hn : n = 0
    · subst hn; simp [beNat]
    · simp only [hn, ↓reduceIte]
      rw [beNat_append_single, ih (n / 256) (by omega)]
      omega

theorem beNat_natToBytes (n : Nat) : beNat (natToBytes n) = n :=
  beNat_natToBytesF n n (Nat.le_refl n)

theorem beNat_be8 (v : Nat) (h : v < 18446744073709551616) : beNat (be8 v) = v := by
  simp only [be8, beNat, List.foldl_cons, List.foldl_nil]
  omega

/-! ## integers -/

/-- Every Plutus integer is represented exactly. -/
theorem bigint_exact (i : PInt) : (mapPlutusBigInt i).val = i.val := by
  cases i with
  | bigUInt b => rfl
  | bigNInt b => rfl
  | int v =>
    simp only [mapPlutusBigInt]
    cases hf : fitsI64 v with
    | true => simp [UInt.val, PInt.val]
    | false =>
      by_cases hv : v ≥ 0
      · simp only [hv, ↓reduceIte, UInt.val, PInt.val, beNat_natToBytes, Bool.false_eq_true]; omega
      · simp only [hv, ↓reduceIte, UInt.val, PInt.val, beNat_natToBytes, Bool.false_eq_true]; omega

/-- small values come out as integers -/
theorem bigint_small_as_int (v : Int) (h1 : i64Min ≤ v) (h2 : v ≤ i64Max) :
    mapPlutusBigInt (.int v) = .int v := by
  simp [mapPlutusBigInt, fitsI64, h1, h2]

/-- larger ones as big-integer bytes (`BigUInt` above, `BigNInt` below) -/
theorem bigint_large_as_bytes (v : Int) :
    (i64Max < v → ∃ b, mapPlutusBigInt (.int v) = .bigUInt b) ∧
    (v < i64Min → ∃ b, mapPlutusBigInt (.int v) = .bigNInt b) := by
  constructor
  · intro h
    have hf : fitsI64 v = false := by simp [fitsI64]; intro _; omega
    have : v ≥ 0 := by unfold i64Max at h; omega
    exact ⟨natToBytes v.toNat, by simp [mapPlutusBigInt, hf, this]⟩
  · intro h
    have hf : fitsI64 v = false := by simp [fitsI64]; omega
    have : ¬ v ≥ 0 := by unfold i64Min at h; omega
    exact ⟨natToBytes (-1 - v).toNat, by simp [mapPlutusBigInt, hf, this]⟩

/-- an `Int` result always fits the schema's `int64`: nothing is truncated into it -/
theorem bigint_result_fits (i : PInt) (v : Int) (h : mapPlutusBigInt i = .int v) :
    i = .int v ∧ fitsI64 v = true := by
  cases i with
  | bigUInt b => simp [mapPlutusBigInt] at h
  | bigNInt b => simp [mapPlutusBigInt] at h
  | int w =>
    simp only [mapPlutusBigInt] at h
    cases hf : fitsI64 w with
    | true => simp only [hf, ↓reduceIte, UInt.int.injEq] at h; subst h; exact ⟨rfl, hf⟩
    | false =>
      simp only [hf, Bool.false_eq_true, ↓reduceIte] at h
      split at h <;> cases h

/-- `u64_to_bigint` is exact on all of `u64` -/
theorem u64_exact (v : Nat) (h : v < 18446744073709551616) : (u64ToBigInt v).val = v := by
  unfold u64ToBigInt
  split
  · rfl
  · simp only [UInt.val, beNat_be8 v h]

/-- and yields an `Int` only when it fits -/
theorem u64_int_fits (v : Nat) (w : Int) (h : u64ToBigInt v = .int w) : fitsI64 w = true := by
  unfold u64ToBigInt at h
  split at h
  · next hle => cases h; simp [fitsI64, hle, i64Min]
  · cases h

theorem i64_exact (v : Int) : (i64ToBigInt v).val = v := rfl

/-! ## the code before the repair -/

/-- `i128::from(x) as i64`: two's-complement truncation -/
def wrapI64 (v : Int) : Int := (v + 9223372036854775808) % 18446744073709551616 - 9223372036854775808

def Unfixed.mapPlutusBigInt : PInt → UInt
  | .int v => .int (wrapI64 v)
  | .bigUInt b => .bigUInt b
  | .bigNInt b => .bigNInt b

/-- DESIGN §6 #29: 2^63 became −2^63 and −2^64 became 0 -/
theorem unfixed_truncates_at_witness :
    (Unfixed.mapPlutusBigInt (.int 9223372036854775808)).val = -9223372036854775808 ∧
    (Unfixed.mapPlutusBigInt (.int (-18446744073709551616))).val = 0 ∧
    (mapPlutusBigInt (.int 9223372036854775808)).val = 9223372036854775808 ∧
    (mapPlutusBigInt (.int (-18446744073709551616))).val = -18446744073709551616 := by
  refine ⟨by decide, by decide, ?_, ?_⟩ <;> rw [bigint_exact] <;> rfl

/-! ## datums -/

/-- the content of a datum, independent of either representation -/
inductive Val where
  | constr (tag alt : Nat) (fields : List Val)
  | map (pairs : List (Val × Val))
  | array (items : List Val)
  | int (v : Int)
  | bytes (b : Bytes)

mutual
def denoteP : PData → Val
  | .constr tag any fields => .constr tag (any.getD 0) (denotePs fields)
  | .map pairs => .map (denotePPairs pairs)
  | .array items => .array (denotePs items)
  | .bigInt i => .int i.val
  | .bytes b => .bytes b
def denotePs : List PData → List Val
  | [] => []
  | d :: t => denoteP d :: denotePs t
def denotePPairs : List (PData × PData) → List (Val × Val)
  | [] => []
  | (k, v) :: t => (denoteP k, denoteP v) :: denotePPairs t
end

mutual
def denoteU : UData → Val
  | .constr tag any fields => .constr tag any (denoteUs fields)
  | .map pairs => .map (denoteUPairs pairs)
  | .array items => .array (denoteUs items)
  | .bigInt i => .int i.val
  | .bytes b => .bytes b
def denoteUs : List UData → List Val
  | [] => []
  | d :: t => denoteU d :: denoteUs t
def denoteUPairs : List (UData × UData) → List (Val × Val)
  | [] => []
  | (k, v) :: t => (denoteU k, denoteU v) :: denoteUPairs t
end

mutual
/-- every constructor tag fits the schema's `uint32` -/
def TagsOk : PData → Prop
  | .constr tag _ fields => tag < 4294967296 ∧ TagsOkL fields
  | .map pairs => TagsOkP pairs
  | .array items => TagsOkL items
  | .bigInt _ => True
  | .bytes _ => True
def TagsOkL : List PData → Prop
  | [] => True
  | d :: t => TagsOk d ∧ TagsOkL t
def TagsOkP : List (PData × PData) → Prop
  | [] => True
  | (k, v) :: t => TagsOk k ∧ TagsOk v ∧ TagsOkP t
end

mutual
theorem datum_map_preserves (d : PData) (h : TagsOk d) : denoteU (mapDatum d) = denoteP d := by
  cases d with
  | constr tag any fields =>
    simp only [TagsOk] at h
    simp only [mapDatum, denoteU, denoteP, datums_map_preserve fields h.2, Nat.mod_eq_of_lt h.1]
  | map pairs =>
    simp only [TagsOk] at h
    simp only [mapDatum, denoteU, denoteP, pairs_map_preserve pairs h]
  | array items =>
    simp only [TagsOk] at h
    simp only [mapDatum, denoteU, denoteP, datums_map_preserve items h]
  | bigInt i => simp only [mapDatum, denoteU, denoteP, bigint_exact]
  | bytes b => simp only [mapDatum, denoteU, denoteP]
theorem datums_map_preserve (l : List PData) (h : TagsOkL l) : denoteUs (mapDatums l) = denotePs l := by
  cases l with
  | nil => simp only [mapDatums, denoteUs, denotePs]
  | cons d t =>
    simp only [TagsOkL] at h
    simp only [mapDatums, denoteUs, denotePs, datum_map_preserves d h.1, datums_map_preserve t h.2]
theorem pairs_map_preserve (l : List (PData × PData)) (h : TagsOkP l) : denoteUPairs (mapPairs l) = denotePPairs l := by
  cases l with
  | nil => simp only [mapPairs, denoteUPairs, denotePPairs]
  | cons p t =>
    obtain ⟨k, v⟩ := p
    simp only [TagsOkP] at h
    simp only [mapPairs, denoteUPairs, denotePPairs, datum_map_preserves k h.1, datum_map_preserves v h.2.1,
      pairs_map_preserve t h.2.2]
end

/-! ## Non-vacuity -/
example : mapPlutusBigInt (.int 9223372036854775808) = .bigUInt [128, 0, 0, 0, 0, 0, 0, 0] := by decide
example : mapPlutusBigInt (.int (-9223372036854775809)) = .bigNInt [128, 0, 0, 0, 0, 0, 0, 0] := by decide
example : mapPlutusBigInt (.int (-18446744073709551616)) = .bigNInt [255, 255, 255, 255, 255, 255, 255, 255] := by decide
example : mapPlutusBigInt (.int (-9223372036854775808)) = .int (-9223372036854775808) := by decide
example : u64ToBigInt 18446744073709551615 = .bigUInt [255, 255, 255, 255, 255, 255, 255, 255] := by decide
example : u64ToBigInt 9223372036854775807 = .int 9223372036854775807 := by decide
example : TagsOk (.constr 121 none [.bigInt (.int 18446744073709551615), .map [(.bytes [1], .array [])]]) := by
  simp [TagsOk, TagsOkL, TagsOkP]

end PallasVerif.Props.C44
