import PallasVerif.Model.Rules
/-!
# C38 — Each implemented ledger rule rejects transactions that break only it  (level: `other`)

`Model/Rules.lean` is the rule structure of the five era validators: the ordered `check_*` list of each
`validate_<era>_tx` with first-failure semantics, and stated predicates for nine rules (non-empty inputs, inputs /
collateral / reference inputs in the UTxO, validity interval, size, minimum lovelace, value size, network ids,
minimum fee + collateral rules, auxiliary-data hash). For every era and every `View`:

* `accept_implies_all_rules` — accepted ⇒ every rule of the era's list holds (stated predicate, or the observed
  verdict for the rules without a stated predicate);
* `violates_rule_rejected` — a view on which some rule of the era's list fails is rejected (this is the property:
  "a modification that violates just that rule makes validation fail" — *any* failing rule suffices);
* `first_failure` — the error reported is that of the first failing rule in source order;
* `accepted_*` — what acceptance means, rule by rule, in terms of the observations (the readable form of the above
  for the stated rules); the collateral clause holds only for Plutus scripts in the witness set
  (`accepted_collateral_partial`; `FullCollateralStatement` is false on the model of the code:
  `full_collateral_fails_at_witness` — known finding, the repair breaks two pinned tests);
* `stated_rules_cover` — which rules of each era are stated here.

What is **not** proved: that the observations of a `View` are what the Rust code computes (tie: stream `rules`, per
rule through `verif_hooks::rule_verdicts` and through `validate_txs`), and the predicates of the rules listed in the
module header of `Model/Rules.lean` as external.
-/
namespace PallasVerif.Props.C38
open PallasVerif.Rules

theorem accept_implies_all_rules (era : Era) (v : View) (h : validate era v = none) :
    ∀ r ∈ order era, verdict era v r = true := by
  intro r hr
  unfold validate at h
  rw [List.find?_eq_none] at h
  have := h r hr
  simpa using this

/-- **The property**: a failing rule of the era's list — whichever, alone or not — makes validation fail. -/
theorem violates_rule_rejected (era : Era) (v : View) (r : Rule) (hr : r ∈ order era)
    (hv : verdict era v r = false) : validate era v ≠ none := by
  intro h
  have := accept_implies_all_rules era v h r hr
  rw [hv] at this
  cases this

/-- the reported rule fails, and every rule before it in source order holds -/
theorem first_failure (era : Era) (v : View) (r : Rule) (h : validate era v = some r) :
    verdict era v r = false ∧ ∃ pre post, order era = pre ++ r :: post ∧ ∀ q ∈ pre, verdict era v q = true := by
  unfold validate at h
  have h1 := List.find?_some h
  obtain ⟨pre, post, hsplit, hpre⟩ := List.find?_eq_some_iff_append.mp h |>.2
  refine ⟨by simpa using h1, pre, post, hsplit, ?_⟩
  intro q hq
  have := hpre q hq
  simpa using this

/-- acceptance is exactly: every rule of the list holds -/
theorem accept_iff (era : Era) (v : View) : validate era v = none ↔ ∀ r ∈ order era, verdict era v r = true := by
  constructor
  · exact accept_implies_all_rules era v
  · intro h
    unfold validate
    rw [List.find?_eq_none]
    intro r hr
    simp [h r hr]

/-! ## What acceptance means for the stated rules (post-Byron eras) -/

theorem mem_order_post_byron (era : Era) (hb : era ≠ .byron) :
    Rule.insNotEmpty ∈ order era ∧ Rule.insInUtxo ∈ order era ∧ Rule.validity ∈ order era ∧ Rule.txSize ∈ order era ∧
    Rule.minLovelace ∈ order era ∧ Rule.networkId ∈ order era ∧ Rule.fee ∈ order era ∧ Rule.auxData ∈ order era := by
  cases era <;> first | exact absurd rfl hb | decide

theorem stated_post_byron (era : Era) (hb : era ≠ .byron) :
    stated era .insNotEmpty = true ∧ stated era .insInUtxo = true ∧ stated era .validity = true ∧ stated era .txSize = true ∧
    stated era .minLovelace = true ∧ stated era .networkId = true ∧ stated era .fee = true ∧ stated era .auxData = true := by
  cases era <;> first | exact absurd rfl hb | decide

theorem accepted_inputs_nonempty (era : Era) (v : View) (hb : era ≠ .byron) (h : validate era v = none) : v.nInputs ≠ 0 := by
  have := accept_implies_all_rules era v h .insNotEmpty (mem_order_post_byron era hb).1
  simpa [verdict, (stated_post_byron era hb).1, insNotEmpty] using this

theorem accepted_inputs_present (era : Era) (v : View) (hb : era ≠ .byron) (h : validate era v = none) :
    (∀ b ∈ v.inputsIn, b = true) ∧
    (eraHasCollateral era = true → ∀ c ∈ v.collateral.getD [], c.inUtxo = true) ∧
    (eraHasRefInputs era = true → ∀ b ∈ v.refInputsIn, b = true) := by
  have := accept_implies_all_rules era v h .insInUtxo (mem_order_post_byron era hb).2.1
  simp only [verdict, (stated_post_byron era hb).2.1, if_true, insInUtxo, Bool.and_eq_true, Bool.or_eq_true,
    Bool.not_eq_true', List.all_eq_true] at this
  obtain ⟨⟨h1, h2⟩, h3⟩ := this
  refine ⟨fun b hb' => by simpa using h1 b hb', ?_, ?_⟩
  · intro hc; rcases h2 with h2 | h2
    · rw [hc] at h2; cases h2
    · exact h2
  · intro hc; rcases h3 with h3 | h3
    · rw [hc] at h3; cases h3
    · exact fun b hb' => by simpa using h3 b hb'

theorem accepted_validity (era : Era) (v : View) (hb : era ≠ .byron) (h : validate era v = none) :
    (∀ t, v.ttl = some t → v.slot ≤ t) ∧
    (era ≠ .shelleyMA → ∀ s, v.validityStart = some s → s ≤ v.slot) ∧
    (era = .shelleyMA → v.ttl ≠ none) := by
  have := accept_implies_all_rules era v h .validity (mem_order_post_byron era hb).2.2.1
  simp only [verdict, (stated_post_byron era hb).2.2.1, if_true, validity] at this
  by_cases he : era = .shelleyMA
  · simp only [he, if_true, Bool.and_eq_true] at this
    refine ⟨?_, fun hne => absurd he hne, ?_⟩
    · intro t ht; have := this.2; simp only [upperOk, ht, decide_eq_true_eq] at this; exact this
    · intro _ hn; have := this.1; simp [hn] at this
  · simp only [he, if_false, Bool.and_eq_true] at this
    refine ⟨?_, ?_, fun e => absurd e he⟩
    · intro t ht; have := this.2; simp only [upperOk, ht, decide_eq_true_eq] at this; exact this
    · intro _ s hs; have := this.1; simp only [lowerOk, hs, decide_eq_true_eq] at this; exact this

theorem accepted_size (era : Era) (v : View) (hb : era ≠ .byron) (h : validate era v = none) : v.size ≤ v.maxSize := by
  have := accept_implies_all_rules era v h .txSize (mem_order_post_byron era hb).2.2.2.1
  simpa [verdict, (stated_post_byron era hb).2.2.2.1, txSize] using this

theorem accepted_min_lovelace (era : Era) (v : View) (hb : era ≠ .byron) (h : validate era v = none) :
    ∀ o ∈ v.outputs, minRequired era v o ≤ o.lovelace := by
  have := accept_implies_all_rules era v h .minLovelace (mem_order_post_byron era hb).2.2.2.2.1
  simp only [verdict, (stated_post_byron era hb).2.2.2.2.1, if_true, minLovelace, List.all_eq_true, decide_eq_true_eq] at this
  exact this

theorem accepted_value_size (era : Era) (v : View) (he : eraHasCollateral era = true)
    (h : validate era v = none) : ∀ o ∈ v.outputs, o.words ≤ v.maxValueSize := by
  have hm : Rule.valSize ∈ order era ∧ stated era .valSize = true := by cases era <;> first | decide | exact absurd he (by decide)
  have := accept_implies_all_rules era v h .valSize hm.1
  simp only [verdict, hm.2, if_true, valSize, List.all_eq_true, decide_eq_true_eq] at this
  exact this

theorem accepted_network (era : Era) (v : View) (hb : era ≠ .byron) (h : validate era v = none) :
    (∀ o ∈ v.outputs, o.network = some v.envNetwork) ∧
    (era ≠ .shelleyMA → ∀ n, v.txNetwork = some n → n = v.envNetwork) := by
  have := accept_implies_all_rules era v h .networkId (mem_order_post_byron era hb).2.2.2.2.2.1
  simp only [verdict, (stated_post_byron era hb).2.2.2.2.2.1, if_true, networkId, Bool.and_eq_true, List.all_eq_true,
    decide_eq_true_eq, Bool.or_eq_true] at this
  refine ⟨this.1, ?_⟩
  intro hne n hn
  rcases this.2 with e | e
  · exact absurd e hne
  · simpa [txNetworkOk, hn] using e

theorem accepted_min_fee (era : Era) (v : View) (hb : era ≠ .byron) (h : validate era v = none) :
    v.minfeeB + v.minfeeA * v.size ≤ v.fee := by
  have := accept_implies_all_rules era v h .fee (mem_order_post_byron era hb).2.2.2.2.2.2.1
  simp only [verdict, (stated_post_byron era hb).2.2.2.2.2.2.1, if_true, fee] at this
  by_cases he : era = .shelleyMA
  · simpa [he, minFee] using this
  · simp only [he, if_false, Bool.and_eq_true] at this
    simpa [minFee] using this.1

theorem collateralOk_spec (era : Era) (v : View) (h : collateralOk era v = true) :
    ∃ cs, v.collateral = some cs ∧ cs ≠ [] ∧ cs.length ≤ v.maxCollateralInputs ∧
      (∀ c ∈ cs, c.inUtxo = true ∧ (c.lookedAt = true → c.script = some false)) ∧
      (era = .alonzo → ∀ c ∈ cs, c.lookedAt = true → v.fee * v.collateralPercentage ≤ c.coin * 100 ∧ c.hasAssets = false) ∧
      (era ≠ .alonzo → ∃ paid, v.paidCollateral = some paid ∧ v.fee * v.collateralPercentage ≤ paid * 100 ∧
        ∀ t, v.totalCollateral = some t → paid = t) := by
  unfold collateralOk at h
  cases hcol : v.collateral with
  | none => simp [hcol] at h
  | some cs =>
    simp only [hcol, Bool.and_eq_true, Bool.not_eq_true', decide_eq_true_eq, List.all_eq_true, Bool.or_eq_true] at h
    obtain ⟨⟨⟨h1, h2⟩, h3⟩, h4⟩ := h
    refine ⟨cs, rfl, by intro e; simp [e] at h1, h2, ?_, ?_, ?_⟩
    · intro c hc
      obtain ⟨a, b⟩ := h3 c hc
      refine ⟨a, fun hl => ?_⟩
      rcases b with b | b
      · rw [hl] at b; cases b
      · exact b
    · intro he c hc hl
      simp only [he, if_true, alonzoAmounts, List.all_eq_true, Bool.or_eq_true, Bool.not_eq_true', Bool.and_eq_true,
        decide_eq_true_eq] at h4
      rcases h4 c hc with b | b
      · rw [hl] at b; cases b
      · exact b
    · intro he
      simp only [he, if_false, balanceAmounts] at h4
      cases hp : v.paidCollateral with
      | none => simp [hp] at h4
      | some paid =>
        simp only [hp, Bool.and_eq_true, decide_eq_true_eq] at h4
        refine ⟨paid, rfl, h4.1, ?_⟩
        intro t ht
        have := h4.2
        simpa [ht] using this

/-- **Full statement of the collateral clause**: an accepted transaction that runs Plutus scripts — in its witness set or
    through reference inputs, i.e. one that carries redeemers — satisfies the collateral rules. -/
def FullCollateralStatement : Prop :=
  ∀ (era : Era) (v : View), eraHasCollateral era = true → (v.plutusInWitnesses = true ∨ v.redeemersPresent = true) →
    validate era v = none → collateralOk era v = true

/-- collateral count, kind, amount and annotation — proved part: transactions with Plutus scripts *in the witness set*
    (`check_fee` looks at `presence_of_plutus_scripts` only; see `full_collateral_fails_at_witness`) -/
theorem accepted_collateral_partial (era : Era) (v : View) (he : eraHasCollateral era = true)
    (hp : v.plutusInWitnesses = true) (h : validate era v = none) : collateralOk era v = true := by
  have hm : Rule.fee ∈ order era ∧ stated era .fee = true ∧ era ≠ .shelleyMA := by cases era <;> first | decide | exact absurd he (by decide)
  have := accept_implies_all_rules era v h .fee hm.1
  simp only [verdict, hm.2.1, if_true, fee, hm.2.2, if_false, Bool.and_eq_true, hp, Bool.not_true, Bool.false_or] at this
  exact this.2

/-- the witness of the known finding `C38-collateral-not-checked-for-reference-scripts`: a Conway transaction whose only
    Plutus script comes from a reference input (redeemers present, no script in the witness set) and that has no
    collateral at all passes every rule of the model of the code -/
private def refScriptNoCollateral : View :=
  { nInputs := 1, nOutputs := 1, inputsIn := [true], collateral := none, refInputsIn := [true], validityStart := none, ttl := none,
    slot := 50, size := 300, maxSize := 16384, fee := 200000, minfeeA := 44, minfeeB := 155381, outputs := [⟨2000000, 1, false, false, some 1⟩],
    coinsParam := 4310, maxValueSize := 5000, envNetwork := 1, txNetwork := none, plutusInWitnesses := false, redeemersPresent := true,
    maxCollateralInputs := 3, collateralPercentage := 150, paidCollateral := none, totalCollateral := none, auxHashPresent := false,
    auxPresent := false, auxHashMatches := false, external := fun _ => true }

theorem full_collateral_fails_at_witness : ¬ FullCollateralStatement := by
  intro h
  have := h .conway refScriptNoCollateral (by decide) (Or.inr (by decide)) (by decide)
  revert this
  decide

theorem accepted_aux_data (era : Era) (v : View) (hb : era ≠ .byron) (h : validate era v = none) :
    (v.auxHashPresent = true ∧ v.auxPresent = true ∧ v.auxHashMatches = true) ∨
    (v.auxHashPresent = false ∧ v.auxPresent = false) := by
  have := accept_implies_all_rules era v h .auxData (mem_order_post_byron era hb).2.2.2.2.2.2.2
  simp only [verdict, (stated_post_byron era hb).2.2.2.2.2.2.2, if_true, auxData] at this
  cases h1 : v.auxHashPresent <;> cases h2 : v.auxPresent <;> simp_all

/-- the rules with a stated predicate, per era (everything else in `order era` is an observed verdict) -/
theorem stated_rules_cover :
    (order .shelleyMA).filter (stated .shelleyMA) = [.insNotEmpty, .insInUtxo, .validity, .txSize, .minLovelace, .fee, .networkId, .auxData] ∧
    (order .alonzo).filter (stated .alonzo) = [.insNotEmpty, .insInUtxo, .validity, .fee, .minLovelace, .valSize, .networkId, .txSize, .auxData] ∧
    (order .babbage).filter (stated .babbage) = [.insNotEmpty, .insInUtxo, .validity, .fee, .minLovelace, .valSize, .networkId, .txSize, .auxData] ∧
    (order .conway).filter (stated .conway) = [.insNotEmpty, .insInUtxo, .validity, .fee, .minLovelace, .valSize, .networkId, .txSize, .auxData] ∧
    (order .byron).filter (stated .byron) = [.insNotEmpty, .txSize] := by decide

/-! ## Non-vacuity -/
private def okOut : OutView := ⟨2000000, 1, false, false, some 1⟩
private def v0 : View :=
  { nInputs := 1, nOutputs := 1, inputsIn := [true], collateral := none, refInputsIn := [], validityStart := some 10, ttl := some 100,
    slot := 50, size := 300, maxSize := 16384, fee := 200000, minfeeA := 44, minfeeB := 155381, outputs := [okOut], coinsParam := 4310,
    maxValueSize := 5000, envNetwork := 1, txNetwork := none, plutusInWitnesses := false, redeemersPresent := false, maxCollateralInputs := 3,
    collateralPercentage := 150, paidCollateral := none, totalCollateral := none, auxHashPresent := false, auxPresent := false,
    auxHashMatches := false, external := fun _ => true }
example : validate .babbage v0 = none := by decide
example : validate .babbage { v0 with slot := 101 } = some .validity := by decide
example : validate .babbage { v0 with envNetwork := 0 } = some .networkId := by decide
example : validate .babbage { v0 with inputsIn := [false], slot := 101 } = some .insInUtxo := by decide
example : validate .conway { v0 with plutusInWitnesses := true } = some .fee := by decide
private def keyColl : CollView := ⟨true, true, some false, 400000, false⟩
private def scriptColl : CollView := ⟨true, true, some true, 400000, false⟩
private def v1 : View := { v0 with plutusInWitnesses := true, collateral := some [keyColl], paidCollateral := some 400000, totalCollateral := some 400000 }
example : validate .conway v1 = none := by decide
example : validate .conway { v1 with collateral := some [scriptColl] } = some .fee := by decide
example : validate .conway { v1 with totalCollateral := some 400001 } = some .fee := by decide
example : validate .conway { v1 with maxCollateralInputs := 0 } = some .fee := by decide
example : validate .alonzo { v0 with outputs := [{ okOut with lovelace := 100000 }] } = some .minLovelace := by decide
example : validate .shelleyMA { v0 with ttl := none, coinsParam := 1000000 } = some .validity := by decide
example : validate .babbage { v0 with external := fun r => r != .witnesses } = some .witnesses := by decide

end PallasVerif.Props.C38
