import PallasVerif.Model.Rules
import PallasVerif.Props.C34
import PallasVerif.Props.C35
import PallasVerif.Props.C37
/-!
# C38 — Each implemented ledger rule rejects transactions that break only it  (level: `proof`, partial)

`Model/Rules.lean` is the rule structure of the five era validators: the ordered `check_*` list of each
`validate_<era>_tx` with first-failure semantics, and a stated predicate for every rule the property names:
non-empty inputs, inputs / collateral / reference inputs in the UTxO, validity interval, size, minimum lovelace, value
size, network ids, minimum fee + collateral rules, auxiliary-data hash, minting-policy witnesses, script and datum
witnesses, redeemer coverage, language availability, script-integrity hash, and (linked models of C34 / C37 / C35) value
preservation, execution units, key witnesses and required signers. For every era and every `View`:

* `accept_implies_all_rules` — accepted ⇒ every rule of the era's list holds (stated predicate, or the observed
  verdict for the few rules without one: certificates, Byron);
* `violates_rule_rejected` — a view on which some rule of the era's list fails is rejected (this is the property:
  "a modification that violates just that rule makes validation fail" — *any* failing rule suffices);
* `first_failure` — the error reported is that of the first failing rule in source order;
* `accepted_*` — what acceptance means, rule by rule, in terms of the observations; the collateral clause holds only for
  Plutus scripts in the witness set (`accepted_collateral_partial`; `FullCollateralStatement` is false on the model of
  the code: `full_collateral_fails_at_witness` — known finding, the repair breaks two pinned tests);
* thresholds — `collateral_amount_iff` (`fee * pct ≤ paid * 100 ↔ ⌈fee * pct / 100⌉ ≤ paid`, all `fee`, `pct`),
  `truncated_quotient_is_weaker`, `balanceAmounts_iff`, `alonzoAmounts_iff`, `*_boundary`;
* `minting_subsumed` — from Alonzo on `check_minting` follows from the needed-scripts check;
* `stated_rules_cover` — which rules of each era are stated here.

What is **not** proved (hence *partial*): that the observations of a `View` are what the Rust code computes (tie: stream
`rules`, per rule through `verif_hooks::rule_verdicts` and through `validate_txs`), and the predicates of the rules listed
in the module header of `Model/Rules.lean` as external (certificates, Byron, value rule of transactions with certificates).
-/
namespace PallasVerif.Props.C38
open PallasVerif.Rules

theorem accept_implies_all_rules (era : Era) (v : View) (h : validate era v = none) :
    ∀ r ∈ order era, verdict era v r = true := by
  intro r hr
  unfold validate at h
  rw [List.find?_eq_none] at h
  have := h r hr
  simpa using this

/-- **The property**: a failing rule of the era's list — whichever, alone or not — makes validation fail. -/
theorem violates_rule_rejected (era : Era) (v : View) (r : Rule) (hr : r ∈ order era)
    (hv : verdict era v r = false) : validate era v ≠ none := by
  intro h
  have := accept_implies_all_rules era v h r hr
  rw [hv] at this
  cases this

/-- the reported rule fails, and every rule before it in source order holds -/
theorem first_failure (era : Era) (v : View) (r : Rule) (h : validate era v = some r) :
    verdict era v r = false ∧ ∃ pre post, order era = pre ++ r :: post ∧ ∀ q ∈ pre, verdict era v q = true := by
  unfold validate at h
  have h1 := List.find?_some h
  obtain ⟨pre, post, hsplit, hpre⟩ := List.find?_eq_some_iff_append.mp h |>.2
  refine ⟨by simpa using h1, pre, post, hsplit, ?_⟩
  intro q hq
  have := hpre q hq
  simpa using this

/-- acceptance is exactly: every rule of the list holds -/
theorem accept_iff (era : Era) (v : View) : validate era v = none ↔ ∀ r ∈ order era, verdict era v r = true := by
  constructor
  · exact accept_implies_all_rules era v
  · intro h
    unfold validate
    rw [List.find?_eq_none]
    intro r hr
    simp [h r hr]

/-! ## What acceptance means for the stated rules (post-Byron eras) -/

theorem mem_order_post_byron (era : Era) (hb : era ≠ .byron) :
    Rule.insNotEmpty ∈ order era ∧ Rule.insInUtxo ∈ order era ∧ Rule.validity ∈ order era ∧ Rule.txSize ∈ order era ∧
    Rule.minLovelace ∈ order era ∧ Rule.networkId ∈ order era ∧ Rule.fee ∈ order era ∧ Rule.auxData ∈ order era := by
  cases era <;> first | exact absurd rfl hb | decide

theorem stated_post_byron (era : Era) (v : View) (hb : era ≠ .byron) :
    stated era v .insNotEmpty = true ∧ stated era v .insInUtxo = true ∧ stated era v .validity = true ∧ stated era v .txSize = true ∧
    stated era v .minLovelace = true ∧ stated era v .networkId = true ∧ stated era v .fee = true ∧ stated era v .auxData = true := by
  cases era <;> first | exact absurd rfl hb | exact ⟨rfl, rfl, rfl, rfl, rfl, rfl, rfl, rfl⟩

theorem accepted_inputs_nonempty (era : Era) (v : View) (hb : era ≠ .byron) (h : validate era v = none) : v.nInputs ≠ 0 := by
  have := accept_implies_all_rules era v h .insNotEmpty (mem_order_post_byron era hb).1
  simpa [verdict, (stated_post_byron era v hb).1, insNotEmpty] using this

theorem accepted_inputs_present (era : Era) (v : View) (hb : era ≠ .byron) (h : validate era v = none) :
    (∀ b ∈ v.inputsIn, b = true) ∧
    (eraHasCollateral era = true → ∀ c ∈ v.collateral.getD [], c.inUtxo = true) ∧
    (eraHasRefInputs era = true → ∀ b ∈ v.refInputsIn, b = true) := by
  have := accept_implies_all_rules era v h .insInUtxo (mem_order_post_byron era hb).2.1
  simp only [verdict, (stated_post_byron era v hb).2.1, if_true, insInUtxo, Bool.and_eq_true, Bool.or_eq_true,
    Bool.not_eq_true', List.all_eq_true] at this
  obtain ⟨⟨h1, h2⟩, h3⟩ := this
  refine ⟨fun b hb' => by simpa using h1 b hb', ?_, ?_⟩
  · intro hc; rcases h2 with h2 | h2
    · rw [hc] at h2; cases h2
    · exact h2
  · intro hc; rcases h3 with h3 | h3
    · rw [hc] at h3; cases h3
    · exact fun b hb' => by simpa using h3 b hb'

theorem accepted_validity (era : Era) (v : View) (hb : era ≠ .byron) (h : validate era v = none) :
    (∀ t, v.ttl = some t → v.slot ≤ t) ∧
    (era ≠ .shelleyMA → ∀ s, v.validityStart = some s → s ≤ v.slot) ∧
    (era = .shelleyMA → v.ttl ≠ none) := by
  have := accept_implies_all_rules era v h .validity (mem_order_post_byron era hb).2.2.1
  simp only [verdict, (stated_post_byron era v hb).2.2.1, if_true, validity] at this
  by_cases he : era = .shelleyMA
  · simp only [he, if_true, Bool.and_eq_true] at this
    refine ⟨?_, fun hne => absurd he hne, ?_⟩
    · intro t ht; have := this.2; simp only [upperOk, ht, decide_eq_true_eq] at this; exact this
    · intro _ hn; have := this.1; simp [hn] at this
  · simp only [he, if_false, Bool.and_eq_true] at this
    refine ⟨?_, ?_, fun e => absurd e he⟩
    · intro t ht; have := this.2; simp only [upperOk, ht, decide_eq_true_eq] at this; exact this
    · intro _ s hs; have := this.1; simp only [lowerOk, hs, decide_eq_true_eq] at this; exact this

theorem accepted_size (era : Era) (v : View) (hb : era ≠ .byron) (h : validate era v = none) : v.size ≤ v.maxSize := by
  have := accept_implies_all_rules era v h .txSize (mem_order_post_byron era hb).2.2.2.1
  simpa [verdict, (stated_post_byron era v hb).2.2.2.1, txSize] using this

theorem accepted_min_lovelace (era : Era) (v : View) (hb : era ≠ .byron) (h : validate era v = none) :
    ∀ o ∈ v.outputs, minRequired era v o ≤ o.lovelace := by
  have := accept_implies_all_rules era v h .minLovelace (mem_order_post_byron era hb).2.2.2.2.1
  simp only [verdict, (stated_post_byron era v hb).2.2.2.2.1, if_true, minLovelace, List.all_eq_true, decide_eq_true_eq] at this
  exact this

theorem accepted_value_size (era : Era) (v : View) (he : eraHasCollateral era = true)
    (h : validate era v = none) : ∀ o ∈ v.outputs, o.words ≤ v.maxValueSize := by
  have hm : Rule.valSize ∈ order era ∧ stated era v .valSize = true := by cases era <;> first | exact absurd he (by decide) | exact ⟨by decide, rfl⟩
  have := accept_implies_all_rules era v h .valSize hm.1
  simp only [verdict, hm.2, if_true, valSize, List.all_eq_true, decide_eq_true_eq] at this
  exact this

theorem accepted_network (era : Era) (v : View) (hb : era ≠ .byron) (h : validate era v = none) :
    (∀ o ∈ v.outputs, o.network = some v.envNetwork) ∧
    (era ≠ .shelleyMA → ∀ n, v.txNetwork = some n → n = v.envNetwork) := by
  have := accept_implies_all_rules era v h .networkId (mem_order_post_byron era hb).2.2.2.2.2.1
  simp only [verdict, (stated_post_byron era v hb).2.2.2.2.2.1, if_true, networkId, Bool.and_eq_true, List.all_eq_true,
    decide_eq_true_eq, Bool.or_eq_true] at this
  refine ⟨this.1, ?_⟩
  intro hne n hn
  rcases this.2 with e | e
  · exact absurd e hne
  · simpa [txNetworkOk, hn] using e

theorem accepted_min_fee (era : Era) (v : View) (hb : era ≠ .byron) (h : validate era v = none) :
    v.minfeeB + v.minfeeA * v.size ≤ v.fee := by
  have := accept_implies_all_rules era v h .fee (mem_order_post_byron era hb).2.2.2.2.2.2.1
  simp only [verdict, (stated_post_byron era v hb).2.2.2.2.2.2.1, if_true, fee] at this
  by_cases he : era = .shelleyMA
  · simpa [he, minFee] using this
  · simp only [he, if_false, Bool.and_eq_true] at this
    simpa [minFee] using this.1

theorem collateralOk_spec (era : Era) (v : View) (h : collateralOk era v = true) :
    ∃ cs, v.collateral = some cs ∧ cs ≠ [] ∧ cs.length ≤ v.maxCollateralInputs ∧
      (∀ c ∈ cs, c.inUtxo = true ∧ (c.lookedAt = true → c.script = some false)) ∧
      (era = .alonzo → ∀ c ∈ cs, c.lookedAt = true → v.fee * v.collateralPercentage ≤ c.coin * 100 ∧ c.hasAssets = false) ∧
      (era ≠ .alonzo → ∃ paid, v.paidCollateral = some paid ∧ v.fee * v.collateralPercentage ≤ paid * 100 ∧
        ∀ t, v.totalCollateral = some t → paid = t) := by
  unfold collateralOk at h
  cases hcol : v.collateral with
  | none => simp [hcol] at h
  | some cs =>
    simp only [hcol, Bool.and_eq_true, Bool.not_eq_true', decide_eq_true_eq, List.all_eq_true, Bool.or_eq_true] at h
    obtain ⟨⟨⟨h1, h2⟩, h3⟩, h4⟩ := h
    refine ⟨cs, rfl, by intro e; simp [e] at h1, h2, ?_, ?_, ?_⟩
    · intro c hc
      obtain ⟨a, b⟩ := h3 c hc
      refine ⟨a, fun hl => ?_⟩
      rcases b with b | b
      · rw [hl] at b; cases b
      · exact b
    · intro he c hc hl
      simp only [he, if_true, alonzoAmounts, List.all_eq_true, Bool.or_eq_true, Bool.not_eq_true', Bool.and_eq_true,
        decide_eq_true_eq] at h4
      rcases h4 c hc with b | b
      · rw [hl] at b; cases b
      · exact b
    · intro he
      simp only [he, if_false, balanceAmounts] at h4
      cases hp : v.paidCollateral with
      | none => simp [hp] at h4
      | some paid =>
        simp only [hp, Bool.and_eq_true, decide_eq_true_eq] at h4
        refine ⟨paid, rfl, h4.1, ?_⟩
        intro t ht
        have := h4.2
        simpa [ht] using this

/-- **Full statement of the collateral clause**: an accepted transaction that runs Plutus scripts — in its witness set or
    through reference inputs, i.e. one that carries redeemers — satisfies the collateral rules. -/
def FullCollateralStatement : Prop :=
  ∀ (era : Era) (v : View), eraHasCollateral era = true → (v.plutusInWitnesses = true ∨ v.redeemersPresent = true) →
    validate era v = none → collateralOk era v = true

/-- collateral count, kind, amount and annotation — proved part: transactions with Plutus scripts *in the witness set*
    (`check_fee` looks at `presence_of_plutus_scripts` only; see `full_collateral_fails_at_witness`) -/
theorem accepted_collateral_partial (era : Era) (v : View) (he : eraHasCollateral era = true)
    (hp : v.plutusInWitnesses = true) (h : validate era v = none) : collateralOk era v = true := by
  have hm : Rule.fee ∈ order era ∧ stated era v .fee = true ∧ era ≠ .shelleyMA := by cases era <;> first | exact absurd he (by decide) | exact ⟨by decide, rfl, by decide⟩
  have := accept_implies_all_rules era v h .fee hm.1
  simp only [verdict, hm.2.1, if_true, fee, hm.2.2, if_false, Bool.and_eq_true, hp, Bool.not_true, Bool.false_or] at this
  exact this.2

/-- neutral script / value / witness observations for the example views: nothing minted, no scripts, no datums, a balanced
    lovelace-only value, no redeemers, no key-locked inputs -/
private def sv0 : ScriptView :=
  { mintPresent := false, mintPolicies := [], native := [], v1 := [], v2 := [], v3 := [], plutusFieldPresent := false, refScripts := [],
    inputScripts := [], sortedInputScripts := [none], sortedPolicies := [], sortedWithdrawalScripts := [], withdrawalsOk := true, redeemers := [] }
private def dv0 : DatumView := { witnessDatums := [], inputsResolved := true, inputDatumHashes := [none], allowedDatumHashes := [] }
private def lv0 : LangView := { used := [], withCostModel := [0, 1, 2], anyByronAddress := false, anyDatumOrScriptRef := false, anyReferenceInput := false, protMagic := 764824073 }
private def sd0 : SdhView := { provided := none, witnessSetBytes := [0xa0], costModels := [], redeemerEnc := none, datumEncs := none, redeemerCount := 0, costModelBytes := [] }
private def val0 : ValueView := { modelled := true, shelleyEra := false, spent := [.coin 2200000], produced := [.coin 2000000], mint := none }
private def ex0 : ExView := { wits := ⟨none, none, none, none⟩, maxMem := 14000000, maxSteps := 10000000000 }
private def wit0 : WitView :=
  { hash := fun _ => "", verify := fun _ _ _ => false, requiredSigners := none, witnesses := some [], inputViews := [.skipped], nativeOk := true, txId := [] }

/-- the witness of the known finding `C38-collateral-not-checked-for-reference-scripts`: a Conway transaction whose only
    Plutus script comes from a reference input (redeemers present, no script in the witness set) and that has no
    collateral at all passes every rule of the model of the code -/
private def refScriptNoCollateral : View :=
  { nInputs := 1, nOutputs := 1, inputsIn := [true], collateral := none, refInputsIn := [true], validityStart := none, ttl := none,
    slot := 50, size := 300, maxSize := 16384, fee := 200000, minfeeA := 44, minfeeB := 155381, outputs := [⟨2000000, 1, false, false, some 1⟩],
    coinsParam := 4310, maxValueSize := 5000, envNetwork := 1, txNetwork := none, plutusInWitnesses := false, redeemersPresent := true,
    maxCollateralInputs := 3, collateralPercentage := 150, paidCollateral := none, totalCollateral := none, auxHashPresent := false,
    auxPresent := false, auxHashMatches := false, scripts := sv0, datums := dv0, langs := lv0, sdh := sd0, value := val0, ex := ex0, wit := wit0,
    external := fun _ => true }

theorem full_collateral_fails_at_witness : ¬ FullCollateralStatement := by
  intro h
  have := h .conway refScriptNoCollateral (by decide) (Or.inr (by decide)) (by decide)
  revert this
  decide

theorem accepted_aux_data (era : Era) (v : View) (hb : era ≠ .byron) (h : validate era v = none) :
    (v.auxHashPresent = true ∧ v.auxPresent = true ∧ v.auxHashMatches = true) ∨
    (v.auxHashPresent = false ∧ v.auxPresent = false) := by
  have := accept_implies_all_rules era v h .auxData (mem_order_post_byron era hb).2.2.2.2.2.2.2
  simp only [verdict, (stated_post_byron era v hb).2.2.2.2.2.2.2, if_true, auxData] at this
  cases h1 : v.auxHashPresent <;> cases h2 : v.auxPresent <;> simp_all

/-! ## Thresholds: every arithmetic rule accepts exactly from its boundary on -/

/-- the least collateral that covers `pct` percent of `fee`: `⌈fee * pct / 100⌉` -/
def requiredCollateral (fee pct : Nat) : Nat := (fee * pct + 99) / 100

/-- the amount rule as stated in the model (`fee * pct ≤ paid * 100`, no division) is `paid ≥ ⌈fee * pct / 100⌉` -/
theorem collateral_amount_iff (fee pct paid : Nat) : fee * pct ≤ paid * 100 ↔ requiredCollateral fee pct ≤ paid := by
  unfold requiredCollateral; generalize fee * pct = k; omega

theorem collateral_accepts_at_required (fee pct : Nat) : fee * pct ≤ requiredCollateral fee pct * 100 :=
  (collateral_amount_iff fee pct _).mpr (Nat.le_refl _)

theorem collateral_rejects_one_below (fee pct : Nat) (h : 0 < fee * pct) : ¬ fee * pct ≤ (requiredCollateral fee pct - 1) * 100 := by
  unfold requiredCollateral; generalize fee * pct = k at *; omega

/-- a rule stated with the truncated quotient `fee * pct / 100` is strictly weaker: it accepts one lovelace less whenever
    `fee * pct` is not a multiple of 100 -/
theorem truncated_quotient_is_weaker (fee pct : Nat) (h : fee * pct % 100 ≠ 0) :
    fee * pct / 100 ≤ requiredCollateral fee pct - 1 ∧ ¬ fee * pct ≤ (requiredCollateral fee pct - 1) * 100 := by
  unfold requiredCollateral; generalize fee * pct = k at *; omega

/-- Babbage / Conway: with no (or a matching) annotation the balance rule holds exactly from `requiredCollateral` on -/
theorem balanceAmounts_iff (v : View) (paid : Nat) (hp : v.paidCollateral = some paid) :
    balanceAmounts v = true ↔ requiredCollateral v.fee v.collateralPercentage ≤ paid ∧ (∀ t, v.totalCollateral = some t → paid = t) := by
  unfold balanceAmounts
  rw [hp]
  simp only [Bool.and_eq_true, decide_eq_true_eq, collateral_amount_iff]
  constructor
  · rintro ⟨h1, h2⟩
    refine ⟨h1, fun t ht => ?_⟩
    simpa [ht] using h2
  · rintro ⟨h1, h2⟩
    refine ⟨h1, ?_⟩
    cases ht : v.totalCollateral with
    | none => rfl
    | some t => simpa using h2 t ht

/-- Alonzo: every inspected collateral input holds at least `requiredCollateral` and no assets -/
theorem alonzoAmounts_iff (v : View) (cs : List CollView) :
    alonzoAmounts v cs = true ↔ ∀ c ∈ cs, c.lookedAt = true → requiredCollateral v.fee v.collateralPercentage ≤ c.coin ∧ c.hasAssets = false := by
  unfold alonzoAmounts
  simp only [List.all_eq_true, Bool.or_eq_true, Bool.not_eq_true', Bool.and_eq_true, decide_eq_true_eq, collateral_amount_iff]
  constructor
  · intro h c hc hl
    rcases h c hc with h1 | h1
    · rw [hl] at h1; cases h1
    · exact h1
  · intro h c hc
    cases hl : c.lookedAt with
    | false => exact Or.inl rfl
    | true => exact Or.inr (h c hc hl)

/-- minimum fee, transaction size, validity interval, value size, minimum lovelace: the comparisons are non-strict at the
    boundary value itself and fail one past it -/
theorem min_fee_boundary (v : View) : minFee { v with fee := v.minfeeB + v.minfeeA * v.size } = true ∧
    (0 < v.minfeeB + v.minfeeA * v.size → minFee { v with fee := v.minfeeB + v.minfeeA * v.size - 1 } = false) := by
  refine ⟨by simp [minFee], fun h => ?_⟩
  simp only [minFee, decide_eq_false_iff_not]
  generalize v.minfeeA * v.size = k at *; omega

theorem tx_size_boundary (v : View) : txSize { v with maxSize := v.size } = true ∧ (0 < v.size → txSize { v with maxSize := v.size - 1 } = false) := by
  refine ⟨by simp [txSize], fun h => ?_⟩
  simp only [txSize, decide_eq_false_iff_not]; omega

theorem upper_bound_boundary (v : View) (t : Nat) : upperOk { v with ttl := some t, slot := t } = true ∧ upperOk { v with ttl := some t, slot := t + 1 } = false := by
  simp [upperOk]

theorem lower_bound_boundary (v : View) (s : Nat) : lowerOk { v with validityStart := some (s + 1), slot := s + 1 } = true ∧
    lowerOk { v with validityStart := some (s + 1), slot := s } = false := by
  simp [lowerOk]

theorem value_size_boundary (v : View) (o : OutView) : valSize { v with outputs := [o], maxValueSize := o.words } = true ∧
    (0 < o.words → valSize { v with outputs := [o], maxValueSize := o.words - 1 } = false) := by
  refine ⟨by simp [valSize], fun h => ?_⟩
  simp only [valSize, List.all_cons, List.all_nil, Bool.and_true, decide_eq_false_iff_not]; omega

theorem min_lovelace_boundary (era : Era) (v : View) (o : OutView) :
    minLovelace era { v with outputs := [{ o with lovelace := minRequired era v o }] } = true ∨ era = .shelleyMA := by
  cases era
  · exact Or.inl (by simp [minLovelace, minRequired])
  · exact Or.inr rfl
  all_goals exact Or.inl (by simp [minLovelace, minRequired])

/-! ## The script rules -/

/-- the rules of the Alonzo / Babbage / Conway lists that are stated for every view -/
theorem stated_script_rules (era : Era) (v : View) (he : eraHasCollateral era = true) :
    (Rule.minting ∈ order era ∧ stated era v .minting = true) ∧ (Rule.witnesses ∈ order era ∧ stated era v .witnesses = true) ∧
    (Rule.exUnits ∈ order era ∧ stated era v .exUnits = true) ∧ (Rule.languages ∈ order era ∧ stated era v .languages = true) ∧
    (Rule.scriptDataHash ∈ order era ∧ stated era v .scriptDataHash = true) ∧ Rule.preservation ∈ order era := by
  cases era <;> first | exact absurd he (by decide) | exact ⟨⟨by decide, rfl⟩, ⟨by decide, rfl⟩, ⟨by decide, rfl⟩, ⟨by decide, rfl⟩, ⟨by decide, rfl⟩, by decide⟩

/-- every minted policy is witnessed by a script of the witness set (or, from Babbage on, of a reference input) -/
theorem accepted_minting (era : Era) (v : View) (he : eraHasCollateral era = true) (h : validate era v = none) :
    ∀ p ∈ v.scripts.mintPolicies, p ∈ providedScripts era v.scripts ∨ p ∈ refScriptsOf era v.scripts := by
  obtain ⟨⟨hm, hs⟩, _⟩ := stated_script_rules era v he
  have := accept_implies_all_rules era v h .minting hm
  simp only [verdict, hs, if_true, minting, List.all_eq_true, Bool.or_eq_true, List.contains_iff_mem] at this
  exact this

theorem witnesses_parts (era : Era) (v : View) (he : eraHasCollateral era = true) (h : validate era v = none) :
    neededScripts era v = true ∧ datumsOk v = true ∧ redeemersOk era v = true ∧ vkeyWitnessesOk era v = true := by
  obtain ⟨_, ⟨hm, hs⟩, _⟩ := stated_script_rules era v he
  have := accept_implies_all_rules era v h .witnesses hm
  have hne : era ≠ .shelleyMA := by intro e; subst e; exact absurd he (by decide)
  cases era <;> simp_all [verdict, witnesses]

/-- needed scripts = provided scripts: every script-locked input and every minted policy has its script, and no
    witness-set script (that is not also a reference script) is superfluous -/
theorem accepted_scripts (era : Era) (v : View) (he : eraHasCollateral era = true) (h : validate era v = none) :
    (∀ s ∈ v.scripts.inputScripts, s ∈ providedScripts era v.scripts ∨ s ∈ refScriptsOf era v.scripts) ∧
    (∀ s ∈ providedScripts era v.scripts, s ∈ refScriptsOf era v.scripts ∨ s ∈ v.scripts.inputScripts ∨ s ∈ v.scripts.mintPolicies) := by
  have := (witnesses_parts era v he h).1
  simp only [neededScripts, Bool.and_eq_true, List.all_eq_true, Bool.or_eq_true, List.contains_iff_mem, List.mem_filter] at this
  obtain ⟨⟨h1, _⟩, h3⟩ := this
  refine ⟨?_, ?_⟩
  · intro s hs; rcases h1 s hs with ⟨a, _⟩ | b
    · exact Or.inl a
    · exact Or.inr b
  · intro s hs
    by_cases hr : s ∈ refScriptsOf era v.scripts
    · exact Or.inl hr
    · exact Or.inr (h3 s ⟨hs, by simp [hr]⟩)

/-- from Alonzo on `check_minting` is implied by the needed-scripts part of `check_witness_set` (same predicate on the minted
    policies, same error): dropping the separate call from an Alonzo+ validator changes nothing observable, only Shelley-MA
    depends on it -/
theorem minting_subsumed (era : Era) (v : View) (h : neededScripts era v = true) : minting era v = true := by
  simp only [neededScripts, Bool.and_eq_true, List.all_eq_true, Bool.or_eq_true, List.contains_iff_mem, List.mem_filter] at h
  simp only [minting, List.all_eq_true, Bool.or_eq_true, List.contains_iff_mem]
  intro p hp
  rcases h.1.2 p hp with ⟨a, _⟩ | b
  · exact Or.inl a
  · exact Or.inr b

/-- redeemer coverage: the redeemer pointers of the witness set are exactly the pointers of the phase-2 scripts -/
theorem accepted_redeemers (era : Era) (v : View) (he : eraHasCollateral era = true) (h : validate era v = none) :
    (∀ r ∈ v.scripts.redeemers, r ∈ neededPointers era v.scripts) ∧ (∀ n ∈ neededPointers era v.scripts, n ∈ v.scripts.redeemers) := by
  have := (witnesses_parts era v he h).2.2.1
  simp only [redeemersOk, Bool.and_eq_true, List.all_eq_true, List.contains_iff_mem] at this
  exact ⟨this.1.2, this.2⟩

/-- datum witnesses: every input datum hash is matched by a witness-set datum (`markInputs` succeeds) and every
    unmatched witness-set datum is announced by an output / collateral return / reference input -/
theorem accepted_datums (era : Era) (v : View) (he : eraHasCollateral era = true) (h : validate era v = none) :
    v.datums.inputsResolved = true ∧
    ∃ l, markInputs v.datums.inputDatumHashes (v.datums.witnessDatums.map (fun d => (false, d))) = some l ∧
      ∀ e ∈ l, e.1 = true ∨ e.2 ∈ v.datums.allowedDatumHashes := by
  have := (witnesses_parts era v he h).2.1
  simp only [datumsOk, Bool.and_eq_true] at this
  refine ⟨this.1, ?_⟩
  cases hm : markInputs v.datums.inputDatumHashes (v.datums.witnessDatums.map (fun d => (false, d))) with
  | none => simp [hm] at this
  | some l =>
    refine ⟨l, rfl, ?_⟩
    have h2 := this.2
    simp only [hm, List.all_eq_true, Bool.or_eq_true, List.contains_iff_mem] at h2
    exact h2

theorem markFirst_some (h : String) : ∀ (l l' : List (Bool × String)), markFirst h l = some l' → h ∈ l.map (·.2) := by
  intro l
  induction l with
  | nil => intro l' hm; simp [markFirst] at hm
  | cons e rest ih =>
    intro l' hm
    obtain ⟨f, d⟩ := e
    unfold markFirst at hm
    split at hm
    · rename_i hd; simp [hd]
    · cases hr : markFirst h rest with
      | none => simp [hr] at hm
      | some r => simp only [List.map_cons, List.mem_cons]; exact Or.inr (ih r hr)

theorem markFirst_keys (h : String) : ∀ (l l' : List (Bool × String)), markFirst h l = some l' → l'.map (·.2) = l.map (·.2) := by
  intro l
  induction l with
  | nil => intro l' hm; simp [markFirst] at hm
  | cons e rest ih =>
    intro l' hm
    obtain ⟨f, d⟩ := e
    unfold markFirst at hm
    split at hm
    · simp only [Option.some.injEq] at hm; subst hm; rfl
    · cases hr : markFirst h rest with
      | none => simp [hr] at hm
      | some r => simp only [hr, Option.map_some, Option.some.injEq] at hm; subst hm; simp [ih r hr]

/-- every datum hash carried by a spent input is the hash of a datum of the witness set -/
theorem markInputs_covers : ∀ (hs : List (Option String)) (l l' : List (Bool × String)),
    markInputs hs l = some l' → ∀ d, some d ∈ hs → d ∈ l.map (·.2) := by
  intro hs
  induction hs with
  | nil => intro l l' _ d hd; cases hd
  | cons x rest ih =>
    intro l l' hm d hd
    cases x with
    | none =>
      simp only [markInputs] at hm
      rcases List.mem_cons.mp hd with e | e
      · cases e
      · exact ih l l' hm d e
    | some x =>
      simp only [markInputs] at hm
      cases hf : markFirst x l with
      | none => simp [hf] at hm
      | some l1 =>
        simp only [hf] at hm
        rcases List.mem_cons.mp hd with e | e
        · cases e; exact markFirst_some d l l1 hf
        · have := ih l1 l' hm d e
          rw [markFirst_keys x l l1 hf] at this; exact this

theorem accepted_input_datums_covered (era : Era) (v : View) (he : eraHasCollateral era = true) (h : validate era v = none) :
    ∀ d, some d ∈ v.datums.inputDatumHashes → d ∈ v.datums.witnessDatums := by
  obtain ⟨_, l, hm, _⟩ := accepted_datums era v he h
  intro d hd
  have := markInputs_covers _ _ l hm d hd
  simpa [Function.comp_def] using this

/-- language availability -/
theorem accepted_languages (era : Era) (v : View) (he : eraHasCollateral era = true) (h : validate era v = none) :
    (era = .babbage → ∀ x ∈ v.langs.used, x ∈ blockLangs v.langs.protMagic v.envNetwork v.slot ∧ x ∈ allowedLangs era v.langs) ∧
    (era = .conway → ∀ x ∈ v.langs.used, x ∈ v.langs.withCostModel ∨ x ∈ allowedLangs era v.langs) := by
  obtain ⟨_, _, _, ⟨hm, hs⟩, _⟩ := stated_script_rules era v he
  have := accept_implies_all_rules era v h .languages hm
  simp only [verdict, hs, if_true] at this
  refine ⟨?_, ?_⟩
  · intro e; subst e
    simpa [languages, List.all_eq_true, List.contains_iff_mem] using this
  · intro e; subst e
    simpa [languages, List.all_eq_true, List.contains_iff_mem] using this

/-- script-integrity hash, Conway: the hash in the body is the BLAKE2b-256 that `Model/ScriptData.lean` (C08) computes from
    the original redeemer and datum bytes of the witness set and the cost models of the used languages -/
theorem accepted_script_data_hash_conway (v : View) (h : validate .conway v = none) :
    (v.sdh.provided = none → v.langs.used = []) ∧
    (∀ p, v.sdh.provided = some p → ∃ views, costModelForTx v.langs.used v.sdh.costModels = some views ∧
      ScriptData.wsBuildHash v.sdh.witnessSetBytes (some views) = some (some p)) := by
  obtain ⟨_, _, _, _, ⟨hm, hs⟩, _⟩ := stated_script_rules .conway v rfl
  have := accept_implies_all_rules .conway v h .scriptDataHash hm
  simp only [verdict, hs, if_true, scriptDataHash] at this
  refine ⟨?_, ?_⟩
  · intro hn; simp only [hn, List.isEmpty_iff] at this; exact this
  · intro p hp
    simp only [hp] at this
    cases hc : costModelForTx v.langs.used v.sdh.costModels with
    | none => simp [hc] at this
    | some views =>
      refine ⟨views, rfl, ?_⟩
      simp only [hc] at this
      cases hw : ScriptData.wsBuildHash v.sdh.witnessSetBytes (some views) with
      | none => simp [hw] at this
      | some o =>
        cases o with
        | none => simp [hw] at this
        | some hh => simp only [hw, beq_iff_eq] at this; rw [this]

/-- script-integrity hash, Alonzo: BLAKE2b-256 over re-encoded redeemers ‖ indefinite datum list ‖ cost-model bytes -/
theorem accepted_script_data_hash_alonzo (v : View) (h : validate .alonzo v = none) :
    ∀ p, v.sdh.provided = some p → ∃ r ds, v.sdh.redeemerEnc = some r ∧ v.sdh.datumEncs = some ds ∧
      Blake2b.blake2b256 (r ++ [0x9f] ++ ds.flatten ++ [0xff] ++ v.sdh.costModelBytes) = p := by
  obtain ⟨_, _, _, _, ⟨hm, hs⟩, _⟩ := stated_script_rules .alonzo v rfl
  have := accept_implies_all_rules .alonzo v h .scriptDataHash hm
  simp only [verdict, hs, if_true, scriptDataHash] at this
  intro p hp
  simp only [hp] at this
  cases hr : v.sdh.redeemerEnc with
  | none => simp [hr] at this
  | some r =>
    cases hd : v.sdh.datumEncs with
    | none => simp [hr, hd] at this
    | some ds =>
      simp only [hr, hd, beq_iff_eq] at this
      exact ⟨r, ds, rfl, rfl, this⟩

/-- script-integrity hash, Babbage: either of the two encodings of the datum list (indefinite / definite; nothing at all when
    there are no datums) -/
theorem accepted_script_data_hash_babbage (v : View) (h : validate .babbage v = none) :
    ∀ p, v.sdh.provided = some p → ∃ r ds, v.sdh.redeemerEnc = some r ∧ v.sdh.datumEncs = some ds ∧
      (Blake2b.blake2b256 (r ++ (if ds.isEmpty then [] else [0x9f] ++ ds.flatten ++ [0xff]) ++ v.sdh.costModelBytes) = p ∨
       Blake2b.blake2b256 (r ++ (if ds.isEmpty then [] else arrayHead ds.length ++ ds.flatten) ++ v.sdh.costModelBytes) = p) := by
  obtain ⟨_, _, _, _, ⟨hm, hs⟩, _⟩ := stated_script_rules .babbage v rfl
  have := accept_implies_all_rules .babbage v h .scriptDataHash hm
  simp only [verdict, hs, if_true, scriptDataHash] at this
  intro p hp
  simp only [hp] at this
  cases hr : v.sdh.redeemerEnc with
  | none => simp [hr] at this
  | some r =>
    cases hd : v.sdh.datumEncs with
    | none => simp [hr, hd] at this
    | some ds =>
      simp only [hr, hd] at this
      exact ⟨r, ds, rfl, rfl, by simpa using this⟩

/-- without a script-integrity hash in the body an accepted Alonzo / Babbage transaction has neither datums nor redeemers -/
theorem accepted_no_script_data_hash (era : Era) (v : View) (he : era = .alonzo ∨ era = .babbage) (h : validate era v = none)
    (hn : v.sdh.provided = none) : v.sdh.datumEncs.getD [] = [] ∧ v.sdh.redeemerCount = 0 := by
  have hc : eraHasCollateral era = true := by rcases he with rfl | rfl <;> rfl
  obtain ⟨_, _, _, _, ⟨hm, hs⟩, _⟩ := stated_script_rules era v hc
  have := accept_implies_all_rules era v h .scriptDataHash hm
  simp only [verdict, hs, if_true] at this
  rcases he with rfl | rfl <;> simpa [scriptDataHash, hn] using this

/-! ## The linked rule models: acceptance implies the conclusions of C34, C37 and C35 -/

/-- value preservation (C34) for an accepted Alonzo / Babbage transaction without certificates -/
theorem accepted_value_balanced (era : Era) (v : View) (he : era = .alonzo ∨ era = .babbage) (hmod : v.value.modelled = true)
    (h : validate era v = none) : Props.C34.Balanced v.value.spent v.value.produced v.fee v.value.mint := by
  have hm : Rule.preservation ∈ order era ∧ stated era v .preservation = true := by
    rcases he with rfl | rfl <;> exact ⟨by decide, hmod⟩
  have := accept_implies_all_rules era v h .preservation hm.1
  simp only [verdict, hm.2, if_true] at this
  rcases he with rfl | rfl <;> exact Props.C34.preservation_sound _ _ _ _ (by simpa [valueOk] using this)

theorem accepted_value_balanced_shelleyMA (v : View) (hmod : v.value.modelled = true) (h : validate .shelleyMA v = none) :
    Props.C34.Balanced v.value.spent v.value.produced v.fee v.value.mint := by
  have := accept_implies_all_rules .shelleyMA v h .preservation (by decide)
  have hs : stated .shelleyMA v .preservation = true := hmod
  simp only [verdict, hs, if_true] at this
  exact Props.C34.preservation_sound_shelleyMA _ _ _ _ _ (by simpa [valueOk] using this)

theorem accepted_value_balanced_conway (v : View) (hmod : v.value.modelled = true)
    (hins : ∀ x ∈ v.value.spent, Value.Norm x) (houts : ∀ x ∈ v.value.produced, Value.Norm x)
    (hmint : ∀ m, v.value.mint = some m → Value.NodupMA m) (h : validate .conway v = none) :
    Props.C34.Balanced v.value.spent v.value.produced v.fee v.value.mint := by
  have := accept_implies_all_rules .conway v h .preservation (by decide)
  have hs : stated .conway v .preservation = true := hmod
  simp only [verdict, hs, if_true] at this
  exact Props.C34.preservation_sound_conway _ _ _ _ hins houts hmint (by simpa [valueOk] using this)

/-- execution units (C37): the redeemer budgets of an accepted transaction are within the maximum -/
theorem accepted_ex_units (era : Era) (v : View) (he : eraHasCollateral era = true) (rs : ExUnits.Redeemers)
    (hred : v.ex.wits.redeemers = some rs) (hpl : era = .alonzo → ExUnits.presence .alonzo v.ex.wits = true)
    (h : validate era v = none) :
    Props.C37.sumMem rs.budgets ≤ v.ex.maxMem ∧ Props.C37.sumSteps rs.budgets ≤ v.ex.maxSteps := by
  obtain ⟨_, _, ⟨hm, hs⟩, _⟩ := stated_script_rules era v he
  have := accept_implies_all_rules era v h .exUnits hm
  simp only [verdict, hs, if_true, exUnitsOk, beq_iff_eq] at this
  refine Props.C37.exunits_sound (exUnitsEra era) v.ex.wits v.ex.maxMem v.ex.maxSteps rs this hred ?_
  intro e
  cases era <;> simp_all [exUnitsEra]

/-- witnesses (C35): every key witness of an accepted Alonzo+ transaction is a valid signature, every key-locked input /
    collateral and every required signer is signed -/
theorem accepted_signatures (era : Era) (v : View) (he : eraHasCollateral era = true) (h : validate era v = none) :
    (∀ w ∈ v.wit.witnesses.getD [], Props.C35.Valid v.wit.verify v.wit.txId w) ∧
    (∀ k, Witness.InputView.key k ∈ v.wit.inputViews → Props.C35.Signed v.wit.hash v.wit.verify v.wit.txId (v.wit.witnesses.getD []) k) ∧
    (∀ r ∈ v.wit.requiredSigners.getD [], Props.C35.Signed v.wit.hash v.wit.verify v.wit.txId (v.wit.witnesses.getD []) r) := by
  have hw := (witnesses_parts era v he h).2.2.2
  have hne : era ≠ .shelleyMA := by intro e; subst e; exact absurd he (by decide)
  have : Witness.checkWitnessSet v.wit.hash v.wit.verify (era == .conway) v.wit.requiredSigners v.wit.witnesses v.wit.inputViews v.wit.txId = .ok () := by
    cases era <;> simp_all [vkeyWitnessesOk] <;>
      (cases hc : Witness.checkWitnessSet v.wit.hash v.wit.verify _ v.wit.requiredSigners v.wit.witnesses v.wit.inputViews v.wit.txId <;> simp_all [isOkR])
  exact Props.C35.accept_implies_all_valid v.wit.hash v.wit.verify _ _ _ _ _ this

/-- the rules with a stated predicate, per era, for a transaction without certificates (with certificates the value
    rule drops out of the list; everything else in `order era` is an observed verdict) -/
theorem stated_rules_cover (v : View) (hm : v.value.modelled = true) :
    (order .shelleyMA).filter (stated .shelleyMA v) = [.insNotEmpty, .insInUtxo, .validity, .txSize, .minLovelace, .preservation, .fee, .networkId, .auxData, .witnesses, .minting] ∧
    (order .alonzo).filter (stated .alonzo v) = order .alonzo ∧
    (order .babbage).filter (stated .babbage v) = order .babbage ∧
    (order .conway).filter (stated .conway v) = order .conway ∧
    (order .byron).filter (stated .byron v) = [.insNotEmpty, .txSize] := by
  refine ⟨?_, ?_, ?_, ?_, ?_⟩ <;> simp [order, List.filter, stated, hm]

/-! ## Non-vacuity -/
private def okOut : OutView := ⟨2000000, 1, false, false, some 1⟩
private def v0 : View :=
  { nInputs := 1, nOutputs := 1, inputsIn := [true], collateral := none, refInputsIn := [], validityStart := some 10, ttl := some 100,
    slot := 50, size := 300, maxSize := 16384, fee := 200000, minfeeA := 44, minfeeB := 155381, outputs := [okOut], coinsParam := 4310,
    maxValueSize := 5000, envNetwork := 1, txNetwork := none, plutusInWitnesses := false, redeemersPresent := false, maxCollateralInputs := 3,
    collateralPercentage := 150, paidCollateral := none, totalCollateral := none, auxHashPresent := false, auxPresent := false,
    auxHashMatches := false, scripts := sv0, datums := dv0, langs := lv0, sdh := sd0, value := val0, ex := ex0, wit := wit0,
    external := fun _ => true }
example : validate .babbage v0 = none := by decide
example : validate .babbage { v0 with slot := 101 } = some .validity := by decide
example : validate .babbage { v0 with envNetwork := 0 } = some .networkId := by decide
example : validate .babbage { v0 with inputsIn := [false], slot := 101 } = some .insInUtxo := by decide
example : validate .conway { v0 with plutusInWitnesses := true } = some .fee := by decide
private def keyColl : CollView := ⟨true, true, some false, 400000, false⟩
private def scriptColl : CollView := ⟨true, true, some true, 400000, false⟩
private def v1 : View := { v0 with plutusInWitnesses := true, collateral := some [keyColl], paidCollateral := some 400000, totalCollateral := some 400000 }
example : validate .conway v1 = none := by decide
example : validate .conway { v1 with collateral := some [scriptColl] } = some .fee := by decide
example : validate .conway { v1 with totalCollateral := some 400001 } = some .fee := by decide
example : validate .conway { v1 with maxCollateralInputs := 0 } = some .fee := by decide
example : validate .alonzo { v0 with outputs := [{ okOut with lovelace := 100000 }] } = some .minLovelace := by decide
example : validate .shelleyMA { v0 with ttl := none, coinsParam := 1000000 } = some .validity := by decide
example : validate .shelleyMA { v0 with external := fun r => r != .certificates } = some .certificates := by decide
-- the script rules reject on their own: a minted policy without script, a script-locked input without script, a superfluous
-- script, a redeemer nothing points to, a missing / an unannounced datum, an unavailable language, a wrong script-integrity
-- hash, an unbalanced value, exceeded execution units, a key-locked input without signature
example : validate .babbage { v0 with scripts := { sv0 with mintPresent := true, mintPolicies := ["p"], sortedPolicies := ["p"] } } = some .minting := by decide
example : validate .shelleyMA { v0 with scripts := { sv0 with mintPresent := true, mintPolicies := ["p"], sortedPolicies := ["p"] } } = some .minting := by decide
example : validate .babbage { v0 with scripts := { sv0 with mintPresent := true, mintPolicies := ["p"], sortedPolicies := ["p"], native := ["p"] } } = none := by decide
example : validate .alonzo { v0 with scripts := { sv0 with inputScripts := ["s"], sortedInputScripts := [some "s"] } } = some .witnesses := by decide
example : validate .conway { v0 with scripts := { sv0 with native := ["s"] } } = some .witnesses := by decide
example : validate .conway { v0 with scripts := { sv0 with redeemers := [⟨0, 0⟩] } } = some .witnesses := by decide
example : validate .conway { v0 with datums := { dv0 with inputDatumHashes := [some "d"] } } = some .witnesses := by decide
example : validate .conway { v0 with datums := { dv0 with witnessDatums := ["d"] } } = some .witnesses := by decide
example : validate .conway { v0 with datums := { dv0 with witnessDatums := ["d"], allowedDatumHashes := ["d"] } } = none := by decide
example : validate .babbage { v0 with langs := { lv0 with used := [2] } } = some .languages := by decide
example : validate .conway { v0 with langs := { lv0 with used := [0], withCostModel := [], anyReferenceInput := true } } = some .languages := by decide
example : validate .conway { v0 with langs := { lv0 with used := [2] } } = some .scriptDataHash := by decide
example : validate .babbage { v0 with sdh := { sd0 with redeemerCount := 1 } } = some .scriptDataHash := by decide
example : validate .babbage { v0 with value := { val0 with produced := [.coin 2000001] } } = some .preservation := by decide
example : validate .babbage { v0 with ex := { ex0 with wits := ⟨none, none, none, some (.list [(⟨0, 0⟩, ⟨14000001, 1⟩)])⟩ } } = some .exUnits := by decide
example : validate .babbage { v0 with wit := { wit0 with inputViews := [.key "k"] } } = some .witnesses := by decide

end PallasVerif.Props.C38
