import PallasVerif.Proofs.CborContainers
import PallasVerif.Proofs.SkipParse
import PallasVerif.Proofs.MinicborTotal
/-!
# C03 — CBOR helper wrappers round-trip and preserve original encodings

Model: `Model/Minicbor.lean` (the minicbor 0.26 decoder primitives and encoder heads) and
`Model/CborWrappers.lean` (every wrapper of `pallas-codec/src/utils.rs` + `codec_by_datatype!`).
The two laws of the property are

* `RTon c wf`  — "decoding its encoding yields an equal value": `c.dec (c.enc a ++ r) = ok a r` for every
  well-formed `a` and *every* continuation `r` (so the decoder also stops exactly at the end);
* `Pres c`     — "re-encode every byte string they accept to exactly the same bytes":
  `c.dec bs = ok a r → c.enc a ++ r = bs` for *every* byte string `bs`.

Quantifiers: all values / all byte strings, all element codecs satisfying the stated hypotheses — no
bound on sizes or nesting (generic in the parameter codecs, so they compose to any depth).

What is **not** a theorem, and why. The full statement for the definite/indefinite containers,
`FullPresContainers`, is *false* on the code as it is: `MaybeIndefArray` / `KeyValuePairs` keep the
definite-vs-indefinite choice but not the width of a definite length head (`98 02 01 02` is accepted and
written back as `82 01 02`). The property text says "re-encode every byte string they accept to exactly
the same bytes … including non-minimal integer heads", so this is a deviation (known finding
`C03-container-head-width`; a repair needs a width field in both enums, i.e. an API change in every era
model). `full_pres_containers_fails_at_witness` proves the negation at the concrete input;
`maybeIndef_preserves_partial` / `kvp_preserves_partial` prove everything else (indefinite form always,
definite form whenever the length head is minimal), for element codecs that themselves preserve.
-/
namespace PallasVerif.Props.C03
open PallasVerif.Cbor PallasVerif.Minicbor PallasVerif.Wrappers

/-! ## the length-preserving unsigned integer -/

/-- every `AnyUInt` (five widths, every magnitude fitting the width) decodes back from its encoding -/
theorem anyuint_roundtrip : RTon cAnyUInt AnyUInt.wf := anyuint_rt

/-- every byte string `AnyUInt` accepts — `nn`, `18 nn`, `19 nnnn`, `1a …`, `1b …`, minimal or not — is
    re-encoded byte for byte -/
theorem anyuint_preserves : Pres cAnyUInt := anyuint_pres

/-- whatever it decodes satisfies the invariant `anyuint_roundtrip` needs -/
theorem anyuint_decoded_wellformed (bs : Bytes) (a : AnyUInt) (r : Bytes) (h : cAnyUInt.dec bs = .ok a r) : a.wf :=
  anyuint_dec_wf bs a r h

/-- the decoder as it was before `fix: AnyUInt keeps the one-byte-argument form` violates both laws:
    `18 05` was decoded to `MajorByte(5)` and written back as `05` -/
theorem anyuint_before_fix_fails_at_witness :
    ¬ Pres ⟨AnyUInt.enc, AnyUInt.decBefore⟩ ∧ ¬ RTon ⟨AnyUInt.enc, AnyUInt.decBefore⟩ AnyUInt.wf := by
  constructor
  · intro h
    have := h [0x18, 0x05] (.majorByte 5) [] rfl
    simp [AnyUInt.enc, be] at this
  · intro h
    have := h (.u8 5) (by decide) []
    have e : AnyUInt.decBefore (AnyUInt.enc (.u8 5) ++ []) = .ok (.majorByte 5) [] := rfl
    rw [show (⟨AnyUInt.enc, AnyUInt.decBefore⟩ : Codec AnyUInt).dec = AnyUInt.decBefore from rfl,
      show (⟨AnyUInt.enc, AnyUInt.decBefore⟩ : Codec AnyUInt).enc = AnyUInt.enc from rfl, e] at this
    cases this

/-! ## the raw-keeping wrapper -/

/-- `KeepRaw<T>` re-encodes every accepted input byte for byte — for *any* inner codec that consumes
    what it reads (non-minimal heads, indefinite forms, anything the inner decoder tolerates) -/
theorem keepraw_preserves {α : Type} (t : Codec α) (ht : Consumes t.dec) : Pres (cKeepRaw t) := keepraw_pres t ht

/-- the raw bytes are exactly the consumed span and the content is what the inner decoder returned -/
theorem keepraw_raw_is_span {α : Type} (t : Codec α) (ht : Suffix t.dec) (bs : Bytes) (k : KeepRaw α) (r : Bytes)
    (h : (cKeepRaw t).dec bs = .ok k r) : bs = k.raw ++ r ∧ t.dec bs = .ok k.inner r :=
  keepraw_raw_is_consumed t ht bs k r h

/-- mutating the content (`deref_mut`) makes the wrapper re-encode from the new content -/
theorem keepraw_mutation_reencodes {α : Type} (t : Codec α) (k : KeepRaw α) (f : α → α) :
    (cKeepRaw t).enc (k.derefMut f) = t.enc (f k.inner) := keepraw_mut t k f

/-- **every history**: the raw-keeping wrapper carries a `Cow` (borrowed from the input after decoding,
    owned after `From<T>` / `to_owned` / `clear_raw`). For every sequence of the public operations
    `to_owned`, `clone`, `deref`, `clear_raw`, `deref_mut + mutation`, starting from any wrapper:
    if the sequence contains a `deref_mut` (or `clear_raw`) anywhere, the result has no raw bytes and
    encodes as the inner codec's encoding of its *current* content — no matter how many `to_owned` /
    `clone` come before or after the mutation -/
theorem keepraw_mutation_reencodes_every_history {α : Type} (t : Codec α) (k : KeepRaw α) (ops : List (KOp α))
    (h : ops.any KOp.invalidates = true) :
    (k.run ops).raw = [] ∧ (cKeepRaw t).enc (k.run ops) = t.enc (k.run ops).inner := by
  have hr := keepraw_run_invalidated ops k (Or.inr h)
  exact ⟨hr, by simp [cKeepRaw, KeepRaw.enc, hr]⟩

/-- … and a history without any mutation (any mix of `to_owned`, `clone`, `deref`) keeps the original
    span and the content, so a decoded wrapper still encodes to exactly the bytes it was decoded from -/
theorem keepraw_unmutated_history_keeps_original {α : Type} (t : Codec α) (ht : Consumes t.dec) (bs : Bytes)
    (k : KeepRaw α) (r : Bytes) (hd : (cKeepRaw t).dec bs = .ok k r) (ops : List (KOp α))
    (h : ops.all (fun o => !o.invalidates) = true) :
    (cKeepRaw t).enc (k.run ops) ++ r = bs ∧ (k.run ops).inner = k.inner := by
  obtain ⟨h1, h2⟩ := keepraw_run_untouched ops k h
  refine ⟨?_, h2⟩
  have hp := keepraw_pres t ht bs k r hd
  simp only [cKeepRaw, KeepRaw.enc] at hp ⊢
  rw [h1, h2]; exact hp

/-- round trip of a `KeepRaw` made from a value (`From<T>`): same content, raw bytes = its encoding -/
theorem keepraw_roundtrip_from {α : Type} (t : Codec α) (wf : α → Prop) (ht : RTon t wf) (a : α) (ha : wf a) (r : Bytes) :
    (cKeepRaw t).dec ((cKeepRaw t).enc (KeepRaw.from a) ++ r) = .ok ⟨.borrowed (t.enc a), a⟩ r := keepraw_rt_from t wf ht a ha r

/-- round trip of a decoded `KeepRaw`: equal value, raw bytes included -/
theorem keepraw_roundtrip_decoded {α : Type} (t : Codec α) (ht : Consumes t.dec) (bs : Bytes) (k : KeepRaw α) (r : Bytes)
    (h : (cKeepRaw t).dec bs = .ok k r) (r' : Bytes) (hind : t.dec (k.raw ++ r') = .ok k.inner r') :
    (cKeepRaw t).dec ((cKeepRaw t).enc k ++ r') = .ok k r' := keepraw_rt_decoded t ht bs k r h r' hind

/-! ## opaque any-CBOR -/

/-- `AnyCbor` holds, and writes back, exactly the bytes `skip()` walked over -/
theorem anycbor_preserves : Pres cAnyCbor := anycbor_pres

/-- an `AnyCbor` whose bytes `skip()` takes as one unit decodes back from its encoding -/
theorem anycbor_roundtrip (inner r : Bytes) (h : skip (inner ++ r) = .ok () r) :
    cAnyCbor.dec (cAnyCbor.enc inner ++ r) = .ok inner r := anycbor_rt_of_skip inner r h

/-! ## null / undefined nullable -/

theorem nullable_roundtrip {α : Type} (t : Codec α) (wf : α → Prop) (ht : RTon t wf) (hn : NotNullish t wf) :
    RTon (cNullable t) (Nullable.wfWith wf) := nullable_rt t wf ht hn

/-- null stays `f6`, undefined stays `f7`, a payload is preserved as far as its codec preserves -/
theorem nullable_preserves {α : Type} (t : Codec α) (ht : Pres t) : Pres (cNullable t) := nullable_pres t ht

/-! ## definite / indefinite arrays and maps -/

theorem maybeIndef_roundtrip {α : Type} (c : Codec α) (wf : α → Prop) (h : ElemOK c wf) :
    RTon (cMaybeIndef c) (MaybeIndef.wfWith wf) := maybeIndef_rt c wf h

theorem kvp_roundtrip {κ ν : Type} (k : Codec κ) (v : Codec ν) (wk : κ → Prop) (wv : ν → Prop)
    (hk : ElemOK k wk) (hv : RTon v wv) : RTon (cKVP k v) (KVP.wfWith wk wv) := kvp_rt k v wk wv hk hv

/-- the property as stated, for the two container wrappers over the length-preserving integer -/
def FullPresContainers : Prop := Pres (cMaybeIndef cAnyUInt) ∧ Pres (cKVP cAnyUInt cAnyUInt)

/-- it fails: `98 02 01 02` ↦ `Def[1, 2]` ↦ `82 01 02`, `b8 01 01 02` ↦ `Def{1: 2}` ↦ `a1 01 02` -/
theorem full_pres_containers_fails_at_witness :
    ¬ Pres (cMaybeIndef cAnyUInt) ∧ ¬ Pres (cKVP cAnyUInt cAnyUInt) := by
  constructor
  · intro h
    have := h [0x98, 0x02, 0x01, 0x02] (.defn [.majorByte 1, .majorByte 2]) [] rfl
    revert this; decide
  · intro h
    have := h [0xb8, 0x01, 0x01, 0x02] (.defn [(.majorByte 1, .majorByte 2)]) [] rfl
    revert this; decide

theorem full_pres_containers_false : ¬ FullPresContainers := fun h => full_pres_containers_fails_at_witness.1 h.1

/-- what does hold: the indefinite form always, the definite form when its length head is minimal -/
theorem maybeIndef_preserves_partial {α : Type} (c : Codec α) (hc : Pres c) (bs : Bytes) (v : MaybeIndef α) (r : Bytes)
    (hmin : minimalSeqHead 4 bs = true) (h : (cMaybeIndef c).dec bs = .ok v r) : (cMaybeIndef c).enc v ++ r = bs :=
  maybeIndef_pres_partial c hc bs v r hmin h

theorem maybeIndef_preserves_indefinite {α : Type} (c : Codec α) (hc : Pres c) (bs : Bytes) (xs : List α) (r : Bytes)
    (h : (cMaybeIndef c).dec bs = .ok (.indef xs) r) : (cMaybeIndef c).enc (.indef xs) ++ r = bs :=
  maybeIndef_pres_indef c hc bs xs r h

theorem kvp_preserves_partial {κ ν : Type} (k : Codec κ) (v : Codec ν) (hk : Pres k) (hv : Pres v)
    (bs : Bytes) (m : KVP κ ν) (r : Bytes) (hmin : minimalSeqHead 5 bs = true)
    (h : (cKVP k v).dec bs = .ok m r) : (cKVP k v).enc m ++ r = bs := kvp_pres_partial k v hk hv bs m r hmin h

/-! ## the other wrappers round-trip -/

theorem tagwrap_roundtrip {α : Type} (tg : Nat) (htg : tg < 2 ^ 64) (i : Codec α) (wf : α → Prop) (hi : RTon i wf) :
    RTon (cTagWrap tg i) wf := tagwrap_rt tg htg i wf hi

theorem cborwrap_roundtrip {α : Type} (t : Codec α) (wf : α → Prop) (ht : RTon t wf) :
    RTon (cCborWrap t) (fun a => wf a ∧ (t.enc a).length < 2 ^ 64) := cborwrap_rt t wf ht

theorem zeroOrOne_roundtrip {α : Type} (t : Codec α) (wf : α → Prop) (ht : RTon t wf) :
    RTon (cZeroOrOne t) (fun o => ∀ a, o = some a → wf a) := zeroOrOne_rt t wf ht

theorem set_roundtrip {α : Type} (c : Codec α) (wf : α → Prop) (h : RTon c wf) :
    RTon (cSet c) (fun xs => (∀ x ∈ xs, wf x) ∧ xs.length < 2 ^ 64) := set_rt c wf h

theorem orderPreservingProperties_roundtrip {α : Type} (p : Codec α) (wf : α → Prop) (h : RTon p wf) :
    RTon (cOPP p) (fun xs => (∀ x ∈ xs, wf x) ∧ xs.length < 2 ^ 64) := opp_rt p wf h

theorem vec_roundtrip {α : Type} (c : Codec α) (wf : α → Prop) (h : RTon c wf) :
    RTon (cVec c) (fun xs => (∀ x ∈ xs, wf x) ∧ xs.length < 2 ^ 64) := vec_rt c wf h

theorem emptyMap_roundtrip : RTon cEmptyMap (fun _ => True) := emptyMap_rt

/-- the transparent wrappers and the numeric wrappers (values built through the checked constructors) -/
theorem bytes_roundtrip : RTon cBytes (fun b => b.length < 2 ^ 64) := bytes_rt
theorem int_roundtrip : RTon cInt (fun i => -(2 ^ 64 : Int) ≤ i ∧ i < 2 ^ 64) := int_rt
theorem positiveCoin_roundtrip : RTon cPositiveCoin (fun n => n ≠ 0 ∧ n < 2 ^ 64) := positiveCoin_rt
theorem nonZeroInt_roundtrip : RTon cNonZeroInt (fun i => i ≠ 0 ∧ -(2 ^ 63 : Int) ≤ i ∧ i < 2 ^ 63) := nonZeroInt_rt

/-- an enum whose codec `codec_by_datatype!` generates (the harness enum `Thing`, variants with
    disjoint datatypes and a many-field variant) round-trips -/
theorem codec_by_datatype_enum_roundtrip : RTon ⟨Thing.enc, Thing.dec⟩ Thing.wf := thing_rt

/-! ## the hypotheses are inhabited: the wrappers compose (depth 3 shown) -/

/-- `AnyUInt` is a good sequence element: round trip, and never starts with the break byte -/
theorem anyuint_elemOK : ElemOK cAnyUInt AnyUInt.wf := by
  refine ⟨anyuint_rt, ?_⟩
  intro a hw
  cases a with
  | majorByte x =>
    simp only [AnyUInt.wf] at hw
    refine ⟨UInt8.ofNat x, [], by simp [cAnyUInt, AnyUInt.enc, be], ?_⟩
    intro e; have := congrArg UInt8.toNat e
    rw [toNat_ofNat_lt x (by omega)] at this; simp at this; omega
  | u8 x => exact ⟨24, be 1 x, rfl, by decide⟩
  | u16 x => exact ⟨25, be 2 x, rfl, by decide⟩
  | u32 x => exact ⟨26, be 4 x, rfl, by decide⟩
  | u64 x => exact ⟨27, be 8 x, rfl, by decide⟩

/-- an `AnyUInt` encoding is never mistaken for null / undefined -/
theorem anyuint_notNullish : NotNullish cAnyUInt AnyUInt.wf := by
  intro a hw r
  cases a with
  | majorByte x =>
    simp only [AnyUInt.wf] at hw
    refine ⟨.u8, ?_, by decide, by decide⟩
    simp only [cAnyUInt, AnyUInt.enc, be, List.cons_append, List.nil_append, datatype]
    exact typeOf_u8 _ _ (by rw [toNat_ofNat_lt _ (by omega)]; omega)
  | u8 x =>
    refine ⟨.u8, ?_, by decide, by decide⟩
    simp only [cAnyUInt, AnyUInt.enc, List.cons_append, datatype]; exact typeOf_u8 _ (24 : UInt8) (by decide)
  | u16 x =>
    refine ⟨.u16, ?_, by decide, by decide⟩
    simp only [cAnyUInt, AnyUInt.enc, List.cons_append, datatype]; exact typeOf_u16 _ (25 : UInt8) rfl
  | u32 x =>
    refine ⟨.u32, ?_, by decide, by decide⟩
    simp only [cAnyUInt, AnyUInt.enc, List.cons_append, datatype]; exact typeOf_u32 _ (26 : UInt8) rfl
  | u64 x =>
    refine ⟨.u64, ?_, by decide, by decide⟩
    simp only [cAnyUInt, AnyUInt.enc, List.cons_append, datatype]; exact typeOf_u64 _ (27 : UInt8) rfl

/-- `KeyValuePairs<AnyUInt, Nullable<AnyUInt>>` round-trips — a composition through three generic theorems -/
theorem kvp_anyuint_nullable_anyuint_roundtrip :
    RTon (cKVP cAnyUInt (cNullable cAnyUInt))
      (KVP.wfWith AnyUInt.wf (Nullable.wfWith AnyUInt.wf)) :=
  kvp_rt _ _ _ _ anyuint_elemOK (nullable_rt _ _ anyuint_rt anyuint_notNullish)

/-- `MaybeIndefArray<Nullable<AnyUInt>>` preserves every accepted input with a minimal (or indefinite) head -/
theorem mia_nullable_anyuint_preserves_partial (bs : Bytes) (v : MaybeIndef (Nullable AnyUInt)) (r : Bytes)
    (hmin : minimalSeqHead 4 bs = true) (h : (cMaybeIndef (cNullable cAnyUInt)).dec bs = .ok v r) :
    (cMaybeIndef (cNullable cAnyUInt)).enc v ++ r = bs :=
  maybeIndef_pres_partial _ (nullable_pres _ anyuint_pres) bs v r hmin h

/-- `KeepRaw<MaybeIndefArray<AnyUInt>>` preserves *every* accepted input, non-minimal heads included -/
theorem keepraw_mia_anyuint_preserves : Pres (cKeepRaw (cMaybeIndef cAnyUInt)) := by
  apply keepraw_pres
  intro cur a rest h
  simp only [cMaybeIndef, MaybeIndef.dec] at h
  cases hT : datatype cur with
  | error e => simp [hT] at h
  | ok ty =>
    simp only [hT] at h
    have hv : ∀ xs, vec cAnyUInt.dec cur = .ok xs rest → ∃ c, c ≠ [] ∧ cur = c ++ rest := by
      intro xs e
      simp only [vec] at e
      obtain ⟨len, r1, e1, e2⟩ := Res.andThen_eq_ok e
      obtain ⟨c1, hne, h1⟩ := seqHead_consumes 4 cur len r1 e1
      have hs : Suffix (iterCollect cAnyUInt.dec len) := by
        intro cur' xs' rest' e'
        cases len with
        | some n =>
          simp only [iterCollect] at e'
          obtain ⟨h1, _⟩ := repeatN_inv cAnyUInt anyuint_pres n cur' xs' rest' e'
          exact ⟨_, h1.symm⟩
        | none =>
          simp only [iterCollect] at e'
          have := untilBreak_inv cAnyUInt anyuint_pres _ cur' xs' rest' e'
          exact ⟨concatMap cAnyUInt.enc xs' ++ [0xff], by rw [← this]; simp⟩
      obtain ⟨c2, h2⟩ := hs r1 xs rest e2
      exact ⟨c1 ++ c2, by simp [hne], by rw [h1, h2, List.append_assoc]⟩
    split at h
    · obtain ⟨xs, e, _⟩ := Res.map_eq_ok h; exact hv xs e
    · split at h
      · obtain ⟨xs, e, _⟩ := Res.map_eq_ok h; exact hv xs e
      · cases h

/-! ## `AnyCbor` captures exactly one data item; `skip()` is total -/

/-- on the definite fragment (no indefinite-length node, text strings valid UTF-8 — `plain`), `skip()`
    walks over exactly the encoding of one well-formed item, whatever follows -/
theorem skip_walks_one_item (i : Item) (r : Bytes) (hw : i.wf = true) (hp : plain i = true)
    (hlen : (i.encode ++ r).length ≤ u64Max) : skip (i.encode ++ r) = .ok () r := skip_item i r hw hp hlen

/-- hence `AnyCbor` agrees with the strict generic parser there: it captures the bytes of the first
    item (non-minimal head widths included) and nothing else -/
theorem anycbor_captures_one_item (bs : Bytes) (i : Item) (r : Bytes) (h : parseItem bs = some (i, r))
    (hp : plain i = true) (hlen : bs.length ≤ u64Max) : cAnyCbor.dec bs = .ok i.encode r := by
  obtain ⟨e, hw⟩ := parseItem_sound bs i r h
  subst e
  simp [cAnyCbor, AnyCbor.dec, skip_item i r hw hp hlen, span_of_suffix]

/-- and an `AnyCbor` holding such an item round-trips -/
theorem anycbor_roundtrip_item (i : Item) (r : Bytes) (hw : i.wf = true) (hp : plain i = true)
    (hlen : (i.encode ++ r).length ≤ u64Max) : cAnyCbor.dec (cAnyCbor.enc i.encode ++ r) = .ok i.encode r :=
  anycbor_rt_of_skip _ _ (skip_item i r hw hp hlen)

/-- the loop of `skip()` never runs out of the fuel the model gives it (one unit per input byte): the
    model-only outcome `diverge` is unreachable, on every input -/
theorem skip_never_diverges (cur : Bytes) : skip cur ≠ .err .diverge := skip_nd cur

/-! ## `codec_by_datatype!` -/

/-- an input whose datatype belongs to variant `k`'s set (and to no earlier variant's, and is not a
    definite array when a many-field variant exists) is decoded by variant `k`'s payload decoder -/
theorem byDatatype_dispatch_single {γ : Type} (many : Option (P γ)) (arms : List (Arm γ)) (cur : Bytes) (t : DType)
    (k : Nat) (a : Arm γ) (hdt : datatype cur = .ok t) (hmany : many.isSome = true → t ≠ .array)
    (hk : arms[k]? = some a) (hsel : a.types t = true)
    (hfirst : ∀ j, j < k → ∀ b, arms[j]? = some b → b.types t = false) :
    byDatatype many arms cur = a.dec cur := byDatatype_single many arms cur t k a hdt hmany hk hsel hfirst

/-- a definite array head always goes to the many-field variant -/
theorem byDatatype_dispatch_many {γ : Type} (m : P γ) (arms : List (Arm γ)) (cur : Bytes) (hdt : datatype cur = .ok .array) :
    byDatatype (some m) arms cur = (array cur).andThen fun _ r => m r := byDatatype_many m arms cur hdt

/-! ## non-vacuity -/

example : AnyUInt.wf (.u8 5) ∧ AnyUInt.wf (.majorByte 23) ∧ ¬ AnyUInt.wf (.majorByte 24) := by decide
example : cAnyUInt.dec [0x18, 0x05, 0xaa] = .ok (.u8 5) [0xaa] := rfl
example : cAnyUInt.enc (.u8 5) = [0x18, 0x05] := rfl
example : minimalSeqHead 4 [0x82, 0x01, 0x02] = true ∧ minimalSeqHead 4 [0x9f, 0x01, 0xff] = true ∧
    minimalSeqHead 4 [0x98, 0x02, 0x01, 0x02] = false := by decide
example : (cMaybeIndef cAnyUInt).dec [0x9f, 0x01, 0x18, 0x02, 0xff] = .ok (.indef [.majorByte 1, .u8 2]) [] := rfl
example : (cKVP cAnyUInt (cNullable cAnyUInt)).dec [0xbf, 0x01, 0xf6, 0x02, 0xf7, 0xff]
    = .ok (.indef [(.majorByte 1, .null), (.majorByte 2, .undefined)]) [] := rfl
example : (cKeepRaw (cVec cU64)).dec [0x9f, 0x01, 0x02, 0xff] = .ok ⟨.borrowed [0x9f, 0x01, 0x02, 0xff], [1, 2]⟩ [] := rfl
example : (cKeepRaw (cVec cU64)).enc ((KeepRaw.mk (.borrowed [0x9f, 0x01, 0x02, 0xff]) [1, 2]).derefMut (· ++ [3])) = [0x83, 0x01, 0x02, 0x03] := rfl
/-- decode → `to_owned` → `clone` → mutate → `to_owned`: re-encoded from the new content -/
example : (cKeepRaw (cVec cU64)).enc ((KeepRaw.mk (.borrowed [0x9f, 0x01, 0x02, 0xff]) [1, 2]).run
    [.toOwned, .clone, .derefMut (· ++ [3]), .toOwned]) = [0x83, 0x01, 0x02, 0x03] := rfl
example : (cKeepRaw (cVec cU64)).enc ((KeepRaw.mk (.borrowed [0x9f, 0x01, 0x02, 0xff]) [1, 2]).run [.toOwned, .clone, .deref])
    = [0x9f, 0x01, 0x02, 0xff] := rfl
example : cAnyCbor.dec [0x98, 0x02, 0x01, 0x9f, 0xff, 0x00] = .ok [0x98, 0x02, 0x01, 0x9f, 0xff] [0x00] := rfl
/-- the `Nullable` side condition is needed: a payload that encodes as `f6` comes back as `Null` -/
example : (cNullable (cNullable cU64)).dec ((cNullable (cNullable cU64)).enc (.some .null)) = .ok .null [] := rfl

example : plain (.seq ⟨4, 25, [0, 2]⟩ [.atom ⟨0, 24, [5]⟩, .str ⟨3, 1, []⟩ [0x61]]) = true := by decide
example : (Item.seq ⟨4, 25, [0, 2]⟩ [.atom ⟨0, 24, [5]⟩, .str ⟨3, 1, []⟩ [0x61]]).wf = true := by decide
example : (Item.seq ⟨4, 25, [0, 2]⟩ [.atom ⟨0, 24, [5]⟩, .str ⟨3, 1, []⟩ [0x61]]).encode = [0x99, 0x00, 0x02, 0x18, 0x05, 0x61, 0x61] := by decide

end PallasVerif.Props.C03
