import PallasVerif.Model.ValidateTxs
/-!
# C39 — Sequence validation updates certificate state atomically

`applyInOrder` is the specification: apply each transaction in order to the state its predecessor
produced, stop at the first failure. For **every** single-transaction validator `step` (including
ones that leave a half-updated state behind when they fail), every starting state and every
transaction list (any length below 2^32):

* `validate_txs_spec` — `validateTxs` returns `(s', ok)` exactly when `applyInOrder` ends in `s'`,
  and `(s, err e)` with the caller's state `s` untouched exactly when `applyInOrder` fails with `e`;
* `validate_txs_ok_iff`, `validate_txs_err_atomic`, `validate_txs_never_partial` — the two clauses of
  the property separately (the atomic clause holds for every length, panic included);
* `direct_is_not_atomic` — the variant that validates against the caller's state directly violates
  the property for a concrete `step` (so the theorems do distinguish the two programs).
-/
namespace PallasVerif.Props.C39
open PallasVerif.ValidateTxs

variable {S T E : Type}

/-- as if each transaction had been applied in order -/
def applyInOrder (step : Step S T E) : S → Nat → List T → Except E S
  | s, _, [] => .ok s
  | s, i, tx :: rest =>
    match step s i tx with
    | (s', none) => applyInOrder step s' (i + 1) rest
    | (_, some e) => .error e

/-- the loop never writes the caller's variable -/
theorem loopMem_caller (step : Step S T E) : ∀ (txs : List T) (m : Mem S) (i : Nat),
    (loopMem step m i txs).1.caller = m.caller := by
  intro txs
  induction txs with
  | nil => intro m i; rfl
  | cons tx rest ih =>
    intro m i
    unfold loopMem
    split
    · rfl
    · split
      · rename_i d' hs; rw [ih]
      · rfl

theorem loopMem_spec (step : Step S T E) : ∀ (txs : List T) (m : Mem S) (i : Nat),
    i + txs.length ≤ U32_MAX + 1 →
    (match applyInOrder step m.delta i txs with
     | .ok s' => (loopMem step m i txs).2 = .ok ∧ (loopMem step m i txs).1.delta = s'
     | .error e => (loopMem step m i txs).2 = .err e) := by
  intro txs
  induction txs with
  | nil => intro m i _; simp [applyInOrder, loopMem]
  | cons tx rest ih =>
    intro m i hlen
    simp only [List.length_cons] at hlen
    have hi : ¬ i > U32_MAX := by omega
    unfold applyInOrder loopMem
    rw [if_neg hi]
    cases hs : step m.delta i tx with
    | mk d' r =>
      cases r with
      | none =>
        simp only
        have := ih { m with delta := d' } (i + 1) (by omega)
        simpa using this
      | some e => simp

/-- **The property.** -/
theorem validate_txs_spec (step : Step S T E) (s : S) (txs : List T) (hlen : txs.length ≤ U32_MAX + 1) :
    validateTxs step s txs =
      (match applyInOrder step s 0 txs with
       | .ok s' => (s', .ok)
       | .error e => (s, .err e)) := by
  have h := loopMem_spec step txs { caller := s, delta := s } 0 (by omega)
  have hc := loopMem_caller step txs { caller := s, delta := s } 0
  unfold validateTxs
  cases ha : applyInOrder step s 0 txs with
  | ok s' =>
    simp only [ha] at h
    cases hl : loopMem step { caller := s, delta := s } 0 txs with
    | mk m r =>
      rw [hl] at h
      simp only at h
      obtain ⟨h1, h2⟩ := h
      subst h1; subst h2; rfl
  | error e =>
    simp only [ha] at h
    cases hl : loopMem step { caller := s, delta := s } 0 txs with
    | mk m r =>
      rw [hl] at h hc
      simp only at h hc
      subst h; subst hc; rfl

/-- success: the caller ends with exactly the in-order state -/
theorem validate_txs_ok_iff (step : Step S T E) (s s' : S) (txs : List T) (hlen : txs.length ≤ U32_MAX + 1) :
    validateTxs step s txs = (s', .ok) ↔ applyInOrder step s 0 txs = .ok s' := by
  rw [validate_txs_spec step s txs hlen]
  cases applyInOrder step s 0 txs <;> simp

/-- failure (or panic): the caller's certificate state is unchanged — for every list, every `step` -/
theorem validate_txs_err_atomic (step : Step S T E) (s : S) (txs : List T)
    (hfail : (validateTxs step s txs).2 ≠ .ok) : (validateTxs step s txs).1 = s := by
  have hc := loopMem_caller step txs { caller := s, delta := s } 0
  unfold validateTxs at hfail ⊢
  cases hl : loopMem step { caller := s, delta := s } 0 txs with
  | mk m r =>
    rw [hl] at hc hfail
    cases r with
    | ok => simp at hfail
    | err e => simpa using hc
    | panic => simpa using hc

/-- there is no third outcome: either the in-order state with `ok`, or the old state -/
theorem validate_txs_never_partial (step : Step S T E) (s : S) (txs : List T) (hlen : txs.length ≤ U32_MAX + 1) :
    (∃ s', applyInOrder step s 0 txs = .ok s' ∧ validateTxs step s txs = (s', .ok)) ∨
    (∃ e, applyInOrder step s 0 txs = .error e ∧ validateTxs step s txs = (s, .err e)) := by
  rw [validate_txs_spec step s txs hlen]
  cases applyInOrder step s 0 txs with
  | ok s' => exact Or.inl ⟨s', rfl, rfl⟩
  | error e => exact Or.inr ⟨e, rfl, rfl⟩

/-! ## The mutation is visible: a `step` that registers (adds 1) before it notices the transaction is bad -/
private def regThenCheck : Step Nat Bool String := fun s _ good => (s + 1, if good then none else some "bad")

example : validateTxs regThenCheck 10 [true, true, false, true] = (10, .err "bad") := by decide
example : validateTxs regThenCheck 10 [true, true, true] = (13, .ok) := by decide
example : applyInOrder regThenCheck 10 0 [true, true, true] = .ok 13 := by rfl
/-- validating against the caller's state directly leaves three half-applied registrations behind -/
theorem direct_is_not_atomic :
    (validateTxsDirect regThenCheck 10 [true, true, false, true]).2 ≠ .ok ∧
    (validateTxsDirect regThenCheck 10 [true, true, false, true]).1 ≠ 10 := by decide

end PallasVerif.Props.C39
