import PallasVerif.Model.Kes
import PallasVerif.Props.C12
/-!
# C13 — KES evolution erases all signing material of past periods   (partial)

Seeds are taken *symbolically*: the instance `sym` of `Model/Kes.lean` names every seed by its path
from the root (`split p = (p ++ [L], p ++ [R])`), so "the seed `x` derives the signing key of period
`q`" is exactly `x <+: leafSeed d s q` (prefix). `material k` lists every secret seed the key buffer
holds — the leaf's Ed25519 secret key (which *is* its seed) and the stored right-child seeds; all
other bytes of the layout `keyBytes` are public keys, zeros or the period.

* `forward_secure` — for every depth `d`, every number of evolutions `t < 2^d` and every earlier
  period `q < t`: no seed held by the key after `t` updates is a prefix of (= derives) the leaf of
  period `q`. By induction on `d` over the three `Ordering` branches of `update_slice`
  (through `C12.evolve_keygen`, which identifies the evolved key with the closed form `keyAt`).
* `forward_secure_evolved` — the same statement phrased on the result of `t` successive `update`s.
* `material_derive` / `forward_secure_concrete` — the bridge to any concrete instance (in particular `conc`,
  BLAKE2b-256 on bytes): the secret seeds in the concrete key are exactly the seeds at the symbolic positions
  (`derive root x` = follow `split_slice` along `x`), none of which is an ancestor-or-self of an earlier leaf.
* `future_derivable` — conversely every period `q ≥ t` is still derivable (so `material` is not
  trivially empty and the key is usable), and `current_leaf_present`.

**Partial:** symbolic seeds (a seed "derives" only what the tree structure says — i.e. up to BLAKE2b
preimages/collisions); the buffer contents are tied to the real `as_bytes()` by the correspondence
(byte-for-byte after every update) and the harness additionally scans the real buffer at every byte
offset for all past seeds. Memory that is not reachable through `as_bytes` (stack temporaries of
`keygen_slice`, allocator residue, the caller's seed buffer — the last one is checked by the harness)
is outside the model.
-/
namespace PallasVerif.Props.C13
open PallasVerif.Kes PallasVerif.Props.C12

/-- every seed in the key lies under the subtree root -/
theorem material_under (d : Nat) (s : Path) (t : Nat) : ∀ x ∈ material sym (keyAt sym d s t), s <+: x := by
  induction d generalizing s t with
  | zero => intro x hx; simp [keyAt, material] at hx; subst hx; exact List.prefix_refl _
  | succ d ih =>
    intro x hx
    simp only [keyAt] at hx
    split at hx
    · simp only [material, List.mem_append, Option.toList_some, List.mem_singleton] at hx
      rcases hx with h | h
      · exact List.IsPrefix.trans (List.prefix_append s [Dir.L]) (ih _ _ x h)
      · subst h; exact List.prefix_append s [Dir.R]
    · simp only [material, Option.toList_none, List.append_nil] at hx
      exact List.IsPrefix.trans (List.prefix_append s [Dir.R]) (ih _ _ x hx)

theorem not_under_both (s x y : Path) (h1 : s ++ [Dir.R] <+: x) (h2 : s ++ [Dir.L] <+: y) (h : x <+: y) : False := by
  obtain ⟨a, ha⟩ := List.IsPrefix.trans h1 h
  obtain ⟨b, hb⟩ := h2
  have : (s ++ [Dir.R]) ++ a = (s ++ [Dir.L]) ++ b := by rw [ha, hb]
  simp [List.append_assoc] at this

/-- **forward security**: after `t` evolutions nothing in the key derives the leaf of an earlier period -/
theorem forward_secure (d : Nat) (s : Path) (t q : Nat) (ht : t < 2 ^ d) (hq : q < t) :
    ∀ x ∈ material sym (keyAt sym d s t), ¬ (x <+: leafSeed sym d s q) := by
  induction d generalizing s t q with
  | zero => simp at ht; omega
  | succ d ih =>
    have hp := two_pow_succ d
    intro x hx hpre
    by_cases h1 : t < 2 ^ d
    · -- still in the left half: the right seed is present but covers only periods ≥ 2^d
      have hq1 : q < 2 ^ d := by omega
      simp only [keyAt, h1, ↓reduceIte, material, List.mem_append, Option.toList_some, List.mem_singleton] at hx
      simp only [leafSeed, hq1, ↓reduceIte] at hpre
      rcases hx with h | h
      · exact ih _ _ _ h1 hq x h hpre
      · subst h
        exact not_under_both s _ _ (List.prefix_refl _) (leafSeed_under d _ q) hpre
    · -- right half: seed slot is zero, the active child is the regenerated right subtree
      simp only [keyAt, h1, ↓reduceIte, material, Option.toList_none, List.append_nil] at hx
      by_cases hq1 : q < 2 ^ d
      · simp only [leafSeed, hq1, ↓reduceIte] at hpre
        exact not_under_both s _ _ (material_under d _ _ x hx) (leafSeed_under d _ q) hpre
      · simp only [leafSeed, hq1, ↓reduceIte] at hpre
        exact ih _ _ _ (by omega) (by omega) x hx hpre

/-- the same, stated on the key obtained by `t` successive `KesSk::update` calls after `keygen` -/
theorem forward_secure_evolved (d : Nat) (s : Path) (t q : Nat) (ht : t < 2 ^ d) (hq : q < t) :
    ∃ k, evolve sym (skKeygen sym d s).1 t = some k ∧ k.period = t ∧
      ∀ x ∈ material sym k.key, ¬ (x <+: leafSeed sym d s q) :=
  ⟨_, evolve_keygen sym d s t ht, rfl, forward_secure d s t q ht hq⟩

/-- the current period's signing key is there -/
theorem current_leaf_present (d : Nat) (s : Path) (t : Nat) :
    leafSeed sym d s t ∈ material sym (keyAt sym d s t) := by
  induction d generalizing s t with
  | zero => simp [keyAt, material, leafSeed]
  | succ d ih =>
    by_cases h1 : t < 2 ^ d
    · simp only [keyAt, h1, ↓reduceIte, material, leafSeed, List.mem_append]; exact Or.inl (ih _ _)
    · simp only [keyAt, h1, ↓reduceIte, material, leafSeed, List.mem_append]; exact Or.inl (ih _ _)

/-- every period from `t` on can still be derived from what the key holds -/
theorem future_derivable (d : Nat) (s : Path) (t q : Nat) (hq : t ≤ q) (hq2 : q < 2 ^ d) :
    ∃ x ∈ material sym (keyAt sym d s t), x <+: leafSeed sym d s q := by
  induction d generalizing s t q with
  | zero => exact ⟨s, by simp [keyAt, material], by simp [leafSeed]⟩
  | succ d ih =>
    have hp := two_pow_succ d
    by_cases h1 : t < 2 ^ d
    · by_cases h2 : q < 2 ^ d
      · obtain ⟨x, hx, hpre⟩ := ih (s ++ [Dir.L]) t q hq h2
        refine ⟨x, ?_, ?_⟩
        · simp only [keyAt, h1, ↓reduceIte, material, List.mem_append]; exact Or.inl hx
        · simp only [leafSeed, h2, ↓reduceIte]; exact hpre
      · refine ⟨s ++ [Dir.R], ?_, ?_⟩
        · simp [keyAt, h1, material]
        · simp only [leafSeed, h2, ↓reduceIte]; exact leafSeed_under d _ _
    · have h2 : ¬ q < 2 ^ d := by omega
      obtain ⟨x, hx, hpre⟩ := ih (s ++ [Dir.R]) (t - 2 ^ d) (q - 2 ^ d) (by omega) (by omega)
      refine ⟨x, ?_, ?_⟩
      · simp only [keyAt, h1, ↓reduceIte, material, Option.toList_none, List.append_nil]; exact hx
      · simp only [leafSeed, h2, ↓reduceIte]; exact hpre

/-! ## from symbolic paths to the seeds of any concrete instance -/

/-- the seed reached from `root` by following `path` through `Seed::split_slice` -/
def derive (P : Prims) (root : P.Seed) : Path → P.Seed
  | [] => root
  | .L :: q => derive P (P.split root).1 q
  | .R :: q => derive P (P.split root).2 q

theorem derive_append_L (P : Prims) (root : P.Seed) (p : Path) :
    derive P root (p ++ [Dir.L]) = (P.split (derive P root p)).1 := by
  induction p generalizing root with
  | nil => rfl
  | cons x xs ih => cases x <;> simp [derive, ih]

theorem derive_append_R (P : Prims) (root : P.Seed) (p : Path) :
    derive P root (p ++ [Dir.R]) = (P.split (derive P root p)).2 := by
  induction p generalizing root with
  | nil => rfl
  | cons x xs ih => cases x <;> simp [derive, ih]

/-- the secret seeds a key of *any* instance holds are exactly the images of the symbolic material -/
theorem material_derive (P : Prims) (root : P.Seed) (d : Nat) (p : Path) (t : Nat) :
    material P (keyAt P d (derive P root p) t) = (material sym (keyAt sym d p t)).map (derive P root) := by
  induction d generalizing p t with
  | zero => simp [keyAt, material]
  | succ d ih =>
    by_cases h : t < 2 ^ d
    · simp only [keyAt, h, ↓reduceIte, material, List.map_append, Option.toList_some, List.map_cons, List.map_nil]
      rw [← derive_append_L, ← derive_append_R, ih]
    · simp only [keyAt, h, ↓reduceIte, material, List.map_append, Option.toList_none, List.map_nil, List.append_nil]
      rw [← derive_append_R, ih]

theorem leafSeed_derive (P : Prims) (root : P.Seed) (d : Nat) (p : Path) (q : Nat) :
    leafSeed P d (derive P root p) q = derive P root (leafSeed sym d p q) := by
  induction d generalizing p q with
  | zero => rfl
  | succ d ih =>
    by_cases h : q < 2 ^ d
    · simp only [leafSeed, h, ↓reduceIte]; rw [← derive_append_L, ih]
    · simp only [leafSeed, h, ↓reduceIte]; rw [← derive_append_R, ih]

/-- **forward security read on a concrete key** (e.g. `conc`: BLAKE2b-256 seeds on bytes): after `t`
    evolutions every secret seed in the buffer is the seed at some tree position `x` (reached from the
    master seed by `split_slice` along `x`) that is *not* an ancestor-or-self of the position of any
    earlier period's leaf — so the only way from the buffer to an earlier signing key is to invert or
    collide the seed-splitting hash. -/
theorem forward_secure_concrete (P : Prims) (root : P.Seed) (d : Nat) (t q : Nat) (ht : t < 2 ^ d) (hq : q < t) :
    ∀ s ∈ material P (keyAt P d root t), ∃ x : Path, s = derive P root x ∧
      ¬ (x <+: leafSeed sym d [] q) ∧ leafSeed P d root q = derive P root (leafSeed sym d [] q) := by
  intro s hs
  have hm := material_derive P root d [] t
  simp only [derive] at hm
  rw [hm, List.mem_map] at hs
  obtain ⟨x, hx, rfl⟩ := hs
  exact ⟨x, rfl, forward_secure d [] t q ht hq x hx, by simpa [derive] using leafSeed_derive P root d [] q⟩

/-! ## non-vacuity: depth 2, after 2 updates the buffer holds only the leaf `RL` and the seed `RR` -/
example : material sym (keyAt sym 2 [] 2) = [[Dir.R, Dir.L], [Dir.R, Dir.R]] := by decide
example : material sym (keyAt sym 2 [] 0) = [[Dir.L, Dir.L], [Dir.L, Dir.R], [Dir.R]] := by decide
example : leafSeed sym 2 [] 1 = [Dir.L, Dir.R] := by decide

end PallasVerif.Props.C13
