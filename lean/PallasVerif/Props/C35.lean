import PallasVerif.Model.Witness
/-!
# C35 — Accepted transactions carry only valid signatures and all needed ones

For every hash function `hash`, every signature predicate `verify` (Ed25519 is a parameter), every
witness list, every list of input views and every list of required signers:

* `accept_implies_all_valid` (Alonzo, Babbage, Conway: `checkWitnessSet`) — verdict `ok` ⇒
  (1) every verification-key witness is well-sized and `verify key txid sig` holds,
  (2) every key-locked input / collateral input has such a witness whose key hashes to its payment key,
  (3) every required signer has one.
* `shelley_accept_implies_all_valid` (Shelley, Allegra, Mary: `checkWitnessesShelley`) — (1) and (2)
  (there are no required signers before Alonzo).

Proof: the `(covered, witness)` list keeps the invariant "covered ⇒ valid" through `check_vk_wit`
(induction on the list) and through the input loop (induction on the inputs); the fixed
`check_remaining_vk_wits` establishes "uncovered ⇒ valid" (induction on the list).
Inputs whose UTxO entry the era's validator does not inspect (`InputView.skipped`) are outside
clause (2); the harness oracle checks on the real code that no key-locked input is ever treated so.
-/
namespace PallasVerif.Props.C35
open PallasVerif.Witness

variable {H : Type} [DecidableEq H] (hash : Bytes → H) (verify : Bytes → Bytes → Bytes → Bool)

/-- a witness that is a well-formed, valid signature of `msg` -/
def Valid (msg : Bytes) (w : Wit) : Prop :=
  w.vkey.length = 32 ∧ w.sig.length = 64 ∧ verify w.vkey msg w.sig = true

/-- some witness of `ws` is valid and its key hashes to `h` -/
def Signed (msg : Bytes) (ws : List Wit) (h : H) : Prop :=
  ∃ w ∈ ws, hash w.vkey = h ∧ Valid verify msg w

theorem verifySignature_true (w : Wit) (msg : Bytes)
    (h : verifySignature verify w msg = some true) : Valid verify msg w := by
  unfold verifySignature at h
  split at h
  · simp at h
  · split at h
    · simp at h
    · rename_i h1 h2
      simp only [Option.some.injEq] at h
      exact ⟨by omega, by omega, h⟩

/-- invariant of the check list: a witness is marked covered only after its signature verified -/
def Inv (msg : Bytes) (l : List (Bool × Wit)) : Prop :=
  ∀ p ∈ l, p.1 = true → Valid verify msg p.2

theorem checkVkWit_ok (h : H) (msg : Bytes) : ∀ (l l' : List (Bool × Wit)),
    checkVkWit hash verify h msg l = .ok l' →
    l'.map (·.2) = l.map (·.2) ∧ (Inv verify msg l → Inv verify msg l') ∧
    Signed hash verify msg (l.map (·.2)) h := by
  intro l
  induction l with
  | nil => intro l' hk; simp [checkVkWit] at hk
  | cons p rest ih =>
    intro l' hk
    obtain ⟨c, w⟩ := p
    unfold checkVkWit at hk
    split at hk
    · rename_i hh
      split at hk
      · simp at hk
      · simp at hk
      · rename_i hv
        simp only [R.ok.injEq] at hk
        subst hk
        have hval := verifySignature_true verify w msg hv
        refine ⟨by simp, ?_, ⟨w, by simp, hh, hval⟩⟩
        intro hinv p hp hp1
        rcases List.mem_cons.mp hp with e | e
        · subst e; exact hval
        · exact hinv p (List.mem_cons_of_mem _ e) hp1
    · split at hk
      · rename_i rest' hr
        simp only [R.ok.injEq] at hk
        subst hk
        obtain ⟨h1, h2, h3⟩ := ih rest' hr
        refine ⟨by simp [h1], ?_, ?_⟩
        · intro hinv p hp hp1
          rcases List.mem_cons.mp hp with e | e
          · subst e; exact hinv (c, w) (by simp) hp1
          · exact h2 (fun q hq => hinv q (List.mem_cons_of_mem _ hq)) p e hp1
        · obtain ⟨w', hw', hh', hv'⟩ := h3
          exact ⟨w', by simp only [List.map_cons, List.mem_cons]; exact Or.inr hw', hh', hv'⟩
      · simp at hk
      · simp at hk

theorem checkRemaining_ok (msg : Bytes) : ∀ (l : List (Bool × Wit)),
    checkRemaining verify msg l = .ok () → ∀ p ∈ l, p.1 = false → Valid verify msg p.2 := by
  intro l
  induction l with
  | nil => intro _ p hp; simp at hp
  | cons q rest ih =>
    intro hk p hp hp1
    obtain ⟨c, w⟩ := q
    unfold checkRemaining at hk
    split at hk
    · split at hk
      · simp at hk
      · rename_i hv
        rcases List.mem_cons.mp hp with e | e
        · subst e; exact verifySignature_true verify w msg hv
        · exact ih hk p e hp1
      · simp at hk
    · rename_i hc
      rcases List.mem_cons.mp hp with e | e
      · subst e; simp at hc; simp [hc] at hp1
      · exact ih hk p e hp1

/-- after the input loop and the remaining-witness pass every witness is valid -/
theorem all_valid_of (msg : Bytes) (l : List (Bool × Wit))
    (hinv : Inv verify msg l) (hrem : checkRemaining verify msg l = .ok ()) :
    ∀ w ∈ l.map (·.2), Valid verify msg w := by
  intro w hw
  obtain ⟨p, hp, rfl⟩ := List.mem_map.mp hw
  cases hc : p.1 with
  | true => exact hinv p hp hc
  | false => exact checkRemaining_ok verify msg l hrem p hp hc

theorem inputLoop_ok (msg : Bytes) : ∀ (ins : List (InputView H)) (l l' : List (Bool × Wit)),
    inputLoop hash verify msg ins l = .ok l' →
    l'.map (·.2) = l.map (·.2) ∧ (Inv verify msg l → Inv verify msg l') ∧
    ∀ h, InputView.key h ∈ ins → Signed hash verify msg (l.map (·.2)) h := by
  intro ins
  induction ins with
  | nil =>
    intro l l' hk
    simp only [inputLoop, R.ok.injEq] at hk
    subst hk
    exact ⟨rfl, id, by intro h hh; simp at hh⟩
  | cons v vs ih =>
    intro l l' hk
    cases v with
    | notInUtxo => simp [inputLoop] at hk
    | undecodable => simp [inputLoop] at hk
    | skipped =>
      simp only [inputLoop] at hk
      obtain ⟨h1, h2, h3⟩ := ih l l' hk
      refine ⟨h1, h2, ?_⟩
      intro h hh
      rcases List.mem_cons.mp hh with e | e
      · cases e
      · exact h3 h e
    | script b =>
      simp only [inputLoop] at hk
      obtain ⟨h1, h2, h3⟩ := ih l l' hk
      refine ⟨h1, h2, ?_⟩
      intro h hh
      rcases List.mem_cons.mp hh with e | e
      · cases e
      · exact h3 h e
    | key k =>
      simp only [inputLoop] at hk
      split at hk
      · rename_i l1 hc
        obtain ⟨a1, a2, a3⟩ := checkVkWit_ok hash verify k msg l l1 hc
        obtain ⟨h1, h2, h3⟩ := ih l1 l' hk
        refine ⟨by rw [h1, a1], fun hi => h2 (a2 hi), ?_⟩
        intro h hh
        rcases List.mem_cons.mp hh with e | e
        · cases e; exact a3
        · have := h3 h e; rw [a1] at this; exact this
      · simp at hk
      · simp at hk

theorem inputLoopShelley_ok (msg : Bytes) : ∀ (ins : List (InputView H)) (l l' : List (Bool × Wit)),
    inputLoopShelley hash verify msg ins l = .ok l' →
    l'.map (·.2) = l.map (·.2) ∧ (Inv verify msg l → Inv verify msg l') ∧
    ∀ h, InputView.key h ∈ ins → Signed hash verify msg (l.map (·.2)) h := by
  intro ins
  induction ins with
  | nil =>
    intro l l' hk
    simp only [inputLoopShelley, R.ok.injEq] at hk
    subst hk
    exact ⟨rfl, id, by intro h hh; simp at hh⟩
  | cons v vs ih =>
    intro l l' hk
    cases v with
    | notInUtxo => simp [inputLoopShelley] at hk
    | undecodable => simp [inputLoopShelley] at hk
    | skipped =>
      simp only [inputLoopShelley] at hk
      obtain ⟨h1, h2, h3⟩ := ih l l' hk
      refine ⟨h1, h2, ?_⟩
      intro h hh
      rcases List.mem_cons.mp hh with e | e
      · cases e
      · exact h3 h e
    | script b =>
      simp only [inputLoopShelley] at hk
      split at hk
      · obtain ⟨h1, h2, h3⟩ := ih l l' hk
        refine ⟨h1, h2, ?_⟩
        intro h hh
        rcases List.mem_cons.mp hh with e | e
        · cases e
        · exact h3 h e
      · simp at hk
    | key k =>
      simp only [inputLoopShelley] at hk
      split at hk
      · rename_i l1 hc
        obtain ⟨a1, a2, a3⟩ := checkVkWit_ok hash verify k msg l l1 hc
        obtain ⟨h1, h2, h3⟩ := ih l1 l' hk
        refine ⟨by rw [h1, a1], fun hi => h2 (a2 hi), ?_⟩
        intro h hh
        rcases List.mem_cons.mp hh with e | e
        · cases e; exact a3
        · have := h3 h e; rw [a1] at this; exact this
      · simp at hk
      · simp at hk

theorem mkCheckList_ok (wits : Option (List Wit)) (l : List (Bool × Wit)) (msg : Bytes)
    (h : mkCheckList wits = .ok l) :
    ∃ ws, wits = some ws ∧ l.map (·.2) = ws ∧ Inv verify msg l := by
  cases wits with
  | none => simp [mkCheckList] at h
  | some ws =>
    simp only [mkCheckList, R.ok.injEq] at h
    subst h
    refine ⟨ws, rfl, by simp [Function.comp_def], ?_⟩
    intro p hp hp1
    obtain ⟨w, _, rfl⟩ := List.mem_map.mp hp
    simp at hp1

theorem findAndCheckReqSigner_ok (h : H) (msg : Bytes) : ∀ (ws : List Wit),
    findAndCheckReqSigner hash verify h msg ws = .ok () → Signed hash verify msg ws h := by
  intro ws
  induction ws with
  | nil => intro hk; simp [findAndCheckReqSigner] at hk
  | cons w rest ih =>
    intro hk
    unfold findAndCheckReqSigner at hk
    split at hk
    · rename_i hh
      split at hk
      · simp at hk
      · simp at hk
      · rename_i hv
        exact ⟨w, by simp, hh, verifySignature_true verify w msg hv⟩
    · obtain ⟨w', hw', a, b⟩ := ih hk
      exact ⟨w', List.mem_cons_of_mem _ hw', a, b⟩

theorem reqLoop_ok (msg : Bytes) (ws : List Wit) : ∀ (rs : List H),
    reqLoop hash verify msg ws rs = .ok () → ∀ r ∈ rs, Signed hash verify msg ws r := by
  intro rs
  induction rs with
  | nil => intro _ r hr; simp at hr
  | cons r0 rest ih =>
    intro hk r hr
    unfold reqLoop at hk
    split at hk
    · rename_i hf
      rcases List.mem_cons.mp hr with e | e
      · subst e; exact findAndCheckReqSigner_ok hash verify r msg ws hf
      · exact ih hk r e
    · simp at hk
    · simp at hk

theorem checkVkeyInputWits_ok (wits : Option (List Wit)) (ins : List (InputView H)) (msg : Bytes)
    (hk : checkVkeyInputWits hash verify wits ins msg = .ok ()) :
    ∃ ws, wits = some ws ∧ (∀ w ∈ ws, Valid verify msg w) ∧
      ∀ h, InputView.key h ∈ ins → Signed hash verify msg ws h := by
  unfold checkVkeyInputWits at hk
  split at hk
  · rename_i l hm
    obtain ⟨ws, hw, hmap, hinv⟩ := mkCheckList_ok verify wits l msg hm
    split at hk
    · rename_i l' hl
      obtain ⟨h1, h2, h3⟩ := inputLoop_ok hash verify msg ins l l' hl
      refine ⟨ws, hw, ?_, ?_⟩
      · have := all_valid_of verify msg l' (h2 hinv) hk
        rw [h1, hmap] at this; exact this
      · intro h hh; have := h3 h hh; rw [hmap] at this; exact this
    · simp at hk
    · simp at hk
  · simp at hk
  · simp at hk

/-- **The property (Alonzo, Babbage, Conway).** `wits'` is the witness list the validator works on
    (`normalize`: Conway turns an absent field into the empty list). -/
theorem accept_implies_all_valid (conway : Bool) (req : Option (List H)) (wits : Option (List Wit))
    (ins : List (InputView H)) (msg : Bytes)
    (hacc : checkWitnessSet hash verify conway req wits ins msg = .ok ()) :
    (∀ w ∈ wits.getD [], Valid verify msg w) ∧
    (∀ h, InputView.key h ∈ ins → Signed hash verify msg (wits.getD []) h) ∧
    (∀ r ∈ req.getD [], Signed hash verify msg (wits.getD []) r) := by
  unfold checkWitnessSet at hacc
  split at hacc
  · rename_i hreq
    obtain ⟨ws, hw, hall, hins⟩ := checkVkeyInputWits_ok hash verify _ ins msg hacc
    have hws : wits.getD [] = ws := by
      unfold normalize at hw
      cases conway <;> cases wits <;> simp_all
    refine ⟨by rw [hws]; exact hall, by rw [hws]; exact hins, ?_⟩
    intro r hr
    cases req with
    | none => simp at hr
    | some rs =>
      simp only [Option.getD_some] at hr
      rw [hw] at hreq
      simp only [checkRequiredSigners] at hreq
      rw [hws]
      exact reqLoop_ok hash verify msg ws rs hreq r hr
  · simp at hacc
  · simp at hacc

/-- **The property (Shelley, Allegra, Mary).** -/
theorem shelley_accept_implies_all_valid (wits : Option (List Wit)) (ins : List (InputView H))
    (nativeOk : Bool) (msg : Bytes)
    (hacc : checkWitnessesShelley hash verify wits ins nativeOk msg = .ok ()) :
    (∀ w ∈ wits.getD [], Valid verify msg w) ∧
    (∀ h, InputView.key h ∈ ins → Signed hash verify msg (wits.getD []) h) := by
  unfold checkWitnessesShelley at hacc
  split at hacc
  · rename_i l hm
    obtain ⟨ws, hw, hmap, hinv⟩ := mkCheckList_ok verify wits l msg hm
    split at hacc
    · rename_i l' hl
      obtain ⟨h1, h2, h3⟩ := inputLoopShelley_ok hash verify msg ins l l' hl
      split at hacc
      · subst hw
        refine ⟨?_, ?_⟩
        · have := all_valid_of verify msg l' (h2 hinv) hacc
          rw [h1, hmap] at this; exact this
        · intro h hh; have := h3 h hh; rw [hmap] at this; exact this
      · simp at hacc
    · simp at hacc
    · simp at hacc
  · simp at hacc
  · simp at hacc

/-! ## The early `return Ok(())` of the unchanged tree (DESIGN §6 #22), kept as a checked counter-model -/

/-- `check_remaining_vk_wits` as it was: `return Ok(())` at the first uncovered witness that verifies -/
def checkRemainingOld (msg : Bytes) : List (Bool × Wit) → R Unit
  | [] => .ok ()
  | (c, w) :: rest =>
    if !c then
      match verifySignature verify w msg with
      | none => .panic
      | some true => .ok ()
      | some false => .err .vkWrongSignature
    else checkRemainingOld msg rest

/-! ## Non-vacuity (a toy `hash`/`verify`: key hash = first byte, valid iff the signature starts with the key's first byte) -/
section examples
private def k (b : UInt8) : Bytes := List.replicate 32 b
private def s (b : UInt8) : Bytes := List.replicate 64 b
private def thash (key : Bytes) : Nat := (key.headD 0).toNat
private def tverify (key _msg sig : Bytes) : Bool := key.headD 0 == sig.headD 1

example : checkWitnessSet thash tverify false (some [7]) (some [⟨k 7, s 7⟩, ⟨k 9, s 9⟩])
    [.key 7, .script false, .key 9] [] = .ok () := by decide
example : checkWitnessSet thash tverify false none (some [⟨k 7, s 7⟩, ⟨k 8, s 8⟩, ⟨k 9, s 1⟩])
    [.key 7] [] = .err .vkWrongSignature := by decide
example : checkWitnessSet thash tverify true (some [3]) none [] [] = .err .reqSignerMissing := by decide
example : checkWitnessSet thash tverify false none (some [⟨k 7, s 7⟩]) [.key 8] [] = .err .vkWitnessMissing := by decide
example : checkWitnessSet thash tverify false none (some [⟨[7], s 7⟩]) [.key 7] [] = .err .vkWrongSignature := by decide
example : checkWitnessesShelley thash tverify (some [⟨k 7, s 7⟩]) [.key 7, .script true] true [] = .ok () := by decide
/-- the old early return accepted a garbage witness behind a valid uncovered one; the fixed pass rejects it -/
example : checkRemainingOld tverify [] [(false, ⟨k 8, s 8⟩), (false, ⟨k 9, s 1⟩)] = .ok () := by decide
example : checkRemaining tverify [] [(false, ⟨k 8, s 8⟩), (false, ⟨k 9, s 1⟩)] = .err .vkWrongSignature := by decide
end examples

end PallasVerif.Props.C35
