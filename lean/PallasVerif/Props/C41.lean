import PallasVerif.Model.TxSign
/-!
# C41 — Signing keeps the witness set in step with the signature map

`Model/TxSign.lean` transcribes `BuiltTransaction::{sign, add_signature, remove_signature}` as the
code stands after the repair (`fix: txbuilder keeps one witness per key and allows removing the
last signature`). The property is proved for every history of operations, any key / signature /
body / id types and any signer:

* `sign_inv` — no history panics; body and id are untouched; witness list and signature map have
  at most one entry per key; both hold exactly the entries the history says (last write wins,
  removal deletes), stated against the index-free specification `specRun`;
* `sign_in_step` — hence the witness list and the signature map have exactly the same entries;
* `witnesses_valid` — every witness satisfies whatever validity predicate all supplied
  signatures satisfy (Ed25519 verification against the id is the instance the harness evaluates).

The code *before* the repair is kept below (`Unfixed`) with the proved negations at the witnesses
of DESIGN §6 #26: two witnesses for one key after signing twice, a panic when the last or an absent
signature is removed.
-/
namespace PallasVerif.Props.C41
open PallasVerif.TxSign

set_option linter.unusedSectionVars false
variable {K S B H SK : Type} [DecidableEq K]

def keys (l : List (K × S)) : List K := l.map (·.1)

/-- the list `m` holds exactly the entries of the finite map `f` -/
def Agrees (m : List (K × S)) (f : K → Option S) : Prop := ∀ k s, (k, s) ∈ m ↔ f k = some s

def upd (f : K → Option S) (k : K) (v : Option S) : K → Option S := fun x => if x = k then v else f x

/-- what one operation does to the content (specification, no lists) -/
def specStep (pubOf : SK → K) (sgn : SK → H → S) (id : H) (f : K → Option S) : Op SK K S → K → Option S
  | .sign sk => upd f (pubOf sk) (some (sgn sk id))
  | .add pk sig => upd f pk (some sig)
  | .remove pk => upd f pk none

def specRun (pubOf : SK → K) (sgn : SK → H → S) (id : H) (f : K → Option S) (ops : List (Op SK K S)) : K → Option S :=
  ops.foldl (specStep pubOf sgn id) f

/-- invariant: one entry per key on both sides, both sides hold exactly `f` -/
def Inv (t : Built K S B H) (f : K → Option S) : Prop :=
  (keys (t.wits.getD [])).Nodup ∧ (keys (t.sigs.getD [])).Nodup ∧
  Agrees (t.wits.getD []) f ∧ Agrees (t.sigs.getD []) f

/-! ## list lemmas -/

theorem keys_filter_not_mem (m : List (K × S)) (k : K) :
    k ∉ keys (m.filter (fun e => decide (e.1 ≠ k))) := by
  simp [keys]

theorem nodup_keys_filter (m : List (K × S)) (p : K × S → Bool) (h : (keys m).Nodup) :
    (keys (m.filter p)).Nodup := by
  unfold keys at *
  exact List.Nodup.sublist (List.Sublist.map _ List.filter_sublist) h

theorem nodup_insert (m : List (K × S)) (k : K) (s : S) (h : (keys m).Nodup) :
    (keys (mapInsert m k s)).Nodup := by
  have h1 := keys_filter_not_mem m k
  have h2 := nodup_keys_filter m (fun e => decide (e.1 ≠ k)) h
  simp only [mapInsert, keys, List.map_cons, List.nodup_cons] at *
  exact ⟨h1, h2⟩

theorem nodup_push (m : List (K × S)) (k : K) (s : S) (h : (keys m).Nodup) :
    (keys (m.filter (fun e => decide (e.1 ≠ k)) ++ [(k, s)])).Nodup := by
  have h1 := keys_filter_not_mem m k
  have h2 := nodup_keys_filter m (fun e => decide (e.1 ≠ k)) h
  simp only [keys, List.map_append, List.map_cons, List.map_nil] at *
  rw [List.nodup_append]
  refine ⟨h2, by simp, ?_⟩
  intro a ha b hb
  simp at hb
  subst hb
  intro e; subst e; exact h1 ha

theorem agrees_filter (m : List (K × S)) (f : K → Option S) (k : K) (h : Agrees m f) :
    Agrees (m.filter (fun e => decide (e.1 ≠ k))) (upd f k none) := by
  intro x s
  simp only [List.mem_filter, upd, decide_eq_true_eq]
  by_cases hx : x = k
  · simp [hx]
  · simp [hx, h x s]

theorem agrees_insert (m : List (K × S)) (f : K → Option S) (k : K) (s : S) (h : Agrees m f) :
    Agrees (mapInsert m k s) (upd f k (some s)) := by
  intro x v
  have := agrees_filter m f k h x v
  simp only [mapInsert, List.mem_cons, upd] at *
  by_cases hx : x = k
  · subst hx; simp_all; exact ⟨Eq.symm, Eq.symm⟩
  · simp_all

theorem agrees_push (m : List (K × S)) (f : K → Option S) (k : K) (s : S) (h : Agrees m f) :
    Agrees (m.filter (fun e => decide (e.1 ≠ k)) ++ [(k, s)]) (upd f k (some s)) := by
  intro x v
  have := agrees_filter m f k h x v
  simp only [List.mem_append, List.mem_singleton, upd] at *
  by_cases hx : x = k
  · subst hx; simp_all; exact ⟨Eq.symm, Eq.symm⟩
  · simp_all

theorem fromVec_getD {α : Type} (v : List α) : (fromVec v).getD [] = v := by
  unfold fromVec
  cases v <;> simp

/-! ## one operation -/

theorem addWitness_inv (t : Built K S B H) (f : K → Option S) (pk : K) (sig : S) (h : Inv t f) :
    ∃ t', addWitness t pk sig = .ok t' ∧ t'.body = t.body ∧ t'.id = t.id ∧ Inv t' (upd f pk (some sig)) := by
  obtain ⟨hw, hs, aw, as⟩ := h
  have hne : fromVec ((t.wits.getD []).filter (fun w => decide (w.1 ≠ pk)) ++ [(pk, sig)])
      = some ((t.wits.getD []).filter (fun w => decide (w.1 ≠ pk)) ++ [(pk, sig)]) := by
    simp [fromVec]
  refine ⟨⟨t.body, t.id, some (mapInsert (t.sigs.getD []) pk sig),
      some ((t.wits.getD []).filter (fun w => decide (w.1 ≠ pk)) ++ [(pk, sig)])⟩,
    by simp only [addWitness, hne], rfl, rfl, ?_⟩
  exact ⟨nodup_push _ pk sig hw, nodup_insert _ pk sig hs, agrees_push _ f pk sig aw, agrees_insert _ f pk sig as⟩

theorem removeSignature_inv (t : Built K S B H) (f : K → Option S) (pk : K) (h : Inv t f) :
    ∃ t', removeSignature t pk = .ok t' ∧ t'.body = t.body ∧ t'.id = t.id ∧ Inv t' (upd f pk none) := by
  obtain ⟨hw, hs, aw, as⟩ := h
  refine ⟨_, rfl, rfl, rfl, ?_⟩
  simp only [Inv, fromVec_getD, Option.getD_some, mapRemove]
  exact ⟨nodup_keys_filter _ _ hw, nodup_keys_filter _ _ hs, agrees_filter _ f pk aw, agrees_filter _ f pk as⟩

theorem step_inv (pubOf : SK → K) (sgn : SK → H → S) (t : Built K S B H) (f : K → Option S)
    (op : Op SK K S) (h : Inv t f) :
    ∃ t', step pubOf sgn t op = .ok t' ∧ t'.body = t.body ∧ t'.id = t.id ∧
      Inv t' (specStep pubOf sgn t.id f op) := by
  cases op with
  | sign sk => exact addWitness_inv t f (pubOf sk) (sgn sk t.id) h
  | add pk sig => exact addWitness_inv t f pk sig h
  | remove pk => exact removeSignature_inv t f pk h

/-! ## the property: every history -/

/-- Every history of `sign` / `add_signature` / `remove_signature` runs to completion without a
    panic, leaves body and id alone, keeps one entry per key in the witness list and in the map,
    and both hold exactly the content the history specifies. -/
theorem sign_inv (pubOf : SK → K) (sgn : SK → H → S) (ops : List (Op SK K S)) (t : Built K S B H)
    (f : K → Option S) (h : Inv t f) :
    ∃ t', run pubOf sgn t ops = .ok t' ∧ t'.body = t.body ∧ t'.id = t.id ∧
      Inv t' (specRun pubOf sgn t.id f ops) := by
  induction ops generalizing t f with
  | nil => exact ⟨t, rfl, rfl, rfl, h⟩
  | cons op ops ih =>
    obtain ⟨t1, e1, b1, i1, inv1⟩ := step_inv pubOf sgn t f op h
    obtain ⟨t2, e2, b2, i2, inv2⟩ := ih t1 _ inv1
    refine ⟨t2, by simp only [run, e1, e2], b2.trans b1, i2.trans i1, ?_⟩
    simpa [specRun, i1] using inv2

/-- a freshly built transaction (`signatures: None`, no vkey witnesses) satisfies the invariant -/
theorem fresh_inv (body : B) (id : H) : Inv (fresh (K := K) (S := S) body id) (fun _ => none) := by
  simp [Inv, fresh, keys, Agrees]

/-- the witness list and the signature map hold exactly the same entries, one per key, after
    every history on a built transaction -/
theorem sign_in_step (pubOf : SK → K) (sgn : SK → H → S) (ops : List (Op SK K S)) (body : B) (id : H) :
    ∃ t', run pubOf sgn (fresh body id) ops = .ok t' ∧ t'.body = body ∧ t'.id = id ∧
      (keys (t'.wits.getD [])).Nodup ∧ (∀ e, e ∈ t'.wits.getD [] ↔ e ∈ t'.sigs.getD []) ∧
      (∀ k s, (k, s) ∈ t'.wits.getD [] ↔ specRun pubOf sgn id (fun _ => none) ops k = some s) := by
  obtain ⟨t', e, b, i, hw, _, aw, as⟩ := sign_inv pubOf sgn ops (fresh body id) (fun _ => none) (fresh_inv body id)
  refine ⟨t', e, b, i, hw, ?_, ?_⟩
  · intro ⟨k, s⟩; rw [aw k s, as k s]
  · intro k s; exact aw k s

theorem addWitness_wits_ne (t t' : Built K S B H) (pk : K) (sig : S) (h : addWitness t pk sig = .ok t') :
    t'.wits ≠ some [] := by
  have hne : fromVec ((t.wits.getD []).filter (fun w => decide (w.1 ≠ pk)) ++ [(pk, sig)])
      = some ((t.wits.getD []).filter (fun w => decide (w.1 ≠ pk)) ++ [(pk, sig)]) := by
    simp [fromVec]
  simp only [addWitness, hne] at h
  cases h
  simp

/-- an encoded witness set is never empty: removing the last signature yields *no* witness field -/
theorem wits_never_empty (pubOf : SK → K) (sgn : SK → H → S) (t : Built K S B H) (op : Op SK K S)
    (t' : Built K S B H) (h : step pubOf sgn t op = .ok t') : t'.wits ≠ some [] := by
  cases op with
  | sign sk => exact addWitness_wits_ne t t' _ _ h
  | add pk sig => exact addWitness_wits_ne t t' _ _ h
  | remove pk =>
    simp only [step, removeSignature] at h
    cases h
    simp only [fromVec]
    split <;> simp_all

/-- supplied signatures -/
def OpOk (pubOf : SK → K) (sgn : SK → H → S) (id : H) (P : K → S → Prop) : Op SK K S → Prop
  | .sign sk => P (pubOf sk) (sgn sk id)
  | .add pk sig => P pk sig
  | .remove _ => True

theorem specRun_valid (pubOf : SK → K) (sgn : SK → H → S) (id : H) (P : K → S → Prop)
    (ops : List (Op SK K S)) (f : K → Option S)
    (hf : ∀ k s, f k = some s → P k s) (hops : ∀ op ∈ ops, OpOk pubOf sgn id P op) :
    ∀ k s, specRun pubOf sgn id f ops k = some s → P k s := by
  induction ops generalizing f with
  | nil => exact hf
  | cons op ops ih =>
    simp only [specRun, List.foldl_cons]
    apply ih
    · intro k s
      have hop := hops op (by simp)
      cases op with
      | sign sk =>
        simp only [specStep, upd]
        split
        · next e => intro h; cases h; subst e; exact hop
        · exact hf k s
      | add pk sig =>
        simp only [specStep, upd]
        split
        · next e => intro h; cases h; subst e; exact hop
        · exact hf k s
      | remove pk =>
        simp only [specStep, upd]
        split
        · intro h; cases h
        · exact hf k s
    · intro op' h'; exact hops op' (by simp [h'])

/-- if the signer produces valid signatures of the id and every out-of-band signature handed to
    `add_signature` is valid, then after any history every witness is a valid signature of the id -/
theorem witnesses_valid (pubOf : SK → K) (sgn : SK → H → S) (valid : K → H → S → Prop)
    (hsgn : ∀ sk h, valid (pubOf sk) h (sgn sk h))
    (ops : List (Op SK K S)) (body : B) (id : H)
    (hadd : ∀ pk sig, Op.add pk sig ∈ ops → valid pk id sig) :
    ∃ t', run pubOf sgn (fresh body id) ops = .ok t' ∧ ∀ k s, (k, s) ∈ t'.wits.getD [] → valid k id s := by
  obtain ⟨t', e, _, _, _, _, hspec⟩ := sign_in_step pubOf sgn ops body id
  refine ⟨t', e, fun k s hm => ?_⟩
  refine specRun_valid pubOf sgn id (fun k s => valid k id s) ops (fun _ => none) (by simp) ?_ k s ((hspec k s).1 hm)
  intro op hop
  cases op with
  | sign sk => exact hsgn sk id
  | add pk sig => exact hadd pk sig hop
  | remove pk => trivial

/-! ## the code before the repair (DESIGN §6 #26) -/
namespace Unfixed

/-- `sign` / `add_signature` as they were: the witness is pushed without removing an older one -/
def addWitness (t : Built K S B H) (pk : K) (sig : S) : Res (Built K S B H) :=
  let newSigs := mapInsert (t.sigs.getD []) pk sig
  let v := t.wits.getD [] ++ [(pk, sig)]
  match fromVec v with
  | some w => .ok { t with sigs := some newSigs, wits := some w }
  | none => .panic

/-- `remove_signature` as it was: `Some(NonEmptySet::from_vec(v).unwrap())` -/
def removeSignature (t : Built K S B H) (pk : K) : Res (Built K S B H) :=
  let newSigs := mapRemove (t.sigs.getD []) pk
  let v := (t.wits.getD []).filter (fun w => decide (w.1 ≠ pk))
  match fromVec v with
  | some w => .ok { t with sigs := some newSigs, wits := some w }
  | none => .panic

/-- signing twice with one key left two witnesses for one map entry -/
theorem sign_twice_duplicates :
    ∃ t1 t2 : Built Nat Nat Unit Unit, addWitness (fresh () ()) 7 1 = .ok t1 ∧ addWitness t1 7 1 = .ok t2 ∧
      ¬ (keys (t2.wits.getD [])).Nodup ∧ (t2.sigs.getD []).length = 1 :=
  ⟨_, _, rfl, rfl, by decide, by decide⟩

/-- removing the last signature panicked -/
theorem remove_last_panics :
    ∃ t1 : Built Nat Nat Unit Unit, addWitness (fresh () ()) 7 1 = .ok t1 ∧
      (match removeSignature t1 7 with | .panic => True | .ok _ => False) :=
  ⟨_, rfl, by simp [removeSignature, fromVec, fresh]⟩

/-- removing an absent signature from a freshly built transaction panicked -/
theorem remove_absent_panics :
    (match removeSignature (fresh (K := Nat) (S := Nat) () ()) 7 with | .panic => True | .ok _ => False) := by
  simp [removeSignature, fromVec, fresh]

end Unfixed

/-! ## Non-vacuity -/
section
def t0 : Built Nat Nat Unit Unit := fresh () ()
def exOps : List (Op Nat Nat Nat) := [.sign 1, .add 2 20, .sign 1, .remove 2, .remove 9, .add 1 11, .remove 1]

def got (r : Res (Built Nat Nat Unit Unit)) : Option (Option (List (Nat × Nat)) × Option (List (Nat × Nat))) :=
  match r with | .ok t => some (t.wits, t.sigs) | .panic => none
example : got (run (fun sk => sk) (fun sk _ => sk * 10) t0 (exOps.take 3))
    = some (some [(2, 20), (1, 10)], some [(1, 10), (2, 20)]) := by decide
example : got (run (fun sk => sk) (fun sk _ => sk * 10) t0 exOps) = some (none, some []) := by decide
example : specRun (fun sk => sk) (fun sk (_ : Unit) => sk * 10) () (fun _ => none) (exOps.take 6) 1 = some 11 := by decide
example : OpOk (K := Nat) (fun sk => sk) (fun sk (_ : Unit) => sk * 10) () (fun k s => s = k * 10) (.sign 3 : Op Nat Nat Nat) := by
  simp [OpOk]
end

end PallasVerif.Props.C41
