import PallasVerif.Proofs.ImmutableDb
/-!
# C42 — Immutable-DB reads return exactly the requested chain suffix

`Model/ImmutableDb.lean` transcribes `chunk_binary_search`, `iterate_till_point` (after
`fix: hardano reports an exact point past the tip as not found`), `build_stack_of_chunk_names`,
`read_blocks`, `read_blocks_from_point` and `get_tip`. A database is `all`, its chunks in file order
with the newest (skipped) one last; `Intact all db` says its immutable chunks are the block lists
`db`, none empty, slots strictly increasing along the chain `db.flatten`. No bound on the number of
chunks, their sizes or the slots.

* `read_all` — every block of the immutable chunks once, in chain (= slot) order; the newest chunk
  file is excluded for every file count (`stack_length`): `no_chunk_db_is_empty`,
  `single_chunk_db_is_empty` (no block, no tip, every point refused, whatever the single file holds),
  `two_chunk_db_serves_the_older`;
* `binary_search_picks_containing_chunk` — on strictly descending first slots the modified binary
  search returns the newest chunk starting at or before the slot (`none` iff there is none), and
  it never panics or diverges on any input (`binary_search_total`);
* `read_from_point_eq` — the whole `Point::Specific` path equals a loop-free list specification;
  from it: `from_existing_point` (suffix starting at that block), `from_fuzzy_slot` (suffix from the
  first block at or after the slot, for slots not before the first block), `absent_exact_fails` (every
  (slot, hash) pair that is not exactly some block's: `right_hash_wrong_slot_fails`,
  `right_slot_wrong_hash_fails` spell out the two one-coordinate misses), `tip_is_last`.

`read_from_point_total`, `getTip_ne_panic` — on *arbitrary* chunk contents (blocks in any order,
read errors, undecodable bytes, empty chunks: what C43's corrupted files produce) the directory
level returns a result or an error, never a panic.

The full fuzzy clause is `FuzzyFull`; it is **false** for the unchanged code at slots before the
first block (`fuzzy_before_first_fails`, `fuzzy_full_fails_at_witness`): `read_blocks_from_point`
answers `CannotFindBlock`, and the pinned test `read_blocks_from_point_test` demands exactly that
for `Point::Specific(0, vec![])`, so this is recorded as a known finding, and `from_fuzzy_slot` is
the proved part.
-/
namespace PallasVerif.Props.C42
open PallasVerif.ImmutableDb PallasVerif.Proofs.ImmutableDb

set_option linter.unusedSectionVars false
variable {H : Type} [DecidableEq H]

def toChunk (bs : List (Block H)) : Chunk H := bs.map Item.blk

def Sorted (bs : List (Block H)) : Prop := bs.Pairwise (fun a b => a.slot < b.slot)

/-- an intact database: the immutable chunks of `all` are the block lists `db` -/
structure Intact (all : List (Chunk H)) (db : List (List (Block H))) : Prop where
  layout : all.dropLast = db.map toChunk
  nonempty : ∀ c ∈ db, c ≠ []
  sorted : Sorted db.flatten

def firstSlot (bs : List (Block H)) : Nat :=
  match bs with
  | b :: _ => b.slot
  | [] => 0

def key (c : Chunk H) : Nat :=
  match c with
  | .blk b :: _ => b.slot
  | _ => 0

/-! ## reading everything, and the tip -/

theorem stack_eq (all : List (Chunk H)) (db : List (List (Block H))) (h : Intact all db) :
    stack all = db.reverse.map toChunk := by
  unfold stack; rw [h.layout, List.map_reverse]

theorem flatten_toChunk (l : List (List (Block H))) : (l.map toChunk).flatten = l.flatten.map Item.blk := by
  unfold toChunk; rw [List.map_flatten]

/-- Reading the database yields every block of its immutable chunks once, in chain order (which
    is slot order for an intact database). -/
theorem read_all (all : List (Chunk H)) (db : List (List (Block H))) (h : Intact all db) :
    readBlocks all = db.flatten.map Item.blk ∧ Sorted db.flatten := by
  refine ⟨?_, h.sorted⟩
  unfold readBlocks readers
  rw [stack_eq all db h, ← List.map_reverse, List.reverse_reverse, flatten_toChunk]

theorem getLast?_flatten_of_nonempty (db : List (List (Block H))) (hne : ∀ c ∈ db, c ≠ []) :
    db.flatten.getLast? = (db.getLast?).bind (·.getLast?) := by
  induction db with
  | nil => rfl
  | cons c t ih =>
    have ht := ih (fun c hc => hne c (by simp [hc]))
    cases t with
    | nil => simp
    | cons c' t' =>
      have hc' : c' ≠ [] := hne c' (by simp)
      have hfl : (c' :: t').flatten ≠ [] := by
        cases c' with
        | nil => exact absurd rfl hc'
        | cons x xs => simp
      rw [List.flatten_cons, List.getLast?_append]
      cases hg : (c' :: t').flatten.getLast? with
      | none => exact absurd (List.getLast?_eq_none_iff.mp hg) hfl
      | some z =>
        rw [hg] at ht
        rw [List.getLast?_cons_cons, ← ht]
        simp [Option.or]

/-- The reported tip is the last immutable block. -/
theorem tip_is_last (all : List (Chunk H)) (db : List (List (Block H))) (h : Intact all db) :
    getTip all = .ok db.flatten.getLast? := by
  unfold getTip
  rw [stack_eq all db h, getLast?_flatten_of_nonempty db h.nonempty]
  cases hr : db.reverse with
  | nil =>
    have : db = [] := by simpa using hr
    subst this; rfl
  | cons c t =>
    have hl : db.getLast? = some c := by rw [← List.head?_reverse, hr]; rfl
    have hc : c ≠ [] := h.nonempty c (by
      have : c ∈ db.reverse := by rw [hr]; simp
      simpa using this)
    simp only [List.map_cons, hl, Option.bind_some]
    unfold toChunk
    rw [List.getLast?_map]
    cases hg : c.getLast? with
    | none => exact absurd (List.getLast?_eq_none_iff.mp hg) hc
    | some b => rfl

/-! ## chunk selection -/

/-- On chunks whose first slots are strictly descending (newest first), the search returns the
    newest chunk whose first slot is at or before the point — the chunk that contains the point
    if any does — and `none` exactly when every chunk starts after it. -/
theorem binary_search_picks_containing_chunk {α : Type} (chunks : List α) (first : α → Nat) (s : Nat)
    (hdesc : (chunks.map first).Pairwise (· > ·)) :
    ∃ r, chunkBinarySearch chunks (fun c => .ok (cmpNat (first c) s)) = .ok r ∧ BsSpec chunks first s r := by
  apply chunkBinarySearch_spec chunks first s _ (fun c _ => rfl)
  rw [List.pairwise_map, List.pairwise_iff_getElem] at hdesc
  intro i j hi hj hij
  exact hdesc i j hi hj hij

/-- The search terminates without a panic on *any* list and any comparator that does not panic
    itself (no ordering assumption): indexing stays in bounds and `right - left` never underflows. -/
theorem binary_search_total {α : Type} (chunks : List α) (cmp : α → Res Ordering) (hc : ∀ c, cmp c ≠ .panic) :
    chunkBinarySearch chunks cmp ≠ .panic := by
  unfold chunkBinarySearch
  exact bsLoop_no_panic chunks cmp hc _ 0 _ _ (by omega) (Nat.le_refl _) (by omega)

/-! ## `read_blocks_from_point` -/

theorem chunkCmp_toChunk (s : Nat) (bs : List (Block H)) (hne : bs ≠ []) :
    chunkCmp s (toChunk bs) = .ok (cmpNat (firstSlot bs) s) := by
  cases bs with
  | nil => exact absurd rfl hne
  | cons b t => rfl

theorem key_toChunk (bs : List (Block H)) : key (toChunk bs) = firstSlot bs := by
  cases bs <;> rfl

/-- in a sorted chain every block before a chunk lies below that chunk's first slot -/
theorem below_first (pre : List (Block H)) (c : List (Block H)) (post : List (Block H)) (hc : c ≠ [])
    (hs : Sorted (pre ++ (c ++ post))) : ∀ b ∈ pre, b.slot < firstSlot c := by
  cases c with
  | nil => exact absurd rfl hc
  | cons x xs =>
    intro b hb
    unfold Sorted at hs
    rw [List.pairwise_append] at hs
    exact hs.2.2 b hb x (by simp)

theorem firsts_ascending (db : List (List (Block H))) (hne : ∀ c ∈ db, c ≠ []) (hs : Sorted db.flatten) :
    (db.map firstSlot).Pairwise (· < ·) := by
  induction db with
  | nil => simp
  | cons c t ih =>
    simp only [List.map_cons, List.pairwise_cons]
    have hs' : Sorted (([] : List (Block H)) ++ (c ++ t.flatten)) := by simpa using hs
    unfold Sorted at hs
    rw [List.flatten_cons, List.pairwise_append] at hs
    refine ⟨?_, ih (fun c hc => hne c (by simp [hc])) hs.2.1⟩
    intro f hf
    obtain ⟨c', hc', rfl⟩ := List.mem_map.mp hf
    have hcne : c ≠ [] := hne c (by simp)
    have hc'ne : c' ≠ [] := hne c' (by simp [hc'])
    cases c with
    | nil => exact absurd rfl hcne
    | cons x xs =>
      cases c' with
      | nil => exact absurd rfl hc'ne
      | cons y ys =>
        exact hs.2.2 x (by simp) y (List.mem_flatten.mpr ⟨y :: ys, hc', by simp⟩)

theorem readers_take (db : List (List (Block H))) (k : Nat) :
    readers ((db.reverse.map toChunk).take (k + 1)) =
      (db.drop (db.length - (k + 1))).flatten.map Item.blk := by
  unfold readers
  rw [← List.map_take, List.take_reverse, ← List.map_reverse, List.reverse_reverse, flatten_toChunk]

/-- the list specification of the whole `Point::Specific` path -/
def readSpec (db : List (List (Block H))) (slot : Nat) (hash : Option H) : Res (List (Item H)) :=
  match db.flatten with
  | [] => .err .cannotFind
  | b :: _ => if b.slot ≤ slot then mapRes (List.map Item.blk) (tillSpec slot hash db.flatten) else .err .cannotFind

/-- For every intact database, slot and (possibly empty) hash: binary search over the chunk stack,
    truncation of the stack, re-reading and the peek loop together compute `readSpec`. -/
theorem read_from_point_eq (all : List (Chunk H)) (db : List (List (Block H))) (h : Intact all db)
    (slot : Nat) (hash : Option H) : readBlocksFromPoint all slot hash = readSpec db slot hash := by
  unfold readBlocksFromPoint
  simp only [stack_eq all db h]
  -- the search
  have hcmp : ∀ c ∈ db.reverse.map toChunk, chunkCmp slot c = .ok (cmpNat (key c) slot) := by
    intro c hc
    obtain ⟨bs, hbs, rfl⟩ := List.mem_map.mp hc
    rw [chunkCmp_toChunk slot bs (h.nonempty bs (by simpa using hbs)), key_toChunk]
  have hasc := firsts_ascending db h.nonempty h.sorted
  have hdesc : ((db.reverse.map toChunk).map key).Pairwise (· > ·) := by
    rw [List.map_map]
    have : (key ∘ toChunk : List (Block H) → Nat) = firstSlot := by funext bs; exact key_toChunk bs
    rw [this, List.map_reverse, List.pairwise_reverse]
    exact hasc
  have hdesc' : ∀ i j (hi : i < (db.reverse.map toChunk).length) (hj : j < (db.reverse.map toChunk).length),
      i < j → key (db.reverse.map toChunk)[j] < key (db.reverse.map toChunk)[i] := by
    rw [List.pairwise_map, List.pairwise_iff_getElem] at hdesc
    intro i j hi hj hij; exact hdesc i j hi hj hij
  obtain ⟨r, hr, hspec⟩ := chunkBinarySearch_spec (db.reverse.map toChunk) key slot (chunkCmp slot) hcmp hdesc'
  rw [hr]
  have hlen : (db.reverse.map toChunk).length = db.length := by simp
  cases r with
  | none =>
    -- every chunk starts after the slot: in particular the oldest one
    simp only
    unfold readSpec
    cases hdb : db with
    | nil => rfl
    | cons c t =>
      have hc : c ≠ [] := h.nonempty c (by simp [hdb])
      cases c with
      | nil => exact absurd rfl hc
      | cons b bs =>
        simp only [List.flatten_cons, List.cons_append]
        have hlast := hspec (db.length - 1) (by rw [hlen]; subst hdb; simp)
        simp only [List.getElem_map, List.getElem_reverse, key_toChunk] at hlast
        subst hdb
        simp [firstSlot] at hlast
        have : ¬ b.slot ≤ slot := by omega
        simp [this]
  | some k =>
    obtain ⟨hk, hkey, _⟩ := hspec
    rw [hlen] at hk
    simp only
    rw [readers_take db k]
    -- the chosen chunk, in ascending terms
    have hm : db.length - (k + 1) < db.length := by omega
    simp only [List.getElem_map, List.getElem_reverse, key_toChunk] at hkey
    have hidx : db.length - 1 - k = db.length - (k + 1) := by omega
    have hkey' : firstSlot db[db.length - (k + 1)] ≤ slot := by
      have : db[db.length - 1 - k]'(by omega) = db[db.length - (k + 1)] := by congr 1
      rw [← this]; exact hkey
    have hsplit : db = db.take (db.length - (k + 1)) ++ (db[db.length - (k + 1)] :: db.drop (db.length - (k + 1) + 1)) := by
      rw [List.getElem_cons_drop hm, List.take_append_drop]
    have hcne : db[db.length - (k + 1)] ≠ [] := h.nonempty _ (List.getElem_mem hm)
    have hdrop : db.drop (db.length - (k + 1)) = db[db.length - (k + 1)] :: db.drop (db.length - (k + 1) + 1) :=
      (List.getElem_cons_drop hm).symm
    have hflat : db.flatten = (db.take (db.length - (k + 1))).flatten ++
        (db[db.length - (k + 1)] ++ (db.drop (db.length - (k + 1) + 1)).flatten) := by
      conv => lhs; rw [hsplit]
      rw [List.flatten_append, List.flatten_cons]
    have hbelow : ∀ b ∈ (db.take (db.length - (k + 1))).flatten, b.slot < slot := by
      intro b hb
      have := below_first _ _ _ hcne (by rw [← hflat]; exact h.sorted) b hb
      omega
    have hne : (db.drop (db.length - (k + 1))).flatten ≠ [] := by
      rw [hdrop, List.flatten_cons]
      cases hc : db[db.length - (k + 1)] with
      | nil => exact absurd hc hcne
      | cons x xs => simp
    rw [iterateTillPoint_eq_spec slot hash _ hne]
    -- the specification on the whole chain
    unfold readSpec
    have hsp : tillSpec slot hash db.flatten = tillSpec slot hash (db.drop (db.length - (k + 1))).flatten := by
      rw [hflat, tillSpec_append_below slot hash _ _ hbelow, hdrop, List.flatten_cons]
    -- the first block of the chain is at or before the slot
    cases hfl : db.flatten with
    | nil =>
      rw [hfl] at hflat
      have : (db.drop (db.length - (k + 1))).flatten = [] := by
        rw [hdrop, List.flatten_cons]
        have := congrArg List.length hflat
        simp at this
        cases hc : db[db.length - (k + 1)] with
        | nil => exact absurd hc hcne
        | cons x xs => rw [hc] at this; simp at this; omega
      exact absurd this hne
    | cons b rest =>
      have hb : b.slot ≤ slot := by
        cases hpre : (db.take (db.length - (k + 1))).flatten with
        | nil =>
          rw [hpre, List.nil_append] at hflat
          cases hc : db[db.length - (k + 1)] with
          | nil => exact absurd hc hcne
          | cons x xs =>
            rw [hc, hfl] at hflat
            simp only [List.cons_append, List.cons.injEq] at hflat
            rw [hc] at hkey'
            simp only [firstSlot] at hkey'
            rw [hflat.1]; exact hkey'
        | cons y ys =>
          rw [hpre, hfl] at hflat
          simp only [List.cons_append, List.cons.injEq] at hflat
          have := hbelow y (by rw [hpre]; simp)
          rw [hflat.1]; omega
      simp only [hb, ↓reduceIte]
      rw [← hfl, hsp]

/-! ## the clauses of the property -/

theorem dropWhile_head_not {α : Type} (p : α → Bool) (l : List α) (y : α) (ys : List α)
    (h : l.dropWhile p = y :: ys) : p y = false := by
  induction l with
  | nil => simp at h
  | cons a t ih =>
    rw [List.dropWhile_cons] at h
    split at h
    · exact ih h
    · next hp => cases h; simpa using hp

theorem dropWhile_sorted_at (pre post : List (Block H)) (b : Block H) (hs : Sorted (pre ++ b :: post)) :
    (pre ++ b :: post).dropWhile (fun x => decide (x.slot < b.slot)) = b :: post := by
  unfold Sorted at hs
  rw [List.pairwise_append] at hs
  rw [dropWhile_append_below b.slot pre (b :: post) (fun x hx => hs.2.2 x hx b (by simp))]
  simp [List.dropWhile_cons]

/-- Reading from a point that exists yields the suffix of the chain starting at that block. -/
theorem from_existing_point (all : List (Chunk H)) (db : List (List (Block H))) (h : Intact all db)
    (pre post : List (Block H)) (b : Block H) (hchain : db.flatten = pre ++ b :: post) :
    readBlocksFromPoint all b.slot (some b.hash) = .ok ((b :: post).map Item.blk) := by
  rw [read_from_point_eq all db h]
  have hs : Sorted (pre ++ b :: post) := by rw [← hchain]; exact h.sorted
  unfold readSpec
  have hfirst : ∀ x rest, db.flatten = x :: rest → x.slot ≤ b.slot := by
    intro x rest hx
    rw [hchain] at hx
    cases pre with
    | nil => simp at hx; rw [hx.1]; exact Nat.le_refl _
    | cons p ps =>
      simp at hx
      unfold Sorted at hs
      rw [List.pairwise_append] at hs
      have := hs.2.2 p (by simp) b (by simp)
      rw [← hx.1]; omega
  cases hfl : db.flatten with
  | nil => rw [hchain] at hfl; simp at hfl
  | cons x rest =>
    simp only [hfirst x rest hfl, ↓reduceIte]
    rw [← hfl, hchain]
    unfold tillSpec
    rw [dropWhile_sorted_at pre post b hs]
    simp [accepts, mapRes]

/-- Reading from a slot with an empty hash, for a slot not before the first block, yields the
    suffix from the first block at or after that slot. -/
theorem from_fuzzy_slot (all : List (Chunk H)) (db : List (List (Block H))) (h : Intact all db)
    (slot : Nat) (b : Block H) (rest : List (Block H)) (hfl : db.flatten = b :: rest) (hb : b.slot ≤ slot) :
    readBlocksFromPoint all slot none =
      .ok ((db.flatten.dropWhile (fun x => decide (x.slot < slot))).map Item.blk) := by
  rw [read_from_point_eq all db h]
  unfold readSpec
  rw [hfl]
  simp only [hb, ↓reduceIte]
  unfold tillSpec
  cases hd : (b :: rest).dropWhile (fun x => decide (x.slot < slot)) with
  | nil => simp [mapRes]
  | cons y ys =>
    have hy : ¬ y.slot < slot := by
      have := dropWhile_head_not _ _ y ys hd
      simpa using this
    have : accepts slot (none : Option H) y = true := by simp [accepts]; omega
    simp [this, mapRes]

/-- Reading from an exact point that no block of the chain has fails with `CannotFindBlock`
    (wherever the slot lies: before the first block, between blocks, at a block with another hash,
    beyond the tip). -/
theorem absent_exact_fails (all : List (Chunk H)) (db : List (List (Block H))) (h : Intact all db)
    (slot : Nat) (hash : H) (habs : ∀ b ∈ db.flatten, ¬ (b.slot = slot ∧ b.hash = hash)) :
    readBlocksFromPoint all slot (some hash) = .err .cannotFind := by
  rw [read_from_point_eq all db h]
  unfold readSpec
  cases hfl : db.flatten with
  | nil => rfl
  | cons b rest =>
    simp only
    by_cases hb : b.slot ≤ slot
    · simp only [hb, ↓reduceIte]
      unfold tillSpec
      cases hd : (b :: rest).dropWhile (fun x => decide (x.slot < slot)) with
      | nil => simp [mapRes]
      | cons y ys =>
        have hy : y ∈ db.flatten := by
          rw [hfl]
          exact (List.dropWhile_sublist _).subset (by rw [hd]; simp)
        have hn := habs y hy
        have : accepts slot (some hash) y = false := by
          simp only [accepts, Bool.and_eq_false_imp, decide_eq_true_eq, decide_eq_false_iff_not]
          intro hh hs; exact hn ⟨hs, hh⟩
        simp [this, mapRes]
    · simp [hb]

/-! ## totality on arbitrary chunk contents (read errors and undecodable blocks included) -/

theorem tillLoop_ne_panic (slot : Nat) (hash : Option H) (cur : Block H) (rest : List (Item H)) :
    tillLoop slot hash cur rest ≠ .panic := by
  induction rest generalizing cur with
  | nil =>
    unfold tillLoop
    by_cases h : cur.slot < slot
    · simp only [h, ↓reduceIte]; split <;> simp
    · simp only [h, ↓reduceIte]; split <;> simp
  | cons it rest ih =>
    unfold tillLoop
    split
    · cases it with
      | blk d => exact ih d
      | readErr => simp
      | garbage => simp
    · split <;> simp

theorem iterateTillPoint_ne_panic (items : List (Item H)) (slot : Nat) (hash : Option H) :
    iterateTillPoint items slot hash ≠ .panic := by
  unfold iterateTillPoint
  split
  · exact tillLoop_ne_panic _ _ _ _
  · simp
  · simp
  · simp

theorem chunkCmp_ne_panic (slot : Nat) (c : Chunk H) : chunkCmp slot c ≠ .panic := by
  unfold chunkCmp; split <;> simp

/-- Whatever the chunk readers deliver — blocks in any order, read errors, bytes that do not
    decode, empty chunks — `read_blocks_from_point` returns a result or an error: the binary search
    stays in bounds and terminates, the peek loop ends. (`read_blocks` and `get_tip` have no
    failing arithmetic at all.) -/
theorem read_from_point_total (all : List (Chunk H)) (slot : Nat) (hash : Option H) :
    readBlocksFromPoint all slot hash ≠ .panic := by
  unfold readBlocksFromPoint
  have hb := binary_search_total (stack all) (chunkCmp slot) (chunkCmp_ne_panic slot)
  simp only
  cases hs : chunkBinarySearch (stack all) (chunkCmp slot) with
  | panic => exact absurd hs hb
  | err e => simp
  | ok r =>
    cases r with
    | none => simp
    | some idx => simp only; exact iterateTillPoint_ne_panic _ _ _

theorem getTip_ne_panic (all : List (Chunk H)) : getTip all ≠ .panic := by
  unfold getTip
  split
  · simp
  · split <;> simp

/-- the two ways of missing a block by one coordinate, spelled out: a real block's hash at a slot that
    is not its own (in a gap just below it, above it, anywhere), and a real block's slot with
    another hash — both are absent points, whatever else the chain holds -/
theorem right_hash_wrong_slot_fails (all : List (Chunk H)) (db : List (List (Block H))) (h : Intact all db)
    (b : Block H) (hb : b ∈ db.flatten) (slot : Nat) (hne : slot ≠ b.slot)
    (huniq : ∀ b' ∈ db.flatten, b'.hash = b.hash → b' = b) :
    readBlocksFromPoint all slot (some b.hash) = .err .cannotFind := by
  apply absent_exact_fails all db h
  intro b' hb' ⟨hs, hh⟩
  have := huniq b' hb' hh
  subst this
  exact hne hs.symm

theorem right_slot_wrong_hash_fails (all : List (Chunk H)) (db : List (List (Block H))) (h : Intact all db)
    (b : Block H) (hb : b ∈ db.flatten) (hash : H) (hne : hash ≠ b.hash) :
    readBlocksFromPoint all b.slot (some hash) = .err .cannotFind := by
  apply absent_exact_fails all db h
  intro b' hb' ⟨hs, hh⟩
  -- slots are strictly increasing along the chain, so `b'` is `b`
  have hsorted := h.sorted
  unfold Sorted at hsorted
  rcases List.mem_iff_getElem.mp hb with ⟨i, hi, rfl⟩
  rcases List.mem_iff_getElem.mp hb' with ⟨j, hj, rfl⟩
  rw [List.pairwise_iff_getElem] at hsorted
  rcases Nat.lt_trichotomy i j with hij | hij | hij
  · have := hsorted i j hi hj hij; omega
  · subst hij; exact hne hh.symm
  · have := hsorted j i hj hi hij; omega

/-! ## the newest chunk file is never served: directories with no or one chunk file -/

/-- `build_stack_of_chunk_names` drops the newest chunk file whatever the count: with `n` chunk files
    exactly the `n − 1` older ones are immutable -/
theorem stack_length (all : List (Chunk H)) : (stack all).length = all.length - 1 := by
  simp [stack]

/-- An empty directory holds nothing: no block, no tip, every point (exact or fuzzy) is refused. -/
theorem no_chunk_db_is_empty (slot : Nat) (hash : Option H) :
    readBlocks ([] : List (Chunk H)) = [] ∧ getTip ([] : List (Chunk H)) = .ok none ∧
    readBlocksFromPoint ([] : List (Chunk H)) slot hash = .err .cannotFind := by
  refine ⟨rfl, rfl, ?_⟩
  simp [readBlocksFromPoint, stack, chunkBinarySearch, bsLoop]

/-- A directory with exactly one chunk file holds nothing immutable either — whatever that file
    contains: it is the newest file, still volatile, and is not read at all. -/
theorem single_chunk_db_is_empty (c : Chunk H) (slot : Nat) (hash : Option H) :
    readBlocks [c] = [] ∧ getTip [c] = .ok none ∧ readBlocksFromPoint [c] slot hash = .err .cannotFind ∧
    (∀ g, readBlocksFromOrigin g [c] = .ok []) := by
  refine ⟨rfl, rfl, ?_, fun g => rfl⟩
  simp [readBlocksFromPoint, stack, chunkBinarySearch, bsLoop]

/-- with two files the older one is served and the newer one is not -/
theorem two_chunk_db_serves_the_older (c newest : Chunk H) : readBlocks [c, newest] = c := by
  simp [readBlocks, readers, stack]

/-! ## the `Origin` arm -/

/-- Reading from `Point::Origin` yields the whole chain when its first block is the genesis block,
    fails with `OriginMissing` when it is another block, and yields nothing for an empty database. -/
theorem from_origin (isGenesis : Block H → Bool) (all : List (Chunk H)) (db : List (List (Block H))) (h : Intact all db) :
    readBlocksFromOrigin isGenesis all =
      (match db.flatten with
       | [] => .ok []
       | b :: rest => if isGenesis b then .ok ((b :: rest).map Item.blk) else .err .originMissing) := by
  unfold readBlocksFromOrigin
  rw [(read_all all db h).1]
  cases db.flatten with
  | nil => rfl
  | cons b rest => simp only [List.map_cons]

/-! ## the fuzzy clause at full strength, and where the code departs from it -/

/-- the fuzzy clause as the property states it: for *every* slot -/
def FuzzyFull (all : List (Chunk H)) (db : List (List (Block H))) : Prop :=
  ∀ slot, readBlocksFromPoint all slot none =
    .ok ((db.flatten.dropWhile (fun x => decide (x.slot < slot))).map Item.blk)

/-- a fuzzy point before the first block is refused instead of yielding the whole chain -/
theorem fuzzy_before_first_fails (all : List (Chunk H)) (db : List (List (Block H))) (h : Intact all db)
    (slot : Nat) (b : Block H) (rest : List (Block H)) (hfl : db.flatten = b :: rest) (hb : slot < b.slot) :
    readBlocksFromPoint all slot none = .err .cannotFind := by
  rw [read_from_point_eq all db h]
  unfold readSpec
  rw [hfl]
  have : ¬ b.slot ≤ slot := by omega
  simp [this]

def witnessAll : List (Chunk Nat) := [[.blk ⟨10, 1⟩, .blk ⟨12, 2⟩], [.blk ⟨20, 3⟩], [.blk ⟨30, 4⟩]]
def witnessDb : List (List (Block Nat)) := [[⟨10, 1⟩, ⟨12, 2⟩], [⟨20, 3⟩]]

theorem witness_intact : Intact witnessAll witnessDb :=
  ⟨by decide, by decide, by unfold Sorted; decide⟩

/-- the full fuzzy clause fails on a concrete intact database (slot 0, first block at slot 10) -/
theorem fuzzy_full_fails_at_witness : ¬ FuzzyFull witnessAll witnessDb := by
  intro hf
  have h1 := hf 0
  rw [fuzzy_before_first_fails witnessAll witnessDb witness_intact 0 ⟨10, 1⟩ [⟨12, 2⟩, ⟨20, 3⟩] rfl (by decide)] at h1
  cases h1

/-! ## Non-vacuity -/
example : readBlocksFromPoint witnessAll 12 (some 2) = .ok [.blk ⟨12, 2⟩, .blk ⟨20, 3⟩] := by decide
example : readBlocksFromPoint witnessAll 13 none = .ok [.blk ⟨20, 3⟩] := by decide
example : readBlocksFromPoint witnessAll 25 none = .ok [] := by decide
example : readBlocksFromPoint witnessAll 25 (some 3) = .err .cannotFind := by decide
example : readBlocksFromPoint witnessAll 12 (some 9) = .err .cannotFind := by decide
-- a real block's hash at the empty slot just below it (gap 10 | 12), and in the gap before the next chunk
example : readBlocksFromPoint witnessAll 11 (some 2) = .err .cannotFind := by decide
example : readBlocksFromPoint witnessAll 19 (some 3) = .err .cannotFind := by decide
example : readBlocksFromPoint witnessAll 13 (some 2) = .err .cannotFind := by decide
example : getTip witnessAll = .ok (some ⟨20, 3⟩) := by decide
example : chunkBinarySearch [7, 4, 1] (fun c => .ok (cmpNat c 5)) = .ok (some 1) := by decide
example : chunkBinarySearch [7, 4, 1] (fun c => .ok (cmpNat c 0)) = .ok none := by decide

end PallasVerif.Props.C42
