import PallasVerif.Proofs.P2PErr
import PallasVerif.Proofs.P2PResp
import PallasVerif.Gen.PanicSitesP2P
import PallasVerif.Proofs.P2PProtoTie
/-!
# C29 — P2P behaviours never panic on peer-driven input

Models: `Model/P2PInitiator.lean`, `Model/P2PResponder.lean` (every panic site of
`behavior/initiator/*.rs`, `behavior/responder/*.rs` is an explicit `none` outcome: the `usize`
subtractions of promotion/discovery, the unchecked `u32`/`usize` increments). Events carry arbitrary
messages of all eight mini-protocols; a message the protocol machine rejects sets `violation`.

* `FullStatement` — no history makes either behaviour panic. It is **false** on the faithful model:
  `error_count: u32` is incremented unchecked, so 2^32 `Error` events for one tracked peer overflow
  (`full_statement_fails`, proved for the initiator model at the history `include 0 :: 2^32 × error 0`).
* `initiator_no_panic_partial`, `responder_no_panic_partial` — every history shorter than 2^32 events
  runs to completion (by induction, with the promotion invariant of C27 for the subtractions and a
  counter bound for the increments). `initiator_panic_only_overflow` says the overflow is the only
  panic of the initiator model in any state satisfying the invariant.
* `all_sites_discharged` — the panic-site inventory regenerated from the sources on every run
  (`Gen/PanicSitesP2P.lean`, lib/scan_panics.py) is covered entry by entry by `discharges`, each of
  which carries the proved statement that makes the site safe; a new or edited site breaks the build.

Not modelled: panics inside dependencies (`opentelemetry`, `futures`, `tracing`, hashing/allocation).
-/
namespace PallasVerif.Props.C29
open PallasVerif.P2P

/-- the property at full strength (initiator and responder, any history) -/
def FullStatement : Prop :=
  (∀ cfg (h : List Ev), run (St.init cfg) h ≠ none) ∧
  (∀ (s0 : RSt) (h : List REv), s0.perIp = (fun _ => 0) → s0.active = 0 → s0.peers = (fun _ => none) →
      rRun s0 h ≠ none)

/-- every history shorter than 2^32 events is handled without panic by the initiator … -/
theorem initiator_no_panic_partial (cfg : Cfg) (h : List Ev) (hl : h.length < u32Bound) :
    run (St.init cfg) h ≠ none := by
  obtain ⟨f, hr, _⟩ := run_good cfg h (St.init cfg) 0 (init_inv cfg) (init_err cfg) (by omega)
  rw [hr]; exact Option.some_ne_none f

/-- … and by the responder -/
theorem responder_no_panic_partial (s0 : RSt) (h : List REv) (hp : s0.perIp = fun _ => 0) (ha : s0.active = 0)
    (hq : s0.peers = fun _ => none) (hl : h.length < u32Bound) : rRun s0 h ≠ none := by
  obtain ⟨f, hr, _⟩ := rRun_total h s0 0 (rInit_bound s0 hp ha hq) (by omega)
  rw [hr]; exact Option.some_ne_none f

/-- in a state satisfying the promotion invariant the only panic of the initiator is the `u32`
    overflow of `error_count` -/
theorem initiator_panic_only_overflow (s : St) (e : Ev) (hi : Inv s) (hn : step s e = none) :
    ∃ p st, e = .error p ∧ s.peers p = some st ∧ u32Bound ≤ st.errorCount + 1 := by
  have key : ¬ ErrRoom s e := fun hr => by
    obtain ⟨f, hf, _⟩ := step_good e hi hr
    rw [hn] at hf; cases hf
  cases e with
  | error p =>
    cases hp : s.peers p with
    | none => exact absurd (fun q st he hq => by cases he; rw [hp] at hq; cases hq) key
    | some st =>
      by_cases hlt : st.errorCount + 1 < u32Bound
      · exact absurd (fun q st' he hq => by cases he; rw [hp] at hq; cases hq; exact hlt) key
      · exact ⟨p, st, rfl, hp, Nat.le_of_not_lt hlt⟩
  | _ => exact absurd (fun _ _ he _ => by cases he) key

/-! ### the full statement fails: 2^32 errors for one peer -/

theorem error_step (s : St) (st : Peer) (h0 : s.peers 0 = some st) (hlt : st.errorCount + 1 < u32Bound) :
    ∃ s', step s (.error 0) = some s' ∧
      s'.peers 0 = some { st with conn := .errored, errorCount := st.errorCount + 1 } := by
  unfold step
  dsimp only
  unfold onErrored
  simp only [h0, hlt, if_true]
  exact ⟨_, rfl, by simp [setPeer]⟩

theorem errors_run : ∀ (n : Nat) (s : St) (st : Peer), s.peers 0 = some st → st.errorCount + n < u32Bound →
    ∃ s' st', run s (List.replicate n (.error 0)) = some s' ∧ s'.peers 0 = some st' ∧
      st'.errorCount = st.errorCount + n := by
  intro n
  induction n with
  | zero => intro s st h0 _; exact ⟨s, st, rfl, h0, rfl⟩
  | succ n ih =>
    intro s st h0 hlt
    obtain ⟨s1, h1, hp1⟩ := error_step s st h0 (by omega)
    obtain ⟨s2, st2, h2, hp2, he2⟩ := ih s1 _ hp1 (by simp only; omega)
    refine ⟨s2, st2, ?_, hp2, ?_⟩
    · simp only [List.replicate_succ, run, h1, h2]
    · rw [he2]; simp only; omega

def cfg1 : Cfg := { maxPeers := 1, maxWarm := 1, maxHot := 1, maxErr := 0 }

theorem run_cons_eq {s s' : St} {e : Ev} (es : List Ev) (h : step s e = some s') : run s (e :: es) = run s' es := by
  simp only [run, h]

theorem run_append (a b : List Ev) : ∀ (s : St), run s (a ++ b) = (run s a).bind (fun s' => run s' b) := by
  induction a with
  | nil => intro s; rfl
  | cons e es ih =>
    intro s
    simp only [List.cons_append, run]
    cases step s e with
    | none => rfl
    | some s' => exact ih s'

/-- `n` errors bring the counter to `u32::MAX`, the next one overflows -/
theorem overflow_general (n : Nat) (s1 : St) (st : Peer) (hp : s1.peers 0 = some st)
    (hn : st.errorCount + n + 1 = u32Bound) :
    run s1 (List.replicate n (.error 0) ++ [.error 0]) = none := by
  obtain ⟨s2, st2, h2, hp2, he2⟩ := errors_run n s1 st hp (by omega)
  have h3 : step s2 (.error 0) = none := by
    unfold step
    dsimp only
    unfold onErrored
    have : ¬ st2.errorCount + 1 < u32Bound := by omega
    simp only [hp2, this, if_false]
  rw [run_append, h2]
  simp only [Option.bind, run, h3]

/-- `include 0` followed by 2^32 `error 0` events -/
def overflowHistory : List Ev :=
  .includePeer 0 :: (List.replicate (u32Bound - 1) (.error 0) ++ [.error 0])

theorem overflow_history_panics : run (St.init cfg1) overflowHistory = none := by
  cases h1 : step (St.init cfg1) (.includePeer 0) with
  | none => exact absurd h1 (by decide)
  | some s1 =>
    have hp1 : s1.peers 0 = some { tag := .cold } := by
      have h : (step (St.init cfg1) (.includePeer 0)).map (fun s => s.peers 0) = some (some { tag := .cold }) := by
        decide
      rw [h1] at h
      simpa using h
    unfold overflowHistory
    rw [run_cons_eq _ h1]
    exact overflow_general (u32Bound - 1) s1 _ hp1 (by decide)

theorem full_statement_fails : ¬ FullStatement := fun h => h.1 cfg1 overflowHistory overflow_history_panics

/-! ### panic-site inventory -/

theorem takeFirstFor_some (p : Nat) (l : List (Nat × LfReq)) (h : ∃ x, x ∈ l ∧ x.1 = p) :
    (takeFirstFor p l).isSome = true := by
  induction l with
  | nil => obtain ⟨x, hx, _⟩ := h; cases hx
  | cons y ys ih =>
    obtain ⟨q, r⟩ := y
    unfold takeFirstFor
    by_cases e : q = p
    · simp [e]
    · simp only [e, if_false]
      have : ∃ x, x ∈ ys ∧ x.1 = p := by
        obtain ⟨x, hx, hxp⟩ := h
        rcases List.mem_cons.mp hx with e' | e'
        · subst e'; exact absurd hxp e
        · exact ⟨x, e', hxp⟩
      have := ih this
      cases hh : takeFirstFor p ys with
      | none => rw [hh] at this; cases this
      | some v => rfl

theorem bestCommon_lookup (sup : List (Nat × Nat)) : ∀ (prop : List (Nat × Nat)) (v m o : Nat),
    bestCommon sup prop = some (v, m, o) → sup.lookup v = some o := by
  intro prop
  induction prop with
  | nil => intro v m o h; cases h
  | cons x xs ih =>
    obtain ⟨v0, m0⟩ := x
    intro v m o h
    unfold bestCommon at h
    cases hl : sup.lookup v0 with
    | none => simp only [hl] at h; exact ih v m o h
    | some ours =>
      simp only [hl] at h
      cases hb : bestCommon sup xs with
      | none => simp only [hb, Option.some.injEq, Prod.mk.injEq] at h; obtain ⟨rfl, _, rfl⟩ := h; exact hl
      | some t =>
        obtain ⟨v', m', o'⟩ := t
        simp only [hb] at h
        by_cases c : v' > v0
        · simp only [c, if_true, Option.some.injEq, Prod.mk.injEq] at h
          obtain ⟨rfl, rfl, rfl⟩ := h; exact ih _ _ _ hb
        · simp only [c, if_false, Option.some.injEq, Prod.mk.injEq] at h
          obtain ⟨rfl, _, rfl⟩ := h; exact hl

/-- the discovery-pool subtraction `high_water_mark - discovered.len()` on its own panics as soon as
    the pool is above the mark (a single SharePeers answer may carry more addresses than were asked
    for, and several peers are asked in the same round); `needs_more_peers` is exactly the guard that
    turns that state into "no request" -/
theorem discovery_subtraction_needs_guard (s : St) (p : Nat) (st : Peer) (h : s.hwm < s.discovered.length) :
    usub s.hwm s.discovered.length = none ∧ discoveryHk s p st = some [] := by
  constructor
  · unfold usub; rw [if_neg (by omega)]
  · unfold discoveryHk; rw [if_neg (by omega)]

/-- such a state is reachable from peer input alone (mark lowered to 2 to keep the term small): one
    handshaked peer answers a request with three addresses; the next housekeeping pass still runs -/
example : ((run { St.init cfg1 with hwm := 2 } [.includePeer 0, .housekeeping [0] [], .connected 0,
      .sent 0 (.hs (.propose [])), .recv 0 [.hs (.accept 13 1)], .sent 0 (.ps (.shareRequest 2)),
      .recv 0 [.ps (.sharePeers [7, 8, 9])], .housekeeping [0] []]).map
        (fun s => (decide (s.hwm < s.discovered.length), s.out))) = some (true, [.send 0 (.ka (.keepAlive 65535))]) := by
  decide

/-- one inventory entry together with the proved statement that makes it safe in the model -/
structure Discharge where
  file : String
  fn : String
  kind : String
  text : String
  claim : Prop
  proof : claim

def discharges : List Discharge := [
  { file := "behavior/initiator/discovery.rs", fn := "request_peers", kind := "arith",
    text := "let amount = self.config.high_water_mark as usize - self.discovered.len();",
    claim := ∀ s p st, ∃ o, discoveryHk s p st = some o ∧ ∀ q, Out.connect q ∉ o,
    proof := discoveryHk_some },
  { file := "behavior/initiator/leiosfetch.rs", fn := "visit_housekeeping", kind := "expect",
    text := "let (_, request) = self.requests.remove(idx).expect(\"\");",
    claim := ∀ p l, (∃ x, x ∈ l ∧ x.1 = p) → (takeFirstFor p l).isSome = true,
    proof := takeFirstFor_some },
  { file := "behavior/initiator/mod.rs", fn := "on_errored", kind := "arith", text := "state.error_count += 1;",
    claim := ∀ cfg (h : List Ev), h.length < u32Bound → run (St.init cfg) h ≠ none,
    proof := initiator_no_panic_partial },
  { file := "behavior/initiator/promotion.rs", fn := "peer_deficit", kind := "arith",
    text := "self.config.max_peers - self.total_peers()",
    claim := ∀ (b0 : List Nat) (s : St) (taken : List Nat), Good b0 s → ∃ f, moveDiscovered s taken = some f ∧ Good b0 f,
    proof := fun _ _ taken g => moveDiscovered_good taken g },
  { file := "behavior/initiator/promotion.rs", fn := "required_cold_peers", kind := "arith",
    text := "self.config.max_peers - self.total_peers()",
    claim := ∀ s p st, SetsOK s → ∃ s' st', onPeerDiscovered s p st = some (s', st') ∧ Prim s p st s' st' ∧
      (¬ WH st.tag → ¬ WH st'.tag),
    proof := onPeerDiscovered_prim },
  { file := "behavior/initiator/promotion.rs", fn := "required_hot_peers", kind := "arith",
    text := "self.config.max_hot_peers - self.hot_peers.len()",
    claim := ∀ s p st, SetsOK s → ∃ s' st', categorize s p st = some (s', st') ∧ Prim s p st s' st',
    proof := categorize_prim },
  { file := "behavior/initiator/promotion.rs", fn := "required_warm_peers", kind := "arith",
    text := "self.config.max_warm_peers - self.warm_peers.len()",
    claim := ∀ s p st, SetsOK s → ∃ s' st', categorize s p st = some (s', st') ∧ Prim s p st s' st',
    proof := categorize_prim },
  { file := "behavior/initiator/promotion.rs", fn := "total_peers", kind := "arith",
    text := "self.cold_peers.len() + self.warm_peers.len() + self.hot_peers.len()",
    claim := ∀ s, SetsOK s → s.cold.length + s.warm.length + s.hot.length ≤ s.cfg.maxPeers,
    proof := fun _ h => h.limT },
  { file := "behavior/responder/connection.rs", fn := "visit_connected", kind := "arith", text := "*count += 1;",
    claim := ∀ (s0 : RSt) (h : List REv), s0.perIp = (fun _ => 0) → s0.active = 0 → s0.peers = (fun _ => none) →
      h.length < u32Bound → rRun s0 h ≠ none,
    proof := responder_no_panic_partial },
  { file := "behavior/responder/connection.rs", fn := "visit_connected", kind := "arith", text := "self.active_peers += 1;",
    claim := ∀ (s0 : RSt) (h : List REv), s0.perIp = (fun _ => 0) → s0.active = 0 → s0.peers = (fun _ => none) →
      h.length < u32Bound → rRun s0 h ≠ none,
    proof := responder_no_panic_partial },
  { file := "behavior/responder/handshake.rs", fn := "try_accept_handshake", kind := "index",
    text := "let our_data = &self.config.supported_version.values[num];",
    claim := ∀ sup prop v m o, bestCommon sup prop = some (v, m, o) → sup.lookup v = some o,
    proof := bestCommon_lookup },
  { file := "behavior/responder/mod.rs", fn := "on_errored", kind := "arith", text := "state.error_count += 1;",
    claim := ∀ (s0 : RSt) (h : List REv), s0.perIp = (fun _ => 0) → s0.active = 0 → s0.peers = (fun _ => none) →
      h.length < u32Bound → rRun s0 h ≠ none,
    proof := responder_no_panic_partial }
]

def covered (s : String × String × String × String) : Bool :=
  discharges.any (fun d => d.file == s.1 && d.fn == s.2.1 && d.kind == s.2.2.1 && d.text == s.2.2.2)

/-- every panic site found in the sources on this run has a discharge entry (fail closed) -/
theorem all_sites_discharged : PallasVerif.Gen.PanicSitesP2P.sites.all covered = true := by decide

/-- the eight protocol machines of the models (`violation` is their rejection) are the `State::apply`
    functions of the sources: same acceptance and same successor class as the table regenerated from
    `pallas-network2/src/protocol/*` on this run (lib/translate_fsm.py), for every state and message -/
theorem protocol_machines_match_source :
    (∀ s m, (PallasVerif.Gen.FsmN2.handshake.step (HsSt.cls s) (HsMsg.kind m)).next? = (s.apply m).map HsSt.cls) ∧
    (∀ s m, (PallasVerif.Gen.FsmN2.keepalive.step (KaSt.cls s) (KaMsg.kind m)).next? = (s.apply m).map KaSt.cls) ∧
    (∀ s m, (PallasVerif.Gen.FsmN2.peersharing.step (PsSt.cls s) (PsMsg.kind m)).next? = (s.apply m).map PsSt.cls) ∧
    (∀ s m, (PallasVerif.Gen.FsmN2.blockfetch.step (BfSt.cls s) (BfMsg.kind m)).next? = (s.apply m).map BfSt.cls) ∧
    (∀ s m, (PallasVerif.Gen.FsmN2.chainsync.step (CsSt.cls s) (CsMsg.kind m)).next? = (s.apply m).map CsSt.cls) ∧
    (∀ s m, (PallasVerif.Gen.FsmN2.txsubmission.step (TxSt.cls s) (TxMsg.kind m)).next? = (s.apply m).map TxSt.cls) ∧
    (∀ s m, (PallasVerif.Gen.FsmN2.leiosnotify.step (LnSt.cls s) (LnMsg.kind m)).next? = (s.apply m).map LnSt.cls) ∧
    (∀ s m, (PallasVerif.Gen.FsmN2.leiosfetch.step (LfSt.cls s) (LfMsg.kind m)).next? = (s.apply m).map LfSt.cls) :=
  ⟨hs_matches_source, ka_matches_source, ps_matches_source, bf_matches_source, cs_matches_source, tx_matches_source,
   ln_matches_source, lf_matches_source⟩

/-! ## Non-vacuity -/

/-- violating messages of several protocols are absorbed (flag set, no panic), the second
    `Connected` after the proposal was sent is harmless (DESIGN §6 #17, repaired) -/
example : (run (St.init cfg1) [.includePeer 0, .housekeeping [0] [], .connected 0, .sent 0 (.hs (.propose [])),
      .connected 0, .recv 0 [.ka (.response 3), .bf (.block 1), .cs .awaitReply], .error 0, .disconnected 0]).isSome = true := by
  decide

example : (rRun {} [.connected 1, .recv 1 [.hs (.propose [(13, 764824073)])], .recv 1 [.ka (.keepAlive 5)],
      .recv 1 [.bf .batchDone], .housekeeping [1], .error 1, .disconnected 1]).isSome = true := by decide

end PallasVerif.Props.C29
