import PallasVerif.Model.Negotiate
import PallasVerif.Proofs.Negotiate
/-!
# C25 — Handshake negotiation accepts only the highest common version

`Model/Negotiate.lean` transcribes the two responders' negotiation code:
`negotiate1` = `pallas-network … handshake::Server::handshake` (sort descending, nested scan, first
equal version number decides, whole version data compared), `negotiate2` = `pallas-network2 …
HandshakeResponder::try_accept_handshake` (`filter` + `contains_key`, `max_by_key`, `values[num]`,
network-magic comparison). Version tables are `HashMap`s: association lists in an arbitrary order.

For **every** pair of tables (any size, any version data type):
* `accept_sound_stack1/2` — an accepted version is offered by both sides, no higher version is
  offered by both, and the two sides' parameters for it agree on the network magic (stack 1: the whole
  version data is equal);
* `disjoint_refuses_stack1/2` — disjoint version sets are refused with a version mismatch that lists
  exactly the responder's versions;
* `order_independent_stack1/2` — with unique keys (hash maps) the outcome does not depend on the
  iteration order of either table (stack 2: up to the order of the listed versions, which is a hash
  map's);
* `stack2_never_panics` — the indexing `values[num]` cannot fail.
-/
namespace PallasVerif.Props.C25
open PallasVerif.Negotiate

variable {D : Type}

/-- stack 1: accepted ⇒ offered by both with equal data (so equal magic, for any notion of magic), and
    highest among the common versions -/
theorem accept_sound_stack1 [DecidableEq D] (magic : D → Nat) (ours theirs : Table D) (v : Nat) (d : D)
    (h : negotiate1 ours theirs = .accept v d) :
    (v, d) ∈ ours ∧ (∃ d', (v, d') ∈ theirs ∧ magic d' = magic d) ∧
      ∀ w, w ∈ keys ours → w ∈ keys theirs → w ≤ v := by
  obtain ⟨h1, h2, h3⟩ := accept_sound1 ours theirs v d h
  exact ⟨h1, ⟨d, h2, rfl⟩, h3⟩

/-- stack 1: disjoint ⇒ `Refuse(VersionMismatch(l))` where `l` is exactly the responder's versions
    (highest first) -/
theorem disjoint_refuses_stack1 [DecidableEq D] (ours theirs : Table D) (h : ∀ w ∈ keys ours, w ∉ keys theirs) :
    ∃ l, negotiate1 ours theirs = .versionMismatch l ∧ l.Perm (keys ours) ∧ l.Pairwise (· ≥ ·) :=
  disjoint_refuses1 ours theirs h

/-- stack 1: the iteration orders of the two hash maps do not matter -/
theorem order_independent_stack1 [DecidableEq D] (ours ours' theirs theirs' : Table D)
    (ho : ours.Perm ours') (ht : theirs.Perm theirs') (hno : (keys ours).Nodup) (hnt : (keys theirs).Nodup) :
    negotiate1 ours theirs = negotiate1 ours' theirs' :=
  negotiate1_perm ours ours' theirs theirs' ho ht hno hnt

/-- stack 2: accepted ⇒ our data for a version the peer proposed with the same magic, highest common -/
theorem accept_sound_stack2 (magic : D → Nat) (ours proposed : Table D) (v : Nat) (d : D)
    (h : negotiate2 magic ours proposed = .accept v d) :
    (v, d) ∈ ours ∧ (∃ pd, (v, pd) ∈ proposed ∧ magic pd = magic d) ∧
      ∀ w, w ∈ keys ours → w ∈ keys proposed → w ≤ v :=
  accept_sound2 magic ours proposed v d h

/-- stack 2: disjoint ⇒ `Refuse(VersionMismatch(our keys))` -/
theorem disjoint_refuses_stack2 (magic : D → Nat) (ours proposed : Table D) (h : ∀ w ∈ keys ours, w ∉ keys proposed) :
    negotiate2 magic ours proposed = .versionMismatch (keys ours) :=
  disjoint_refuses2 magic ours proposed h

/-- stack 2: order independence (a version-mismatch lists the same versions, in the map's order) -/
theorem order_independent_stack2 (magic : D → Nat) (ours ours' proposed proposed' : Table D)
    (ho : ours.Perm ours') (hp : proposed.Perm proposed') (hno : (keys ours).Nodup) (hnp : (keys proposed).Nodup) :
    (negotiate2 magic ours proposed).sim (negotiate2 magic ours' proposed') :=
  negotiate2_perm magic ours ours' proposed proposed' ho hp hno hnp

/-- the other two answers are sound as well (so the three theorems characterise each responder): a
    `Refused(v)` is about the highest common version, whose data (stack 1) / magics (stack 2) differ, and a
    version mismatch is sent only for disjoint tables -/
theorem refusals_sound_stack1 [DecidableEq D] (ours theirs : Table D) :
    (∀ v, negotiate1 ours theirs = .refused v →
      (∃ d d', (v, d) ∈ ours ∧ (v, d') ∈ theirs ∧ d ≠ d') ∧ ∀ w, w ∈ keys ours → w ∈ keys theirs → w ≤ v) ∧
    (∀ vs, negotiate1 ours theirs = .versionMismatch vs → ∀ w ∈ keys ours, w ∉ keys theirs) :=
  ⟨fun v h => refused_sound1 ours theirs v h, fun vs h => mismatch_only_if_disjoint1 ours theirs vs h⟩

theorem refusals_sound_stack2 (magic : D → Nat) (ours proposed : Table D) :
    (∀ v, negotiate2 magic ours proposed = .refused v →
      (∃ d pd, (v, d) ∈ ours ∧ (v, pd) ∈ proposed ∧ magic pd ≠ magic d) ∧
        ∀ w, w ∈ keys ours → w ∈ keys proposed → w ≤ v) ∧
    (∀ vs, negotiate2 magic ours proposed = .versionMismatch vs → ∀ w ∈ keys ours, w ∉ keys proposed) :=
  ⟨fun v h => refused_sound2 magic ours proposed v h, fun vs h => mismatch_only_if_disjoint2 magic ours proposed vs h⟩

/-- completeness: with unique keys the highest common version alone decides. Stack 1 compares the whole
    version data (every field, in full); stack 2 the two network magics as full 64-bit numbers. -/
theorem highest_common_decides_stack1 [DecidableEq D] (ours theirs : Table D) (hno : (keys ours).Nodup)
    (hnt : (keys theirs).Nodup) (v : Nat) (d d' : D) (ho : (v, d) ∈ ours) (ht : (v, d') ∈ theirs)
    (hmax : ∀ w, w ∈ keys ours → w ∈ keys theirs → w ≤ v) :
    negotiate1 ours theirs = if d = d' then .accept v d else .refused v :=
  negotiate1_complete ours theirs hno hnt v d d' ho ht hmax

theorem highest_common_decides_stack2 (magic : D → Nat) (ours proposed : Table D) (hno : (keys ours).Nodup)
    (hnp : (keys proposed).Nodup) (v : Nat) (d pd : D) (ho : (v, d) ∈ ours) (hp : (v, pd) ∈ proposed)
    (hmax : ∀ w, w ∈ keys ours → w ∈ keys proposed → w ≤ v) :
    negotiate2 magic ours proposed = if magic pd ≠ magic d then .refused v else .accept v d :=
  negotiate2_complete magic ours proposed hno hnp v d pd ho hp hmax

/-- Two magics that differ only above bit 8 / 16 / 32 (or anywhere) are different networks: whenever the
    peer's magic for the highest common version is ours plus a non-zero multiple of `2^k`, the
    responder refuses — there is no narrowing of the 64-bit value. -/
theorem magic_high_bits_refused_stack2 (magic : D → Nat) (ours proposed : Table D) (hno : (keys ours).Nodup)
    (hnp : (keys proposed).Nodup) (v : Nat) (d pd : D) (ho : (v, d) ∈ ours) (hp : (v, pd) ∈ proposed)
    (hmax : ∀ w, w ∈ keys ours → w ∈ keys proposed → w ≤ v)
    (k j : Nat) (hj : 0 < j) (hhigh : magic pd = magic d + j * 2 ^ k) :
    negotiate2 magic ours proposed = .refused v := by
  rw [highest_common_decides_stack2 magic ours proposed hno hnp v d pd ho hp hmax]
  have : 0 < j * 2 ^ k := Nat.mul_pos hj (Nat.two_pow_pos k)
  have hne : magic pd ≠ magic d := by omega
  simp [hne]

theorem stack2_never_panics (magic : D → Nat) (ours proposed : Table D) : negotiate2 magic ours proposed ≠ .panic :=
  negotiate2_no_panic magic ours proposed

/-! ## non-vacuity: the hypotheses are inhabited and all three outcomes occur -/

/-- data = (magic, flag) -/
abbrev VD := Nat × Nat

example : negotiate1 (D := VD) [(14, (1, 0)), (13, (1, 0)), (11, (1, 0))] [(12, (1, 0)), (14, (1, 0)), (13, (1, 0))]
    = .accept 14 (1, 0) := by rw [negotiate1_of_sorted (by decide)]; decide
example : negotiate1 (D := VD) [(14, (1, 1)), (13, (1, 0))] [(14, (1, 0)), (13, (1, 0))] = .refused 14 := by
  rw [negotiate1_of_sorted (by decide)]; decide
example : negotiate1 (D := VD) [(14, (1, 1)), (13, (1, 0)), (9, (1, 0))] [(7, (1, 0)), (8, (1, 0))]
    = .versionMismatch [14, 13, 9] := by rw [negotiate1_of_sorted (by decide)]; decide
/-- … and, through order independence, for the same tables in any other order -/
example : negotiate1 (D := VD) [(13, (1, 0)), (11, (1, 0)), (14, (1, 0))] [(13, (1, 0)), (12, (1, 0)), (14, (1, 0))]
    = .accept 14 (1, 0) := by
  rw [order_independent_stack1 _ [(14, (1, 0)), (13, (1, 0)), (11, (1, 0))] _ [(12, (1, 0)), (14, (1, 0)), (13, (1, 0))]
        (by decide) (by decide) (by decide) (by decide), negotiate1_of_sorted (by decide)]
  decide
example : negotiate2 (D := VD) (·.1) [(13, (1, 0)), (14, (1, 1))] [(12, (1, 5)), (14, (1, 7)), (13, (1, 0))]
    = .accept 14 (1, 1) := by decide
example : negotiate2 (D := VD) (·.1) [(13, (1, 0)), (14, (1, 1))] [(14, (2, 1)), (13, (1, 0))] = .refused 14 := by decide
example : negotiate2 (D := VD) (·.1) [(13, (1, 0)), (14, (1, 1))] [(7, (1, 0))] = .versionMismatch [13, 14] := by decide
example : (keys (D := VD) [(13, (1, 0)), (14, (1, 1))]).Nodup ∧
    [(13, ((1, 0) : VD)), (14, (1, 1))].Perm [(14, (1, 1)), (13, (1, 0))] := by
  constructor
  · decide
  · exact List.Perm.swap ..

/-! ## 64-bit witnesses: equality is on the full `u64`, for magics and for version numbers -/

/-- MAINNET_MAGIC and MAINNET_MAGIC + 2^32 are both `u64`s, agree modulo 2^32 — and are refused -/
example : U64 764824073 ∧ U64 5059791369 ∧ 5059791369 % 2 ^ 32 = 764824073 % 2 ^ 32 ∧
    negotiate2 (D := VD) (·.1) [(13, (764824073, 0))] [(13, (5059791369, 0))] = .refused 13 := by decide
/-- the same for magics agreeing modulo 2^16, modulo 2^8, and differing only in bit 63 -/
example : negotiate2 (D := VD) (·.1) [(14, (764824073, 0)), (13, (764824073, 0))]
    [(14, (764824073 + 2 ^ 16, 0)), (13, (764824073, 0))] = .refused 14 := by decide
example : negotiate2 (D := VD) (·.1) [(13, (1, 0))] [(13, (257, 0))] = .refused 13 := by decide
example : negotiate2 (D := VD) (·.1) [(13, (2, 0))] [(13, (2 + 2 ^ 63, 0))] = .refused 13 := by decide
example : negotiate2 (D := VD) (·.1) [(13, (0, 0))] [(13, (2 ^ 64 - 1, 0))] = .refused 13 := by decide
/-- … while equal 64-bit magics are accepted -/
example : negotiate2 (D := VD) (·.1) [(13, (5059791369, 1))] [(13, (5059791369, 0))] = .accept 13 (5059791369, 1) := by decide
/-- stack 1 compares the whole data: a magic differing only above bit 32 refuses -/
example : negotiate1 (D := VD) [(13, (764824073, 0))] [(13, (5059791369, 0))] = .refused 13 := by
  rw [negotiate1_of_sorted (by decide)]; decide
/-- version numbers are full `u64`s too: 13 and 13 + 2^16 / 13 + 2^32 are different versions, in one
    table and across tables -/
example : negotiate2 (D := VD) (·.1) [(13, (1, 0)), (13 + 2 ^ 16, (1, 1))] [(13 + 2 ^ 32, (1, 0)), (13, (1, 0))]
    = .accept 13 (1, 0) := by decide
example : negotiate2 (D := VD) (·.1) [(13, (1, 0))] [(13 + 2 ^ 32, (1, 0)), (13 + 2 ^ 16, (1, 0))]
    = .versionMismatch [13] := by decide
example : negotiate1 (D := VD) [(13 + 2 ^ 32, (1, 1)), (13 + 2 ^ 16, (1, 0)), (13, (1, 0))] [(13 + 2 ^ 16, (1, 0)), (13, (1, 0))]
    = .accept (13 + 2 ^ 16) (1, 0) := by rw [negotiate1_of_sorted (by decide)]; decide
example : negotiate1 (D := VD) [(13, (1, 0))] [(13 + 2 ^ 32, (1, 0))] = .versionMismatch [13] := by
  rw [negotiate1_of_sorted (by decide)]; decide

end PallasVerif.Props.C25
