import PallasVerif.Model.Time
import PallasVerif.Gen.Consts
/-!
# C32 — Slot, epoch and wall-clock conversions are mutually consistent

`Model/Time.lean` transcribes `pallas-traverse/src/time.rs` (checked `u64` arithmetic, a panic is
`none`); `Gen/Consts.lean` is regenerated from `wellknown.rs` on every run.

**Full statement** (`FullStatement g`): for every absolute slot below `2^40`, converting to
(epoch, slot-in-epoch) succeeds, the slot-in-epoch is smaller than the era's epoch size *in slots*,
converting back yields the slot (`RelOK`), the wall clock advances by exactly the era's slot length
from this slot to the next (`ClockStep`) and is strictly increasing (`ClockMono`).

The unchanged tree does **not** satisfy it (DESIGN §6 #18, #19; both pinned by the test
`calc_matches_testnet_values`, hence recorded as known findings, not repaired):

* `compute_era_epoch` reduces the slot modulo the epoch length in *seconds*; with 20 s Byron slots
  every Byron-era slot `s` with `s % epoch_seconds ≥ epoch_slots` breaks `RelOK`
  (`full_fails_mainnet`, `full_fails_preprod`, `full_fails_testnet`; exact region: `byron_relok_iff`).
* the legacy-testnet record has `byron_known_time + shelley_known_slot·20 ≠ shelley_known_time`, so
  its clock jumps back 10780 s at the era boundary (`clock_step_fails_testnet`,
  `clock_mono_fails_testnet`, `not_clock_agree_testnet`).

**Proved part** (`c32_partial`, generic in any record satisfying the decidable predicate `WFGenesis`,
instantiated for mainnet / preview / preprod by `decide` on the generated constants): `RelOK` for every
Shelley-era slot and for exactly those Byron-era slots with `s % epoch_seconds < epoch_slots`
(in particular all slots of the first Byron epoch); `ClockStep` and `ClockMono` for *all* slots.
For preview (no Byron era) this is the full statement (`c32_full_preview`). For the legacy testnet
the arithmetic half (`WFArith`) holds and gives the same `RelOK` region plus the clock laws inside
each era (`c32_partial_testnet`). Nothing is left unproved about the model; the remainder is the
two recorded defects of the code itself.
-/
namespace PallasVerif.Props.C32
open PallasVerif.Time PallasVerif.Gen.Consts

/-- the property's slot range -/
def slotBound : Nat := 2 ^ 40

/-- the era's epoch size in slots -/
def epochSize (g : Genesis) (slot : Nat) : Nat :=
  if slot < g.shelleyKnownSlot then g.byronEpochLength / g.byronSlotLength
  else g.shelleyEpochLength / g.shelleySlotLength

/-- the era's slot length in seconds -/
def slotLength (g : Genesis) (slot : Nat) : Nat :=
  if slot < g.shelleyKnownSlot then g.byronSlotLength else g.shelleySlotLength

/-- to (epoch, slot-in-epoch) and back: in range, and the original slot -/
def RelOK (g : Genesis) (slot : Nat) : Prop :=
  match absoluteSlotToRelative g slot with
  | some (e, r) => r < epochSize g slot ∧ relativeSlotToAbsolute g e r = some slot
  | none => False

/-- the clock advances by the era's slot length from `slot` to `slot + 1` -/
def ClockStep (g : Genesis) (slot : Nat) : Prop :=
  match slotToWallclock g slot, slotToWallclock g (slot + 1) with
  | some a, some b => b = a + slotLength g slot
  | _, _ => False

/-- the clock at `s` is strictly before the clock at `t` -/
def ClockMono (g : Genesis) (s t : Nat) : Prop :=
  match slotToWallclock g s, slotToWallclock g t with
  | some a, some b => a < b
  | _, _ => False

instance (g : Genesis) (slot : Nat) : Decidable (RelOK g slot) := by
  unfold RelOK; split <;> infer_instance
instance (g : Genesis) (slot : Nat) : Decidable (ClockStep g slot) := by
  unfold ClockStep; split <;> infer_instance
instance (g : Genesis) (s t : Nat) : Decidable (ClockMono g s t) := by
  unfold ClockMono; split <;> infer_instance

/-- The property at full strength, for one genesis record. -/
def FullStatement (g : Genesis) : Prop :=
  ∀ slot, slot < slotBound →
    RelOK g slot ∧ ClockStep g slot ∧ ∀ t, slot < t → t < slotBound → ClockMono g slot t

/-- Byron-era slots on which the code's remainder (mod seconds) coincides with the remainder
    mod slots; every Shelley-era slot qualifies. -/
def GoodSlot (g : Genesis) (slot : Nat) : Prop :=
  g.shelleyKnownSlot ≤ slot ∨ slot % g.byronEpochLength < g.byronEpochLength / g.byronSlotLength

instance (g : Genesis) (slot : Nat) : Decidable (GoodSlot g slot) := by
  unfold GoodSlot; infer_instance

/-- What is proved for every well-formed record (see module doc). -/
def PartialStatement (g : Genesis) : Prop :=
  ∀ slot, slot < slotBound →
    (GoodSlot g slot → RelOK g slot) ∧ ClockStep g slot ∧
      ∀ t, slot < t → t < slotBound → ClockMono g slot t

/-! ## Well-formedness of a genesis record (decidable) -/

/-- arithmetic side: slot length divides epoch length, Shelley slots last one second, the Shelley
    start is a whole number of Byron epochs, everything small enough for `u64`. -/
def WFArith (g : Genesis) : Prop :=
  0 < g.byronSlotLength ∧ g.byronSlotLength < 2 ^ 16 ∧
  0 < g.byronEpochLength ∧ g.byronEpochLength < 2 ^ 32 ∧
  g.byronEpochLength % g.byronSlotLength = 0 ∧
  g.shelleySlotLength = 1 ∧
  0 < g.shelleyEpochLength ∧ g.shelleyEpochLength < 2 ^ 32 ∧
  g.byronKnownSlot = 0 ∧
  g.shelleyKnownSlot < 2 ^ 40 ∧
  g.shelleyKnownSlot % (g.byronEpochLength / g.byronSlotLength) = 0 ∧
  g.byronKnownTime < 2 ^ 40 ∧ g.shelleyKnownTime < 2 ^ 40

/-- the two linear clocks agree at the era boundary -/
def ClockAgree (g : Genesis) : Prop :=
  g.byronKnownTime + g.shelleyKnownSlot * g.byronSlotLength = g.shelleyKnownTime

def WFGenesis (g : Genesis) : Prop := WFArith g ∧ ClockAgree g

instance (g : Genesis) : Decidable (WFArith g) := by unfold WFArith; infer_instance
instance (g : Genesis) : Decidable (ClockAgree g) := by unfold ClockAgree; infer_instance
instance (g : Genesis) : Decidable (WFGenesis g) := by unfold WFGenesis; infer_instance

theorem wf_mainnet : WFGenesis mainnet := by decide
theorem wf_preview : WFGenesis preview := by decide
theorem wf_preprod : WFGenesis preprod := by decide
theorem wf_arith_testnet : WFArith testnet := by decide
theorem not_clock_agree_testnet : ¬ ClockAgree testnet := by decide

/-! ## The unchanged tree violates the full statement: negations at the witnesses -/

/-- mainnet slot 21600 ↦ (1, 21600) ↦ 43200 -/
theorem relok_fails_mainnet_21600 : ¬ RelOK mainnet 21600 := by decide
theorem rel_mainnet_21600 : absoluteSlotToRelative mainnet 21600 = some (1, 21600) ∧
    relativeSlotToAbsolute mainnet 1 21600 = some 43200 := by decide
/-- mainnet slot 500000 ↦ (23, 68000) ↦ 564800 -/
theorem rel_mainnet_500000 : absoluteSlotToRelative mainnet 500000 = some (23, 68000) ∧
    relativeSlotToAbsolute mainnet 23 68000 = some 564800 := by decide
theorem full_fails_mainnet : ¬ FullStatement mainnet :=
  fun h => relok_fails_mainnet_21600 (h 21600 (by decide)).1
theorem full_fails_preprod : ¬ FullStatement preprod :=
  fun h => absurd (h 21600 (by decide)).1 (by decide)
theorem full_fails_testnet : ¬ FullStatement testnet :=
  fun h => absurd (h 21600 (by decide)).1 (by decide)

/-- legacy testnet: 1595978396 at slot 1598399, 1595967616 at slot 1598400 -/
theorem clock_testnet_boundary : slotToWallclock testnet 1598399 = some 1595978396 ∧
    slotToWallclock testnet 1598400 = some 1595967616 := by decide
theorem clock_step_fails_testnet : ¬ ClockStep testnet 1598399 := by decide
theorem clock_mono_fails_testnet : ¬ ClockMono testnet 1598399 1598400 := by decide
theorem full_fails_testnet_clock : ¬ FullStatement testnet :=
  fun h => clock_step_fails_testnet (h 1598399 (by decide)).2.1

/-! ## Helper lemmas: the checked functions on their no-overflow domain -/

theorem computeEraEpoch_eq {x l L : Nat} (hL : 0 < L) (h : x * l < U64) :
    computeEraEpoch x l L = some (x * l / L, x % L) := by
  unfold computeEraEpoch
  have h1 : ¬ L = 0 := by omega
  have h2 : ¬ x * l ≥ U64 := by omega
  simp [h1, h2]

theorem computeAbs_eq {e s L l : Nat} (h1 : e * L < U64) (hl : 0 < l) (h2 : e * L / l + s < U64) :
    computeAbsoluteSlotWithinEra e s L l = some (e * L / l + s) := by
  unfold computeAbsoluteSlotWithinEra
  have a : ¬ e * L ≥ U64 := by omega
  have b : ¬ l = 0 := by omega
  have c : ¬ e * L / l + s ≥ U64 := by omega
  simp [a, b, c]

theorem linear_eq {ks kt l q : Nat} (h0 : ks ≤ q) (h1 : (q - ks) * l < U64)
    (h2 : kt + (q - ks) * l < U64) :
    computeLinearTimestamp ks kt l q = some (kt + (q - ks) * l) := by
  unfold computeLinearTimestamp
  have a : ¬ q < ks := by omega
  have b : ¬ (q - ks) * l ≥ U64 := by omega
  have c : ¬ kt + (q - ks) * l ≥ U64 := by omega
  simp [a, b, c]

theorem mul_lt_56 {a b : Nat} (ha : a < 2 ^ 40) (hb : b < 2 ^ 16) : a * b < 2 ^ 56 := by
  have := Nat.mul_lt_mul'' ha hb
  have e : (2 : Nat) ^ 40 * 2 ^ 16 = 2 ^ 56 := by decide
  omega

/-- epoch size in slots `n = L / l`, with `L = n * l` -/
theorem era_facts {l L : Nat} (hl : 0 < l) (hL : 0 < L) (hd : L % l = 0) :
    L = (L / l) * l ∧ 0 < L / l ∧ L / l ≤ L := by
  have h1 : L = (L / l) * l := (Nat.div_mul_cancel (Nat.dvd_of_mod_eq_zero hd)).symm
  have h2 : 0 < L / l := Nat.div_pos (Nat.le_of_dvd hL (Nat.dvd_of_mod_eq_zero hd)) hl
  exact ⟨h1, h2, Nat.div_le_self L l⟩

/-- `x * l / L = x / n` -/
theorem epoch_eq {x l L : Nat} (hl : 0 < l) (hL : 0 < L) (hd : L % l = 0) :
    x * l / L = x / (L / l) := by
  obtain ⟨h1, _, _⟩ := era_facts hl hL hd
  conv => lhs; rw [h1]
  exact Nat.mul_div_mul_right x (L / l) hl

/-- `e * L / l = e * n` -/
theorem within_eq {e l L : Nat} (hl : 0 < l) (hL : 0 < L) (hd : L % l = 0) :
    e * L / l = e * (L / l) := by
  obtain ⟨h1, _, _⟩ := era_facts hl hL hd
  conv => lhs; rw [h1, ← Nat.mul_assoc]
  exact Nat.mul_div_cancel _ hl

/-- the Shelley start epoch and the number of Byron slots before it -/
theorem start_facts {g : Genesis} (h : WFArith g) :
    shelleyStartEpoch g = some (g.shelleyKnownSlot / (g.byronEpochLength / g.byronSlotLength)) ∧
    g.shelleyKnownSlot / (g.byronEpochLength / g.byronSlotLength) *
      (g.byronEpochLength / g.byronSlotLength) = g.shelleyKnownSlot := by
  obtain ⟨hl, hl16, hL, _, hd, _, _, _, _, hs40, hsd, _, _⟩ := h
  have hm := mul_lt_56 hs40 hl16
  have hu : g.shelleyKnownSlot * g.byronSlotLength < U64 := by
    have : (2 : Nat) ^ 56 < U64 := by decide
    omega
  constructor
  · unfold shelleyStartEpoch
    rw [computeEraEpoch_eq hL hu, epoch_eq hl hL hd]
  · exact Nat.div_mul_cancel (Nat.dvd_of_mod_eq_zero hsd)

/-! ## `RelOK` -/

/-- every Shelley-era slot below `2^40` converts to an in-range pair and back -/
theorem relok_shelley {g : Genesis} (h : WFArith g) {slot : Nat}
    (hs : g.shelleyKnownSlot ≤ slot) (hb : slot < slotBound) : RelOK g slot := by
  obtain ⟨hstart, hbs⟩ := start_facts h
  obtain ⟨hl, hl16, hL, hL32, hd, hs1, hSL, hSL32, _, hs40, hsd, _, _⟩ := h
  have hU : U64 = 18446744073709551616 := by decide
  have hB : slotBound = 1099511627776 := by decide
  have hm := mul_lt_56 hs40 hl16
  have h56 : (2 : Nat) ^ 56 = 72057594037927936 := by decide
  have h40 : (2 : Nat) ^ 40 = 1099511627776 := by decide
  generalize hn : g.byronEpochLength / g.byronSlotLength = n at *
  generalize hx : slot - g.shelleyKnownSlot = x
  have hxs : slot = g.shelleyKnownSlot + x := by omega
  have hstartle : g.shelleyKnownSlot / n ≤ g.shelleyKnownSlot := Nat.div_le_self _ _
  have hq : x / g.shelleyEpochLength ≤ x := Nat.div_le_self _ _
  have hq2 : x / g.shelleyEpochLength * g.shelleyEpochLength ≤ x := Nat.div_mul_le_self _ _
  have hdm : x / g.shelleyEpochLength * g.shelleyEpochLength + x % g.shelleyEpochLength = x := by
    rw [Nat.mul_comm]; exact Nat.div_add_mod _ _
  have hmod : x % g.shelleyEpochLength < g.shelleyEpochLength := Nat.mod_lt _ hSL
  have hw : g.shelleyKnownSlot / n * g.byronEpochLength / g.byronSlotLength = g.shelleyKnownSlot := by
    rw [within_eq hl hL hd, hn, hbs]
  have hwle : g.shelleyKnownSlot / n * g.byronEpochLength ≤
      g.shelleyKnownSlot * g.byronSlotLength := by
    have e1 : g.byronEpochLength = n * g.byronSlotLength := by
      rw [← hn]; exact (era_facts hl hL hd).1
    rw [e1, ← Nat.mul_assoc, hbs]
    exact Nat.le_refl _
  unfold RelOK absoluteSlotToRelative
  have hns : ¬ slot < g.shelleyKnownSlot := by omega
  simp only [hns, if_false, hx]
  rw [computeEraEpoch_eq hSL (by rw [hs1]; omega), hstart]
  simp only [hs1, Nat.mul_one]
  have hno : ¬ g.shelleyKnownSlot / n + x / g.shelleyEpochLength ≥ U64 := by omega
  simp only [hno, if_false]
  refine ⟨?_, ?_⟩
  · simp only [epochSize, hns, if_false, hs1, Nat.div_one]; exact hmod
  · unfold relativeSlotToAbsolute
    rw [hstart]
    have hnl : ¬ g.shelleyKnownSlot / n + x / g.shelleyEpochLength < g.shelleyKnownSlot / n :=
      Nat.not_lt.2 (Nat.le_add_right _ _)
    simp only [hnl, if_false]
    rw [computeAbs_eq (by omega) hl (by omega)]
    simp only [Nat.add_zero, hw, Nat.add_sub_cancel_left, hs1]
    rw [computeAbs_eq (by omega) (by omega) (by rw [Nat.div_one]; omega)]
    simp only [Nat.div_one]
    have hfin : ¬ g.shelleyKnownSlot +
        (x / g.shelleyEpochLength * g.shelleyEpochLength + x % g.shelleyEpochLength) ≥ U64 := by
      omega
    rw [hdm] at hfin
    simp only [hdm, hxs, hfin, if_false]

/-- Byron-era slots: exactly those whose remainder modulo the epoch length in seconds is
    smaller than the epoch size in slots survive the conversion (the rest is finding #18). -/
theorem byron_relok_iff {g : Genesis} (h : WFArith g) {slot : Nat}
    (hs : slot < g.shelleyKnownSlot) :
    RelOK g slot ↔ slot % g.byronEpochLength < g.byronEpochLength / g.byronSlotLength := by
  obtain ⟨hstart, hbs⟩ := start_facts h
  obtain ⟨hl, hl16, hL, hL32, hd, hs1, hSL, hSL32, _, hs40, hsd, _, _⟩ := h
  have hU : U64 = 18446744073709551616 := by decide
  have h56 : (2 : Nat) ^ 56 = 72057594037927936 := by decide
  have h40 : (2 : Nat) ^ 40 = 1099511627776 := by decide
  have hm := mul_lt_56 (Nat.lt_trans hs hs40) hl16
  obtain ⟨hLn, hnpos, hnle⟩ := era_facts hl hL hd
  have hep := epoch_eq (x := slot) hl hL hd
  have hwi := within_eq (e := slot / (g.byronEpochLength / g.byronSlotLength)) hl hL hd
  generalize hn : g.byronEpochLength / g.byronSlotLength = n at *
  have hlt : slot / n < g.shelleyKnownSlot / n := by
    rw [Nat.div_lt_iff_lt_mul hnpos, hbs]; exact hs
  have hdl : slot / n * n ≤ slot := Nat.div_mul_le_self _ _
  have hml : slot % g.byronEpochLength ≤ slot := Nat.mod_le _ _
  have hwle : slot / n * g.byronEpochLength ≤ slot * g.byronSlotLength := by
    rw [hLn, ← Nat.mul_assoc]
    exact Nat.mul_le_mul_right _ hdl
  unfold RelOK absoluteSlotToRelative
  simp only [hs, if_true]
  rw [computeEraEpoch_eq hL (by omega), hep]
  simp only [epochSize, hs, if_true, hn]
  unfold relativeSlotToAbsolute
  rw [hstart]
  simp only [hlt, if_true]
  rw [computeAbs_eq (by omega) hl (by rw [hwi]; omega), hwi]
  constructor
  · intro hh; exact hh.1
  · intro hh
    refine ⟨hh, ?_⟩
    have hmm : slot % g.byronEpochLength = slot % n := by
      have : slot % n = slot % g.byronEpochLength % n :=
        (Nat.mod_mod_of_dvd slot ⟨g.byronSlotLength, hLn⟩).symm
      rw [this, Nat.mod_eq_of_lt hh]
    rw [hmm, Nat.mul_comm]
    exact congrArg some (Nat.div_add_mod slot n)

/-- all slots of the first Byron epoch are fine -/
theorem relok_byron_first_epoch {g : Genesis} (h : WFArith g) {slot : Nat}
    (hs : slot < g.shelleyKnownSlot)
    (h1 : slot < g.byronEpochLength / g.byronSlotLength) : RelOK g slot := by
  rw [byron_relok_iff h hs]
  have hle : g.byronEpochLength / g.byronSlotLength ≤ g.byronEpochLength := Nat.div_le_self _ _
  rw [Nat.mod_eq_of_lt (by omega)]; exact h1

/-- `RelOK` on the whole good region -/
theorem relok_good {g : Genesis} (h : WFArith g) {slot : Nat} (hb : slot < slotBound)
    (hg : GoodSlot g slot) : RelOK g slot := by
  by_cases hs : slot < g.shelleyKnownSlot
  · rcases hg with hg | hg
    · omega
    · exact (byron_relok_iff h hs).2 hg
  · exact relok_shelley h (by omega) hb

/-- `rel_lt_epoch_size`: wherever the conversion round-trips, the slot-in-epoch is in range -/
theorem rel_lt_epoch_size {g : Genesis} {slot e r : Nat} (h : RelOK g slot)
    (he : absoluteSlotToRelative g slot = some (e, r)) : r < epochSize g slot := by
  unfold RelOK at h; rw [he] at h; exact h.1

/-- `abs_rel_roundtrip` -/
theorem abs_rel_roundtrip {g : Genesis} {slot e r : Nat} (h : RelOK g slot)
    (he : absoluteSlotToRelative g slot = some (e, r)) :
    relativeSlotToAbsolute g e r = some slot := by
  unfold RelOK at h; rw [he] at h; exact h.2

/-! ## Wall clock -/

/-- closed form of the clock of a record whose arithmetic side is well-formed -/
def clockOf (g : Genesis) (s : Nat) : Nat :=
  if s < g.shelleyKnownSlot then g.byronKnownTime + s * g.byronSlotLength
  else g.shelleyKnownTime + (s - g.shelleyKnownSlot)

theorem wallclock_closed {g : Genesis} (h : WFArith g) {s : Nat} (hb : s ≤ slotBound) :
    slotToWallclock g s = some (clockOf g s) := by
  obtain ⟨hl, hl16, hL, hL32, hd, hs1, hSL, hSL32, hk0, hs40, hsd, hbt, hst⟩ := h
  have hU : U64 = 18446744073709551616 := by decide
  have hB : slotBound = 1099511627776 := by decide
  have h56 : (2 : Nat) ^ 56 = 72057594037927936 := by decide
  have h40 : (2 : Nat) ^ 40 = 1099511627776 := by decide
  unfold slotToWallclock clockOf
  by_cases hs : s < g.shelleyKnownSlot
  · have hm := mul_lt_56 (Nat.lt_trans hs hs40) hl16
    simp only [hs, if_true, hk0]
    rw [linear_eq (Nat.zero_le _) (by simp only [Nat.sub_zero]; omega)
      (by simp only [Nat.sub_zero]; omega)]
    simp only [Nat.sub_zero]
  · simp only [hs, if_false, hs1]
    rw [linear_eq (by omega) (by omega) (by omega)]
    simp only [Nat.mul_one]

/-- `wallclock_step = slotLength era`, inside an era (no `ClockAgree` needed) -/
theorem clock_step_within_era {g : Genesis} (h : WFArith g) {slot : Nat} (hb : slot < slotBound)
    (hne : slot + 1 ≠ g.shelleyKnownSlot) : ClockStep g slot := by
  have hB : slotBound = 1099511627776 := by decide
  unfold ClockStep
  rw [wallclock_closed h (by omega), wallclock_closed h (by omega)]
  obtain ⟨_, _, _, _, _, hs1, _⟩ := h
  simp only [clockOf, slotLength]
  by_cases hs : slot < g.shelleyKnownSlot
  · have hs' : slot + 1 < g.shelleyKnownSlot := by omega
    simp only [hs, hs', if_true, Nat.add_mul, Nat.one_mul]; omega
  · have hs' : ¬ slot + 1 < g.shelleyKnownSlot := by omega
    simp only [hs, hs', if_false, hs1]; omega

/-- `wallclock_step = slotLength era` for every slot, including the last Byron slot -/
theorem clock_step {g : Genesis} (h : WFGenesis g) {slot : Nat} (hb : slot < slotBound) :
    ClockStep g slot := by
  by_cases hne : slot + 1 = g.shelleyKnownSlot
  · have hB : slotBound = 1099511627776 := by decide
    have hag : g.byronKnownTime + g.shelleyKnownSlot * g.byronSlotLength = g.shelleyKnownTime := h.2
    unfold ClockStep
    rw [wallclock_closed h.1 (by omega), wallclock_closed h.1 (by omega)]
    have hs : slot < g.shelleyKnownSlot := by omega
    have hs' : ¬ slot + 1 < g.shelleyKnownSlot := by omega
    simp only [clockOf, slotLength, hs, hs', if_true, if_false]
    rw [← hne, Nat.add_mul, Nat.one_mul] at hag
    omega
  · exact clock_step_within_era h.1 hb hne

/-- strict monotonicity inside an era (no `ClockAgree` needed) -/
theorem clock_mono_within_era {g : Genesis} (h : WFArith g) {s t : Nat} (hst : s < t)
    (hb : t < slotBound)
    (hera : (t < g.shelleyKnownSlot) ∨ (g.shelleyKnownSlot ≤ s)) : ClockMono g s t := by
  have hB : slotBound = 1099511627776 := by decide
  unfold ClockMono
  rw [wallclock_closed h (by omega), wallclock_closed h (by omega)]
  obtain ⟨hl, _⟩ := h
  simp only [clockOf]
  rcases hera with hera | hera
  · have hs : s < g.shelleyKnownSlot := by omega
    have hm : s * g.byronSlotLength < t * g.byronSlotLength := Nat.mul_lt_mul_of_pos_right hst hl
    simp only [hs, hera, if_true]; omega
  · have hs : ¬ s < g.shelleyKnownSlot := by omega
    have ht : ¬ t < g.shelleyKnownSlot := by omega
    simp only [hs, ht, if_false]; omega

/-- `wallclock_strict_mono` over all slots below `2^40` -/
theorem clock_strict_mono {g : Genesis} (h : WFGenesis g) {s t : Nat} (hst : s < t)
    (hb : t < slotBound) : ClockMono g s t := by
  by_cases hera : (t < g.shelleyKnownSlot) ∨ (g.shelleyKnownSlot ≤ s)
  · exact clock_mono_within_era h.1 hst hb hera
  · have hB : slotBound = 1099511627776 := by decide
    have hag : g.byronKnownTime + g.shelleyKnownSlot * g.byronSlotLength = g.shelleyKnownTime := h.2
    unfold ClockMono
    rw [wallclock_closed h.1 (by omega), wallclock_closed h.1 (by omega)]
    have hs : s < g.shelleyKnownSlot := by omega
    have ht : ¬ t < g.shelleyKnownSlot := by omega
    have hl : 0 < g.byronSlotLength := h.1.1
    have hm : s * g.byronSlotLength < g.shelleyKnownSlot * g.byronSlotLength :=
      Nat.mul_lt_mul_of_pos_right hs hl
    simp only [clockOf, hs, ht, if_true, if_false]; omega

/-! ## The proved part -/

/-- Every well-formed record satisfies the partial statement. -/
theorem c32_partial {g : Genesis} (h : WFGenesis g) : PartialStatement g :=
  fun _ hb => ⟨relok_good h.1 hb, clock_step h hb, fun _ hst htb => clock_strict_mono h hst htb⟩

theorem c32_partial_mainnet : PartialStatement mainnet := c32_partial wf_mainnet
theorem c32_partial_preprod : PartialStatement preprod := c32_partial wf_preprod
theorem c32_partial_preview : PartialStatement preview := c32_partial wf_preview

/-- preview has no Byron era: the property holds at full strength -/
theorem c32_full_preview : FullStatement preview :=
  fun slot hb =>
    let p := c32_partial wf_preview slot hb
    ⟨p.1 (Or.inl (Nat.zero_le slot)), p.2⟩

/-- a record without Byron-era slots satisfies the full statement -/
theorem c32_full_of_no_byron {g : Genesis} (h : WFGenesis g) (h0 : g.shelleyKnownSlot = 0) :
    FullStatement g :=
  fun slot hb =>
    let p := c32_partial h slot hb
    ⟨p.1 (Or.inl (by omega)), p.2⟩

/-- legacy testnet: conversions on the good region; clock laws inside each era -/
theorem c32_partial_testnet :
    ∀ slot, slot < slotBound →
      (GoodSlot testnet slot → RelOK testnet slot) ∧
      (slot + 1 ≠ testnet.shelleyKnownSlot → ClockStep testnet slot) ∧
      ∀ t, slot < t → t < slotBound →
        (t < testnet.shelleyKnownSlot ∨ testnet.shelleyKnownSlot ≤ slot) → ClockMono testnet slot t :=
  fun _ hb => ⟨relok_good wf_arith_testnet hb, clock_step_within_era wf_arith_testnet hb,
    fun _ hst htb hera => clock_mono_within_era wf_arith_testnet hst htb hera⟩

/-- the finding is exactly the complement of the good region: on a well-formed record the full
    statement fails at a slot iff it is a Byron-era slot with `s % epoch_seconds ≥ epoch_slots` -/
theorem relok_iff_good {g : Genesis} (h : WFArith g) {slot : Nat} (hb : slot < slotBound) :
    RelOK g slot ↔ GoodSlot g slot := by
  constructor
  · intro hr
    by_cases hs : slot < g.shelleyKnownSlot
    · exact Or.inr ((byron_relok_iff h hs).1 hr)
    · exact Or.inl (by omega)
  · exact relok_good h hb

/-! ## Non-vacuity -/
example : absoluteSlotToRelative mainnet 4492800 = some (208, 0) := by decide
example : absoluteSlotToRelative mainnet 54605026 = some (324, 226) := by decide
example : relativeSlotToAbsolute mainnet 324 226 = some 54605026 := by decide
example : RelOK mainnet 54605026 := by decide
example : RelOK mainnet 21599 := by decide
example : RelOK mainnet 432000 := by decide           -- Byron slot ≥ one epoch inside the good region
example : GoodSlot mainnet 432000 ∧ ¬ GoodSlot mainnet 21600 := by decide
example : ClockStep mainnet 4492799 ∧ ClockStep mainnet 4492800 := by decide
example : slotToWallclock mainnet 4492799 = some 1596059071 := by decide
example : ClockMono preprod 86399 86400 := by decide
example : slotToWallclock mainnet (2 ^ 64 - 1) = none := by decide   -- `+` overflow panics
example : slotLength mainnet 0 = 20 ∧ slotLength mainnet 4492800 = 1 ∧
    epochSize mainnet 0 = 21600 ∧ epochSize mainnet 4492800 = 432000 := by decide

end PallasVerif.Props.C32
