import PallasVerif.Proofs.NetMsg
import PallasVerif.Proofs.NetSkipFull
import PallasVerif.Gen.MsgLabels
/-!
# C22 — Mini-protocol messages round-trip as single well-formed CBOR items

For every mini-protocol message type of both network stacks (`Model/NetMsg.lean`: encoder = the
tree of `minicbor::Encoder` calls with the code's own labels and declared lengths, decoder = the
hand-written decoder transcribed on a byte-level model of `minicbor::Decoder`) and **every**
representable message value `m` (unbounded lists, byte strings and payloads; `valid` = the ranges
of the Rust field types + the representable field combinations of the property):

* `Good`: the encoder succeeds with a tree `e` such that
  - every declared container length equals the number of items that follow (`e.lensOk`),
  - the bytes are exactly one well-formed data item for the strict generic parser
    (`isSingleItem e.encode`, i.e. `parseItem` consumes them completely), and
  - the decoder reads the bytes back to `m` itself.

**Partial**: the local-tx-submission reject reason is an opaque item here; the type pallas really
uses (`TxValidationError`) is not modelled and its *encoders* violate the property on the unchanged
tree (`localtxsubmission_partial`, `txvalidationerror_reencoding_not_an_item`, known findings).

Opaque `AnyCbor` payloads (local-state query/result, opaque reject reasons, Leios bodies / votes /
transactions) are arbitrary byte strings accepted by `okAny`: exactly one well-formed item
(`isSingleItem`) whose text strings are UTF-8. `Decoder::skip` (the counting / stack loop of
minicbor, which `AnyCbor::decode` relies on) is proved to go over exactly such an item, indefinite
arrays and maps at any depth included (`Proofs/NetSkipFull.lean`, `skip_exact`). The UTF-8 clause is
not an artefact: `skip` validates text, so an `AnyCbor` holding a text string that is not UTF-8 can
be encoded but not decoded back (`anycbor_invalid_utf8_is_rejected`).

`Gen/MsgLabels.lean` is regenerated from the Rust sources on every run (label and declared arity of
every `e.array(n)?.u16(k)?` arm of both stacks); `labels_match_*` compare it with the labels and
arities of this model by `decide`.
-/
namespace PallasVerif.Props.C22
open PallasVerif.Cbor PallasVerif.NetCodec PallasVerif.NetMsg

/-- the property for one message value -/
def Good {α : Type} (enc : α → Option E) (dec : Dec α) (a : α) : Prop :=
  ∃ e, enc a = some e ∧ e.lensOk = true ∧ isSingleItem e.encode = true ∧ dec e.encode = .ok a []

theorem good_of_specO {α : Type} {enc : α → Option E} {dec : Dec α} {a : α} (h : SpecO enc dec a) : Good enc dec a := by
  obtain ⟨e, he, hok, hdec⟩ := h
  exact ⟨e, he, E.lensOk_of_ok e hok, E.single e hok, by simpa using hdec []⟩

theorem good_of_spec {α : Type} {enc : α → E} {dec : Dec α} {a : α} (h : Spec enc dec a) : Good (fun x => some (enc x)) dec a :=
  good_of_specO ⟨_, rfl, h.1, h.2⟩

/-- opaque payloads the theorems cover: any one well-formed item with UTF-8 text (and shorter than
    `2^62` bytes, as every slice is) -/
def okAny (bs : Bytes) : Bool := isSingleItem bs && utf8Ok (leafItem bs) && decide (bs.length < 2 ^ 62)

theorem okAny_ok : AnyOk okAny := by
  intro bs h
  simp only [okAny, Bool.and_eq_true, decide_eq_true_eq] at h
  obtain ⟨⟨h1, h2⟩, h3⟩ := h
  refine ⟨h1, ?_⟩
  obtain ⟨w, e⟩ := leafItem_spec bs h1
  rw [e] at h3 ⊢
  exact skip_exact _ w h2 h3

/-! ## the property, per message type (both stacks share the codecs; `portMax` is the only difference) -/

theorem handshake_n2n (m : Handshake.Msg N2NData) (h : m.valid N2NData.valid = true) :
    Good (fun m => some (Handshake.Msg.enc N2NData.enc m)) (Handshake.Msg.dec N2NData.dec) m :=
  good_of_spec (Handshake.Msg.spec _ _ _ N2NData.spec m h)

theorem handshake_n2c (m : Handshake.Msg N2CData) (h : m.valid N2CData.valid = true) :
    Good (fun m => some (Handshake.Msg.enc N2CData.enc m)) (Handshake.Msg.dec N2CData.dec) m :=
  good_of_spec (Handshake.Msg.spec _ _ _ N2CData.spec m h)

theorem chainsync_headers (m : ChainSync.Msg HeaderContent) (h : m.valid HeaderContent.valid = true) :
    Good (ChainSync.Msg.enc HeaderContent.enc) (ChainSync.Msg.dec HeaderContent.dec) m :=
  good_of_specO (ChainSync.Msg.spec _ _ _ HeaderContent.spec m h)

theorem chainsync_blocks (m : ChainSync.Msg Bytes) (h : m.valid (fun b => lt64 b.length) = true) :
    Good (ChainSync.Msg.enc blockContentEnc) (ChainSync.Msg.dec blockContentDec) m :=
  good_of_specO (ChainSync.Msg.spec _ _ _ blockContent_spec m h)

theorem chainsync_skipped (m : ChainSync.Msg Unit) (h : m.valid (fun _ => true) = true) :
    Good (ChainSync.Msg.enc skippedEnc) (ChainSync.Msg.dec skippedDec) m :=
  good_of_specO (ChainSync.Msg.spec _ _ _ (fun u _ => skipped_spec u) m h)

theorem blockfetch (m : BlockFetch.Msg) (h : m.valid = true) :
    Good (fun m => some (BlockFetch.Msg.enc m)) BlockFetch.Msg.dec m :=
  good_of_spec (BlockFetch.Msg.spec m h)

theorem txsubmission (m : TxSubmission.Msg) (h : m.valid = true) :
    Good (fun m => some (TxSubmission.Msg.enc m)) TxSubmission.Msg.dec m :=
  good_of_spec (TxSubmission.Msg.spec m h)

theorem keepalive (m : KeepAlive.Msg) (h : m.valid = true) :
    Good (fun m => some (KeepAlive.Msg.enc m)) KeepAlive.Msg.dec m :=
  good_of_spec (KeepAlive.Msg.spec m h)

/-- pallas-network: `Port = u32` -/
theorem peersharing_n1 (m : PeerSharing.Msg) (h : m.valid U32MAX = true) :
    Good (fun m => some (PeerSharing.Msg.enc m)) (PeerSharing.Msg.dec U32MAX) m :=
  good_of_spec (PeerSharing.Msg.spec U32MAX (by decide) m h)

/-- pallas-network2: `Port = u16` -/
theorem peersharing_n2 (m : PeerSharing.Msg) (h : m.valid U16MAX = true) :
    Good (fun m => some (PeerSharing.Msg.enc m)) (PeerSharing.Msg.dec U16MAX) m :=
  good_of_spec (PeerSharing.Msg.spec U16MAX (by decide) m h)

theorem txmonitor (m : TxMonitor.Msg) (h : m.valid = true) :
    Good (fun m => some (TxMonitor.Msg.enc m)) TxMonitor.Msg.dec m := by
  obtain ⟨hok, hdec⟩ := TxMonitor.Msg.spec m h
  exact ⟨_, rfl, E.lensOk_of_ok _ hok, E.single _ hok, by simpa using hdec [] (fun _ => rfl)⟩

theorem localstate (m : LocalState.Msg) (h : m.valid okAny = true) :
    Good (fun m => some (LocalState.Msg.enc m)) LocalState.Msg.dec m :=
  good_of_spec (LocalState.Msg.spec okAny okAny_ok m h)

/-- **full statement for local-tx-submission**: the envelope `Message<Tx, Reject>` is `Good` for every
    transaction / reject codec that is itself a faithful pair (`Spec`). -/
def FullStatement_localtxsubmission (Tx Rej : Type) (encTx : Tx → E) (decTx : Dec Tx) (vTx : Tx → Bool)
    (encRej : Rej → E) (decRej : Dec Rej) (vRej : Rej → Bool) (ofString : Bytes → Rej) : Prop :=
  ∀ m : LocalTx.Msg Tx Rej, m.valid vTx vRej = true →
    Good (fun m => some (LocalTx.Msg.enc encTx encRej m)) (LocalTx.Msg.dec decTx decRej ofString) m

theorem localtxsubmission_envelope {Tx Rej : Type} (encTx : Tx → E) (decTx : Dec Tx) (vTx : Tx → Bool)
    (encRej : Rej → E) (decRej : Dec Rej) (vRej : Rej → Bool) (ofString : Bytes → Rej)
    (hTx : ∀ t, vTx t = true → Spec encTx decTx t) (hRej : ∀ x, vRej x = true → Spec encRej decRej x) :
    FullStatement_localtxsubmission Tx Rej encTx decTx vTx encRej decRej vRej ofString :=
  fun m h => good_of_spec (LocalTx.Msg.spec _ _ _ _ _ _ _ hTx hRej m h)

/-- node-to-client instance, **partial**: the reject reason is an opaque well-formed item. For the
    reject type pallas really uses (`TxValidationError`, not modelled) the hypothesis `hRej` of
    `localtxsubmission_envelope` is *false* on the unchanged tree — see the witnesses below and
    known_findings.d/C22.json (`C22-txvalidationerror-*`). -/
theorem localtxsubmission_partial (m : LocalTx.Msg EraTx OpaqueReject) (h : m.valid EraTx.valid (OpaqueReject.valid okAny) = true) :
    Good (fun m => some (LocalTx.Msg.enc EraTx.enc OpaqueReject.enc m)) (LocalTx.Msg.dec EraTx.dec OpaqueReject.dec .text) m :=
  localtxsubmission_envelope _ _ _ _ _ _ _ EraTx.spec (OpaqueReject.spec okAny okAny_ok) m h

/-- witness (reject reason 51 of the repo's tests, decoded and re-encoded by pallas as
    `Message<EraTx, TxValidationError>`): an inner encoder declares `array(2)` + label 2 where the
    decoder reads `array(3)` + label 3 with two fields — the bytes are not one CBOR item. -/
theorem txvalidationerror_reencoding_not_an_item :
    isSingleItem [0x82, 0x02, 0x81, 0x82, 0x06, 0x82, 0x82, 0x07, 0x61, 0x3c, 0x82, 0x02, 0x82, 0x01, 0x82, 0x02,
      0x82, 0x02, 0x1a, 0x00, 0x07, 0xaf, 0x38, 0x1a, 0x00, 0x06, 0x28, 0x0e] = false := by decide

/-- DMQ local message submission = the same envelope over `DmqMsg` / `DmqMsgValidationError` -/
theorem localmsgsubmission (m : LocalTx.Msg DmqMsg DmqReject) (h : m.valid DmqMsg.valid DmqReject.valid = true) :
    Good (fun m => some (LocalTx.Msg.enc DmqMsg.enc DmqReject.enc m)) (LocalTx.Msg.dec DmqMsg.dec DmqReject.dec .other) m :=
  good_of_spec (LocalTx.Msg.spec _ _ _ _ _ _ _ DmqMsg.spec DmqReject.spec m h)

theorem localmsgnotification (m : LocalMsgNotification.Msg) (h : m.valid = true) :
    Good (fun m => some (LocalMsgNotification.Msg.enc m)) LocalMsgNotification.Msg.dec m :=
  good_of_spec (LocalMsgNotification.Msg.spec m h)

theorem leiosnotify (m : LeiosNotify.Msg) (h : m.valid okAny = true) :
    Good (fun m => some (LeiosNotify.Msg.enc m)) LeiosNotify.Msg.dec m :=
  good_of_spec (LeiosNotify.Msg.spec okAny okAny_ok m h)

theorem leiosfetch (m : LeiosFetch.Msg) (h : m.valid okAny = true) :
    Good (fun m => some (LeiosFetch.Msg.enc m)) LeiosFetch.Msg.dec m :=
  good_of_spec (LeiosFetch.Msg.spec okAny okAny_ok m h)

/-- `declared_len_matches`, spelled out: whatever a message is, the strict parser sees every
    container exactly as long as the encoder declared it (corollary of `Good`). -/
theorem declared_len_matches {α : Type} (enc : α → Option E) (dec : Dec α) (a : α) (h : Good enc dec a) :
    ∃ e, enc a = some e ∧ e.lensOk = true ∧ ∃ i : Item, i.wf = true ∧ e.encode = i.encode := by
  obtain ⟨e, he, hl, hs, _⟩ := h
  exact ⟨e, he, hl, (isSingleItem_iff _).mp hs⟩

/-- a payload that is a well-formed item but holds a non-UTF-8 text string: `skip` (hence
    `AnyCbor::decode`) rejects it, so it cannot round-trip — the reason for the UTF-8 clause of `okAny` -/
theorem anycbor_invalid_utf8_is_rejected : isSingleItem [0x61, 0xff] = true ∧ anyCbor [0x61, 0xff] = .err := by decide

/-! ## the two encoders the unchanged tree got wrong (both repaired; kept as regression witnesses) -/

/-- `PeerAddress::V6` used to declare `array(8)` for its six items: not an item for a strict parser -/
theorem v6_array8_is_not_an_item :
    isSingleItem [0x88, 0x01, 0x1a, 0x20, 0x01, 0x0d, 0xb8, 0x00, 0x00, 0x01, 0x19, 0x0b, 0xb9] = false := by decide

/-- the same address as the repaired encoder writes it -/
theorem v6_array6_is_an_item :
    (PeerAddress.enc (.v6 0x20010db8000000000000000000000001 3001)).encode =
      [0x86, 0x01, 0x1a, 0x20, 0x01, 0x0d, 0xb8, 0x00, 0x00, 0x01, 0x19, 0x0b, 0xb9] := by decide

/-- `ReplyMessagesBlocking` used to declare `array(3)` for label + list -/
theorem replyBlocking_array3_is_not_an_item : isSingleItem [0x83, 0x02, 0x9f, 0xff] = false := by decide

/-! ## the read-ahead of tx-monitor `ResponseNextTx(None)` (not a C22 failure, noted for C21) -/

theorem txmonitor_none_depends_on_what_follows :
    TxMonitor.Msg.dec ((TxMonitor.Msg.enc (.responseNextTx none)).encode ++ [0x81, 0x05]) ≠ .ok (.responseNextTx none) [0x81, 0x05] :=
  TxMonitor.responseNextTx_none_reads_ahead

/-! ## Tie A: labels and declared arities extracted from the Rust sources -/

/-- (label, declared arity) of the outer array of an encoding -/
def labelArity : E → Option (Nat × Nat)
  | .arr n (.uint k :: _) => some (k, n)
  | _ => none

def la {α : Type} (enc : α → E) (ms : List α) : List (Nat × Nat) := ms.filterMap fun m => labelArity (enc m)
def laO {α : Type} (enc : α → Option E) (ms : List α) : List (Nat × Nat) := ms.filterMap fun m => (enc m).bind labelArity

def pO : Point := .origin
def tO : Tip := ⟨.origin, 0⟩

/-- one representative per encoder arm, in source order of the `match` -/
def modelTable : List (String × List (Nat × Nat)) := [
  ("blockfetch", la BlockFetch.Msg.enc [.requestRange pO pO, .clientDone, .startBatch, .noBlocks, .block [], .batchDone]),
  ("chainsync", laO (ChainSync.Msg.enc blockContentEnc)
      [.requestNext, .awaitReply, .rollForward [] tO, .rollBackward pO tO, .findIntersect [], .intersectFound pO tO, .intersectNotFound tO, .done]),
  ("handshake", la (Handshake.Msg.enc N2CData.enc) [.propose [], .accept 0 ⟨0, none⟩, .refuse (.refused 0 []), .queryReply []]),
  ("refusereason", la RefuseReason.enc [.versionMismatch [], .handshakeDecodeError 0 [], .refused 0 []]),
  ("keepalive", la KeepAlive.Msg.enc [.keepAlive 0, .responseKeepAlive 0, .done]),
  ("peeraddress", la PeerAddress.enc [.v4 0 0, .v6 0 0]),
  ("peersharing", la PeerSharing.Msg.enc [.shareRequest 0, .sharePeers [], .done]),
  ("txsubmission", la TxSubmission.Msg.enc [.init, .requestTxIds false 0 0, .replyTxIds [], .requestTxs [], .replyTxs [], .done]),
  ("txmonitor", la TxMonitor.Msg.enc [.done, .acquire, .acquired 0, .release, .awaitAcquire, .requestNextTx, .responseNextTx none,
      .responseNextTx (some (0, [])), .requestHasTx [], .responseHasTx false, .requestSizeAndCapacity, .responseSizeAndCapacity 0 0 0]),
  ("localstate", la LocalState.Msg.enc [.acquire (some pO), .acquire none, .acquired, .failure .pointTooOld, .query [], .result [],
      .reAcquire (some pO), .reAcquire none, .release, .done]),
  ("localtxsubmission", la (LocalTx.Msg.enc EraTx.enc OpaqueReject.enc) [.submitTx ⟨0, []⟩, .acceptTx, .rejectTx (.cbor []), .done]),
  ("localmsgnotification", la LocalMsgNotification.Msg.enc [.requestNonBlocking, .replyNonBlocking [] false, .requestBlocking, .replyBlocking [], .clientDone]),
  ("dmqrejectreason", la DmqReject.enc [.invalid [], .alreadyReceived, .expired, .other []]),
  ("leiosnotify", la LeiosNotify.Msg.enc [.requestNext, .blockAnnouncement [], .blockOffer pO 0, .blockTxsOffer pO, .votes [], .done]),
  ("leiosfetch", la LeiosFetch.Msg.enc [.blockRequest pO, .block [], .blockTxsRequest pO [], .blockTxs pO [] [], .done])]

def lookup (name : String) (t : List (String × List (Nat × Nat))) : Option (List (Nat × Nat)) :=
  (t.find? (·.1 = name)).map (·.2)

/-- every extracted encoder (both crates) has the labels and declared arities of the model -/
def tablesAgree : Bool :=
  Gen.MsgLabels.extracted.all fun row => lookup row.2.1 modelTable == some row.2.2

theorem labels_match_sources : tablesAgree = true := by decide

/-- the translator classified every `e.array(..)` arm it found in the codec files -/
theorem translator_no_unknowns : Gen.MsgLabels.unknowns = [] := by decide

/-- and it found all the encoders the model covers (fail closed on a missing file / renamed enum) -/
theorem translator_found_all : Gen.MsgLabels.extracted.length = Gen.MsgLabels.expectedEncoders := by decide

/-! ## non-vacuity: the hypotheses have non-trivial inhabitants -/

example : (ChainSync.Msg.rollForward (⟨0, some (1, 2), [0x82, 0x01]⟩ : HeaderContent) ⟨.specific 7 [0xaa, 0xbb], 3⟩).valid HeaderContent.valid = true := by decide
example : (ChainSync.Msg.findIntersect [.origin, .specific 18446744073709551615 [1, 2, 3]] : ChainSync.Msg Bytes).valid (fun b => lt64 b.length) = true := by decide
example : (Handshake.Msg.propose [(7, (⟨764824073, true, none, none⟩ : N2NData)), (13, ⟨764824073, false, some 1, some false⟩)]).valid N2NData.valid = true := by decide
example : (Handshake.Msg.refuse (.refused 13 [0xce, 0xbb]) : Handshake.Msg N2CData).valid N2CData.valid = true := by decide
example : (PeerSharing.Msg.sharePeers [.v6 0x20010db8000000000000000000000001 3001, .v4 0x7f000001 65535]).valid U16MAX = true := by decide
example : (TxSubmission.Msg.replyTxIds [⟨⟨6, [1, 2, 3]⟩, 4294967295⟩]).valid = true := by decide
example : (LocalState.Msg.query [0x82, 0x00, 0x81, 0x18, 0x2a]).valid okAny = true := by decide
/-- indefinite containers nested in definite ones and vice versa, indefinite strings, tags -/
example : (LocalState.Msg.result [0x9f, 0x82, 0x01, 0x9f, 0xff, 0xbf, 0x61, 0x61, 0x5f, 0x41, 0x00, 0xff, 0xff, 0xc1, 0x83, 0x9f, 0xff, 0x01, 0x02, 0xff]).valid okAny = true := by decide
example : (LeiosFetch.Msg.blockTxs (.specific 5 [9]) [(0, 18446744073709551615), (3, 1)] [[0xa1, 0x01, 0x61, 0x61], [0xd8, 0x18, 0x41, 0x00]]).valid okAny = true := by decide
example : (LocalMsgNotification.Msg.replyBlocking [⟨[1], ⟨[2], 3, 4⟩, [5], ⟨[6], 7, 8, [9]⟩, [10]⟩]).valid = true := by decide
/-- an unrepresentable combination is excluded, not silently accepted -/
example : (⟨1, true, some 1, none⟩ : N2NData).valid = false := by decide

end PallasVerif.Props.C22
