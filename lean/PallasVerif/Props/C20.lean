import PallasVerif.Model.Mux
import PallasVerif.Gen.Consts
/-!
# C20 — The multiplexer delivers each protocol's chunks in order, exactly once

`Model/Mux.lean`: segment framing (header bytes, `write_segment`, `read_segment`) and a labelled
transition system for a connected pair of plexers (per direction: muxer queue → bearer bytes →
demuxer table → per-protocol queues; `sent` / `delivered` are history variables).

Theorems (all for unbounded action lists, i.e. every interleaving of senders, mux / demux ticks and
receivers, and every chunk size `0..65535`):

* `header_roundtrip`, `read_write_segment`, `frames_parse` — framing;
* `inv_run` — the invariant "delivered ++ queued ++ on the wire ++ waiting in the muxer = sent", per
  demuxer key, holds in every reachable state of a direction;
* `chan_in_order_exactly_once`, `chan_quiescent_complete`, `chan_delivered_subscribed` — its consequences;
* `peer_key`, `no_cross` — the direction-bit rule pairs a client with exactly the server of the same
  protocol on the other side (protocol ids `< 0x8000`);
* `in_order_exactly_once`, `quiescent_complete`, `no_leak` — the property for agents of a `Pair`.
* `len_overflow_breaks_framing` — why `≤ 65535` is a hypothesis: `payload.len() as u16` truncates.

Not modelled (runtime behaviour): tokio task scheduling and fairness, bounded mpsc capacity (only disables
actions), partial socket reads inside `read_exact` (ticks are atomic), I/O errors.
-/
namespace PallasVerif.Props.C20
open PallasVerif.Mux

/-! ## framing -/

theorem u8_lo (n : Nat) : (UInt8.ofNat n).toNat = n % 256 := by simp

theorem rd16_be16 (n : Nat) (h : n < 65536) (r : Bytes) :
    ∃ a b, be16 n ++ r = a :: b :: r ∧ rd16 a b = n := by
  refine ⟨_, _, rfl, ?_⟩
  simp only [rd16, u8_lo]; omega

theorem rd32_be32 (n : Nat) (h : n < 4294967296) (r : Bytes) :
    ∃ a b c d, be32 n ++ r = a :: b :: c :: d :: r ∧ rd32 a b c d = n := by
  refine ⟨_, _, _, _, rfl, ?_⟩
  simp only [rd32, u8_lo]; omega

/-- header bytes decode to the header they encode -/
theorem header_roundtrip (h : Header) (ht : h.timestamp < 4294967296) (hl : h.payloadLen < 65536)
    (r : Bytes) : Header.decode (h.encode ++ r) = some h := by
  obtain ⟨ts, q, len⟩ := h
  simp only at ht hl
  have hq : q.toNat < 65536 := q.toNat_lt
  obtain ⟨a, b, c, d, e1, v1⟩ := rd32_be32 ts ht (be16 q.toNat ++ (be16 len ++ r))
  obtain ⟨e, f, e2, v2⟩ := rd16_be16 q.toNat hq (be16 len ++ r)
  obtain ⟨g, i, e3, v3⟩ := rd16_be16 len hl r
  simp only [Header.encode, List.append_assoc]
  rw [e1, e2, e3]
  simp only [Header.decode, v1, v2, v3, UInt16.ofNat_toNat]

theorem encode_length (h : Header) : h.encode.length = 8 := by
  simp [Header.encode, be32, be16]

/-- a written segment (payload within the segment maximum) is read back exactly, leaving the
    bytes that follow it -/
theorem read_write_segment (ts : Nat) (q : UInt16) (p : Bytes) (hp : p.length ≤ 65535)
    (rest : Bytes) : readSegment (writeSegment ts q p ++ rest) = some (q, p, rest) := by
  unfold readSegment writeSegment
  generalize hh : Header.mk (ts % 4294967296) q (p.length % 65536) = h
  have hlen := encode_length h
  have hd : Header.decode (h.encode ++ (p ++ rest)) = some h := by
    subst hh
    exact header_roundtrip _ (Nat.mod_lt _ (by decide)) (Nat.mod_lt _ (by decide)) _
  have hpl : h.payloadLen = p.length := by subst hh; simp only; omega
  have h1 : ¬ (h.encode ++ p ++ rest).length < HEADER_LEN := by
    simp [List.length_append, hlen, HEADER_LEN]
  have htake : (h.encode ++ p ++ rest).take HEADER_LEN = h.encode := by
    rw [List.append_assoc]; exact List.take_left' hlen
  have hdrop : (h.encode ++ p ++ rest).drop HEADER_LEN = p ++ rest := by
    rw [List.append_assoc]; exact List.drop_left' hlen
  have hd' : Header.decode h.encode = some h := by
    have := header_roundtrip h (by subst hh; exact Nat.mod_lt _ (by decide))
      (by subst hh; exact Nat.mod_lt _ (by decide)) []
    simpa using this
  have hpr : h.protocol = q := by subst hh; rfl
  simp only [h1, if_false, htake, hd', hdrop, hpl, hpr]
  have h2 : ¬ (p ++ rest).length < p.length := by simp [List.length_append]
  simp only [h2, if_false, List.take_left' rfl, List.drop_left' rfl]

theorem readSegment_nil : readSegment [] = none := by
  simp [readSegment, HEADER_LEN]

/-- `payload.len() as u16`: a 65536-byte chunk is framed with length 0, so the reader returns an
    empty payload and treats the chunk's bytes as the next header — framing is lost. -/
theorem len_overflow_breaks_framing (ts : Nat) (q : UInt16) (p : Bytes) (hp : p.length = 65536)
    (rest : Bytes) : readSegment (writeSegment ts q p ++ rest) = some (q, [], p ++ rest) := by
  unfold readSegment writeSegment
  generalize hh : Header.mk (ts % 4294967296) q (p.length % 65536) = h
  have hlen := encode_length h
  have hpl : h.payloadLen = 0 := by subst hh; simp only; omega
  have h1 : ¬ (h.encode ++ p ++ rest).length < HEADER_LEN := by
    simp [List.length_append, hlen, HEADER_LEN]
  have htake : (h.encode ++ p ++ rest).take HEADER_LEN = h.encode := by
    rw [List.append_assoc]; exact List.take_left' hlen
  have hdrop : (h.encode ++ p ++ rest).drop HEADER_LEN = p ++ rest := by
    rw [List.append_assoc]; exact List.drop_left' hlen
  have hd' : Header.decode h.encode = some h := by
    have := header_roundtrip h (by subst hh; exact Nat.mod_lt _ (by decide))
      (by subst hh; exact Nat.mod_lt _ (by decide)) []
    simpa using this
  have hpr : h.protocol = q := by subst hh; rfl
  simp only [h1, if_false, htake, hd', hdrop, hpl, hpr]
  simp

/-- a segment in flight: timestamp, protocol, payload -/
abbrev Seg := Nat × UInt16 × Bytes

def framesOf (segs : List Seg) : Bytes := segs.flatMap fun s => writeSegment s.1 s.2.1 s.2.2

/-- repeatedly applying `read_segment` (fuel = number of segments) -/
def parseAll : Nat → Bytes → List (UInt16 × Bytes)
  | 0, _ => []
  | n + 1, w =>
    match readSegment w with
    | none => []
    | some (q, p, rest) => (q, p) :: parseAll n rest

/-- any sequence of segments within the maximum is parsed back to the same sequence -/
theorem frames_parse (segs : List Seg) (h : ∀ s ∈ segs, s.2.2.length ≤ 65535) :
    parseAll segs.length (framesOf segs) = segs.map fun s => (s.2.1, s.2.2) := by
  induction segs with
  | nil => rfl
  | cons s rest ih =>
    have hs := h s (List.mem_cons_self ..)
    simp only [framesOf, List.flatMap_cons, List.length_cons, parseAll, List.map_cons]
    rw [read_write_segment _ _ _ hs]
    simp only
    congr 1
    exact ih fun x hx => h x (List.mem_cons_of_mem _ hx)

/-! ## the invariant of one direction -/

/-- chunks of a list of (protocol, chunk) pairs that belong to protocol `q`, in order -/
def proj (q : UInt16) (l : List (UInt16 × Bytes)) : List Bytes :=
  l.filterMap fun x => if x.1 = q then some x.2 else none

def projS (q : UInt16) (l : List Seg) : List Bytes :=
  l.filterMap fun x => if x.2.1 = q then some x.2.2 else none

theorem proj_append (q : UInt16) (a b : List (UInt16 × Bytes)) :
    proj q (a ++ b) = proj q a ++ proj q b := by simp [proj, List.filterMap_append]

theorem projS_append (q : UInt16) (a b : List Seg) :
    projS q (a ++ b) = projS q a ++ projS q b := by simp [projS, List.filterMap_append]

theorem proj_single (q k : UInt16) (c : Bytes) :
    proj q [(k, c)] = if k = q then [c] else [] := by
  by_cases h : k = q <;> simp [proj, h]

theorem proj_cons (q k : UInt16) (c : Bytes) (l : List (UInt16 × Bytes)) :
    proj q ((k, c) :: l) = (if k = q then [c] else []) ++ proj q l := by
  by_cases h : k = q <;> simp [proj, h]

theorem projS_single (q : UInt16) (s : Seg) :
    projS q [s] = if s.2.1 = q then [s.2.2] else [] := by
  by_cases h : s.2.1 = q <;> simp [projS, h]

/-- congruence of `filterMap` on the members of the list -/
theorem filterMap_congr' {α β : Type} (f g : α → Option β) (l : List α)
    (h : ∀ x ∈ l, f x = g x) : l.filterMap f = l.filterMap g := by
  induction l with
  | nil => rfl
  | cons x xs ih =>
    simp only [List.filterMap_cons, h x (List.mem_cons_self ..)]
    rw [ih fun y hy => h y (List.mem_cons_of_mem _ hy)]

theorem projS_cons (q : UInt16) (s : Seg) (l : List Seg) :
    projS q (s :: l) = (if s.2.1 = q then [s.2.2] else []) ++ projS q l := by
  by_cases h : s.2.1 = q <;> simp [projS, h]

/-- "delivered ++ queued ++ on the wire ++ waiting in the muxer = sent", per subscribed key -/
def Inv (s : Chan) : Prop :=
  ∃ segs : List Seg,
    s.wire = framesOf segs ∧
    (∀ x ∈ segs, x.2.2.length ≤ 65535) ∧
    (∀ x ∈ s.ingress, x.2.length ≤ 65535) ∧
    (∀ x ∈ s.delivered, x.1 ∈ s.subs) ∧
    ∀ q ∈ s.subs,
      proj q s.delivered ++ s.queues q ++ projS q segs ++ proj q s.ingress = proj q s.sent

/-- chunk sizes up to the segment maximum -/
def ValidAct : Act → Prop
  | .enqueue _ c => c.length ≤ 65535
  | _ => True

theorem step_subs (s : Chan) (a : Act) : (s.step a).subs = s.subs := by
  cases a with
  | enqueue q c => rfl
  | muxTick ts => simp only [Chan.step]; split <;> rfl
  | demuxTick =>
    simp only [Chan.step]
    split
    · rfl
    · split <;> rfl
  | dequeue q =>
    simp only [Chan.step]
    split
    · split <;> rfl
    · rfl

theorem inv_init (subs : List UInt16) : Inv (Chan.init subs) :=
  ⟨[], rfl, by simp, by simp [Chan.init], by simp [Chan.init], by simp [Chan.init, proj, projS]⟩

theorem inv_step (s : Chan) (a : Act) (hi : Inv s) (hv : ValidAct a) : Inv (s.step a) := by
  obtain ⟨segs, hw, hsegs, hing, hdel, heq⟩ := hi
  cases a with
  | enqueue k c =>
    refine ⟨segs, hw, hsegs, ?_, hdel, ?_⟩
    · intro x hx
      simp only [Chan.step, List.mem_append, List.mem_singleton] at hx
      rcases hx with hx | hx
      · exact hing x hx
      · subst hx; exact hv
    · intro q hq
      simp only [Chan.step, proj_append, ← List.append_assoc, heq q hq]
  | muxTick ts =>
    simp only [Chan.step]
    split
    · exact ⟨segs, hw, hsegs, hing, hdel, heq⟩
    · rename_i k c rest hin
      refine ⟨segs ++ [(ts, k, c)], ?_, ?_, ?_, hdel, ?_⟩
      · simp [framesOf, List.flatMap_append, hw]
      · intro x hx
        simp only [List.mem_append, List.mem_singleton] at hx
        rcases hx with hx | hx
        · exact hsegs x hx
        · subst hx; exact hing (k, c) (by rw [hin]; exact List.mem_cons_self ..)
      · intro x hx; exact hing x (by rw [hin]; exact List.mem_cons_of_mem _ hx)
      · intro q hq
        have := heq q hq
        rw [hin, proj_cons] at this
        rw [← this, projS_append, projS_single]
        simp only [List.append_assoc]
  | demuxTick =>
    simp only [Chan.step]
    cases segs with
    | nil =>
      have : s.wire = [] := by simpa [framesOf] using hw
      rw [this, readSegment_nil]
      exact ⟨[], by simpa [framesOf] using this, by simp, hing, hdel, heq⟩
    | cons sg segs' =>
      have hsg := hsegs sg (List.mem_cons_self ..)
      have hw' : s.wire = writeSegment sg.1 sg.2.1 sg.2.2 ++ framesOf segs' := by
        simpa [framesOf] using hw
      rw [hw', read_write_segment _ _ _ hsg]
      simp only
      have hsegs' : ∀ x ∈ segs', x.2.2.length ≤ 65535 :=
        fun x hx => hsegs x (List.mem_cons_of_mem _ hx)
      split
      · rename_i hsub
        refine ⟨segs', rfl, hsegs', hing, hdel, ?_⟩
        intro q hq
        have := heq q hq
        rw [projS_cons] at this
        by_cases hk : sg.2.1 = q
        · subst hk
          simp only [setQueue, if_true] at this ⊢
          rw [← this]; simp only [List.append_assoc, List.singleton_append]
        · have hk' : ¬ q = sg.2.1 := fun e => hk e.symm
          simp only [setQueue, hk, hk', if_false, List.nil_append] at this ⊢
          exact this
      · rename_i hsub
        refine ⟨segs', rfl, hsegs', hing, hdel, ?_⟩
        intro q hq
        have := heq q hq
        rw [projS_cons] at this
        have hk : ¬ sg.2.1 = q := fun e => hsub (e ▸ hq)
        simp only [hk, if_false, List.nil_append] at this
        exact this
  | dequeue k =>
    simp only [Chan.step]
    split
    · rename_i hk
      split
      · exact ⟨segs, hw, hsegs, hing, hdel, heq⟩
      · rename_i c rest hq0
        refine ⟨segs, hw, hsegs, hing, ?_, ?_⟩
        · intro x hx
          simp only [List.mem_append, List.mem_singleton] at hx
          rcases hx with hx | hx
          · exact hdel x hx
          · subst hx; exact hk
        · intro q hq
          have := heq q hq
          by_cases hkq : k = q
          · subst hkq
            rw [hq0] at this
            simp only [setQueue, if_true, proj_append, proj_single]
            rw [← this]; simp only [List.append_assoc, List.singleton_append]
          · have hkq' : ¬ q = k := fun e => hkq e.symm
            simp only [setQueue, hkq', if_false, proj_append, proj_single, hkq, List.append_nil]
            exact this
    · exact ⟨segs, hw, hsegs, hing, hdel, heq⟩

theorem run_subs (s : Chan) (acts : List Act) : (s.run acts).subs = s.subs := by
  induction acts generalizing s with
  | nil => rfl
  | cons a as ih => simp only [Chan.run, List.foldl_cons] at *; rw [ih, step_subs]

/-- the invariant holds in every reachable state, whatever the schedule -/
theorem inv_run (s : Chan) (acts : List Act) (hi : Inv s) (hv : ∀ a ∈ acts, ValidAct a) :
    Inv (s.run acts) := by
  induction acts generalizing s with
  | nil => exact hi
  | cons a as ih =>
    simp only [Chan.run, List.foldl_cons]
    exact ih _ (inv_step s a hi (hv a (List.mem_cons_self ..)))
      fun b hb => hv b (List.mem_cons_of_mem _ hb)

/-- in order, exactly once: what was dequeued under a key is a prefix of what was enqueued under it -/
theorem chan_in_order_exactly_once (subs : List UInt16) (acts : List Act)
    (hv : ∀ a ∈ acts, ValidAct a) (q : UInt16) (hq : q ∈ subs) :
    proj q ((Chan.init subs).run acts).delivered <+: proj q ((Chan.init subs).run acts).sent := by
  obtain ⟨segs, _, _, _, _, heq⟩ := inv_run _ acts (inv_init subs) hv
  have := heq q (by rw [run_subs]; exact hq)
  rw [← this, List.append_assoc, List.append_assoc]
  exact List.prefix_append _ _

/-- nothing is ever delivered under a key nobody subscribed -/
theorem chan_delivered_subscribed (subs : List UInt16) (acts : List Act)
    (hv : ∀ a ∈ acts, ValidAct a) :
    ∀ x ∈ ((Chan.init subs).run acts).delivered, x.1 ∈ subs := by
  obtain ⟨segs, _, _, _, hdel, _⟩ := inv_run _ acts (inv_init subs) hv
  intro x hx
  have := hdel x hx
  rwa [run_subs] at this

def Quiescent (s : Chan) : Prop := s.ingress = [] ∧ s.wire = [] ∧ ∀ q ∈ s.subs, s.queues q = []

theorem framesOf_eq_nil (segs : List Seg) (h : framesOf segs = []) : segs = [] := by
  cases segs with
  | nil => rfl
  | cons s r =>
    have : (framesOf (s :: r)).length ≥ 8 := by
      simp only [framesOf, List.flatMap_cons, List.length_append, writeSegment, encode_length]
      omega
    rw [h] at this; simp at this

/-- when nothing is in flight, everything sent under a subscribed key has been delivered -/
theorem chan_quiescent_complete (subs : List UInt16) (acts : List Act)
    (hv : ∀ a ∈ acts, ValidAct a) (hq : Quiescent ((Chan.init subs).run acts)) (q : UInt16)
    (hs : q ∈ subs) :
    proj q ((Chan.init subs).run acts).delivered = proj q ((Chan.init subs).run acts).sent := by
  obtain ⟨segs, hw, _, _, _, heq⟩ := inv_run _ acts (inv_init subs) hv
  obtain ⟨h1, h2, h3⟩ := hq
  have hs' : q ∈ ((Chan.init subs).run acts).subs := by rw [run_subs]; exact hs
  have := heq q hs'
  have hsegs : segs = [] := framesOf_eq_nil segs (by rw [← hw, h2])
  rw [h1, h3 q hs', hsegs] at this
  simpa [proj, projS] using this

/-! ## direction bit -/

theorem xor_xor (p : UInt16) : (p ^^^ 0x8000) ^^^ 0x8000 = p := by
  rw [UInt16.xor_assoc, UInt16.xor_self, UInt16.xor_zero]

/-- an agent's chunks travel under exactly the key its peer (opposite role, same protocol) listens on -/
theorem peer_key (r : Role) (p : UInt16) : sendProto r p = recvKey r.flip p := by
  cases r <;> rfl

theorem bit15_of_lt (p : UInt16) (h : p < 0x8000) : p.toNat.testBit 15 = false :=
  Nat.testBit_lt_two_pow (by simpa [UInt16.lt_iff_toNat_lt] using h)

theorem bit15_xor (p : UInt16) (h : p < 0x8000) : (p ^^^ 0x8000).toNat.testBit 15 = true := by
  rw [UInt16.toNat_xor, Nat.testBit_xor, bit15_of_lt p h]
  decide

/-- for protocol ids below `0x8000` the wire protocol determines role and protocol: no other
    agent on the same side sends under the same id, and only the peer listens on it -/
theorem no_cross (r r' : Role) (p p' : UInt16) (hp : p < 0x8000) (hp' : p' < 0x8000)
    (h : sendProto r p = sendProto r' p') : r = r' ∧ p = p' := by
  cases r <;> cases r' <;> simp only [sendProto] at h
  · exact ⟨rfl, h⟩
  · have a := bit15_of_lt p hp
    have b := bit15_xor p' hp'
    rw [h] at a; rw [a] at b; cases b
  · have a := bit15_of_lt p' hp'
    have b := bit15_xor p hp
    rw [← h] at a; rw [a] at b; cases b
  · refine ⟨rfl, ?_⟩
    have := congrArg (· ^^^ 0x8000) h
    simpa [xor_xor] using this

theorem recvKey_eq_send (r r' : Role) (p p' : UInt16) (hp : p < 0x8000) (hp' : p' < 0x8000)
    (h : recvKey r' p' = sendProto r p) : r' = r.flip ∧ p' = p := by
  have e : recvKey r' p' = sendProto r'.flip p' := by cases r' <;> rfl
  rw [e] at h
  obtain ⟨h1, h2⟩ := no_cross _ _ _ _ hp' hp h
  constructor
  · cases r <;> cases r' <;> simp_all [Role.flip]
  · exact h2

/-! ## the connected pair -/

def IsPeer (a b : Agent) : Prop := b.side = !a.side ∧ b.role = a.role.flip ∧ b.proto = a.proto

/-- protocol ids leave the direction bit free; chunk sizes within the segment maximum -/
def PValid : PAct → Prop
  | .enqueue a c => a.proto < 0x8000 ∧ c.length ≤ 65535
  | _ => True

/-- what agent `a` enqueued, in order -/
def sentBy (a : Agent) (acts : List PAct) : List Bytes :=
  acts.filterMap fun
    | .enqueue a' c => if a' = a then some c else none
    | _ => none

/-- what agent `b` has dequeued so far (history variable of the direction it receives on) -/
def deliveredTo (b : Agent) (p : Pair) : List Bytes :=
  proj (recvKey b.role b.proto) (p.out (!b.side)).delivered

def toChanAct (side : Bool) : PAct → Option Act
  | .enqueue a c => if a.side = side then some (.enqueue (sendProto a.role a.proto) c) else none
  | .muxTick s ts => if s = side then some (.muxTick ts) else none
  | .demuxTick s => if (!s) = side then some .demuxTick else none
  | .dequeue a => if (!a.side) = side then some (.dequeue (recvKey a.role a.proto)) else none

theorem out_setOut_same (p : Pair) (s : Bool) (c : Chan) : (p.setOut s c).out s = c := by
  cases s <;> rfl

theorem out_setOut_other (p : Pair) (s : Bool) (c : Chan) : (p.setOut s c).out (!s) = p.out (!s) := by
  cases s <;> rfl

/-- each direction of the pair evolves as an independent `Chan` under the projected actions -/
theorem pair_out_step (p : Pair) (act : PAct) (side : Bool) :
    (p.step act).out side =
      match toChanAct side act with
      | some a => (p.out side).step a
      | none => p.out side := by
  cases act with
  | enqueue a c =>
    simp only [Pair.step, toChanAct]
    by_cases h : a.side = side
    · subst h; simp [out_setOut_same]
    · have : side = !a.side := by cases side <;> cases hs : a.side <;> simp_all
      subst this; simp [out_setOut_other]
  | muxTick s ts =>
    simp only [Pair.step, toChanAct]
    by_cases h : s = side
    · subst h; simp [out_setOut_same]
    · have : side = !s := by cases side <;> cases s <;> simp_all
      subst this; simp [out_setOut_other]
  | demuxTick s =>
    simp only [Pair.step, toChanAct]
    by_cases h : (!s) = side
    · subst h; simp [out_setOut_same]
    · have : side = !(!s) := by cases side <;> cases s <;> simp_all
      rw [this, out_setOut_other]; simp [h]
  | dequeue a =>
    simp only [Pair.step, toChanAct]
    by_cases h : (!a.side) = side
    · subst h; simp [out_setOut_same]
    · have : side = !(!a.side) := by cases side <;> cases hs : a.side <;> simp_all
      rw [this, out_setOut_other]; simp [h]

theorem pair_out_run (p : Pair) (acts : List PAct) (side : Bool) :
    (p.run acts).out side = (p.out side).run (acts.filterMap (toChanAct side)) := by
  induction acts generalizing p with
  | nil => rfl
  | cons act rest ih =>
    simp only [Pair.run, List.foldl_cons] at *
    rw [ih, pair_out_step]
    cases h : toChanAct side act with
    | none => simp [List.filterMap_cons, h]
    | some a => simp [List.filterMap_cons, h, Chan.run]

theorem valid_proj (acts : List PAct) (hv : ∀ a ∈ acts, PValid a) (side : Bool) :
    ∀ a ∈ acts.filterMap (toChanAct side), ValidAct a := by
  intro a ha
  obtain ⟨pa, hpa, he⟩ := List.mem_filterMap.1 ha
  have := hv pa hpa
  cases pa with
  | enqueue ag c =>
    simp only [toChanAct] at he
    split at he
    · cases he; exact this.2
    · cases he
  | muxTick s ts => simp only [toChanAct] at he; split at he <;> cases he; trivial
  | demuxTick s => simp only [toChanAct] at he; split at he <;> cases he; trivial
  | dequeue ag => simp only [toChanAct] at he; split at he <;> cases he; trivial

/-- history variable `sent` of a direction = the projected enqueue actions -/
theorem chan_sent (s : Chan) (acts : List Act) :
    (s.run acts).sent = s.sent ++ acts.filterMap fun
      | .enqueue q c => some (q, c)
      | _ => none := by
  induction acts generalizing s with
  | nil => simp [Chan.run]
  | cons a rest ih =>
    simp only [Chan.run, List.foldl_cons] at *
    rw [ih]
    cases a with
    | enqueue q c => simp [Chan.step, List.filterMap_cons]
    | muxTick ts => simp only [Chan.step]; split <;> simp [List.filterMap_cons]
    | demuxTick =>
      simp only [Chan.step]
      split
      · simp [List.filterMap_cons]
      · split <;> simp [List.filterMap_cons]
    | dequeue q =>
      simp only [Chan.step]
      split
      · split <;> simp [List.filterMap_cons]
      · simp [List.filterMap_cons]

/-- under the wire protocol of agent `a` (id `< 0x8000`), the sending direction carries exactly the
    chunks `a` enqueued -/
theorem sent_eq_sentBy (agents : List Agent) (acts : List PAct) (hv : ∀ x ∈ acts, PValid x)
    (a : Agent) (ha : a.proto < 0x8000) :
    proj (sendProto a.role a.proto) (((Pair.init agents).run acts).out a.side).sent =
      sentBy a acts := by
  rw [pair_out_run, chan_sent]
  have h0 : ((Pair.init agents).out a.side).sent = [] := by
    cases hs : a.side <;> simp [Pair.out, Pair.init, Chan.init]
  rw [h0, List.nil_append]
  unfold proj sentBy
  rw [List.filterMap_filterMap, List.filterMap_filterMap]
  apply filterMap_congr'
  intro act hact
  have hval := hv act hact
  cases act with
  | enqueue a' c =>
    by_cases hside : a'.side = a.side
    · by_cases heq : a' = a
      · subst heq; simp [toChanAct]
      · have hne : ¬ sendProto a'.role a'.proto = sendProto a.role a.proto := by
          intro e
          obtain ⟨h1, h2⟩ := no_cross _ _ _ _ hval.1 ha e
          apply heq
          cases a'; cases a; simp_all
        simp [toChanAct, hside, heq, hne]
    · have heq : ¬ a' = a := fun e => hside (e ▸ rfl)
      simp [toChanAct, hside, heq]
  | muxTick s ts => by_cases h : s = a.side <;> simp [toChanAct, h]
  | demuxTick s => by_cases h : (!s) = a.side <;> simp [toChanAct, h]
  | dequeue a' => by_cases h : (!a'.side) = a.side <;> simp [toChanAct, h]

theorem init_out_subs (agents : List Agent) (b : Agent) (hb : b ∈ agents) :
    recvKey b.role b.proto ∈ ((Pair.init agents).out (!b.side)).subs := by
  cases hs : b.side
  · simp only [Bool.not_false, Pair.out, if_true, Pair.init, Chan.init]
    exact List.mem_map.2 ⟨b, List.mem_filter.2 ⟨hb, by simp [hs]⟩, rfl⟩
  · simp only [Bool.not_true, Pair.out, Pair.init, Chan.init]
    exact List.mem_map.2 ⟨b, List.mem_filter.2 ⟨hb, by simp [hs]⟩, rfl⟩

/-- **The property.** For every set of agents, every interleaving `acts` of enqueues, mux / demux
    ticks and dequeues (protocol ids `< 0x8000`, chunks of `0..65535` bytes), and every agent `a`
    with a subscribed peer `b` (other side, opposite role, same protocol): what `b` has received
    is a prefix of what `a` enqueued — in order, each chunk once, nothing else. -/
theorem in_order_exactly_once (agents : List Agent) (acts : List PAct)
    (hv : ∀ x ∈ acts, PValid x) (a b : Agent) (ha : a.proto < 0x8000) (hb : b ∈ agents)
    (hp : IsPeer a b) :
    deliveredTo b ((Pair.init agents).run acts) <+: sentBy a acts := by
  obtain ⟨h1, h2, h3⟩ := hp
  have hkey : recvKey b.role b.proto = sendProto a.role a.proto := by
    rw [h2, h3, peer_key]
  have hside : (!b.side) = a.side := by rw [h1]; simp
  rw [← sent_eq_sentBy agents acts hv a ha]
  unfold deliveredTo
  rw [hkey, hside, pair_out_run]
  have hsub : sendProto a.role a.proto ∈ ((Pair.init agents).out a.side).subs := by
    rw [← hkey, ← hside]; exact init_out_subs agents b hb
  have hinit : (Pair.init agents).out a.side = Chan.init ((Pair.init agents).out a.side).subs := by
    cases hs : a.side <;> simp [Pair.out, Pair.init, Chan.init]
  rw [hinit]
  exact chan_in_order_exactly_once _ _ (valid_proj acts hv a.side) _ hsub

/-- when the sending direction is quiescent, the peer has received everything -/
theorem quiescent_complete (agents : List Agent) (acts : List PAct)
    (hv : ∀ x ∈ acts, PValid x) (a b : Agent) (ha : a.proto < 0x8000) (hb : b ∈ agents)
    (hp : IsPeer a b) (hq : Quiescent (((Pair.init agents).run acts).out a.side)) :
    deliveredTo b ((Pair.init agents).run acts) = sentBy a acts := by
  obtain ⟨h1, h2, h3⟩ := hp
  have hkey : recvKey b.role b.proto = sendProto a.role a.proto := by
    rw [h2, h3, peer_key]
  have hside : (!b.side) = a.side := by rw [h1]; simp
  rw [← sent_eq_sentBy agents acts hv a ha]
  unfold deliveredTo
  rw [hkey, hside]
  rw [pair_out_run] at hq ⊢
  have hsub : sendProto a.role a.proto ∈ ((Pair.init agents).out a.side).subs := by
    rw [← hkey, ← hside]; exact init_out_subs agents b hb
  have hinit : (Pair.init agents).out a.side = Chan.init ((Pair.init agents).out a.side).subs := by
    cases hs : a.side <;> simp [Pair.out, Pair.init, Chan.init]
  rw [hinit] at hq ⊢
  exact chan_quiescent_complete _ _ (valid_proj acts hv a.side) hq _ hsub

/-- chunks never leak to another protocol or role: whatever an agent `b` receives was enqueued by
    an agent on the other side with the opposite role and the same protocol -/
theorem no_leak (agents : List Agent) (acts : List PAct) (hv : ∀ x ∈ acts, PValid x)
    (b : Agent) (hbp : b.proto < 0x8000) (hb : b ∈ agents) (c : Bytes)
    (hc : c ∈ deliveredTo b ((Pair.init agents).run acts)) :
    c ∈ sentBy ⟨!b.side, b.role.flip, b.proto⟩ acts := by
  have hp : IsPeer ⟨!b.side, b.role.flip, b.proto⟩ b := by
    refine ⟨by simp, ?_, rfl⟩
    cases b.role <;> rfl
  exact (in_order_exactly_once agents acts hv ⟨!b.side, b.role.flip, b.proto⟩ b hbp hb hp).subset hc

/-! ## chunking of messages -/

theorem chunksOf_spec (n : Nat) (hn : 0 < n) : ∀ (fuel : Nat) (l : Bytes), l.length ≤ fuel →
    (chunksOf n fuel l).flatten = l ∧ ∀ c ∈ chunksOf n fuel l, c.length ≤ n ∧ c ≠ [] := by
  intro fuel
  induction fuel with
  | zero =>
    intro l hl
    have : l = [] := List.eq_nil_of_length_eq_zero (by omega)
    subst this; simp [chunksOf]
  | succ f ih =>
    intro l hl
    by_cases he : l.isEmpty = true
    · have : l = [] := List.isEmpty_iff.1 he
      subst this; simp [chunksOf]
    · have hne : l ≠ [] := fun e => he (List.isEmpty_iff.2 e)
      have hpos : 0 < l.length := List.length_pos_iff.2 hne
      have hd : (l.drop n).length ≤ f := by simp only [List.length_drop]; omega
      obtain ⟨h1, h2⟩ := ih (l.drop n) hd
      have he' : l.isEmpty = false := by simpa using he
      simp only [chunksOf, he', Bool.false_eq_true, if_false]
      refine ⟨by simp [h1], ?_⟩
      intro c hc
      simp only [List.mem_cons] at hc
      rcases hc with rfl | hc
      · refine ⟨by simp only [List.length_take]; omega, ?_⟩
        intro e
        have := congrArg List.length e
        simp only [List.length_take, List.length_nil] at this
        omega
      · exact h2 c hc

/-- `send_msg_chunks` cuts an encoded message into non-empty chunks within the segment maximum whose
    concatenation is the message: its `enqueue_chunk` calls satisfy `ValidAct`, and what the peer
    dequeues (by `in_order_exactly_once`) is a split of the encoding in the sense of C21 -/
theorem send_msg_chunks_spec (payload : Bytes) :
    (sendMsgChunks payload).flatten = payload ∧
      ∀ c ∈ sendMsgChunks payload, c.length ≤ 65535 ∧ c ≠ [] :=
  chunksOf_spec MAX_SEGMENT_PAYLOAD_LENGTH (by decide) payload.length payload (Nat.le_refl _)

/-! ## constants of the source (regenerated on every run by lib/translate_consts.py) -/

/-- the model's constants are the ones in `multiplexer.rs` / `bearer.rs`; the direction masks of
    `subscribe_client` / `subscribe_server` and `PROTOCOL_SERVER` are `0x8000`; queue capacities are
    positive (their value does not matter for the property) -/
theorem consts_match :
    Gen.Consts.mux1HeaderLen = HEADER_LEN ∧ Gen.Consts.mux2HeaderLen = HEADER_LEN ∧
    Gen.Consts.mux1MaxSegmentPayloadLength = MAX_SEGMENT_PAYLOAD_LENGTH ∧
    Gen.Consts.mux2MaxSegmentPayloadLength = MAX_SEGMENT_PAYLOAD_LENGTH ∧
    Gen.Consts.mux1ClientRecvMask = 0x8000 ∧ Gen.Consts.mux1ServerSendMask = 0x8000 ∧
    Gen.Consts.mux2ProtocolServer = 0x8000 ∧
    0 < Gen.Consts.mux1EgressQueueBuffer ∧ 0 < Gen.Consts.mux1IngressQueueBuffer ∧
    Gen.Consts.unknowns = [] := by decide

/-! ## Non-vacuity -/
example : (Header.encode ⟨0x01020304, 0x8002, 5⟩) = [1, 2, 3, 4, 0x80, 0x02, 0, 5] := by decide
example : Header.decode [1, 2, 3, 4, 0x80, 0x02, 0, 5] = some ⟨0x01020304, 0x8002, 5⟩ := by decide
example : Header.decode [1, 2, 3] = none := by decide
example : readSegment (writeSegment 7 2 [0xAA, 0xBB] ++ [9]) = some (2, [0xAA, 0xBB], [9]) := by
  decide
example : readSegment [0, 0, 0, 7, 0, 2, 0, 2, 0xAA] = none := by decide
example : sendProto .server 2 = 0x8002 ∧ recvKey .client 2 = 0x8002 := by decide
/-- a schedule in which two protocols interleave on the wire -/
example :
    let a1 : Agent := ⟨false, .client, 2⟩
    let b1 : Agent := ⟨true, .server, 2⟩
    let a2 : Agent := ⟨false, .client, 3⟩
    let b2 : Agent := ⟨true, .server, 3⟩
    let p := (Pair.init [a1, b1, a2, b2]).run
      [.enqueue a1 [1], .enqueue a2 [2], .enqueue a1 [3], .muxTick false 0, .muxTick false 0,
       .muxTick false 0, .demuxTick true, .demuxTick true, .demuxTick true, .dequeue b1, .dequeue b2,
       .dequeue b1]
    deliveredTo b1 p = [[1], [3]] ∧ deliveredTo b2 p = [[2]] := by
  decide

end PallasVerif.Props.C20
