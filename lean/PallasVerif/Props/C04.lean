import PallasVerif.Proofs.ConwayValue
/-!
# C04 — Decoded numeric wrappers never violate their declared ranges

Model: `PositiveCoin.dec` / `NonZeroInt.dec` of `Model/CborWrappers.lean` (utils.rs after
`fix: PositiveCoin rejects zero when decoding`; `NonZeroInt` already rejected zero) and the Conway
layouts that embed them, `Model/ConwayValue.lean` (`Value` through `codec_by_datatype!`,
`Mint = Multiasset<NonZeroInt>` through minicbor's `BTreeMap` decoder, `donation: Option<PositiveCoin>`).

Statements, for **all** byte strings (no bound on length, nesting, number of policies / assets, head
widths, definite or indefinite maps):
* a decoded wrapper is never zero and is inside the Rust type's range;
* it satisfies exactly what the checked constructor (`try_from`) checks;
* every encoding of zero (any head width) is rejected, with the `message` error class;
* the same for every quantity inside a decoded `Value`, `Mint`, and for the `donation` field.
-/
namespace PallasVerif.Props.C04
open PallasVerif.Cbor PallasVerif.Minicbor PallasVerif.Wrappers PallasVerif.ConwayValue

/-- decoding never produces `PositiveCoin(0)`; what it produces is a `u64` in `1..=u64::MAX` -/
theorem positiveCoin_decoded_nonzero (bs : Bytes) (n : Nat) (r : Bytes) (h : PositiveCoin.dec bs = .ok n r) :
    n ≠ 0 ∧ n < 2 ^ 64 := positiveCoin_ensures bs n r h

/-- decoding never produces `NonZeroInt(0)`; what it produces is an `i64` other than 0 -/
theorem nonZeroInt_decoded_nonzero (bs : Bytes) (i : Int) (r : Bytes) (h : NonZeroInt.dec bs = .ok i r) :
    i ≠ 0 ∧ -(2 ^ 63 : Int) ≤ i ∧ i < 2 ^ 63 := nonZeroInt_ensures bs i r h

/-- a value obtained from bytes passes the checked constructor: same invariant on both paths -/
theorem decoded_satisfies_checked_constructor :
    (∀ bs n r, PositiveCoin.dec bs = .ok n r → PositiveCoin.tryFrom n = some n) ∧
    (∀ bs i r, NonZeroInt.dec bs = .ok i r → NonZeroInt.tryFrom i = some i) := by
  constructor
  · intro bs n r h; simp [PositiveCoin.tryFrom, (positiveCoin_ensures bs n r h).1]
  · intro bs i r h; simp [NonZeroInt.tryFrom, (nonZeroInt_ensures bs i r h).1]

/-- every encoding of zero as an unsigned integer (`00`, `18 00`, `19 0000`, …) is rejected with a
    decode error of class `message` -/
theorem zero_encodings_rejected :
    (∀ bs r, Minicbor.u64 bs = .ok 0 r → PositiveCoin.dec bs = .err .msg) ∧
    (∀ bs r, Minicbor.i64 bs = .ok 0 r → NonZeroInt.dec bs = .err .msg) := by
  constructor
  · intro bs r h; simp [PositiveCoin.dec, h]
  · intro bs r h; simp [NonZeroInt.dec, h]

/-- and nothing else is lost: a non-zero `u64` / `i64` encoding is accepted unchanged -/
theorem nonzero_encodings_accepted :
    (∀ bs n r, Minicbor.u64 bs = .ok n r → n ≠ 0 → PositiveCoin.dec bs = .ok n r) ∧
    (∀ bs i r, Minicbor.i64 bs = .ok i r → i ≠ 0 → NonZeroInt.dec bs = .ok i r) := by
  constructor
  · intro bs n r h hn; simp [PositiveCoin.dec, h, hn]
  · intro bs i r h hi; simp [NonZeroInt.dec, h, hi]

/-- every asset quantity of a decoded Conway `Value` is a non-zero `u64` -/
theorem value_quantities_nonzero (bs : Bytes) (v : Value) (r : Bytes) (h : value bs = .ok v r) :
    ∀ q ∈ v.quantities, q ≠ 0 ∧ q < 2 ^ 64 := by
  simp only [value, byDatatype] at h
  cases hT : datatype bs with
  | error e => simp [hT] at h
  | ok ty =>
    simp only [hT] at h
    split at h
    · obtain ⟨len, r1, _, e2⟩ := Res.andThen_eq_ok h
      obtain ⟨c, r2, _, e4⟩ := Res.andThen_eq_ok e2
      obtain ⟨m, e5, rfl⟩ := Res.map_eq_ok e4
      exact multiasset_ensures PositiveCoin.dec _ positiveCoin_ensures r2 m r e5
    · simp only [byDatatypeArms] at h
      split at h
      · obtain ⟨c, _, rfl⟩ := Res.map_eq_ok h
        intro q hq; simp [Value.quantities] at hq
      · cases h

/-- every quantity of a decoded Conway `Mint` is a non-zero `i64` -/
theorem mint_quantities_nonzero (bs : Bytes) (m : Multiasset Int) (r : Bytes) (h : mint bs = .ok m r) :
    ∀ q ∈ quantities m, q ≠ 0 ∧ -(2 ^ 63 : Int) ≤ q ∧ q < 2 ^ 63 :=
  multiasset_ensures NonZeroInt.dec _ nonZeroInt_ensures bs m r h

/-- a decoded `donation` field is absent or a non-zero `u64` -/
theorem donation_nonzero (bs : Bytes) (n : Nat) (r : Bytes) (h : donation bs = .ok (some n) r) :
    n ≠ 0 ∧ n < 2 ^ 64 := by
  simp only [donation, Minicbor.option] at h
  cases hT : datatype bs with
  | error e => simp [hT] at h
  | ok ty =>
    simp only [hT] at h
    split at h
    · obtain ⟨_, _, hv⟩ := Res.map_eq_ok h; cases hv
    · obtain ⟨m, e, hv⟩ := Res.map_eq_ok h
      cases hv
      exact positiveCoin_ensures bs n r e

/-- the derived decoder that was there before the fix violates the property at `00` -/
theorem positiveCoin_before_fix_fails_at_witness :
    ¬ (∀ bs n r, PositiveCoin.decBefore bs = .ok n r → n ≠ 0) := by
  intro h
  exact h [0x00] 0 [] rfl rfl

/-- only a plain unsigned head is ever accepted as a `PositiveCoin`: whatever follows it, an input
    that starts with any other initial byte (negative int, byte/text string, array, map, **tag** —
    e.g. an RFC 8949 bignum `c2 40` —, simple, float, break) is rejected. So there is no alternative
    encoding through which a zero (or anything else) could enter. -/
theorem positiveCoin_accepts_only_uint_heads (b : UInt8) (rest : Bytes) (hb : 0x1b < b.toNat) :
    ∀ n r, PositiveCoin.dec (b :: rest) ≠ .ok n r := by
  intro n r h
  have hb' : ¬ b.toNat ≤ 0x1b := by omega
  simp only [PositiveCoin.dec, Minicbor.u64, Minicbor.uintN, hb', if_false] at h
  simp [Res.andThen] at h

/-- the same for `NonZeroInt`: only major types 0 and 1 with a width ≤ 8 bytes are accepted -/
theorem nonZeroInt_accepts_only_int_heads (b : UInt8) (rest : Bytes)
    (hb : ¬ b.toNat ≤ 0x1b) (hb2 : ¬ (0x20 ≤ b.toNat ∧ b.toNat ≤ 0x3b)) :
    ∀ i r, NonZeroInt.dec (b :: rest) ≠ .ok i r := by
  intro i r h
  simp only [NonZeroInt.dec, Minicbor.i64, Minicbor.sintN, hb, hb2, if_false] at h
  simp [Res.andThen] at h

example : PositiveCoin.dec [0xc2, 0x40] = .err .typ := by decide +kernel
example : PositiveCoin.dec [0xc2, 0x41, 0x00] = .err .typ := by decide +kernel
example : NonZeroInt.dec [0xc3, 0x40] = .err .typ := by decide +kernel

/-! ## non-vacuity -/

example : PositiveCoin.dec [0x01] = .ok 1 [] := rfl
example : PositiveCoin.dec [0x00] = .err .msg := rfl
example : PositiveCoin.dec [0x19, 0x00, 0x00] = .err .msg := by decide +kernel
example : NonZeroInt.dec [0x20] = .ok (-1) [] := rfl
example : NonZeroInt.dec [0x00] = .err .msg := rfl
example : donation [0xf6] = .ok none [] := rfl
example : donation [0x00] = .err .msg := rfl
/-- a `Value` with one policy, one asset named `00`, quantity 7 — and the same with quantity 0 is rejected -/
example : (value ([0x82, 0x05, 0xa1, 0x58, 0x1c] ++ List.replicate 28 0x11 ++ [0xa1, 0x41, 0x00, 0x07])).map Value.quantities
    = .ok [7] [] := by decide +kernel
example : (value ([0x82, 0x05, 0xa1, 0x58, 0x1c] ++ List.replicate 28 0x11 ++ [0xa1, 0x41, 0x00, 0x00])).map Value.quantities
    = .err .msg := by
  decide +kernel

end PallasVerif.Props.C04
