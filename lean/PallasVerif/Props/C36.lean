import PallasVerif.Model.FeeSize
/-!
# C36 — Fee and size limits use the ledger's transaction size

The ledger measures a transaction, for the fee and for the size limit, as the length of its
serialisation without the phase-2 validity flag: one byte of array head, the body, the witness
set, and the auxiliary data or a one-byte `null` (`ledgerSize`, stated here from the CDDL, not from
the code).

* `validator_size_eq_ledger_size` — the size the validators use (all four post-Byron eras, through
  `MultiEraTx::size`) is `ledgerSize`, for every transaction below 4 GiB.
* `fee_boundary_accept` / `fee_boundary_reject` — for every era, parts, coefficients: a fee of exactly
  `a * ledgerSize + b` passes the fee rule and one lovelace less is `FeeBelowMin` (the minimum is computed in
  `u64`; `fee_formula_fits`: it always fits for `u32` coefficients and sizes).
* `size_boundary_accept` / `size_boundary_reject` — the limit is enforced at exactly `ledgerSize`.
* `accept_iff` — the two rules together accept exactly when `a * ledgerSize + b ≤ fee` and
  `ledgerSize ≤ max`, in either rule order.
* `old_sizes_off_by_one` — the sizes of the unchanged tree (DESIGN §6 #23) differ from the ledger size
  for every transaction, so each boundary theorem failed before the repair.
-/
namespace PallasVerif.Props.C36
open PallasVerif.FeeSize

/-- CDDL: `transaction = [body, witness_set, bool, aux / null]`, measured without the `bool`:
    1 byte array head + parts (the head of a 3- or 4-element definite array is one byte) -/
def ledgerSize (p : Parts) : Nat := 1 + p.body + p.wits + (match p.aux with | some a => a | none => 1)

theorem traverse_size_eq_ledger_size (p : Parts) : traverseSize p = ledgerSize p := by
  unfold traverseSize auxDataSize ledgerSize
  cases p.aux <;> simp <;> omega

theorem validator_size_eq_ledger_size (p : Parts) (h : ledgerSize p ≤ U32_MAX) :
    validatorSize p = ledgerSize p := by
  unfold validatorSize
  rw [traverse_size_eq_ledger_size]
  exact Nat.mod_eq_of_lt (by omega)

/-- the `u64` the minimum fee is computed in is wide enough for any `u32` coefficients and size -/
theorem fee_formula_fits (a b size : Nat) (ha : a ≤ U32_MAX) (hb : b ≤ U32_MAX) (hs : size ≤ U32_MAX) :
    b + a * size ≤ U64_MAX := by
  have : a * size ≤ U32_MAX * U32_MAX := Nat.mul_le_mul ha hs
  simp only [U32_MAX, U64_MAX] at *
  omega

theorem fee_boundary_accept (a b size : Nat) (h : b + a * size ≤ U64_MAX) :
    checkMinFee (b + a * size) a b size = .ok := by
  have h1 : a * size ≤ U64_MAX := by omega
  simp [checkMinFee, Nat.not_lt.mpr h1, Nat.not_lt.mpr h]

theorem fee_boundary_reject (a b size : Nat) (h : b + a * size ≤ U64_MAX) (hpos : 0 < b + a * size) :
    checkMinFee (b + a * size - 1) a b size = .feeBelowMin := by
  have h1 : a * size ≤ U64_MAX := by omega
  have h2 : b + a * size - 1 < b + a * size := by omega
  simp [checkMinFee, Nat.not_lt.mpr h1, Nat.not_lt.mpr h, h2]

theorem size_boundary_accept (size : Nat) : checkTxSize size size = .ok := by
  simp [checkTxSize]

theorem size_boundary_reject (size : Nat) (hpos : 0 < size) :
    checkTxSize size (size - 1) = .maxTxSizeExceeded := by
  have : size > size - 1 := by omega
  simp [checkTxSize, this]

/-- **The property, whole rule pair.** In every era, with the minimum fee representable in `u32`,
    a transaction passes the fee and size rules iff its fee is at least `a * ledgerSize + b` and its
    ledger size is within the limit. -/
theorem accept_iff (era : Era) (p : Parts) (fee a b maxSize : Nat)
    (hsz : ledgerSize p ≤ U32_MAX) (hmin : b + a * ledgerSize p ≤ U64_MAX) :
    feeAndSize era p fee a b maxSize = .ok ↔ (b + a * ledgerSize p ≤ fee ∧ ledgerSize p ≤ maxSize) := by
  have hv := validator_size_eq_ledger_size p hsz
  have h1 : ¬ a * ledgerSize p > U64_MAX := by omega
  have h2 : ¬ b + a * ledgerSize p > U64_MAX := by omega
  cases era <;>
    simp only [feeAndSize, hv, checkMinFee, checkTxSize, h1, h2, if_false] <;>
    by_cases hf : fee < b + a * ledgerSize p <;>
    by_cases hs : ledgerSize p > maxSize <;>
    simp [hf, hs] <;> omega

/-- fee exactly the ledger minimum and limit exactly the ledger size: accepted (every era) -/
theorem boundary_accept (era : Era) (p : Parts) (a b : Nat)
    (hsz : ledgerSize p ≤ U32_MAX) (hmin : b + a * ledgerSize p ≤ U64_MAX) :
    feeAndSize era p (b + a * ledgerSize p) a b (ledgerSize p) = .ok :=
  (accept_iff era p _ a b _ hsz hmin).mpr ⟨Nat.le_refl _, Nat.le_refl _⟩

/-- one lovelace below the ledger minimum: never accepted -/
theorem boundary_reject_fee (era : Era) (p : Parts) (a b maxSize : Nat)
    (hsz : ledgerSize p ≤ U32_MAX) (hmin : b + a * ledgerSize p ≤ U64_MAX) (hpos : 0 < b + a * ledgerSize p) :
    feeAndSize era p (b + a * ledgerSize p - 1) a b maxSize ≠ .ok := by
  intro h
  have := (accept_iff era p _ a b maxSize hsz hmin).mp h
  omega

/-- limit one byte below the ledger size: never accepted -/
theorem boundary_reject_size (era : Era) (p : Parts) (fee a b : Nat)
    (hsz : ledgerSize p ≤ U32_MAX) (hmin : b + a * ledgerSize p ≤ U64_MAX) :
    feeAndSize era p fee a b (ledgerSize p - 1) ≠ .ok := by
  intro h
  have := (accept_iff era p fee a b _ hsz hmin).mp h
  have : 0 < ledgerSize p := by unfold ledgerSize; omega
  omega

/-- The unchanged tree: the Alonzo-compatible helper was 1 (aux present) or 2 (absent) bytes short, the
    Babbage/Conway re-encoding one byte long — for every transaction. -/
theorem old_sizes_off_by_one (p : Parts) :
    oldAlonzoCompSize p < ledgerSize p ∧ oldReencodeSize p = ledgerSize p + 1 := by
  unfold oldAlonzoCompSize oldReencodeSize ledgerSize
  cases p.aux <;> simp <;> omega

/-! ## Non-vacuity (conway3.tx: body 191, witness set 95... the numbers are only illustrative) -/
private def p1 : Parts := ⟨200, 100, none⟩
example : ledgerSize p1 = 302 := by decide
example : validatorSize p1 = 302 := by decide
example : feeAndSize .conway p1 (155381 + 44 * 302) 44 155381 302 = .ok := by decide
example : feeAndSize .conway p1 (155381 + 44 * 302 - 1) 44 155381 302 = .feeBelowMin := by decide
example : feeAndSize .conway p1 (155381 + 44 * 302) 44 155381 301 = .maxTxSizeExceeded := by decide
example : feeAndSize .shelleyMA p1 0 44 155381 301 = .maxTxSizeExceeded := by decide
example : feeAndSize .alonzo p1 0 44 155381 301 = .feeBelowMin := by decide
example : feeAndSize .babbage ⟨200, 100, some 50⟩ 1000 1 649 351 = .ok := by decide
example : checkMinFee 0 4294967295 0 2 = .feeBelowMin := by decide
example : oldReencodeSize p1 = 303 ∧ oldAlonzoCompSize p1 = 300 := by decide

end PallasVerif.Props.C36
