import PallasVerif.Proofs.NetMsg
import PallasVerif.Proofs.NetFuel
import PallasVerif.Gen.PanicSitesC09
/-!
# C09 — Ledger and network decoders never panic on untrusted bytes  (level: `other`)

What is *proved* here is a slice; the property as a whole is a statement about ~10 kLoC of Rust
decoders and is decided by search (streams `msgfuzz`, `artfuzz`) plus an audited inventory:

* **network half, modelled**: every mini-protocol message decoder of both stacks is a total Lean
  function (`Model/NetMsg.lean`, outcomes `ok | eoi | err`, no panic outcome) whose result —
  value, end-of-input, other error — is compared with `minicbor::decode::<Message>` on random bytes
  and structure-aware mutations (stream `msgfuzz`). The loops of that model carry fuel only as a
  termination device: `decBreak_fuel_irrelevant`, `skipChunks_fuel_irrelevant` and
  `skipLoop_fuel_irrelevant` show that the fuel the model passes (`length + 1`) is never exhausted,
  so no outcome of the model is an artefact of the totalisation. The only arithmetic in those
  decoders (`PeerAddress::V6`: four `u32` words shifted into a `u128`) cannot overflow
  (`peeraddress_bits_fit_u128`).
* **panic inventory**: `Gen/PanicSitesC09.lean` is regenerated on every run from the anchored
  hand-written decoder files (`lib/scan_panics.py`: unwrap / expect / panic!-family / assert /
  indexing / slicing / copy_from_slice / arithmetic); `panic_sites_all_audited` holds only while every
  site has an entry in the audited allow-list `lib/panic_audit_C09.json` — a new site breaks the
  check until it is audited.
* **ledger half, not modelled**: blocks, transactions, headers, outputs, addresses and the
  node-to-client payload decoders are exercised by `artfuzz` (mutations of every artefact of
  `test_data`), where the Lean side only states the demanded outcome class.
-/
namespace PallasVerif.Props.C09
open PallasVerif.Cbor PallasVerif.NetCodec PallasVerif.NetMsg

/-- every syntactic panic site of the anchored decoder files has been audited -/
theorem panic_sites_all_audited : Gen.PanicSitesC09.unaudited = [] := by decide

/-- the scanner read every anchored file (a moved / renamed file breaks the check) -/
theorem all_anchored_files_scanned : Gen.PanicSitesC09.filesScanned = Gen.PanicSitesC09.filesExpected := by decide

/-- the inventory is not empty by accident -/
theorem inventory_nonempty : 50 ≤ Gen.PanicSitesC09.sites.length := by decide

/-- `PeerAddress::V6` decoding: `(w1 as u128) << 96 | (w2 as u128) << 64 | (w3 as u128) << 32 | w4`
    stays below `2^128` for all `u32` words (the shifts lose nothing, the `|` is a sum) -/
theorem peeraddress_bits_fit_u128 (w1 w2 w3 w4 : Nat) (h1 : w1 ≤ U32MAX) (h2 : w2 ≤ U32MAX) (h3 : w3 ≤ U32MAX) (h4 : w4 ≤ U32MAX) :
    w1 * 2 ^ 96 + w2 * 2 ^ 64 + w3 * 2 ^ 32 + w4 < 2 ^ 128 := by
  unfold U32MAX at *; omega

theorem uMax_ok_le {m : Nat} {bs r : Bytes} {n : Nat} (h : uMax m bs = .ok n r) : n ≤ m := by
  unfold uMax at h
  obtain ⟨v, r', _, h2⟩ := Res.bind_eq_ok h
  split at h2
  · simp only [Res.ok.injEq] at h2; omega
  · simp at h2

/-- whatever bytes arrive, a decoded peer address is within the ranges of its Rust type
    (`Ipv4Addr::from(u32)`, `Ipv6Addr::from_bits(u128)`, `Port`) -/
theorem decoded_peeraddress_in_range (portMax : Nat) (bs r : Bytes) (p : PeerAddress)
    (h : PeerAddress.dec portMax bs = .ok p r) : p.valid portMax = true := by
  unfold PeerAddress.dec at h
  obtain ⟨label, r0, _, h⟩ := Res.bind_eq_ok h
  split at h
  · obtain ⟨ip, r1, h1, h⟩ := Res.bind_eq_ok h
    obtain ⟨port, r2, h2, h⟩ := Res.bind_eq_ok h
    simp only [Res.ok.injEq] at h
    rw [← h.1]
    have := uMax_ok_le h1
    have := uMax_ok_le h2
    unfold U32MAX at *
    simp [PeerAddress.valid, *]
  · obtain ⟨w1, r1, h1, h⟩ := Res.bind_eq_ok h
    obtain ⟨w2, r2, h2, h⟩ := Res.bind_eq_ok h
    obtain ⟨w3, r3, h3, h⟩ := Res.bind_eq_ok h
    obtain ⟨w4, r4, h4, h⟩ := Res.bind_eq_ok h
    obtain ⟨port, r5, h5, h⟩ := Res.bind_eq_ok h
    simp only [Res.ok.injEq] at h
    rw [← h.1]
    have b1 := uMax_ok_le h1
    have b2 := uMax_ok_le h2
    have b3 := uMax_ok_le h3
    have b4 := uMax_ok_le h4
    have := uMax_ok_le h5
    have := peeraddress_bits_fit_u128 w1 w2 w3 w4 b1 b2 b3 b4
    simp [PeerAddress.valid, *]
  · simp at h

/-! ## fuel is a proof device, not a source of outcomes -/

/-- `Decoder::skip` as modelled never exhausts its fuel: more fuel changes nothing -/
theorem skip_never_out_of_fuel (bs : Bytes) (fuel : Nat) (h : bs.length < fuel) : skip bs = skipLoop fuel 1 0 [] bs :=
  skip_fuel_irrelevant bs fuel h

/-- the chunk loop of indefinite strings never exhausts its fuel -/
theorem skipChunks_never_out_of_fuel (m f1 f2 : Nat) (bs : Bytes) (h1 : bs.length < f1) (h2 : bs.length < f2) :
    skipChunks m f1 bs = skipChunks m f2 bs := skipChunks_fuel_irrelevant m f1 f2 bs h1 h2

/-- indefinite arrays of `AnyCbor` (Leios votes / transactions) and of integers: the element loop
    never exhausts its fuel -/
theorem vec_anycbor_never_out_of_fuel (f1 f2 : Nat) (bs : Bytes) (h1 : bs.length < f1) (h2 : bs.length < f2) :
    decBreak anyCbor f1 bs = decBreak anyCbor f2 bs :=
  decBreak_fuel_irrelevant anyCbor progress_anyCbor bs.length f1 f2 bs rfl h1 h2

theorem vec_u64_never_out_of_fuel (f1 f2 : Nat) (bs : Bytes) (h1 : bs.length < f1) (h2 : bs.length < f2) :
    decBreak u64 f1 bs = decBreak u64 f2 bs :=
  decBreak_fuel_irrelevant u64 progress_u64 bs.length f1 f2 bs rfl h1 h2

/-! ## non-vacuity -/

example : PeerAddress.dec U16MAX [0x86, 0x01, 0x1a, 0x20, 0x01, 0x0d, 0xb8, 0x00, 0x00, 0x01, 0x19, 0x0b, 0xb9] =
    .ok (.v6 0x20010db8000000000000000000000001 3001) [] := by decide
/-- a length field blown up to 2^64-1 is an error of the model, not a divergence -/
example : (TxSubmission.Msg.dec [0x82, 0x01, 0x9b, 0xff, 0xff, 0xff, 0xff, 0xff, 0xff, 0xff, 0xff]) = .eoi := by decide
example : skip [0x9f, 0x82, 0x01, 0x9f, 0xff, 0xff] = .ok () [] := by decide

end PallasVerif.Props.C09
