import PallasVerif.Proofs.NetMsg
import PallasVerif.Proofs.NetFuel
import PallasVerif.Proofs.NetProgress
import PallasVerif.Proofs.DecTotal
import PallasVerif.Proofs.ByronTotal
import PallasVerif.Proofs.PlutusDataDecSound
import PallasVerif.Gen.PanicSitesC09
/-!
# C09 — Ledger and network decoders never panic on untrusted bytes  (level: `other`)

What is *proved* here is a slice; the property as a whole is a statement about ~10 kLoC of Rust
decoders and is decided by search (streams `msgfuzz`, `artfuzz`) plus an audited inventory:

* **network half, modelled**: every mini-protocol message decoder of both stacks is a total Lean
  function (`Model/NetMsg.lean`, outcomes `ok | eoi | err`, no panic outcome) whose result —
  value, end-of-input, other error — is compared with `minicbor::decode::<Message>` on random bytes
  and structure-aware mutations (stream `msgfuzz`). The loops of that model carry fuel only as a
  termination device: `decBreak_fuel_irrelevant`, `skipChunks_fuel_irrelevant` and
  `skipLoop_fuel_irrelevant` show that the fuel the model passes (`length + 1`) is never exhausted,
  so no outcome of the model is an artefact of the totalisation. The only arithmetic in those
  decoders (`PeerAddress::V6`: four `u32` words shifted into a `u128`) cannot overflow
  (`peeraddress_bits_fit_u128`).
* **panic inventory**: `Gen/PanicSitesC09.lean` is regenerated on every run from the anchored
  hand-written decoder files (`lib/scan_panics_c09.py`: unwrap / expect / panic!-family / assert /
  indexing / slicing / copy_from_slice / arithmetic); `panic_sites_all_audited` holds only while every
  site has an entry in the audited allow-list `lib/panic_audit_C09.json` — a new site breaks the
  check until it is audited.
* **further modelled decoders** (stream `decfuzz`): the `pallas-codec` wrappers (C03's model),
  `PlutusData` (C07's, exact: strict parse + tree) and Byron / Shelley addresses (C19's / C18's) are
  compared with the real decoders on mutated bytes; `wrappers_never_diverge`,
  `plutusdata_decoder_is_total_and_exact`, `byron_decoders_never_diverge` state their totality.
* **ledger half, not modelled**: blocks, transactions, headers, outputs, addresses and the
  node-to-client payload decoders are exercised by `artfuzz` (mutations of every artefact of
  `test_data`), where the Lean side only states the demanded outcome class.
-/
namespace PallasVerif.Props.C09
open PallasVerif.Cbor PallasVerif.NetCodec PallasVerif.NetMsg

/-- every syntactic panic site of the anchored decoder files has been audited -/
theorem panic_sites_all_audited : Gen.PanicSitesC09.unaudited = [] := by decide

/-- the scanner read every anchored file (a moved / renamed file breaks the check) -/
theorem all_anchored_files_scanned : Gen.PanicSitesC09.filesScanned = Gen.PanicSitesC09.filesExpected := by decide

/-- the inventory is not empty by accident -/
theorem inventory_nonempty : 50 ≤ Gen.PanicSitesC09.sites.length := by decide

/-- `PeerAddress::V6` decoding: `(w1 as u128) << 96 | (w2 as u128) << 64 | (w3 as u128) << 32 | w4`
    stays below `2^128` for all `u32` words (the shifts lose nothing, the `|` is a sum) -/
theorem peeraddress_bits_fit_u128 (w1 w2 w3 w4 : Nat) (h1 : w1 ≤ U32MAX) (h2 : w2 ≤ U32MAX) (h3 : w3 ≤ U32MAX) (h4 : w4 ≤ U32MAX) :
    w1 * 2 ^ 96 + w2 * 2 ^ 64 + w3 * 2 ^ 32 + w4 < 2 ^ 128 := by
  unfold U32MAX at *; omega

theorem uMax_ok_le {m : Nat} {bs r : Bytes} {n : Nat} (h : uMax m bs = .ok n r) : n ≤ m := by
  unfold uMax at h
  obtain ⟨v, r', _, h2⟩ := Res.bind_eq_ok h
  split at h2
  · simp only [Res.ok.injEq] at h2; omega
  · simp at h2

/-- whatever bytes arrive, a decoded peer address is within the ranges of its Rust type
    (`Ipv4Addr::from(u32)`, `Ipv6Addr::from_bits(u128)`, `Port`) -/
theorem decoded_peeraddress_in_range (portMax : Nat) (bs r : Bytes) (p : PeerAddress)
    (h : PeerAddress.dec portMax bs = .ok p r) : p.valid portMax = true := by
  unfold PeerAddress.dec at h
  obtain ⟨label, r0, _, h⟩ := Res.bind_eq_ok h
  split at h
  · obtain ⟨ip, r1, h1, h⟩ := Res.bind_eq_ok h
    obtain ⟨port, r2, h2, h⟩ := Res.bind_eq_ok h
    simp only [Res.ok.injEq] at h
    rw [← h.1]
    have := uMax_ok_le h1
    have := uMax_ok_le h2
    unfold U32MAX at *
    simp [PeerAddress.valid, *]
  · obtain ⟨w1, r1, h1, h⟩ := Res.bind_eq_ok h
    obtain ⟨w2, r2, h2, h⟩ := Res.bind_eq_ok h
    obtain ⟨w3, r3, h3, h⟩ := Res.bind_eq_ok h
    obtain ⟨w4, r4, h4, h⟩ := Res.bind_eq_ok h
    obtain ⟨port, r5, h5, h⟩ := Res.bind_eq_ok h
    simp only [Res.ok.injEq] at h
    rw [← h.1]
    have b1 := uMax_ok_le h1
    have b2 := uMax_ok_le h2
    have b3 := uMax_ok_le h3
    have b4 := uMax_ok_le h4
    have := uMax_ok_le h5
    have := peeraddress_bits_fit_u128 w1 w2 w3 w4 b1 b2 b3 b4
    simp [PeerAddress.valid, *]
  · simp at h

/-! ## fuel is a proof device, not a source of outcomes -/

/-- `Decoder::skip` as modelled never exhausts its fuel: more fuel changes nothing -/
theorem skip_never_out_of_fuel (bs : Bytes) (fuel : Nat) (h : bs.length < fuel) : skip bs = skipLoop fuel 1 0 [] bs :=
  skip_fuel_irrelevant bs fuel h

/-- the chunk loop of indefinite strings never exhausts its fuel -/
theorem skipChunks_never_out_of_fuel (m f1 f2 : Nat) (bs : Bytes) (h1 : bs.length < f1) (h2 : bs.length < f2) :
    skipChunks m f1 bs = skipChunks m f2 bs := skipChunks_fuel_irrelevant m f1 f2 bs h1 h2

/-- indefinite arrays of `AnyCbor` (Leios votes / transactions) and of integers: the element loop
    never exhausts its fuel -/
theorem vec_anycbor_never_out_of_fuel (f1 f2 : Nat) (bs : Bytes) (h1 : bs.length < f1) (h2 : bs.length < f2) :
    decBreak anyCbor f1 bs = decBreak anyCbor f2 bs :=
  decBreak_fuel_irrelevant anyCbor progress_anyCbor bs.length f1 f2 bs rfl h1 h2

theorem vec_u64_never_out_of_fuel (f1 f2 : Nat) (bs : Bytes) (h1 : bs.length < f1) (h2 : bs.length < f2) :
    decBreak u64 f1 bs = decBreak u64 f2 bs :=
  decBreak_fuel_irrelevant u64 progress_u64 bs.length f1 f2 bs rfl h1 h2

/-- every decoder that sits under an indefinite array or map in the message codecs (tx ids, tx
    bodies, peer addresses, DMQ messages, points, bitmap entries) consumes input when it succeeds,
    so the element loop never exhausts its fuel, whatever the bytes -/
theorem message_element_loops_never_out_of_fuel (f1 f2 : Nat) (bs : Bytes) (h1 : bs.length < f1) (h2 : bs.length < f2) (portMax : Nat) :
    decBreak TxIdAndSize.dec f1 bs = decBreak TxIdAndSize.dec f2 bs ∧
    decBreak EraTxId.dec f1 bs = decBreak EraTxId.dec f2 bs ∧
    decBreak EraTx.dec f1 bs = decBreak EraTx.dec f2 bs ∧
    decBreak (PeerAddress.dec portMax) f1 bs = decBreak (PeerAddress.dec portMax) f2 bs ∧
    decBreak DmqMsg.dec f1 bs = decBreak DmqMsg.dec f2 bs ∧
    decBreak Point.dec f1 bs = decBreak Point.dec f2 bs ∧
    decBreak (pair u16 u64) f1 bs = decBreak (pair u16 u64) f2 bs :=
  ⟨decBreak_fuel_irrelevant _ progress_txIdAndSize _ f1 f2 bs rfl h1 h2,
   decBreak_fuel_irrelevant _ progress_eraTxId _ f1 f2 bs rfl h1 h2,
   decBreak_fuel_irrelevant _ progress_eraTx _ f1 f2 bs rfl h1 h2,
   decBreak_fuel_irrelevant _ (progress_peerAddress portMax) _ f1 f2 bs rfl h1 h2,
   decBreak_fuel_irrelevant _ progress_dmqMsg _ f1 f2 bs rfl h1 h2,
   decBreak_fuel_irrelevant _ progress_point _ f1 f2 bs rfl h1 h2,
   decBreak_fuel_irrelevant _ (progress_pair (progress_uMax _) progress_u64.noGrow) _ f1 f2 bs rfl h1 h2⟩

/-! ## further hand-written decoders inside the model (stream `decfuzz`)

The models of C03 (`pallas-codec` wrappers over the minicbor primitives), C07 (`PlutusData`) and
C19 / C18 (Byron and Shelley addresses) are run by C09 on random bytes and structure-aware mutants and
their outcome (value / error class) is compared with the real decoders. What is proved about them
here is that they are *total with the implementation's outcome classes only*: the single
model-only outcome, `diverge` (a fuelled loop ran dry), is unreachable on every input. -/

section
open PallasVerif.Minicbor PallasVerif.Wrappers

/-- **wrappers, generic**: for any element decoder that consumes input when it succeeds and never
    diverges, the array / map / set / wrap / nullable / keep-raw wrappers around it never diverge —
    hence every nesting of them -/
theorem wrappers_never_diverge {α β : Type} (a : Codec α) (b : Codec β)
    (ca : Consumes a.dec) (cb : Consumes b.dec) (na : NoDiverge a.dec) (nb : NoDiverge b.dec) :
    NoDiverge (vec a.dec) ∧ NoDiverge (MaybeIndef.dec a) ∧ NoDiverge (KVP.dec a b) ∧ NoDiverge (Set.dec a) ∧
    NoDiverge (CborWrap.dec a) ∧ NoDiverge (ZeroOrOne.dec a) ∧ NoDiverge (OPP.dec a) ∧ NoDiverge (Nullable.dec a) ∧
    NoDiverge (KeepRaw.dec a) ∧ Consumes (MaybeIndef.dec a) ∧ Consumes (KVP.dec a b) :=
  ⟨vec_nd a.dec ca na, maybeIndef_nd a ca na, kvp_nd a b ca cb.suffix na nb, set_nd a ca na, cborWrap_nd a na,
   zeroOrOne_nd a na, opp_nd a na, nullable_nd a na, keepRaw_nd a na, maybeIndef_consumes a ca.suffix, kvp_consumes a b ca cb.suffix⟩

/-- the leaves: `AnyUInt`, `PositiveCoin`, `AnyCbor` (= `skip`), integers, byte strings -/
theorem wrapper_leaves_never_diverge :
    NoDiverge AnyUInt.dec ∧ Consumes AnyUInt.dec ∧ NoDiverge PositiveCoin.dec ∧ NoDiverge AnyCbor.dec ∧ Consumes AnyCbor.dec ∧
    NoDiverge Minicbor.u64 ∧ NoDiverge Minicbor.bytes ∧ NoDiverge Minicbor.skip :=
  ⟨anyUInt_nd, anyUInt_consumes, positiveCoin_nd, anyCbor_nd, anycbor_consumes, uintN_nd 64, bytes_nd, skip_nd⟩

/-- an instance at a nesting the stream exercises: `KeepRaw<KeyValuePairs<AnyUInt, MaybeIndefArray<Nullable<AnyUInt>>>>` -/
example : NoDiverge (KeepRaw.dec (cKVP cAnyUInt (cMaybeIndef (cNullable cAnyUInt)))) := by
  have hN : NoDiverge (Nullable.dec cAnyUInt) := nullable_nd cAnyUInt anyUInt_nd
  have hNc : Consumes (Nullable.dec cAnyUInt) := by
    intro cur a rest h
    unfold Nullable.dec at h
    split at h
    · cases h
    · split at h
      · obtain ⟨x, e, _⟩ := Res.map_eq_ok h; exact null_consumes _ _ _ e
      · split at h
        · obtain ⟨x, e, _⟩ := Res.map_eq_ok h; exact undefined_consumes _ _ _ e
        · obtain ⟨x, e, _⟩ := Res.map_eq_ok h; exact anyUInt_consumes _ _ _ e
  exact keepRaw_nd _ (kvp_nd cAnyUInt (cMaybeIndef (cNullable cAnyUInt)) anyUInt_consumes
    (maybeIndef_consumes (cNullable cAnyUInt) hNc.suffix).suffix anyUInt_nd (maybeIndef_nd (cNullable cAnyUInt) hNc hN))
end

/-- **PlutusData**: the byte-level decoder model has no fuel artefact at all — it accepts exactly
    when the strict parser finds a first item that the tree decoder maps to a value (C07's
    `decodeBytes_iff`), so its outcome on any bytes is determined by `parseItem` and `ofItem` -/
theorem plutusdata_decoder_is_total_and_exact (bs : Bytes) (d : PlutusData.PData) (r : Bytes) :
    PlutusData.Dec.decodeBytes bs = some (d, r) ↔ ∃ i : Item, parseItem bs = some (i, r) ∧ PlutusData.ofItem i = some d :=
  PlutusData.Dec.decodeBytes_iff bs d r

/-- **Byron addresses**: neither `ByronAddress`'s nor `AddressPayload`'s derived field loop ever runs
    out of fuel, so `from_bytes` / `decode` as modelled report implementation error classes only -/
theorem byron_decoders_never_diverge :
    Minicbor.NoDiverge Byron.ByronAddress.dec ∧ Minicbor.NoDiverge Byron.AddressPayload.dec ∧
    (∀ bs, Byron.fromBytes bs ≠ .error (.cbor .diverge)) := by
  refine ⟨Byron.byronAddress_nd, Byron.addressPayload_nd, fun bs h => ?_⟩
  unfold Byron.fromBytes at h
  split at h
  · rename_i e he
    simp only [Except.error.injEq, Byron.AddrErr.cbor.injEq] at h
    subst h
    exact Byron.byronAddress_nd _ he
  · split at h
    · simp at h
    · cases h

/-! ## non-vacuity -/

example : PeerAddress.dec U16MAX [0x86, 0x01, 0x1a, 0x20, 0x01, 0x0d, 0xb8, 0x00, 0x00, 0x01, 0x19, 0x0b, 0xb9] =
    .ok (.v6 0x20010db8000000000000000000000001 3001) [] := by decide
/-- a length field blown up to 2^64-1 is an error of the model, not a divergence -/
example : (TxSubmission.Msg.dec [0x82, 0x01, 0x9b, 0xff, 0xff, 0xff, 0xff, 0xff, 0xff, 0xff, 0xff]) = .eoi := by decide
example : skip [0x9f, 0x82, 0x01, 0x9f, 0xff, 0xff] = .ok () [] := by decide

end PallasVerif.Props.C09
