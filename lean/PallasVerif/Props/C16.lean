import Mathlib.Analysis.Complex.Exponential
import PallasVerif.Model.RefMath
import PallasVerif.Proofs.ExpCmp
import PallasVerif.Proofs.ExpCmpReal
/-!
# C16 — Bounded exp comparison never reaches a wrong conclusion

Model: `refExpCmp` in `Model/RefMath.lean` (transcription of `ref_exp_cmp`, loop on fuel `max_n`).
`toReal z = z / 10^34`. `tterm x i` / `psum x n` are the fixed-point Taylor terms / partial sums
exactly as the code computes them (`Proofs/ExpCmp.lean`).

**Full statement** (`SoundFull`): whenever `bound ≥ e^|x|`, `GT → e^x < compare` and
`LT → compare < e^x`.

What is proved, for ALL `max_n`, `x`, `bound`, `compare` (unbounded integers):
* `never_panics`, `iterations_le_maxN`, `approx_eq_taylor_prefix`, `verdict_spec`,
  `unknown_otherwise` — exact description of the result (which partial sum, which inequality
  triggered, why it stopped);
* `lt_sound` — for `0 ≤ x` (the leader-check domain) `LT` is right in the reals, with NO assumption
  on `bound`: every Taylor term is rounded down (`scale` floors, `div` truncates non-negatives),
  so the approximation is `≤ Real.exp x` (`Real.sum_le_exp_of_nonneg`), and the error term is a magnitude;
* `gt_sound_partial` — for `0 ≤ x ≤ 1` and `bound ≥ 2`, a `GT` verdict is right up to an explicit
  slack of `(3·iterations + 3·bound)·10^-34` (each rounded-down term is at most 3 ulp below the true
  one; Lagrange-type remainder from Mathlib's `Real.exp_bound'`);
* `sound_partial` — the two together.
**The full statement is FALSE for the reference algorithm itself** (a recorded known finding, not
repairable without leaving the reference): `soundFull_fails_at_witness` — `x = 7.798…e-12`,
`bound = 3`, `compare = 1.0000000000077982159505194176045364` gives `GT` after 2 iterations while
`e^x = 1.00000000000779821595051941760453640966…`: the rounded-down upper bound lies 1.0966 ulp
below `e^x`, so the grid point between them is misjudged. `gt_sound_partial` shows such a window is
never wider than the stated slack. Not proved: anything for negative `x` (alternating terms, mixed
rounding directions) and `GT` for `x > 1`; both are checked on the implementation by the harness
oracle (rigorous 90-digit enclosure of `e^x`) on sampled inputs only.

**Recorded deviation (repaired)**: the unrepaired tree used the SIGNED product `error * bound_x` as
error term, so for negative `x` `upper < lower` at every other step and `GT` was returned for
values far below `e^x`: `origSoundFull_fails_at_witness` (`x = -1`, `bound = 4`, `compare = 0.1`).
-/
namespace PallasVerif.Props.C16
open PallasVerif.Decimal PallasVerif.RefMath PallasVerif.Proofs.ExpCmp

/-- the full property for an `exp_cmp` implementation `f` -/
def SoundFor (f : Nat → Int → Int → Int → Option CmpRes) : Prop :=
  ∀ (maxN : Nat) (x bound cmp : Int) (r : CmpRes),
    Real.exp |toReal x| ≤ (bound : ℝ) → f maxN x bound cmp = some r →
    (r.estimation = .gt → Real.exp (toReal x) < toReal cmp) ∧
    (r.estimation = .lt → toReal cmp < Real.exp (toReal x))

/-- full statement for the (repaired) code -/
def SoundFull : Prop := SoundFor refExpCmp

/-- the comparison never panics (the divisor `(n+2)·10^34` is never zero) -/
theorem never_panics (maxN : Nat) (x bound cmp : Int) : ∃ r, refExpCmp maxN x bound cmp = some r :=
  let ⟨r, h, _⟩ := refExpCmp_spec true maxN x bound cmp; ⟨r, h⟩

theorem iterations_le_maxN (maxN : Nat) (x bound cmp : Int) (r : CmpRes)
    (h : refExpCmp maxN x bound cmp = some r) : r.iterations ≤ maxN := by
  obtain ⟨r', h', post⟩ := refExpCmp_spec true maxN x bound cmp
  have : r = r' := by rw [refExpCmp, h'] at h; exact (Option.some.inj h).symm
  subst this; have := post.hi; omega

/-- the reported approximation is the fixed-point Taylor prefix `1 + Σ_{i<iterations} tterm x i` -/
theorem approx_eq_taylor_prefix (maxN : Nat) (x bound cmp : Int) (r : CmpRes)
    (h : refExpCmp maxN x bound cmp = some r) : r.approx = psum x r.iterations := by
  obtain ⟨r', h', post⟩ := refExpCmp_spec true maxN x bound cmp
  have : r = r' := by rw [refExpCmp, h'] at h; exact (Option.some.inj h).symm
  subst this; exact post.approx

/-- a decisive verdict is exactly the corresponding inequality against
    `approx ± |next term · bound|`, taken at the first iteration where one of them holds -/
theorem verdict_spec (maxN : Nat) (x bound cmp : Int) (r : CmpRes)
    (h : refExpCmp maxN x bound cmp = some r) :
    (r.estimation = .gt → 0 < r.iterations ∧
      cmp > r.approx + ((tterm x r.iterations * bound).natAbs : Int)) ∧
    (r.estimation = .lt → 0 < r.iterations ∧
      cmp < r.approx - ((tterm x r.iterations * bound).natAbs : Int) ∧
      ¬ cmp > r.approx + ((tterm x r.iterations * bound).natAbs : Int)) := by
  obtain ⟨r', h', post⟩ := refExpCmp_spec true maxN x bound cmp
  have : r = r' := by rw [refExpCmp, h'] at h; exact (Option.some.inj h).symm
  subst this
  constructor
  · intro e; obtain ⟨a, b, _⟩ := post.gt e; exact ⟨a, by simpa [errorTermOf] using b⟩
  · intro e; obtain ⟨a, b, c, _⟩ := post.lt e
    exact ⟨a, by simpa [errorTermOf] using b, by simpa [errorTermOf] using c⟩

/-- otherwise the answer is UNKNOWN: the iteration budget is used up or the next term is below
    `EPS = 10^-24` -/
theorem unknown_otherwise (maxN : Nat) (x bound cmp : Int) (r : CmpRes)
    (h : refExpCmp maxN x bound cmp = some r) (hu : r.estimation = .unknown) :
    r.iterations = maxN ∨ (tterm x r.iterations).natAbs < EPS.natAbs := by
  obtain ⟨r', h', post⟩ := refExpCmp_spec true maxN x bound cmp
  have : r = r' := by rw [refExpCmp, h'] at h; exact (Option.some.inj h).symm
  subst this
  rcases post.unknown hu with h1 | h1
  · left; omega
  · right; simpa [absLt] using h1

/-- **LT is sound** on the leader-check domain `0 ≤ x`, for every bound, budget and compare value -/
theorem lt_sound (maxN : Nat) (x bound cmp : Int) (r : CmpRes) (hx : 0 ≤ x)
    (h : refExpCmp maxN x bound cmp = some r) (hlt : r.estimation = .lt) :
    toReal cmp < Real.exp (toReal x) := by
  obtain ⟨_, hc, _⟩ := (verdict_spec maxN x bound cmp r h).2 hlt
  have ha := approx_eq_taylor_prefix maxN x bound cmp r h
  have hle := psum_le_exp x hx r.iterations
  have hcmp : cmp < psum x r.iterations := by rw [← ha]; omega
  have : toReal cmp < toReal (psum x r.iterations) := by
    simp only [toReal]
    exact div_lt_div_of_pos_right (by exact_mod_cast hcmp) P_real_pos
  linarith

/-- **GT is sound up to an explicit slack** on `0 ≤ x ≤ 1`, `bound ≥ 2`:
    `compare + (3·iterations + 3·bound)·10^-34 > e^x` -/
theorem gt_sound_partial (maxN : Nat) (x bound cmp : Int) (r : CmpRes) (hx : 0 ≤ x) (hx1 : x ≤ P)
    (hb : 2 ≤ bound) (h : refExpCmp maxN x bound cmp = some r) (hgt : r.estimation = .gt) :
    Real.exp (toReal x) <
      toReal cmp + (3 * (r.iterations : ℝ) + 3 * (bound : ℝ)) / (P : ℝ) := by
  obtain ⟨hk, hc⟩ := (verdict_spec maxN x bound cmp r h).1 hgt
  rw [approx_eq_taylor_prefix maxN x bound cmp r h] at hc
  exact gt_slack x bound cmp hx hx1 hb r.iterations hk hc

/-- the proved part of `SoundFull` on the leader-check domain `0 ≤ x ≤ 1`, `bound ≥ 2`:
    `LT` exactly, `GT` up to the slack -/
theorem sound_partial (maxN : Nat) (x bound cmp : Int) (r : CmpRes) (hx : 0 ≤ x) (hx1 : x ≤ P)
    (hb : 2 ≤ bound) (h : refExpCmp maxN x bound cmp = some r) :
    (r.estimation = .lt → toReal cmp < Real.exp (toReal x)) ∧
    (r.estimation = .gt → Real.exp (toReal x) <
      toReal cmp + (3 * (r.iterations : ℝ) + 3 * (bound : ℝ)) / (P : ℝ)) :=
  ⟨lt_sound maxN x bound cmp r hx h, gt_sound_partial maxN x bound cmp r hx hx1 hb h⟩

/-! ## the full statement fails for the reference algorithm itself (known finding) -/

def wx : Int := 77982159504890115185311
def wc : Int := 10000000000077982159505194176045364

theorem gt_window_witness_run :
    refExpCmp 1000 wx 3 wc = some ⟨2, .gt, 10000000000077982159505194176045363⟩ := by
  decide +kernel

theorem gt_window_witness_below : toReal wc < Real.exp (toReal wx) := by
  have hr0 : (0 : ℝ) ≤ toReal wx := by simp only [toReal, wx, P]; positivity
  have h := Real.sum_le_exp_of_nonneg hr0 4
  simp only [Finset.sum_range_succ, Finset.sum_range_zero, Nat.factorial] at h
  refine lt_of_lt_of_le ?_ h
  simp only [toReal, wx, wc, P]
  norm_num

/-- `bound = 3` dominates `e^|x|` at the witness, the verdict is `GT`, and `compare < e^x` -/
theorem soundFull_fails_at_witness : ¬ SoundFull := by
  intro hs
  have hx0 : (0 : ℝ) ≤ toReal wx := by simp only [toReal, wx, P]; positivity
  have hx1 : toReal wx ≤ 1 := by simp only [toReal, wx, P]; norm_num
  have hb : Real.exp |toReal wx| ≤ ((3 : Int) : ℝ) := by
    rw [abs_of_nonneg hx0]
    have h1 : Real.exp (toReal wx) ≤ Real.exp 1 := Real.exp_le_exp.mpr hx1
    -- e ≤ 4 is not enough here; use e = 1/e^-1 with e^-1 ≥ (5/6)^6 > 1/3
    have h2 : (5 : ℝ) / 6 ≤ Real.exp (-1 / 6) := by
      have := Real.add_one_le_exp (-1 / 6 : ℝ); linarith
    have h3 : Real.exp (-1) = Real.exp (-1 / 6) ^ 6 := by
      rw [← Real.exp_nat_mul]; norm_num
    have h4 : ((5 : ℝ) / 6) ^ 6 ≤ Real.exp (-1) := by
      rw [h3]; exact pow_le_pow_left₀ (by norm_num) h2 6
    have h5 : Real.exp 1 * Real.exp (-1) = 1 := by rw [← Real.exp_add]; norm_num
    have h6 := Real.exp_pos 1
    push_cast
    have h7 : (1 : ℝ) / 3 < ((5 : ℝ) / 6) ^ 6 := by norm_num
    nlinarith
  have := (hs 1000 wx 3 wc _ hb gt_window_witness_run).1 rfl
  exact absurd gt_window_witness_below (not_lt.mpr this.le)

/-! ## the recorded (repaired) deviation -/

theorem orig_witness_run :
    refExpCmpOrig 1000 (-P) 4 (P / 10) = some ⟨2, .gt, P / 2⟩ ∧
    (refExpCmp 1000 (-P) 4 (P / 10)).map (·.estimation) = some .lt := by
  constructor <;> decide +kernel

/-- the unrepaired `ref_exp_cmp` violates the full statement: `x = -1`, `bound = 4 ≥ e`,
    `compare = 0.1 < 1/4 ≤ e^-1`, verdict `GT` -/
theorem origSoundFull_fails_at_witness : ¬ SoundFor refExpCmpOrig := by
  intro hs
  have hx : toReal (-P) = -1 := by
    simp only [toReal]; push_cast; rw [neg_div, div_self P_real_pos.ne']
  -- e^-1 = (e^(-1/2))^2 ≥ (1/2)^2 > 0.1, hence also e ≤ 4
  have h1 : (1 : ℝ) / 2 ≤ Real.exp (-1 / 2) := by
    have := Real.add_one_le_exp (-1 / 2 : ℝ); linarith
  have h2 : Real.exp (-1) = Real.exp (-1 / 2) * Real.exp (-1 / 2) := by
    rw [← Real.exp_add]; norm_num
  have h3 : (1 : ℝ) / 4 ≤ Real.exp (-1) := by
    rw [h2]; nlinarith
  have hb : Real.exp |toReal (-P)| ≤ ((4 : Int) : ℝ) := by
    rw [hx, abs_neg, abs_one]; push_cast
    have h4 : Real.exp 1 * Real.exp (-1) = 1 := by rw [← Real.exp_add]; norm_num
    have h5 := Real.exp_pos 1
    nlinarith
  have := (hs 1000 (-P) 4 (P / 10) _ hb orig_witness_run.1).1 rfl
  rw [hx] at this
  have hc : toReal (P / 10) = 1 / 10 := by
    have e : (P / 10 : Int) * 10 = P := by decide
    simp only [toReal]
    rw [div_eq_iff P_real_pos.ne']
    have : ((P / 10 : Int) : ℝ) * 10 = (P : ℝ) := by exact_mod_cast e
    linarith
  rw [hc] at this
  linarith

/-! ## non-vacuity: all three verdicts occur, the hypotheses are inhabited -/
example : refExpCmp 1000 P 3 (2 * P) = some ⟨2, .lt, 25000000000000000000000000000000000⟩ := by decide +kernel
example : (refExpCmp 1000 P 3 (3 * P)).map (·.estimation) = some .gt := by decide +kernel
example : (refExpCmp 1000 P 3 E).map (·.estimation) = some .unknown := by decide +kernel
example : (refExpCmp 3 P 3 E).map (·.iterations) = some 3 := by decide +kernel

end PallasVerif.Props.C16
