import Mathlib.Analysis.Complex.Exponential
import PallasVerif.Model.RefMath
import PallasVerif.Proofs.ExpCmp
import PallasVerif.Proofs.ExpCmpReal
/-!
# C16 — Bounded exp comparison never reaches a wrong conclusion

Model: `refExpCmp` in `Model/RefMath.lean` (transcription of `ref_exp_cmp`, loop on fuel `max_n`).
`toReal z = z / 10^34`. `tterm x i` / `psum x n` are the fixed-point Taylor terms / partial sums
exactly as the code computes them (`Proofs/ExpCmp.lean`).

**Full statement** (`SoundFull`): whenever `bound ≥ e^|x|`, `GT → e^x < compare` and
`LT → compare < e^x`.

What is proved, for ALL `max_n`, `x`, `bound`, `compare` (unbounded integers):
* `never_panics`, `iterations_le_maxN`, `approx_eq_taylor_prefix`, `verdict_spec`,
  `unknown_otherwise` — exact description of the result (which partial sum, which inequality
  triggered, why it stopped);
* `lt_sound` — for `0 ≤ x` (the leader-check domain) `LT` is right in the reals, with NO assumption
  on `bound`: every Taylor term is rounded down (`scale` floors, `div` truncates non-negatives),
  so the approximation is `≤ Real.exp x` (`Real.sum_le_exp_of_nonneg`), and the error term is a magnitude;
* `sound_partial` — the part of `SoundFull` that follows (the `LT` half on `0 ≤ x`).
Not proved: the `GT` half (needs a two-sided rounding-error analysis of the accumulated terms
against the Lagrange remainder) and negative `x` (alternating terms, mixed rounding directions); both
are checked on the implementation by the harness oracle (rigorous 90-digit enclosure of `e^x`) only.

**Recorded deviation (repaired)**: the unrepaired tree used the SIGNED product `error * bound_x` as
error term, so for negative `x` `upper < lower` at every other step and `GT` was returned for
values far below `e^x`: `origSoundFull_fails_at_witness` (`x = -1`, `bound = 4`, `compare = 0.1`).
-/
namespace PallasVerif.Props.C16
open PallasVerif.Decimal PallasVerif.RefMath PallasVerif.Proofs.ExpCmp

/-- the full property for an `exp_cmp` implementation `f` -/
def SoundFor (f : Nat → Int → Int → Int → Option CmpRes) : Prop :=
  ∀ (maxN : Nat) (x bound cmp : Int) (r : CmpRes),
    Real.exp |toReal x| ≤ (bound : ℝ) → f maxN x bound cmp = some r →
    (r.estimation = .gt → Real.exp (toReal x) < toReal cmp) ∧
    (r.estimation = .lt → toReal cmp < Real.exp (toReal x))

/-- full statement for the (repaired) code -/
def SoundFull : Prop := SoundFor refExpCmp

/-- the comparison never panics (the divisor `(n+2)·10^34` is never zero) -/
theorem never_panics (maxN : Nat) (x bound cmp : Int) : ∃ r, refExpCmp maxN x bound cmp = some r :=
  let ⟨r, h, _⟩ := refExpCmp_spec true maxN x bound cmp; ⟨r, h⟩

theorem iterations_le_maxN (maxN : Nat) (x bound cmp : Int) (r : CmpRes)
    (h : refExpCmp maxN x bound cmp = some r) : r.iterations ≤ maxN := by
  obtain ⟨r', h', post⟩ := refExpCmp_spec true maxN x bound cmp
  have : r = r' := by rw [refExpCmp, h'] at h; exact (Option.some.inj h).symm
  subst this; have := post.hi; omega

/-- the reported approximation is the fixed-point Taylor prefix `1 + Σ_{i<iterations} tterm x i` -/
theorem approx_eq_taylor_prefix (maxN : Nat) (x bound cmp : Int) (r : CmpRes)
    (h : refExpCmp maxN x bound cmp = some r) : r.approx = psum x r.iterations := by
  obtain ⟨r', h', post⟩ := refExpCmp_spec true maxN x bound cmp
  have : r = r' := by rw [refExpCmp, h'] at h; exact (Option.some.inj h).symm
  subst this; exact post.approx

/-- a decisive verdict is exactly the corresponding inequality against
    `approx ± |next term · bound|`, taken at the first iteration where one of them holds -/
theorem verdict_spec (maxN : Nat) (x bound cmp : Int) (r : CmpRes)
    (h : refExpCmp maxN x bound cmp = some r) :
    (r.estimation = .gt → 0 < r.iterations ∧
      cmp > r.approx + ((tterm x r.iterations * bound).natAbs : Int)) ∧
    (r.estimation = .lt → 0 < r.iterations ∧
      cmp < r.approx - ((tterm x r.iterations * bound).natAbs : Int) ∧
      ¬ cmp > r.approx + ((tterm x r.iterations * bound).natAbs : Int)) := by
  obtain ⟨r', h', post⟩ := refExpCmp_spec true maxN x bound cmp
  have : r = r' := by rw [refExpCmp, h'] at h; exact (Option.some.inj h).symm
  subst this
  constructor
  · intro e; obtain ⟨a, b, _⟩ := post.gt e; exact ⟨a, by simpa [errorTermOf] using b⟩
  · intro e; obtain ⟨a, b, c, _⟩ := post.lt e
    exact ⟨a, by simpa [errorTermOf] using b, by simpa [errorTermOf] using c⟩

/-- otherwise the answer is UNKNOWN: the iteration budget is used up or the next term is below
    `EPS = 10^-24` -/
theorem unknown_otherwise (maxN : Nat) (x bound cmp : Int) (r : CmpRes)
    (h : refExpCmp maxN x bound cmp = some r) (hu : r.estimation = .unknown) :
    r.iterations = maxN ∨ (tterm x r.iterations).natAbs < EPS.natAbs := by
  obtain ⟨r', h', post⟩ := refExpCmp_spec true maxN x bound cmp
  have : r = r' := by rw [refExpCmp, h'] at h; exact (Option.some.inj h).symm
  subst this
  rcases post.unknown hu with h1 | h1
  · left; omega
  · right; simpa [absLt] using h1

/-- **LT is sound** on the leader-check domain `0 ≤ x`, for every bound, budget and compare value -/
theorem lt_sound (maxN : Nat) (x bound cmp : Int) (r : CmpRes) (hx : 0 ≤ x)
    (h : refExpCmp maxN x bound cmp = some r) (hlt : r.estimation = .lt) :
    toReal cmp < Real.exp (toReal x) := by
  obtain ⟨_, hc, _⟩ := (verdict_spec maxN x bound cmp r h).2 hlt
  have ha := approx_eq_taylor_prefix maxN x bound cmp r h
  have hle := psum_le_exp x hx r.iterations
  have hcmp : cmp < psum x r.iterations := by rw [← ha]; omega
  have : toReal cmp < toReal (psum x r.iterations) := by
    simp only [toReal]
    exact div_lt_div_of_pos_right (by exact_mod_cast hcmp) P_real_pos
  linarith

/-- the proved part of `SoundFull`: the `LT` half for `0 ≤ x` -/
theorem sound_partial (maxN : Nat) (x bound cmp : Int) (r : CmpRes) (hx : 0 ≤ x)
    (_hb : Real.exp |toReal x| ≤ (bound : ℝ)) (h : refExpCmp maxN x bound cmp = some r) :
    r.estimation = .lt → toReal cmp < Real.exp (toReal x) :=
  lt_sound maxN x bound cmp r hx h

/-! ## the recorded (repaired) deviation -/

theorem orig_witness_run :
    refExpCmpOrig 1000 (-P) 4 (P / 10) = some ⟨2, .gt, P / 2⟩ ∧
    (refExpCmp 1000 (-P) 4 (P / 10)).map (·.estimation) = some .lt := by
  constructor <;> decide +kernel

/-- the unrepaired `ref_exp_cmp` violates the full statement: `x = -1`, `bound = 4 ≥ e`,
    `compare = 0.1 < 1/4 ≤ e^-1`, verdict `GT` -/
theorem origSoundFull_fails_at_witness : ¬ SoundFor refExpCmpOrig := by
  intro hs
  have hx : toReal (-P) = -1 := by
    simp only [toReal]; push_cast; rw [neg_div, div_self P_real_pos.ne']
  -- e^-1 = (e^(-1/2))^2 ≥ (1/2)^2 > 0.1, hence also e ≤ 4
  have h1 : (1 : ℝ) / 2 ≤ Real.exp (-1 / 2) := by
    have := Real.add_one_le_exp (-1 / 2 : ℝ); linarith
  have h2 : Real.exp (-1) = Real.exp (-1 / 2) * Real.exp (-1 / 2) := by
    rw [← Real.exp_add]; norm_num
  have h3 : (1 : ℝ) / 4 ≤ Real.exp (-1) := by
    rw [h2]; nlinarith
  have hb : Real.exp |toReal (-P)| ≤ ((4 : Int) : ℝ) := by
    rw [hx, abs_neg, abs_one]; push_cast
    have h4 : Real.exp 1 * Real.exp (-1) = 1 := by rw [← Real.exp_add]; norm_num
    have h5 := Real.exp_pos 1
    nlinarith
  have := (hs 1000 (-P) 4 (P / 10) _ hb orig_witness_run.1).1 rfl
  rw [hx] at this
  have hc : toReal (P / 10) = 1 / 10 := by
    have e : (P / 10 : Int) * 10 = P := by decide
    simp only [toReal]
    rw [div_eq_iff P_real_pos.ne']
    have : ((P / 10 : Int) : ℝ) * 10 = (P : ℝ) := by exact_mod_cast e
    linarith
  rw [hc] at this
  linarith

/-! ## non-vacuity: all three verdicts occur, the hypotheses are inhabited -/
example : refExpCmp 1000 P 3 (2 * P) = some ⟨2, .lt, 25000000000000000000000000000000000⟩ := by decide +kernel
example : (refExpCmp 1000 P 3 (3 * P)).map (·.estimation) = some .gt := by decide +kernel
example : (refExpCmp 1000 P 3 E).map (·.estimation) = some .unknown := by decide +kernel
example : (refExpCmp 3 P 3 E).map (·.iterations) = some 3 := by decide +kernel

end PallasVerif.Props.C16
