import PallasVerif.Model.Traverse
import PallasVerif.Proofs.Cbor
import PallasVerif.Proofs.Traverse
/-!
# C30 — Block traversal exposes each transaction with its own parts

`Model/Traverse.lean` transcribes `probe::block_era`, the `clone_tx_fn!` macro, `clone_*_txs`
and `tx_count`. Theorems, for every block record (any number of bodies / witness sets, any
auxiliary-data wire map incl. duplicate and out-of-range keys, any invalid list):

* `txs_spec` — when every body has a witness set (`|bodies| ≤ |wits|`, the shape of every block the
  ledger accepts) the i-th traversed transaction is (i-th body, i-th witness set, aux keyed by i,
  invalid iff i is listed), and there are exactly `|bodies|` of them (`tx_count_eq`);
* `aux_keyed_by_index` — the aux found for i is the value the wire map binds to key i
  (the last binding if the key is repeated — `BTreeMap::insert`);
* `txs_missing_wits` — the behaviour outside that hypothesis, stated so it is visible: with fewer
  witness sets than bodies the trailing transactions are dropped and `txs().len() < tx_count()`;
* `era_is_wrapper_tag` / `era_probe_sound` — the probe returns the table entry of the wrapper tag
  exactly for byte strings that start with a definite array head of value 2 followed by an
  unsigned head of at most one argument byte.
-/
namespace PallasVerif.Props.C30
open PallasVerif.Cbor PallasVerif.Traverse

variable {B W A : Type}

/-! ## aux lookup -/

/-- the value the wire map binds to key `i`: the last entry with that key -/
def lastMatch (i : Nat) : List (Nat × A) → Option A
  | [] => none
  | (k, v) :: rest =>
    match lastMatch i rest with
    | some x => some x
    | none => if k = i then some v else none

theorem findAux_btInsert (i k : Nat) (v : A) (m : List (Nat × A)) :
    findAux i (btInsert k v m) = if k = i then some v else findAux i m := by
  induction m with
  | nil => simp [btInsert, findAux]
  | cons p rest ih =>
    obtain ⟨k', v'⟩ := p
    simp only [btInsert]
    split
    · simp [findAux]
    · split
      · rename_i h1 h2
        subst h2
        by_cases e : k = i <;> simp [findAux, e]
      · rename_i h1 h2
        simp only [findAux, ih]
        by_cases e : k = i
        · have : ¬ k' = i := fun e' => h2 (e.trans e'.symm)
          simp [e, this]
        · simp [e]

theorem findAux_foldl (i : Nat) (wire m : List (Nat × A)) :
    findAux i (wire.foldl (fun m kv => btInsert kv.1 kv.2 m) m) =
      match lastMatch i wire with
      | some x => some x
      | none => findAux i m := by
  induction wire generalizing m with
  | nil => simp [lastMatch]
  | cons p rest ih =>
    obtain ⟨k, v⟩ := p
    simp only [List.foldl_cons, ih, lastMatch, findAux_btInsert]
    cases lastMatch i rest with
    | some x => rfl
    | none => by_cases e : k = i <;> simp [e]

/-- the auxiliary data found for index `i` is the one the wire map keys by `i` -/
theorem aux_keyed_by_index (i : Nat) (wire : List (Nat × A)) :
    findAux i (auxOfWire wire) = lastMatch i wire := by
  simp only [auxOfWire, findAux_foldl]
  cases lastMatch i wire <;> simp [findAux]

/-- with pairwise distinct keys `lastMatch` is the plain association lookup -/
theorem lastMatch_eq_lookup (i : Nat) (wire : List (Nat × A)) (h : (wire.map Prod.fst).Nodup) :
    lastMatch i wire = wire.lookup i := by
  induction wire with
  | nil => rfl
  | cons p rest ih =>
    obtain ⟨k, v⟩ := p
    simp only [List.map_cons, List.nodup_cons] at h
    simp only [lastMatch, ih h.2, List.lookup_cons]
    by_cases e : k = i
    · subst e
      have : rest.lookup k = none := by
        rw [List.lookup_eq_none_iff]; intro p hp
        simp only [bne_iff_ne, ne_eq]
        intro e
        exact h.1 (List.mem_map.mpr ⟨p, hp, e.symm⟩)
      simp [this]
    · have e' : (i == k) = false := by simpa using fun x => e x.symm
      cases rest.lookup i <;> simp [e, e']

/-! ## transaction assembly -/

/-- the transaction the property describes for index `i` -/
def expectedTx (b : Block B W A) (i : Nat) (body : B) (w : W) : Tx B W A :=
  { body := body, wits := w,
    success := !(match b.invalid with | some xs => xs.contains i | none => false),
    aux := findAux i b.aux }

theorem filterMap_eq_map_of {α β} (f : α → Option β) (g : α → β) (l : List α)
    (h : ∀ x ∈ l, f x = some (g x)) : l.filterMap f = l.map g := by
  induction l with
  | nil => rfl
  | cons x xs ih =>
    simp only [List.filterMap_cons, h x (by simp), List.map_cons]
    rw [ih (fun y hy => h y (List.mem_cons_of_mem _ hy))]

theorem filterMap_eq_nil_of {α β} (f : α → Option β) (l : List α)
    (h : ∀ x ∈ l, f x = none) : l.filterMap f = [] := by
  induction l with
  | nil => rfl
  | cons x xs ih =>
    simp only [List.filterMap_cons, h x (by simp)]
    exact ih (fun y hy => h y (List.mem_cons_of_mem _ hy))

theorem cloneTxAt_some (b : Block B W A) (i : Nat) (hb : i < b.bodies.length) (hw : i < b.wits.length)
    (hn : i < 4294967296) :
    cloneTxAt b i = some (expectedTx b i b.bodies[i] b.wits[i]) := by
  have h32 : asU32 i = i := Nat.mod_eq_of_lt hn
  cases hinv : b.invalid <;>
    simp [cloneTxAt, expectedTx, List.getElem?_eq_getElem hb, List.getElem?_eq_getElem hw, h32, hinv]

theorem cloneTxAt_none_of_wits (b : Block B W A) (i : Nat) (hw : b.wits.length ≤ i) : cloneTxAt b i = none := by
  simp only [cloneTxAt]
  cases b.bodies[i]? with
  | none => rfl
  | some body => simp [List.getElem?_eq_none hw]

/-- **the i-th traversed transaction consists of the i-th body, the i-th witness set, the
    auxiliary data keyed by i, and is marked invalid exactly when i is listed** -/
theorem txs_spec (b : Block B W A) (hw : b.bodies.length ≤ b.wits.length) (hn : b.bodies.length ≤ 4294967296)
    (i : Nat) (hi : i < b.bodies.length) :
    (cloneTxs b)[i]? = some (expectedTx b i b.bodies[i] (b.wits[i]'(Nat.lt_of_lt_of_le hi hw))) := by
  have hmap : cloneTxs b = (List.range b.bodies.length).map
      (fun j => if h : j < b.bodies.length then expectedTx b j b.bodies[j] (b.wits[j]'(Nat.lt_of_lt_of_le h hw))
        else expectedTx b i b.bodies[i] (b.wits[i]'(Nat.lt_of_lt_of_le hi hw))) := by
    apply filterMap_eq_map_of
    intro j hj
    have hj' : j < b.bodies.length := List.mem_range.mp hj
    simp only [hj', dite_true]
    exact cloneTxAt_some b j hj' (Nat.lt_of_lt_of_le hj' hw) (by omega)
  rw [hmap, List.getElem?_map, List.getElem?_range hi]
  simp [hi]

/-- validity flag in words: the i-th transaction is flagged invalid iff `i` is in the invalid list -/
theorem is_valid_iff (b : Block B W A) (i : Nat) (body : B) (w : W) :
    (expectedTx b i body w).success = false ↔ ∃ xs, b.invalid = some xs ∧ i ∈ xs := by
  simp only [expectedTx]
  cases b.invalid with
  | none => simp
  | some xs => simp

theorem length_filterMap_of_isSome {α β} (f : α → Option β) (l : List α)
    (h : ∀ x ∈ l, (f x).isSome = true) : (l.filterMap f).length = l.length := by
  induction l with
  | nil => rfl
  | cons x xs ih =>
    have hx := h x (by simp)
    cases hfx : f x with
    | none => rw [hfx] at hx; cases hx
    | some y =>
      simp only [List.filterMap_cons, hfx, List.length_cons]
      rw [ih (fun y hy => h y (List.mem_cons_of_mem _ hy))]

/-- in general the traversal yields `min |bodies| |wits|` transactions -/
theorem cloneTxs_length (b : Block B W A) (hn : b.bodies.length ≤ 4294967296) :
    (cloneTxs b).length = min b.bodies.length b.wits.length := by
  let k := min b.bodies.length b.wits.length
  have hk : k = min b.bodies.length b.wits.length := rfl
  have hsplit : b.bodies.length = k + (b.bodies.length - k) := by omega
  have hr : List.range b.bodies.length = List.range k ++ (List.range (b.bodies.length - k)).map (k + ·) := by
    rw [← List.range_add, ← hsplit]
  simp only [cloneTxs]
  rw [hr, List.filterMap_append]
  have h2 : ((List.range (b.bodies.length - k)).map (k + ·)).filterMap (cloneTxAt b) = [] := by
    apply filterMap_eq_nil_of
    intro x hx
    obtain ⟨y, hy, rfl⟩ := List.mem_map.mp hx
    have hy' := List.mem_range.mp hy
    apply cloneTxAt_none_of_wits
    omega
  have h1 : ((List.range k).filterMap (cloneTxAt b)).length = k := by
    rw [length_filterMap_of_isSome, List.length_range]
    intro j hj
    have hj' := List.mem_range.mp hj
    rw [cloneTxAt_some b j (by omega) (by omega) (by omega)]; rfl
  rw [h2, List.append_nil, h1]

/-- **the transaction count matches** (every body has a witness set) -/
theorem tx_count_eq (b : Block B W A) (hw : b.bodies.length ≤ b.wits.length) (hn : b.bodies.length ≤ 4294967296) :
    (cloneTxs b).length = txCount b := by
  rw [cloneTxs_length b hn, txCount]; omega

/-- outside the hypothesis: with fewer witness sets than bodies the trailing transactions are
    dropped, and the traversed list is shorter than `tx_count` -/
theorem txs_missing_wits (b : Block B W A) (hw : b.wits.length < b.bodies.length) (hn : b.bodies.length ≤ 4294967296) :
    (cloneTxs b).length = b.wits.length ∧ (cloneTxs b).length < txCount b := by
  rw [cloneTxs_length b hn, txCount]; omega

/-! ## from the wire bytes to the traversed transactions -/

open PallasVerif.TxView PallasVerif.Traverse.Slices in
/-- **end to end on bytes**: for a block `bs` whose generic parse has the post-Byron shape, with a
    witness set for every body, the i-th traversed transaction carries the original bytes of the i-th
    body and of the i-th witness set — both contiguous slices of `bs` —, the auxiliary data the
    wire map binds to `i` (again a slice of `bs`), and is flagged invalid iff `i` is listed -/
theorem traverse_bytes (bs : Bytes) (v : BlockView) (hv : viewBlock bs = some v)
    (hw : v.bodies.length ≤ v.wits.length) (hn : v.bodies.length ≤ 4294967296) (i : Nat) (hi : i < v.bodies.length) :
    ∃ tx, (cloneTxs (recordOfView v))[i]? = some tx ∧
      tx.body = (v.bodies[i]).encode ∧ tx.wits = (v.wits[i]'(Nat.lt_of_lt_of_le hi hw)).encode ∧
      Slice tx.body bs ∧ Slice tx.wits bs ∧
      tx.aux = lastMatch i (v.auxWire.map fun p => (p.1, p.2.encode)) ∧
      (∀ a, tx.aux = some a → Slice a bs) ∧
      (tx.success = false ↔ ∃ xs, v.invalid = some xs ∧ i ∈ xs) := by
  -- bs is the encoding of the parsed tree
  have hbs : ∃ top, bs = top.encode ∧ viewBlockItem top = some v := by
    unfold viewBlock at hv
    split at hv
    · rename_i top hp
      obtain ⟨e, _⟩ := parseItem_sound bs top [] hp
      exact ⟨top, by simpa using e, hv⟩
    · cases hv
  obtain ⟨top, rfl, hvi⟩ := hbs
  obtain ⟨_, hb, hwt, hax, _, _⟩ := view_parts_are_slices top v hvi
  have hb' : (recordOfView v).bodies.length = v.bodies.length := by simp [recordOfView]
  have hw' : (recordOfView v).wits.length = v.wits.length := by simp [recordOfView]
  have spec := txs_spec (recordOfView v) (by omega) (by omega) i (by omega)
  refine ⟨_, spec, ?_, ?_, ?_, ?_, ?_, ?_, ?_⟩
  · simp [expectedTx, recordOfView]
  · simp [expectedTx, recordOfView]
  · simp only [expectedTx, recordOfView, List.getElem_map]
    exact hb _ (List.getElem_mem _)
  · simp only [expectedTx, recordOfView, List.getElem_map]
    exact hwt _ (List.getElem_mem _)
  · simp only [expectedTx, recordOfView]
    exact aux_keyed_by_index i _
  · intro a ha
    simp only [expectedTx, recordOfView] at ha
    rw [aux_keyed_by_index] at ha
    obtain ⟨p, hp, rfl⟩ := lastMatch_mem i _ a ha
    obtain ⟨q, hq, rfl⟩ := List.mem_map.mp hp
    exact hax q hq
  · exact is_valid_iff (recordOfView v) i _ _
where
  lastMatch_mem {A : Type} (i : Nat) : ∀ (wire : List (Nat × A)) (a : A), lastMatch i wire = some a →
      ∃ p ∈ wire, p.2 = a
    | [], a, h => by simp [lastMatch] at h
    | (k, v) :: rest, a, h => by
      simp only [lastMatch] at h
      cases hr : lastMatch i rest with
      | some x =>
        simp only [hr] at h
        have hx : x = a := Option.some.inj h
        subst hx
        obtain ⟨p, hp, e⟩ := lastMatch_mem i rest x hr
        exact ⟨p, List.mem_cons_of_mem _ hp, e⟩
      | none =>
        simp only [hr] at h
        by_cases e : k = i
        · simp only [e, if_true] at h
          have hv : v = a := Option.some.inj h
          exact ⟨(k, v), by simp, hv⟩
        · simp [e] at h

/-! ## era probe -/

/-- **the era is the one the wrapper declares**: on any input that starts with a definite array
    head of value 2 and an unsigned head with at most one argument byte, the probe answers with
    the table entry of that unsigned value (0 ⇒ epoch boundary, 1 ⇒ Byron, …, 7 ⇒ Conway, else
    inconclusive) -/
theorem era_is_wrapper_tag (h1 h2 : Head) (rest : Bytes) (w1 : h1.wf = true) (w2 : h2.wf = true)
    (a1 : h1.major = 4) (a2 : h1.ai ≠ 31) (a3 : h1.val = 2) (b1 : h2.major = 0) (b2 : h2.ai ≤ 24) :
    blockEra (h1.encode ++ (h2.encode ++ rest)) = variantTable h2.val := by
  simp [blockEra, decodeHead_encode h1 _ w1, decodeHead_encode h2 _ w2, a1, a2, a3, b1, b2]

/-- conversely a conclusive answer is only given on such inputs -/
theorem era_probe_sound (bs : Bytes) (h : blockEra bs ≠ .inconclusive) :
    ∃ (h1 h2 : Head) (rest : Bytes), bs = h1.encode ++ (h2.encode ++ rest) ∧ h1.wf = true ∧ h2.wf = true ∧ h1.major = 4 ∧ h1.ai ≠ 31 ∧
      h1.val = 2 ∧ h2.major = 0 ∧ h2.ai ≤ 24 ∧ blockEra bs = variantTable h2.val := by
  unfold blockEra at h ⊢
  cases hd1 : decodeHead bs with
  | none => simp [hd1] at h
  | some p1 =>
    obtain ⟨h1, r1⟩ := p1
    simp only [hd1] at h ⊢
    by_cases c1 : h1.major = 4 ∧ h1.ai ≠ 31 ∧ h1.val = 2
    · rw [if_pos c1] at h ⊢
      cases hd2 : decodeHead r1 with
      | none => simp [hd2] at h
      | some p2 =>
        obtain ⟨h2, r2⟩ := p2
        simp only [hd2] at h ⊢
        by_cases c2 : h2.major = 0 ∧ h2.ai ≤ 24
        · rw [if_pos c2] at h ⊢
          obtain ⟨e1, w1⟩ := decodeHead_sound bs h1 r1 hd1
          obtain ⟨e2, w2⟩ := decodeHead_sound r1 h2 r2 hd2
          exact ⟨h1, h2, r2, by rw [e1, e2], w1, w2, c1.1, c1.2.1, c1.2.2, c2.1, c2.2, rfl⟩
        · simp [c2] at h
    · simp [c1] at h

/-- the table, spelled out -/
theorem variant_table_values :
    variantTable 0 = .epochBoundary ∧ variantTable 1 = .matched .byron ∧ variantTable 2 = .matched .shelley ∧
    variantTable 3 = .matched .allegra ∧ variantTable 4 = .matched .mary ∧ variantTable 5 = .matched .alonzo ∧
    variantTable 6 = .matched .babbage ∧ variantTable 7 = .matched .conway ∧
    ∀ n, 8 ≤ n → variantTable n = .inconclusive := by
  refine ⟨rfl, rfl, rfl, rfl, rfl, rfl, rfl, rfl, ?_⟩
  intro n hn
  match n, hn with
  | n + 8, _ => rfl

/-! ## Non-vacuity -/

def demo : Block String String String :=
  { bodies := ["b0", "b1", "b2", "b3"], wits := ["w0", "w1", "w2", "w3"],
    aux := auxOfWire [(3, "a3"), (1, "a1-old"), (9, "a9"), (1, "a1")], invalid := some [2, 7, 2] }

example : (cloneTxs demo).map (fun t => (t.body, t.wits, t.success, t.aux)) =
    [("b0", "w0", true, none), ("b1", "w1", true, some "a1"), ("b2", "w2", false, none), ("b3", "w3", true, some "a3")] := by
  decide
example : (cloneTxs { demo with wits := ["w0", "w1"] }).length = 2 ∧ txCount { demo with wits := ["w0", "w1"] } = 4 := by decide
example : blockEra [0x82, 0x07, 0x85] = .matched .conway := by decide
example : blockEra [0x98, 0x02, 0x18, 0x05] = .matched .alonzo := by decide
example : blockEra [0x82, 0x00] = .epochBoundary := by decide
example : blockEra [0x9f, 0x07] = .inconclusive ∧ blockEra [0x82, 0x19, 0x00, 0x07] = .inconclusive ∧
    blockEra [0x82, 0x08] = .inconclusive ∧ blockEra [0x83, 0x07] = .inconclusive := by decide

end PallasVerif.Props.C30
