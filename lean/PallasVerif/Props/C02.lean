import PallasVerif.Model.Flat
import PallasVerif.Proofs.FlatTotal
/-!
# C02 — Flat decoding is total on arbitrary bytes

`Model/Flat.lean` transcribes `decoder.rs` with every place where the Rust would trap (index out of
range, slice past the end, `u8`/`usize` shift by at least the bit width, subtraction below zero)
as an explicit `panic` outcome; loops take fuel and an exhausted fuel is a `panic` as well.
`Proofs/FlatTotal.lean` shows for each entry point that from a state with `used_bits < 8` and the
cursor inside the buffer the outcome is never `panic`, the invariant holds again (after `Ok` *and*
after `Err`, since the caller keeps the decoder), and the buffer is the same.

The property is `dec_total`: for **every** byte string and **every** finite sequence of calls of the
public entry points on a `Decoder::new(bytes)`, no call panics. `decode_top_total` is the same for
`flat::decode::<T>` (`mod.rs`). `decode_list_with_total` covers `decode_list_with` for an arbitrary
element decoder that is itself safe.

The three arms that did panic before the `fix:` commits are kept as `Orig.*`; the `orig_*_panics`
theorems are the recorded witnesses (DESIGN §6 #1–#3) evaluated on those arms.
-/
namespace PallasVerif.Props.C02
open PallasVerif.Flat

/-- every public entry point is safe from an invariant state -/
theorem call_safe (d : Dec) (h : d.Inv) (op : DOp) :
    ∃ d', d.call op = some d' ∧ d'.Inv ∧ d'.buf = d.buf := by
  have key : ∀ {α : Type} (r : Res α), Res.Safe d r → ∃ d', r.next = some d' ∧ d'.Inv ∧ d'.buf = d.buf := by
    intro α r hr
    cases r with
    | ok a d' => exact ⟨d', rfl, hr.2.1, hr.1⟩
    | err e d' => exact ⟨d', rfl, hr.2.1, hr.1⟩
    | panic => exact absurd hr (Res.safe_panic d)
  cases op with
  | bool => exact key _ (Dec.bit_safe d h).1
  | u8 => exact key _ (Dec.u8_safe d h)
  | bits8 n => exact key _ (Dec.bits8_safe d n h).1
  | word => exact key _ (Dec.word_safe d h)
  | integer => exact key _ (Dec.integer_safe d h)
  | char => exact key _ (Dec.char_safe d h)
  | string => exact key _ (Dec.list_safe Dec.char Dec.char_safe d h)
  | bytes => exact key _ (Dec.bytes_safe d h)
  | utf8 => exact key _ (Dec.utf8_safe d h)
  | filler => exact key _ (Dec.filler_safe d h)
  | bools => exact key _ (Dec.list_safe Dec.bool (fun d h => (Dec.bit_safe d h).1) d h)

/-- the invariant supporting `dec_total`: after any sequence of calls the cursor is inside the buffer -/
theorem runOps_of_inv (d : Dec) (h : d.Inv) (ops : List DOp) : d.runOps ops = true := by
  induction ops generalizing d with
  | nil => rfl
  | cons op ops ih =>
    obtain ⟨d', hc, hi, _⟩ := call_safe d h op
    simp only [Dec.runOps, hc]
    exact ih d' hi

/-- **C02.** For every byte string and every sequence of decoder calls, no call panics
    (no out-of-bounds read, no shift overflow, no non-termination within the loop bounds). -/
theorem dec_total (bytes : List Byte) (ops : List DOp) : (Dec.new bytes).runOps ops = true :=
  runOps_of_inv _ (Dec.inv_new bytes) ops

/-- every single entry point on every byte string returns a value or an error -/
theorem dec_total_single (bytes : List Byte) (op : DOp) : (Dec.new bytes).call op ≠ none := by
  obtain ⟨d', hc, _⟩ := call_safe _ (Dec.inv_new bytes) op
  simp [hc]

/-- positions stay within the buffer: `pos ≤ len`, and `pos = len` only with `used_bits = 0` -/
theorem pos_le_len (d : Dec) (h : d.Inv) (op : DOp) (d' : Dec) (hc : d.call op = some d') :
    d'.pos ≤ d'.buf.length ∧ d'.used < 8 ∧ (d'.pos = d'.buf.length → d'.used = 0) := by
  obtain ⟨d'', hc', hi, _⟩ := call_safe d h op
  rw [hc] at hc'
  cases hc'
  obtain ⟨h1, h2⟩ := hi
  simp only [Dec.cursor] at h2
  refine ⟨by omega, h1, by omega⟩

/-- `decode_list_with(f)` for any element decoder `f` that is itself safe -/
theorem decode_list_with_total {α : Type} (elem : Dec → Res α)
    (helem : ∀ d : Dec, d.Inv → Res.Safe d (elem d)) (bytes : List Byte) :
    (Dec.list elem (Dec.new bytes)).isPanic = false := by
  have := Dec.list_safe elem helem _ (Dec.inv_new bytes)
  cases hr : Dec.list elem (Dec.new bytes) with
  | panic => rw [hr] at this; exact absurd this (Res.safe_panic _)
  | ok a d => rfl
  | err e d => rfl

/-- `flat::decode::<T>(bytes)` (`mod.rs`: decode a `T`, then the filler) never panics, for every
    decodable `T` and every byte string -/
theorem decode_top_total (k : Kind) (bytes : List Byte) : (decodeTop k bytes).isPanic = false :=
  PallasVerif.Flat.decode_top_total k bytes

/-- The model computes `usize` / `isize` / `i64` additions and the one multiplication of
    `decoder.rs` in `Nat` / `Int`. This lists every such site and shows that, in any state the
    decoder can reach (`Dec.Inv`) on a buffer below 2^60 bytes, the exact value lies inside the
    machine type, so the Rust computes the same number and its overflow check does not fire.
    (`blkLen ≤ 255` is a byte; `n ≤ 8` is checked by `bits8` before any arithmetic.) -/
theorem arith_sites_in_range (d : Dec) (h : d.Inv) (hlen : d.buf.length < 2 ^ 60) (n blkLen : Nat)
    (hn : n ≤ 8) (hb : blkLen ≤ 255) :
    -- increment_buffer_by_bit: `self.pos += 1` (taken only when `pos < len`), `self.used_bits += 1`
    (d.pos < d.buf.length → d.pos + 1 < 2 ^ 64) ∧ d.used + 1 < 2 ^ 63 ∧
    -- ensure_bytes: `required as isize`, `len as isize - pos as isize`
    ((blkLen + 1 : Int) < 2 ^ 63 ∧ -(2 ^ 63 : Int) ≤ (d.buf.length : Int) - d.pos ∧ (d.buf.length : Int) - d.pos < 2 ^ 63) ∧
    -- ensure_bits: `(len as isize - pos as isize) * 8 - used_bits as isize`
    (-(2 ^ 63 : Int) ≤ ((d.buf.length : Int) - d.pos) * 8 - d.used ∧ ((d.buf.length : Int) - d.pos) * 8 < 2 ^ 63) ∧
    -- drop_bits: `num_bits as i64 + used_bits`, `pos += all_used_bits as usize / 8` (after ensure_bits)
    (n + d.used < 2 ^ 63 ∧ d.pos + (n + d.used) / 8 < 2 ^ 64) ∧
    -- bits8: `self.pos + 1`, `unused_bits + leading_zeroes`
    (d.pos + 1 < 2 ^ 64 ∧ (8 - d.used) + (8 - n) < 2 ^ 64) ∧
    -- byte_array: `blk_len as usize + 1`, `self.pos + blk_len as usize`, `self.pos += …`, `self.pos += 1`
    (blkLen + 1 < 2 ^ 64 ∧ (d.pos + blkLen + 1 ≤ d.buf.length → d.pos + blkLen + 1 < 2 ^ 64)) ∧
    -- word: `shl += 7` is an explicit trap site of the model (never reached: `wordLoop_safe`)
    True := by
  obtain ⟨hu, hc⟩ := h
  simp only [Dec.cursor] at hc
  refine ⟨?_, ?_, ⟨?_, ?_, ?_⟩, ⟨?_, ?_⟩, ⟨?_, ?_⟩, ⟨?_, ?_⟩, ⟨?_, ?_⟩, trivial⟩ <;> omega

/-! ## The unrepaired arms panic at the recorded witnesses -/

/-- #1 `Decoder::new(&[]).bool()` indexed `buffer[0]` -/
theorem orig_bool_panics : Orig.bool (Dec.new []) = .panic := by decide

/-- #2 eleven `0xff` bytes: the 11th round shifted a `usize` by 70 -/
theorem orig_word_panics : Orig.word (Dec.new (List.replicate 11 0xff#8)) = .panic := by decide

/-- #2' ten `0xff` and `0x01` -/
theorem orig_word_panics' : Orig.word (Dec.new (List.replicate 10 0xff#8 ++ [0x01#8])) = .panic := by decide

/-- #3 `bits8(0)` on empty input indexed `buffer[0]`; on non-empty input shifted a `u8` by 8 -/
theorem orig_bits8_zero_panics :
    Orig.bits8 (Dec.new []) 0 = .panic ∧ Orig.bits8 (Dec.new [0x01#8]) 0 = .panic := by decide

/-- the repaired arms on the same inputs -/
theorem fixed_at_witnesses :
    (Dec.new []).bool = .err .eob (Dec.new []) ∧
    (Dec.new (List.replicate 11 0xff#8)).word = .err .msg ⟨List.replicate 11 0xff#8, 10, 0⟩ ∧
    (Dec.new []).bits8 0 = .ok 0#8 (Dec.new []) := by decide

/-! ## Non-vacuity: the entry points do return values and errors -/
example : (Dec.new [0xAC#8, 0x02#8]).word = .ok 300 ⟨[0xAC#8, 0x02#8], 2, 0⟩ := by decide
example : (Dec.new [0x01#8, 0x02#8, 0xAA#8, 0xBB#8, 0x00#8]).bytes
    = .ok [0xAA#8, 0xBB#8] ⟨[0x01#8, 0x02#8, 0xAA#8, 0xBB#8, 0x00#8], 5, 0⟩ := by decide
example : (Dec.new [0x01#8, 0x05#8, 0xAA#8]).bytes = .err (.bytes 6) ⟨[0x01#8, 0x05#8, 0xAA#8], 2, 0⟩ := by decide
example : (Dec.new [0xff#8]).runOps [.bool, .bits8 3, .word, .filler, .bytes] = true := by decide

end PallasVerif.Props.C02
