import PallasVerif.Model.Decimal
import PallasVerif.Proofs.Decimal
import PallasVerif.Proofs.DecimalPrint
/-!
# C17 — Fixed-point arithmetic, rounding and printing are exact

Model: `Model/Decimal.lean` (`IBig` = `Int`, dashu `div_rem` = `tdiv`/`tmod`). A `Dec` with
fields `prec`, `data` denotes the rational `data / 10^prec`; every statement below is that
rational statement cross-multiplied by the (positive) denominators, so it lives on `Int` with no
division left. All theorems are for every `Int` / every precision (no bound).

* add/sub exact (`add_exact`, `sub_exact`, `neg_abs_exact`);
* `Mul` = floor of the exact product at 34 digits (`scale_is_floor`, `mul_is_floor_of_product`);
* `Div` = truncation of the exact quotient at 34 digits, panic iff divisor 0 (`div_is_trunc`);
* floor / ceil / trunc / round return multiples of `10^prec` with the bounds their names prescribe
  (`floor_spec`, `ceil_spec`, `ceil_sub_floor`, `trunc_spec`, `round_spec` — round is within one half
  at EVERY precision for the repaired `round`; the unrepaired one is `roundOrig`, equal to `round`
  for `0 < prec` and wrong at precision 0: `roundOrig_fails_at_prec0`);
* comparison = comparison of the rationals (`cmp_iff_rational`);
* printing is exact (`toString_exact`).
-/
namespace PallasVerif.Props.C17
open PallasVerif.Decimal PallasVerif.Proofs.Decimal

/-! ## arithmetic -/

/-- addition is exact (same precision: `data/10^p + data'/10^p = (data + data')/10^p`) -/
theorem add_exact (x y : Dec) : (add x y).data = x.data + y.data ∧ (add x y).prec = x.prec := ⟨rfl, rfl⟩

/-- subtraction is exact -/
theorem sub_exact (x y : Dec) : (sub x y).data = x.data - y.data ∧ (sub x y).prec = x.prec := ⟨rfl, rfl⟩

/-- negation and absolute value are exact -/
theorem neg_abs_exact (x : Dec) :
    (neg x).data = -x.data ∧ ((abs x).data = x.data ∨ (abs x).data = -x.data) ∧ 0 ≤ (abs x).data := by
  refine ⟨rfl, ?_, ?_⟩ <;> simp only [abs] <;> omega

/-- `scale` is the floor of `z / 10^34` -/
theorem scale_is_floor (z : Int) : scale z = z / P ∧ scale z * P ≤ z ∧ z < (scale z + 1) * P :=
  ⟨scale_eq_ediv z, scale_bounds z⟩

/-- multiplication = floor of the exact product at 34 digits:
    `r/10^34 ≤ (x/10^34)·(y/10^34) < (r+1)/10^34`, cross-multiplied -/
theorem mul_is_floor_of_product (x y : Dec) :
    (mul x y).data * P ≤ x.data * y.data ∧ x.data * y.data < ((mul x y).data + 1) * P ∧
    (mul x y).prec = x.prec :=
  ⟨(scale_bounds _).1, (scale_bounds _).2, rfl⟩

/-- division = truncation (toward zero) of the exact quotient at 34 digits: the two-step `div` is
    the single truncating division of `x·10^34` by `y`; it panics exactly for a zero divisor -/
theorem div_is_trunc (x y : Dec) :
    (y.data ≠ 0 → divD x y = some { prec := x.prec, data := (x.data * P).tdiv y.data }) ∧
    (y.data = 0 → divD x y = none) := by
  constructor
  · intro h; simp [divD, div_eq_tdiv _ _ h]
  · intro h; simp [divD, h, div_zero]

/-- what truncation means: `q·y` is the multiple of `y` nearest to `n` on the zero side -/
theorem tdiv_is_truncation (n y : Int) (hy : y ≠ 0) :
    (n.tdiv y * y).natAbs ≤ n.natAbs ∧ n.natAbs < (n.tdiv y * y).natAbs + y.natAbs ∧
    (0 ≤ n → 0 ≤ n.tdiv y * y) ∧ (n ≤ 0 → n.tdiv y * y ≤ 0) := by
  have h1 := Int.tdiv_mul_add_tmod n y
  have hq : (n.tdiv y * y).natAbs = (n.natAbs / y.natAbs) * y.natAbs := by
    rw [Int.natAbs_mul, Int.natAbs_tdiv]; rfl
  have hyp : 0 < y.natAbs := by omega
  have hdm := Nat.div_add_mod n.natAbs y.natAbs
  have hml := Nat.mod_lt n.natAbs hyp
  have hcomm : y.natAbs * (n.natAbs / y.natAbs) = n.natAbs / y.natAbs * y.natAbs := Nat.mul_comm _ _
  refine ⟨by omega, by omega, fun h => ?_, fun h => ?_⟩
  · have := Int.tmod_nonneg y h
    have h4 : ((n.tmod y).natAbs : Int) = n.tmod y := by omega
    have h5 := Int.natAbs_tmod n y
    have h6 : (n.natAbs : Int) = n := by omega
    have : (n.tmod y).natAbs ≤ n.natAbs := by rw [h5]; exact Nat.mod_le _ _
    omega
  · have h2 : (-n).tmod y = -(n.tmod y) := Int.neg_tmod n y
    have := Int.tmod_nonneg y (show 0 ≤ -n by omega)
    have h5 := Int.natAbs_tmod n y
    have : (n.tmod y).natAbs ≤ n.natAbs := by rw [h5]; exact Nat.mod_le _ _
    omega

/-! ## rounding family -/


/-- `z` is an integer at precision `p`: a multiple of `10^p` -/
def IsIntegral (p : Nat) (z : Int) : Prop := ∃ k : Int, z = mult p * k

theorem floor_spec (x : Dec) :
    (floor x).prec = x.prec ∧ IsIntegral x.prec (floor x).data ∧
    (floor x).data ≤ x.data ∧ x.data < (floor x).data + mult x.prec := by
  have hm := mult_pos x.prec
  obtain ⟨h1, h2, h3⟩ := tdm x.data (mult x.prec) hm
  refine ⟨rfl, ?_⟩
  simp only [floor, isNeg, decide_eq_true_eq]
  split
  · rename_i h
    have := h3 (by omega)
    refine ⟨⟨x.data.tdiv (mult x.prec) - 1, ?_⟩, ?_, ?_⟩
    · rw [Int.mul_sub, Int.mul_one]; omega
    · omega
    · omega
  · rename_i h
    refine ⟨⟨x.data.tdiv (mult x.prec), by omega⟩, ?_⟩
    by_cases hz : 0 ≤ x.data
    · have := h2 hz; omega
    · have := h3 (by omega); omega

theorem mult_parity (p : Nat) : mult p = 1 ∨ ∃ k, mult p = 2 * k := by
  cases p with
  | zero => left; rfl
  | succ n => right; exact ⟨mult n * 5, by simp only [mult, Int.pow_succ]; omega⟩

theorem round_prec (x : Dec) : (round x).prec = x.prec := by
  simp only [round]
  split
  · split <;> rfl
  · rfl

theorem round_spec (x : Dec) :
    (round x).prec = x.prec ∧ IsIntegral x.prec (round x).data ∧
    2 * ((round x).data - x.data) ≤ mult x.prec ∧ 2 * (x.data - (round x).data) ≤ mult x.prec := by
  have hm := mult_pos x.prec
  obtain ⟨h1, h2, h3⟩ := tdm x.data (mult x.prec) hm
  obtain ⟨g1, g2, _⟩ := tdm (mult x.prec) 2 (by decide)
  have g2 := g2 (by omega)
  have hpar := mult_parity x.prec
  refine ⟨round_prec x, ?_⟩
  simp only [round, isNeg, decide_eq_true_eq]
  split
  · rename_i h
    split
    · rename_i hn
      dsimp only
      have := h3 (by omega)
      refine ⟨⟨x.data.tdiv (mult x.prec) - 1, ?_⟩, ?_, ?_⟩
      · rw [Int.mul_sub, Int.mul_one]; omega
      · omega
      · rcases hpar with hp | ⟨k, hp⟩ <;> omega
    · rename_i hn
      dsimp only
      have := h2 (by omega)
      refine ⟨⟨x.data.tdiv (mult x.prec) + 1, ?_⟩, ?_, ?_⟩
      · rw [Int.mul_add, Int.mul_one]; omega
      · rcases hpar with hp | ⟨k, hp⟩ <;> omega
      · omega
  · rename_i h
    dsimp only
    refine ⟨⟨x.data.tdiv (mult x.prec), by omega⟩, ?_⟩
    by_cases hz : 0 ≤ x.data
    · have := h2 hz; omega
    · have := h3 (by omega); omega


theorem ceil_spec (x : Dec) :
    (ceil x).prec = x.prec ∧ IsIntegral x.prec (ceil x).data ∧
    x.data ≤ (ceil x).data ∧ (ceil x).data < x.data + mult x.prec := by
  have hm := mult_pos x.prec
  obtain ⟨h1, h2, h3⟩ := tdm x.data (mult x.prec) hm
  refine ⟨rfl, ?_⟩
  simp only [ceil, isNeg, decide_eq_true_eq]
  split
  · rename_i h
    have := h2 (by omega)
    refine ⟨⟨x.data.tdiv (mult x.prec) + 1, ?_⟩, ?_, ?_⟩
    · rw [Int.mul_add, Int.mul_one]; omega
    · omega
    · omega
  · rename_i h
    refine ⟨⟨x.data.tdiv (mult x.prec), by omega⟩, ?_⟩
    by_cases hz : 0 ≤ x.data
    · have := h2 hz; omega
    · have := h3 (by omega); omega

/-- `floor ≤ x ≤ ceil`, and they differ by 0 (integral `x`) or exactly one unit -/
theorem ceil_sub_floor (x : Dec) :
    (floor x).data ≤ x.data ∧ x.data ≤ (ceil x).data ∧
    ((ceil x).data - (floor x).data = 0 ∨ (ceil x).data - (floor x).data = mult x.prec) ∧
    ((ceil x).data = (floor x).data ↔ x.data.tmod (mult x.prec) = 0) := by
  have hm := mult_pos x.prec
  obtain ⟨h1, h2, h3⟩ := tdm x.data (mult x.prec) hm
  have hf : (floor x).data =
      (if x.data < 0 ∧ x.data.tmod (mult x.prec) ≠ 0 then x.data - mult x.prec else x.data)
        - x.data.tmod (mult x.prec) := by simp [floor, isNeg]
  have hc : (ceil x).data =
      (if ¬ x.data < 0 ∧ x.data.tmod (mult x.prec) ≠ 0 then x.data + mult x.prec else x.data)
        - x.data.tmod (mult x.prec) := by simp [ceil, isNeg]
  rw [hf, hc]
  have hs : (0 ≤ x.data.tmod (mult x.prec) ∧ x.data.tmod (mult x.prec) < mult x.prec ∧ 0 ≤ x.data) ∨
      (-mult x.prec < x.data.tmod (mult x.prec) ∧ x.data.tmod (mult x.prec) ≤ 0 ∧ x.data < 0) := by
    by_cases hz : 0 ≤ x.data
    · have := h2 hz; omega
    · have := h3 (by omega); omega
  split <;> split
  all_goals refine ⟨by omega, by omega, by omega, ⟨fun h => by omega, fun h => by omega⟩⟩

/-- `trunc` drops the fraction toward zero -/
theorem trunc_spec (x : Dec) :
    (trunc x).prec = x.prec ∧ IsIntegral x.prec (trunc x).data ∧
    (0 ≤ x.data → 0 ≤ (trunc x).data ∧ (trunc x).data ≤ x.data ∧ x.data < (trunc x).data + mult x.prec) ∧
    (x.data ≤ 0 → (trunc x).data ≤ 0 ∧ x.data ≤ (trunc x).data ∧ (trunc x).data - mult x.prec < x.data) := by
  have hm := mult_pos x.prec
  obtain ⟨h1, h2, h3⟩ := tdm x.data (mult x.prec) hm
  obtain ⟨s1, s2⟩ := tdm_sign x.data (mult x.prec) hm
  refine ⟨rfl, ⟨x.data.tdiv (mult x.prec), by simp only [trunc]; omega⟩, fun hz => ?_, fun hz => ?_⟩
  · have := h2 hz; have := s1 hz; simp only [trunc]; omega
  · have := h3 hz; have := s2 hz; simp only [trunc]; omega


/-- the unrepaired `round` agrees with the repaired one at every positive precision … -/
theorem roundOrig_eq_round_of_pos (x : Dec) (hp : 0 < x.prec) : roundOrig x = round x := by
  have hm := mult_pos x.prec
  obtain ⟨g1, g2, _⟩ := tdm (mult x.prec) 2 (by decide)
  have g2 := g2 (by omega)
  have hge : 10 ≤ mult x.prec := by
    obtain ⟨n, hn⟩ : ∃ n, x.prec = n + 1 := ⟨x.prec - 1, by omega⟩
    have := mult_pos n
    simp only [hn, mult, Int.pow_succ] at *; omega
  simp only [roundOrig, round]
  by_cases hr : x.data.tmod (mult x.prec) = 0
  · have h1 : ¬ ((x.data.tmod (mult x.prec)).natAbs : Int) ≥ (mult x.prec).tdiv 2 := by omega
    simp [hr]
    omega
  · simp [hr]

/-- … and is wrong at precision 0 (DESIGN §6 #8): `round(5) = 6`, `round(-5) = -6` -/
theorem roundOrig_fails_at_prec0 :
    (roundOrig { prec := 0, data := 5 }).data = 6 ∧ (roundOrig { prec := 0, data := -5 }).data = -6 ∧
    ¬ (∀ x : Dec, 2 * ((roundOrig x).data - x.data) ≤ mult x.prec) := by
  refine ⟨by decide, by decide, fun h => ?_⟩
  have := h { prec := 0, data := 5 }
  revert this; decide

/-! ## comparison -/

/-- comparison agrees with the exact rationals `data/10^prec` (cross-multiplied); `partial_cmp`
    answers only for equal precisions -/
theorem cmp_iff_rational (x y : Dec) :
    (x.prec = y.prec → partialCmp x y = some (compare (x.data * mult y.prec) (y.data * mult x.prec))) ∧
    (x.prec ≠ y.prec → partialCmp x y = none) ∧
    (eq x y = true ↔ x = y) := by
  refine ⟨fun h => ?_, fun h => by simp [partialCmp, h], ?_⟩
  · have hm := mult_pos y.prec
    simp only [partialCmp, h, ne_eq, not_true_eq_false, if_false, Option.some.injEq]
    simp only [compare, compareOfLessAndEq]
    have e1 : (x.data * mult y.prec < y.data * mult y.prec) ↔ x.data < y.data :=
      Int.mul_lt_mul_right hm
    have e2 : (x.data * mult y.prec = y.data * mult y.prec) ↔ x.data = y.data :=
      Int.mul_eq_mul_right_iff (by omega)
    simp only [e1, e2]
  · cases x; cases y; simp [eq]

/-! ## printing -/

/-- **printing is exact**: the printed characters parse (sign, digits, point, digits) to exactly
    the stored value `data / 10^prec`, including small negatives such as `-0.00…05`; the fraction has
    `prec` digits (one `0` at precision 0) -/
theorem toString_exact (x : Dec) :
    parseDecimal (showChars x) =
      some (decide (x.data < 0), (x.data.tdiv (mult x.prec)).natAbs, (x.data.tmod (mult x.prec)).natAbs,
            if x.prec = 0 then 1 else x.prec) ∧
    (if x.data < 0 then -1 else 1) *
      (((x.data.tdiv (mult x.prec)).natAbs : Int) * mult x.prec + ((x.data.tmod (mult x.prec)).natAbs : Int))
      = x.data := by
  have hm := mult_pos x.prec
  constructor
  · have hlen : (padDigits (x.data.tmod (mult x.prec)).natAbs x.prec).length = if x.prec = 0 then 1 else x.prec := by
      by_cases hp : x.prec = 0
      · have h1 : mult x.prec = 1 := by rw [hp]; rfl
        have : (x.data.tmod (mult x.prec)).natAbs = 0 := by
          rw [h1]; simp
        rw [this, hp]; simp [padDigits, Nat.toDigits_zero]
      · simp only [hp, if_false]
        apply pad_length _ _ (by omega)
        have hlt : ((x.data.tmod (mult x.prec)).natAbs : Int) < mult x.prec := by
          obtain ⟨_, h2, h3⟩ := tdm x.data (mult x.prec) hm
          by_cases hz : 0 ≤ x.data
          · have := h2 hz; omega
          · have := h3 (by omega); omega
        have : mult x.prec = ((10 ^ x.prec : Nat) : Int) := by simp [mult]
        rw [this] at hlt
        exact Int.ofNat_lt.mp hlt
    have hne : padDigits (x.data.tmod (mult x.prec)).natAbs x.prec ≠ [] := by
      intro e; rw [e] at hlen; simp at hlen; split at hlen <;> omega
    have := parse_shape (decide (x.data < 0)) (Nat.toDigits 10 (x.data.tdiv (mult x.prec)).natAbs)
      (padDigits (x.data.tmod (mult x.prec)).natAbs x.prec) Nat.toDigits_ne_nil hne
      (digits_isDigit _) (pad_all_digits _ _)
    rw [Nat.ofDigitChars_ten_toDigits, pad_value, hlen] at this
    rw [← this]
    simp only [showChars, decide_eq_true_eq, List.append_assoc, List.cons_append, List.nil_append]
  · have h := natAbs_parts x.data (mult x.prec)
    have e : ((mult x.prec).natAbs : Int) = mult x.prec := by omega
    rw [e] at h
    rw [h]
    split <;> omega



/-! ## non-vacuity and concrete values (the hand-picked cases of the pinned suite, and the ones it
    lacks: negative remainders, half-way points at other precisions, small negatives) -/
example : toStr { prec := 34, data := -5 } = "-0.0000000000000000000000000000000005" := by decide
example : toStr { prec := 0, data := 5 } = "5.0" := by decide
example : toStr { prec := 3, data := -1500 } = "-1.500" := by decide
example : (round { prec := 3, data := -1500 }).data = -2000 := by decide
example : (round { prec := 3, data := 1499 }).data = 1000 := by decide
example : (round { prec := 0, data := 5 }).data = 5 := by decide
example : (floor { prec := 3, data := -1 }).data = -1000 := by decide
example : (ceil { prec := 3, data := -1 }).data = 0 := by decide
example : (mul { prec := 34, data := -1 } { prec := 34, data := 1 }).data = -1 := by decide
example : divD { prec := 34, data := -1 } { prec := 34, data := 3 * P } = some { prec := 34, data := 0 } := by decide
example : divD { prec := 34, data := 1 } { prec := 34, data := 0 } = none := by decide
example : partialCmp { prec := 34, data := -1 } { prec := 34, data := 0 } = some .lt := by decide

end PallasVerif.Props.C17
