import PallasVerif.Proofs.Utxo
/-!
# C31 — UTxO effects of a transaction follow the phase-2 validity rule

`Model/Utxo.lean` transcribes `MultiEraTx::{consumes, produces, produces_at, inputs_sorted_set}`
(HashSet-insert filter, `enumerate`, `sort_by_key` + `dedup_by_key`) over the abstract transaction
the four functions see through the accessors. The theorems below state each clause of the
property for **every** transaction (all input lists, any number of duplicates, any outputs,
both validity flags, with and without collateral return); no hypothesis is needed.
-/
namespace PallasVerif.Props.C31
open PallasVerif.Utxo

variable {O : Type}

/-- what "consumes the list `src`, each element once" means, without reference to the algorithm:
    no repetitions, exactly the elements of `src`, in the order of `src` -/
def ConsumesOnce (res src : List TxIn) : Prop :=
  res.Nodup ∧ (∀ z, z ∈ res ↔ z ∈ src) ∧ res.Sublist src

/-- a valid transaction consumes its inputs, each once -/
theorem consumes_valid (tx : Tx O) (h : tx.valid = true) : ConsumesOnce (consumes tx) tx.inputs := by
  obtain ⟨h1, h2, h3⟩ := filterInsert_spec tx.inputs []
  simp only [consumes, h]
  exact ⟨h1, fun z => by simpa using h2 z, h3⟩

/-- a transaction whose scripts failed consumes only its collateral inputs, each once -/
theorem consumes_invalid (tx : Tx O) (h : tx.valid = false) : ConsumesOnce (consumes tx) tx.collateral := by
  obtain ⟨h1, h2, h3⟩ := filterInsert_spec tx.collateral []
  simp only [consumes, h]
  exact ⟨h1, fun z => by simpa using h2 z, h3⟩

theorem consumes_nodup (tx : Tx O) : (consumes tx).Nodup := by
  cases h : tx.valid
  · exact (consumes_invalid tx h).1
  · exact (consumes_valid tx h).1

/-- what is kept are the FIRST occurrences, in their order: the positions of first occurrence in
    the consumed source list are strictly increasing along the result -/
theorem consumes_first_occurrence_order (tx : Tx O) :
    let src := match tx.valid with | true => tx.inputs | false => tx.collateral
    (consumes tx).Pairwise (fun a b => src.idxOf a < src.idxOf b) := by
  simp only [consumes]
  exact filterInsert_first_order _ []

/-- the three clauses pin the result down: any list without repetitions, with the elements of the
    source, ordered by first occurrence, IS `consumes` -/
theorem consumes_unique (tx : Tx O) (res : List TxIn)
    (hm : ∀ z, z ∈ res ↔ z ∈ (match tx.valid with | true => tx.inputs | false => tx.collateral))
    (ho : res.Pairwise (fun a b =>
      (match tx.valid with | true => tx.inputs | false => tx.collateral).idxOf a <
      (match tx.valid with | true => tx.inputs | false => tx.collateral).idxOf b)) :
    res = consumes tx := by
  apply unique_of_pairwise
    (fun a b : TxIn => (match tx.valid with | true => tx.inputs | false => tx.collateral).idxOf a <
      (match tx.valid with | true => tx.inputs | false => tx.collateral).idxOf b)
    (fun a => Nat.lt_irrefl _) (fun a b h => Nat.lt_asymm h) res (consumes tx) ho
    (consumes_first_occurrence_order tx)
  intro z
  rw [hm z]
  cases h : tx.valid
  · exact ((consumes_invalid tx h).2.1 z).symm
  · exact ((consumes_valid tx h).2.1 z).symm

/-- without duplicates among the inputs nothing is dropped or reordered -/
theorem consumes_valid_of_nodup (tx : Tx O) (h : tx.valid = true) (hn : tx.inputs.Nodup) :
    consumes tx = tx.inputs := by
  simp only [consumes, h]
  exact filterInsert_nodup _ _ hn (by simp)

/-- a valid transaction produces its outputs at indices `0 .. n-1` -/
theorem produces_valid (tx : Tx O) (h : tx.valid = true) :
    (produces tx).length = tx.outputs.length ∧
    ∀ i : Nat, (produces tx)[i]? = (tx.outputs[i]?).map fun o => (i, o) := by
  simp only [produces, h]
  refine ⟨enumerateFrom_length _ _, fun i => ?_⟩
  rw [enumerateFrom_getElem?]; simp

/-- an invalid transaction produces only its collateral return, at index `n = |outputs|` -/
theorem produces_invalid (tx : Tx O) (h : tx.valid = false) :
    produces tx = match tx.collateralReturn with
      | some o => [(tx.outputs.length, o)]
      | none => [] := by
  simp only [produces, h]
  cases tx.collateralReturn <;> rfl

/-- indexed lookup of produced outputs agrees with the produced list -/
theorem produces_at_agrees (tx : Tx O) (i : Nat) : producesAt tx i = (produces tx).lookup i := by
  cases h : tx.valid
  · simp only [producesAt, produces, h]
    cases hc : tx.collateralReturn with
    | none => simp
    | some o =>
      by_cases e : i = tx.outputs.length
      · simp [e]
      · have : (i == tx.outputs.length) = false := by simpa using e
        simp [List.lookup_cons, e, this]
  · simp only [producesAt, produces, h]
    rw [enumerateFrom_lookup]; simp

/-- the indices of the produced list are pairwise distinct (so `lookup` is unambiguous) -/
theorem produces_indices_nodup (tx : Tx O) : ((produces tx).map Prod.fst).Nodup := by
  cases h : tx.valid
  · rw [produces_invalid tx h]; cases tx.collateralReturn <;> simp
  · simp only [produces, h]
    suffices H : ∀ (l : List O) (n : Nat), ((enumerateFrom n l).map Prod.fst).Nodup ∧
        ∀ k ∈ (enumerateFrom n l).map Prod.fst, n ≤ k from (H _ _).1
    intro l
    induction l with
    | nil => intro n; simp [enumerateFrom]
    | cons x xs ih =>
      intro n
      obtain ⟨a, b⟩ := ih (n + 1)
      simp only [enumerateFrom, List.map_cons, List.nodup_cons, List.mem_cons]
      refine ⟨⟨fun hm => ?_, a⟩, fun k hk => ?_⟩
      · have := b n hm; omega
      · rcases hk with e | hk
        · omega
        · have := b k hk; omega

/-- the sorted input set is strictly increasing in `(tx id, index)` — i.e. sorted and without
    duplicates — and has exactly the elements of the inputs -/
theorem sorted_set_spec (tx : Tx O) :
    (inputsSortedSet tx).Pairwise (fun a b => keyLt a b = true) ∧
    (inputsSortedSet tx).Nodup ∧
    ∀ z, z ∈ inputsSortedSet tx ↔ z ∈ tx.inputs := by
  obtain ⟨h1, h2⟩ := dedupByKey_spec (sortByKey tx.inputs) (sorted_sortByKey tx.inputs)
  refine ⟨h1, ?_, fun z => ?_⟩
  · exact h1.imp (fun {a b} h => keyLt_ne a b h)
  · simp only [inputsSortedSet]; rw [h2 z, mem_sortByKey]

/-- `keyLt` is the strict lexicographic order on `(hash bytes, index)`: a strict total order -/
theorem keyLt_strict_total (a b c : TxIn) :
    keyLt a a = false ∧ (keyLt a b = true → keyLt b c = true → keyLt a c = true) ∧
    (keyLt a b = false → keyLt b a = false → a = b) :=
  ⟨keyLt_irrefl a, keyLt_trans a b c, keyLt_tri a b⟩

/-- the result does not depend on the sorting algorithm: a strictly increasing list with the
    same elements is unique -/
theorem sorted_set_unique (l₁ l₂ : List TxIn)
    (h1 : l₁.Pairwise (fun a b => keyLt a b = true)) (h2 : l₂.Pairwise (fun a b => keyLt a b = true))
    (hm : ∀ z, z ∈ l₁ ↔ z ∈ l₂) : l₁ = l₂ := by
  induction l₁ generalizing l₂ with
  | nil =>
    cases l₂ with
    | nil => rfl
    | cons y ys => have := (hm y).mpr (by simp); simp at this
  | cons x xs ih =>
    cases l₂ with
    | nil => have := (hm x).mp (by simp); simp at this
    | cons y ys =>
      rw [List.pairwise_cons] at h1 h2
      have hxy : x = y := by
        have hx : x ∈ y :: ys := (hm x).mp (by simp)
        have hy : y ∈ x :: xs := (hm y).mpr (by simp)
        rcases List.mem_cons.mp hx with e | hx
        · exact e
        · rcases List.mem_cons.mp hy with e | hy
          · exact e.symm
          · have a := h2.1 x hx
            have b := h1.1 y hy
            rw [keyLt_asymm _ _ a] at b; cases b
      subst hxy
      congr 1
      apply ih ys h1.2 h2.2
      intro z
      constructor
      · intro hz
        have : z ∈ x :: ys := (hm z).mp (List.mem_cons_of_mem _ hz)
        rcases List.mem_cons.mp this with e | h
        · subst e; have := h1.1 z hz; rw [keyLt_irrefl] at this; cases this
        · exact h
      · intro hz
        have : z ∈ x :: xs := (hm z).mpr (List.mem_cons_of_mem _ hz)
        rcases List.mem_cons.mp this with e | h
        · subst e; have := h2.1 z hz; rw [keyLt_irrefl] at this; cases this
        · exact h

/-! ## Non-vacuity (concrete transactions through the model) -/

def hA : List UInt8 := [0x4d, 0x9c]
def hB : List UInt8 := [0x4d, 0x9d]
def txDup (v : Bool) : Tx String :=
  { valid := v, inputs := [⟨hB, 1⟩, ⟨hA, 7⟩, ⟨hB, 1⟩, ⟨hA, 2⟩], outputs := ["o0", "o1", "o2"],
    collateral := [⟨hA, 9⟩, ⟨hA, 9⟩], collateralReturn := some "ret" }

example : consumes (txDup true) = [⟨hB, 1⟩, ⟨hA, 7⟩, ⟨hA, 2⟩] := by decide
example : consumes (txDup false) = [⟨hA, 9⟩] := by decide
example : produces (txDup true) = [(0, "o0"), (1, "o1"), (2, "o2")] := by decide
example : produces (txDup false) = [(3, "ret")] := by decide
example : producesAt (txDup false) 3 = some "ret" ∧ producesAt (txDup false) 0 = none ∧
    producesAt (txDup true) 3 = none ∧ producesAt (txDup true) 2 = some "o2" := by decide
example : inputsSortedSet (txDup true) = [⟨hA, 2⟩, ⟨hA, 7⟩, ⟨hB, 1⟩] := by decide
example : produces ({ txDup false with collateralReturn := none }) = [] := by decide

end PallasVerif.Props.C31
