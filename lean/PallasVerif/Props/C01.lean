import PallasVerif.Model.Flat
/-! # C01 — Flat codec round-trips any sequence at any bit alignment (in progress) -/
namespace PallasVerif.Props.C01
open PallasVerif.Flat

theorem unzigzag_zigzag (i : Int) : unzigzag (zigzag i) = i := by
  unfold zigzag unzigzag
  split <;> split <;> omega

end PallasVerif.Props.C01
