import PallasVerif.Model.Flat
import PallasVerif.Proofs.FlatRound
/-!
# C01 — Flat codec round-trips any sequence of values at any bit alignment

`Model/Flat.lean` is the transcription of `encoder.rs` / `decoder.rs` (`used_bits`, `current_byte`,
`pos`, the shifts and masks, the special arms of `bits`, the 255-byte chunking, the word loops) that
the stream `flat` runs against the real crate. The proofs relate that code to a bit-string
specification (`Value.spec`: which bits a value contributes when it starts at bit offset `off`):

* `Proofs/FlatEnc`: every encoder call keeps `Enc.Inv` and appends exactly `Value.spec` to the bit
  string written so far (`enc_appends`);
* `Proofs/FlatDec`: if the bits at the decoder's cursor start with `Value.spec v`, the decoder call of
  `v`'s kind returns exactly `v` and advances by exactly that many bits (`dec_reads`).

The property itself is `flat_roundtrip`: for **every** finite sequence of well-formed values
(booleans, bytes, `bits(n, v)`, words, signed integers, chars, byte strings, UTF-8 strings, boolean
lists, char strings), written one after another by a single encoder and terminated by the filler,
the same sequence of decoder calls returns exactly the same values, the final filler decodes, and
the decoder ends at `pos = len`, `used_bits = 0`. `flat_roundtrip_from` is the same from an
arbitrary earlier encoder state, i.e. for every starting bit offset 0..7 and any earlier content.
Well-formedness (`Value.WF`) is what the Rust types guarantee (`usize`, `isize`, `char`, `&str`) plus
`val < 2^num_bits` for `bits`.
-/
namespace PallasVerif.Props.C01
open PallasVerif.Flat

/-- zigzag round trip on all of `isize` (indeed on all integers) -/
theorem unzigzag_zigzag (i : Int) : unzigzag (zigzag i) = i := PallasVerif.Flat.unzigzag_zigzag i

/-- every encoder call preserves the invariant and appends exactly the specified bits -/
theorem enc_appends (e : Enc) (h : e.Inv) (v : Value) (hv : v.WF) :
    ∃ e', e.value v = .ok e' ∧ e'.Inv ∧ e'.written = e.written ++ v.spec e.written.length :=
  Enc.value_ext e h v hv

/-- if the unread bits start with the specified bits of `v`, decoding `v`'s kind returns `v` and
    advances the cursor by exactly their number -/
theorem dec_reads (d : Dec) (hu : d.used < 8) (v : Value) (hv : v.WF) (rest : List Bool)
    (h : d.rem = v.spec d.cursor ++ rest) :
    ∃ d', d.value v.kind = .ok v d' ∧ d'.buf = d.buf ∧ d'.used < 8 ∧
      d'.cursor = d.cursor + (v.spec d.cursor).length ∧ d'.rem = rest := by
  obtain ⟨d', hb, h1, h2, h3⟩ := Dec.value_reads d hu v hv rest h
  refine ⟨d', hb, h1, h2, h3, ?_⟩
  rw [Dec.rem_advance h1 h3, h]
  exact List.drop_left' rfl

/-- 255-byte chunking: a byte string of any length (0, 255, 256, 510, … are instances) is read back
    from its block encoding, wherever it sits in the buffer -/
theorem blk_roundtrip (pre bs post : List Byte) :
    ∃ d', (Dec.mk (pre ++ Enc.blk bs ++ post) pre.length 0).byteArray = .ok bs d' ∧
      d'.pos = pre.length + (Enc.blk bs).length ∧ d'.used = 0 := by
  have h : (Dec.mk (pre ++ Enc.blk bs ++ post) pre.length 0).rem = bitsOf (Enc.blk bs) ++ bitsOf post := by
    simp [Dec.rem, Dec.cursor]
  obtain ⟨d', hb, _, h2, h3⟩ := Dec.byteArray_reads _ rfl bs _ h
  refine ⟨d', hb, ?_, ?_⟩ <;> simp only [Dec.cursor] at h3 <;> omega

/-- **C01 (general form).** From any encoder state `e0` (any earlier content, any bit offset
    `e0.used ∈ 0..7`): encode `vs`, terminate with the filler; a decoder placed where `e0` stood
    decodes exactly `vs` with the same sequence of calls, then the filler, and ends exactly at the
    end of the buffer. -/
theorem flat_roundtrip_from (e0 : Enc) (h0 : e0.Inv) (vs : List Value) (hvs : ∀ v ∈ vs, v.WF) :
    ∃ e, e0.seq vs = .ok e ∧
      ∃ d d', (Dec.mk e.filler.buf e0.buf.length e0.used).seq (vs.map Value.kind) = .ok vs d ∧
        d.filler = .ok () d' ∧ d'.pos = d'.buf.length ∧ d'.used = 0 := by
  obtain ⟨e, he, hinv, hw⟩ := Enc.seq_ext e0 h0 vs hvs
  obtain ⟨⟨_, hfw⟩, hfu, _⟩ := Enc.filler_ext e hinv
  refine ⟨e, he, ?_⟩
  -- the bits of the final buffer
  have hB : bitsOf e.filler.buf = e0.written ++ (specSeq e0.written.length vs ++ fillerBits e.used) := by
    have : e.filler.written = bitsOf e.filler.buf := by simp [Enc.written, hfu]
    rw [← this, hfw, hw, List.append_assoc]
  have hlen0 := Enc.written_length e0 h0
  have hlen := Enc.written_length e hinv
  let d0 : Dec := ⟨e.filler.buf, e0.buf.length, e0.used⟩
  have hc0 : d0.cursor = e0.written.length := by simp [d0, Dec.cursor, hlen0]
  have hr0 : d0.rem = specSeq d0.cursor vs ++ fillerBits e.used := by
    simp only [Dec.rem, hc0]
    rw [show d0.buf = e.filler.buf from rfl, hB]
    exact List.drop_left' rfl
  obtain ⟨d, hd, hb1, hu1, hc1⟩ := Dec.seq_reads d0 h0.1 vs hvs _ hr0
  have hr1 : d.rem = List.replicate (7 - e.used) false ++ true :: [] := by
    rw [Dec.rem_advance hb1 hc1, hr0, List.drop_left' (l₁ := specSeq d0.cursor vs) (l₂ := fillerBits e.used) rfl]
    simp [fillerBits]
  obtain ⟨d', hd', hb2, hu2, hc2⟩ := Dec.filler_reads (7 - e.used) d hu1 [] hr1
  refine ⟨d, d', hd, hd', ?_⟩
  -- the cursor is at the end of the buffer
  have hbl : d'.buf.length = e.buf.length + 1 := by
    rw [hb2, hb1]; simp [d0, Enc.filler, Enc.nextWord]
  have hsl : e.written.length = e0.written.length + (specSeq e0.written.length vs).length := by
    rw [hw]; simp
  have := hinv.1
  simp only [Dec.cursor] at hc2 hc1 hc0
  rw [hc0] at hc1
  omega

/-- **C01.** Any sequence of well-formed values written by a fresh encoder and terminated by the
    filler decodes, with the same sequence of decoder calls, to exactly the same values, and
    decoding consumes the whole buffer. -/
theorem flat_roundtrip (vs : List Value) (hvs : ∀ v ∈ vs, v.WF) :
    ∃ e, Enc.new.seq vs = .ok e ∧
      ∃ d d', (Dec.new e.filler.buf).seq (vs.map Value.kind) = .ok vs d ∧
        d.filler = .ok () d' ∧ d'.pos = d'.buf.length ∧ d'.used = 0 :=
  flat_roundtrip_from Enc.new Enc.inv_new vs hvs

/-- `flat::decode(&flat::encode(&v)) = Ok(v)` for the top-level functions of `mod.rs` -/
theorem encode_decode_top (v : Value) (hv : v.WF) :
    ∃ bytes d, encodeTop v = some bytes ∧ decodeTop v.kind bytes = .ok v d ∧ d.pos = bytes.length ∧ d.used = 0 := by
  obtain ⟨e, he, d, d', hd, hf, hp, hu⟩ := flat_roundtrip [v] (by simpa using hv)
  simp only [Enc.seq] at he
  cases hev : Enc.new.value v with
  | ok e1 =>
    rw [hev] at he
    simp only [ERes.ok.injEq] at he
    subst he
    simp only [List.map_cons, List.map_nil, Dec.seq] at hd
    cases hdv : (Dec.new e1.filler.buf).value v.kind with
    | ok v' d1 =>
      rw [hdv] at hd
      simp only [Res.ok.injEq, List.cons.injEq, and_true] at hd
      obtain ⟨rfl, rfl⟩ := hd
      have hbuf : d'.buf = e1.filler.buf := by
        have h1 := Dec.value_safe (Dec.new e1.filler.buf) (Dec.inv_new _) v'.kind
        rw [hdv] at h1
        have h2 := Dec.filler_safe d1 h1.2.1
        rw [hf] at h2
        rw [h2.1, h1.1]; rfl
      refine ⟨e1.filler.buf, d', by simp [encodeTop, hev], by simp [decodeTop, hdv, hf], by rw [hp, hbuf], hu⟩
    | err e d1 => rw [hdv] at hd; simp at hd
    | panic => rw [hdv] at hd; simp at hd
  | err => rw [hev] at he; simp at he
  | panic => rw [hev] at he; simp at he

/-- the encoder never fails or panics on well-formed values (needed for the statement above not to
    be vacuous on the Rust side: `Result`s are `Ok`, no shift traps) -/
theorem enc_total (e0 : Enc) (h0 : e0.Inv) (vs : List Value) (hvs : ∀ v ∈ vs, v.WF) :
    ∃ e, e0.seq vs = .ok e ∧ e.Inv :=
  let ⟨e, he, hi, _⟩ := Enc.seq_ext e0 h0 vs hvs
  ⟨e, he, hi⟩

/-- **lists with any element codec.** If the element encoder appends `spec a` and the element decoder
    reads `spec a` back (for the items of the list), then `encode_list_with` / `decode_list_with`
    round-trip the list at any bit offset, in front of any following bits. -/
theorem list_roundtrip_generic {α : Type} (f : Enc → α → Option Enc) (g : Dec → Res α) (spec : α → List Bool)
    (items : List α)
    (hf : ∀ a ∈ items, ∀ e : Enc, e.Inv → ∃ e', f e a = some e' ∧ e'.Inv ∧ e'.written = e.written ++ spec a)
    (hg : ∀ a ∈ items, ∀ (d : Dec) (rest : List Bool), d.used < 8 → d.rem = spec a ++ rest →
      ∃ d', g d = .ok a d' ∧ d'.buf = d.buf ∧ d'.used < 8 ∧ d'.cursor = d.cursor + (spec a).length)
    (e : Enc) (he : e.Inv) :
    ∃ e', Enc.list f e items = some e' ∧ e'.Inv ∧ e'.written = e.written ++ listBits spec items ∧
      ∀ (d : Dec) (rest : List Bool), d.used < 8 → d.rem = listBits spec items ++ rest →
        ∃ d', Dec.list g d = .ok items d' ∧ d'.buf = d.buf ∧ d'.used < 8 ∧
          d'.cursor = d.cursor + (listBits spec items).length := by
  obtain ⟨e', h1, h2, h3⟩ := Enc.list_ext f spec items hf e he
  exact ⟨e', h1, h2, h3, fun d rest hu hr => Dec.list_reads g spec items hg d rest hu hr⟩

/-- **wire format.** The buffer produced for `vs` is, bit for bit, the concatenation of the specified
    encodings followed by the filler — independent of `used_bits` / `current_byte` bookkeeping. -/
theorem enc_wire_format (vs : List Value) (hvs : ∀ v ∈ vs, v.WF) :
    ∃ e, Enc.new.seq vs = .ok e ∧
      bitsOf e.filler.buf = specSeq 0 vs ++ fillerBits ((specSeq 0 vs).length % 8) := by
  obtain ⟨e, he, hinv, hw⟩ := Enc.seq_ext Enc.new Enc.inv_new vs hvs
  obtain ⟨⟨_, hfw⟩, hfu, _⟩ := Enc.filler_ext e hinv
  refine ⟨e, he, ?_⟩
  have h0 : Enc.new.written = [] := rfl
  have : e.filler.written = bitsOf e.filler.buf := by simp [Enc.written, hfu]
  rw [← this, hfw, hw, h0]
  simp only [List.nil_append, List.length_nil]
  have hl := Enc.written_length e hinv
  rw [hw, h0] at hl
  simp only [List.nil_append, List.length_nil] at hl
  have := hinv.1
  congr 2
  omega

/-! ## Non-vacuity -/

/-- a 600-byte string (three blocks) starting at bit offset 5, followed by more values -/
def sample : List Value :=
  [.bool true, .bool false, .bool true, .bool true, .bool false,
   .bytes (List.replicate 600 0xA5#8), .int (-3), .word 300, .bits 3 5#8, .char 0x1D11E,
   .utf8 [0xE2#8, 0x82#8, 0xAC#8], .bools [true, false], .u8 0xFF#8, .string [0x61, 0x20AC]]

example : ∀ v ∈ sample, v.WF := by decide
example : (match Enc.new.seq sample with | .ok e => e.filler.buf.length | _ => 0) = 623 := by decide +kernel
example : (Enc.new.seq [.bool true, .u8 0x81#8]) = .ok ⟨[0xC0#8], 1, 0x80#8⟩ := by decide
example : Value.WF (.bits 3 5#8) ∧ ¬ Value.WF (.bits 3 9#8) ∧ ¬ Value.WF (.char 0xD800) := by decide
/-- `bits(0, _)` on a byte boundary is outside `WF`: the real encoder traps on `val << 8` -/
example : Enc.new.bits 0 0#8 = none := by decide

end PallasVerif.Props.C01
