import PallasVerif.Model.Address
/-!
# C18 — Shelley and stake addresses round-trip with a faithful header

`Model/Address.lean` transcribes `varuint::{read,write}`, `Pointer::{parse,to_vec}`, the header
composition, `bytes_to_address` with the three `parse_shelley_fn!` arms and `parse_stake_fn!`, hex,
and the bech32 / `Display` / `FromStr` wrappers (the `bech32` crate and the Byron base58 parser are
parameters).

Quantifier of the property: network ids `0..15` (`Network::from(id)`: `0 ↦ Testnet`, `1 ↦ Mainnet`,
else `Other(id)` — predicate `CanonNet`), pointer components in `u64` (`WFPointer`), any 28-byte
hashes; all eight Shelley shapes and both stake shapes (`Addr` has exactly these ten).

Theorems: `varuint_roundtrip` (+ `varuint_length_le`), `pointer_roundtrip`, `header_spec`,
`address_roundtrip` (bytes), `hex_roundtrip`, `bech32_roundtrip` (under the codec law
`Lawful`), `hrp_matches_network`, `display_fromStr_roundtrip`.
-/
namespace PallasVerif.Props.C18
open PallasVerif.Address

/-! ## Well-formedness = the property's quantifier -/

/-- the image of `Network::from(id)` for `id < 16` -/
def CanonNet : Network → Prop
  | .testnet => True
  | .mainnet => True
  | .other x => 2 ≤ x.toNat ∧ x.toNat < 16

def WFPointer (p : Pointer) : Prop := p.slot ≤ U64MAX ∧ p.txIdx ≤ U64MAX ∧ p.certIdx ≤ U64MAX

def WFDeleg : Delegation → Prop
  | .pointer p => WFPointer p
  | _ => True

def WF : Addr → Prop
  | .shelley n _ d => CanonNet n ∧ WFDeleg d
  | .stake n _ => CanonNet n

instance : (n : Network) → Decidable (CanonNet n)
  | .testnet => isTrue trivial
  | .mainnet => isTrue trivial
  | .other x => inferInstanceAs (Decidable (2 ≤ x.toNat ∧ x.toNat < 16))

theorem canon_ofU8 (id : UInt8) (h : id.toNat < 16) : CanonNet (Network.ofU8 id) := by
  unfold Network.ofU8
  by_cases h0 : id = 0
  · simp [h0, CanonNet]
  · by_cases h1 : id = 1
    · simp [h1, CanonNet]
    · simp only [h0, h1, if_false, CanonNet]
      have a : id.toNat ≠ 0 := fun e => h0 (UInt8.toNat_inj.1 (by simpa using e))
      have b : id.toNat ≠ 1 := fun e => h1 (UInt8.toNat_inj.1 (by simpa using e))
      omega

theorem canon_value_lt {n : Network} (h : CanonNet n) : n.value.toNat < 16 := by
  cases n with
  | testnet => decide
  | mainnet => decide
  | other x => exact h.2

theorem ofU8_value {n : Network} (h : CanonNet n) : Network.ofU8 n.value = n := by
  cases n with
  | testnet => decide
  | mainnet => decide
  | other x =>
    obtain ⟨h2, _⟩ := h
    have a : x ≠ 0 := by intro e; subst e; simp at h2
    have b : x ≠ 1 := by intro e; subst e; simp at h2
    simp [Network.ofU8, Network.value, a, b]

/-! ## varuint -/

theorem and7f (m : Nat) : m &&& 0x7F = m % 128 := Nat.and_two_pow_sub_one_eq_mod m 7

theorem cont_byte : ∀ k, k < 128 →
    (UInt8.ofNat (k ||| 0x80) &&& 0x7F).toNat = k ∧ ¬ (UInt8.ofNat (k ||| 0x80) &&& 0x80 = 0) := by
  decide

theorem last_byte : ∀ k, k < 128 →
    (UInt8.ofNat k &&& 0x7F).toNat = k ∧ UInt8.ofNat k &&& 0x80 = 0 := by
  decide

theorem shl7_or (a d : Nat) (hd : d < 128) : (a <<< 7) ||| d = a * 128 + d := by
  rw [← Nat.shiftLeft_add_eq_or_of_lt (i := 7) (by simpa using hd), Nat.shiftLeft_eq]

theorem writeLoop_zero : writeLoop 0 = [] := by rw [writeLoop]; simp

theorem writeLoop_pos (m : Nat) (h : m ≠ 0) :
    writeLoop m = UInt8.ofNat ((m &&& 0x7F) ||| 0x80) :: writeLoop (m / 128) := by
  rw [writeLoop]; simp [h]

/-- one step of `read` on a continuation group -/
theorem readLoop_cont (a m : Nat) (tail : Bytes) (hm : a * 128 + m % 128 ≤ U64MAX) :
    readLoop a (UInt8.ofNat ((m &&& 0x7F) ||| 0x80) :: tail) =
      readLoop (a * 128 + m % 128) tail := by
  obtain ⟨h1, h2⟩ := cont_byte (m % 128) (Nat.mod_lt _ (by decide))
  rw [and7f]
  simp only [readLoop, h1, h2, if_false, shl7_or a (m % 128) (Nat.mod_lt _ (by decide))]
  have : ¬ a * 128 + m % 128 > U64MAX := by omega
  simp [this]

/-- the step of `read` on the final group -/
theorem readLoop_last (a n : Nat) (tail : Bytes) (hm : a * 128 + n % 128 ≤ U64MAX) :
    readLoop a (UInt8.ofNat (n % 256 &&& 0x7F) :: tail) = some (a * 128 + n % 128, tail) := by
  have e : n % 256 &&& 0x7F = n % 128 := by rw [and7f]; omega
  obtain ⟨h1, h2⟩ := last_byte (n % 128) (Nat.mod_lt _ (by decide))
  rw [e]
  simp only [readLoop, h1, h2, shl7_or a (n % 128) (Nat.mod_lt _ (by decide))]
  have : ¬ a * 128 + n % 128 > U64MAX := by omega
  simp [this]

theorem read_writeLoop (m : Nat) (hm : m ≤ U64MAX) (tail : Bytes) :
    readLoop 0 ((writeLoop m).reverse ++ tail) = readLoop m tail := by
  induction m using Nat.strongRecOn generalizing tail with
  | _ m ih =>
    by_cases h : m = 0
    · subst h; simp [writeLoop_zero]
    · have hd : m / 128 < m := by omega
      have hdm : m / 128 * 128 + m % 128 = m := by omega
      rw [writeLoop_pos m h, List.reverse_cons, List.append_assoc, ih (m / 128) hd (by omega)]
      simp only [List.singleton_append, List.cons_append, List.nil_append]
      rw [readLoop_cont (m / 128) m tail (by omega), hdm]

/-- `read (write n ++ r) = (n, r)` for every `u64` -/
theorem varuint_roundtrip (n : Nat) (hn : n ≤ U64MAX) (r : Bytes) :
    varuintRead (varuintWrite n ++ r) = some (n, r) := by
  have hdm : n / 128 * 128 + n % 128 = n := by omega
  unfold varuintRead varuintWrite
  rw [List.reverse_cons, List.append_assoc, read_writeLoop (n / 128) (by omega)]
  simp only [List.singleton_append, List.cons_append, List.nil_append]
  rw [readLoop_last (n / 128) n r (by omega), hdm]

theorem writeLoop_length (k : Nat) : ∀ m, m < 128 ^ k → (writeLoop m).length ≤ k := by
  induction k with
  | zero => intro m hm; have : m = 0 := by simpa using hm
            subst this; simp [writeLoop_zero]
  | succ k ih =>
    intro m hm
    by_cases h : m = 0
    · subst h; simp [writeLoop_zero]
    · rw [writeLoop_pos m h, List.length_cons]
      have : m / 128 < 128 ^ k := by
        rw [Nat.div_lt_iff_lt_mul (by decide)]; rw [Nat.pow_succ] at hm; exact hm
      have := ih _ this
      omega

/-- a `u64` takes between one and ten bytes -/
theorem varuint_length_le (n : Nat) (hn : n ≤ U64MAX) :
    1 ≤ (varuintWrite n).length ∧ (varuintWrite n).length ≤ 10 := by
  unfold varuintWrite
  have h9 : n / 128 < 128 ^ 9 := by
    have : U64MAX = 18446744073709551615 := by decide
    have : (128 : Nat) ^ 9 = 9223372036854775808 := by decide
    omega
  have := writeLoop_length 9 _ h9
  simp only [List.length_reverse, List.length_cons]
  omega

/-! ## pointers -/

theorem pointer_roundtrip (p : Pointer) (h : WFPointer p) (r : Bytes) :
    Pointer.parse (p.toVec ++ r) = some p := by
  obtain ⟨h1, h2, h3⟩ := h
  simp only [Pointer.parse, Pointer.toVec, List.append_assoc, varuint_roundtrip _ h1,
    varuint_roundtrip _ h2, varuint_roundtrip _ h3]

theorem pointer_length (p : Pointer) (h : WFPointer p) : 3 ≤ p.toVec.length := by
  obtain ⟨h1, h2, h3⟩ := h
  have a := (varuint_length_le _ h1).1
  have b := (varuint_length_le _ h2).1
  have c := (varuint_length_le _ h3).1
  simp only [Pointer.toVec, List.length_append]
  omega

/-! ## header -/

theorem nibbles : ∀ t, t < 16 → ∀ n, n < 16 →
    ((UInt8.ofNat t <<< 4) ||| UInt8.ofNat n) >>> 4 = UInt8.ofNat t ∧
    ((UInt8.ofNat t <<< 4) ||| UInt8.ofNat n) &&& 0x0F = UInt8.ofNat n ∧
    ((UInt8.ofNat t <<< 4) ||| UInt8.ofNat n) &&& 0xF0 = UInt8.ofNat (t * 16) := by
  decide +kernel

theorem typeId_lt (a : Addr) : a.typeId.toNat < 16 := by
  cases a with
  | shelley n p d => cases p <;> cases d <;> simp only [Addr.typeId, shelleyTypeId] <;> decide
  | stake n p => cases p <;> simp only [Addr.typeId, stakeTypeId] <;> decide

/-- the header byte carries the type id in its high nibble and the network id in its low nibble -/
theorem header_spec (a : Addr) (h : CanonNet a.network) :
    a.toHeader >>> 4 = a.typeId ∧ a.toHeader &&& 0x0F = a.network.value ∧
    a.toHeader &&& 0xF0 = UInt8.ofNat (a.typeId.toNat * 16) := by
  have := nibbles a.typeId.toNat (typeId_lt a) a.network.value.toNat (canon_value_lt h)
  simpa [Addr.toHeader] using this

theorem parseNetwork_header (a : Addr) (h : CanonNet a.network) :
    parseNetwork a.toHeader = a.network := by
  have hv := (header_spec a h).2.1
  unfold parseNetwork
  simp only [hv]
  exact ofU8_value h

/-! ## bytes -/

theorem sliceToHash_val (h : Hash28) : sliceToHash h.val = .ok h := by
  obtain ⟨v, hv⟩ := h
  simp [sliceToHash, hv]

theorem take28 (h : Hash28) (r : Bytes) : (h.val ++ r).take 28 = h.val := by
  exact List.take_left' h.property

theorem drop28 (h : Hash28) (r : Bytes) : (h.val ++ r).drop 28 = r := by
  exact List.drop_left' h.property

theorem twoHashes_rt (mkP : Hash28 → Payment) (mkD : Hash28 → Delegation) (header : UInt8)
    (h1 h2 : Hash28) :
    parseTwoHashes mkP mkD header (h1.val ++ h2.val) =
      .ok (.shelley (parseNetwork header) (mkP h1) (mkD h2)) := by
  unfold parseTwoHashes
  have hl : ¬ (h1.val ++ h2.val).length < 56 := by
    simp [List.length_append, h1.property, h2.property]
  have t2 : List.take 28 h2.val = h2.val := List.take_of_length_le (by simp [h2.property])
  simp only [hl, if_false, take28, drop28, t2, sliceToHash_val]

theorem pointerAddr_rt (mkP : Hash28 → Payment) (header : UInt8) (h1 : Hash28) (p : Pointer)
    (hp : WFPointer p) :
    parsePointerAddr mkP header (h1.val ++ p.toVec) =
      .ok (.shelley (parseNetwork header) (mkP h1) (.pointer p)) := by
  unfold parsePointerAddr
  have hl : ¬ (h1.val ++ p.toVec).length < 29 := by
    have := pointer_length p hp
    simp only [List.length_append, h1.property]; omega
  have pr : Pointer.parse p.toVec = some p := by
    have := pointer_roundtrip p hp []
    simpa using this
  simp only [hl, if_false, take28, drop28, sliceToHash_val, pr]

theorem enterprise_rt (mkP : Hash28 → Payment) (header : UInt8) (h1 : Hash28) :
    parseEnterprise mkP header (h1.val ++ []) =
      .ok (.shelley (parseNetwork header) (mkP h1) .null) := by
  unfold parseEnterprise
  have hl : ¬ (h1.val ++ []).length < 28 := by simp [h1.property]
  simp only [hl, if_false, take28, sliceToHash_val]

theorem stake_rt (mk : Hash28 → StakePayload) (header : UInt8) (h1 : Hash28) :
    parseStake mk header h1.val = .ok (.stake (parseNetwork header) (mk h1)) := by
  unfold parseStake
  have hl : ¬ h1.val.length < 28 := by simp [h1.property]
  have t : List.take 28 h1.val = h1.val := List.take_of_length_le (by simp [h1.property])
  simp only [hl, if_false, t, sliceToHash_val]

/-- bytes: `from_bytes (to_vec a) = a` for all ten shapes, every canonical network id, every
    `u64` pointer -/
theorem address_roundtrip (a : Addr) (h : WF a) : fromBytes a.toVec = .ok a := by
  cases a with
  | shelley n p d =>
    obtain ⟨hn, hd⟩ := h
    have hh := (header_spec (.shelley n p d) hn).2.2
    have hp := parseNetwork_header (.shelley n p d) hn
    simp only [Addr.network] at hp
    cases p <;> cases d <;>
      simp only [Addr.toVec, fromBytes, hh, Addr.typeId, shelleyTypeId, Payment.toVec,
        Delegation.toVec] <;>
      first
        | (rw [if_pos (by decide)]; rw [twoHashes_rt, hp])
        | (repeat (rw [if_neg (by decide)])
           rw [if_pos (by decide)]
           first
             | rw [twoHashes_rt, hp]
             | rw [pointerAddr_rt _ _ _ _ hd, hp]
             | rw [enterprise_rt, hp])
  | stake n p =>
    have hn : CanonNet n := h
    have hh := (header_spec (.stake n p) hn).2.2
    have hp := parseNetwork_header (.stake n p) hn
    simp only [Addr.network] at hp
    cases p <;>
      simp only [Addr.toVec, fromBytes, hh, Addr.typeId, stakeTypeId, StakePayload.toVec] <;>
      (repeat (rw [if_neg (by decide)])
       rw [if_pos (by decide)]
       rw [stake_rt, hp])

/-! ## hex -/

theorem hexVal_hexDigit : ∀ n, n < 16 → hexVal (hexDigit n) = some n := by decide

theorem hexDecode_encode (b : Bytes) : hexDecode (hexEncode b) = some b := by
  induction b with
  | nil => rfl
  | cons x xs ih =>
    have h1 := hexVal_hexDigit (x.toNat / 16) (by have := x.toNat_lt; omega)
    have h2 := hexVal_hexDigit (x.toNat % 16) (by omega)
    have e : x.toNat / 16 * 16 + x.toNat % 16 = x.toNat := by omega
    simp [hexEncode, hexDecode, h1, h2, ih, e]

/-- hex: `from_hex (to_hex a) = a` -/
theorem hex_roundtrip (a : Addr) (h : WF a) : fromHex a.toHex = .ok a := by
  simp [fromHex, Addr.toHex, hexDecode_encode, address_roundtrip a h]

/-! ## bech32 -/

/-- the stated assumption on the `bech32` crate -/
def Lawful (c : Bech32) : Prop := ∀ hrp b, c.dec (c.enc hrp b) = some (hrp, b)

def isMainOrTest : Network → Prop
  | .testnet => True
  | .mainnet => True
  | .other _ => False

/-- prefix table of CIP-19, written independently of `Addr.hrp` -/
def specHrp (isStake : Bool) (netId : Nat) : Option String :=
  match isStake, netId with
  | false, 1 => some "addr"
  | false, 0 => some "addr_test"
  | true, 1 => some "stake"
  | true, 0 => some "stake_test"
  | _, _ => none

def isStake : Addr → Bool
  | .shelley .. => false
  | .stake .. => true

/-- the bech32 prefix matches the network (and is refused for any other network id) -/
theorem hrp_matches_network (a : Addr) (h : CanonNet a.network) :
    a.hrp.toOption = specHrp (isStake a) a.network.value.toNat := by
  cases a with
  | shelley n p d =>
    cases n with
    | testnet => rfl
    | mainnet => rfl
    | other x =>
      obtain ⟨h2, _⟩ := h
      simp only [Addr.hrp, isStake, Addr.network, Network.value, Except.toOption, specHrp]
      split <;> first | rfl | omega
  | stake n p =>
    cases n with
    | testnet => rfl
    | mainnet => rfl
    | other x =>
      obtain ⟨h2, _⟩ := h
      simp only [Addr.hrp, isStake, Addr.network, Network.value, Except.toOption, specHrp]
      split <;> first | rfl | omega

theorem toBech32_ok (c : Bech32) (a : Addr) (hm : isMainOrTest a.network) :
    ∃ hrp, a.hrp = .ok hrp ∧ a.toBech32 c = .ok (c.enc hrp a.toVec) := by
  cases a with
  | shelley n p d =>
    cases n with
    | testnet => exact ⟨_, rfl, rfl⟩
    | mainnet => exact ⟨_, rfl, rfl⟩
    | other x => exact absurd hm (by simp [isMainOrTest, Addr.network])
  | stake n p =>
    cases n with
    | testnet => exact ⟨_, rfl, rfl⟩
    | mainnet => exact ⟨_, rfl, rfl⟩
    | other x => exact absurd hm (by simp [isMainOrTest, Addr.network])

/-- bech32 (mainnet / testnet), under the codec law -/
theorem bech32_roundtrip (c : Bech32) (hc : Lawful c) (a : Addr) (h : WF a)
    (hm : isMainOrTest a.network) :
    ∃ s, a.toBech32 c = .ok s ∧ fromBech32 c s = .ok a := by
  obtain ⟨hrp, _, he⟩ := toBech32_ok c a hm
  refine ⟨_, he, ?_⟩
  simp [fromBech32, hc hrp a.toVec, address_roundtrip a h]

/-- `Display` then `FromStr`: mainnet / testnet go through bech32 (first branch of `from_str`);
    other network ids are printed as hex and parse back provided the two earlier parsers of
    `from_str` refuse that hex text (stated hypotheses: they are properties of the bech32 crate and
    of the Byron base58 parser, not of this model). -/
theorem display_fromStr_roundtrip (c : Bech32) (hc : Lawful c) (b58 : List Char → Bool) (a : Addr)
    (h : WF a)
    (hother : ¬ isMainOrTest a.network → c.dec a.toHex = none ∧ b58 a.toHex = false) :
    fromStr c b58 (a.display c) = .ok a := by
  by_cases hm : isMainOrTest a.network
  · obtain ⟨s, he, hr⟩ := bech32_roundtrip c hc a h hm
    simp [fromStr, Addr.display, he, hr]
  · obtain ⟨h1, h2⟩ := hother hm
    have hb : a.toBech32 c = .error .unknownHrp := by
      cases a with
      | shelley n p d =>
        cases n with
        | testnet => exact absurd trivial hm
        | mainnet => exact absurd trivial hm
        | other x => rfl
      | stake n p =>
        cases n with
        | testnet => exact absurd trivial hm
        | mainnet => exact absurd trivial hm
        | other x => rfl
    simp [fromStr, Addr.display, hb, fromBech32, h1, h2, hex_roundtrip a h]

/-! ## Non-vacuity -/

def h28 (b : UInt8) : Hash28 := ⟨List.replicate 28 b, by simp⟩

example : varuintWrite 0 = [0] := by
  simp [varuintWrite, writeLoop_zero]
example : varuintWrite 128 = [0x81, 0x00] := by
  simp [varuintWrite, writeLoop_pos, writeLoop_zero]
example : varuintWrite 16384 = [0x81, 0x80, 0x00] := by
  simp [varuintWrite, writeLoop_pos, writeLoop_zero]
example : varuintRead [0x81, 0x00, 0x05] = some (128, [0x05]) := by decide
/-- saturation at `u64::MAX` returns early, leaving continuation bytes unread -/
example : varuintRead [0x83, 0xFF, 0xFF, 0xFF, 0xFF, 0xFF, 0xFF, 0xFF, 0xFF, 0xFF, 0x7F] =
    some (U64MAX, [0x7F]) := by decide
example : WF (.shelley (.other 7) (.key (h28 1)) (.pointer ⟨U64MAX, 0, 128⟩)) := by
  refine ⟨by decide, ?_⟩; exact ⟨by decide, by decide, by decide⟩
example : (Addr.shelley .mainnet (.script (h28 1)) (.pointer ⟨1, 2, 3⟩)).toHeader = 0x51 := by decide
example : (Addr.stake (.other 15) (.script (h28 1))).toHeader = 0xFF := by decide
example : fromBytes [0x90] = .err .invalidHeader := by decide
example : fromBytes (0x61 :: List.replicate 27 0) = .err .invalidLength := by decide
/-- outside the quantifier (`Other(16)`): the network nibble spills into the type id -/
example : (Addr.shelley (.other 16) (.key (h28 1)) .null).toHeader = 0x70 := by decide
example : ¬ CanonNet (.other 0) ∧ ¬ CanonNet (.other 16) := by decide

end PallasVerif.Props.C18
