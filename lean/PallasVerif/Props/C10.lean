import PallasVerif.Model.Hash
import PallasVerif.Model.Blake2bArray
/-!
# C10 — Blake2b hashing, hash values and nonce derivations match the reference

* `stream_eq_oneshot`: the cryptoxide streaming hasher (`Model/Blake2b.lean`: `init`/`update`/`finalize`,
  transcribed from `ContextDyn`) fed with *any* list of `input` chunks returns the RFC 7693 one-shot
  digest `blake2b nn` of the concatenation — for every digest length (so 160/224/256), every chunk
  list (empty chunks, splits at block boundaries, the kept-back last block included). Proof: the
  invariant `(h, t, buf) = loop h₀ 0 (everything fed so far)` is preserved by `update`
  (`update_inv`), and finishing a `loop` result is the RFC block schedule (`rfcBlocks_eq_loop`).
* `stream_eq_oneshot_array`: the same for the *array-level* transcription (`Model/Blake2bArray.lean`:
  fixed 128-byte `buf`, cursor `buflen`, `copy_from_slice` as `blit`, zeroing and digest read-out of
  `internal_final`), via the refinement `updateMut_refines` / `finalizeMut_refines` (stale bytes beyond
  `buflen` never matter).
* `blake2b_eq_rfc_indexed`: the reference `blake2b` is RFC 7693 §3.3 as printed (`d[0..dd-1]`,
  `FOR i = 0 TO dd − 2`).
* `hash_eq`, `hash_tagged_eq`, `hash_cbor_eq`, `hash_tagged_cbor_eq`: the four pallas entry points
  are the digest of (tag byte followed by) the bytes / the CBOR encoding.
* `hash_hex_roundtrip`, `hash_from_str_length`, `hash_cbor_roundtrip`, `hash_decode_rejects`,
  `hash_decode_length`: `Hash<N>` codecs.
* `epoch_nonce_def`, `rolling_nonce_def`, `rolling_nonce_panics_iff`: the Praos compositions.

What is *not* proved here: that `compress` (RFC 7693 F, transcribed) equals cryptoxide's
`compress_b` (reference/AVX/AVX2 code paths) — that agreement is by the correspondence stream
`hash` and the RFC vectors only.
-/
namespace PallasVerif.Props.C10
open PallasVerif.Blake2b PallasVerif.Hash

/-! ## Streaming = one shot -/

theorem loop_small (h : H) (t : Nat) (x : Bytes) (hx : x.length ≤ 128) : loop h t x = (h, t, x) := by
  rw [loop]; simp; omega

theorem loop_buf_le (h : H) (t : Nat) (x : Bytes) : (loop h t x).2.2.length ≤ 128 := by
  fun_induction loop h t x with
  | case1 h t x hx ih => exact ih
  | case2 h t x hx => simp; omega

theorem loop_append (h : H) (t : Nat) (x y : Bytes) :
    loop (loop h t x).1 (loop h t x).2.1 ((loop h t x).2.2 ++ y) = loop h t (x ++ y) := by
  fun_induction loop h t x with
  | case1 h t x hx ih =>
    rw [ih]
    rw [loop.eq_1 h t (x ++ y)]
    have hl : (x ++ y).length > 128 := by simp; omega
    simp only [hl, ↓reduceIte]
    have hz : 128 - x.length = 0 := by omega
    have e1 : (x ++ y).take 128 = x.take 128 := by
      rw [List.take_append, hz]; simp
    have e2 : (x ++ y).drop 128 = x.drop 128 ++ y := by
      rw [List.drop_append, hz]; simp
    rw [e1, e2]
  | case2 h t x hx => rfl

/-- one `update_mut` call = continue the block loop on `buf ++ input` -/
theorem update_eq_loop (c : Ctx) (inp : Bytes) (hb : c.buf.length ≤ 128) :
    update c inp =
      { c with h := (loop c.h c.t (c.buf ++ inp)).1, t := (loop c.h c.t (c.buf ++ inp)).2.1,
               buf := (loop c.h c.t (c.buf ++ inp)).2.2 } := by
  unfold update
  by_cases he : inp = []
  · subst he; simp [loop_small c.h c.t c.buf hb]
  · have hne : inp.isEmpty = false := by cases inp <;> simp_all
    simp only [hne, Bool.false_eq_true, ↓reduceIte]
    split
    · next h2 =>
      rw [loop.eq_1 c.h c.t (c.buf ++ inp)]
      have hl : (c.buf ++ inp).length > 128 := by simp; omega
      simp only [hl, ↓reduceIte]
      have e1 : (c.buf ++ inp).take 128 = c.buf ++ inp.take (128 - c.buf.length) := by
        rw [List.take_append]; simp [List.take_of_length_le hb]
      have e2 : (c.buf ++ inp).drop 128 = inp.drop (128 - c.buf.length) := by
        rw [List.drop_append]; simp [List.drop_of_length_le hb]
      rw [e1, e2]
    · next h2 =>
      have : (c.buf ++ inp).length ≤ 128 := by simp; omega
      rw [loop_small c.h c.t _ this]

/-- the hasher state after the bytes `m` have been fed (in whatever chunks) to `init nn` -/
def Inv (nn : Nat) (m : Bytes) (c : Ctx) : Prop :=
  c.h = (loop (initH nn) 0 m).1 ∧ c.t = (loop (initH nn) 0 m).2.1 ∧
  c.buf = (loop (initH nn) 0 m).2.2 ∧ c.outlen = nn

theorem init_inv (nn : Nat) : Inv nn [] (init nn) := by
  simp [Inv, init, loop_small]

theorem update_inv (nn : Nat) (m inp : Bytes) (c : Ctx) (hc : Inv nn m c) :
    Inv nn (m ++ inp) (update c inp) := by
  obtain ⟨h1, h2, h3, h4⟩ := hc
  have hb : c.buf.length ≤ 128 := by rw [h3]; exact loop_buf_le _ _ _
  rw [update_eq_loop c inp hb]
  simp only [Inv]
  rw [h1, h2, h3, loop_append]
  exact ⟨rfl, rfl, rfl, h4⟩

theorem foldl_inv (nn : Nat) (chunks : List Bytes) (m : Bytes) (c : Ctx) (hc : Inv nn m c) :
    Inv nn (m ++ chunks.flatten) (chunks.foldl update c) := by
  induction chunks generalizing m c with
  | nil => simpa using hc
  | cons x xs ih =>
    simp only [List.foldl_cons, List.flatten_cons]
    rw [← List.append_assoc]
    exact ih _ _ (update_inv nn m x c hc)

/-- finishing the kept-back buffer of a `loop` run is the RFC 7693 block schedule -/
theorem rfcBlocks_eq_loop (h : H) (t : Nat) (m : Bytes) :
    rfcBlocks h t m =
      compress (loop h t m).1 (pad (loop h t m).2.2) ((loop h t m).2.1 + (loop h t m).2.2.length) true := by
  fun_induction loop h t m with
  | case1 h t x hx ih => rw [rfcBlocks]; simp only [hx, ↓reduceIte]; exact ih
  | case2 h t x hx => rw [rfcBlocks]; simp only [hx, ↓reduceIte]

theorem finalize_of_inv (nn : Nat) (m : Bytes) (c : Ctx) (hc : Inv nn m c) :
    finalize c = blake2b nn m := by
  obtain ⟨h1, h2, h3, h4⟩ := hc
  unfold finalize blake2b
  rw [rfcBlocks_eq_loop, h1, h2, h3, h4]

/-- **Incremental hashing equals the RFC 7693 digest of the concatenated input, however it is
    split** (any digest length `nn`, any list of chunks, of any sizes, empty ones included). -/
theorem stream_eq_oneshot (nn : Nat) (chunks : List Bytes) :
    finalize (chunks.foldl update (init nn)) = blake2b nn chunks.flatten := by
  have := foldl_inv nn chunks [] (init nn) (init_inv nn)
  simpa using finalize_of_inv nn _ _ this

/-- a hasher that already absorbed `pre` and is then fed `chunks` -/
theorem stream_eq_oneshot_from (nn : Nat) (pre : List Bytes) (chunks : List Bytes) :
    finalize (chunks.foldl update (pre.foldl update (init nn))) = blake2b nn (pre.flatten ++ chunks.flatten) := by
  rw [← List.foldl_append, stream_eq_oneshot, List.flatten_append]

/-- two chunkings of the same bytes give the same digest -/
theorem split_independent (nn : Nat) (c1 c2 : List Bytes) (h : c1.flatten = c2.flatten) :
    hashChunks nn c1 = hashChunks nn c2 := by
  simp [hashChunks, stream_eq_oneshot, h]

/-! ## The array-level transcription of cryptoxide's context refines the model above -/

/-- abstraction: the live prefix of the array -/
def absA (c : CtxA) : Ctx := { h := c.h, t := c.t, buf := c.buf.take c.buflen, outlen := c.outlen }

def InvA (c : CtxA) : Prop := c.buf.length = 128 ∧ c.buflen ≤ 128

theorem blit_length (dst : Bytes) (pos : Nat) (src : Bytes) (h : pos + src.length ≤ dst.length) :
    (blit dst pos src).length = dst.length := by
  simp [blit]; omega

theorem blit_take (dst : Bytes) (pos : Nat) (src : Bytes) (h : pos ≤ dst.length) :
    (blit dst pos src).take (pos + src.length) = dst.take pos ++ src := by
  unfold blit
  have h1 : (dst.take pos ++ src).length = pos + src.length := by simp; omega
  rw [List.take_append_of_le_length (by omega), List.take_of_length_le (by omega)]

theorem updateMut_refines (c : CtxA) (inp : Bytes) (hc : InvA c) :
    absA (updateMut c inp) = update (absA c) inp ∧ InvA (updateMut c inp) := by
  obtain ⟨hl, hb⟩ := hc
  have habs : (absA c).buf.length = c.buflen := by simp [absA]; omega
  unfold updateMut update
  by_cases he : inp.isEmpty = true
  · simp [he, InvA, hl, hb]
  · simp only [he, Bool.false_eq_true, ↓reduceIte, habs]
    by_cases hf : inp.length > 128 - c.buflen
    · simp only [hf, ↓reduceIte]
      have hfl : (inp.take (128 - c.buflen)).length = 128 - c.buflen := by simp; omega
      have e1 : (blit c.buf c.buflen (inp.take (128 - c.buflen))).take 128 = c.buf.take c.buflen ++ inp.take (128 - c.buflen) := by
        have := blit_take c.buf c.buflen (inp.take (128 - c.buflen)) (by omega)
        rw [hfl] at this
        have h128 : c.buflen + (128 - c.buflen) = 128 := by omega
        rw [h128] at this; exact this
      have hl1 : (blit c.buf c.buflen (inp.take (128 - c.buflen))).length = 128 := by
        rw [blit_length _ _ _ (by rw [hfl]; omega)]; exact hl
      rw [e1]
      have hab : (absA c).buf = c.buf.take c.buflen := rfl
      have hah : (absA c).h = c.h := rfl
      have hat : (absA c).t = c.t := rfl
      rw [hab, hah, hat]
      generalize hr : loop (compress c.h (c.buf.take c.buflen ++ inp.take (128 - c.buflen)) (c.t + 128) false) (c.t + 128)
        (inp.drop (128 - c.buflen)) = r
      have hrl : r.2.2.length ≤ 128 := by rw [← hr]; exact loop_buf_le _ _ _
      refine ⟨?_, ?_⟩
      · simp only [absA]
        have := blit_take (blit c.buf c.buflen (inp.take (128 - c.buflen))) 0 r.2.2 (by omega)
        simp only [Nat.zero_add, List.take_zero, List.nil_append] at this
        rw [this]
      · refine ⟨?_, hrl⟩
        show (blit _ 0 r.2.2).length = 128
        rw [blit_length _ _ _ (by omega)]; exact hl1
    · simp only [hf, ↓reduceIte]
      refine ⟨?_, ?_⟩
      · simp only [absA]
        have := blit_take c.buf c.buflen inp (by omega)
        rw [this]
      · refine ⟨?_, by show c.buflen + inp.length ≤ 128; omega⟩
        show (blit c.buf c.buflen inp).length = 128
        rw [blit_length _ _ _ (by omega)]; exact hl

theorem initA_refines (nn : Nat) : absA (initA nn) = init nn ∧ InvA (initA nn) := by
  simp [absA, initA, init, InvA]

theorem foldl_updateMut_refines (chunks : List Bytes) (c : CtxA) (hc : InvA c) :
    absA (chunks.foldl updateMut c) = chunks.foldl update (absA c) ∧ InvA (chunks.foldl updateMut c) := by
  induction chunks generalizing c with
  | nil => exact ⟨rfl, hc⟩
  | cons x xs ih =>
    obtain ⟨h1, h2⟩ := updateMut_refines c x hc
    simp only [List.foldl_cons]
    rw [← h1]; exact ih _ h2

theorem compress_size (h : H) (b : Bytes) (t : Nat) (l : Bool) : (compress h b t l).size = 8 := by
  simp [compress]

theorem words_length (l : List UInt64) : (l.flatMap leBytes64).length = 8 * l.length := by
  induction l with
  | nil => rfl
  | cons a as ih => simp [List.flatMap_cons, leBytes64, ih]; omega

theorem finalizeMut_refines (c : CtxA) (hc : InvA c) (ho : c.outlen ≤ 64) :
    finalizeMut c = finalize (absA c) := by
  obtain ⟨hl, hb⟩ := hc
  simp only [finalizeMut, finalize]
  have hlen : (absA c).buf.length = c.buflen := by simp [absA]; omega
  have hrep : (List.replicate (128 - c.buflen) (0 : UInt8)).length = 128 - c.buflen := by simp
  have e1 : (blit c.buf c.buflen (List.replicate (128 - c.buflen) 0)).take 128 = pad (absA c).buf := by
    have := blit_take c.buf c.buflen (List.replicate (128 - c.buflen) 0) (by omega)
    rw [hrep] at this
    have h128 : c.buflen + (128 - c.buflen) = 128 := by omega
    rw [h128] at this
    rw [this]; simp [pad, absA, hlen]
    congr 2; omega
  rw [e1, hlen]
  show _ = digestOf _ (absA c).outlen
  unfold digestOf
  generalize hh : compress (absA c).h (pad (absA c).buf) ((absA c).t + c.buflen) true = hv
  have hsz : hv.size = 8 := by rw [← hh]; exact compress_size _ _ _ _
  have hw : (hv.toList.flatMap leBytes64).length = 64 := by rw [words_length, Array.length_toList, hsz]
  have hcc : compress c.h (pad (absA c).buf) (c.t + c.buflen) true = hv := hh
  rw [hcc]
  have hbl : (blit c.buf c.buflen (List.replicate (128 - c.buflen) 0)).length = 128 := by
    rw [blit_length _ _ _ (by rw [hrep]; omega)]; exact hl
  have := blit_take (blit c.buf c.buflen (List.replicate (128 - c.buflen) 0)) 0 (hv.toList.flatMap leBytes64) (by omega)
  simp only [Nat.zero_add, List.take_zero, List.nil_append, hw] at this
  have ho' : (absA c).outlen = c.outlen := rfl
  rw [ho']
  have : (blit (blit c.buf c.buflen (List.replicate (128 - c.buflen) 0)) 0 (hv.toList.flatMap leBytes64)).take c.outlen
      = ((blit (blit c.buf c.buflen (List.replicate (128 - c.buflen) 0)) 0 (hv.toList.flatMap leBytes64)).take 64).take c.outlen := by
    rw [List.take_take]; congr 1; omega
  rw [this]
  congr 1

/-- the array-level transcription of the cryptoxide hasher equals the RFC 7693 digest for every chunking -/
theorem stream_eq_oneshot_array (nn : Nat) (hn : nn ≤ 64) (chunks : List Bytes) :
    finalizeMut (chunks.foldl updateMut (initA nn)) = blake2b nn chunks.flatten := by
  obtain ⟨h0, i0⟩ := initA_refines nn
  obtain ⟨h1, h2⟩ := foldl_updateMut_refines chunks (initA nn) i0
  have hout : (chunks.foldl updateMut (initA nn)).outlen = nn := by
    have : (absA (chunks.foldl updateMut (initA nn))).outlen = nn := by
      rw [h1, h0]
      have := foldl_inv nn chunks [] (init nn) (init_inv nn)
      exact this.2.2.2
    exact this
  rw [finalizeMut_refines _ h2 (by omega), h1, h0, stream_eq_oneshot]

/-! ## The one-shot reference is RFC 7693 §3.3 as printed -/

theorem foldl_range_succ {α : Type} (f : α → Nat → α) (a : α) (n : Nat) :
    (List.range (n + 1)).foldl f a = (List.range n).foldl (fun x i => f x (i + 1)) (f a 0) := by
  rw [List.range_succ_eq_map, List.foldl_cons, List.foldl_map]

theorem pad_full (b : Bytes) (h : b.length = 128) : pad b = b := by simp [pad, h]

theorem rfcBlocks_eq_indexed (h : H) (t : Nat) (data : Bytes) :
    rfcBlocks h t data =
      compress ((List.range (rfcDd data.length - 1)).foldl
          (fun h i => compress h (rfcBlock data i) (t + (i + 1) * 128) false) h)
        (rfcBlock data (rfcDd data.length - 1)) (t + data.length) true := by
  fun_induction rfcBlocks h t data with
  | case1 h t data hd ih =>
    have hlen : (data.drop 128).length = data.length - 128 := by simp
    have hdd : rfcDd data.length - 1 = (rfcDd (data.drop 128).length - 1) + 1 := by
      simp only [rfcDd, hlen]
      have h1 : ¬ data.length = 0 := by omega
      simp only [h1, ↓reduceIte]
      split <;> omega
    rw [ih, hdd, foldl_range_succ]
    have hb0 : rfcBlock data 0 = data.take 128 := by
      simp only [rfcBlock, Nat.mul_zero, List.drop_zero]
      exact pad_full _ (by simp; omega)
    have hbi : ∀ i, rfcBlock data (i + 1) = rfcBlock (data.drop 128) i := by
      intro i; simp only [rfcBlock, List.drop_drop]; congr 3; omega
    have hcnt : ∀ i, t + (i + 1 + 1) * 128 = t + 128 + (i + 1) * 128 := by intro i; omega
    simp only [hb0, hbi, hcnt, Nat.zero_add, Nat.one_mul]
    congr 1
    rw [hlen]; omega
  | case2 h t data hd =>
    have hdd : rfcDd data.length - 1 = 0 := by
      simp only [rfcDd]; split <;> omega
    simp [hdd, rfcBlock]
    congr 2
    exact (List.take_of_length_le (by omega)).symm

/-- the model's one-shot digest is RFC 7693 §3.3 as printed (block array, `FOR i = 0 TO dd − 2`) -/
theorem blake2b_eq_rfc_indexed (nn : Nat) (data : Bytes) : blake2b nn data = blake2bRfc nn data := by
  unfold blake2b blake2bRfc
  rw [rfcBlocks_eq_indexed]
  simp

/-! ## The pallas entry points -/

theorem hash_eq (bits : Nat) (bytes : Bytes) : hash bits bytes = blake2b (bits / 8) bytes := by
  have := stream_eq_oneshot (bits / 8) [bytes]
  simpa [PallasVerif.Hash.hash, hasherNew] using this

/-- the tagged variant hashes the tag byte followed by the bytes -/
theorem hash_tagged_eq (bits : Nat) (bytes : Bytes) (tag : UInt8) :
    hashTagged bits bytes tag = blake2b (bits / 8) (tag :: bytes) := by
  have := stream_eq_oneshot (bits / 8) [[tag], bytes]
  simpa [hashTagged, hasherNew] using this

/-- `hash_cbor` is the digest of the CBOR encoding, whatever writes the encoder performs -/
theorem hash_cbor_eq (bits : Nat) (writes : List Bytes) :
    hashCbor bits writes = blake2b (bits / 8) writes.flatten := by
  simpa [hashCbor, hasherNew] using stream_eq_oneshot (bits / 8) writes

theorem hash_tagged_cbor_eq (bits : Nat) (writes : List Bytes) (tag : UInt8) :
    hashTaggedCbor bits writes tag = blake2b (bits / 8) (tag :: writes.flatten) := by
  have := stream_eq_oneshot (bits / 8) ([tag] :: writes)
  simpa [hashTaggedCbor, hasherNew] using this

theorem hash_cbor_tokens (bits : Nat) (toks : List Tok) :
    hashCbor bits (cborWrites toks) = blake2b (bits / 8) (cborBytes toks) := by
  rw [hash_cbor_eq]; rfl

/-- the digest has the requested length (`nn ≤ 64`) -/
theorem blake2b_length (nn : Nat) (data : Bytes) (hn : nn ≤ 64) : (blake2b nn data).length = nn := by
  unfold blake2b digestOf
  have hsz : ∀ (h : H) (b : Bytes) (t : Nat) (l : Bool), (compress h b t l).size = 8 := by
    intro h b t l; simp [compress]
  have hlen : (rfcBlocks (initH nn) 0 data).size = 8 := by
    generalize initH nn = h0
    generalize (0 : Nat) = t0
    fun_induction rfcBlocks h0 t0 data with
    | case1 h t d hd ih => exact ih
    | case2 h t d hd => exact hsz _ _ _ _
  have h64 : ∀ (l : List UInt64), (l.flatMap leBytes64).length = 8 * l.length := by
    intro l
    induction l with
    | nil => rfl
    | cons a as ih => simp [List.flatMap_cons, leBytes64, ih]; omega
  rw [List.length_take, h64, Array.length_toList, hlen]; omega

/-! ## `Hash<N>`: hex -/

theorem hexVal_digit (n : Nat) (hn : n < 16) : hexVal (hexDigitByte n) = some n := by
  have : n ∈ List.range 16 := List.mem_range.mpr hn
  revert this n
  decide

theorem hexPairs_toHex (h : Bytes) : hexPairs (hashToHex h) = .ok h := by
  induction h with
  | nil => simp [hashToHex, hexPairs]
  | cons b bs ih =>
    have e : hashToHex (b :: bs) = hexDigitByte (b.toNat / 16) :: hexDigitByte (b.toNat % 16) :: hashToHex bs := by
      simp [hashToHex]
    have hb : b.toNat < 256 := UInt8.toNat_lt b
    rw [e, hexPairs, hexVal_digit _ (by omega), hexVal_digit _ (by omega)]
    simp only
    rw [ih]
    have : b.toNat / 16 * 16 + b.toNat % 16 = b.toNat := by omega
    simp [this]

theorem hashToHex_length (h : Bytes) : (hashToHex h).length = 2 * h.length := by
  induction h with
  | nil => rfl
  | cons b bs ih => simp [hashToHex] at ih ⊢; omega

/-- printing a hash and parsing it back returns the hash -/
theorem hash_hex_roundtrip (n : Nat) (h : Bytes) (hl : h.length = n) :
    hashFromStr n (hashToHex h) = .ok h := by
  unfold hashFromStr
  rw [hashToHex_length, hl]
  have h1 : 2 * n % 2 = 0 := by omega
  have h2 : 2 * n / 2 = n := by omega
  simp [h1, h2, hexPairs_toHex]

theorem hexPairs_length : ∀ (s r : Bytes), hexPairs s = .ok r → r.length = s.length / 2
  | [], r, h => by simp [hexPairs] at h; subst h; rfl
  | [_], r, h => by simp [hexPairs] at h; subst h; simp
  | a :: b :: rest, r, h => by
    rw [hexPairs] at h
    split at h
    · split at h
      · next r' hr =>
        simp at h; subst h
        have := hexPairs_length rest r' hr
        simp [this]; omega
      · simp at h
    · simp at h

/-- whatever `FromStr` accepts has exactly `n` bytes: a hex string of any other length is rejected -/
theorem hash_from_str_length (n : Nat) (s r : Bytes) (h : hashFromStr n s = .ok r) :
    r.length = n ∧ s.length = 2 * n := by
  unfold hashFromStr at h
  split at h
  · simp at h
  · split at h
    · simp at h
    · have := hexPairs_length s r h
      omega

theorem hash_from_str_rejects (n : Nat) (s : Bytes) (hs : s.length ≠ 2 * n) :
    ∃ e, hashFromStr n s = .error e := by
  cases hr : hashFromStr n s with
  | error e => exact ⟨e, rfl⟩
  | ok r => exact absurd (hash_from_str_length n s r hr).2 hs

/-- serde: serialising to a JSON string and deserialising returns the hash -/
theorem hash_json_roundtrip (n : Nat) (h : Bytes) (hl : h.length = n) : hashOfJson n (hashToJson h) = some h := by
  have hbody : ∀ c ∈ hashToHex h, c ≠ 0x22 ∧ c ≠ 0x5c ∧ c.toNat ≥ 0x20 := by
    intro c hc
    simp only [hashToHex, List.mem_flatMap] at hc
    obtain ⟨b, _, hb⟩ := hc
    have hd : ∀ k, k < 16 → hexDigitByte k ≠ 0x22 ∧ hexDigitByte k ≠ 0x5c ∧ (hexDigitByte k).toNat ≥ 0x20 := by decide
    have hbl : b.toNat < 256 := UInt8.toNat_lt b
    simp only [List.mem_cons, List.not_mem_nil, or_false] at hb
    rcases hb with rfl | rfl
    · exact hd _ (by omega)
    · exact hd _ (by omega)
  have hall : (hashToHex h).all (fun c => decide (c ≠ 0x22 ∧ c ≠ 0x5c ∧ c.toNat ≥ 0x20)) = true := by
    rw [List.all_eq_true]; intro c hc; exact decide_eq_true (hbody c hc)
  simp only [hashToJson, List.cons_append, List.nil_append, hashOfJson]
  simp [List.getLast?_append, hash_hex_roundtrip n h hl]
  exact hbody

/-! ## `Hash<N>`: CBOR -/

theorem beNat_beBytes1 (n : Nat) (hn : n < 256) : beNat (beBytes 1 n) = n := by
  simp [beBytes, beNat, List.range_succ]; omega

theorem beNat_beBytes2 (n : Nat) (hn : n < 65536) : beNat (beBytes 2 n) = n := by
  simp [beBytes, beNat, List.range_succ]; omega

theorem beNat_beBytes4 (n : Nat) (hn : n < 4294967296) : beNat (beBytes 4 n) = n := by
  simp [beBytes, beNat, List.range_succ]; omega

theorem beNat_beBytes8 (n : Nat) (hn : n < 18446744073709551616) : beNat (beBytes 8 n) = n := by
  simp [beBytes, beNat, List.range_succ]; omega

theorem beBytes_length (w n : Nat) : (beBytes w n).length = w := by simp [beBytes]

/-- `d.bytes()` reads back what `e.bytes(b)` wrote (any trailing input is left alone) -/
theorem cbor_bytes_roundtrip (b rest : Bytes) (hb : b.length < 2 ^ 64) :
    cborBytesDecode (head 2 b.length ++ b ++ rest) = .ok b := by
  unfold head
  split
  · next h =>
    have e : (UInt8.ofNat (2 * 32 + b.length)).toNat = 64 + b.length := by
      rw [UInt8.toNat_ofNat_of_lt' (by simp [UInt8.size]; omega)]
    simp only [List.cons_append, List.nil_append, cborBytesDecode, e]
    have h1 : (64 + b.length) / 32 = 2 := by omega
    have h2 : (64 + b.length) % 32 = b.length := by omega
    have h3 : b.length ≠ 31 := by omega
    have h4 : ¬ (b.length + rest.length < b.length) := by omega
    simp [h1, h2, h, h3, h4]
  · split
    · next h0 h =>
      have e : (UInt8.ofNat (2 * 32 + 24)).toNat = 88 := by decide
      simp only [List.cons_append, cborBytesDecode, e]
      have hl := beBytes_length 1 b.length
      have hlt : ¬ (1 + (b.length + rest.length) < 1) := by omega
      simp [List.take_append, List.drop_append, hl, beNat_beBytes1 _ h, hlt]
    · split
      · next h0 h1 h =>
        have e : (UInt8.ofNat (2 * 32 + 25)).toNat = 89 := by decide
        simp only [List.cons_append, cborBytesDecode, e]
        have hl := beBytes_length 2 b.length
        have hlt : ¬ (2 + (b.length + rest.length) < 2) := by omega
        simp [List.take_append, List.drop_append, hl, beNat_beBytes2 _ h, hlt]
      · split
        · next h0 h1 h2 h =>
          have e : (UInt8.ofNat (2 * 32 + 26)).toNat = 90 := by decide
          simp only [List.cons_append, cborBytesDecode, e]
          have hl := beBytes_length 4 b.length
          have hlt : ¬ (4 + (b.length + rest.length) < 4) := by omega
          simp [List.take_append, List.drop_append, hl, beNat_beBytes4 _ h, hlt]
        · next h0 h1 h2 h =>
          have e : (UInt8.ofNat (2 * 32 + 27)).toNat = 91 := by decide
          simp only [List.cons_append, cborBytesDecode, e]
          have hl := beBytes_length 8 b.length
          have hb' : b.length < 18446744073709551616 := by simpa using hb
          have hlt : ¬ (8 + (b.length + rest.length) < 8) := by omega
          simp [List.take_append, List.drop_append, hl, beNat_beBytes8 _ hb', hlt]

/-- encoding a hash to CBOR and decoding it returns the hash -/
theorem hash_cbor_roundtrip (n : Nat) (h rest : Bytes) (hl : h.length = n) (hn : n < 2 ^ 64) :
    hashDecode n (hashEncode h ++ rest) = .ok h := by
  unfold hashDecode hashEncode
  rw [cbor_bytes_roundtrip h rest (by omega)]
  simp [hl]

/-- a CBOR byte string of any other length is rejected (feature `relaxed` off) -/
theorem hash_decode_rejects (n : Nat) (bs rest : Bytes) (hl : bs.length ≠ n) (hb : bs.length < 2 ^ 64) :
    hashDecode n (head 2 bs.length ++ bs ++ rest) = .error .msg := by
  unfold hashDecode
  rw [cbor_bytes_roundtrip bs rest hb]
  simp [hl]

/-- whatever the decoder accepts has exactly `n` bytes -/
theorem hash_decode_length (n : Nat) (inp r : Bytes) (h : hashDecode n inp = .ok r) : r.length = n := by
  unfold hashDecode at h
  split at h
  · simp at h
  · split at h
    · next hh => simp at h; subst h; exact hh
    · simp at h

theorem hash_from_slice_iff (n : Nat) (bs : Bytes) :
    (hashFromSlice n bs = some bs ↔ bs.length = n) ∧ (hashFromSlice n bs = none ↔ bs.length ≠ n) := by
  unfold hashFromSlice; split <;> simp_all

/-! ## Nonces (Praos): `a ⭒ b = blake2b_256 (a ‖ b)` -/

/-- the Praos nonce combination `⭒` -/
def nonceOp (a b : Bytes) : Bytes := blake2b256 (a ++ b)

/-- epoch nonce = candidate ⭒ previous-epoch block hash, then (if present) ⭒ extra entropy -/
def praosEpochNonce (nc nh : Bytes) : Option Bytes → Bytes
  | none => nonceOp nc nh
  | some e => nonceOp (nonceOp nc nh) e

/-- evolving nonce: ηv ⭒ blake2b_256 (VRF output) -/
def praosRollingNonce (prev vrf : Bytes) : Bytes := nonceOp prev (blake2b256 vrf)

theorem two_inputs (a b : Bytes) :
    finalize (update (update (hasherNew 256) a) b) = blake2b256 (a ++ b) := by
  have := stream_eq_oneshot 32 [a, b]
  simpa [hasherNew, blake2b256] using this

theorem epoch_nonce_def (nc nh : Bytes) (extra : Option Bytes) :
    epochNonce nc nh extra = praosEpochNonce nc nh extra := by
  cases extra <;> simp [epochNonce, praosEpochNonce, nonceOp, two_inputs]

theorem rolling_nonce_def (prev vrf : Bytes) (hv : vrf.length = 32 ∨ vrf.length = 64) :
    rollingNonce prev vrf = some (praosRollingNonce prev vrf) := by
  simp [rollingNonce, hv, praosRollingNonce, nonceOp, two_inputs, hash_eq, blake2b256]

theorem rolling_nonce_panics_iff (prev vrf : Bytes) :
    rollingNonce prev vrf = none ↔ ¬ (vrf.length = 32 ∨ vrf.length = 64) := by
  unfold rollingNonce; split <;> simp_all

/-! ## Non-vacuity / reference vectors -/

/-- RFC 7693 appendix A: BLAKE2b-512("abc") -/
example : toHex (blake2b 64 abc) =
    "ba80a53f981c4d0d6a2797b69f12f6e94c212f14685ac4b74b12bb6fdbffa2d1" ++
    "7d87c5392aab792dc252d5de4533cc9518d38aa8dbf1925ab92386edd4009923" := by decide +kernel

example : hashFromStr 2 [0x61, 0x42, 0x30, 0x39] = .ok [0xab, 0x09] := by rfl
example : hashFromStr 2 [0x61, 0x42, 0x30] = .error .odd := by rfl
example : hashFromStr 2 [0x61, 0x42] = .error .length := by rfl
example : hashFromStr 1 [0x61, 0x67] = .error .char := by rfl
example : hashDecode 2 [0x42, 1, 2, 0xff] = .ok [1, 2] := by rfl
example : hashDecode 2 [0x43, 1, 2, 3] = .error .msg := by rfl
example : hashDecode 2 [0x43, 1, 2] = .error .eoi := by rfl
example : hashDecode 2 [0x5f, 0x42, 1, 2, 0xff] = .error .type := by rfl
example : hashDecode 2 [0x58, 2, 1, 2] = .ok [1, 2] := by rfl
example : cborBytes [.array 2, .uint 500, .bytes [1, 2, 3]] = [0x82, 0x19, 0x01, 0xf4, 0x43, 1, 2, 3] := by decide

end PallasVerif.Props.C10
