import PallasVerif.Model.Ed25519
/-!
# C11 — Ed25519 signing and verification agree with RFC 8032   (partial)

Proved here, for all inputs:

* `verify_sign_generic` — sign-then-verify succeeds for **every** secret scalar, nonce prefix and
  message, for the `signWith` / `verifyWith` the model is built from, over any operations `O : Ops`
  that admit an *interpretation* `Interp O`: a map `φ` from the point representation into an abelian
  group that commutes with `add`/`neg`/`smul`, with `ℓ·φ(B) = 0`, an encoding that depends only on
  `φ`, 32-byte encodings and `dec (enc P)` landing in the class of `P`. These are structure fields
  (hypotheses of the theorem), not axioms. `toyInterp` instantiates them on a 13-element cyclic
  group with *unnormalised* representatives, so the theorem is not vacuous.
* `verify_sign_standard`, `verify_sign_extended` — the same statement specialised to the pallas
  entry points (`SecretKey::{public_key, sign}`, `SecretKeyExtended::{public_key, sign}`,
  `PublicKey::verify`), conditional on `Interp ed`.
* `check_structure_iff`, `check_structure_scalar`, `clamp_satisfies`, `from_bytes_accepts_iff` —
  the clamping check, over all byte values (the finite part is a `decide` over one byte, lifted).

**Not proved (named remainder):** `Interp ed`, i.e. that the extended-coordinate Edwards formulas
mod `2^255 − 19` with base point `B` form a group of which `B` has order `ℓ` and that
`encode`/`decodeLenient` are mutually inverse on it. Agreement of public keys and signatures with
RFC 8032 is by the RFC 8032 §7.1 vectors (driver self-test) and by the correspondence with the
real code and with an independent implementation (ed25519-dalek) in the harness.

**Where cryptoxide's `verify` is *not* the RFC 8032 reference** (`FullStatement` below is false on
the faithful model; witnesses are replayed against the real code by the stream `ed25519` and
recorded as known findings): it accepts non-canonical public-key encodings (`y ≥ p`; `x = 0` with
the sign bit set) and it rejects the all-zero public key outright.
-/
namespace PallasVerif.Props.C11
open PallasVerif.Ed25519

/-! ## little-endian codec facts -/

theorem leBytes_length (w n : Nat) : (leBytes w n).length = w := by
  induction w generalizing n with
  | zero => rfl
  | succ w ih => simp [leBytes, ih]

theorem leNat_leBytes (w n : Nat) : leNat (leBytes w n) = n % 256 ^ w := by
  induction w generalizing n with
  | zero => simp [leBytes, leNat, Nat.mod_one]
  | succ w ih =>
    simp only [leBytes, leNat, ih]
    have h1 : (UInt8.ofNat (n % 256)).toNat = n % 256 := by
      rw [UInt8.toNat_ofNat_of_lt' (by simp [UInt8.size]; omega)]
    rw [h1, Nat.pow_succ, Nat.mul_comm (256 ^ w) 256, Nat.mod_mul]

/-! ## the interpretation of an `Ops` in an abelian group -/

/-- `n`-fold sum -/
def nsmul {A : Type} (zero : A) (plus : A → A → A) : Nat → A → A
  | 0, _ => zero
  | n + 1, a => plus a (nsmul zero plus n a)

structure Interp (O : Ops) where
  A : Type
  zero : A
  plus : A → A → A
  minus : A → A
  plus_assoc : ∀ a b c, plus (plus a b) c = plus a (plus b c)
  plus_comm : ∀ a b, plus a b = plus b a
  zero_plus : ∀ a, plus zero a = a
  minus_plus : ∀ a, plus (minus a) a = zero
  φ : O.G → A
  φ_add : ∀ P Q, φ (O.add P Q) = plus (φ P) (φ Q)
  φ_neg : ∀ P, φ (O.neg P) = minus (φ P)
  φ_smul : ∀ n P, φ (O.smul n P) = nsmul zero plus n (φ P)
  order : nsmul zero plus O.ell (φ O.B) = zero
  ell_pos : 0 < O.ell
  ell_le : O.ell ≤ 2 ^ 256
  enc_congr : ∀ P Q, φ P = φ Q → O.enc P = O.enc Q
  enc_len : ∀ P, (O.enc P).length = 32
  dec_enc : ∀ P, ∃ Q, O.dec (O.enc P) = some Q ∧ φ Q = φ P

section Generic
variable {O : Ops} (I : Interp O)

local notation:65 a " ⊕ " b => Interp.plus I a b
local notation n " • " a => nsmul (Interp.zero I) (Interp.plus I) n a

theorem plus_zero (a : I.A) : (a ⊕ I.zero) = a := by rw [I.plus_comm, I.zero_plus]

theorem nsmul_add (m n : Nat) (a : I.A) : ((m + n) • a) = ((m • a) ⊕ (n • a)) := by
  induction m with
  | zero => simp [nsmul, I.zero_plus]
  | succ m ih =>
    have : m + 1 + n = (m + n) + 1 := by omega
    rw [this]; simp only [nsmul]; rw [ih, I.plus_assoc]

theorem nsmul_zero (n : Nat) : (n • I.zero) = I.zero := by
  induction n with
  | zero => rfl
  | succ n ih => simp only [nsmul]; rw [ih, I.zero_plus]

theorem nsmul_mul (m n : Nat) (a : I.A) : ((m * n) • a) = (m • (n • a)) := by
  induction m with
  | zero => simp [nsmul]
  | succ m ih =>
    have : (m + 1) * n = n + m * n := by rw [Nat.succ_mul, Nat.add_comm]
    rw [this, nsmul_add, ih]; simp only [nsmul]

theorem nsmul_mod (n : Nat) : ((n % O.ell) • I.φ O.B) = (n • I.φ O.B) := by
  have h : n = (n / O.ell) * O.ell + n % O.ell := by
    rw [Nat.mul_comm]; exact (Nat.div_add_mod n O.ell).symm
  conv => rhs; rw [h]
  rw [nsmul_add, nsmul_mul, I.order, nsmul_zero, I.zero_plus]

theorem nsmul_neg_cancel (h : Nat) (c : I.A) : ((h • I.minus c) ⊕ (h • c)) = I.zero := by
  induction h with
  | zero => simp [nsmul, I.zero_plus]
  | succ h ih =>
    simp only [nsmul]
    -- (−c + x) + (c + y) = (−c + c) + (x + y)
    have : ((I.minus c ⊕ (h • I.minus c)) ⊕ (c ⊕ (h • c))) =
        ((I.minus c ⊕ c) ⊕ ((h • I.minus c) ⊕ (h • c))) := by
      rw [I.plus_assoc, I.plus_assoc]
      congr 1
      rw [← I.plus_assoc, ← I.plus_assoc, I.plus_comm (h • I.minus c) c]
    rw [this, ih, I.minus_plus, I.zero_plus]

/-- the group computation behind verification: `h·(−(a·B)) + ((h·a + r) mod ℓ)·B = r·B` -/
theorem verify_equation (a r h : Nat) (Q : O.G) (hQ : I.φ Q = I.φ (O.smul a O.B)) :
    I.φ (O.add (O.smul h (O.neg Q)) (O.smul ((h * a + r) % O.ell) O.B)) = I.φ (O.smul r O.B) := by
  rw [I.φ_add, I.φ_smul, I.φ_neg, hQ, I.φ_smul, I.φ_smul, I.φ_smul, nsmul_mod, nsmul_add, nsmul_mul,
    ← I.plus_assoc, nsmul_neg_cancel, I.zero_plus]

end Generic

/-- **A signature made with secret scalar `a` always verifies under `a`'s public key**, for every
    scalar, nonce prefix and message (the all-zero test of `verify` is the explicit side condition). -/
theorem verify_sign_generic {O : Ops} (I : Interp O) (a : Nat) (pre msg : Bytes)
    (hz : (pkOf O a).all (· == 0) = false) :
    verifyWith O (pkOf O a) msg (signWith O a pre msg) = true := by
  obtain ⟨Q, hdec, hQ⟩ := I.dec_enc (O.smul a O.B)
  have hell := I.ell_pos
  have hle := I.ell_le
  -- name the pieces of the signature
  generalize hr : O.H (pre ++ msg) % O.ell = r
  generalize hR : O.enc (O.smul r O.B) = R
  generalize hh : O.H (R ++ pkOf O a ++ msg) % O.ell = h
  have hRlen : R.length = 32 := by rw [← hR]; exact I.enc_len _
  have hsig : signWith O a pre msg = R ++ leBytes 32 ((h * a + r) % O.ell) := by
    simp only [signWith, hr, hR, hh]
  have hS : (h * a + r) % O.ell < O.ell := Nat.mod_lt _ hell
  have hSdec : leNat (leBytes 32 ((h * a + r) % O.ell)) = (h * a + r) % O.ell := by
    rw [leNat_leBytes]; apply Nat.mod_eq_of_lt
    have : (256 : Nat) ^ 32 = 2 ^ 256 := by decide
    omega
  have htake : (R ++ leBytes 32 ((h * a + r) % O.ell)).take 32 = R := by
    rw [List.take_append_of_le_length (by omega), List.take_of_length_le (by omega)]
  have hdrop : (R ++ leBytes 32 ((h * a + r) % O.ell)).drop 32 = leBytes 32 ((h * a + r) % O.ell) := by
    rw [List.drop_append_of_le_length (by omega), List.drop_of_length_le (by omega), List.nil_append]
  have hdec' : O.dec (pkOf O a) = some Q := hdec
  have hnot : ¬ ((h * a + r) % O.ell ≥ O.ell) := by omega
  have henc : O.enc (O.add (O.smul h (O.neg Q)) (O.smul ((h * a + r) % O.ell) O.B)) = R := by
    rw [← hR]; exact I.enc_congr _ _ (verify_equation I a r h Q hQ)
  unfold verifyWith
  rw [hsig]
  simp only [htake, hdrop, hdec', hSdec, hnot, hz, hh, henc, ↓reduceIte, Bool.false_eq_true, beq_self_eq_true]

/-! ## non-vacuity: a toy instance (ℤ/13 with unnormalised representatives) -/

def toyOps : Ops :=
  { G := Nat, add := fun a b => a + b, neg := fun a => 12 * a, smul := fun n a => n * a, B := 1, ell := 13,
    enc := fun a => leBytes 32 (a % 13 + 1), dec := fun bs => some (leNat bs + 12), H := fun m => leNat m }

theorem toy_nsmul (n : Nat) (a : Fin 13) :
    nsmul (0 : Fin 13) (· + ·) n a = Fin.ofNat 13 (n * a.val) := by
  induction n with
  | zero => simp [nsmul]
  | succ n ih =>
    simp only [nsmul, ih]
    apply Fin.ext
    simp [Fin.add_def, Fin.ofNat, Nat.succ_mul]
    omega

def toyInterp : Interp toyOps :=
  { A := Fin 13, zero := 0, plus := (· + ·), minus := fun a => 0 - a,
    plus_assoc := by decide, plus_comm := by decide, zero_plus := by decide, minus_plus := by decide,
    φ := fun (a : Nat) => Fin.ofNat 13 a,
    φ_add := by
      intro (P : Nat) (Q : Nat); apply Fin.ext
      show (P + Q) % 13 = (P % 13 + Q % 13) % 13
      exact Nat.add_mod P Q 13,
    φ_neg := by
      intro (P : Nat); apply Fin.ext
      show (12 * P) % 13 = ((13 - P % 13) + 0) % 13
      omega,
    φ_smul := by
      intro n (P : Nat); rw [toy_nsmul]; apply Fin.ext
      show (n * P) % 13 = (n * (P % 13)) % 13
      rw [Nat.mul_mod n P, Nat.mul_mod n (P % 13), Nat.mod_mod],
    order := by rw [toy_nsmul]; decide,
    ell_pos := by decide, ell_le := by decide,
    enc_congr := by
      intro (P : Nat) (Q : Nat) h
      have h' : P % 13 = Q % 13 := congrArg Fin.val h
      show leBytes 32 (P % 13 + 1) = leBytes 32 (Q % 13 + 1)
      rw [h'],
    enc_len := by intro P; exact leBytes_length _ _,
    dec_enc := by
      intro (P : Nat)
      refine ⟨P % 13 + 1 + 12, ?_, ?_⟩
      · show some (leNat (leBytes 32 (P % 13 + 1)) + 12) = some (P % 13 + 1 + 12)
        rw [leNat_leBytes, Nat.mod_eq_of_lt]
        have : P % 13 < 13 := Nat.mod_lt _ (by decide)
        have : (256 : Nat) ^ 32 = 115792089237316195423570985008687907853269984665640564039457584007913129639936 := by decide
        omega
      · apply Fin.ext
        show (P % 13 + 1 + 12) % 13 = P % 13
        omega }

/-- the generic theorem applies to a concrete instance: secret 5, message `[7]`, in the toy group -/
example : verifyWith toyOps (pkOf toyOps 5) [7] (signWith toyOps 5 [1, 2] [7]) = true :=
  verify_sign_generic toyInterp 5 [1, 2] [7] (by decide +kernel)

example : verifyWith toyOps (pkOf toyOps 5) [8] (signWith toyOps 5 [1, 2] [7]) = false := by decide +kernel

/-! ## the pallas entry points (conditional on the unproved `Interp ed`) -/

/-- `SecretKey`: `sk.public_key().verify(msg, sk.sign(msg))` -/
theorem verify_sign_standard (I : Interp ed) (sk msg : Bytes)
    (hz : (publicKey sk).all (· == 0) = false) :
    verify (publicKey sk) msg (sign sk msg) = true :=
  verify_sign_generic I _ _ msg hz

/-- `SecretKeyExtended`: `xsk.public_key().verify(msg, xsk.sign(msg))` -/
theorem verify_sign_extended (I : Interp ed) (ext msg : Bytes)
    (hz : (extPublicKey ext).all (· == 0) = false) :
    verify (extPublicKey ext) msg (extSign ext msg) = true :=
  verify_sign_generic I _ _ msg hz

/-! ## clamping -/

theorem byte_low3 : ∀ n, n < 256 → (((UInt8.ofNat n) &&& 0b0000_0111) == 0) = decide (n % 8 = 0) := by decide +kernel
theorem byte_bit6 : ∀ n, n < 256 → (((UInt8.ofNat n) &&& 0b0100_0000) == 0b0100_0000) = decide (n / 64 % 2 = 1) := by decide +kernel
theorem byte_bit7 : ∀ n, n < 256 → (((UInt8.ofNat n) &&& 0b1000_0000) == 0) = decide (n / 128 = 0) := by decide +kernel
theorem byte_clamp0 : ∀ n, n < 256 → ((UInt8.ofNat n) &&& 0xF8).toNat % 8 = 0 := by decide +kernel
theorem byte_clamp31 : ∀ n, n < 256 → (((UInt8.ofNat n) &&& 0x3F) ||| 0x40).toNat / 64 = 1 := by decide +kernel

theorem ofNat_toNat (b : UInt8) : UInt8.ofNat b.toNat = b := by simp

/-- **`check_structure` holds exactly when the three low bits of byte 0 are clear, bit 6 of byte 31
    is set and bit 7 of byte 31 is clear** — all 2^3·2^2 combinations of the five bits, all values of
    the other bits. -/
theorem check_structure_iff (ext : Bytes) :
    checkStructure ext = true ↔ (ext.getD 0 0).toNat % 8 = 0 ∧ (ext.getD 31 0).toNat / 64 = 1 := by
  unfold checkStructure
  generalize ext.getD 0 0 = b0
  generalize ext.getD 31 0 = b31
  have h0 := byte_low3 b0.toNat (UInt8.toNat_lt b0)
  have h1 := byte_bit6 b31.toNat (UInt8.toNat_lt b31)
  have h2 := byte_bit7 b31.toNat (UInt8.toNat_lt b31)
  rw [ofNat_toNat] at h0 h1 h2
  rw [h0, h1, h2]
  have := UInt8.toNat_lt b31
  simp only [Bool.and_eq_true, decide_eq_true_eq]
  omega

/-- `check_structure` looks at bytes 0 and 31 only -/
theorem check_depends_only_on_b0_b31 (e1 e2 : Bytes) (h0 : e1.getD 0 0 = e2.getD 0 0) (h31 : e1.getD 31 0 = e2.getD 31 0) :
    checkStructure e1 = checkStructure e2 := by
  unfold checkStructure; rw [h0, h31]

theorem mkExt_bytes (b0 b31 : UInt8) (filler : Bytes) (hf : 30 ≤ filler.length) :
    (mkExt b0 b31 filler).getD 0 0 = b0 ∧ (mkExt b0 b31 filler).getD 31 0 = b31 := by
  refine ⟨rfl, ?_⟩
  have hlen : (List.take 30 filler).length = 30 := by simp; omega
  simp [mkExt, List.getD_eq_getElem?_getD, List.getElem?_append, hlen]

/-- every entry of the 256×256 table the stream compares against the real `from_bytes`: accepted exactly when
    byte 0 is a multiple of 8 and byte 31 lies in `0x40..0x7f` -/
theorem check_table_entry (b0 b31 : UInt8) (filler : Bytes) (hf : 30 ≤ filler.length) :
    checkStructure (mkExt b0 b31 filler) = true ↔ b0.toNat % 8 = 0 ∧ 64 ≤ b31.toNat ∧ b31.toNat < 128 := by
  obtain ⟨h0, h31⟩ := mkExt_bytes b0 b31 filler hf
  rw [check_structure_iff, h0, h31]
  omega

theorem from_bytes_accepts_iff (ext : Bytes) : extFromBytes ext = some ext ↔ checkStructure ext = true := by
  unfold extFromBytes; split <;> simp_all

theorem from_bytes_rejects_iff (ext : Bytes) : extFromBytes ext = none ↔ checkStructure ext = false := by
  unfold extFromBytes; split <;> simp_all

/-- the bit tweaks applied by `SecretKeyExtended::new` (and by `clamp_scalar` on a hashed standard
    key) always satisfy `check_structure` -/
theorem clamp_satisfies (ext : Bytes) (hl : 32 ≤ ext.length) : checkStructure (clamp ext) = true := by
  rw [check_structure_iff]
  match ext, hl with
  | b0 :: rest, hl =>
    have hr : 31 ≤ rest.length := by simpa using hl
    have e0 : (clamp (b0 :: rest)).getD 0 0 = b0 &&& 0xF8 := by simp [clamp]
    have e31 : (clamp (b0 :: rest)).getD 31 0 = (rest.getD 30 0 &&& 0x3F) ||| 0x40 := by
      simp only [clamp, List.cons_append, List.getD_cons_succ]
      have hlen : (List.take 30 rest).length = 30 := by simp; omega
      simp [List.getD_eq_getElem?_getD, List.getElem?_append, hlen]
    rw [e0, e31]
    refine ⟨?_, ?_⟩
    · have := byte_clamp0 b0.toNat (UInt8.toNat_lt b0); rwa [ofNat_toNat] at this
    · have := byte_clamp31 (rest.getD 30 0).toNat (UInt8.toNat_lt _); rwa [ofNat_toNat] at this

theorem leNat_append (a b : Bytes) : leNat (a ++ b) = leNat a + 256 ^ a.length * leNat b := by
  induction a with
  | nil => simp [leNat]
  | cons x xs ih =>
    simp only [List.cons_append, leNat, ih, List.length_cons, Nat.pow_succ]
    rw [Nat.mul_add, Nat.mul_comm (256 ^ xs.length) 256, Nat.mul_assoc]
    omega

theorem leNat_lt (a : Bytes) : leNat a < 256 ^ a.length := by
  induction a with
  | nil => simp [leNat]
  | cons x xs ih =>
    simp only [leNat, List.length_cons, Nat.pow_succ]
    have := UInt8.toNat_lt x
    omega

/-- **bit-level reading on the scalar**: a 64-byte extended key passes `check_structure` exactly when its
    secret scalar `a` (bytes 0..32, little endian) is a multiple of 8 with `2^254 ≤ a < 2^255`. -/
theorem check_structure_scalar (ext : Bytes) (hl : 32 ≤ ext.length) :
    checkStructure ext = true ↔
      leNat (ext.take 32) % 8 = 0 ∧ 2 ^ 254 ≤ leNat (ext.take 32) ∧ leNat (ext.take 32) < 2 ^ 255 := by
  rw [check_structure_iff]
  -- ext.take 32 = b0 :: mid ++ [b31]
  match ext, hl with
  | b0 :: rest, hl =>
    have hr : 31 ≤ rest.length := by simpa using hl
    have e : (b0 :: rest).take 32 = b0 :: (rest.take 30 ++ [rest.getD 30 0]) := by
      simp only [List.take_succ_cons]
      congr 1
      have h31 : rest.take 31 = rest.take 30 ++ [rest.getD 30 0] := by
        rw [List.take_succ]
        congr 1
        have : 30 < rest.length := by omega
        simp [List.getD_eq_getElem?_getD, List.getElem?_eq_getElem this]
      exact h31
    have hmid : (rest.take 30).length = 30 := by simp; omega
    have hm := leNat_lt (rest.take 30)
    rw [hmid] at hm
    have hval : leNat ((b0 :: rest).take 32) = b0.toNat + 256 * (leNat (rest.take 30) + 256 ^ 30 * (rest.getD 30 0).toNat) := by
      rw [e]; simp only [leNat, leNat_append, hmid, Nat.mul_zero, Nat.add_zero]
    have g0 : (b0 :: rest).getD 0 0 = b0 := rfl
    have g31 : (b0 :: rest).getD 31 0 = rest.getD 30 0 := rfl
    rw [g0, g31, hval]
    have hb0 := UInt8.toNat_lt b0
    have hb31 := UInt8.toNat_lt (rest.getD 30 0)
    generalize leNat (rest.take 30) = M at hm ⊢
    generalize (rest.getD 30 0).toNat = c at hb31 ⊢
    generalize b0.toNat = a at hb0 ⊢
    have p30 : (256 : Nat) ^ 30 = 1766847064778384329583297500742918515827483896875618958121606201292619776 := by decide
    have p254 : (2 : Nat) ^ 254 = 28948022309329048855892746252171976963317496166410141009864396001978282409984 := by decide
    have p255 : (2 : Nat) ^ 255 = 57896044618658097711785492504343953926634992332820282019728792003956564819968 := by decide
    rw [p30] at hm ⊢
    rw [p254, p255]
    omega

/-! ## where `verify` departs from the strict RFC 8032 reference -/

/-- the full-strength reading of "verification accepts exactly what the reference accepts" -/
def FullStatement : Prop := ∀ pk msg sig : Bytes, pk.length = 32 → sig.length = 64 → verify pk msg sig = verifyRfc pk msg sig

/-- witnesses replayed against the real code by stream `ed25519` (ops `verify`):
    non-canonical identity `ee ff…ff 7f` and `01 00…00 80` (x = 0, sign bit set) with signature
    `(01 00…00, S = 0)`; the all-zero key with message `[4]`. -/
def witnessNoncanonicalPk : Bytes := 0xee :: (List.replicate 30 0xff ++ [0x7f])
def witnessXZeroSignPk : Bytes := 1 :: (zeros 30 ++ [0x80])
def witnessSig : Bytes := (1 :: zeros 31) ++ zeros 32

/-! The halves of the two departures that need no curve computation (the other halves — `verify` accepts the
    non-canonical key, `verifyRfc` accepts a signature under the all-zero key — are evaluated by the compiled
    driver in `Ed25519.selfTest` and replayed against the real code by the stream). -/

/-- cryptoxide's outright rejection of the all-zero key, for every message and signature -/
theorem verify_rejects_allzero (m sig : Bytes) : verify (zeros 32) m sig = false := by
  unfold verify verifyWith
  have hz : (zeros 32).all (· == 0) = true := by decide
  cases ed.dec (zeros 32) with
  | none => rfl
  | some A =>
    simp only [hz, ↓reduceIte]
    split <;> rfl

/-- the strict reference rejects the non-canonical encoding `ee ff…ff 7f` (`y = p + 1`) whatever the
    message and signature -/
theorem verifyRfc_rejects_noncanonical (m sig : Bytes) : verifyRfc witnessNoncanonicalPk m sig = false := by
  have hy : leNat (witnessNoncanonicalPk.take 32) % 2 ^ 255 ≥ p := by decide +kernel
  have hd : decodeStrict witnessNoncanonicalPk = none := by
    simp only [decodeStrict, hy, ↓reduceIte]
  simp [verifyRfc, hd]

end PallasVerif.Props.C11
