import PallasVerif.Model.Fsm
/-!
  Generic lemmas about `Fsm.Proto` / `Fsm.Spec`: a decidable table-level conformance predicate
  (`Table`), and its lifting to the concrete semantics (`apply`, `run`) for every state, message
  and history. Used by Props/C24 (and C23).
-/
namespace PallasVerif.Fsm

/-- Everything that has to be compared between an extracted table and a specification; all
    quantifiers are bounded by the (finite) declared classes, so `Table p sp` is decidable. -/
def Table (p : Proto) (sp : Spec) : Prop :=
  (∀ s ∈ p.stateNames, s ∈ sp.stateNames) ∧ (∀ s ∈ sp.stateNames, s ∈ p.stateNames) ∧
  (∀ m ∈ p.msgNames, m ∈ sp.msgs) ∧ (∀ m ∈ sp.msgs, m ∈ p.msgNames) ∧
  p.init.1 = sp.init ∧
  (∀ s ∈ p.stateNames, ∀ m ∈ p.msgNames, (p.step s m).next? = sp.step s m) ∧
  (∀ r ∈ sp.trans, r.next ∈ sp.stateNames ∧ r.st ∈ sp.stateNames ∧ r.msg ∈ sp.msgs ∧ sp.agency r.st ≠ .nobody) ∧
  (∀ r ∈ sp.trans, ∀ i ∈ r.carried, i ∈ msgArgsOfs (p.step r.st r.msg).data ∧ i < p.arity r.msg)

instance (p : Proto) (sp : Spec) : Decidable (Table p sp) := by unfold Table; infer_instance

namespace Table
variable {p : Proto} {sp : Spec}
theorem step (h : Table p sp) : ∀ s ∈ p.stateNames, ∀ m ∈ p.msgNames, (p.step s m).next? = sp.step s m := h.2.2.2.2.2.1
theorem init (h : Table p sp) : p.init.1 = sp.init := h.2.2.2.2.1
theorem states_sup (h : Table p sp) : ∀ s ∈ sp.stateNames, s ∈ p.stateNames := h.2.1
theorem states_sub (h : Table p sp) : ∀ s ∈ p.stateNames, s ∈ sp.stateNames := h.1
theorem msgs_sup (h : Table p sp) : ∀ m ∈ sp.msgs, m ∈ p.msgNames := h.2.2.2.1
theorem wf (h : Table p sp) : ∀ r ∈ sp.trans, r.next ∈ sp.stateNames ∧ r.st ∈ sp.stateNames ∧ r.msg ∈ sp.msgs ∧ sp.agency r.st ≠ .nobody := h.2.2.2.2.2.2.1
theorem carries (h : Table p sp) : ∀ r ∈ sp.trans, ∀ i ∈ r.carried, i ∈ msgArgsOfs (p.step r.st r.msg).data ∧ i < p.arity r.msg := h.2.2.2.2.2.2.2
end Table

theorem Spec.row?_mem {sp : Spec} {s m : String} {r : SpecRow} (h : sp.row? s m = some r) :
    r ∈ sp.trans ∧ r.st = s ∧ r.msg = m := by
  unfold Spec.row? at h
  have h1 := List.mem_of_find?_eq_some h
  have h2 := List.find?_some h
  simp at h2
  exact ⟨h1, h2.1, h2.2⟩

theorem Spec.step_some {sp : Spec} {s m c : String} (h : sp.step s m = some c) :
    ∃ r ∈ sp.trans, r.st = s ∧ r.msg = m ∧ r.next = c := by
  unfold Spec.step at h
  cases hr : sp.row? s m with
  | none => simp [hr] at h
  | some r =>
    simp [hr] at h
    have := Spec.row?_mem hr
    exact ⟨r, this.1, this.2.1, this.2.2, h⟩

/-! ## one call -/

theorem apply_ok_cls {p : Proto} {s s' : CState} {m : CMsg} (h : apply p s m = .ok s') :
    (p.step s.cls m.cls).next? = some s'.cls := by
  unfold apply at h
  cases hs : p.step s.cls m.cls with
  | ok c d => simp [hs] at h; subst h; rfl
  | err k => simp [hs] at h

theorem apply_error_cls {p : Proto} {s : CState} {m : CMsg} {k : String} (h : apply p s m = .error k) :
    (p.step s.cls m.cls).next? = none := by
  unfold apply at h
  cases hs : p.step s.cls m.cls with
  | ok c d => simp [hs] at h
  | err k => rfl

/-- `apply` on concrete states/messages accepts exactly what the specification permits, and ends in
    the prescribed class -/
theorem apply_refines {p : Proto} {sp : Spec} (ht : Table p sp) (s : CState) (m : CMsg)
    (hs : s.cls ∈ p.stateNames) (hm : m.cls ∈ p.msgNames) :
    (match apply p s m with | .ok s' => some s'.cls | .error _ => none) = sp.step s.cls m.cls := by
  rw [← ht.step _ hs _ hm]
  cases h : apply p s m with
  | ok s' => simp [apply_ok_cls h]
  | error k => simp [apply_error_cls h]

theorem apply_next_mem {p : Proto} {sp : Spec} (ht : Table p sp) {s s' : CState} {m : CMsg}
    (hs : s.cls ∈ p.stateNames) (hm : m.cls ∈ p.msgNames) (h : apply p s m = .ok s') :
    s'.cls ∈ p.stateNames := by
  have h1 := apply_ok_cls h
  rw [ht.step _ hs _ hm] at h1
  obtain ⟨r, hr, _, _, hn⟩ := Spec.step_some h1
  exact ht.states_sup _ (hn ▸ (ht.wf r hr).1)

/-! ## histories -/

/-- every history of `apply` calls on concrete data is the specification's run on the classes:
    same verdict for every message, same class at the end (no bound on the length) -/
theorem run_refines {p : Proto} {sp : Spec} (ht : Table p sp) :
    ∀ (ms : List CMsg) (s : CState), s.cls ∈ p.stateNames → (∀ m ∈ ms, m.cls ∈ p.msgNames) →
      ((run p s ms).1.cls, (run p s ms).2) = sp.run s.cls (ms.map (·.cls)) := by
  intro ms
  induction ms with
  | nil => intro s _ _; rfl
  | cons m ms ih =>
    intro s hs hms
    have hm : m.cls ∈ p.msgNames := hms m (List.mem_cons_self ..)
    have hrest : ∀ m' ∈ ms, m'.cls ∈ p.msgNames := fun m' h => hms m' (List.mem_cons_of_mem _ h)
    have hstep := ht.step _ hs _ hm
    cases h : apply p s m with
    | ok s' =>
      have h1 := apply_ok_cls h
      rw [hstep] at h1
      have hs' := apply_next_mem ht hs hm h
      have := ih s' hs' hrest
      simp only [run, h, List.map_cons, Spec.run, h1]
      rw [← this]
    | error k =>
      have h1 := apply_error_cls h
      rw [hstep] at h1
      have := ih s hs hrest
      simp only [run, h, List.map_cons, Spec.run, h1]
      rw [← this]

/-! ## carried data -/

theorem Val.self_mem_subterms : ∀ v : Val, v ∈ v.subterms
  | .atom t => by simp [Val.subterms]
  | .node t ks => by simp [Val.subterms]

mutual
  theorem carried_eval (st margs : List Val) (i : Nat) :
      ∀ d : DExp, i ∈ msgArgsOf d → margs.getD i (.atom "?") ∈ (eval st margs d).subterms
    | .msgArg j, h => by
      simp [msgArgsOf] at h; subst h
      simp only [eval]; exact Val.self_mem_subterms _
    | .stArg j, h => by simp [msgArgsOf] at h
    | .ctor t as, h => by
      simp only [msgArgsOf] at h
      simp only [eval, Val.subterms]
      exact List.mem_cons_of_mem _ (carried_evals st margs i as h)
  theorem carried_evals (st margs : List Val) (i : Nat) :
      ∀ ds : List DExp, i ∈ msgArgsOfs ds → margs.getD i (.atom "?") ∈ Val.subtermsL (evals st margs ds)
    | [], h => by simp [msgArgsOfs] at h
    | d :: ds, h => by
      simp only [msgArgsOfs, List.mem_append] at h
      simp only [evals, Val.subtermsL, List.mem_append]
      cases h with
      | inl h => exact Or.inl (carried_eval st margs i d h)
      | inr h => exact Or.inr (carried_evals st margs i ds h)
end

/-- an accepted message's carried fields occur in the successor state's payload -/
theorem apply_carries {p : Proto} {sp : Spec} (ht : Table p sp) (s s' : CState) (m : CMsg)
    (h : apply p s m = .ok s') (r : SpecRow) (hr : sp.row? s.cls m.cls = some r)
    (i : Nat) (hi : i ∈ r.carried) (hlen : i < m.args.length) :
    m.args[i] ∈ Val.subtermsL s'.data := by
  obtain ⟨hmem, hst, hmsg⟩ := Spec.row?_mem hr
  have hc := (ht.carries r hmem i hi).1
  rw [hst, hmsg] at hc
  unfold apply at h
  cases hs : p.step s.cls m.cls with
  | err k => simp [hs] at h
  | ok c d =>
    simp [hs] at h; subst h
    simp only [hs, Res.data] at hc
    have := carried_evals s.data m.args i d hc
    simpa [List.getD, hlen] using this

end PallasVerif.Fsm
