import PallasVerif.Model.P2PProto
import PallasVerif.Gen.FsmN2
/-! Tie A for the protocol machines of the P2P behaviour models: the hand transcription
    `Model/P2PProto.lean` (`*.apply`) agrees, for every state and every message, with the table
    `Gen/FsmN2.lean` that `lib/translate_fsm.py` regenerates from the `State::apply` functions of
    `pallas-network2/src/protocol/*` on every run — same acceptance, same successor state class.
    A changed arm in the Rust changes the generated table and breaks these theorems (fail closed). -/
namespace PallasVerif.P2P
open PallasVerif.Fsm PallasVerif.Gen

def HsSt.cls : HsSt → String
  | .propose => "Propose" | .confirm _ => "Confirm" | _ => "Done"
def HsMsg.kind : HsMsg → String
  | .propose _ => "Propose" | .accept _ _ => "Accept" | .refuse => "Refuse" | .queryReply => "QueryReply"

def KaSt.cls : KaSt → String
  | .client _ => "Client" | .server _ => "Server" | .done => "Done"
def KaMsg.kind : KaMsg → String
  | .keepAlive _ => "KeepAlive" | .response _ => "ResponseKeepAlive" | .done => "Done"

def PsSt.cls : PsSt → String
  | .idle _ => "Idle" | .busy _ => "Busy" | .done => "Done"
def PsMsg.kind : PsMsg → String
  | .shareRequest _ => "ShareRequest" | .sharePeers _ => "SharePeers" | .done => "Done"

def BfSt.cls : BfSt → String
  | .idle => "Idle" | .busy _ => "Busy" | .streaming _ => "Streaming" | .done => "Done"
def BfMsg.kind : BfMsg → String
  | .requestRange _ => "RequestRange" | .clientDone => "ClientDone" | .startBatch => "StartBatch"
  | .noBlocks => "NoBlocks" | .block _ => "Block" | .batchDone => "BatchDone"

def CsSt.cls : CsSt → String
  | .idle _ => "Idle" | .canAwait => "CanAwait" | .mustReply => "MustReply" | .intersect => "Intersect" | .done => "Done"
def CsMsg.kind : CsMsg → String
  | .requestNext => "RequestNext" | .awaitReply => "AwaitReply" | .rollForward _ => "RollForward"
  | .rollBackward _ => "RollBackward" | .findIntersect => "FindIntersect" | .intersectFound _ => "IntersectFound"
  | .intersectNotFound => "IntersectNotFound" | .done => "Done"

def TxSt.cls : TxSt → String
  | .init => "Init" | .idle => "Idle" | .txIdsNonBlocking => "TxIdsNonBlocking" | .txIdsBlocking => "TxIdsBlocking"
  | .txs _ => "Txs" | .done => "Done"
def TxMsg.kind : TxMsg → String
  | .init => "Init" | .requestTxIds true => "RequestTxIds(true)" | .requestTxIds false => "RequestTxIds(false)"
  | .replyTxIds => "ReplyTxIds" | .requestTxs => "RequestTxs" | .replyTxs _ => "ReplyTxs" | .done => "Done"

def LnSt.cls : LnSt → String
  | .idle _ => "Idle" | .busy => "Busy" | .done => "Done"
def LnMsg.kind : LnMsg → String
  | .requestNext => "RequestNext" | .blockAnnouncement => "BlockAnnouncement" | .blockOffer => "BlockOffer"
  | .blockTxsOffer => "BlockTxsOffer" | .votes => "Votes" | .done => "Done"

def LfSt.cls : LfSt → String
  | .idle _ => "Idle" | .awaitingBlock _ => "AwaitingBlock" | .awaitingBlockTxs _ => "AwaitingBlockTxs" | .done => "Done"
def LfMsg.kind : LfMsg → String
  | .blockRequest _ => "BlockRequest" | .block => "Block" | .blockTxsRequest _ => "BlockTxsRequest"
  | .blockTxs => "BlockTxs" | .done => "Done"

theorem hs_matches_source (s : HsSt) (m : HsMsg) :
    (FsmN2.handshake.step s.cls m.kind).next? = (s.apply m).map HsSt.cls := by
  cases s <;> cases m <;> rfl

theorem ka_matches_source (s : KaSt) (m : KaMsg) :
    (FsmN2.keepalive.step s.cls m.kind).next? = (s.apply m).map KaSt.cls := by
  cases s <;> cases m <;> rfl

theorem ps_matches_source (s : PsSt) (m : PsMsg) :
    (FsmN2.peersharing.step s.cls m.kind).next? = (s.apply m).map PsSt.cls := by
  cases s <;> cases m <;> rfl

theorem bf_matches_source (s : BfSt) (m : BfMsg) :
    (FsmN2.blockfetch.step s.cls m.kind).next? = (s.apply m).map BfSt.cls := by
  cases s <;> cases m <;> rfl

theorem cs_matches_source (s : CsSt) (m : CsMsg) :
    (FsmN2.chainsync.step s.cls m.kind).next? = (s.apply m).map CsSt.cls := by
  cases s <;> cases m <;> rfl

theorem tx_matches_source (s : TxSt) (m : TxMsg) :
    (FsmN2.txsubmission.step s.cls m.kind).next? = (s.apply m).map TxSt.cls := by
  cases m with
  | requestTxIds b => cases b <;> cases s <;> rfl
  | _ => cases s <;> rfl

theorem ln_matches_source (s : LnSt) (m : LnMsg) :
    (FsmN2.leiosnotify.step s.cls m.kind).next? = (s.apply m).map LnSt.cls := by
  cases s <;> cases m <;> rfl

theorem lf_matches_source (s : LfSt) (m : LfMsg) :
    (FsmN2.leiosfetch.step s.cls m.kind).next? = (s.apply m).map LfSt.cls := by
  cases s <;> cases m <;> rfl

end PallasVerif.P2P
