import Mathlib.Analysis.Complex.Exponential
import PallasVerif.Proofs.RefMath
import PallasVerif.Proofs.ExpCmpReal
/-! Real-number reading of `ref_exp` for non-negative arguments (C15): Taylor terms, `scale` and
    `ipow_` all round down on non-negative values, so the result never exceeds `Real.exp x`. -/
namespace PallasVerif.Proofs.RefMath
open PallasVerif.Decimal PallasVerif.RefMath PallasVerif.Proofs.Decimal PallasVerif.Proofs.ExpCmp

theorem toReal_nonneg (z : Int) (hz : 0 ≤ z) : 0 ≤ toReal z :=
  div_nonneg (by exact_mod_cast hz) P_real_pos.le

theorem toReal_mono {a b : Int} (h : a ≤ b) : toReal a ≤ toReal b :=
  div_le_div_of_nonneg_right (by exact_mod_cast h) P_real_pos.le

theorem toReal_scale_mul_le (a b : Int) : toReal (scale (a * b)) ≤ toReal a * toReal b := by
  have h := scale_le_real (a * b)
  have hP := P_real_pos
  simp only [toReal]
  push_cast at h
  calc ((scale (a * b) : Int) : ℝ) / (P : ℝ) ≤ ((a : ℝ) * (b : ℝ) / (P : ℝ)) / (P : ℝ) :=
        div_le_div_of_nonneg_right h hP.le
    _ = (a : ℝ) / (P : ℝ) * ((b : ℝ) / (P : ℝ)) := by field_simp

theorem toReal_ONE : toReal ONE = 1 := by simp [toReal, ONE, P_real_pos.ne']

/-- square-and-multiply with a floor after every product never exceeds the true power -/
theorem ipowNat_le (r : Int) (hr : 0 ≤ r) (n : Nat) : toReal (ipowNat r n) ≤ toReal r ^ n := by
  induction n using Nat.strongRecOn with
  | _ n ih =>
    rw [ipowNat]
    have hr' := toReal_nonneg r hr
    split
    · rename_i h0; subst h0; simp [toReal_ONE]
    · split
      · rename_i h0 h2
        have ih' := ih (n / 2) (by omega)
        have hnn := toReal_nonneg _ (ipowNat_nonneg r hr (n / 2))
        have hn : n = n / 2 + n / 2 := by omega
        calc toReal (scale (ipowNat r (n / 2) * ipowNat r (n / 2)))
            ≤ toReal (ipowNat r (n / 2)) * toReal (ipowNat r (n / 2)) := toReal_scale_mul_le _ _
          _ ≤ toReal r ^ (n / 2) * toReal r ^ (n / 2) := mul_le_mul ih' ih' hnn (pow_nonneg hr' _)
          _ = toReal r ^ n := by rw [← pow_add, ← hn]
      · rename_i h0 h2
        have ih' := ih (n - 1) (by omega)
        have hnn := toReal_nonneg _ (ipowNat_nonneg r hr (n - 1))
        have hn : n = (n - 1) + 1 := by omega
        calc toReal (scale (ipowNat r (n - 1) * r))
            ≤ toReal (ipowNat r (n - 1)) * toReal r := toReal_scale_mul_le _ _
          _ ≤ toReal r ^ (n - 1) * toReal r := mul_le_mul_of_nonneg_right ih' hr'
          _ = toReal r ^ n := by rw [← pow_succ, ← hn]

/-- `ref_exp` on a positive argument never exceeds the true exponential -/
theorem refExpPos_le_exp (x : Int) (hx : 0 < x) (it : Nat) (r : Int)
    (h : refExpPos x = some (it, r)) : toReal r ≤ Real.exp (toReal x) ∧ it ≤ 1000 := by
  unfold refExpPos at h
  simp only at h
  obtain ⟨m, hm, hm1000⟩ := mpExpTaylor_spec 1000 (x.tdiv (divRoundCeil x P)) EPS
  rw [hm] at h
  simp only at h
  split at h
  · exact absurd h (by simp)
  · -- the scaling exponent is ≥ 1
    have hP := P_pos
    obtain ⟨d1, d2, _⟩ := tdm x P hP
    have d2 := d2 (by omega)
    obtain ⟨s1, _⟩ := tdm_sign x P hP
    have hq0 : 0 ≤ x.tdiv P := Int.tdiv_nonneg (by omega) (by omega)
    have hn1 : 1 ≤ divRoundCeil x P := by
      simp only [divRoundCeil, isNeg, decide_eq_true_eq]
      split
      · omega
      · rename_i hc
        -- remainder 0 and x > 0: quotient ≥ 1
        have hr0 : x.tmod P = 0 := by
          by_cases hr : x.tmod P = 0
          · exact hr
          · exact absurd ⟨by omega, hr⟩ hc
        by_cases hq : x.tdiv P = 0
        · rw [hq, hr0] at d1; omega
        · omega
    have hnpos : 0 < divRoundCeil x P := by omega
    rw [ipow] at h
    have hnn : ¬ divRoundCeil x P < 0 := by omega
    simp only [hnn, if_false] at h
    have hr : r = ipowNat (psum (x.tdiv (divRoundCeil x P)) m) (divRoundCeil x P).toNat := by
      have := Option.some.inj h; exact (Prod.mk.inj this).2.symm
    have hit : it = m := by
      have := Option.some.inj h; exact (Prod.mk.inj this).1.symm
    refine ⟨?_, by omega⟩
    -- x' = x / n (truncated) ≥ 0, n * x' ≤ x
    obtain ⟨e1, e2, _⟩ := tdm x (divRoundCeil x P) hnpos
    have e2 := e2 (by omega)
    have hx'0 : 0 ≤ x.tdiv (divRoundCeil x P) := Int.tdiv_nonneg (by omega) (by omega)
    have hps := psum_le_exp (x.tdiv (divRoundCeil x P)) hx'0 m
    have hps0 : 0 ≤ psum (x.tdiv (divRoundCeil x P)) m := by
      have := psum_ge_one _ hx'0 m; simp only [ONE] at this; omega
    have hpow := ipowNat_le _ hps0 (divRoundCeil x P).toNat
    rw [hr]
    refine le_trans hpow ?_
    have h1 : toReal (psum (x.tdiv (divRoundCeil x P)) m) ^ (divRoundCeil x P).toNat ≤
        Real.exp (toReal (x.tdiv (divRoundCeil x P))) ^ (divRoundCeil x P).toNat :=
      pow_le_pow_left₀ (toReal_nonneg _ hps0) hps _
    refine le_trans h1 ?_
    rw [← Real.exp_nat_mul]
    apply Real.exp_le_exp.mpr
    -- n * toReal x' ≤ toReal x
    have hcast : (((divRoundCeil x P).toNat : ℕ) : ℝ) = ((divRoundCeil x P : Int) : ℝ) := by
      have : (((divRoundCeil x P).toNat : ℕ) : Int) = divRoundCeil x P := Int.toNat_of_nonneg (by omega)
      exact_mod_cast this
    rw [hcast]
    simp only [toReal]
    rw [← mul_div_assoc]
    apply div_le_div_of_nonneg_right _ P_real_pos.le
    have : divRoundCeil x P * x.tdiv (divRoundCeil x P) ≤ x := by omega
    exact_mod_cast this

end PallasVerif.Proofs.RefMath
