import Mathlib.Analysis.Complex.Exponential
import PallasVerif.Proofs.RefMath
import PallasVerif.Proofs.ExpCmpReal
/-! Real-number reading of `ref_exp` for non-negative arguments (C15): Taylor terms, `scale` and
    `ipow_` all round down on non-negative values, so the result never exceeds `Real.exp x`. -/
namespace PallasVerif.Proofs.RefMath
open PallasVerif.Decimal PallasVerif.RefMath PallasVerif.Proofs.Decimal PallasVerif.Proofs.ExpCmp Finset

theorem toReal_nonneg (z : Int) (hz : 0 ≤ z) : 0 ≤ toReal z :=
  div_nonneg (by exact_mod_cast hz) P_real_pos.le

theorem toReal_mono {a b : Int} (h : a ≤ b) : toReal a ≤ toReal b :=
  div_le_div_of_nonneg_right (by exact_mod_cast h) P_real_pos.le

theorem toReal_scale_mul_le (a b : Int) : toReal (scale (a * b)) ≤ toReal a * toReal b := by
  have h := scale_le_real (a * b)
  have hP := P_real_pos
  simp only [toReal]
  push_cast at h
  calc ((scale (a * b) : Int) : ℝ) / (P : ℝ) ≤ ((a : ℝ) * (b : ℝ) / (P : ℝ)) / (P : ℝ) :=
        div_le_div_of_nonneg_right h hP.le
    _ = (a : ℝ) / (P : ℝ) * ((b : ℝ) / (P : ℝ)) := by field_simp

theorem toReal_ONE : toReal ONE = 1 := by simp [toReal, ONE, P_real_pos.ne']

/-- square-and-multiply with a floor after every product never exceeds the true power -/
theorem ipowNat_le (r : Int) (hr : 0 ≤ r) (n : Nat) : toReal (ipowNat r n) ≤ toReal r ^ n := by
  induction n using Nat.strongRecOn with
  | _ n ih =>
    rw [ipowNat]
    have hr' := toReal_nonneg r hr
    split
    · rename_i h0; subst h0; simp [toReal_ONE]
    · split
      · rename_i h0 h2
        have ih' := ih (n / 2) (by omega)
        have hnn := toReal_nonneg _ (ipowNat_nonneg r hr (n / 2))
        have hn : n = n / 2 + n / 2 := by omega
        calc toReal (scale (ipowNat r (n / 2) * ipowNat r (n / 2)))
            ≤ toReal (ipowNat r (n / 2)) * toReal (ipowNat r (n / 2)) := toReal_scale_mul_le _ _
          _ ≤ toReal r ^ (n / 2) * toReal r ^ (n / 2) := mul_le_mul ih' ih' hnn (pow_nonneg hr' _)
          _ = toReal r ^ n := by rw [← pow_add, ← hn]
      · rename_i h0 h2
        have ih' := ih (n - 1) (by omega)
        have hnn := toReal_nonneg _ (ipowNat_nonneg r hr (n - 1))
        have hn : n = (n - 1) + 1 := by omega
        calc toReal (scale (ipowNat r (n - 1) * r))
            ≤ toReal (ipowNat r (n - 1)) * toReal r := toReal_scale_mul_le _ _
          _ ≤ toReal r ^ (n - 1) * toReal r := mul_le_mul_of_nonneg_right ih' hr'
          _ = toReal r ^ n := by rw [← pow_succ, ← hn]

/-- `ref_exp` on a positive argument never exceeds the true exponential -/
theorem refExpPos_le_exp (x : Int) (hx : 0 < x) (it : Nat) (r : Int)
    (h : refExpPos x = some (it, r)) : toReal r ≤ Real.exp (toReal x) ∧ it ≤ 1000 := by
  unfold refExpPos at h
  simp only at h
  obtain ⟨m, hm, hm1000⟩ := mpExpTaylor_spec 1000 (x.tdiv (divRoundCeil x P)) EPS
  rw [hm] at h
  simp only at h
  split at h
  · exact absurd h (by simp)
  · -- the scaling exponent is ≥ 1
    have hP := P_pos
    obtain ⟨d1, d2, _⟩ := tdm x P hP
    have d2 := d2 (by omega)
    obtain ⟨s1, _⟩ := tdm_sign x P hP
    have hq0 : 0 ≤ x.tdiv P := Int.tdiv_nonneg (by omega) (by omega)
    have hn1 : 1 ≤ divRoundCeil x P := by
      simp only [divRoundCeil, isNeg, decide_eq_true_eq]
      split
      · omega
      · rename_i hc
        -- remainder 0 and x > 0: quotient ≥ 1
        have hr0 : x.tmod P = 0 := by
          by_cases hr : x.tmod P = 0
          · exact hr
          · exact absurd ⟨by omega, hr⟩ hc
        by_cases hq : x.tdiv P = 0
        · rw [hq, hr0] at d1; omega
        · omega
    have hnpos : 0 < divRoundCeil x P := by omega
    rw [ipow] at h
    have hnn : ¬ divRoundCeil x P < 0 := by omega
    simp only [hnn, if_false] at h
    have hr : r = ipowNat (psum (x.tdiv (divRoundCeil x P)) m) (divRoundCeil x P).toNat := by
      have := Option.some.inj h; exact (Prod.mk.inj this).2.symm
    have hit : it = m := by
      have := Option.some.inj h; exact (Prod.mk.inj this).1.symm
    refine ⟨?_, by omega⟩
    -- x' = x / n (truncated) ≥ 0, n * x' ≤ x
    obtain ⟨e1, e2, _⟩ := tdm x (divRoundCeil x P) hnpos
    have e2 := e2 (by omega)
    have hx'0 : 0 ≤ x.tdiv (divRoundCeil x P) := Int.tdiv_nonneg (by omega) (by omega)
    have hps := psum_le_exp (x.tdiv (divRoundCeil x P)) hx'0 m
    have hps0 : 0 ≤ psum (x.tdiv (divRoundCeil x P)) m := by
      have := psum_ge_one _ hx'0 m; simp only [ONE] at this; omega
    have hpow := ipowNat_le _ hps0 (divRoundCeil x P).toNat
    rw [hr]
    refine le_trans hpow ?_
    have h1 : toReal (psum (x.tdiv (divRoundCeil x P)) m) ^ (divRoundCeil x P).toNat ≤
        Real.exp (toReal (x.tdiv (divRoundCeil x P))) ^ (divRoundCeil x P).toNat :=
      pow_le_pow_left₀ (toReal_nonneg _ hps0) hps _
    refine le_trans h1 ?_
    rw [← Real.exp_nat_mul]
    apply Real.exp_le_exp.mpr
    -- n * toReal x' ≤ toReal x
    have hcast : (((divRoundCeil x P).toNat : ℕ) : ℝ) = ((divRoundCeil x P : Int) : ℝ) := by
      have : (((divRoundCeil x P).toNat : ℕ) : Int) = divRoundCeil x P := Int.toNat_of_nonneg (by omega)
      exact_mod_cast this
    rw [hcast]
    simp only [toReal]
    rw [← mul_div_assoc]
    apply div_le_div_of_nonneg_right _ P_real_pos.le
    have : divRoundCeil x P * x.tdiv (divRoundCeil x P) ≤ x := by omega
    exact_mod_cast this

/-! ## two-sided bound on the unit interval -/

/-- the Taylor loop stops at the FIRST index whose term is below `eps` (or at the cap) -/
theorem taylor_spec' (x eps : Int) (fuel n : Nat) :
    ∃ m, taylorLoop x eps fuel n (psum x n) (((n : Int) + 1) * P) (lastOf x n) = some (m, psum x m) ∧
      n ≤ m ∧ m ≤ n + fuel ∧ (absLt (tterm x m) eps = true ∨ m = n + fuel) ∧
      ∀ j, n ≤ j → j < m → absLt (tterm x j) eps = false := by
  induction fuel generalizing n with
  | zero => exact ⟨n, rfl, Nat.le_refl _, Nat.le_refl _, Or.inr rfl, fun j h1 h2 => by omega⟩
  | succ fuel ih =>
    rw [taylor_step]
    split
    · rename_i hb
      exact ⟨n, rfl, Nat.le_refl _, by omega, Or.inl hb, fun j h1 h2 => by omega⟩
    · rename_i hb
      obtain ⟨m, h, h1, h2, h3, h4⟩ := ih (n + 1)
      refine ⟨m, h, by omega, by omega, ?_, ?_⟩
      · rcases h3 with h3 | h3
        · exact Or.inl h3
        · right; omega
      · intro j hj1 hj2
        by_cases e : j = n
        · subst e; simpa using hb
        · exact h4 j (by omega) hj2

theorem ipowNat_one (r : Int) : ipowNat r 1 = r := by
  have hP : P ≠ 0 := by have := P_pos; omega
  rw [ipowNat]
  simp only [Nat.one_ne_zero, if_false, Nat.one_mod, Nat.sub_self]
  rw [ipowNat]
  simp only [if_true, ONE, scale_eq_ediv]
  rw [Int.mul_comm, Int.mul_ediv_cancel _ hP]

theorem divRoundCeil_unit (x : Int) (h0 : 0 < x) (h1 : x ≤ P) : divRoundCeil x P = 1 := by
  have hP := P_pos
  obtain ⟨d1, d2, _⟩ := tdm x P hP
  have d2 := d2 (by omega)
  obtain ⟨s1, _⟩ := tdm_sign x P hP
  have hq0 : 0 ≤ x.tdiv P := Int.tdiv_nonneg (by omega) (by omega)
  simp only [divRoundCeil, isNeg, decide_eq_true_eq]
  by_cases hx : x = P
  · subst hx
    have hq : P.tdiv P = 1 := Int.tdiv_self (by omega)
    have hr : P.tmod P = 0 := Int.tmod_self
    simp [hq]
  · have hlt : x < P := by omega
    have hq : x.tdiv P = 0 := Int.tdiv_eq_zero_of_lt (by omega) hlt
    have hr : x.tmod P = x := by rw [hq] at d1; omega
    simp [hq, hr]; omega

/-- on `(0, 1]` the scaling exponent is 1, so `exp` IS the Taylor stage -/
theorem refExpPos_unit (x : Int) (h0 : 0 < x) (h1 : x ≤ P) :
    ∃ m, refExpPos x = some (m, psum x m) ∧ m ≤ 1000 ∧
      (absLt (tterm x m) EPS = true ∨ m = 1000) ∧ ∀ j, j < m → absLt (tterm x j) EPS = false := by
  obtain ⟨m, h, _, h2, h3, h4⟩ := taylor_spec' x EPS 1000 0
  refine ⟨m, ?_, by omega, by simpa using h3, fun j hj => h4 j (Nat.zero_le _) hj⟩
  have ht : mpExpTaylor 1000 x EPS = some (m, psum x m) := by
    simpa [mpExpTaylor, psum, lastOf, ONE] using h
  simp only [refExpPos, divRoundCeil_unit x h0 h1, Int.tdiv_one, ht]
  have : ¬ (1 : Int) > 9223372036854775807 := by decide
  simp only [this, if_false, ipow]
  have : ¬ (1 : Int) < 0 := by decide
  simp [this, ipowNat_one]

/-- the 26th term is below `EPS` for every argument in `[0, 1]` -/
theorem tterm25_small (x : Int) (h0 : 0 ≤ x) (h1 : x ≤ P) : absLt (tterm x 25) EPS = true := by
  have hP := P_real_pos
  have hle := tterm_le x h0 25
  have hr0 : (0 : ℝ) ≤ toReal x := toReal_nonneg x h0
  have hr1 : toReal x ≤ 1 := by
    simp only [toReal]; rw [div_le_one hP]; exact_mod_cast h1
  have hpow : toReal x ^ (25 + 1) ≤ 1 := pow_le_one₀ hr0 hr1
  have hf : (0 : ℝ) < ((25 + 1).factorial : ℝ) := by positivity
  have h2 : toReal (tterm x 25) ≤ 1 / ((25 + 1).factorial : ℝ) :=
    le_trans hle (div_le_div_of_nonneg_right hpow hf.le)
  have h3 : ((tterm x 25 : Int) : ℝ) < ((EPS : Int) : ℝ) := by
    have : ((tterm x 25 : Int) : ℝ) ≤ (P : ℝ) / ((25 + 1).factorial : ℝ) := by
      have := mul_le_mul_of_nonneg_right h2 hP.le
      simp only [toReal] at this
      rw [div_mul_cancel₀ _ hP.ne'] at this
      rw [one_div, inv_mul_eq_div] at this
      exact this
    refine lt_of_le_of_lt this ?_
    rw [div_lt_iff₀ hf]
    simp only [P, EPS, Nat.factorial]
    norm_num
  have h4 : tterm x 25 < EPS := by exact_mod_cast h3
  have h5 := tterm_nonneg x h0 25
  simp only [absLt, decide_eq_true_eq]
  have : (0 : Int) < EPS := by decide
  omega

/-- **two-sided bound on `(0, 1]`**: the computed `exp x` is below the true value by at most
    `2.1·10^-24` (and never above it) -/
theorem exp_unit_two_sided (x r : Int) (h0 : 0 < x) (h1 : x ≤ P) (h : expD x = some r) :
    toReal r ≤ Real.exp (toReal x) ∧ Real.exp (toReal x) ≤ toReal r + 21 / 10 ^ 25 := by
  obtain ⟨m, hm, hm1000, hexit, hmin⟩ := refExpPos_unit x h0 h1
  have hne : x ≠ 0 := by omega
  have hnn : ¬ x < 0 := by omega
  have hr : r = psum x m := by
    simp only [expD, refExp, hne, hnn, if_false, hm, Option.map_some, Option.some.injEq] at h
    exact h.symm
  subst hr
  have hx0 : 0 ≤ x := by omega
  refine ⟨psum_le_exp x hx0 m, ?_⟩
  -- the loop stops at the first small term, which is at index ≤ 25
  have hm25 : m ≤ 25 := by
    by_contra hgt
    have := hmin 25 (by omega)
    rw [tterm25_small x hx0 h1] at this
    exact absurd this (by simp)
  have hsmall : absLt (tterm x m) EPS = true := by
    rcases hexit with h | h
    · exact h
    · omega
  have hP := P_real_pos
  have hr0 : (0 : ℝ) ≤ toReal x := toReal_nonneg x hx0
  have hr1 : toReal x ≤ 1 := by
    simp only [toReal]; rw [div_le_one hP]; exact_mod_cast h1
  have hE := Real.exp_bound' hr0 hr1 (n := m + 1) (Nat.succ_pos m)
  have hS := psum_ge x hx0 h1 m
  have hT := tterm_ge x hx0 h1 m
  set τ := toReal x ^ (m + 1) / ((m + 1).factorial : ℝ) with hτ
  have hτ0 : 0 ≤ τ := by positivity
  have hrem : toReal x ^ (m + 1) * (((m + 1 : ℕ) : ℝ) + 1) / (((m + 1).factorial : ℝ) * ((m + 1 : ℕ) : ℝ)) ≤ 2 * τ := by
    have hk1 : (0 : ℝ) < ((m + 1 : ℕ) : ℝ) := by positivity
    have e : toReal x ^ (m + 1) * (((m + 1 : ℕ) : ℝ) + 1) / (((m + 1).factorial : ℝ) * ((m + 1 : ℕ) : ℝ))
        = τ * ((((m + 1 : ℕ) : ℝ) + 1) / ((m + 1 : ℕ) : ℝ)) := by
      rw [hτ]; field_simp
    rw [e]
    have : (((m + 1 : ℕ) : ℝ) + 1) / ((m + 1 : ℕ) : ℝ) ≤ 2 := by
      rw [div_le_iff₀ hk1]; push_cast
      have : (0 : ℝ) ≤ (m : ℝ) := Nat.cast_nonneg m
      linarith
    nlinarith
  -- T_m < EPS / P
  have hTs : toReal (tterm x m) < (EPS : ℝ) / (P : ℝ) := by
    have h5 := tterm_nonneg x hx0 m
    have : tterm x m < EPS := by
      simp only [absLt, decide_eq_true_eq] at hsmall
      have : (0 : Int) < EPS := by decide
      omega
    simp only [toReal]
    exact div_lt_div_of_pos_right (by exact_mod_cast this) hP
  have hmr : (m : ℝ) ≤ 25 := by exact_mod_cast hm25
  -- collect: exp ≤ S + 2τ ≤ (psum + 3m/P) + 2 (T + 3/P)
  have hfin : Real.exp (toReal x) ≤ toReal (psum x m) + (3 * 25 + 6 + 2 * (EPS : ℝ)) / (P : ℝ) := by
    have e1 : (3 * 25 + 6 + 2 * (EPS : ℝ)) / (P : ℝ) = 3 * 25 / (P : ℝ) + 2 * (3 / (P : ℝ)) + 2 * ((EPS : ℝ) / (P : ℝ)) := by ring
    have e2 : 3 * (m : ℝ) / (P : ℝ) ≤ 3 * 25 / (P : ℝ) := by
      apply div_le_div_of_nonneg_right _ hP.le; linarith
    push_cast at hE hrem
    rw [e1]; linarith
  refine le_trans hfin ?_
  have : (3 * 25 + 6 + 2 * ((EPS : Int) : ℝ)) / ((P : Int) : ℝ) ≤ 21 / 10 ^ 25 := by
    simp only [P, EPS]; norm_num
  linarith



/-- **two-sided bound on `[-1, 0)`**: `exp x = 1 / exp(-x)` with one truncating division -/
theorem exp_unit_neg_two_sided (x r : Int) (h0 : x < 0) (h1 : -P ≤ x) (h : expD x = some r) :
    |toReal r - Real.exp (toReal x)| ≤ 43 / 10 ^ 25 := by
  obtain ⟨m, hm, _, _, _⟩ := refExpPos_unit (-x) (by omega) (by omega)
  have hne : x ≠ 0 := by omega
  have hge := psum_ge_one (-x) (by omega) m
  have hPpos := P_pos
  have htne : psum (-x) m ≠ 0 := by simp only [ONE] at hge; omega
  have hr : r = (ONE * P).tdiv (psum (-x) m) := by
    simp only [expD, refExp, hne, h0, if_false, if_true, hm, div_eq_tdiv _ _ htne, Option.map_some,
      Option.some.injEq] at h
    exact h.symm
  -- bounds on temp = psum (-x) m from the positive case
  have hexp : expD (-x) = some (psum (-x) m) := by
    have hn0 : -x ≠ 0 := by omega
    have hnn : ¬ -x < 0 := by omega
    simp only [expD, refExp, hn0, hnn, if_false, hm, Option.map_some]
  obtain ⟨b1, b2⟩ := exp_unit_two_sided (-x) _ (by omega) (by omega) hexp
  have hP := P_real_pos
  have hneg : toReal (-x) = - toReal x := by simp only [toReal]; push_cast; ring
  rw [hneg] at b1 b2
  set t := toReal (psum (-x) m) with ht
  set E := Real.exp (-toReal x) with hE
  have hEx : Real.exp (toReal x) = 1 / E := by rw [hE, Real.exp_neg]; simp
  have ht1 : (1 : ℝ) ≤ t := by
    have := toReal_mono hge; rwa [toReal_ONE] at this
  have hE1 : (1 : ℝ) ≤ E := le_trans ht1 b1
  -- the truncating division
  have htpos : (0 : Int) < psum (-x) m := by simp only [ONE] at hge; omega
  have hnum0 : (0 : Int) ≤ ONE * P := by simp only [ONE]; exact Int.mul_nonneg (by omega) (by omega)
  have u1 := tdiv_le_real (ONE * P) (psum (-x) m) hnum0 htpos
  have u2 := tdiv_gt_real (ONE * P) (psum (-x) m) hnum0 htpos
  -- ((ONE*P)/temp)/P = 1/t
  have hq : ((ONE * P : Int) : ℝ) / ((psum (-x) m : Int) : ℝ) / (P : ℝ) = 1 / t := by
    simp only [ht, toReal, ONE]; push_cast; field_simp
  have hrr : toReal r ≤ 1 / t ∧ 1 / t - 1 / (P : ℝ) < toReal r := by
    rw [hr]; simp only [toReal]
    constructor
    · rw [← hq]; exact div_le_div_of_nonneg_right u1 hP.le
    · have := div_lt_div_of_pos_right u2 hP
      rw [sub_div, hq] at this; exact this
  -- 1/E ≤ 1/t ≤ 1/E + 2δ
  have htpos' : (0 : ℝ) < t := by linarith
  have hEpos : (0 : ℝ) < E := by linarith
  have hlow : 1 / E ≤ 1 / t := one_div_le_one_div_of_le htpos' b1
  have hup : 1 / t ≤ 1 / E + 42 / 10 ^ 25 := by
    rw [div_le_iff₀ htpos']
    have : (1 / E + 42 / 10 ^ 25) * t ≥ (1 / E + 42 / 10 ^ 25) * (E - 21 / 10 ^ 25) := by
      apply mul_le_mul_of_nonneg_left (by linarith); positivity
    have e : (1 / E + 42 / 10 ^ 25) * (E - 21 / 10 ^ 25) = 1 + (42 / 10 ^ 25) * E - (21 / 10 ^ 25) / E - (42 / 10 ^ 25) * (21 / 10 ^ 25) := by
      field_simp; ring
    have h3 : (21 / 10 ^ 25 : ℝ) / E ≤ 21 / 10 ^ 25 := by
      rw [div_le_iff₀ hEpos]; nlinarith
    nlinarith
  have hPinv : 1 / (P : ℝ) ≤ 1 / 10 ^ 25 := by
    simp only [P]; norm_num
  rw [hEx, abs_le]
  constructor <;> linarith [hrr.1, hrr.2]


end PallasVerif.Proofs.RefMath
