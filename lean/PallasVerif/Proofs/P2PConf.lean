import PallasVerif.Model.P2PNet
import PallasVerif.Proofs.P2PInv
/-! C28, local half: whatever the initiator emits in a step is permitted by the specification in
    the initiator's *own* tracked view (the per-peer protocol states before the step). -/
namespace PallasVerif.P2P

def viewHs : HsSt → SHs
  | .propose => .propose | .confirm _ => .confirm | _ => .done
def viewKa : KaSt → SKa
  | .client _ => .client | .server _ => .server | .done => .done
/-- `Done` is only ever a *local* mark of the initiator (`try_take_peers` parks the protocol there
    after consuming a response; the initiator never sends `Done`): on the wire that is still `Idle` -/
def viewPs : PsSt → SPs
  | .idle _ => .idle | .busy _ => .busy | .done => .idle
def viewBf : BfSt → SBf
  | .idle => .idle | .busy _ => .busy | .streaming _ => .streaming | .done => .done
def viewCs : CsSt → SCs
  | .idle _ => .idle | .canAwait => .canAwait | .mustReply => .mustReply | .intersect => .intersect | .done => .done
def viewTx : TxSt → STx
  | .init => .init | .idle => .idle | .txIdsNonBlocking => .txIdsNonBlocking | .txIdsBlocking => .txIdsBlocking
  | .txs _ => .txs | .done => .done
def viewLn : LnSt → SLn
  | .idle _ => .idle | .busy => .busy | .done => .done
def viewLf : LfSt → SLf
  | .idle _ => .idle | .awaitingBlock _ => .awaitingBlock | .awaitingBlockTxs _ => .awaitingBlockTxs | .done => .done

/-- the specification view of the initiator's per-peer record -/
def viewOf (st : Peer) : Wire :=
  { hs := viewHs st.hs, ka := viewKa st.ka, ps := viewPs st.ps, bf := viewBf st.bf, cs := viewCs st.cs,
    tx := viewTx st.tx, ln := viewLn st.ln, lf := viewLf st.lf }

/-- the requests the initiator's emitters can produce -/
def Emittable : Msg → Prop
  | .hs (.propose _) | .ka (.keepAlive _) | .ps (.shareRequest _) | .bf (.requestRange _)
  | .cs .findIntersect | .cs .requestNext | .ln .requestNext | .lf (.blockRequest _)
  | .lf (.blockTxsRequest _) => True
  | _ => False

/-- `m` is one of the initiator's requests, the specification permits it in the tracked view, and the
    peer-sharing machine is not in its local parking state -/
def Permits (st : Peer) (m : Msg) : Prop :=
  Emittable m ∧ (clientStep (viewOf st) m).isSome = true ∧ (m.proto = .ps → st.ps ≠ .done) ∧
    (m.proto = .ps → st.ps = .idle none)

/-- same protocol states -/
structure ProtoEq (a b : Peer) : Prop where
  hs : b.hs = a.hs
  ka : b.ka = a.ka
  ps : b.ps = a.ps
  bf : b.bf = a.bf
  cs : b.cs = a.cs
  tx : b.tx = a.tx
  ln : b.ln = a.ln
  lf : b.lf = a.lf

theorem ProtoEq.refl (a : Peer) : ProtoEq a a := ⟨rfl, rfl, rfl, rfl, rfl, rfl, rfl, rfl⟩

theorem ProtoEq.trans {a b c : Peer} (h1 : ProtoEq a b) (h2 : ProtoEq b c) : ProtoEq a c :=
  ⟨h2.hs.trans h1.hs, h2.ka.trans h1.ka, h2.ps.trans h1.ps, h2.bf.trans h1.bf, h2.cs.trans h1.cs,
   h2.tx.trans h1.tx, h2.ln.trans h1.ln, h2.lf.trans h1.lf⟩

theorem ProtoEq.view {a b : Peer} (h : ProtoEq a b) : viewOf b = viewOf a := by
  unfold viewOf; rw [h.hs, h.ka, h.ps, h.bf, h.cs, h.tx, h.ln, h.lf]

theorem ProtoEq.permits {a b : Peer} (h : ProtoEq a b) {m : Msg} (hp : Permits b m) : Permits a m := by
  unfold Permits at *; rw [← h.view, ← h.ps]; exact hp

/-! ### each emitter only emits what its own state permits -/

theorem keepaliveHk_send {t p q : Nat} {st : Peer} {m : Msg} (h : Out.send q m ∈ keepaliveHk t p st) :
    q = p ∧ Permits st m := by
  unfold keepaliveHk at h
  split at h
  · split at h
    · rename_i r hk
      simp only [List.mem_singleton, Out.send.injEq] at h
      obtain ⟨rfl, rfl⟩ := h
      exact ⟨rfl, by simp [Permits, Emittable, Msg.proto, viewOf, clientStep, cKa, viewKa, hk]⟩
    · simp at h
  · simp at h

theorem discoveryHk_send {s : St} {p q : Nat} {st : Peer} {m : Msg} {o : List Out}
    (ho : discoveryHk s p st = some o) (h : Out.send q m ∈ o) : q = p ∧ Permits st m := by
  unfold discoveryHk at ho
  split at ho
  · split at ho
    · rename_i hav
      split at ho
      · cases ho
      · simp only [Option.some.injEq] at ho; subst ho
        simp only [List.mem_singleton, Out.send.injEq] at h
        obtain ⟨rfl, rfl⟩ := h
        refine ⟨rfl, ?_⟩
        unfold discoveryAvailable at hav
        simp only [Bool.and_eq_true, beq_iff_eq] at hav
        simp [Permits, Emittable, Msg.proto, viewOf, clientStep, cPs, viewPs, hav.2]
    · simp only [Option.some.injEq] at ho; subst ho; simp at h
  · simp only [Option.some.injEq] at ho; subst ho; simp at h

theorem blockfetchHk_send {s : St} {p q : Nat} {st : Peer} {m : Msg} (h : Out.send q m ∈ (blockfetchHk s p st).2) :
    q = p ∧ Permits st m := by
  unfold blockfetchHk at h
  split at h
  · simp at h
  · split at h
    · rename_i hc
      simp only [List.mem_singleton, Out.send.injEq] at h
      obtain ⟨rfl, rfl⟩ := h
      exact ⟨rfl, by simp [Permits, Emittable, Msg.proto, viewOf, clientStep, cBf, viewBf, hc.2]⟩
    · simp at h

theorem chainsyncHk_send {s : St} {p q : Nat} {st : Peer} {m : Msg} (h : Out.send q m ∈ chainsyncHk s p st) :
    q = p ∧ Permits st m := by
  unfold chainsyncHk at h
  split at h
  · rename_i hc
    simp only [List.mem_singleton, Out.send.injEq] at h
    obtain ⟨rfl, rfl⟩ := h
    refine ⟨rfl, ?_⟩
    have hn := hc.2.2.2
    cases hcs : st.cs with
    | idle d => simp [Permits, Emittable, Msg.proto, viewOf, clientStep, cCs, viewCs, hcs]
    | _ => simp [CsSt.isNew, hcs] at hn
  · simp at h

theorem chainsyncTagged_send {p q : Nat} {st : Peer} {m : Msg} (h : Out.send q m ∈ chainsyncTagged p st) :
    q = p ∧ Permits st m := by
  unfold chainsyncTagged at h
  split at h
  · rename_i hc
    simp only [List.mem_singleton, Out.send.injEq] at h
    obtain ⟨rfl, rfl⟩ := h
    refine ⟨rfl, ?_⟩
    have hi := hc.2.1
    cases hcs : st.cs with
    | idle d => simp [Permits, Emittable, Msg.proto, viewOf, clientStep, cCs, viewCs, hcs]
    | _ => simp [CsSt.isIdle, hcs] at hi
  · simp at h

theorem leiosnotifyHk_send {p q : Nat} {st : Peer} {m : Msg} (h : Out.send q m ∈ leiosnotifyHk p st) :
    q = p ∧ Permits st m := by
  unfold leiosnotifyHk at h
  split at h
  · rename_i hc
    simp only [List.mem_singleton, Out.send.injEq] at h
    obtain ⟨rfl, rfl⟩ := h
    exact ⟨rfl, by simp [Permits, Emittable, Msg.proto, viewOf, clientStep, cLn, viewLn, hc.2]⟩
  · simp at h

theorem leiosfetchHk_send {s : St} {p q : Nat} {st : Peer} {m : Msg} (h : Out.send q m ∈ (leiosfetchHk s p st).2) :
    q = p ∧ Permits st m := by
  unfold leiosfetchHk at h
  split at h
  · rename_i hc
    split at h
    · rename_i r rest _
      simp only [List.mem_singleton, Out.send.injEq] at h
      obtain ⟨rfl, rfl⟩ := h
      refine ⟨rfl, ?_⟩
      cases r <;> simp [Permits, Emittable, Msg.proto, viewOf, clientStep, cLf, viewLf, lfReqMsg, hc.2]
    · simp at h
  · simp at h

theorem proposeHandshake_send {p q : Nat} {st : Peer} {m : Msg} (h : Out.send q m ∈ proposeHandshake p st) :
    q = p ∧ Permits st m := by
  unfold proposeHandshake at h
  split at h
  · rename_i hc
    simp only [List.mem_singleton, Out.send.injEq] at h
    obtain ⟨rfl, rfl⟩ := h
    exact ⟨rfl, by simp [Permits, Emittable, Msg.proto, viewOf, clientStep, cHs, viewHs, hc]⟩
  · simp at h

theorem connectionHk_nosend (p q : Nat) (st : Peer) (m : Msg) : Out.send q m ∉ (connectionHk p st).2 := by
  unfold connectionHk
  cases hn : needsConnection st
  · simp only [Bool.false_eq_true, if_false]; split <;> simp
  · simp only [if_true]; split <;> simp

theorem connectionHk_proto (p : Nat) (st : Peer) : ProtoEq st (connectionHk p st).1 := by
  unfold connectionHk
  cases hn : needsConnection st
  · simp only [Bool.false_eq_true, if_false]; split <;> exact ProtoEq.refl st
  · simp only [if_true]; split <;> exact ⟨rfl, rfl, rfl, rfl, rfl, rfl, rfl, rfl⟩

theorem categorize_proto {s s1 : St} {p : Nat} {st st1 : Peer} (h : categorize s p st = some (s1, st1)) :
    ProtoEq st st1 ∧ s1.out = s.out ∧ s1.peers = s.peers := by
  unfold categorize at h
  split at h
  · simp only [banPeer, Option.some.injEq, Prod.mk.injEq] at h; obtain ⟨rfl, rfl⟩ := h
    exact ⟨⟨rfl, rfl, rfl, rfl, rfl, rfl, rfl, rfl⟩, rfl, rfl⟩
  · split at h
    · simp only [banPeer, Option.some.injEq, Prod.mk.injEq] at h; obtain ⟨rfl, rfl⟩ := h
      exact ⟨⟨rfl, rfl, rfl, rfl, rfl, rfl, rfl, rfl⟩, rfl, rfl⟩
    · split at h
      · cases h
      · split at h
        · unfold promoteCold at h
          split at h <;> (simp only [Option.some.injEq, Prod.mk.injEq] at h; obtain ⟨rfl, rfl⟩ := h
                          exact ⟨⟨rfl, rfl, rfl, rfl, rfl, rfl, rfl, rfl⟩, rfl, rfl⟩)
        · split at h
          · cases h
          · split at h
            · unfold promoteWarm at h
              split at h <;> (simp only [Option.some.injEq, Prod.mk.injEq] at h; obtain ⟨rfl, rfl⟩ := h
                              exact ⟨⟨rfl, rfl, rfl, rfl, rfl, rfl, rfl, rfl⟩, rfl, rfl⟩)
            · simp only [Option.some.injEq, Prod.mk.injEq] at h; obtain ⟨rfl, rfl⟩ := h
              exact ⟨ProtoEq.refl _, rfl, rfl⟩

/-! ### the step-level statement -/

/-- relative to the state `s0` in which the event arrived: every queued `Send` is permitted by the
    sender's record in `s0`, and no tracked record changed its protocol states so far -/
structure Emit (s0 s : St) : Prop where
  out : ∀ p m, Out.send p m ∈ s.out → ∃ st0, s0.peers p = some st0 ∧ Permits st0 m
  keep : ∀ p st, s.peers p = some st → ∃ st0, s0.peers p = some st0 ∧ ProtoEq st0 st

theorem Emit.start (s : St) : Emit s { s with out := [] } :=
  ⟨fun _ _ h => by simp at h, fun p st h => ⟨st, h, ProtoEq.refl st⟩⟩

theorem hkPeer_emit {s0 s f : St} {p : Nat} (h : hkPeer s p = some f) (e : Emit s0 s) : Emit s0 f := by
  unfold hkPeer at h
  cases hp : s.peers p with
  | none => simp only [hp, Option.some.injEq] at h; subst h; exact e
  | some st =>
    simp only [hp] at h
    cases hc : categorize s p st with
    | none => simp only [hc] at h; cases h
    | some r =>
      obtain ⟨s1, st1⟩ := r
      simp only [hc] at h
      obtain ⟨hpe, hout, hpeers⟩ := categorize_proto hc
      cases hd : discoveryHk s1 p (connectionHk p st1).1 with
      | none => simp only [hd] at h; cases h
      | some o3 =>
        simp only [hd, Option.some.injEq] at h
        subst h
        obtain ⟨st0, hs0, hpe0⟩ := e.keep p st hp
        have hpe2 : ProtoEq st0 (connectionHk p st1).1 := hpe0.trans (hpe.trans (connectionHk_proto p st1))
        refine ⟨?_, ?_⟩
        · intro q m hq
          simp only [leiosfetchHk_out, blockfetchHk_out, hout, List.mem_append] at hq
          rcases hq with ((((((hh | hh) | hh) | hh) | hh) | hh) | hh) | hh
          · exact e.out q m hh
          · exact absurd hh (connectionHk_nosend _ _ _ _)
          · obtain ⟨rfl, hpm⟩ := keepaliveHk_send hh; exact ⟨st0, hs0, hpe2.permits hpm⟩
          · obtain ⟨rfl, hpm⟩ := discoveryHk_send hd hh; exact ⟨st0, hs0, hpe2.permits hpm⟩
          · obtain ⟨rfl, hpm⟩ := blockfetchHk_send hh; exact ⟨st0, hs0, hpe2.permits hpm⟩
          · obtain ⟨rfl, hpm⟩ := chainsyncHk_send hh; exact ⟨st0, hs0, hpe2.permits hpm⟩
          · obtain ⟨rfl, hpm⟩ := leiosnotifyHk_send hh; exact ⟨st0, hs0, hpe2.permits hpm⟩
          · obtain ⟨rfl, hpm⟩ := leiosfetchHk_send hh; exact ⟨st0, hs0, hpe2.permits hpm⟩
        · intro q stq hq
          simp only [leiosfetchHk_peers, blockfetchHk_peers, hpeers] at hq
          unfold setPeer at hq
          by_cases eq : q = p
          · subst eq
            simp only [if_true, Option.some.injEq] at hq; subst hq
            exact ⟨st0, hs0, hpe2⟩
          · simp only [eq, if_false] at hq; exact e.keep q stq hq


theorem hkAll_emit {s0 : St} (ord : List Nat) {s f : St} (h : hkAll s ord = some f) (e : Emit s0 s) : Emit s0 f := by
  induction ord generalizing s with
  | nil => simp only [hkAll, Option.some.injEq] at h; subst h; exact e
  | cons p ps ih =>
    unfold hkAll at h
    cases h1 : hkPeer s p with
    | none => simp only [h1] at h; cases h
    | some s1 => simp only [h1] at h; exact ih h (hkPeer_emit h1 e)

theorem onDiscovered_out {s f : St} {p : Nat} (h : onDiscovered s p = some f) : f.out = s.out := by
  unfold onDiscovered at h
  cases hc : onPeerDiscovered s p {} with
  | none => simp only [hc] at h; cases h
  | some r =>
    obtain ⟨s1, st1⟩ := r
    simp only [hc, Option.some.injEq] at h
    subst h
    unfold onPeerDiscovered at hc
    split at hc
    · simp only [Option.some.injEq, Prod.mk.injEq] at hc; obtain ⟨rfl, _⟩ := hc; rfl
    · split at hc
      · simp only [Option.some.injEq, Prod.mk.injEq] at hc; obtain ⟨rfl, _⟩ := hc; rfl
      · split at hc
        · cases hc
        · split at hc <;> (simp only [Option.some.injEq, Prod.mk.injEq] at hc; obtain ⟨rfl, _⟩ := hc; rfl)

theorem discAll_out (sel : List Nat) {s f : St} (h : discAll s sel = some f) : f.out = s.out := by
  induction sel generalizing s with
  | nil => simp only [discAll, Option.some.injEq] at h; subst h; rfl
  | cons q qs ih =>
    unfold discAll at h
    split at h
    · exact ih h
    · cases h1 : onDiscovered s q with
      | none => simp only [h1] at h; cases h
      | some s1 => simp only [h1] at h; rw [ih h, onDiscovered_out h1]

theorem moveDiscovered_out {s f : St} {taken : List Nat} (h : moveDiscovered s taken = some f) : f.out = s.out := by
  unfold moveDiscovered at h
  split at h
  · cases h
  · split at h
    · simp only [Option.some.injEq] at h; subst h; rfl
    · exact (discAll_out _ h).trans rfl

/-! inbound visitors emit events only -/

theorem handshakeInbound_nosend (p q : Nat) (st : Peer) (m : Msg) : Out.send q m ∉ (handshakeInbound p st).2 := by
  unfold handshakeInbound; split
  · split <;> simp
  · simp

theorem blockfetchInbound_nosend (p q : Nat) (st : Peer) (m : Msg) : Out.send q m ∉ blockfetchInbound p st := by
  unfold blockfetchInbound; split <;> simp

theorem chainsyncInbound_nosend (p q : Nat) (st : Peer) (m : Msg) : Out.send q m ∉ (chainsyncInbound p st).2 := by
  unfold chainsyncInbound; split
  · simp
  · split
    · simp
    · split <;> simp

theorem leiosnotifyInbound_nosend (p q : Nat) (st : Peer) (m : Msg) : Out.send q m ∉ (leiosnotifyInbound p st).2 := by
  unfold leiosnotifyInbound; split <;> simp

theorem leiosfetchInbound_nosend (p q : Nat) (st : Peer) (m : Msg) : Out.send q m ∉ (leiosfetchInbound p st).2 := by
  unfold leiosfetchInbound; split <;> simp

theorem connectionErrored_nosend (p q : Nat) (st : Peer) (m : Msg) : Out.send q m ∉ connectionErrored p st := by
  unfold connectionErrored; split <;> simp

/-- sends already queued stay the only sends -/
def NoNewSend (s f : St) : Prop := ∀ q m, Out.send q m ∈ f.out → Out.send q m ∈ s.out

theorem inboundMsg_nosend {s f : St} {p : Nat} {m : Msg} (h : inboundMsg s p m = some f) : NoNewSend s f := by
  unfold inboundMsg at h
  cases hp : s.peers p with
  | none => simp only [hp, Option.some.injEq] at h; subst h; exact fun _ _ hq => hq
  | some st =>
    simp only [hp] at h
    cases hc : categorize s p (st.applyMsg m) with
    | none => simp only [hc] at h; cases h
    | some r =>
      obtain ⟨s1, st1⟩ := r
      simp only [hc, Option.some.injEq] at h
      subst h
      obtain ⟨_, hout, _⟩ := categorize_proto hc
      intro q m' hq
      simp only [discoveryInbound_out, hout, List.mem_append] at hq
      rcases hq with ((((hh | hh) | hh) | hh) | hh) | hh
      · exact hh
      · exact absurd hh (handshakeInbound_nosend _ _ _ _)
      · exact absurd hh (blockfetchInbound_nosend _ _ _ _)
      · exact absurd hh (chainsyncInbound_nosend _ _ _ _)
      · exact absurd hh (leiosnotifyInbound_nosend _ _ _ _)
      · exact absurd hh (leiosfetchInbound_nosend _ _ _ _)

theorem inboundAll_nosend (ms : List Msg) {s f : St} {p : Nat} (h : inboundAll s p ms = some f) : NoNewSend s f := by
  induction ms generalizing s with
  | nil => simp only [inboundAll, Option.some.injEq] at h; subst h; exact fun _ _ hq => hq
  | cons m ms ih =>
    unfold inboundAll at h
    cases h1 : inboundMsg s p m with
    | none => simp only [h1] at h; cases h
    | some s1 =>
      simp only [h1] at h
      exact fun q m' hq => inboundMsg_nosend h1 q m' (ih h q m' hq)

theorem onTagged_emit (s : St) (p : Nat) (f : Peer → Peer) (hf : ∀ st, ProtoEq st (f st)) (hs : s.out = []) :
    ∀ q m, Out.send q m ∈ (onTagged s p f).out → ∃ st, s.peers q = some st ∧ Permits st m := by
  intro q m hq
  unfold onTagged at hq
  cases hp : s.peers p with
  | none => simp only [hp, hs] at hq; cases hq
  | some st =>
    simp only [hp] at hq
    have key : ∀ st', ProtoEq st st' → Out.send q m ∈ chainsyncTagged p st' → ∃ st, s.peers q = some st ∧ Permits st m := by
      intro st' hpe hh
      obtain ⟨rfl, hpm⟩ := chainsyncTagged_send hh
      exact ⟨st, hp, hpe.permits hpm⟩
    split at hq
    · simp only [banPeer, hs, List.nil_append] at hq
      exact key _ ((hf st).trans ⟨rfl, rfl, rfl, rfl, rfl, rfl, rfl, rfl⟩) hq
    · simp only [hs, List.nil_append] at hq
      exact key _ (hf st) hq

/-- **own view permits**: every `Send` queued by one event is permitted by the specification in
    the view the initiator had of that peer when the event arrived -/
theorem step_emit_permitted {s s' : St} {e : Ev} (h : step s e = some s') :
    ∀ p m, Out.send p m ∈ s'.out → ∃ st, s.peers p = some st ∧ Permits st m := by
  have e0 := Emit.start s
  have nil : ∀ p m, Out.send p m ∉ ({ s with out := [] } : St).out := fun _ _ hh => by simp at hh
  unfold step at h
  cases e with
  | includePeer p =>
    dsimp only at h
    split at h
    · simp only [Option.some.injEq] at h; subst h; exact fun q m hq => absurd hq (nil q m)
    · intro q m hq; rw [onDiscovered_out h] at hq; exact absurd hq (nil q m)
  | housekeeping ord taken =>
    dsimp only at h
    unfold housekeeping at h
    cases h1 : hkAll { s with out := [] } ord with
    | none => simp only [h1] at h; cases h
    | some s1 =>
      simp only [h1] at h
      intro q m hq
      rw [moveDiscovered_out h] at hq
      exact (hkAll_emit ord h1 e0).out q m hq
  | idle ord taken =>
    dsimp only at h
    unfold housekeeping at h
    cases h1 : hkAll { s with out := [] } ord with
    | none => simp only [h1] at h; cases h
    | some s1 =>
      simp only [h1] at h
      intro q m hq
      rw [moveDiscovered_out h] at hq
      exact (hkAll_emit ord h1 e0).out q m hq
  | startSync => simp only [Option.some.injEq] at h; subst h; exact fun q m hq => absurd hq (nil q m)
  | continueSync p =>
    simp only [Option.some.injEq] at h; subst h
    exact onTagged_emit _ p _ (fun _ => ⟨rfl, rfl, rfl, rfl, rfl, rfl, rfl, rfl⟩) rfl
  | requestBlocks r => simp only [Option.some.injEq] at h; subst h; exact fun q m hq => absurd hq (nil q m)
  | sendTx => simp only [Option.some.injEq] at h; subst h; exact fun q m hq => absurd hq (nil q m)
  | fetchEb p eb => simp only [Option.some.injEq] at h; subst h; exact fun q m hq => absurd hq (nil q m)
  | fetchEbTxs p eb => simp only [Option.some.injEq] at h; subst h; exact fun q m hq => absurd hq (nil q m)
  | banPeer p =>
    simp only [Option.some.injEq] at h; subst h
    split
    · exact onTagged_emit _ p _ (fun _ => ⟨rfl, rfl, rfl, rfl, rfl, rfl, rfl, rfl⟩) rfl
    · exact onTagged_emit (banPeer { s with out := [] } p {}).1 p _ (fun _ => ⟨rfl, rfl, rfl, rfl, rfl, rfl, rfl, rfl⟩) rfl
  | demotePeer p =>
    simp only [Option.some.injEq] at h; subst h
    exact onTagged_emit _ p _ (fun _ => ⟨rfl, rfl, rfl, rfl, rfl, rfl, rfl, rfl⟩) rfl
  | connected p =>
    simp only [Option.some.injEq] at h; subst h
    intro q m hq
    unfold onConnected at hq
    split at hq
    · exact absurd hq (nil q m)
    · rename_i st hp
      simp only [List.nil_append] at hq
      obtain ⟨rfl, hpm⟩ := proposeHandshake_send hq
      exact ⟨st, hp, (⟨rfl, rfl, rfl, rfl, rfl, rfl, rfl, rfl⟩ : ProtoEq st { st with conn := .connected }).permits hpm⟩
  | disconnected p =>
    simp only [Option.some.injEq] at h; subst h
    intro q m hq
    unfold onDisconnected at hq
    split at hq <;> exact absurd hq (nil q m)
  | recv p ms => exact fun q m hq => absurd (inboundAll_nosend ms h q m hq) (nil q m)
  | sent p m =>
    simp only [Option.some.injEq] at h; subst h
    intro q m' hq
    unfold outboundMsg at hq
    split at hq <;> exact absurd hq (nil q m')
  | error p =>
    dsimp only at h
    unfold onErrored at h
    split at h
    · simp only [Option.some.injEq] at h; subst h; exact fun q m hq => absurd hq (nil q m)
    · split at h
      · simp only [Option.some.injEq] at h; subst h
        intro q m hq
        simp only [leiosfetchPurge, List.nil_append] at hq
        exact absurd hq (connectionErrored_nosend _ _ _ _)
      · cases h

end PallasVerif.P2P
