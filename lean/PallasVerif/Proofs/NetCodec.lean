import PallasVerif.Model.NetCodec
import PallasVerif.Proofs.Cbor
/-!
Lemmas about the codec primitives of `Model/NetCodec.lean`:

* the encoder tree: `E.ok e` ⇒ `e.encode` is the encoding of the well-formed concrete syntax tree
  `e.toItem`, hence exactly one data item for the strict parser (`E.single`);
* the decoder primitives run on what the encoder primitives write
  (`u64_uint`, `bytes_bytes`, `array_head`, … all of the shape `prim (enc v ++ r) = ok v r`);
* `decN` / `decBreak` over lists of encodings; key-sorted association lists.
-/
namespace PallasVerif.NetCodec
open PallasVerif.Cbor

/-! ## encoder tree -/

theorem minHead_ai_ne_31 (m n : Nat) : (minHead m n).ai ≠ 31 := by
  unfold minHead; repeat' split
  all_goals (simp only []; omega)

theorem minHead_ai_lt (m n : Nat) : (minHead m n).ai < 28 := by
  unfold minHead; repeat' split
  all_goals (simp only []; omega)

theorem leafItem_spec (bs : Bytes) (h : isSingleItem bs = true) :
    (leafItem bs).wf = true ∧ bs = (leafItem bs).encode := by
  unfold isSingleItem at h
  unfold leafItem
  split at h
  · rename_i i hp
    obtain ⟨e, w⟩ := parseItem_sound _ _ _ hp
    simp only [hp]
    exact ⟨w, by simpa using e⟩
  · simp at h

theorem mkBool_wf (b : Bool) : (mkBool b).wf = true := by cases b <;> decide
theorem mkBool_encode (b : Bool) : (mkBool b).encode = [boolByte b] := by cases b <;> decide

mutual
theorem E.toItem_spec : ∀ (e : E), e.ok = true → e.toItem.wf = true ∧ e.encode = e.toItem.encode
  | .uint n, h => by
    simp only [E.ok, decide_eq_true_eq] at h
    have := minHead_wf 0 n (by omega) h
    have := minHead_ai_ne_31 0 n
    simp [E.toItem, E.encode, mkUInt, Item.wf, Item.encode, minHead_major, *]
  | .bool b, _ => by simp [E.toItem, E.encode, mkBool_wf, mkBool_encode]
  | .null, _ => by simp [E.toItem, E.encode]; decide
  | .bytes bs, h => by
    simp only [E.ok, decide_eq_true_eq] at h
    have := minHead_wf 2 bs.length (by omega) h
    have := minHead_ai_ne_31 2 bs.length
    simp [E.toItem, E.encode, mkBytes, Item.wf, Item.encode, minHead_major, minHead_val _ _ h, *]
  | .text bs, h => by
    simp only [E.ok, decide_eq_true_eq] at h
    have := minHead_wf 3 bs.length (by omega) h
    have := minHead_ai_ne_31 3 bs.length
    simp [E.toItem, E.encode, mkText, Item.wf, Item.encode, minHead_major, minHead_val _ _ h, *]
  | .arr n xs, h => by
    simp only [E.ok, Bool.and_eq_true, decide_eq_true_eq] at h
    obtain ⟨⟨hn, hl⟩, hx⟩ := h
    obtain ⟨w, e, l⟩ := E.toItems_spec xs hx
    have := minHead_wf 4 n (by omega) hn
    have := minHead_ai_ne_31 4 n
    simp [E.toItem, E.encode, Item.wf, Item.encode, seqCount, minHead_major, minHead_val _ _ hn, *]
  | .arrI xs, h => by
    simp only [E.ok] at h
    obtain ⟨w, e, l⟩ := E.toItems_spec xs h
    simp [E.toItem, E.encode, Item.wf, Item.encode, initByte, *]
  | .map n kvs, h => by
    simp only [E.ok, Bool.and_eq_true, decide_eq_true_eq] at h
    obtain ⟨⟨hn, hl⟩, hx⟩ := h
    obtain ⟨w, e, l⟩ := E.toItems_spec kvs hx
    have := minHead_wf 5 n (by omega) hn
    have := minHead_ai_ne_31 5 n
    simp [E.toItem, E.encode, Item.wf, Item.encode, seqCount, minHead_major, minHead_val _ _ hn, *]
  | .mapI kvs, h => by
    simp only [E.ok, Bool.and_eq_true, decide_eq_true_eq] at h
    obtain ⟨hl, hx⟩ := h
    obtain ⟨w, e, l⟩ := E.toItems_spec kvs hx
    simp [E.toItem, E.encode, Item.wf, Item.encode, initByte, *]
  | .tag t x, h => by
    simp only [E.ok, Bool.and_eq_true, decide_eq_true_eq] at h
    obtain ⟨ht, hx⟩ := h
    obtain ⟨w, e⟩ := E.toItem_spec x hx
    have := minHead_wf 6 t (by omega) ht
    have := minHead_ai_ne_31 6 t
    simp [E.toItem, E.encode, mkTag, Item.wf, Item.encode, minHead_major, *]
  | .raw bs, h => by
    simp only [E.ok] at h
    obtain ⟨w, e⟩ := leafItem_spec bs h
    exact ⟨by simpa [E.toItem] using w, by simpa [E.toItem, E.encode] using e⟩
theorem E.toItems_spec : ∀ (xs : List E), E.okList xs = true →
    Cbor.wfList (E.toItems xs) = true ∧ E.encodeList xs = Cbor.encodeList (E.toItems xs) ∧ (E.toItems xs).length = xs.length
  | [], _ => by simp [E.toItems, E.encodeList, Cbor.wfList, Cbor.encodeList]
  | x :: xs, h => by
    simp only [E.okList, Bool.and_eq_true] at h
    obtain ⟨w, e⟩ := E.toItem_spec x h.1
    obtain ⟨ws, es, l⟩ := E.toItems_spec xs h.2
    simp [E.toItems, E.encodeList, Cbor.wfList, Cbor.encodeList, *]
end

/-- **WF**: what an encoder tree that passes `E.ok` writes is exactly one well-formed data item -/
theorem E.single (e : E) (h : e.ok = true) : isSingleItem e.encode = true := by
  obtain ⟨w, eq⟩ := E.toItem_spec e h
  rw [eq]; exact isSingleItem_encode _ w

mutual
theorem E.lensOk_of_ok : ∀ (e : E), e.ok = true → e.lensOk = true
  | .uint _, _ | .bool _, _ | .null, _ | .bytes _, _ | .text _, _ | .raw _, _ => by simp [E.lensOk]
  | .arr n xs, h => by
    simp only [E.ok, Bool.and_eq_true, decide_eq_true_eq] at h
    simp [E.lensOk, h.1.2, E.lensOkList_of_ok xs h.2]
  | .arrI xs, h => by simp only [E.ok] at h; simp [E.lensOk, E.lensOkList_of_ok xs h]
  | .map n kvs, h => by
    simp only [E.ok, Bool.and_eq_true, decide_eq_true_eq] at h
    simp [E.lensOk, h.1.2, E.lensOkList_of_ok kvs h.2]
  | .mapI kvs, h => by
    simp only [E.ok, Bool.and_eq_true, decide_eq_true_eq] at h
    simp [E.lensOk, h.1, E.lensOkList_of_ok kvs h.2]
  | .tag _ x, h => by
    simp only [E.ok, Bool.and_eq_true] at h
    simp [E.lensOk, E.lensOk_of_ok x h.2]
theorem E.lensOkList_of_ok : ∀ (xs : List E), E.okList xs = true → E.lensOkList xs = true
  | [], _ => by simp [E.lensOkList]
  | x :: xs, h => by
    simp only [E.okList, Bool.and_eq_true] at h
    simp [E.lensOkList, E.lensOk_of_ok x h.1, E.lensOkList_of_ok xs h.2]
end

/-- a declared length that differs from the number of items that follow is rejected by the
    strict parser (used for the witnesses of the two repaired encoders) -/
theorem E.okList_append (xs ys : List E) : E.okList (xs ++ ys) = (E.okList xs && E.okList ys) := by
  induction xs with
  | nil => simp [E.okList]
  | cons x xs ih => simp [E.okList, ih, Bool.and_assoc]

theorem E.okList_map {α : Type} (f : α → E) (l : List α) (h : ∀ a ∈ l, (f a).ok = true) : E.okList (l.map f) = true := by
  induction l with
  | nil => simp [E.okList]
  | cons a l ih =>
    simp only [List.map_cons, E.okList, Bool.and_eq_true]
    exact ⟨h a (by simp), ih fun b hb => h b (by simp [hb])⟩

theorem E.okList_flatMap {α : Type} (f : α → List E) (l : List α) (h : ∀ a ∈ l, E.okList (f a) = true) :
    E.okList (l.flatMap f) = true := by
  induction l with
  | nil => simp [E.okList]
  | cons a l ih =>
    simp only [List.flatMap_cons, E.okList_append, Bool.and_eq_true]
    exact ⟨h a (by simp), ih fun b hb => h b (by simp [hb])⟩

theorem E.encodeList_append (xs ys : List E) : E.encodeList (xs ++ ys) = E.encodeList xs ++ E.encodeList ys := by
  induction xs with
  | nil => simp [E.encodeList]
  | cons x xs ih => simp [E.encodeList, ih]

/-! ## decoder primitives on what the encoder primitives write -/

@[simp] theorem Res.bind_ok {α β : Type} (a : α) (r : Bytes) (f : α → Bytes → Res β) : (Res.ok a r).bind f = f a r := rfl
@[simp] theorem Res.map_ok {α β : Type} (a : α) (r : Bytes) (f : α → β) : (Res.ok a r).map f = .ok (f a) r := rfl

theorem major_initByte (m ai : Nat) (hm : m < 8) (hai : ai < 32) : major (initByte m ai) = m := by
  unfold major; rw [initByte_toNat m ai hm hai]; omega

theorem info_initByte (m ai : Nat) (hm : m < 8) (hai : ai < 32) : info (initByte m ai) = ai := by
  unfold info; rw [initByte_toNat m ai hm hai]; omega

theorem readN_append (a r : Bytes) : readN a.length (a ++ r) = .ok a r := by
  simp [readN]

theorem unsignedArg_head (h : Head) (hw : h.wf = true) (hai : h.ai ≠ 31) (r : Bytes) (bad : Res Nat) :
    unsignedArg h.ai (h.arg ++ r) bad = .ok h.val r := by
  rw [Head.wf_iff] at hw
  obtain ⟨_, h32, hl⟩ := hw
  unfold argLen at hl
  unfold unsignedArg Head.val
  by_cases h1 : h.ai < 24
  · simp only [h1, if_true] at hl ⊢
    have : h.arg = [] := List.eq_nil_of_length_eq_zero (by simpa using hl.symm)
    simp [this]
  · simp only [h1, if_false] at hl ⊢
    by_cases h2 : h.ai = 24
    · simp only [h2, if_true] at hl ⊢
      have hl' : h.arg.length = 1 := by simpa using hl.symm
      have := readN_append h.arg r; rw [hl'] at this; simp [this]
    · simp only [h2, if_false] at hl ⊢
      by_cases h3 : h.ai = 25
      · simp only [h3, if_true] at hl ⊢
        have hl' : h.arg.length = 2 := by simpa using hl.symm
        have := readN_append h.arg r; rw [hl'] at this; simp [this]
      · simp only [h3, if_false] at hl ⊢
        by_cases h4 : h.ai = 26
        · simp only [h4, if_true] at hl ⊢
          have hl' : h.arg.length = 4 := by simpa using hl.symm
          have := readN_append h.arg r; rw [hl'] at this; simp [this]
        · simp only [h4, if_false] at hl ⊢
          by_cases h5 : h.ai = 27
          · simp only [h5, if_true] at hl ⊢
            have hl' : h.arg.length = 8 := by simpa using hl.symm
            have := readN_append h.arg r; rw [hl'] at this; simp [this]
          · simp only [h5, if_false] at hl
            by_cases h6 : h.ai = 31
            · exact absurd h6 hai
            · simp [h6] at hl

/-- reading back the argument of a minimal head -/
theorem unsignedArg_minHead (m n : Nat) (hm : m < 8) (hn : n < 2 ^ 64) (r : Bytes) (bad : Res Nat) :
    unsignedArg (minHead m n).ai ((minHead m n).arg ++ r) bad = .ok n r := by
  rw [unsignedArg_head _ (minHead_wf m n hm hn) (minHead_ai_ne_31 m n), minHead_val m n hn]

theorem minHead_encode (m n : Nat) :
    (minHead m n).encode = initByte m (minHead m n).ai :: (minHead m n).arg := by
  simp [Head.encode, minHead_major]

theorem minHead_ai_lt32 (m n : Nat) : (minHead m n).ai < 32 := by have := minHead_ai_lt m n; omega

theorem u64_uint (n : Nat) (hn : n < 2 ^ 64) (r : Bytes) : u64 ((E.uint n).encode ++ r) = .ok n r := by
  simp only [E.encode, minHead_encode, List.cons_append, u64,
    major_initByte 0 _ (by omega) (minHead_ai_lt32 0 n), info_initByte 0 _ (by omega) (minHead_ai_lt32 0 n), if_true]
  exact unsignedArg_minHead 0 n (by omega) hn r _

theorem uMax_uint (max n : Nat) (hn : n ≤ max) (h64 : n < 2 ^ 64) (r : Bytes) :
    uMax max ((E.uint n).encode ++ r) = .ok n r := by
  simp [uMax, u64_uint n h64 r, hn]

theorem u8_uint (n : Nat) (hn : n ≤ 255) (r : Bytes) : u8 ((E.uint n).encode ++ r) = .ok n r :=
  uMax_uint _ n (by unfold U8MAX; omega) (by omega) r
theorem u16_uint (n : Nat) (hn : n ≤ 65535) (r : Bytes) : u16 ((E.uint n).encode ++ r) = .ok n r :=
  uMax_uint _ n (by unfold U16MAX; omega) (by omega) r
theorem u32_uint (n : Nat) (hn : n ≤ 4294967295) (r : Bytes) : u32 ((E.uint n).encode ++ r) = .ok n r :=
  uMax_uint _ n (by unfold U32MAX; omega) (by omega) r

theorem bool_bool (b : Bool) (r : Bytes) : bool ((E.bool b).encode ++ r) = .ok b r := by
  cases b <;> simp [E.encode, boolByte, NetCodec.bool]

theorem defStr_head (m : Nat) (hm : m < 8) (bs : Bytes) (hl : bs.length < 2 ^ 64) (r : Bytes) :
    defStr m ((minHead m bs.length).encode ++ (bs ++ r)) = .ok bs r := by
  have hne := minHead_ai_ne_31 m bs.length
  simp only [minHead_encode, List.cons_append, defStr,
    major_initByte m _ hm (minHead_ai_lt32 m _), info_initByte m _ hm (minHead_ai_lt32 m _)]
  simp only [ne_eq, not_true_eq_false, hne, or_self, if_false]
  rw [unsignedArg_minHead m _ hm hl]
  simp [readN_append]

theorem bytes_bytes (bs : Bytes) (hl : bs.length < 2 ^ 64) (r : Bytes) :
    bytes ((E.bytes bs).encode ++ r) = .ok bs r := by
  simp only [E.encode, List.append_assoc, bytes]
  exact defStr_head 2 (by omega) bs hl r

theorem str_text (bs : Bytes) (hl : bs.length < 2 ^ 64) (hu : utf8Valid bs = true) (r : Bytes) :
    str ((E.text bs).encode ++ r) = .ok bs r := by
  simp only [E.encode, List.append_assoc, str]
  rw [defStr_head 3 (by omega) bs hl r]
  simp [hu]

theorem container_head (m : Nat) (hm : m < 8) (n : Nat) (hn : n < 2 ^ 64) (r : Bytes) :
    container m ((minHead m n).encode ++ r) = .ok (some n) r := by
  have hne := minHead_ai_ne_31 m n
  simp only [minHead_encode, List.cons_append, container,
    major_initByte m _ hm (minHead_ai_lt32 m _), info_initByte m _ hm (minHead_ai_lt32 m _)]
  simp only [ne_eq, not_true_eq_false, hne, if_false]
  rw [unsignedArg_minHead m _ hm hn]
  rfl

theorem array_arr (n : Nat) (xs : List E) (hn : n < 2 ^ 64) (r : Bytes) :
    array ((E.arr n xs).encode ++ r) = .ok (some n) (E.encodeList xs ++ r) := by
  simp only [E.encode, List.append_assoc, array]
  exact container_head 4 (by omega) n hn _

theorem array_arrI (xs : List E) (r : Bytes) :
    array ((E.arrI xs).encode ++ r) = .ok none (E.encodeList xs ++ 0xff :: r) := by
  simp [E.encode, array, container, major, info]

theorem map_map (n : Nat) (kvs : List E) (hn : n < 2 ^ 64) (r : Bytes) :
    map ((E.map n kvs).encode ++ r) = .ok (some n) (E.encodeList kvs ++ r) := by
  simp only [E.encode, List.append_assoc, map]
  exact container_head 5 (by omega) n hn _

theorem map_mapI (kvs : List E) (r : Bytes) :
    map ((E.mapI kvs).encode ++ r) = .ok none (E.encodeList kvs ++ 0xff :: r) := by
  simp [E.encode, map, container, major, info]

theorem tag_tag (t : Nat) (x : E) (ht : t < 2 ^ 64) (r : Bytes) :
    tag ((E.tag t x).encode ++ r) = .ok t (x.encode ++ r) := by
  simp only [E.encode, List.append_assoc, minHead_encode, List.cons_append, tag,
    major_initByte 6 _ (by omega) (minHead_ai_lt32 6 _), info_initByte 6 _ (by omega) (minHead_ai_lt32 6 _)]
  simp only [ne_eq, not_true_eq_false, if_false]
  exact unsignedArg_minHead 6 t (by omega) ht _ _

/-! ### `datatype` of the first byte -/

theorem datatype_arr (n : Nat) (xs : List E) (r : Bytes) :
    datatype ((E.arr n xs).encode ++ r) = .ok .array ((E.arr n xs).encode ++ r) := by
  have h1 := minHead_ai_lt 4 n
  have hb := initByte_toNat 4 (minHead 4 n).ai (by omega) (by omega)
  simp only [E.encode, minHead_encode, List.cons_append, datatype, hb]
  have : ¬ (4 * 32 + (minHead 4 n).ai ≤ 0x18) := by omega
  simp only [this, if_false]
  repeat (first | rw [if_neg (by omega)] | rw [if_pos (by omega)])

theorem datatype_uint (n : Nat) (r : Bytes) :
    ∃ t, datatype ((E.uint n).encode ++ r) = .ok t ((E.uint n).encode ++ r) ∧ (t = .u8 ∨ t = .u16 ∨ t = .u32 ∨ t = .u64) := by
  have h1 := minHead_ai_lt 0 n
  have hb : (initByte 0 (minHead 0 n).ai).toNat = (minHead 0 n).ai := by
    rw [initByte_toNat 0 (minHead 0 n).ai (by omega) (by omega)]; omega
  simp only [E.encode, minHead_encode, List.cons_append, datatype, hb]
  by_cases c1 : (minHead 0 n).ai ≤ 0x18
  · exact ⟨.u8, by rw [if_pos c1], by simp⟩
  · rw [if_neg c1]
    by_cases c2 : (minHead 0 n).ai = 0x19
    · exact ⟨.u16, by rw [if_pos c2], by simp⟩
    · rw [if_neg c2]
      by_cases c3 : (minHead 0 n).ai = 0x1a
      · exact ⟨.u32, by rw [if_pos c3], by simp⟩
      · rw [if_neg c3]
        have c4 : (minHead 0 n).ai = 0x1b := by omega
        exact ⟨.u64, by rw [if_pos c4], by simp⟩

theorem datatype_null (r : Bytes) : datatype (0xf6 :: r) = .ok .null (0xf6 :: r) := by
  simp [datatype]

/-! ### lists -/

/-- the first byte of an encoding is not the break byte (needed inside indefinite containers) -/
def E.startsNonBreak (e : E) : Prop := ∃ b t, e.encode = b :: t ∧ b ≠ 0xff

theorem E.startsNonBreak_arr (n : Nat) (xs : List E) : (E.arr n xs).startsNonBreak := by
  refine ⟨initByte 4 (minHead 4 n).ai, (minHead 4 n).arg ++ E.encodeList xs, by simp [E.encode, minHead_encode], ?_⟩
  exact initByte_ne_break 4 _ (by omega) (minHead_ai_lt32 4 n) (by omega)

theorem E.startsNonBreak_uint (n : Nat) : (E.uint n).startsNonBreak := by
  refine ⟨initByte 0 (minHead 0 n).ai, (minHead 0 n).arg, by simp [E.encode, minHead_encode], ?_⟩
  exact initByte_ne_break 0 _ (by omega) (minHead_ai_lt32 0 n) (by omega)

theorem decN_map {α : Type} (d : Dec α) (f : α → E) (xs : List α) (r : Bytes)
    (h : ∀ x ∈ xs, ∀ r, d ((f x).encode ++ r) = .ok x r) :
    decN d xs.length (E.encodeList (xs.map f) ++ r) = .ok xs r := by
  induction xs with
  | nil => simp [decN, E.encodeList]
  | cons x xs ih =>
    simp only [List.map_cons, E.encodeList, List.length_cons, decN, List.append_assoc]
    rw [h x (by simp)]
    simp only [Res.bind_ok]
    rw [ih fun y hy => h y (by simp [hy])]
    rfl

theorem decBreak_map {α : Type} (d : Dec α) (f : α → E) (xs : List α) (r : Bytes) (fuel : Nat)
    (hf : xs.length < fuel)
    (h : ∀ x ∈ xs, ∀ r, d ((f x).encode ++ r) = .ok x r)
    (hb : ∀ x ∈ xs, (f x).startsNonBreak) :
    decBreak d fuel (E.encodeList (xs.map f) ++ 0xff :: r) = .ok xs r := by
  induction xs generalizing fuel with
  | nil =>
    cases fuel with
    | zero => omega
    | succ fuel => simp [decBreak, E.encodeList]
  | cons x xs ih =>
    cases fuel with
    | zero => omega
    | succ fuel =>
      obtain ⟨b, t, hbt, hne⟩ := hb x (by simp)
      have hx := h x (by simp)
      simp only [List.map_cons, E.encodeList, List.append_assoc]
      rw [hbt] at hx ⊢
      simp only [List.cons_append, decBreak, hne, if_false]
      have := hx (E.encodeList (xs.map f) ++ 0xff :: r)
      simp only [List.cons_append] at this
      rw [this]
      simp only [Res.bind_ok]
      rw [ih fuel (by simpa using hf) (fun y hy => h y (by simp [hy])) (fun y hy => hb y (by simp [hy]))]
      rfl

theorem encodeList_length_ge {α : Type} (f : α → E) (xs : List α) (hb : ∀ x ∈ xs, (f x).startsNonBreak) :
    xs.length ≤ (E.encodeList (xs.map f)).length := by
  induction xs with
  | nil => simp
  | cons x xs ih =>
    obtain ⟨b, t, hbt, _⟩ := hb x (by simp)
    have := ih fun y hy => hb y (by simp [hy])
    simp only [List.map_cons, E.encodeList, List.length_append, List.length_cons, hbt]
    omega

theorem vec_arr {α : Type} (d : Dec α) (f : α → E) (xs : List α) (hl : xs.length < 2 ^ 64) (r : Bytes)
    (h : ∀ x ∈ xs, ∀ r, d ((f x).encode ++ r) = .ok x r) :
    vec d ((E.arr xs.length (xs.map f)).encode ++ r) = .ok xs r := by
  simp only [vec, array_arr _ _ hl, Res.bind_ok]
  exact decN_map d f xs r h

theorem vec_arrI {α : Type} (d : Dec α) (f : α → E) (xs : List α) (r : Bytes)
    (h : ∀ x ∈ xs, ∀ r, d ((f x).encode ++ r) = .ok x r)
    (hb : ∀ x ∈ xs, (f x).startsNonBreak) :
    vec d ((E.arrI (xs.map f)).encode ++ r) = .ok xs r := by
  simp only [vec, array_arrI, Res.bind_ok]
  apply decBreak_map d f xs r _ _ h hb
  have := encodeList_length_ge f xs hb
  simp only [List.length_append, List.length_cons]; omega

/-! ### key-sorted association lists (`HashMap` / `BTreeMap` contents in canonical order) -/

theorem insertKV_append {β : Type} (k : Nat) (v : β) (acc : List (Nat × β)) (h : ∀ p ∈ acc, p.1 < k) :
    insertKV k v acc = acc ++ [(k, v)] := by
  induction acc with
  | nil => rfl
  | cons p acc ih =>
    have hp := h p (by simp)
    have : ¬ k < p.1 := by omega
    have : ¬ k = p.1 := by omega
    obtain ⟨pk, pv⟩ := p
    simp only [insertKV, List.cons_append] at *
    simp [*, ih fun q hq => h q (by simp [hq])]

theorem sortedKeys_cons {β : Type} (a : Nat × β) (l : List (Nat × β)) (h : sortedKeys (a :: l) = true) :
    sortedKeys l = true ∧ ∀ p ∈ l, a.1 < p.1 := by
  induction l generalizing a with
  | nil => simp [sortedKeys]
  | cons b l ih =>
    simp only [sortedKeys, Bool.and_eq_true, decide_eq_true_eq] at h
    obtain ⟨hab, hs⟩ := h
    obtain ⟨_, hall⟩ := ih b hs
    refine ⟨hs, ?_⟩
    intro p hp
    simp only [List.mem_cons] at hp
    rcases hp with rfl | hp
    · exact hab
    · have := hall p hp; omega

theorem foldl_insertKV {β : Type} (l acc : List (Nat × β)) (hs : sortedKeys l = true)
    (h : ∀ p ∈ acc, ∀ q ∈ l, p.1 < q.1) :
    l.foldl (fun m p => insertKV p.1 p.2 m) acc = acc ++ l := by
  induction l generalizing acc with
  | nil => simp
  | cons a l ih =>
    obtain ⟨hs', hall⟩ := sortedKeys_cons a l hs
    simp only [List.foldl_cons]
    rw [insertKV_append a.1 a.2 acc fun p hp => h p hp a (by simp)]
    rw [ih (acc ++ [(a.1, a.2)]) hs']
    · simp
    · intro p hp q hq
      simp only [List.mem_append, List.mem_singleton] at hp
      rcases hp with hp | rfl
      · exact h p hp q (by simp [hq])
      · exact hall q hq

theorem fromPairs_sorted {β : Type} (l : List (Nat × β)) (hs : sortedKeys l = true) : fromPairs l = l := by
  unfold fromPairs
  simpa using foldl_insertKV l [] hs (by simp)

theorem decN_pairs {α β : Type} (dk : Dec α) (dv : Dec β) (fk : α → E) (fv : β → E) (l : List (α × β)) (r : Bytes)
    (hk : ∀ p ∈ l, ∀ r, dk ((fk p.1).encode ++ r) = .ok p.1 r)
    (hv : ∀ p ∈ l, ∀ r, dv ((fv p.2).encode ++ r) = .ok p.2 r) :
    decN (pair dk dv) l.length (E.encodeList (l.flatMap fun kv => [fk kv.1, fv kv.2]) ++ r) = .ok l r := by
  induction l with
  | nil => simp [decN, E.encodeList]
  | cons p l ih =>
    simp only [List.flatMap_cons, List.cons_append, List.nil_append, E.encodeList, List.length_cons, decN, pair, List.append_assoc]
    rw [hk p (by simp)]
    simp only [Res.bind_ok]
    rw [hv p (by simp)]
    simp only [Res.bind_ok]
    rw [ih (fun q hq => hk q (by simp [hq])) (fun q hq => hv q (by simp [hq]))]
    rfl

theorem decBreak_pairs {α β : Type} (dk : Dec α) (dv : Dec β) (fk : α → E) (fv : β → E) (l : List (α × β)) (r : Bytes)
    (fuel : Nat) (hf : l.length < fuel)
    (hk : ∀ p ∈ l, ∀ r, dk ((fk p.1).encode ++ r) = .ok p.1 r)
    (hv : ∀ p ∈ l, ∀ r, dv ((fv p.2).encode ++ r) = .ok p.2 r)
    (hb : ∀ p ∈ l, (fk p.1).startsNonBreak) :
    decBreak (pair dk dv) fuel (E.encodeList (l.flatMap fun kv => [fk kv.1, fv kv.2]) ++ 0xff :: r) = .ok l r := by
  induction l generalizing fuel with
  | nil =>
    cases fuel with
    | zero => omega
    | succ fuel => simp [decBreak, E.encodeList]
  | cons p l ih =>
    cases fuel with
    | zero => omega
    | succ fuel =>
      obtain ⟨b, t, hbt, hne⟩ := hb p (by simp)
      have hx := hk p (by simp)
      simp only [List.flatMap_cons, List.cons_append, List.nil_append, E.encodeList, List.append_assoc]
      rw [hbt] at hx ⊢
      simp only [List.cons_append, decBreak, hne, if_false, pair]
      have := hx ((fv p.2).encode ++ (E.encodeList (l.flatMap fun kv => [fk kv.1, fv kv.2]) ++ 0xff :: r))
      simp only [List.cons_append] at this
      rw [this]
      simp only [Res.bind_ok]
      rw [hv p (by simp)]
      simp only [Res.bind_ok]
      rw [ih fuel (by simpa using hf) (fun q hq => hk q (by simp [hq])) (fun q hq => hv q (by simp [hq]))
        (fun q hq => hb q (by simp [hq]))]
      rfl

theorem pairs_length_ge {α β : Type} (fk : α → E) (fv : β → E) (l : List (α × β)) (hb : ∀ p ∈ l, (fk p.1).startsNonBreak) :
    l.length ≤ (E.encodeList (l.flatMap fun kv => [fk kv.1, fv kv.2])).length := by
  induction l with
  | nil => simp
  | cons p l ih =>
    obtain ⟨b, t, hbt, _⟩ := hb p (by simp)
    have := ih fun q hq => hb q (by simp [hq])
    simp only [List.flatMap_cons, List.cons_append, List.nil_append, E.encodeList, List.length_append, List.length_cons, hbt]
    omega

/-! ### `AnyCbor` -/

/-- `Decoder::skip` goes over exactly these bytes, whatever follows -/
def SkipExact (bs : Bytes) : Prop := ∀ r, skip (bs ++ r) = .ok () r

theorem anyCbor_raw (bs : Bytes) (h : SkipExact bs) (r : Bytes) : anyCbor ((E.raw bs).encode ++ r) = .ok bs r := by
  simp [anyCbor, E.encode, h r]

theorem skip_null (r : Bytes) : skip (0xf6 :: r) = .ok () r := by
  simp [skip, skipLoop, unsignedArg, info, skipTail]

end PallasVerif.NetCodec
