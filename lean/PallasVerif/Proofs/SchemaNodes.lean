import PallasVerif.Proofs.Schema
/-! One lemma per schema node: `Good` of the parts gives `Good` of the node. -/
namespace PallasVerif.Schema
open PallasVerif.Cbor

/-! ## leaves -/

theorem pow_bits_le (b : Nat) (hb : b = 8 ∨ b = 16 ∨ b = 32 ∨ b = 64) : 2 ^ b ≤ 2 ^ 64 := by
  rcases hb with rfl | rfl | rfl | rfl <;> decide

theorem intInBits_range (b : Nat) (i : Int) (hb : b = 8 ∨ b = 16 ∨ b = 32 ∨ b = 64) (h : intInBits b i = true) :
    -(2 ^ 63 : Int) ≤ i ∧ i < (2 ^ 63 : Int) := by
  simp only [intInBits, Bool.and_eq_true, decide_eq_true_eq] at h
  rcases hb with rfl | rfl | rfl | rfl <;> simp at h <;> omega

theorem good_uint (b : Nat) (nr : Prop) (hb : b = 8 ∨ b = 16 ∨ b = 32 ∨ b = 64) :
    Good (encUInt b) (decUInt b) [.u8, .u16, .u32, .u64] nr := by
  apply Good.leaf; intro v it he
  cases v <;> simp [encUInt] at he
  case nat n =>
    obtain ⟨hn, rfl⟩ := he
    have h64 : n < 2 ^ 64 := Nat.lt_of_lt_of_le hn (pow_bits_le b hb)
    exact ⟨mkUInt_wf n h64, mkUInt_typeOf n, by simp [decUInt, mkUInt_uint n h64, hn], by simp [Value.strip]⟩

theorem good_sint (b : Nat) (nr : Prop) (hb : b = 8 ∨ b = 16 ∨ b = 32 ∨ b = 64) :
    Good (encSInt b) (decSInt b) (.int :: intKinds) nr := by
  apply Good.leaf; intro v it he
  cases v <;> simp [encSInt] at he
  case int i =>
    obtain ⟨hn, rfl⟩ := he
    have hr := intInBits_range b i hb hn
    exact ⟨mkInt_wf i (by omega) (by omega), mkInt_typeOf i,
      by simp [decSInt, mkInt_int i (by omega) (by omega), hn], by simp [Value.strip]⟩

theorem good_int (nr : Prop) : Good encInt decInt (.int :: intKinds) nr := by
  apply Good.leaf; intro v it he
  cases v <;> simp [encInt] at he
  case int i =>
    obtain ⟨⟨h1, h2⟩, rfl⟩ := he
    exact ⟨mkInt_wf i h1 h2, mkInt_typeOf i, by simp [decInt, mkInt_int i h1 h2], by simp [Value.strip]⟩

theorem good_nzint (nr : Prop) : Good encNzInt decNzInt (.int :: intKinds) nr := by
  apply Good.leaf; intro v it he
  cases v <;> simp [encNzInt] at he
  case int i =>
    obtain ⟨⟨hn, h0⟩, rfl⟩ := he
    have hr := intInBits_range 64 i (by simp) hn
    exact ⟨mkInt_wf i (by omega) (by omega), mkInt_typeOf i,
      by simp [decNzInt, mkInt_int i (by omega) (by omega), hn, h0], by simp [Value.strip]⟩

theorem good_posCoin (nr : Prop) : Good encPosCoin decPosCoin [.u8, .u16, .u32, .u64] nr := by
  apply Good.leaf; intro v it he
  cases v <;> simp [encPosCoin] at he
  case nat n =>
    obtain ⟨⟨h0, hn⟩, rfl⟩ := he
    exact ⟨mkUInt_wf n hn, mkUInt_typeOf n, by simp [decPosCoin, mkUInt_uint n hn, h0, hn], by simp [Value.strip]⟩

theorem good_bytes (nr : Prop) : Good encBytes decBytes [.bytes] nr := by
  apply Good.leaf; intro v it he
  cases v <;> simp [encBytes] at he
  case bytes b =>
    obtain ⟨hn, rfl⟩ := he
    exact ⟨mkBytes_wf b hn, by simp [mkBytes_typeOf], by simp [decBytes, mkBytes, minHead_major], by simp [Value.strip]⟩

theorem good_hash (n : Nat) (nr : Prop) : Good (encHash n) (decHash n) [.bytes] nr := by
  apply Good.leaf; intro v it he
  cases v <;> simp [encHash] at he
  case bytes b =>
    obtain ⟨⟨hl, hn⟩, rfl⟩ := he
    exact ⟨mkBytes_wf b (by omega), by simp [mkBytes_typeOf], by simp [decHash, mkBytes, minHead_major, hl], by simp [Value.strip]⟩

theorem good_text (nr : Prop) : Good encText decText [.string] nr := by
  apply Good.leaf; intro v it he
  cases v <;> simp [encText] at he
  case text b =>
    obtain ⟨⟨hu, hn⟩, rfl⟩ := he
    exact ⟨mkText_wf b hn, by simp [mkText_typeOf], by simp [decText, mkText, minHead_major, hu], by simp [Value.strip]⟩

theorem good_bool (nr : Prop) : Good encBool decBool [.bool] nr := by
  apply Good.leaf; intro v it he
  cases v <;> simp [encBool] at he
  case bool b =>
    subst he
    cases b <;> exact ⟨by decide, by decide, by simp [decBool, mkBool], by simp [Value.strip]⟩

theorem good_emptyMap (nr : Prop) : Good encEmptyMap decEmptyMap [.map] nr := by
  apply Good.leaf; intro v it he
  cases v <;> simp [encEmptyMap] at he
  subst he
  exact ⟨by decide, by decide, by simp [decEmptyMap, mkMapFlat, itemUtf8Ok, utf8OkList], by simp [Value.strip]⟩

theorem typeOf_mem_all (it : Item) : typeOf it ∈ Ty.all := by
  generalize typeOf it = t
  cases t <;> simp [Ty.all]

theorem good_any (nr : Prop) : Good encAny (fun it => some (Value.any it)) Ty.all nr := by
  apply Good.leaf; intro v it he
  cases v <;> simp [encAny] at he
  case any x =>
    obtain ⟨hw, rfl⟩ := he
    exact ⟨hw, typeOf_mem_all _, rfl, by simp [Value.strip]⟩

end PallasVerif.Schema
