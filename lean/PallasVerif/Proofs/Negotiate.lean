import PallasVerif.Model.Negotiate
/-!
  Lemmas and main theorems about the two handshake negotiation models (C25): soundness of an
  acceptance, refusal of disjoint tables, independence of the hash maps' iteration order, absence of
  the `values[num]` panic. Restated as the property theorems in Props/C25.
-/

namespace PallasVerif.Negotiate
variable {D : Type}

/-! ## generic list facts -/

theorem unique_of_nodup_keys {t : Table D} (h : (keys t).Nodup) {x y : Nat × D} (hx : x ∈ t) (hy : y ∈ t)
    (hk : x.1 = y.1) : x = y := by
  induction t with
  | nil => cases hx
  | cons a t ih =>
    simp only [keys, List.map_cons, List.nodup_cons, List.mem_map, not_exists, not_and] at h
    cases hx with
    | head =>
      cases hy with
      | head => rfl
      | tail _ hy => exact absurd hk.symm (h.1 y hy)
    | tail _ hx =>
      cases hy with
      | head => exact absurd hk (h.1 x hx)
      | tail _ hy => exact ih h.2 hx hy

theorem find_key_some {t : Table D} {v : Nat} {c : Nat × D} (h : t.find? (fun c => c.1 = v) = some c) :
    c ∈ t ∧ c.1 = v := by
  have h1 := List.mem_of_find?_eq_some h
  have h2 := List.find?_some h
  exact ⟨h1, by simpa using h2⟩

theorem find_key_none {t : Table D} {v : Nat} (h : t.find? (fun c => c.1 = v) = none) : v ∉ keys t := by
  intro hv
  simp only [keys, List.mem_map] at hv
  obtain ⟨c, hc, rfl⟩ := hv
  have := List.find?_eq_none.mp h c hc
  simp at this

theorem find_key_of_mem {t : Table D} (hn : (keys t).Nodup) {c : Nat × D} (hc : c ∈ t) :
    t.find? (fun x => x.1 = c.1) = some c := by
  cases h : t.find? (fun x => x.1 = c.1) with
  | none => exact absurd (List.mem_map_of_mem (f := (·.1)) hc) (find_key_none h)
  | some y =>
    obtain ⟨hy, hk⟩ := find_key_some h
    rw [unique_of_nodup_keys hn hy hc hk]

theorem find_key_perm {t t' : Table D} (hp : t.Perm t') (hn : (keys t).Nodup) (v : Nat) :
    t.find? (fun c => c.1 = v) = t'.find? (fun c => c.1 = v) := by
  have hn' : (keys t').Nodup := (hp.map _).nodup_iff.mp hn
  cases h : t.find? (fun c => c.1 = v) with
  | none =>
    cases h' : t'.find? (fun c => c.1 = v) with
    | none => rfl
    | some y =>
      obtain ⟨hy, hk⟩ := find_key_some h'
      exact absurd (hk ▸ List.mem_map_of_mem (f := (·.1)) (hp.mem_iff.mpr hy)) (find_key_none h)
  | some x =>
    obtain ⟨hx, hk⟩ := find_key_some h
    have := find_key_of_mem hn' (hp.mem_iff.mp hx)
    rw [hk] at this
    exact this.symm

/-! ## network 1 -/

theorem sortDesc_perm (t : Table D) : (sortDesc t).Perm t := List.mergeSort_perm _ _

theorem sortDesc_sorted (t : Table D) : (sortDesc t).Pairwise (fun a b => b.1 ≤ a.1) := by
  have := List.pairwise_mergeSort (le := fun (a b : Nat × D) => decide (b.1 ≤ a.1))
    (by intro a b c hab hbc; simp at *; omega) (by intro a b; simp; omega) t
  simpa [sortDesc] using this

theorem sortDesc_eq_of_perm {t t' : Table D} (hp : t.Perm t') (hn : (keys t).Nodup) : sortDesc t = sortDesc t' := by
  have hp' : (sortDesc t).Perm (sortDesc t') := (sortDesc_perm t).trans (hp.trans (sortDesc_perm t').symm)
  refine List.Perm.eq_of_pairwise (le := fun a b => b.1 ≤ a.1) ?_ (sortDesc_sorted t) (sortDesc_sorted t') hp'
  intro a b ha hb h1 h2
  have ha' : a ∈ t := (sortDesc_perm t).mem_iff.mp ha
  have hb' : b ∈ t := hp.mem_iff.mpr ((sortDesc_perm t').mem_iff.mp hb)
  exact unique_of_nodup_keys hn ha' hb' (by omega)

theorem sortDesc_of_sorted {t : Table D} (h : t.Pairwise (fun a b => b.1 ≤ a.1)) : sortDesc t = t := by
  unfold sortDesc
  exact List.mergeSort_of_pairwise (le := fun (a b : Nat × D) => decide (b.1 ≤ a.1)) (by simpa using h)

variable [DecidableEq D]

/-- on a table that is already in descending order the sort is the identity -/
theorem negotiate1_of_sorted {ours theirs : Table D} (h : ours.Pairwise (fun a b => b.1 ≤ a.1)) :
    negotiate1 ours theirs = scan1 theirs ours ours := by
  unfold negotiate1; rw [sortDesc_of_sorted h]

/-- what `scan1` returns, in terms of the part of the server table it walks over -/
theorem scan1_accept {theirs all l : Table D} {v : Nat} {d : D} (h : scan1 theirs all l = .accept v d) :
    (v, d) ∈ l ∧ (v, d) ∈ theirs ∧ ∃ pre post, l = pre ++ (v, d) :: post ∧ ∀ w ∈ keys pre, w ∉ keys theirs := by
  induction l with
  | nil => simp [scan1] at h
  | cons a rest ih =>
    obtain ⟨av, ad⟩ := a
    simp only [scan1] at h
    cases hf : theirs.find? (fun c => c.1 = av) with
    | some c =>
      simp only [hf] at h
      split at h
      · rename_i heq
        injection h with h1 h2
        subst h1; subst h2
        obtain ⟨hc, hk⟩ := find_key_some hf
        refine ⟨List.mem_cons_self .., ?_, [], rest, rfl, by simp [keys]⟩
        have : c = (av, ad) := by cases c; simp_all
        exact this ▸ hc
      · cases h
    | none =>
      simp only [hf] at h
      obtain ⟨h1, h2, pre, post, h3, h4⟩ := ih h
      refine ⟨List.mem_cons_of_mem _ h1, h2, (av, ad) :: pre, post, by simp [h3], ?_⟩
      intro w hw
      simp only [keys, List.map_cons, List.mem_cons] at hw
      cases hw with
      | inl hw => exact hw ▸ find_key_none hf
      | inr hw => exact h4 w hw

theorem scan1_mismatch_of_disjoint {theirs all l : Table D} (h : ∀ w ∈ keys l, w ∉ keys theirs) :
    scan1 theirs all l = .versionMismatch (keys all) := by
  induction l with
  | nil => rfl
  | cons a rest ih =>
    obtain ⟨av, ad⟩ := a
    have hnone : theirs.find? (fun c => c.1 = av) = none := by
      cases hf : theirs.find? (fun c => c.1 = av) with
      | none => rfl
      | some c =>
        obtain ⟨hc, hk⟩ := find_key_some hf
        exact absurd (hk ▸ List.mem_map_of_mem (f := (·.1)) hc) (h av (by simp [keys]))
    simp only [scan1, hnone]
    exact ih (fun w hw => h w (by simp only [keys, List.map_cons, List.mem_cons]; exact Or.inr hw))

theorem scan1_refused {theirs all l : Table D} {v : Nat} (h : scan1 theirs all l = .refused v) :
    ∃ d d', (v, d) ∈ l ∧ (v, d') ∈ theirs ∧ d ≠ d' ∧
      ∃ pre post, l = pre ++ (v, d) :: post ∧ ∀ w ∈ keys pre, w ∉ keys theirs := by
  induction l with
  | nil => simp [scan1] at h
  | cons a rest ih =>
    obtain ⟨av, ad⟩ := a
    simp only [scan1] at h
    cases hf : theirs.find? (fun c => c.1 = av) with
    | some c =>
      simp only [hf] at h
      split at h
      · cases h
      · rename_i hne
        injection h with h1
        subst h1
        obtain ⟨hc, hk⟩ := find_key_some hf
        refine ⟨ad, c.2, List.mem_cons_self .., ?_, hne, [], rest, rfl, by simp [keys]⟩
        have : c = (av, c.2) := by cases c; simp_all
        exact this ▸ hc
    | none =>
      simp only [hf] at h
      obtain ⟨d, d', h1, h2, hne, pre, post, h3, h4⟩ := ih h
      refine ⟨d, d', List.mem_cons_of_mem _ h1, h2, hne, (av, ad) :: pre, post, by simp [h3], ?_⟩
      intro w hw
      simp only [keys, List.map_cons, List.mem_cons] at hw
      cases hw with
      | inl hw => exact hw ▸ find_key_none hf
      | inr hw => exact h4 w hw

theorem scan1_mismatch {theirs all l : Table D} {vs : List Nat} (h : scan1 theirs all l = .versionMismatch vs) :
    vs = keys all ∧ ∀ w ∈ keys l, w ∉ keys theirs := by
  induction l with
  | nil => simp only [scan1, Outcome.versionMismatch.injEq] at h; exact ⟨h.symm, by simp [keys]⟩
  | cons a rest ih =>
    obtain ⟨av, ad⟩ := a
    simp only [scan1] at h
    cases hf : theirs.find? (fun c => c.1 = av) with
    | some c => simp only [hf] at h; split at h <;> cases h
    | none =>
      simp only [hf] at h
      obtain ⟨h1, h2⟩ := ih h
      refine ⟨h1, ?_⟩
      intro w hw
      simp only [keys, List.map_cons, List.mem_cons] at hw
      cases hw with
      | inl hw => exact hw ▸ find_key_none hf
      | inr hw => exact h2 w hw

/-- a `Refused` answer of stack 1 is about the highest common version, whose data differ -/
theorem refused_sound1 (ours theirs : Table D) (v : Nat) (h : negotiate1 ours theirs = .refused v) :
    (∃ d d', (v, d) ∈ ours ∧ (v, d') ∈ theirs ∧ d ≠ d') ∧ ∀ w, w ∈ keys ours → w ∈ keys theirs → w ≤ v := by
  obtain ⟨d, d', h1, h2, hne, pre, post, h3, h4⟩ := scan1_refused h
  refine ⟨⟨d, d', (sortDesc_perm ours).mem_iff.mp h1, h2, hne⟩, ?_⟩
  intro w hwo hwt
  have hw : w ∈ keys (sortDesc ours) := ((sortDesc_perm ours).map _).mem_iff.mpr hwo
  have hs := sortDesc_sorted ours
  rw [h3] at hw hs
  simp only [keys, List.map_append, List.map_cons, List.mem_append, List.mem_cons] at hw
  rcases hw with hw | hw | hw
  · exact absurd hwt (h4 w hw)
  · omega
  · obtain ⟨x, hx, rfl⟩ := List.mem_map.mp hw
    have := (List.pairwise_append.mp hs).2.1
    exact (List.pairwise_cons.mp this).1 x hx

/-- stack 1 answers with a version mismatch only when the version sets are disjoint -/
theorem mismatch_only_if_disjoint1 (ours theirs : Table D) (vs : List Nat)
    (h : negotiate1 ours theirs = .versionMismatch vs) : ∀ w ∈ keys ours, w ∉ keys theirs := by
  intro w hw
  exact (scan1_mismatch h).2 w (((sortDesc_perm ours).map _).mem_iff.mpr hw)

/-- **accept_sound (stack 1)**: an accepted version is offered by both sides with *equal* version data
    (hence equal network magic), and no higher version is offered by both. -/
theorem accept_sound1 (ours theirs : Table D) (v : Nat) (d : D) (h : negotiate1 ours theirs = .accept v d) :
    (v, d) ∈ ours ∧ (v, d) ∈ theirs ∧ ∀ w, w ∈ keys ours → w ∈ keys theirs → w ≤ v := by
  obtain ⟨h1, h2, pre, post, h3, h4⟩ := scan1_accept h
  refine ⟨(sortDesc_perm ours).mem_iff.mp h1, h2, ?_⟩
  intro w hwo hwt
  have hw : w ∈ keys (sortDesc ours) := ((sortDesc_perm ours).map _).mem_iff.mpr hwo
  have hs := sortDesc_sorted ours
  rw [h3] at hw hs
  simp only [keys, List.map_append, List.map_cons, List.mem_append, List.mem_cons] at hw
  rcases hw with hw | hw | hw
  · exact absurd hwt (h4 w hw)
  · omega
  · obtain ⟨x, hx, rfl⟩ := List.mem_map.mp hw
    have := (List.pairwise_append.mp hs).2.1
    exact (List.pairwise_cons.mp this).1 x hx

/-- **disjoint_refuses (stack 1)**: disjoint version sets are refused with a version mismatch that lists
    exactly the responder's versions (highest first). -/
theorem disjoint_refuses1 (ours theirs : Table D) (h : ∀ w ∈ keys ours, w ∉ keys theirs) :
    ∃ l, negotiate1 ours theirs = .versionMismatch l ∧ l.Perm (keys ours) ∧ l.Pairwise (· ≥ ·) := by
  refine ⟨keys (sortDesc ours), scan1_mismatch_of_disjoint ?_, (sortDesc_perm ours).map _, ?_⟩
  · intro w hw
    exact h w (((sortDesc_perm ours).map _).mem_iff.mp hw)
  · have := sortDesc_sorted ours
    simp only [keys, List.pairwise_map]
    exact this.imp (fun h => h)

/-- **order independence (stack 1)**: the hash maps' iteration orders do not matter. -/
theorem negotiate1_perm (ours ours' theirs theirs' : Table D) (ho : ours.Perm ours') (ht : theirs.Perm theirs')
    (hno : (keys ours).Nodup) (hnt : (keys theirs).Nodup) :
    negotiate1 ours theirs = negotiate1 ours' theirs' := by
  unfold negotiate1
  rw [← sortDesc_eq_of_perm ho hno]
  generalize sortDesc ours = l
  have : ∀ all, scan1 theirs all l = scan1 theirs' all l := by
    intro all
    induction l with
    | nil => rfl
    | cons a rest ih => obtain ⟨av, ad⟩ := a; simp only [scan1, find_key_perm ht hnt av, ih]
  exact this l

theorem scan1_no_panic {theirs all l : Table D} : scan1 theirs all l ≠ .panic := by
  induction l with
  | nil => simp [scan1]
  | cons a rest ih =>
    obtain ⟨av, ad⟩ := a
    simp only [scan1]
    cases theirs.find? (fun c => c.1 = av) with
    | some c => simp only []; split <;> simp
    | none => exact ih

/-- **completeness (stack 1)**: with unique keys, the answer is decided by the highest common version
    alone — equal data there: accept; different data (any field, compared in full): refuse -/
theorem negotiate1_complete (ours theirs : Table D) (hno : (keys ours).Nodup) (hnt : (keys theirs).Nodup)
    (v : Nat) (d d' : D) (ho : (v, d) ∈ ours) (ht : (v, d') ∈ theirs)
    (hmax : ∀ w, w ∈ keys ours → w ∈ keys theirs → w ≤ v) :
    negotiate1 ours theirs = if d = d' then .accept v d else .refused v := by
  have hvo : v ∈ keys ours := List.mem_map_of_mem (f := (·.1)) ho
  have hvt : v ∈ keys theirs := List.mem_map_of_mem (f := (·.1)) ht
  cases h : negotiate1 ours theirs with
  | accept v' d'' =>
    obtain ⟨h1, h2, h3⟩ := accept_sound1 ours theirs v' d'' h
    have hv : v' = v := by
      have a := h3 v hvo hvt
      have b := hmax v' (List.mem_map_of_mem (f := (·.1)) h1) (List.mem_map_of_mem (f := (·.1)) h2)
      omega
    subst hv
    have e1 : (v', d'') = (v', d) := unique_of_nodup_keys hno h1 ho rfl
    have e2 : (v', d'') = (v', d') := unique_of_nodup_keys hnt h2 ht rfl
    simp only [Prod.mk.injEq, true_and] at e1 e2
    subst e1; subst e2; simp
  | refused v' =>
    obtain ⟨⟨d1, d2, h1, h2, hne⟩, h3⟩ := refused_sound1 ours theirs v' h
    have hv : v' = v := by
      have a := h3 v hvo hvt
      have b := hmax v' (List.mem_map_of_mem (f := (·.1)) h1) (List.mem_map_of_mem (f := (·.1)) h2)
      omega
    subst hv
    have e1 : (v', d1) = (v', d) := unique_of_nodup_keys hno h1 ho rfl
    have e2 : (v', d2) = (v', d') := unique_of_nodup_keys hnt h2 ht rfl
    simp only [Prod.mk.injEq, true_and] at e1 e2
    subst e1; subst e2; simp [hne]
  | versionMismatch vs => exact absurd hvt (mismatch_only_if_disjoint1 ours theirs vs h v hvo)
  | panic => exact absurd h scan1_no_panic

/-! ## network 2 -/

omit [DecidableEq D] in
theorem foldl_max_spec (xs : Table D) (x : Nat × D) :
    let r := xs.foldl (fun best y => if best.1 ≤ y.1 then y else best) x
    (r = x ∨ r ∈ xs) ∧ x.1 ≤ r.1 ∧ ∀ y ∈ xs, y.1 ≤ r.1 := by
  induction xs generalizing x with
  | nil => simp
  | cons a xs ih =>
    simp only [List.foldl_cons]
    by_cases h : x.1 ≤ a.1
    · simp only [h, if_true]
      obtain ⟨h1, h2, h3⟩ := ih a
      refine ⟨?_, by omega, ?_⟩
      · rcases h1 with h1 | h1
        · exact Or.inr (by rw [h1]; exact List.mem_cons_self ..)
        · exact Or.inr (List.mem_cons_of_mem _ h1)
      · intro y hy
        cases hy with
        | head => exact h2
        | tail _ hy => exact h3 y hy
    · simp only [h, if_false]
      obtain ⟨h1, h2, h3⟩ := ih x
      refine ⟨?_, h2, ?_⟩
      · rcases h1 with h1 | h1
        · exact Or.inl h1
        · exact Or.inr (List.mem_cons_of_mem _ h1)
      · intro y hy
        cases hy with
        | head => omega
        | tail _ hy => exact h3 y hy

omit [DecidableEq D] in
theorem maxByKey_some {l : Table D} {x : Nat × D} (h : maxByKey l = some x) : x ∈ l ∧ ∀ y ∈ l, y.1 ≤ x.1 := by
  cases l with
  | nil => simp [maxByKey] at h
  | cons a xs =>
    simp only [maxByKey, Option.some.injEq] at h
    obtain ⟨h1, h2, h3⟩ := foldl_max_spec xs a
    rw [h] at h1 h2 h3
    refine ⟨?_, ?_⟩
    · rcases h1 with h1 | h1
      · exact h1 ▸ List.mem_cons_self ..
      · exact List.mem_cons_of_mem _ h1
    · intro y hy
      cases hy with
      | head => exact h2
      | tail _ hy => exact h3 y hy

omit [DecidableEq D] in
theorem maxByKey_none {l : Table D} (h : maxByKey l = none) : l = [] := by
  cases l <;> simp_all [maxByKey]

omit [DecidableEq D] in
theorem mem_common {ours proposed : Table D} {p : Nat × D} :
    p ∈ common ours proposed ↔ p ∈ proposed ∧ p.1 ∈ keys ours := by
  simp [common, List.mem_filter]

omit [DecidableEq D] in
theorem lookup_some {t : Table D} {v : Nat} {d : D} (h : lookup t v = some d) : (v, d) ∈ t := by
  unfold lookup at h
  cases hf : t.find? (fun c => c.1 = v) with
  | none => simp [hf] at h
  | some c =>
    obtain ⟨hc, hk⟩ := find_key_some hf
    simp [hf] at h
    cases c; simp_all

omit [DecidableEq D] in
theorem lookup_none {t : Table D} {v : Nat} (h : lookup t v = none) : v ∉ keys t := by
  unfold lookup at h
  cases hf : t.find? (fun c => c.1 = v) with
  | none => exact find_key_none hf
  | some c => simp [hf] at h

omit [DecidableEq D] in
/-- the indexing `values[num]` never panics: the filter guarantees the key -/
theorem negotiate2_no_panic (magic : D → Nat) (ours proposed : Table D) : negotiate2 magic ours proposed ≠ .panic := by
  unfold negotiate2
  cases hm : maxByKey (common ours proposed) with
  | none => simp
  | some x =>
    obtain ⟨v, pd⟩ := x
    have hx := (maxByKey_some hm).1
    rw [mem_common] at hx
    cases hl : lookup ours v with
    | none => exact absurd hx.2 (lookup_none hl)
    | some od => simp only [hl]; split <;> simp

omit [DecidableEq D] in
/-- **accept_sound (stack 2)**: the accepted version is offered by both sides, the answer carries our
    data for it, the two sides agree on the network magic, and no higher version is offered by both. -/
theorem accept_sound2 (magic : D → Nat) (ours proposed : Table D) (v : Nat) (d : D)
    (h : negotiate2 magic ours proposed = .accept v d) :
    (v, d) ∈ ours ∧ (∃ pd, (v, pd) ∈ proposed ∧ magic pd = magic d) ∧
      ∀ w, w ∈ keys ours → w ∈ keys proposed → w ≤ v := by
  unfold negotiate2 at h
  cases hm : maxByKey (common ours proposed) with
  | none => simp [hm] at h
  | some x =>
    obtain ⟨v', pd⟩ := x
    obtain ⟨hx, hmax⟩ := maxByKey_some hm
    rw [mem_common] at hx
    simp only [hm] at h
    cases hl : lookup ours v' with
    | none => simp [hl] at h
    | some od =>
      simp only [hl] at h
      split at h
      · cases h
      · rename_i hmag
        injection h with h1 h2
        subst h1; subst h2
        refine ⟨lookup_some hl, ⟨pd, hx.1, by simpa using hmag⟩, ?_⟩
        intro w hwo hwp
        obtain ⟨p, hp, rfl⟩ := List.mem_map.mp hwp
        exact hmax p (mem_common.mpr ⟨hp, hwo⟩)

omit [DecidableEq D] in
/-- a `Refused` answer of stack 2 is about the highest common version, whose magics differ -/
theorem refused_sound2 (magic : D → Nat) (ours proposed : Table D) (v : Nat)
    (h : negotiate2 magic ours proposed = .refused v) :
    (∃ d pd, (v, d) ∈ ours ∧ (v, pd) ∈ proposed ∧ magic pd ≠ magic d) ∧
      ∀ w, w ∈ keys ours → w ∈ keys proposed → w ≤ v := by
  unfold negotiate2 at h
  cases hm : maxByKey (common ours proposed) with
  | none => simp [hm] at h
  | some x =>
    obtain ⟨v', pd⟩ := x
    obtain ⟨hx, hmax⟩ := maxByKey_some hm
    rw [mem_common] at hx
    simp only [hm] at h
    cases hl : lookup ours v' with
    | none => simp [hl] at h
    | some od =>
      simp only [hl] at h
      split at h
      · rename_i hmag
        injection h with h1
        subst h1
        refine ⟨⟨od, pd, lookup_some hl, hx.1, hmag⟩, ?_⟩
        intro w hwo hwp
        obtain ⟨p, hp, rfl⟩ := List.mem_map.mp hwp
        exact hmax p (mem_common.mpr ⟨hp, hwo⟩)
      · cases h

omit [DecidableEq D] in
/-- stack 2 answers with a version mismatch only when the version sets are disjoint -/
theorem mismatch_only_if_disjoint2 (magic : D → Nat) (ours proposed : Table D) (vs : List Nat)
    (h : negotiate2 magic ours proposed = .versionMismatch vs) : ∀ w ∈ keys ours, w ∉ keys proposed := by
  unfold negotiate2 at h
  cases hm : maxByKey (common ours proposed) with
  | some x =>
    obtain ⟨v', pd⟩ := x
    simp only [hm] at h
    cases hl : lookup ours v' with
    | none => simp [hl] at h
    | some od => simp only [hl] at h; split at h <;> cases h
  | none =>
    have hnil := maxByKey_none hm
    intro w hwo hwp
    obtain ⟨p, hp, rfl⟩ := List.mem_map.mp hwp
    have : p ∈ common ours proposed := mem_common.mpr ⟨hp, hwo⟩
    simp [hnil] at this

omit [DecidableEq D] in
/-- **completeness (stack 2)**: with unique keys, the answer is decided by the highest common version
    alone — equal magics (as full numbers, no truncation): accept with our data; different: refuse -/
theorem negotiate2_complete (magic : D → Nat) (ours proposed : Table D) (hno : (keys ours).Nodup)
    (hnp : (keys proposed).Nodup) (v : Nat) (d pd : D) (ho : (v, d) ∈ ours) (hp : (v, pd) ∈ proposed)
    (hmax : ∀ w, w ∈ keys ours → w ∈ keys proposed → w ≤ v) :
    negotiate2 magic ours proposed = if magic pd ≠ magic d then .refused v else .accept v d := by
  have hvo : v ∈ keys ours := List.mem_map_of_mem (f := (·.1)) ho
  unfold negotiate2
  cases hm : maxByKey (common ours proposed) with
  | none =>
    have := maxByKey_none hm
    have hc : (v, pd) ∈ common ours proposed := mem_common.mpr ⟨hp, hvo⟩
    simp [this] at hc
  | some x =>
    obtain ⟨hx, hxmax⟩ := maxByKey_some hm
    have hxc := mem_common.mp hx
    have h1 := hxmax (v, pd) (mem_common.mpr ⟨hp, hvo⟩)
    have h2 := hmax x.1 hxc.2 (List.mem_map_of_mem (f := (·.1)) hxc.1)
    have hxe : x = (v, pd) := unique_of_nodup_keys hnp hxc.1 hp (by simp at h1; omega)
    subst hxe
    have hl : lookup ours v = some d := by
      unfold lookup
      have := find_key_of_mem hno ho
      simp at this
      simp [this]
    simp only [hl]

omit [DecidableEq D] in
/-- **disjoint_refuses (stack 2)**: disjoint version sets are refused with a version mismatch listing our versions. -/
theorem disjoint_refuses2 (magic : D → Nat) (ours proposed : Table D) (h : ∀ w ∈ keys ours, w ∉ keys proposed) :
    negotiate2 magic ours proposed = .versionMismatch (keys ours) := by
  unfold negotiate2
  have : common ours proposed = [] := by
    apply List.eq_nil_iff_forall_not_mem.mpr
    intro p hp
    rw [mem_common] at hp
    exact h p.1 hp.2 (List.mem_map_of_mem (f := (·.1)) hp.1)
  simp [this, maxByKey]

/-- outcomes up to the order in which a version-mismatch lists our versions (a hash map's) -/
def Outcome.sim : Outcome D → Outcome D → Prop
  | .versionMismatch l, .versionMismatch l' => l.Perm l'
  | a, b => a = b

omit [DecidableEq D] in
/-- **order independence (stack 2)** -/
theorem negotiate2_perm (magic : D → Nat) (ours ours' proposed proposed' : Table D) (ho : ours.Perm ours')
    (hp : proposed.Perm proposed') (hno : (keys ours).Nodup) (hnp : (keys proposed).Nodup) :
    (negotiate2 magic ours proposed).sim (negotiate2 magic ours' proposed') := by
  have hk : ∀ w, w ∈ keys ours ↔ w ∈ keys ours' := fun w => (ho.map _).mem_iff
  have hcommon : ∀ p, p ∈ common ours proposed ↔
      p ∈ common ours' proposed' := by
    intro p; rw [mem_common, mem_common, hp.mem_iff, hk]
  have hlook : ∀ v, lookup ours v = lookup ours' v := fun v => by unfold lookup; rw [find_key_perm ho hno v]
  unfold negotiate2
  cases hm : maxByKey (common ours proposed) with
  | none =>
    have hnil := maxByKey_none hm
    have hnil' : common ours' proposed' = [] := by
      apply List.eq_nil_iff_forall_not_mem.mpr
      intro p hp'
      have := (hcommon p).mpr hp'
      simp [hnil] at this
    simp only [hnil', maxByKey]
    exact ho.map _
  | some x =>
    obtain ⟨hx, hmax⟩ := maxByKey_some hm
    cases hm' : maxByKey (common ours' proposed') with
    | none =>
      have := maxByKey_none hm'
      have hx' := (hcommon x).mp hx
      simp [this] at hx'
    | some x' =>
      obtain ⟨hx', hmax'⟩ := maxByKey_some hm'
      have h1 := hmax x' ((hcommon x').mpr hx')
      have h2 := hmax' x ((hcommon x).mp hx)
      have hxp : x ∈ proposed := (mem_common.mp hx).1
      have hxp' : x' ∈ proposed := hp.mem_iff.mpr (mem_common.mp hx').1
      have : x = x' := unique_of_nodup_keys hnp hxp hxp' (by omega)
      subst this
      obtain ⟨v, pd⟩ := x
      simp only [hlook]
      cases lookup ours' v with
      | none => simp [Outcome.sim]
      | some od =>
        by_cases hmg : magic pd = magic od <;> simp [hmg, Outcome.sim]

end PallasVerif.Negotiate
