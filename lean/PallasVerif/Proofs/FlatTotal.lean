import PallasVerif.Model.Flat
/-!
  Safety of every decoder entry point of `Model/Flat.lean` (support for `Props/C02`):
  from a state satisfying `Dec.Inv` no call reaches a `panic` outcome (index out of range,
  shift overflow, subtraction below zero, fuel exhausted), the buffer is unchanged, the
  invariant holds again (also after an error) and the cursor never moves backwards.
-/
namespace PallasVerif.Flat

/-- bit position of the cursor -/
def Dec.cursor (d : Dec) : Nat := 8 * d.pos + d.used

/-- `used_bits ∈ 0..7` and the cursor is inside the buffer (so `pos ≤ len`, and `pos = len → used = 0`) -/
def Dec.Inv (d : Dec) : Prop := d.used < 8 ∧ d.cursor ≤ 8 * d.buf.length

/-- outcome `r` of a call made in state `d0` is safe -/
def Res.Safe {α : Type} (d0 : Dec) : Res α → Prop
  | .ok _ d => d.buf = d0.buf ∧ d.Inv ∧ d0.cursor ≤ d.cursor
  | .err _ d => d.buf = d0.buf ∧ d.Inv ∧ d0.cursor ≤ d.cursor
  | .panic => False

/-- additionally: a successful call moved the cursor by at least `k` bits -/
def Res.Adv {α : Type} (d0 : Dec) (k : Nat) : Res α → Prop
  | .ok _ d => d0.cursor + k ≤ d.cursor
  | _ => True

theorem Dec.inv_new (bs : List Byte) : (Dec.new bs).Inv := by
  simp [Dec.Inv, Dec.new, Dec.cursor]

@[simp] theorem Res.safe_ok {α : Type} (d0 : Dec) (a : α) (d : Dec) :
    Res.Safe d0 (.ok a d) ↔ (d.buf = d0.buf ∧ d.Inv ∧ d0.cursor ≤ d.cursor) := Iff.rfl
@[simp] theorem Res.safe_err {α : Type} (d0 : Dec) (e : Err) (d : Dec) :
    Res.Safe d0 (.err e d : Res α) ↔ (d.buf = d0.buf ∧ d.Inv ∧ d0.cursor ≤ d.cursor) := Iff.rfl
@[simp] theorem Res.safe_panic {α : Type} (d0 : Dec) : ¬ Res.Safe d0 (.panic : Res α) := fun h => h
@[simp] theorem Res.adv_ok {α : Type} (d0 : Dec) (k : Nat) (a : α) (d : Dec) :
    Res.Adv d0 k (.ok a d) ↔ d0.cursor + k ≤ d.cursor := Iff.rfl

theorem Res.Safe.trans {β : Type} {d0 d1 : Dec} {r : Res β}
    (h01 : d1.buf = d0.buf ∧ d1.Inv ∧ d0.cursor ≤ d1.cursor) (h : Res.Safe d1 r) :
    Res.Safe d0 r := by
  cases r with
  | ok a d => simp only [Res.Safe] at *; refine ⟨by rw [h.1, h01.1], h.2.1, by omega⟩
  | err e d => simp only [Res.Safe] at *; refine ⟨by rw [h.1, h01.1], h.2.1, by omega⟩
  | panic => exact h

/-! ### `bit`, `bool`, `zero` -/

theorem Dec.bit_safe (d : Dec) (h : d.Inv) : Res.Safe d d.bit ∧ Res.Adv d 1 d.bit := by
  unfold Dec.bit
  obtain ⟨hu, hc⟩ := h
  by_cases hp : d.pos ≥ d.buf.length
  · simp [hp, Res.Safe, Res.Adv, Dec.Inv, hu, hc]
  · have hlt : d.pos < d.buf.length := by omega
    simp only [hp, if_false, List.getElem?_eq_getElem hlt]
    have : ¬ d.used ≥ 8 := by omega
    simp only [this, if_false, Res.Safe, Res.Adv, Dec.incBit, Dec.Inv, Dec.cursor] at *
    by_cases h7 : d.used = 7
    · simp [h7]; omega
    · simp [h7]; omega

theorem Dec.zero_safe (d : Dec) (h : d.Inv) : Res.Safe d d.zero ∧ Res.Adv d 1 d.zero := by
  have := Dec.bit_safe d h
  unfold Dec.zero
  cases hb : d.bit <;> simp_all [Res.Safe, Res.Adv]

/-! ### `filler` -/

theorem Dec.fillerLoop_safe (fuel : Nat) (d : Dec) (h : d.Inv)
    (hf : fuel + d.cursor > 8 * d.buf.length) : Res.Safe d (Dec.fillerLoop fuel d) := by
  induction fuel generalizing d with
  | zero => exfalso; have := h.2; omega
  | succ n ih =>
    unfold Dec.fillerLoop
    have hz := Dec.zero_safe d h
    cases hb : d.zero with
    | panic => simp [hb, Res.Safe] at hz
    | err e d' => rw [hb] at hz; simpa using hz.1
    | ok b d' =>
      rw [hb] at hz
      simp only [Res.safe_ok, Res.adv_ok] at hz
      cases b with
      | false => simpa using hz.1
      | true =>
        simp only
        apply Res.Safe.trans hz.1
        apply ih d' hz.1.2.1
        rw [hz.1.1]; omega

theorem Dec.filler_safe (d : Dec) (h : d.Inv) : Res.Safe d d.filler := by
  unfold Dec.filler
  apply Dec.fillerLoop_safe _ _ h
  have := h.2
  simp only [Dec.cursor] at *
  omega

/-! ### `bits8`, `u8` -/

theorem Dec.bits8_safe (d : Dec) (n : Nat) (h : d.Inv) :
    Res.Safe d (d.bits8 n) ∧ Res.Adv d n (d.bits8 n) := by
  obtain ⟨hu, hc⟩ := h
  unfold Dec.bits8
  by_cases h8 : n > 8
  · simp [h8, Res.Safe, Res.Adv, Dec.Inv, hu, hc]
  · simp only [h8, if_false]
    by_cases h0 : n = 0
    · simp [h0, Res.Safe, Res.Adv, Dec.Inv, hu, hc]
    · simp only [h0, if_false]
      by_cases he : d.ensureBits n = true
      · simp only [he, not_true_eq_false, if_false]
        simp only [Dec.ensureBits, decide_eq_true_eq, Dec.cursor] at he hc
        have hlt : d.pos < d.buf.length := by omega
        have hu8 : ¬ d.used > 8 := by omega
        have hsh : ¬ (d.used ≥ 8 ∨ 8 - n ≥ 8) := by omega
        simp only [hu8, if_false, List.getElem?_eq_getElem hlt, hsh]
        by_cases hn : n > 8 - d.used
        · have hlt1 : d.pos + 1 < d.buf.length := by omega
          have hs2 : ¬ (8 - d.used + (8 - n) ≥ 8) := by omega
          simp only [hn, if_true, List.getElem?_eq_getElem hlt1, hs2, if_false, Res.Safe, Res.Adv,
            Dec.dropBits, Dec.Inv, Dec.cursor, true_and]
          omega
        · simp only [hn, if_false, Res.Safe, Res.Adv, Dec.dropBits, Dec.Inv, Dec.cursor, true_and]
          omega
      · simp [he, Res.Safe, Res.Adv, Dec.Inv, hu, hc]

theorem Dec.u8_safe (d : Dec) (h : d.Inv) : Res.Safe d d.u8 := (Dec.bits8_safe d 8 h).1

/-! ### `word`, `integer`, `char` -/

theorem Dec.wordLoop_safe (fuel : Nat) (d : Dec) (fw shl : Nat) (h : d.Inv)
    (hs : shl < 2 ^ 32) (hf : 8 * fuel + d.cursor > 8 * d.buf.length) :
    Res.Safe d (Dec.wordLoop fuel d fw shl) := by
  induction fuel generalizing d fw shl with
  | zero => exfalso; have := h.2; omega
  | succ n ih =>
    unfold Dec.wordLoop
    have hb := Dec.bits8_safe d 8 h
    cases hr : d.bits8 8 with
    | panic => simp [hr, Res.Safe] at hb
    | err e d' => rw [hr] at hb; simpa using hb.1
    | ok w8 d' =>
      rw [hr] at hb
      simp only [Res.safe_ok, Res.adv_ok] at hb
      have hmod : shl % 2 ^ 32 = shl := Nat.mod_eq_of_lt hs
      simp only [hmod]
      by_cases h64 : shl ≥ 64
      · simpa [h64] using hb.1
      · simp only [h64, if_false]
        split
        · simpa using hb.1
        · have : ¬ shl + 7 ≥ 2 ^ 64 := by omega
          simp only [this, if_false]
          split
          · apply Res.Safe.trans hb.1
            apply ih d' _ _ hb.1.2.1 (by omega)
            rw [hb.1.1]; omega
          · simpa using hb.1

theorem Dec.word_safe (d : Dec) (h : d.Inv) : Res.Safe d d.word := by
  unfold Dec.word
  apply Dec.wordLoop_safe _ _ _ _ h (by omega)
  have := h.2
  simp only [Dec.cursor] at *
  omega

theorem Dec.integer_safe (d : Dec) (h : d.Inv) : Res.Safe d d.integer := by
  have := Dec.word_safe d h
  unfold Dec.integer
  cases hb : d.word <;> simp_all [Res.Safe]

theorem Dec.char_safe (d : Dec) (h : d.Inv) : Res.Safe d d.char := by
  have := Dec.word_safe d h
  unfold Dec.char
  cases hb : d.word with
  | panic => simp_all [Res.Safe]
  | err e d' => simp_all [Res.Safe]
  | ok w d' =>
    simp only
    split <;> simp_all [Res.Safe]

/-! ### `byte_array`, `bytes`, `utf8` -/

theorem Dec.blkLoop_safe (fuel : Nat) (d : Dec) (blkLen : Nat) (acc : List Byte) (h : d.Inv)
    (h0 : d.used = 0) (hf : fuel + d.pos > d.buf.length) :
    Res.Safe d (Dec.blkLoop fuel d blkLen acc) := by
  induction fuel generalizing d blkLen acc with
  | zero =>
    exfalso
    have := h.2
    simp only [Dec.cursor] at this
    omega
  | succ n ih =>
    unfold Dec.blkLoop
    obtain ⟨hu, hc⟩ := h
    simp only [Dec.cursor] at hc
    by_cases hz : blkLen = 0
    · simp [hz, Res.Safe, Dec.Inv, Dec.cursor, hu, hc]
    · simp only [hz, if_false]
      by_cases he : d.ensureBytes (blkLen + 1) = true
      · simp only [he, not_true_eq_false, if_false]
        simp only [Dec.ensureBytes, decide_eq_true_eq] at he
        have hsl : ¬ d.pos + blkLen > d.buf.length := by omega
        have hlt : d.pos + blkLen < d.buf.length := by omega
        simp only [hsl, if_false, List.getElem?_eq_getElem hlt]
        have hstep : Res.Safe (α := List Byte) { buf := d.buf, pos := d.pos + blkLen + 1, used := d.used }
            (Dec.blkLoop n { buf := d.buf, pos := d.pos + blkLen + 1, used := d.used } (d.buf[d.pos + blkLen]).toNat
              (acc ++ List.take blkLen (List.drop d.pos d.buf))) := by
          apply ih
          · simp only [Dec.Inv, Dec.cursor]; omega
          · exact h0
          · simp only; omega
        apply Res.Safe.trans _ hstep
        simp only [Dec.Inv, Dec.cursor, true_and]
        omega
      · simp [he, Res.Safe, Dec.Inv, Dec.cursor, hu, hc]

theorem Dec.byteArray_safe (d : Dec) (h : d.Inv) : Res.Safe d d.byteArray := by
  unfold Dec.byteArray
  obtain ⟨hu, hc⟩ := h
  simp only [Dec.cursor] at hc
  by_cases h0 : d.used ≠ 0
  · simp [h0, Res.Safe, Dec.Inv, Dec.cursor, hu, hc]
  · have h0' : d.used = 0 := by omega
    simp only [h0, if_false]
    by_cases he : d.ensureBytes 1 = true
    · simp only [he, not_true_eq_false, if_false]
      simp only [Dec.ensureBytes, decide_eq_true_eq] at he
      have hlt : d.pos < d.buf.length := by omega
      simp only [List.getElem?_eq_getElem hlt]
      have hstep : Res.Safe (α := List Byte) { buf := d.buf, pos := d.pos + 1, used := d.used }
          (Dec.blkLoop (d.buf.length - d.pos + 1) { buf := d.buf, pos := d.pos + 1, used := d.used }
            (d.buf[d.pos]).toNat []) := by
        apply Dec.blkLoop_safe
        · simp only [Dec.Inv, Dec.cursor]; omega
        · exact h0'
        · simp only; omega
      apply Res.Safe.trans _ hstep
      simp only [Dec.Inv, Dec.cursor, true_and]
      omega
    · simp [he, Res.Safe, Dec.Inv, Dec.cursor, hu, hc]

theorem Dec.bytes_safe (d : Dec) (h : d.Inv) : Res.Safe d d.bytes := by
  have hf := Dec.filler_safe d h
  unfold Dec.bytes
  cases hb : d.filler with
  | panic => simp [hb, Res.Safe] at hf
  | err e d' => rw [hb] at hf; simpa using hf
  | ok u d' =>
    rw [hb] at hf
    simp only [Res.safe_ok] at hf
    exact Res.Safe.trans hf (Dec.byteArray_safe d' hf.2.1)

theorem Dec.utf8_safe (d : Dec) (h : d.Inv) : Res.Safe d d.utf8 := by
  have := Dec.bytes_safe d h
  unfold Dec.utf8
  cases hb : d.bytes with
  | panic => simp_all [Res.Safe]
  | err e d' => simp_all [Res.Safe]
  | ok w d' =>
    simp only
    split <;> simp_all [Res.Safe]

/-! ### `decode_list_with` for any safe element decoder -/

theorem Dec.listLoop_safe {α : Type} (elem : Dec → Res α)
    (helem : ∀ d : Dec, d.Inv → Res.Safe d (elem d))
    (fuel : Nat) (d : Dec) (acc : List α) (h : d.Inv)
    (hf : fuel + d.cursor > 8 * d.buf.length) : Res.Safe d (Dec.listLoop elem fuel d acc) := by
  induction fuel generalizing d acc with
  | zero => exfalso; have := h.2; omega
  | succ n ih =>
    unfold Dec.listLoop
    have hz := Dec.bit_safe d h
    cases hb : d.bit with
    | panic => simp [hb, Res.Safe] at hz
    | err e d' => rw [hb] at hz; simpa using hz.1
    | ok b d' =>
      rw [hb] at hz
      simp only [Res.safe_ok, Res.adv_ok] at hz
      cases b with
      | false => simpa using hz.1
      | true =>
        simp only
        have he := helem d' hz.1.2.1
        cases hr : elem d' with
        | panic => simp [hr, Res.Safe] at he
        | err e d'' =>
          rw [hr] at he
          exact Res.Safe.trans hz.1 he
        | ok a d'' =>
          rw [hr] at he
          simp only [Res.safe_ok] at he
          simp only
          apply Res.Safe.trans hz.1
          apply Res.Safe.trans he
          apply ih d'' _ he.2.1
          rw [he.1, hz.1.1]; omega

theorem Dec.list_safe {α : Type} (elem : Dec → Res α)
    (helem : ∀ d : Dec, d.Inv → Res.Safe d (elem d)) (d : Dec) (h : d.Inv) :
    Res.Safe d (Dec.list elem d) := by
  unfold Dec.list
  apply Dec.listLoop_safe elem helem _ _ _ h
  have := h.2
  simp only [Dec.cursor] at *
  omega

/-! ### one call per kind (`Dec.value`), `flat::decode` -/

theorem Dec.value_safe (d : Dec) (h : d.Inv) (k : Kind) : Res.Safe d (d.value k) := by
  cases k with
  | bool => have := (Dec.bit_safe d h).1; simp only [Dec.value, Dec.bool]; cases hb : d.bit <;> simp_all
  | u8 => have := Dec.u8_safe d h; simp only [Dec.value]; cases hb : d.u8 <;> simp_all
  | bits n => have := (Dec.bits8_safe d n h).1; simp only [Dec.value]; cases hb : d.bits8 n <;> simp_all
  | word => have := Dec.word_safe d h; simp only [Dec.value]; cases hb : d.word <;> simp_all
  | int => have := Dec.integer_safe d h; simp only [Dec.value]; cases hb : d.integer <;> simp_all
  | char => have := Dec.char_safe d h; simp only [Dec.value]; cases hb : d.char <;> simp_all
  | bytes => have := Dec.bytes_safe d h; simp only [Dec.value]; cases hb : d.bytes <;> simp_all
  | utf8 => have := Dec.utf8_safe d h; simp only [Dec.value]; cases hb : d.utf8 <;> simp_all
  | bools =>
    have := Dec.list_safe Dec.bool (fun d h => (Dec.bit_safe d h).1) d h
    simp only [Dec.value]; cases hb : Dec.list Dec.bool d <;> simp_all
  | string =>
    have := Dec.list_safe Dec.char Dec.char_safe d h
    simp only [Dec.value, Dec.string]; cases hb : Dec.list Dec.char d <;> simp_all

theorem decode_top_total (k : Kind) (bytes : List Byte) : (decodeTop k bytes).isPanic = false := by
  have hv := Dec.value_safe (Dec.new bytes) (Dec.inv_new bytes) k
  unfold decodeTop
  cases hr : (Dec.new bytes).value k with
  | panic => rw [hr] at hv; exact absurd hv (Res.safe_panic _)
  | err e d => rfl
  | ok v d' =>
    rw [hr] at hv
    have hf := Dec.filler_safe d' hv.2.1
    simp only
    cases hf' : d'.filler with
    | panic => rw [hf'] at hf; exact absurd hf (Res.safe_panic _)
    | err e d => rfl
    | ok u d => rfl


end PallasVerif.Flat
