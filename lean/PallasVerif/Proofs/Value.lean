import PallasVerif.Model.Value
/-! Helper lemmas for C34: exact totals (`tot`) of association-list multi-assets through `upsert`, the merge loops,
    the validation passes and the equality test. No Mathlib. -/
namespace PallasVerif.Value

theorem R.bind_ok {α β : Type} {r : R α} {f : α → R β} {b : β} :
    r.bind f = .ok b ↔ ∃ a, r = .ok a ∧ f a = .ok b := by
  cases r <;> simp [R.bind]

theorem R.map_ok {α β : Type} {r : R α} {f : α → β} {b : β} :
    r.map f = .ok b ↔ ∃ a, r = .ok a ∧ f a = b := by
  cases r <;> simp [R.map, R.bind]

/-- sum of `μ v` over *all* entries with key `k` -/
def sumKey {β : Type} (μ : β → Int) : AMap β → String → Int
  | [], _ => 0
  | (k', v) :: rest, k => (if k' = k then μ v else 0) + sumKey μ rest k

/-- exact quantity of asset name `n` in an asset map -/
def totA (as : AMap Int) (n : String) : Int := sumKey id as n
/-- exact quantity of asset `(p, n)` in a multi-asset -/
def tot (m : MA) (p n : String) : Int := sumKey (fun as => totA as n) m p

def keys {β : Type} (m : AMap β) : List String := m.map (·.1)
def NodupMA (m : MA) : Prop := (keys m).Nodup ∧ ∀ e ∈ m, (keys e.2).Nodup

/-! ### upsert -/

theorem upsert_sum {β : Type} (μ : β → Int) (d : Int) (k : String) (f : Option β → R β)
    (hf : ∀ o v, f o = .ok v → μ v = (match o with | some x => μ x | none => 0) + d) :
    ∀ (m m' : AMap β), upsert m k f = .ok m' → sumKey μ m' k = sumKey μ m k + d := by
  intro m
  induction m with
  | nil =>
    intro m' h
    simp only [upsert, R.map_ok] at h
    obtain ⟨v, hv, rfl⟩ := h
    have := hf none v hv
    simp [sumKey, this]
  | cons e rest ih =>
    intro m' h
    obtain ⟨k', v⟩ := e
    unfold upsert at h
    split at h
    · rename_i hk
      simp only [R.map_ok] at h
      obtain ⟨v', hv', rfl⟩ := h
      have := hf (some v) v' hv'
      simp only at this
      simp [sumKey, hk, this]; omega
    · rename_i hk
      simp only [R.map_ok] at h
      obtain ⟨r, hr, rfl⟩ := h
      have := ih r hr
      simp [sumKey, hk, this]

theorem upsert_sum_other {β : Type} (μ : β → Int) (k k' : String) (f : Option β → R β) (hne : k' ≠ k) :
    ∀ (m m' : AMap β), upsert m k f = .ok m' → sumKey μ m' k' = sumKey μ m k' := by
  intro m
  induction m with
  | nil =>
    intro m' h
    simp only [upsert, R.map_ok] at h
    obtain ⟨v, _, rfl⟩ := h
    simp [sumKey, Ne.symm hne]
  | cons e rest ih =>
    intro m' h
    obtain ⟨k0, v⟩ := e
    unfold upsert at h
    split at h
    · rename_i hk
      simp only [R.map_ok] at h
      obtain ⟨v', _, rfl⟩ := h
      have : ¬ k0 = k' := by rw [hk]; exact Ne.symm hne
      simp [sumKey, this]
    · simp only [R.map_ok] at h
      obtain ⟨r, hr, rfl⟩ := h
      simp [sumKey, ih r hr]

/-- the additions are exact when they succeed -/
def Exact (add : Int → Int → R Int) (fresh : Int → R Int) : Prop :=
  (∀ x a v, add x a = .ok v → v = x + a) ∧ (∀ a v, fresh a = .ok v → v = a)

theorem addAssets_tot (add : Int → Int → R Int) (fresh : Int → R Int) (hex : Exact add fresh) :
    ∀ (as old old' : AMap Int), addAssets add fresh old as = .ok old' →
    ∀ n, totA old' n = totA old n + totA as n := by
  intro as
  induction as with
  | nil => intro old old' h n; simp only [addAssets, R.ok.injEq] at h; subst h; simp [totA, sumKey]
  | cons e rest ih =>
    intro old old' h n
    obtain ⟨n0, a⟩ := e
    simp only [addAssets, R.bind_ok] at h
    obtain ⟨old1, h1, h2⟩ := h
    have hrest := ih old1 old' h2 n
    by_cases hn : n0 = n
    · subst hn
      have := upsert_sum (β := Int) id a n0 _ (by
        intro o v hv
        cases o with
        | some x => simp only at hv ⊢; have := hex.1 x a v hv; simp [this]
        | none => simp only at hv ⊢; have := hex.2 a v hv; simp [this]) old old1 h1
      simp only [totA] at hrest this ⊢
      simp [sumKey, hrest, this]; omega
    · have := upsert_sum_other (β := Int) id n0 n _ (Ne.symm hn) old old1 h1
      simp only [totA] at hrest this ⊢
      simp [sumKey, hn, hrest, this]

theorem mergePolicies_tot (add : Int → Int → R Int) (fresh : Int → R Int) (hex : Exact add fresh) :
    ∀ (x res res' : MA), mergePolicies add fresh res x = .ok res' →
    ∀ p n, tot res' p n = tot res p n + tot x p n := by
  intro x
  induction x with
  | nil => intro res res' h p n; simp only [mergePolicies, R.ok.injEq] at h; subst h; simp [tot, sumKey]
  | cons e rest ih =>
    intro res res' h p n
    obtain ⟨p0, as⟩ := e
    simp only [mergePolicies, R.bind_ok] at h
    obtain ⟨res1, h1, h2⟩ := h
    have hrest := ih res1 res' h2 p n
    by_cases hp : p0 = p
    · subst hp
      have := upsert_sum (β := AMap Int) (fun as => totA as n) (totA as n) p0 _ (by
        intro o v hv
        have := addAssets_tot add fresh hex as (o.getD []) v hv n
        cases o with
        | some x => simpa using this
        | none => simpa [totA, sumKey] using this) res res1 h1
      simp only [tot] at hrest this ⊢
      simp [sumKey, hrest, this]; omega
    · have := upsert_sum_other (β := AMap Int) (fun as => totA as n) p0 p _ (Ne.symm hp) res res1 h1
      simp only [tot] at hrest this ⊢
      simp [sumKey, hp, hrest, this]

/-! ### keys stay unique (the results are `HashMap`s) -/

theorem upsert_keys {β : Type} (k : String) (f : Option β → R β) :
    ∀ (m m' : AMap β), upsert m k f = .ok m' →
    keys m' = keys m ∨ (k ∉ keys m ∧ keys m' = keys m ++ [k]) := by
  intro m
  induction m with
  | nil =>
    intro m' h
    simp only [upsert, R.map_ok] at h
    obtain ⟨v, _, rfl⟩ := h
    exact Or.inr ⟨by simp [keys], by simp [keys]⟩
  | cons e rest ih =>
    intro m' h
    obtain ⟨k0, v⟩ := e
    unfold upsert at h
    split at h
    · simp only [R.map_ok] at h
      obtain ⟨v', _, rfl⟩ := h
      exact Or.inl (by simp [keys])
    · rename_i hk
      simp only [R.map_ok] at h
      obtain ⟨r, hr, rfl⟩ := h
      rcases ih r hr with h1 | ⟨h1, h2⟩
      · exact Or.inl (by simp only [keys, List.map_cons] at h1 ⊢; rw [h1])
      · refine Or.inr ⟨?_, ?_⟩
        · simp only [keys, List.map_cons, List.mem_cons, not_or] at h1 ⊢
          exact ⟨fun e => hk e.symm, h1⟩
        · simp only [keys, List.map_cons, List.cons_append] at h2 ⊢; rw [h2]

theorem upsert_nodup {β : Type} (k : String) (f : Option β → R β) (m m' : AMap β)
    (h : upsert m k f = .ok m') (hn : (keys m).Nodup) : (keys m').Nodup := by
  rcases upsert_keys k f m m' h with h1 | ⟨h1, h2⟩
  · rw [h1]; exact hn
  · rw [h2, List.nodup_append]
    refine ⟨hn, by simp, ?_⟩
    intro a ha b hb
    simp only [List.mem_singleton] at hb
    subst hb
    intro e; subst e; exact h1 ha

/-- every entry of the updated map is an old entry, or the entry at `k` computed by `f` from the old value there -/
theorem upsert_mem {β : Type} (k : String) (f : Option β → R β) :
    ∀ (m m' : AMap β), upsert m k f = .ok m' → ∀ e ∈ m',
    e ∈ m ∨ (∃ o, f o = .ok e.2 ∧ ∀ x, o = some x → (k, x) ∈ m) := by
  intro m
  induction m with
  | nil =>
    intro m' h e he
    simp only [upsert, R.map_ok] at h
    obtain ⟨v, hv, rfl⟩ := h
    simp only [List.mem_singleton] at he
    subst he
    exact Or.inr ⟨none, hv, by intro x hx; cases hx⟩
  | cons e0 rest ih =>
    intro m' h e he
    obtain ⟨k0, v⟩ := e0
    unfold upsert at h
    split at h
    · rename_i hk
      simp only [R.map_ok] at h
      obtain ⟨v', hv', rfl⟩ := h
      rcases List.mem_cons.mp he with e1 | e1
      · subst e1
        exact Or.inr ⟨some v, hv', by intro x hx; cases hx; subst hk; simp⟩
      · exact Or.inl (List.mem_cons_of_mem _ e1)
    · simp only [R.map_ok] at h
      obtain ⟨r, hr, rfl⟩ := h
      rcases List.mem_cons.mp he with e1 | e1
      · subst e1; exact Or.inl (by simp)
      · rcases ih r hr e e1 with h1 | ⟨o, ho, hx⟩
        · exact Or.inl (List.mem_cons_of_mem _ h1)
        · exact Or.inr ⟨o, ho, fun x hxo => List.mem_cons_of_mem _ (hx x hxo)⟩

theorem addAssets_nodup (add : Int → Int → R Int) (fresh : Int → R Int) :
    ∀ (as old old' : AMap Int), addAssets add fresh old as = .ok old' →
    (keys old).Nodup → (keys old').Nodup := by
  intro as
  induction as with
  | nil => intro old old' h hn; simp only [addAssets, R.ok.injEq] at h; subst h; exact hn
  | cons e rest ih =>
    intro old old' h hn
    obtain ⟨n0, a⟩ := e
    simp only [addAssets, R.bind_ok] at h
    obtain ⟨old1, h1, h2⟩ := h
    exact ih old1 old' h2 (upsert_nodup _ _ old old1 h1 hn)

theorem mergePolicies_nodup (add : Int → Int → R Int) (fresh : Int → R Int) :
    ∀ (x res res' : MA), mergePolicies add fresh res x = .ok res' → NodupMA res → NodupMA res' := by
  intro x
  induction x with
  | nil => intro res res' h hn; simp only [mergePolicies, R.ok.injEq] at h; subst h; exact hn
  | cons e rest ih =>
    intro res res' h hn
    obtain ⟨p0, as⟩ := e
    simp only [mergePolicies, R.bind_ok] at h
    obtain ⟨res1, h1, h2⟩ := h
    refine ih res1 res' h2 ⟨upsert_nodup _ _ res res1 h1 hn.1, ?_⟩
    intro e he
    rcases upsert_mem _ _ res res1 h1 e he with hm | ⟨o, ho, hx⟩
    · exact hn.2 e hm
    · refine addAssets_nodup add fresh as (o.getD []) e.2 ho ?_
      cases o with
      | none => simp [keys]
      | some x => exact hn.2 (p0, x) (hx x rfl)

theorem nodupMA_nil : NodupMA [] := ⟨by simp [keys], by intro e he; cases he⟩

/-! ### the validation passes return their argument -/

theorem coerceToI64_ok {m m' : MA} (h : coerceToI64 m = .ok m') : m' = m := by
  simp only [coerceToI64, R.map_ok] at h; obtain ⟨_, _, rfl⟩ := h; rfl
theorem coerceToCoin_ok {m m' : MA} (h : coerceToCoin m = .ok m') : m' = m := by
  simp only [coerceToCoin, R.map_ok] at h; obtain ⟨_, _, rfl⟩ := h; rfl
theorem conwayCoerceToCoin_ok {m m' : MA} (h : conwayCoerceToCoin m = .ok m') : m' = m := by
  simp only [conwayCoerceToCoin, R.map_ok] at h; obtain ⟨_, _, rfl⟩ := h; rfl
theorem conwayCoerceToNonZeroCoin_ok {m m' : MA} (h : conwayCoerceToNonZeroCoin m = .ok m') : m' = m := by
  simp only [conwayCoerceToNonZeroCoin, R.map_ok] at h; obtain ⟨_, _, rfl⟩ := h; rfl

/-! ### first-match look-up vs totals on maps with unique keys -/

theorem sumKey_not_mem {β : Type} (μ : β → Int) (k : String) :
    ∀ (m : AMap β), k ∉ keys m → sumKey μ m k = 0 := by
  intro m
  induction m with
  | nil => intro _; rfl
  | cons e rest ih =>
    intro h
    obtain ⟨k0, v⟩ := e
    simp only [keys, List.map_cons, List.mem_cons, not_or] at h
    have : ¬ k0 = k := fun e => h.1 e.symm
    simp [sumKey, this, ih h.2]

theorem sumKey_get {β : Type} (μ : β → Int) (k : String) :
    ∀ (m : AMap β), (keys m).Nodup →
    sumKey μ m k = (match AMap.get m k with | some v => μ v | none => 0) := by
  intro m
  induction m with
  | nil => intro _; rfl
  | cons e rest ih =>
    intro hn
    obtain ⟨k0, v⟩ := e
    simp only [keys, List.map_cons, List.nodup_cons] at hn
    by_cases hk : k0 = k
    · subst hk
      simp [sumKey, AMap.get, sumKey_not_mem μ k0 rest hn.1]
    · simp [sumKey, AMap.get, hk, ih hn.2]

theorem get_mem {β : Type} (k : String) (v : β) : ∀ (m : AMap β), AMap.get m k = some v → (k, v) ∈ m := by
  intro m
  induction m with
  | nil => intro h; simp [AMap.get] at h
  | cons e rest ih =>
    intro h
    obtain ⟨k0, v0⟩ := e
    unfold AMap.get at h
    split at h
    · rename_i hk; simp only [Option.some.injEq] at h; subst h; subst hk; simp
    · exact List.mem_cons_of_mem _ (ih h)

theorem mem_get {β : Type} (k : String) (v : β) :
    ∀ (m : AMap β), (keys m).Nodup → (k, v) ∈ m → AMap.get m k = some v := by
  intro m
  induction m with
  | nil => intro _ h; cases h
  | cons e rest ih =>
    intro hn h
    obtain ⟨k0, v0⟩ := e
    simp only [keys, List.map_cons, List.nodup_cons] at hn
    rcases List.mem_cons.mp h with e1 | e1
    · cases e1; simp [AMap.get]
    · have : k0 ≠ k := by
        intro e; subst e
        exact hn.1 (List.mem_map.mpr ⟨(k0, v), e1, rfl⟩)
      simp [AMap.get, this, ih hn.2 e1]

theorem assetsIncluded_iff (f s : AMap Int) :
    assetsIncluded f s = true ↔ ∀ e ∈ f, e.2 = 0 ∨ AMap.get s e.1 = some e.2 := by
  simp [assetsIncluded, List.all_eq_true]

theorem totA_eq_of_included (f s : AMap Int) (hf : (keys f).Nodup) (hs : (keys s).Nodup)
    (h1 : assetsIncluded f s = true) (h2 : assetsIncluded s f = true) (n : String) :
    totA f n = totA s n := by
  rw [assetsIncluded_iff] at h1 h2
  simp only [totA, sumKey_get id n f hf, sumKey_get id n s hs]
  cases hgf : AMap.get f n with
  | some a =>
    have hm := get_mem n a f hgf
    rcases h1 (n, a) hm with hz | hg
    · simp only at hz; subst hz
      cases hgs : AMap.get s n with
      | none => rfl
      | some b =>
        rcases h2 (n, b) (get_mem n b s hgs) with hz | hg
        · simp only at hz; simp [hz]
        · simp only at hg; rw [hgf] at hg; simp only [Option.some.injEq] at hg; simp [hg]
    · simp only at hg; simp [hg]
  | none =>
    cases hgs : AMap.get s n with
    | none => rfl
    | some b =>
      rcases h2 (n, b) (get_mem n b s hgs) with hz | hg
      · simp only at hz; simp [hz]
      · simp only at hg; rw [hgf] at hg; cases hg

theorem multiAssetIncluded_iff (f s : MA) :
    multiAssetIncluded f s = true ↔
      ∀ e ∈ f, ∃ sas, AMap.get s e.1 = some sas ∧ assetsIncluded e.2 sas = true := by
  simp only [multiAssetIncluded, List.all_eq_true]
  constructor
  · intro h e he
    have := h e he
    cases hg : AMap.get s e.1 with
    | none => simp [hg] at this
    | some sas => simp only [hg] at this; exact ⟨sas, rfl, this⟩
  · intro h e he
    obtain ⟨sas, hg, hi⟩ := h e he
    simp [hg, hi]

theorem tot_eq_of_equal (f s : MA) (hf : NodupMA f) (hs : NodupMA s)
    (h : multiAssetsAreEqual f s = true) (p n : String) : tot f p n = tot s p n := by
  simp only [multiAssetsAreEqual, Bool.and_eq_true] at h
  obtain ⟨h1, h2⟩ := h
  rw [multiAssetIncluded_iff] at h1 h2
  simp only [tot, sumKey_get _ p f hf.1, sumKey_get _ p s hs.1]
  cases hgf : AMap.get f p with
  | some fas =>
    have hm := get_mem p fas f hgf
    obtain ⟨sas, hgs, hi⟩ := h1 (p, fas) hm
    simp only at hgs hi
    have hm2 := get_mem p sas s hgs
    obtain ⟨fas', hgf', hi'⟩ := h2 (p, sas) hm2
    simp only at hgf' hi'
    rw [hgf] at hgf'; simp only [Option.some.injEq] at hgf'; subst hgf'
    simp only [hgs]
    exact totA_eq_of_included fas sas (hf.2 _ hm) (hs.2 _ hm2) hi hi' n
  | none =>
    cases hgs : AMap.get s p with
    | none => rfl
    | some sas =>
      obtain ⟨fas', hgf', _⟩ := h2 (p, sas) (get_mem p sas s hgs)
      simp only at hgf'; rw [hgf] at hgf'; cases hgf'

/-! ### values -/

def coinOf : Value → Int
  | .coin c => c
  | .multi c _ => c
def maOf : Value → MA
  | .coin _ => []
  | .multi _ m => m
/-- exact quantity of asset `(p, n)` carried by a value -/
def assetTot (v : Value) (p n : String) : Int := tot (maOf v) p n
/-- the multi-asset part has unique keys on both levels (true of every `BTreeMap` / `HashMap`) -/
def Norm (v : Value) : Prop := NodupMA (maOf v)

def sumCoins (vs : List Value) : Int := (vs.map coinOf).sum
def sumAssets (vs : List Value) (p n : String) : Int := (vs.map (fun v => assetTot v p n)).sum

theorem tot_nil (p n : String) : tot [] p n = 0 := rfl

theorem addLovelace_ok {a b c : Int} (h : addLovelace a b = .ok c) : c = a + b := by
  unfold addLovelace at h; split at h <;> simp_all

theorem exact_i64 : Exact addI64 R.ok := by
  refine ⟨?_, by intro a v h; cases h; rfl⟩
  intro x a v h; unfold addI64 at h; split at h <;> simp_all
theorem exact_u64 : Exact addU64 R.ok := by
  refine ⟨?_, by intro a v h; cases h; rfl⟩
  intro x a v h; unfold addU64 at h; split at h <;> simp_all
theorem exact_mint : Exact mintAdd mintFresh := by
  refine ⟨?_, ?_⟩
  · intro x a v h; unfold mintAdd at h; split at h <;> simp_all
  · intro a v h; unfold mintFresh at h; split at h <;> simp_all

theorem merge2_spec (add : Int → Int → R Int) (fresh : Int → R Int) (hex : Exact add fresh) (a b r : MA)
    (h : (mergePolicies add fresh [] a).bind (fun r => mergePolicies add fresh r b) = .ok r) :
    (∀ p n, tot r p n = tot a p n + tot b p n) ∧ NodupMA r := by
  simp only [R.bind_ok] at h
  obtain ⟨r1, h1, h2⟩ := h
  refine ⟨?_, mergePolicies_nodup add fresh b r1 r h2 (mergePolicies_nodup add fresh a [] r1 h1 nodupMA_nil)⟩
  intro p n
  rw [mergePolicies_tot add fresh hex b r1 r h2 p n, mergePolicies_tot add fresh hex a [] r1 h1 p n, tot_nil]
  omega

theorem addValues_spec (a b c : Value) (h : addValues a b = .ok c) :
    coinOf c = coinOf a + coinOf b ∧ (∀ p n, assetTot c p n = assetTot a p n + assetTot b p n) ∧
    (isMultiV a = true → Norm a → isMultiV c = true ∧ Norm c) := by
  cases a with
  | coin f =>
    cases b with
    | coin s =>
      simp only [addValues, R.map_ok] at h
      obtain ⟨x, hx, rfl⟩ := h
      refine ⟨by simp [coinOf, addLovelace_ok hx], by intro p n; simp [assetTot, maOf, tot_nil], by intro hm; simp [isMultiV] at hm⟩
    | multi s sma =>
      simp only [addValues, R.map_ok] at h
      obtain ⟨x, hx, rfl⟩ := h
      refine ⟨by simp [coinOf, addLovelace_ok hx], by intro p n; simp [assetTot, maOf, tot_nil], by intro hm; simp [isMultiV] at hm⟩
  | multi f fma =>
    cases b with
    | coin s =>
      simp only [addValues, R.map_ok] at h
      obtain ⟨x, hx, rfl⟩ := h
      refine ⟨by simp [coinOf, addLovelace_ok hx], by intro p n; simp [assetTot, maOf, tot_nil], ?_⟩
      intro _ hn; exact ⟨rfl, hn⟩
    | multi s sma =>
      simp only [addValues, R.bind_ok, R.map_ok] at h
      obtain ⟨x, hx, a', ha, b', hb, r, hr, ma, hma, rfl⟩ := h
      have e1 := coerceToI64_ok ha; have e2 := coerceToI64_ok hb; have e3 := coerceToCoin_ok hma
      subst e1; subst e2; subst e3
      obtain ⟨ht, hnd⟩ := merge2_spec addI64 R.ok exact_i64 a' b' ma hr
      refine ⟨by simp [coinOf, addLovelace_ok hx], by intro p n; simp [assetTot, maOf, ht], ?_⟩
      intro _ _; exact ⟨rfl, hnd⟩

theorem sumFrom_spec : ∀ (vs : List Value) (acc r : Value), sumFrom acc vs = .ok r →
    coinOf r = coinOf acc + sumCoins vs ∧ (∀ p n, assetTot r p n = assetTot acc p n + sumAssets vs p n) ∧
    (isMultiV acc = true → Norm acc → isMultiV r = true ∧ Norm r) := by
  intro vs
  induction vs with
  | nil =>
    intro acc r h
    simp only [sumFrom, R.ok.injEq] at h; subst h
    exact ⟨by simp [sumCoins], by intro p n; simp [sumAssets], fun a b => ⟨a, b⟩⟩
  | cons v vs ih =>
    intro acc r h
    simp only [sumFrom, R.bind_ok] at h
    obtain ⟨acc', h1, h2⟩ := h
    obtain ⟨c1, a1, n1⟩ := addValues_spec acc v acc' h1
    obtain ⟨c2, a2, n2⟩ := ih acc' r h2
    refine ⟨by simp [sumCoins] at c2 ⊢; omega, ?_, ?_⟩
    · intro p n; have := a1 p n; have := a2 p n; simp [sumAssets] at *; omega
    · intro hm hn; obtain ⟨x, y⟩ := n1 hm hn; exact n2 x y

theorem addMintedValue_spec (base c : Value) (m : MA) (h : addMintedValue base m = .ok c) :
    coinOf c = coinOf base ∧ (∀ p n, assetTot c p n = assetTot base p n + tot m p n) ∧
    (isMultiV base = true → isMultiV c = true ∧ Norm c) := by
  cases base with
  | coin n0 =>
    simp only [addMintedValue, R.map_ok] at h
    obtain ⟨ma, hma, rfl⟩ := h
    have := coerceToCoin_ok hma; subst this
    exact ⟨rfl, by intro p n; simp [assetTot, maOf, tot_nil], by intro hm; simp [isMultiV] at hm⟩
  | multi n0 b =>
    simp only [addMintedValue, R.bind_ok, R.map_ok] at h
    obtain ⟨bi, hbi, r, hr, ma, hma, rfl⟩ := h
    have e1 := coerceToI64_ok hbi; have e3 := coerceToCoin_ok hma
    subst e1; subst e3
    obtain ⟨ht, hnd⟩ := merge2_spec addI64 R.ok exact_i64 bi m ma hr
    exact ⟨rfl, by intro p n; simp [assetTot, maOf, ht], fun _ => ⟨rfl, hnd⟩⟩

theorem valuesAreEqual_spec (a b : Value) (h : valuesAreEqual a b = true) (ha : Norm a) (hb : Norm b) :
    coinOf a = coinOf b ∧ ∀ p n, assetTot a p n = assetTot b p n := by
  cases a with
  | coin f =>
    cases b with
    | coin s => simp only [valuesAreEqual, beq_iff_eq] at h; exact ⟨h, by intro p n; rfl⟩
    | multi s sma =>
      simp only [valuesAreEqual, Bool.and_eq_true, beq_iff_eq, List.isEmpty_iff] at h
      obtain ⟨h1, h2⟩ := h; subst h2
      exact ⟨h1, by intro p n; rfl⟩
  | multi f fma =>
    cases b with
    | coin s =>
      simp only [valuesAreEqual, Bool.and_eq_true, beq_iff_eq, List.isEmpty_iff] at h
      obtain ⟨h1, h2⟩ := h; subst h2
      exact ⟨h1, by intro p n; rfl⟩
    | multi s sma =>
      simp only [valuesAreEqual] at h
      split at h
      · cases h
      · rename_i hfs
        simp only [bne_iff_ne, ne_eq, Decidable.not_not] at hfs
        exact ⟨hfs, fun p n => tot_eq_of_equal fma sma ha hb h p n⟩

/-! ### Conway -/

theorem retainAssets_tot : ∀ (as : AMap Int) (n : String), totA (retainAssets as) n = totA as n := by
  intro as
  induction as with
  | nil => intro n; rfl
  | cons e rest ih =>
    intro n
    obtain ⟨k, a⟩ := e
    unfold retainAssets
    split
    · simp only [totA, sumKey] at ih ⊢; rw [ih n]
    · rename_i hz
      simp only [bne_iff_ne, ne_eq, Decidable.not_not] at hz
      subst hz
      simp only [totA, sumKey] at ih ⊢; rw [ih n]; simp

theorem retainAssets_keys : ∀ (as : AMap Int) (k : String), k ∈ keys (retainAssets as) → k ∈ keys as := by
  intro as
  induction as with
  | nil => intro k h; exact h
  | cons e rest ih =>
    intro k h
    obtain ⟨k0, a⟩ := e
    unfold retainAssets at h
    split at h
    · simp only [keys, List.map_cons, List.mem_cons] at h ⊢
      rcases h with h | h
      · exact Or.inl h
      · exact Or.inr (ih k h)
    · simp only [keys, List.map_cons, List.mem_cons]; exact Or.inr (ih k h)

theorem retainAssets_nodup : ∀ (as : AMap Int), (keys as).Nodup → (keys (retainAssets as)).Nodup := by
  intro as
  induction as with
  | nil => intro h; exact h
  | cons e rest ih =>
    intro h
    obtain ⟨k0, a⟩ := e
    simp only [keys, List.map_cons, List.nodup_cons] at h
    unfold retainAssets
    split
    · simp only [keys, List.map_cons, List.nodup_cons]
      exact ⟨fun hm => h.1 (retainAssets_keys rest k0 hm), ih h.2⟩
    · exact ih h.2

theorem retainPositive_tot : ∀ (m : MA) (p n : String), tot (retainPositive m) p n = tot m p n := by
  intro m
  induction m with
  | nil => intro p n; rfl
  | cons e rest ih =>
    intro p n
    obtain ⟨p0, as⟩ := e
    unfold retainPositive
    split
    · rename_i hemp
      have h0 : totA as n = 0 := by
        rw [← retainAssets_tot as n]
        simp only [List.isEmpty_iff] at hemp
        rw [hemp]; rfl
      simp only [tot, sumKey] at ih ⊢
      rw [ih p n, h0]; simp
    · simp only [tot, sumKey] at ih ⊢
      rw [ih p n, retainAssets_tot as n]

theorem retainPositive_keys : ∀ (m : MA) (k : String), k ∈ keys (retainPositive m) → k ∈ keys m := by
  intro m
  induction m with
  | nil => intro k h; exact h
  | cons e rest ih =>
    intro k h
    obtain ⟨p0, as⟩ := e
    unfold retainPositive at h
    split at h
    · simp only [keys, List.map_cons, List.mem_cons]; exact Or.inr (ih k h)
    · simp only [keys, List.map_cons, List.mem_cons] at h ⊢
      rcases h with h | h
      · exact Or.inl h
      · exact Or.inr (ih k h)

theorem retainPositive_nodup : ∀ (m : MA), NodupMA m → NodupMA (retainPositive m) := by
  intro m
  induction m with
  | nil => intro h; exact h
  | cons e rest ih =>
    intro h
    obtain ⟨p0, as⟩ := e
    have hk := h.1
    simp only [keys, List.map_cons, List.nodup_cons] at hk
    have hrest : NodupMA rest := ⟨hk.2, fun e he => h.2 e (List.mem_cons_of_mem _ he)⟩
    have ih' := ih hrest
    unfold retainPositive
    split
    · exact ih'
    · refine ⟨?_, ?_⟩
      · simp only [keys, List.map_cons, List.nodup_cons]
        exact ⟨fun hm => hk.1 (retainPositive_keys rest p0 hm), ih'.1⟩
      · intro e he
        rcases List.mem_cons.mp he with e1 | e1
        · subst e1; exact retainAssets_nodup as (h.2 (p0, as) (by simp))
        · exact ih'.2 e e1

theorem conwayAddValues_spec (a b c : Value) (h : conwayAddValues a b = .ok c) :
    coinOf c = coinOf a + coinOf b ∧ (∀ p n, assetTot c p n = assetTot a p n + assetTot b p n) ∧
    (Norm a → Norm b → Norm c) := by
  cases a with
  | coin f =>
    cases b with
    | coin s =>
      simp only [conwayAddValues, R.map_ok] at h
      obtain ⟨x, hx, rfl⟩ := h
      exact ⟨by simp [coinOf, addLovelace_ok hx], by intro p n; simp [assetTot, maOf, tot_nil], fun _ _ => nodupMA_nil⟩
    | multi s sma =>
      simp only [conwayAddValues, R.map_ok] at h
      obtain ⟨x, hx, rfl⟩ := h
      exact ⟨by simp [coinOf, addLovelace_ok hx], by intro p n; simp [assetTot, maOf, tot_nil], fun _ hb => hb⟩
  | multi f fma =>
    cases b with
    | coin s =>
      simp only [conwayAddValues, R.map_ok] at h
      obtain ⟨x, hx, rfl⟩ := h
      exact ⟨by simp [coinOf, addLovelace_ok hx], by intro p n; simp [assetTot, maOf, tot_nil], fun ha _ => ha⟩
    | multi s sma =>
      simp only [conwayAddValues, conwayAddMultiassetValues, R.bind_ok, R.map_ok] at h
      obtain ⟨x, hx, r, hr, ma, hma, rfl⟩ := h
      have e3 := conwayCoerceToCoin_ok hma; subst e3
      obtain ⟨ht, hnd⟩ := merge2_spec addU64 R.ok exact_u64 fma sma ma (by simpa [R.bind_ok] using hr)
      exact ⟨by simp [coinOf, addLovelace_ok hx], by intro p n; simp [assetTot, maOf, ht], fun _ _ => hnd⟩

theorem conwaySumFrom_spec : ∀ (vs : List Value) (acc r : Value), conwaySumFrom acc vs = .ok r →
    coinOf r = coinOf acc + sumCoins vs ∧ (∀ p n, assetTot r p n = assetTot acc p n + sumAssets vs p n) ∧
    (Norm acc → (∀ v ∈ vs, Norm v) → Norm r) := by
  intro vs
  induction vs with
  | nil =>
    intro acc r h
    simp only [conwaySumFrom, R.ok.injEq] at h; subst h
    exact ⟨by simp [sumCoins], by intro p n; simp [sumAssets], fun a _ => a⟩
  | cons v vs ih =>
    intro acc r h
    simp only [conwaySumFrom, R.bind_ok] at h
    obtain ⟨acc', h1, h2⟩ := h
    obtain ⟨c1, a1, n1⟩ := conwayAddValues_spec acc v acc' h1
    obtain ⟨c2, a2, n2⟩ := ih acc' r h2
    refine ⟨by simp [sumCoins] at c2 ⊢; omega, ?_, ?_⟩
    · intro p n; have := a1 p n; have := a2 p n; simp [sumAssets] at *; omega
    · intro hn hall
      exact n2 (n1 hn (hall v (by simp))) (fun w hw => hall w (List.mem_cons_of_mem _ hw))

theorem conwayAddMintedNonZero_spec (base c : Value) (m : MA) (h : conwayAddMintedNonZero base m = .ok c) :
    coinOf c = coinOf base ∧ (∀ p n, assetTot c p n = assetTot base p n + tot m p n) ∧
    (NodupMA m → Norm c) := by
  cases base with
  | coin n0 =>
    simp only [conwayAddMintedNonZero, R.map_ok] at h
    obtain ⟨ma, hma, rfl⟩ := h
    have := conwayCoerceToNonZeroCoin_ok hma; subst this
    exact ⟨rfl, by intro p n; simp [assetTot, maOf, tot_nil], fun hm => hm⟩
  | multi n0 b =>
    simp only [conwayAddMintedNonZero, conwayAddMultiassetNonNegativeValues, R.bind_ok, R.map_ok] at h
    obtain ⟨r, ⟨r1, hr1, r2, hr2, rfl⟩, ma, hma, rfl⟩ := h
    have e3 := conwayCoerceToCoin_ok hma; subst e3
    have ht1 := mergePolicies_tot addU64 R.ok exact_u64 b [] r1 hr1
    have ht2 := mergePolicies_tot mintAdd mintFresh exact_mint m r1 r2 hr2
    have hn2 := mergePolicies_nodup mintAdd mintFresh m r1 r2 hr2 (mergePolicies_nodup addU64 R.ok b [] r1 hr1 nodupMA_nil)
    refine ⟨rfl, ?_, fun _ => retainPositive_nodup r2 hn2⟩
    intro p n
    simp only [assetTot, maOf, retainPositive_tot, ht2 p n, ht1 p n, tot_nil]
    omega

theorem sumShelley_ok : ∀ (vs : List Value) (sh : Bool) (acc r : Value),
    sumShelley sh acc vs = .ok r → sumFrom acc vs = .ok r := by
  intro vs
  induction vs with
  | nil => intro sh acc r h; simp only [sumShelley, SR.ok.injEq] at h; subst h; rfl
  | cons v vs ih =>
    intro sh acc r h
    unfold sumShelley at h
    split at h
    · cases h
    · split at h
      · rename_i a ha
        simp only [sumFrom, R.bind_ok]
        exact ⟨a, ha, ih sh a r h⟩
      · cases h
      · cases h

theorem resOf_ok {r : R Bool} (h : resOf r = .ok) : r = .ok true := by
  unfold resOf at h
  split at h <;> simp_all

theorem sumU64_spec : ∀ (xs : List Int) (acc r : Int), sumU64 acc xs = some r → r = acc + xs.sum := by
  intro xs
  induction xs with
  | nil => intro acc r h; simp only [sumU64, Option.some.injEq] at h; simp [h]
  | cons x xs ih =>
    intro acc r h
    unfold sumU64 at h
    split at h
    · cases h
    · have := ih (acc + x) r h; simp only [List.sum_cons]; omega

@[simp] theorem coinOf_coin (c : Int) : coinOf (.coin c) = c := rfl
@[simp] theorem assetTot_coin (c : Int) (p n : String) : assetTot (.coin c) p n = 0 := rfl
theorem sumCoins_cons (v : Value) (vs : List Value) : sumCoins (v :: vs) = coinOf v + sumCoins vs := by
  simp [sumCoins]
theorem sumAssets_cons (v : Value) (vs : List Value) (p n : String) :
    sumAssets (v :: vs) p n = assetTot v p n + sumAssets vs p n := by
  simp [sumAssets]

end PallasVerif.Value
