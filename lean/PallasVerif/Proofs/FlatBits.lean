import PallasVerif.Model.Flat
/-!
  Bit-level facts used by the refinement proofs of the flat encoder / decoder (`Props/C01`).
  `byteBits b` is the byte most-significant bit first; `bitsOf` the bit string of a byte string.
  Every shift/or/and expression of `encoder.rs` / `decoder.rs` is characterised as an operation on
  these lists. Proofs split on the (at most 8·9) concrete shift amounts and leave the bytes symbolic.
-/
namespace PallasVerif.Flat
open BitVec

def byteBits (b : Byte) : List Bool :=
  [b.getMsbD 0, b.getMsbD 1, b.getMsbD 2, b.getMsbD 3, b.getMsbD 4, b.getMsbD 5, b.getMsbD 6, b.getMsbD 7]

def bitsOf (bs : List Byte) : List Bool := bs.flatMap byteBits

@[simp] theorem byteBits_length (b : Byte) : (byteBits b).length = 8 := rfl

theorem byteBits_inj {a b : Byte} (h : byteBits a = byteBits b) : a = b := by
  apply eq_of_getMsbD_eq
  intro i hi
  simp only [byteBits, List.cons.injEq, and_true] at h
  obtain ⟨h0, h1, h2, h3, h4, h5, h6, h7⟩ := h
  have : i = 0 ∨ i = 1 ∨ i = 2 ∨ i = 3 ∨ i = 4 ∨ i = 5 ∨ i = 6 ∨ i = 7 := by omega
  rcases this with rfl | rfl | rfl | rfl | rfl | rfl | rfl | rfl <;> assumption

@[simp] theorem bitsOf_nil : bitsOf [] = [] := rfl
@[simp] theorem bitsOf_cons (b : Byte) (bs : List Byte) : bitsOf (b :: bs) = byteBits b ++ bitsOf bs := rfl
@[simp] theorem bitsOf_append (xs ys : List Byte) : bitsOf (xs ++ ys) = bitsOf xs ++ bitsOf ys := by
  simp [bitsOf]

@[simp] theorem bitsOf_length (bs : List Byte) : (bitsOf bs).length = 8 * bs.length := by
  induction bs with
  | nil => rfl
  | cons b bs ih => simp [ih]; omega

theorem bitsOf_drop (bs : List Byte) (k : Nat) : (bitsOf bs).drop (8 * k) = bitsOf (bs.drop k) := by
  induction k generalizing bs with
  | zero => simp
  | succ k ih =>
    cases bs with
    | nil => simp
    | cons b bs =>
      have : 8 * (k + 1) = 8 + 8 * k := by omega
      rw [this, bitsOf_cons, List.drop_append]
      simp [ih]

/-- a bit string that starts with the bits of `ys` comes from a byte string that starts with `ys` -/
theorem bitsOf_prefix (xs ys : List Byte) (rest : List Bool) (h : bitsOf xs = bitsOf ys ++ rest) :
    ∃ zs, xs = ys ++ zs ∧ rest = bitsOf zs := by
  induction ys generalizing xs with
  | nil => exact ⟨xs, rfl, by simpa using h.symm⟩
  | cons y ys ih =>
    cases xs with
    | nil =>
      have := congrArg List.length h
      simp at this
      omega
    | cons x xs =>
      simp only [bitsOf_cons, List.append_assoc] at h
      obtain ⟨h1, h2⟩ := List.append_inj h (by simp)
      obtain ⟨zs, hz, hr⟩ := ih xs h2
      exact ⟨zs, by rw [byteBits_inj h1, hz]; rfl, hr⟩

/-! ### the byte expressions of the encoder -/

/-- bits `u..7` of the byte are zero -/
def LowZero (u : Nat) (cur : Byte) : Prop := (byteBits cur).drop u = List.replicate (8 - u) false

theorem eight_cases {u : Nat} (h : u < 8) : u = 0 ∨ u = 1 ∨ u = 2 ∨ u = 3 ∨ u = 4 ∨ u = 5 ∨ u = 6 ∨ u = 7 := by
  omega

theorem nine_cases {u : Nat} (h : u ≤ 8) :
    u = 0 ∨ u = 1 ∨ u = 2 ∨ u = 3 ∨ u = 4 ∨ u = 5 ∨ u = 6 ∨ u = 7 ∨ u = 8 := by
  omega

/-- `current_byte | (x >> used_bits)` -/
theorem byteBits_or_ushr (u : Nat) (hu : u ≤ 8) (cur x : Byte) (h : LowZero u cur) :
    byteBits (cur ||| (x >>> u)) = (byteBits cur).take u ++ (byteBits x).take (8 - u) := by
  rcases nine_cases hu with rfl | rfl | rfl | rfl | rfl | rfl | rfl | rfl | rfl <;>
    simp_all [LowZero, byteBits, getMsbD_or, getMsbD_ushiftRight]

/-- `x << k` -/
theorem byteBits_shl (k : Nat) (hk : k ≤ 8) (x : Byte) :
    byteBits (x <<< k) = (byteBits x).drop k ++ List.replicate k false := by
  rcases nine_cases hk with rfl | rfl | rfl | rfl | rfl | rfl | rfl | rfl | rfl <;>
    simp [byteBits, getMsbD_shiftLeft, List.replicate, getMsbD_of_ge]

/-- `current_byte | (128 >> used_bits)` sets bit `used_bits` -/
theorem byteBits_or_bit (u : Nat) (hu : u < 8) (cur : Byte) (h : LowZero u cur) :
    byteBits (cur ||| (128#8 >>> u)) = (byteBits cur).take u ++ true :: List.replicate (7 - u) false := by
  rcases eight_cases hu with rfl | rfl | rfl | rfl | rfl | rfl | rfl | rfl <;>
    simp_all [LowZero, byteBits, getMsbD_or, List.replicate] <;> decide

/-- `current_byte | 1` sets bit 7 -/
theorem byteBits_or_one (cur : Byte) :
    byteBits (cur ||| 1#8) = (byteBits cur).take 7 ++ [true] := by
  simp [byteBits, getMsbD_or, getMsbD_one]

theorem lowZero_zero : LowZero 0 0#8 := by simp [LowZero, byteBits, List.replicate]

theorem lowZero_take (u : Nat) (cur : Byte) (h : LowZero u cur) :
    byteBits cur = (byteBits cur).take u ++ List.replicate (8 - u) false := by
  unfold LowZero at h
  rw [← h, List.take_append_drop]

/-! ### the byte expressions of the decoder -/

/-- `buffer[pos] & (128 >> used_bits) != 0` tests bit `used_bits` -/
theorem and_bit_ne_zero (u : Nat) (hu : u < 8) (b : Byte) :
    decide ((b &&& (128#8 >>> u)) ≠ 0#8) = b.getMsbD u := by
  have h : ∀ c : Byte, c ≠ 0#8 ↔ (byteBits c ≠ byteBits 0#8) := fun c =>
    ⟨fun hc hb => hc (byteBits_inj hb), fun hc hb => hc (by rw [hb])⟩
  rcases eight_cases hu with rfl | rfl | rfl | rfl | rfl | rfl | rfl | rfl <;>
  · cases hb : b.getMsbD _ <;>
      simp [h, byteBits, getMsbD_and, hb] <;> decide

/-- `bits8`, value when all `n` bits come from the current byte -/
theorem bits8_val_one (u n : Nat) (hu : u < 8) (hn1 : 1 ≤ n) (hn : n ≤ 8 - u) (b0 : Byte) :
    byteBits ((b0 <<< u) >>> (8 - n)) =
      List.replicate (8 - n) false ++ ((byteBits b0).drop u).take n := by
  rcases eight_cases hu with rfl | rfl | rfl | rfl | rfl | rfl | rfl | rfl <;>
  · have hn8 : n = 1 ∨ n = 2 ∨ n = 3 ∨ n = 4 ∨ n = 5 ∨ n = 6 ∨ n = 7 ∨ n = 8 := by omega
    rcases hn8 with rfl | rfl | rfl | rfl | rfl | rfl | rfl | rfl <;>
      first
      | omega
      | simp [byteBits, getMsbD_ushiftRight, getMsbD_shiftLeft, List.replicate]

/-- `bits8`, value when the bits straddle two bytes -/
theorem bits8_val_two (u n : Nat) (hu : u < 8) (hn8 : n ≤ 8) (hn : n > 8 - u) (b0 b1 : Byte) :
    byteBits ((b0 <<< u) >>> (8 - n) ||| (b1 >>> (8 - u + (8 - n)))) =
      List.replicate (8 - n) false ++ ((byteBits b0).drop u ++ byteBits b1).take n := by
  rcases eight_cases hu with rfl | rfl | rfl | rfl | rfl | rfl | rfl | rfl <;>
  · have hn8 : n = 1 ∨ n = 2 ∨ n = 3 ∨ n = 4 ∨ n = 5 ∨ n = 6 ∨ n = 7 ∨ n = 8 := by omega
    rcases hn8 with rfl | rfl | rfl | rfl | rfl | rfl | rfl | rfl <;>
      first
      | omega
      | simp [byteBits, getMsbD_or, getMsbD_ushiftRight, getMsbD_shiftLeft, List.replicate, getMsbD_of_ge]

end PallasVerif.Flat
