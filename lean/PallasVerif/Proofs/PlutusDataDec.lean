import PallasVerif.Model.PlutusDataDec
import PallasVerif.Proofs.Cbor
import PallasVerif.Proofs.PlutusDataCodec
/-!
  The byte-level PlutusData decoder (`Model/PlutusDataDec.lean`, transcription of the Rust `Decode`
  impls over minicbor's primitives) refines the concrete-syntax-tree decoder `ofItem`:
  on the encoding of every well-formed tree that `ofItem` accepts it returns the same value and
  exactly the bytes after the item (`decP_refines`).
-/
namespace PallasVerif.PlutusData.Dec
open PallasVerif.Cbor PallasVerif.PlutusData
set_option linter.unusedSimpArgs false

/-! ## primitives on an encoded head -/

theorem head_byte (m ai : Nat) (hm : m < 8) (hai : ai < 32) :
    (initByte m ai).toNat / 32 = m ∧ (initByte m ai).toNat % 32 = ai := by
  rw [initByte_toNat m ai hm hai]; omega

theorem readSlice_append (a r : Bytes) : readSlice a.length (a ++ r) = some (a, r) := by
  simp [readSlice]

theorem argLen_cases (ai n : Nat) (h : argLen ai = some n) (h31 : ai ≠ 31) :
    (ai < 24 ∧ n = 0) ∨ (ai = 24 ∧ n = 1) ∨ (ai = 25 ∧ n = 2) ∨ (ai = 26 ∧ n = 4) ∨ (ai = 27 ∧ n = 8) := by
  unfold argLen at h
  by_cases h0 : ai < 24
  · simp [h0] at h; exact .inl ⟨h0, h.symm⟩
  · by_cases h1 : ai = 24
    · simp [h1] at h; exact .inr (.inl ⟨h1, h.symm⟩)
    · by_cases h2 : ai = 25
      · simp [h2] at h; exact .inr (.inr (.inl ⟨h2, h.symm⟩))
      · by_cases h3 : ai = 26
        · simp [h3] at h; exact .inr (.inr (.inr (.inl ⟨h3, h.symm⟩)))
        · by_cases h4 : ai = 27
          · simp [h4] at h; exact .inr (.inr (.inr (.inr ⟨h4, h.symm⟩)))
          · simp [h0, h1, h2, h3, h4, h31] at h

theorem unsigned_arg (h : Head) (hw : h.wf = true) (hai : h.ai ≠ 31) (r : Bytes) :
    unsigned h.ai (h.arg ++ r) = some (h.val, r) := by
  rw [Head.wf_iff] at hw
  obtain ⟨_, _, hl⟩ := hw
  unfold unsigned Head.val
  rcases argLen_cases _ _ hl hai with ⟨a, l⟩ | ⟨a, l⟩ | ⟨a, l⟩ | ⟨a, l⟩ | ⟨a, l⟩
  · have : h.arg = [] := List.eq_nil_of_length_eq_zero l
    simp [a, this]
  · simp only [a]; rw [← l, readSlice_append]; simp
  · simp only [a]; rw [← l, readSlice_append]; simp
  · simp only [a]; rw [← l, readSlice_append]; simp
  · simp only [a]; rw [← l, readSlice_append]; simp

theorem readHead_encode (h : Head) (hw : h.wf = true) (hai : h.ai ≠ 31) (r : Bytes) :
    readHead h.major (h.encode ++ r) = some (h.val, r) := by
  have hw' := (Head.wf_iff h).1 hw
  obtain ⟨b1, b2⟩ := head_byte h.major h.ai hw'.1 hw'.2.1
  simp only [Head.encode, List.cons_append, readHead, b1, b2, if_true]
  exact unsigned_arg h hw hai r

theorem readHead_other (h : Head) (hw : h.wf = true) (m : Nat) (hm : h.major ≠ m) (r : Bytes) :
    readHead m (h.encode ++ r) = none := by
  have hw' := (Head.wf_iff h).1 hw
  obtain ⟨b1, _⟩ := head_byte h.major h.ai hw'.1 hw'.2.1
  simp [Head.encode, readHead, b1, hm]

/-- `typeOfByte` in terms of major type and additional info -/
def tyOf (major ai : Nat) (restEmpty : Bool) : Option Ty :=
  if major = 0 then (if ai ≤ 27 then some .int else some .other)
  else if major = 1 then (if ai < 24 then some .int else if ai ≤ 27 then (if restEmpty then none else some .int) else some .other)
  else if major = 2 then (if ai ≤ 27 then some .bytes else if ai = 31 then some .bytesIndef else some .other)
  else if major = 4 then (if ai ≤ 27 then some .array else if ai = 31 then some .arrayIndef else some .other)
  else if major = 5 then (if ai ≤ 27 then some .map else if ai = 31 then some .mapIndef else some .other)
  else if major = 6 then (if ai ≤ 27 then some .tag else some .other)
  else some .other

theorem typeOfByte_eq : ∀ n, n < 256 → ∀ e : Bool, typeOfByte n e = tyOf (n / 32) (n % 32) e := by
  decide +kernel

theorem datatype_byte (m ai : Nat) (hm : m < 8) (hai : ai < 32) (rest : Bytes) :
    datatype (initByte m ai :: rest) = tyOf m ai rest.isEmpty := by
  obtain ⟨b1, b2⟩ := head_byte m ai hm hai
  simp only [datatype]
  rw [typeOfByte_eq _ (initByte m ai).toNat_lt, b1, b2]

theorem datatype_head (h : Head) (hw : h.wf = true) (r : Bytes) :
    datatype (h.encode ++ r) = tyOf h.major h.ai (h.arg ++ r).isEmpty := by
  have hw' := (Head.wf_iff h).1 hw
  simp only [Head.encode, List.cons_append]
  exact datatype_byte h.major h.ai hw'.1 hw'.2.1 _

/-! ## byte strings -/

theorem readBytes_chunk (h : Head) (bs r : Bytes) (hw : chunkWf 2 (h, bs) = true) :
    readBytes (h.encode ++ bs ++ r) = some (bs, r) := by
  simp only [chunkWf, Bool.and_eq_true, decide_eq_true_eq] at hw
  obtain ⟨⟨⟨hwf, hm⟩, hai⟩, hlen⟩ := hw
  have hw' := (Head.wf_iff h).1 hwf
  obtain ⟨b1, b2⟩ := head_byte h.major h.ai hw'.1 hw'.2.1
  have hu := unsigned_arg h hwf hai (bs ++ r)
  rw [hm] at b1 b2
  simp only [Head.encode, List.cons_append, List.append_assoc, readBytes, hm, b1, b2, hai, ne_eq,
    not_false_eq_true, and_self, if_true, hu]
  rw [← hlen, readSlice_append]

theorem readChunks_encode (cs : List (Head × Bytes)) : ∀ (fuel : Nat) (r : Bytes),
    chunksWf 2 cs = true → cs.length + 1 ≤ fuel →
    readChunks fuel (encodeChunks cs ++ 0xff :: r) = some (chunksPayload cs, r) := by
  induction cs with
  | nil =>
    intro fuel r _ hf
    obtain ⟨f, rfl⟩ : ∃ f, fuel = f + 1 := ⟨fuel - 1, by omega⟩
    simp [encodeChunks, readChunks, chunksPayload]
  | cons c cs ih =>
    intro fuel r hw hf
    obtain ⟨h, bs⟩ := c
    obtain ⟨f, rfl⟩ : ∃ f, fuel = f + 1 := ⟨fuel - 1, by omega⟩
    simp only [chunksWf, Bool.and_eq_true] at hw
    have hc := hw.1
    simp only [chunkWf, Bool.and_eq_true, decide_eq_true_eq] at hc
    obtain ⟨⟨⟨hwf, hm⟩, hai⟩, _⟩ := hc
    have hw' := (Head.wf_iff h).1 hwf
    have hne : initByte h.major h.ai ≠ 0xff := initByte_ne_break _ _ hw'.1 hw'.2.1 (by omega)
    have hrb := readBytes_chunk h bs (encodeChunks cs ++ 0xff :: r) hw.1
    have henc : encodeChunks ((h, bs) :: cs) ++ 0xff :: r
        = initByte h.major h.ai :: (h.arg ++ (bs ++ (encodeChunks cs ++ 0xff :: r))) := by
      simp [encodeChunks, Head.encode, List.append_assoc]
    have hrb' : readBytes (initByte h.major h.ai :: (h.arg ++ (bs ++ (encodeChunks cs ++ 0xff :: r))))
        = some (bs, encodeChunks cs ++ 0xff :: r) := by
      simpa [Head.encode, List.append_assoc] using hrb
    rw [henc]
    simp only [readChunks, hne, if_false, hrb', ih f r hw.2 (by simp at hf; omega), chunksPayload]

/-- fuel the byte-level decoder needs for the encoding of a tree -/
def strFuel : Item → Nat
  | .strIndef _ cs => cs.length + 1
  | _ => 0

theorem decBounded_refines (i : Item) (bs r : Bytes) (fuel : Nat) (hw : i.wf = true)
    (hp : i.strPayload? 2 = some bs) (hf : strFuel i ≤ fuel) :
    decBounded fuel (i.encode ++ r) = some (bs, r) := by
  cases i with
  | str h b =>
    simp only [Item.strPayload?] at hp
    split at hp
    · rename_i hm
      simp only [Option.some.injEq] at hp; subst hp
      simp only [Item.wf, Bool.and_eq_true, decide_eq_true_eq] at hw
      obtain ⟨⟨⟨hwf, _⟩, hai⟩, hlen⟩ := hw
      have hw' := (Head.wf_iff h).1 hwf
      obtain ⟨b1, b2⟩ := head_byte h.major h.ai hw'.1 hw'.2.1
      have hu := unsigned_arg h hwf hai (b ++ r)
      rw [hm] at b1 b2
      simp only [Item.encode, Head.encode, List.cons_append, List.append_assoc, decBounded, hm, b1, b2, hai,
        if_true, if_false, hu]
      rw [← hlen, readSlice_append]
    · simp at hp
  | strIndef m cs =>
    simp only [Item.strPayload?] at hp
    split at hp
    · rename_i hm
      subst hm
      simp only [Option.some.injEq] at hp; subst hp
      simp only [Item.wf, Bool.and_eq_true] at hw
      obtain ⟨b1, b2⟩ := head_byte 2 31 (by decide) (by decide)
      simp only [Item.encode, List.cons_append, List.append_assoc, decBounded, b1, b2, if_true]
      exact readChunks_encode cs fuel r hw.2 hf
    · simp at hp
  | atom _ => simp [Item.strPayload?] at hp
  | seq _ _ => simp [Item.strPayload?] at hp
  | seqIndef _ _ => simp [Item.strPayload?] at hp
  | tag _ _ => simp [Item.strPayload?] at hp

/-! ## sequence heads -/

theorem wf_ai_le (h : Head) (hw : h.wf = true) (hai : h.ai ≠ 31) : h.ai ≤ 27 := by
  have hw' := (Head.wf_iff h).1 hw
  rcases argLen_cases _ _ hw'.2.2 hai with ⟨a, _⟩ | ⟨a, _⟩ | ⟨a, _⟩ | ⟨a, _⟩ | ⟨a, _⟩ <;> omega

theorem readSeqHead_def (h : Head) (hw : h.wf = true) (hai : h.ai ≠ 31) (r : Bytes) :
    readSeqHead h.major (h.encode ++ r) = some (some h.val, r) := by
  have hw' := (Head.wf_iff h).1 hw
  obtain ⟨b1, b2⟩ := head_byte h.major h.ai hw'.1 hw'.2.1
  simp only [Head.encode, List.cons_append, readSeqHead, b1, b2, if_true, hai, if_false,
    unsigned_arg h hw hai r, Option.map_some]

theorem readSeqHead_indef (m : Nat) (hm : m < 8) (r : Bytes) :
    readSeqHead m (initByte m 31 :: r) = some (none, r) := by
  obtain ⟨b1, b2⟩ := head_byte m 31 hm (by decide)
  simp [readSeqHead, b1, b2]

theorem datatype_def (h : Head) (hw : h.wf = true) (hai : h.ai ≠ 31) (r : Bytes) (m : Nat) (hm : h.major = m)
    (hm1 : m ≠ 1) : datatype (h.encode ++ r) = tyOf m h.ai false := by
  rw [datatype_head h hw r, hm]
  have := wf_ai_le h hw hai
  unfold tyOf
  simp [hm1]

theorem datatype_indef (m : Nat) (hm : m < 8) (r : Bytes) :
    datatype (initByte m 31 :: r) = tyOf m 31 false := by
  rw [datatype_byte m 31 hm (by decide)]
  unfold tyOf
  have : m = 0 ∨ m = 1 ∨ m = 2 ∨ m = 3 ∨ m = 4 ∨ m = 5 ∨ m = 6 ∨ m = 7 := by omega
  rcases this with rfl | rfl | rfl | rfl | rfl | rfl | rfl | rfl <;> simp

/-- definite array: `Vec` decode and `MaybeIndefArray` decode from the element decoder's result -/
theorem decVec_def (h : Head) (xs : List Item) (ds : List PData) (f : Nat) (r : Bytes)
    (hw : (Item.seq h xs).wf = true) (hm : h.major = 4)
    (hN : decN f xs.length (encodeList xs ++ r) = some (ds, r)) :
    decVec (f + 1) ((Item.seq h xs).encode ++ r) = some (ds, r) ∧
    decMaybeIndef (f + 2) ((Item.seq h xs).encode ++ r) = some ((true, ds), r) ∧
    datatype ((Item.seq h xs).encode ++ r) = some .array := by
  simp only [Item.wf, Bool.and_eq_true, decide_eq_true_eq] at hw
  obtain ⟨⟨⟨⟨hwf, _⟩, hai⟩, hlen⟩, _⟩ := hw
  have hval : h.val = xs.length := by simp [seqCount, hm] at hlen; exact hlen.symm
  have hrs := readSeqHead_def h hwf hai (encodeList xs ++ r)
  rw [hm] at hrs
  have hdt : datatype ((Item.seq h xs).encode ++ r) = some .array := by
    have := datatype_def h hwf hai (encodeList xs ++ r) 4 hm (by decide)
    have hle := wf_ai_le h hwf hai
    simp only [Item.encode, List.append_assoc]
    rw [this]; simp [tyOf, hle]
  have hv : decVec (f + 1) ((Item.seq h xs).encode ++ r) = some (ds, r) := by
    simp only [Item.encode, List.append_assoc, decVec, hrs, hval, hN]
  exact ⟨hv, by simp only [decMaybeIndef, hdt, hv, Option.map_some], hdt⟩

theorem decVec_indef (xs : List Item) (ds : List PData) (f : Nat) (r : Bytes)
    (hB : decBreak f (encodeList xs ++ 0xff :: r) = some (ds, r)) :
    decVec (f + 1) ((Item.seqIndef 4 xs).encode ++ r) = some (ds, r) ∧
    decMaybeIndef (f + 2) ((Item.seqIndef 4 xs).encode ++ r) = some ((false, ds), r) ∧
    datatype ((Item.seqIndef 4 xs).encode ++ r) = some .arrayIndef := by
  have hrs := readSeqHead_indef 4 (by decide) (encodeList xs ++ 0xff :: r)
  have hdt : datatype ((Item.seqIndef 4 xs).encode ++ r) = some .arrayIndef := by
    simp only [Item.encode, List.cons_append, List.append_assoc]
    rw [datatype_indef 4 (by decide)]; simp [tyOf]
  have hv : decVec (f + 1) ((Item.seqIndef 4 xs).encode ++ r) = some (ds, r) := by
    simp only [Item.encode, List.cons_append, List.append_assoc, List.nil_append, decVec]
    rw [hrs]; exact hB
  exact ⟨hv, by simp only [decMaybeIndef, hdt, hv, Option.map_some], hdt⟩

theorem decKvs_def (h : Head) (xs : List Item) (kvs : List (PData × PData)) (f : Nat) (r : Bytes)
    (hw : (Item.seq h xs).wf = true) (hm : h.major = 5)
    (hN : decPairsN f (xs.length / 2) (encodeList xs ++ r) = some (kvs, r)) :
    decKvs (f + 1) ((Item.seq h xs).encode ++ r) = some (kvs, r) ∧
    datatype ((Item.seq h xs).encode ++ r) = some .map := by
  simp only [Item.wf, Bool.and_eq_true, decide_eq_true_eq] at hw
  obtain ⟨⟨⟨⟨hwf, _⟩, hai⟩, hlen⟩, _⟩ := hw
  have hval : h.val = xs.length / 2 := by simp [seqCount, hm] at hlen; omega
  have hrs := readSeqHead_def h hwf hai (encodeList xs ++ r)
  rw [hm] at hrs
  have hdt : datatype ((Item.seq h xs).encode ++ r) = some .map := by
    have := datatype_def h hwf hai (encodeList xs ++ r) 5 hm (by decide)
    have hle := wf_ai_le h hwf hai
    simp only [Item.encode, List.append_assoc]
    rw [this]; simp [tyOf, hle]
  exact ⟨by simp only [Item.encode, List.append_assoc, decKvs, hrs, hval, hN], hdt⟩

theorem decKvs_indef (xs : List Item) (kvs : List (PData × PData)) (f : Nat) (r : Bytes)
    (hB : decPairsBreak f (encodeList xs ++ 0xff :: r) = some (kvs, r)) :
    decKvs (f + 1) ((Item.seqIndef 5 xs).encode ++ r) = some (kvs, r) ∧
    datatype ((Item.seqIndef 5 xs).encode ++ r) = some .mapIndef := by
  have hrs := readSeqHead_indef 5 (by decide) (encodeList xs ++ 0xff :: r)
  have hdt : datatype ((Item.seqIndef 5 xs).encode ++ r) = some .mapIndef := by
    simp only [Item.encode, List.cons_append, List.append_assoc]
    rw [datatype_indef 5 (by decide)]; simp [tyOf]
  refine ⟨?_, hdt⟩
  simp only [Item.encode, List.cons_append, List.append_assoc, List.nil_append, decKvs]
  rw [hrs]; exact hB

/-! ## fuel -/

mutual
def dsize : Item → Nat
  | .atom _ => 1
  | .str _ _ => 1
  | .strIndef _ cs => cs.length + 2
  | .seq _ xs => dsizes xs + 2
  | .seqIndef _ xs => dsizes xs + 3
  | .tag _ i => dsize i + 3
def dsizes : List Item → Nat
  | [] => 0
  | x :: xs => dsize x + dsizes xs + 1
end

theorem strFuel_le (i : Item) : strFuel i + 1 ≤ dsize i := by
  cases i <;> simp [strFuel, dsize]

/-! ## leaves -/

theorem decBig_atom (h : Head) (r : Bytes) (f : Nat) (hw : (Item.atom h).wf = true) (d : PData)
    (ho : ofItem (.atom h) = some d) :
    datatype ((Item.atom h).encode ++ r) = some .int ∧
    (decBig f ((Item.atom h).encode ++ r)).map (fun x => (PData.int x.1, x.2)) = some (d, r) := by
  simp only [Item.wf, Bool.and_eq_true, decide_eq_true_eq, Bool.or_eq_true] at hw
  obtain ⟨⟨hwf, _⟩, hai⟩ := hw
  have hw' := (Head.wf_iff h).1 hwf
  obtain ⟨b1, b2⟩ := head_byte h.major h.ai hw'.1 hw'.2.1
  have hle := wf_ai_le h hwf hai
  have hu := unsigned_arg h hwf hai r
  have hlen : h.ai ≥ 24 → (h.arg ++ r).isEmpty = false := by
    intro h24
    rcases argLen_cases _ _ hw'.2.2 hai with ⟨a, _⟩ | ⟨_, l⟩ | ⟨_, l⟩ | ⟨_, l⟩ | ⟨_, l⟩
    · omega
    all_goals (cases hh : h.arg with | nil => rw [hh] at l; simp at l | cons _ _ => simp)
  simp only [ofItem] at ho
  have hdt : datatype ((Item.atom h).encode ++ r) = some .int := by
    simp only [Item.encode]
    rw [datatype_head h hwf r]
    split at ho
    · rename_i hm; simp [tyOf, hm, hle]
    · split at ho
      · rename_i hm0 hm
        by_cases h24 : h.ai < 24
        · simp [tyOf, hm, h24]
        · simp [tyOf, hm, h24, hle, hlen (by omega)]
      · simp at ho
  refine ⟨hdt, ?_⟩
  simp only [decBig, hdt]
  simp only [Item.encode, Head.encode, List.cons_append, readInt, b1, b2, hu] at *
  split at ho
  · rename_i hm
    simp only [Option.some.injEq] at ho; subst ho
    simp [hm]
  · split at ho
    · rename_i hm0 hm
      simp only [Option.some.injEq] at ho; subst ho
      simp [hm]
    · simp at ho

/-! ## tags -/

theorem tag_head (h : Head) (i : Item) (r : Bytes) (hw : (Item.tag h i).wf = true) :
    datatype ((Item.tag h i).encode ++ r) = some .tag ∧
    readTag ((Item.tag h i).encode ++ r) = some (h.val, i.encode ++ r) ∧ i.wf = true := by
  simp only [Item.wf, Bool.and_eq_true, decide_eq_true_eq] at hw
  obtain ⟨⟨⟨hwf, hm⟩, hai⟩, hiw⟩ := hw
  have hle := wf_ai_le h hwf hai
  refine ⟨?_, ?_, hiw⟩
  · simp only [Item.encode, List.append_assoc]
    rw [datatype_def h hwf hai _ 6 hm (by decide)]; simp [tyOf, hle]
  · have := readHead_encode h hwf hai (i.encode ++ r)
    rw [hm] at this
    simpa [Item.encode, readTag] using this

/-- the element decoders' results for an array-shaped item (definite or indefinite) -/
def ArrayShape (fi : Item) (df : Bool) (xs : List Item) : Prop :=
  (∃ h, fi = .seq h xs ∧ h.major = 4 ∧ df = true) ∨ (fi = .seqIndef 4 xs ∧ df = false)

theorem decMaybeIndef_shape (fi : Item) (df : Bool) (xs : List Item) (ds : List PData) (f : Nat) (r : Bytes)
    (hs : ArrayShape fi df xs) (hw : fi.wf = true)
    (hN : df = true → decN f xs.length (encodeList xs ++ r) = some (ds, r))
    (hB : df = false → decBreak f (encodeList xs ++ 0xff :: r) = some (ds, r)) :
    decMaybeIndef (f + 2) (fi.encode ++ r) = some ((df, ds), r) := by
  rcases hs with ⟨h, rfl, hm, rfl⟩ | ⟨rfl, rfl⟩
  · exact (decVec_def h xs ds f r hw hm (hN rfl)).2.1
  · exact (decVec_indef xs ds f r (hB rfl)).2.1

theorem ofItem_tag (h : Head) (i : Item) : ofItem (.tag h i) =
    if h.val = 2 then (i.strPayload? 2).map fun bs => .int (.bigU bs)
    else if h.val = 3 then (i.strPayload? 2).map fun bs => .int (.bigN bs)
    else if isConstrTag h.val then
      match i with
      | .seq h' xs => if h'.major = 4 then (ofItems xs).map (.constr h.val none true) else none
      | .seqIndef m xs => if m = 4 then (ofItems xs).map (.constr h.val none false) else none
      | _ => none
    else if h.val = 102 then
      match i with
      | .seq h' [a, f] =>
        if h'.major = 4 then
          match a.uint?, f with
          | some n, .seq h'' xs => if h''.major = 4 then (ofItems xs).map (.constr 102 (some n) true) else none
          | some n, .seqIndef m xs => if m = 4 then (ofItems xs).map (.constr 102 (some n) false) else none
          | _, _ => none
        else none
      | _ => none
    else none := by
  cases i with
  | seq h' xs =>
    match xs with
    | [] => rw [ofItem] <;> simp
    | [_] => rw [ofItem] <;> simp
    | [a, f] =>
      rw [ofItem]
      cases hu : a.uint? <;> cases f <;> simp [hu]
    | _ :: _ :: _ :: _ => rw [ofItem] <;> simp
  | atom _ => rw [ofItem] <;> simp
  | str _ _ => rw [ofItem] <;> simp
  | strIndef _ _ => rw [ofItem] <;> simp
  | seqIndef _ _ => rw [ofItem] <;> simp
  | tag _ _ => rw [ofItem] <;> simp

mutual
theorem decP_refines : ∀ (i : Item) (d : PData) (fuel : Nat) (r : Bytes),
    i.wf = true → ofItem i = some d → dsize i ≤ fuel → decP fuel (i.encode ++ r) = some (d, r)
  | .atom h, d, fuel, r, hw, ho, hf => by
    obtain ⟨f, rfl⟩ : ∃ f, fuel = f + 1 := ⟨fuel - 1, by simp [dsize] at hf; omega⟩
    obtain ⟨hdt, hb⟩ := decBig_atom h r f hw d ho
    simp only [decP, hdt]; exact hb
  | .str h bs, d, fuel, r, hw, ho, hf => by
    obtain ⟨f, rfl⟩ : ∃ f, fuel = f + 1 := ⟨fuel - 1, by simp [dsize] at hf; omega⟩
    simp only [ofItem] at ho
    split at ho
    · rename_i hm
      simp only [Option.some.injEq] at ho; subst ho
      have hb := decBounded_refines (.str h bs) bs r f hw (by simp [Item.strPayload?, hm]) (by simp [strFuel])
      have hw2 := hw
      simp only [Item.wf, Bool.and_eq_true, decide_eq_true_eq] at hw2
      obtain ⟨⟨⟨hwf, _⟩, hai⟩, _⟩ := hw2
      have hle := wf_ai_le h hwf hai
      have hdt : datatype ((Item.str h bs).encode ++ r) = some .bytes := by
        simp only [Item.encode, List.append_assoc]
        rw [datatype_def h hwf hai _ 2 hm (by decide)]; simp [tyOf, hle]
      simp only [decP, hdt, hb, Option.map_some]
    · simp at ho
  | .strIndef m cs, d, fuel, r, hw, ho, hf => by
    obtain ⟨f, rfl⟩ : ∃ f, fuel = f + 1 := ⟨fuel - 1, by simp [dsize] at hf; omega⟩
    simp only [ofItem] at ho
    split at ho
    · rename_i hm
      subst hm
      simp only [Option.some.injEq] at ho; subst ho
      have hb := decBounded_refines (.strIndef 2 cs) (chunksPayload cs) r f hw (by simp [Item.strPayload?])
        (by simp [strFuel, dsize] at hf ⊢; omega)
      have hdt : datatype ((Item.strIndef 2 cs).encode ++ r) = some .bytesIndef := by
        simp only [Item.encode, List.cons_append]
        rw [datatype_indef 2 (by decide)]; simp [tyOf]
      simp only [decP, hdt, hb, Option.map_some]
    · simp at ho
  | .seq h xs, d, fuel, r, hw, ho, hf => by
    simp only [dsize] at hf
    obtain ⟨f, rfl⟩ : ∃ f, fuel = f + 2 := ⟨fuel - 2, by omega⟩
    have hw2 := hw
    simp only [Item.wf, Bool.and_eq_true, decide_eq_true_eq, Bool.or_eq_true] at hw2
    obtain ⟨⟨⟨⟨_, hmaj⟩, _⟩, hlen⟩, hxs⟩ := hw2
    simp only [ofItem] at ho
    split at ho
    · rename_i hm
      simp only [Option.map_eq_some_iff] at ho
      obtain ⟨ds, hds, rfl⟩ := ho
      have hN := decN_refines xs ds f r hxs hds (by omega)
      obtain ⟨hv, _, hdt⟩ := decVec_def h xs ds f r hw hm hN
      simp only [decP, hdt, hv, Option.map_some]
    · rename_i hm
      have hm5 : h.major = 5 := by rcases hmaj with h4 | h5; exact absurd h4 hm; exact h5
      simp only [Option.map_eq_some_iff] at ho
      obtain ⟨kvs, hk, rfl⟩ := ho
      have hN := decPairsN_refines xs kvs f r hxs hk (by omega)
      obtain ⟨hv, hdt⟩ := decKvs_def h xs kvs f r hw hm5 hN
      simp only [decP, hdt, hv, Option.map_some]
  | .seqIndef m xs, d, fuel, r, hw, ho, hf => by
    simp only [dsize] at hf
    obtain ⟨f, rfl⟩ : ∃ f, fuel = f + 2 := ⟨fuel - 2, by omega⟩
    have hw2 := hw
    simp only [Item.wf, Bool.and_eq_true, decide_eq_true_eq, Bool.or_eq_true] at hw2
    obtain ⟨⟨hmaj, _⟩, hxs⟩ := hw2
    simp only [ofItem] at ho
    split at ho
    · rename_i hm
      subst hm
      simp only [Option.map_eq_some_iff] at ho
      obtain ⟨ds, hds, rfl⟩ := ho
      have hB := decBreak_refines xs ds f r hxs hds (by omega)
      obtain ⟨hv, _, hdt⟩ := decVec_indef xs ds f r hB
      simp only [decP, hdt, hv, Option.map_some]
    · rename_i hm
      have hm5 : m = 5 := by rcases hmaj with h4 | h5; exact absurd h4 hm; exact h5
      subst hm5
      simp only [Option.map_eq_some_iff] at ho
      obtain ⟨kvs, hk, rfl⟩ := ho
      have hB := decPairsBreak_refines xs kvs f r hxs hk (by omega)
      obtain ⟨hv, hdt⟩ := decKvs_indef xs kvs f r hB
      simp only [decP, hdt, hv, Option.map_some]
  | .tag h i, d, fuel, r, hw, ho, hf => by
    simp only [dsize] at hf
    obtain ⟨hdt, hrt, hiw⟩ := tag_head h i r hw
    have hsf := strFuel_le i
    rw [ofItem_tag] at ho
    split at ho
    · -- positive bignum
      rename_i h2
      obtain ⟨f, rfl⟩ : ∃ f, fuel = f + 1 := ⟨fuel - 1, by omega⟩
      simp only [Option.map_eq_some_iff] at ho
      obtain ⟨bs, hbs, rfl⟩ := ho
      have hb := decBounded_refines i bs r f hiw hbs (by omega)
      simp [decP, hdt, hrt, h2, decBig, hb]
    · split at ho
      · rename_i h2 h3
        obtain ⟨f, rfl⟩ : ∃ f, fuel = f + 1 := ⟨fuel - 1, by omega⟩
        simp only [Option.map_eq_some_iff] at ho
        obtain ⟨bs, hbs, rfl⟩ := ho
        have hb := decBounded_refines i bs r f hiw hbs (by omega)
        simp [decP, hdt, hrt, h3, decBig, hb]
      · split at ho
        · -- constructor tags 121..127, 1280..1400
          rename_i h2 h3 hc
          obtain ⟨f, rfl⟩ : ∃ f, fuel = f + 4 := ⟨fuel - 4, by omega⟩
          have hshape : ∃ df xs ds, ArrayShape i df xs ∧ wfList xs = true ∧ ofItems xs = some ds ∧
              d = .constr h.val none df ds ∧ dsizes xs + 2 ≤ dsize i := by
            cases i with
            | seq h' xs =>
              simp only at ho
              split at ho
              · rename_i hm
                simp only [Option.map_eq_some_iff] at ho
                obtain ⟨ds, hds, rfl⟩ := ho
                simp only [Item.wf, Bool.and_eq_true] at hiw
                exact ⟨true, xs, ds, .inl ⟨h', rfl, hm, rfl⟩, hiw.2, hds, rfl, by simp [dsize]⟩
              · simp at ho
            | seqIndef m xs =>
              simp only at ho
              split at ho
              · rename_i hm
                subst hm
                simp only [Option.map_eq_some_iff] at ho
                obtain ⟨ds, hds, rfl⟩ := ho
                simp only [Item.wf, Bool.and_eq_true] at hiw
                exact ⟨false, xs, ds, .inr ⟨rfl, rfl⟩, hiw.2, hds, rfl, by simp [dsize]⟩
              · simp at ho
            | atom _ => simp at ho
            | str _ _ => simp at ho
            | strIndef _ _ => simp at ho
            | tag _ _ => simp at ho
          obtain ⟨df, xs, ds, hs, hxs, hds, rfl, hsz⟩ := hshape
          have hmi := decMaybeIndef_shape i df xs ds f r hs hiw
            (fun _ => decN_refines xs ds f r hxs hds (by omega))
            (fun _ => decBreak_refines xs ds f r hxs hds (by omega))
          have hor : isConstrTag h.val = true ∨ h.val = 102 := .inl hc
          simp [decP, hdt, hrt, h2, h3, decConstr, hc, hmi]
        · split at ho
          · -- tag 102
            rename_i h2 h3 hc h102
            obtain ⟨f, rfl⟩ : ∃ f, fuel = f + 4 := ⟨fuel - 4, by omega⟩
            have hshape : ∃ h' a fi n df xs ds, i = .seq h' [a, fi] ∧ h'.major = 4 ∧ a.uint? = some n ∧
                ArrayShape fi df xs ∧ wfList xs = true ∧ ofItems xs = some ds ∧
                d = .constr 102 (some n) df ds ∧ dsizes xs + 2 ≤ dsize fi := by
              cases i with
              | seq h' ys =>
                match ys, ho with
                | [a, fi], ho =>
                  simp only at ho
                  split at ho
                  · rename_i hm
                    cases hu : a.uint? with
                    | none => simp [hu] at ho
                    | some n =>
                      simp only [hu] at ho
                      cases fi with
                      | seq h'' xs =>
                        simp only at ho
                        split at ho
                        · rename_i hm'
                          simp only [Option.map_eq_some_iff] at ho
                          obtain ⟨ds, hds, rfl⟩ := ho
                          simp only [Item.wf, wfList, Bool.and_eq_true] at hiw
                          exact ⟨h', a, _, n, true, xs, ds, rfl, hm, hu, .inl ⟨h'', rfl, hm', rfl⟩,
                            hiw.2.2.1.2, hds, rfl, by simp [dsize]⟩
                        · simp at ho
                      | seqIndef m xs =>
                        simp only at ho
                        split at ho
                        · rename_i hm'
                          subst hm'
                          simp only [Option.map_eq_some_iff] at ho
                          obtain ⟨ds, hds, rfl⟩ := ho
                          simp only [Item.wf, wfList, Bool.and_eq_true] at hiw
                          exact ⟨h', a, _, n, false, xs, ds, rfl, hm, hu, .inr ⟨rfl, rfl⟩,
                            hiw.2.2.1.2, hds, rfl, by simp [dsize]⟩
                        · simp at ho
                      | atom _ => simp at ho
                      | str _ _ => simp at ho
                      | strIndef _ _ => simp at ho
                      | tag _ _ => simp at ho
                  · simp at ho
                | [], ho => simp at ho
                | [_], ho => simp at ho
                | _ :: _ :: _ :: _, ho => simp at ho
              | seqIndef _ _ => simp at ho
              | atom _ => simp at ho
              | str _ _ => simp at ho
              | strIndef _ _ => simp at ho
              | tag _ _ => simp at ho
            obtain ⟨h', a, fi, n, df, xs, ds, rfl, hm', hu, hs, hxs, hds, rfl, hsz⟩ := hshape
            -- the inner definite 2-array, the uint, then the fields
            have hiw2 := hiw
            simp only [Item.wf, wfList, Bool.and_eq_true, decide_eq_true_eq] at hiw2
            obtain ⟨⟨⟨⟨hwf', _⟩, hai'⟩, _⟩, haw, hfiw, _⟩ := hiw2
            have hrs := readSeqHead_def h' hwf' hai' (a.encode ++ (fi.encode ++ r))
            rw [hm'] at hrs
            obtain ⟨ha, rfl, ham⟩ : ∃ ha, a = .atom ha ∧ ha.major = 0 := by
              cases a with
              | atom ha =>
                refine ⟨ha, rfl, ?_⟩
                simp only [Item.uint?] at hu
                split at hu
                · assumption
                · simp at hu
              | str _ _ => simp [Item.uint?] at hu
              | strIndef _ _ => simp [Item.uint?] at hu
              | seq _ _ => simp [Item.uint?] at hu
              | seqIndef _ _ => simp [Item.uint?] at hu
              | tag _ _ => simp [Item.uint?] at hu
            have hn : ha.val = n := by simp [Item.uint?, ham] at hu; exact hu
            simp only [Item.wf, Bool.and_eq_true, decide_eq_true_eq] at haw
            have hru := readHead_encode ha haw.1.1 haw.2 (fi.encode ++ r)
            rw [ham] at hru
            have hfsz : dsize fi + 6 ≤ f + 4 := by simp [dsize, dsizes] at hf; omega
            have hmi := decMaybeIndef_shape fi df xs ds f r hs hfiw
              (fun _ => decN_refines xs ds f r hxs hds (by omega))
              (fun _ => decBreak_refines xs ds f r hxs hds (by omega))
            have hor : isConstrTag h.val = true ∨ h.val = 102 := .inr h102
            have henc : (Item.seq h' [Item.atom ha, fi]).encode ++ r
                = h'.encode ++ ((Item.atom ha).encode ++ (fi.encode ++ r)) := by
              simp [Item.encode, encodeList, List.append_assoc]
            have hru' : readU64 ((Item.atom ha).encode ++ (fi.encode ++ r)) = some (n, fi.encode ++ r) := by
              simpa [readU64, Item.encode, hn] using hru
            rw [henc] at hrt
            have hc102 : isConstrTag 102 = false := by decide
            simp [decP, hdt, hrt, h2, h3, decConstr, hc, h102, hc102, hrs, hru', hmi]
          · simp at ho
theorem decN_refines : ∀ (xs : List Item) (ds : List PData) (fuel : Nat) (r : Bytes),
    wfList xs = true → ofItems xs = some ds → dsizes xs ≤ fuel →
    decN fuel xs.length (encodeList xs ++ r) = some (ds, r)
  | [], ds, fuel, r, _, ho, _ => by
    simp only [ofItems, Option.some.injEq] at ho; subst ho
    simp [decN, encodeList]
  | x :: xs, ds, fuel, r, hw, ho, hf => by
    simp only [dsizes] at hf
    obtain ⟨f, rfl⟩ : ∃ f, fuel = f + 1 := ⟨fuel - 1, by omega⟩
    simp only [wfList, Bool.and_eq_true] at hw
    simp only [ofItems] at ho
    cases hx : ofItem x with
    | none => simp [hx] at ho
    | some dx =>
      cases hxs : ofItems xs with
      | none => simp [hx, hxs] at ho
      | some dxs =>
        simp only [hx, hxs, Option.some.injEq] at ho; subst ho
        have h1 := decP_refines x dx f (encodeList xs ++ r) hw.1 hx (by omega)
        have h2 := decN_refines xs dxs f r hw.2 hxs (by omega)
        simp only [List.length_cons, encodeList, List.append_assoc, decN, h1, h2]
theorem decBreak_refines : ∀ (xs : List Item) (ds : List PData) (fuel : Nat) (r : Bytes),
    wfList xs = true → ofItems xs = some ds → dsizes xs + 1 ≤ fuel →
    decBreak fuel (encodeList xs ++ 0xff :: r) = some (ds, r)
  | [], ds, fuel, r, _, ho, hf => by
    obtain ⟨f, rfl⟩ : ∃ f, fuel = f + 1 := ⟨fuel - 1, by omega⟩
    simp only [ofItems, Option.some.injEq] at ho; subst ho
    simp [decBreak, encodeList]
  | x :: xs, ds, fuel, r, hw, ho, hf => by
    simp only [dsizes] at hf
    obtain ⟨f, rfl⟩ : ∃ f, fuel = f + 1 := ⟨fuel - 1, by omega⟩
    simp only [wfList, Bool.and_eq_true] at hw
    simp only [ofItems] at ho
    cases hx : ofItem x with
    | none => simp [hx] at ho
    | some dx =>
      cases hxs : ofItems xs with
      | none => simp [hx, hxs] at ho
      | some dxs =>
        simp only [hx, hxs, Option.some.injEq] at ho; subst ho
        obtain ⟨b, rest, he, hne⟩ := first_byte_ne_break x hw.1
        have h1 := decP_refines x dx f (encodeList xs ++ 0xff :: r) hw.1 hx (by omega)
        have h2 := decBreak_refines xs dxs f r hw.2 hxs (by omega)
        simp only [encodeList, List.append_assoc]
        rw [he] at h1 ⊢
        simp only [List.cons_append, decBreak, hne, if_false] at h1 ⊢
        rw [h1]; simp only [h2]
theorem decPairsN_refines : ∀ (xs : List Item) (kvs : List (PData × PData)) (fuel : Nat) (r : Bytes),
    wfList xs = true → ofPairs xs = some kvs → dsizes xs ≤ fuel →
    decPairsN fuel (xs.length / 2) (encodeList xs ++ r) = some (kvs, r)
  | [], kvs, fuel, r, _, ho, _ => by
    simp only [ofPairs, Option.some.injEq] at ho; subst ho
    simp [decPairsN, encodeList]
  | [_], kvs, fuel, r, _, ho, _ => by simp [ofPairs] at ho
  | k :: v :: xs, kvs, fuel, r, hw, ho, hf => by
    simp only [dsizes] at hf
    obtain ⟨f, rfl⟩ : ∃ f, fuel = f + 1 := ⟨fuel - 1, by omega⟩
    simp only [wfList, Bool.and_eq_true] at hw
    simp only [ofPairs] at ho
    cases hk : ofItem k with
    | none => simp [hk] at ho
    | some dk =>
      cases hv : ofItem v with
      | none => simp [hk, hv] at ho
      | some dv =>
        cases hxs : ofPairs xs with
        | none => simp [hk, hv, hxs] at ho
        | some dxs =>
          simp only [hk, hv, hxs, Option.some.injEq] at ho; subst ho
          have h1 := decP_refines k dk f (v.encode ++ (encodeList xs ++ r)) hw.1 hk (by omega)
          have h2 := decP_refines v dv f (encodeList xs ++ r) hw.2.1 hv (by omega)
          have h3 := decPairsN_refines xs dxs f r hw.2.2 hxs (by omega)
          have hl : (k :: v :: xs).length / 2 = xs.length / 2 + 1 := by simp; omega
          simp only [hl, encodeList, List.append_assoc, decPairsN, h1, h2, h3]
theorem decPairsBreak_refines : ∀ (xs : List Item) (kvs : List (PData × PData)) (fuel : Nat) (r : Bytes),
    wfList xs = true → ofPairs xs = some kvs → dsizes xs + 1 ≤ fuel →
    decPairsBreak fuel (encodeList xs ++ 0xff :: r) = some (kvs, r)
  | [], kvs, fuel, r, _, ho, hf => by
    obtain ⟨f, rfl⟩ : ∃ f, fuel = f + 1 := ⟨fuel - 1, by omega⟩
    simp only [ofPairs, Option.some.injEq] at ho; subst ho
    simp [decPairsBreak, encodeList]
  | [_], kvs, fuel, r, _, ho, _ => by simp [ofPairs] at ho
  | k :: v :: xs, kvs, fuel, r, hw, ho, hf => by
    simp only [dsizes] at hf
    obtain ⟨f, rfl⟩ : ∃ f, fuel = f + 1 := ⟨fuel - 1, by omega⟩
    simp only [wfList, Bool.and_eq_true] at hw
    simp only [ofPairs] at ho
    cases hk : ofItem k with
    | none => simp [hk] at ho
    | some dk =>
      cases hv : ofItem v with
      | none => simp [hk, hv] at ho
      | some dv =>
        cases hxs : ofPairs xs with
        | none => simp [hk, hv, hxs] at ho
        | some dxs =>
          simp only [hk, hv, hxs, Option.some.injEq] at ho; subst ho
          obtain ⟨b, rest, he, hne⟩ := first_byte_ne_break k hw.1
          have h1 := decP_refines k dk f (v.encode ++ (encodeList xs ++ 0xff :: r)) hw.1 hk (by omega)
          have h2 := decP_refines v dv f (encodeList xs ++ 0xff :: r) hw.2.1 hv (by omega)
          have h3 := decPairsBreak_refines xs dxs f r hw.2.2 hxs (by omega)
          simp only [encodeList, List.append_assoc]
          rw [he] at h1 ⊢
          simp only [List.cons_append, decPairsBreak, hne, if_false] at h1 ⊢
          rw [h1]; simp only [h2, h3]
end

/-! ## enough fuel; the entry point -/

mutual
theorem dsize_le : ∀ i : Item, dsize i + 1 ≤ 4 * i.encode.length
  | .atom h => by have := Head.encode_length_pos h; simp [dsize, Item.encode]; omega
  | .str h bs => by have := Head.encode_length_pos h; simp [dsize, Item.encode]; omega
  | .strIndef m cs => by have := encodeChunks_length cs; simp [dsize, Item.encode]; omega
  | .seq h xs => by
    have := Head.encode_length_pos h; have := dsizes_le xs; simp [dsize, Item.encode]; omega
  | .seqIndef m xs => by have := dsizes_le xs; simp [dsize, Item.encode]; omega
  | .tag h i => by
    have := Head.encode_length_pos h; have := dsize_le i; simp [dsize, Item.encode]; omega
theorem dsizes_le : ∀ xs : List Item, dsizes xs ≤ 4 * (encodeList xs).length
  | [] => by simp [dsizes]
  | x :: xs => by have := dsize_le x; have := dsizes_le xs; simp [dsizes, encodeList]; omega
end

/-- **refinement**: on the encoding of any well-formed tree that the tree decoder `ofItem` accepts
    (canonical or not: any head widths, any chunking, definite or indefinite), followed by anything,
    the byte-level decoder returns the same value and stops exactly after the item -/
theorem decodeBytes_refines (i : Item) (d : PData) (r : Bytes) (hw : i.wf = true) (ho : ofItem i = some d) :
    decodeBytes (i.encode ++ r) = some (d, r) := by
  unfold decodeBytes fuelFor
  apply decP_refines i d _ r hw ho
  have := dsize_le i
  simp only [List.length_append]; omega

/-- the byte-level decoder agrees with the strict-parser decoder wherever the latter succeeds -/
theorem decodeBytes_of_decode (bs : Bytes) (d : PData) (h : decode bs = some d) :
    ∃ r, decodeBytes bs = some (d, r) := by
  unfold decode at h
  split at h
  · rename_i i r hp
    obtain ⟨e, hw⟩ := parseItem_sound bs i r hp
    exact ⟨r, by rw [e]; exact decodeBytes_refines i d r hw h⟩
  · simp at h

/-! ## what the decoder can produce: valid constructor tags, `any_constructor` in normal form -/

/-- inside the quantifier of the order theorems and a fixed point of `normAny` -/
def Good (d : PData) : Prop := wfTag d = true ∧ normAny d = d
def GoodL (xs : List PData) : Prop := wfTagList xs = true ∧ normAnyList xs = xs
def GoodK (xs : List (PData × PData)) : Prop := wfTagKvs xs = true ∧ normAnyKvs xs = xs

theorem goodL_nil : GoodL [] := ⟨rfl, rfl⟩
theorem goodK_nil : GoodK [] := ⟨rfl, rfl⟩
theorem goodL_cons {x : PData} {xs : List PData} (hx : Good x) (hxs : GoodL xs) : GoodL (x :: xs) :=
  ⟨by simp [wfTagList, hx.1, hxs.1], by simp [normAnyList, hx.2, hxs.2]⟩
theorem goodK_cons {k v : PData} {xs : List (PData × PData)} (hk : Good k) (hv : Good v) (hxs : GoodK xs) :
    GoodK ((k, v) :: xs) :=
  ⟨by simp [wfTagKvs, hk.1, hv.1, hxs.1], by simp [normAnyKvs, hk.2, hv.2, hxs.2]⟩

theorem good_constr (t : Nat) (df : Bool) (xs : List PData) (ht : isConstrTag t = true) (hxs : GoodL xs) :
    Good (.constr t none df xs) := by
  have h102 : t ≠ 102 := by rw [isConstrTag_iff] at ht; omega
  have hci : (constrIndex t none).isSome = true := by
    rw [isConstrTag_iff] at ht
    unfold constrIndex
    rcases ht with h | h
    · simp [h]
    · have : ¬ (121 ≤ t ∧ t ≤ 127) := by omega
      simp [this, h]
  exact ⟨by simp [wfTag, hci, hxs.1], by simp [normAny, h102, hxs.2]⟩

theorem good_constr102 (a : Nat) (df : Bool) (xs : List PData) (hxs : GoodL xs) :
    Good (.constr 102 (some a) df xs) :=
  ⟨by simp [wfTag, constrIndex, hxs.1], by simp [normAny, hxs.2]⟩

theorem good_big (b : BigInt) : Good (.int b) := ⟨rfl, rfl⟩
theorem good_bytes (b : Bytes) : Good (.bytes b) := ⟨rfl, rfl⟩

/-- all nine decoder layers at one fuel level -/
structure GoodAt (fuel : Nat) : Prop where
  p : ∀ bs d r, decP fuel bs = some (d, r) → Good d
  c : ∀ bs d r, decConstr fuel bs = some (d, r) → Good d
  m : ∀ bs df xs r, decMaybeIndef fuel bs = some ((df, xs), r) → GoodL xs
  v : ∀ bs xs r, decVec fuel bs = some (xs, r) → GoodL xs
  k : ∀ bs xs r, decKvs fuel bs = some (xs, r) → GoodK xs
  n : ∀ n bs xs r, decN fuel n bs = some (xs, r) → GoodL xs
  b : ∀ bs xs r, decBreak fuel bs = some (xs, r) → GoodL xs
  pn : ∀ n bs xs r, decPairsN fuel n bs = some (xs, r) → GoodK xs
  pb : ∀ bs xs r, decPairsBreak fuel bs = some (xs, r) → GoodK xs

theorem goodAt_zero : GoodAt 0 where
  p := by intro bs d r h; simp [decP] at h
  c := by intro bs d r h; simp [decConstr] at h
  m := by intro bs df xs r h; simp [decMaybeIndef] at h
  v := by intro bs xs r h; simp [decVec] at h
  k := by intro bs xs r h; simp [decKvs] at h
  n := by
    intro n bs xs r h
    cases n with
    | zero => simp [decN] at h; rw [h.1]; exact goodL_nil
    | succ n => simp [decN] at h
  b := by intro bs xs r h; simp [decBreak] at h
  pn := by
    intro n bs xs r h
    cases n with
    | zero => simp [decPairsN] at h; rw [h.1]; exact goodK_nil
    | succ n => simp [decPairsN] at h
  pb := by intro bs xs r h; simp [decPairsBreak] at h

theorem goodAt_succ (f : Nat) (ih : GoodAt f) : GoodAt (f + 1) where
  p := by
    intro bs d r h
    simp only [decP] at h
    split at h
    · split at h
      · simp at h
      · rename_i t _ _
        split at h
        · simp only [Option.map_eq_some_iff] at h
          obtain ⟨⟨b, r'⟩, _, e⟩ := h
          simp only [Prod.mk.injEq] at e; rw [← e.1]; exact good_big b
        · split at h
          · exact ih.c _ _ _ h
          · simp at h
    · simp only [Option.map_eq_some_iff] at h
      obtain ⟨⟨b, r'⟩, _, e⟩ := h
      simp only [Prod.mk.injEq] at e; rw [← e.1]; exact good_big b
    · simp only [Option.map_eq_some_iff] at h
      obtain ⟨⟨kvs, r'⟩, hk, e⟩ := h
      simp only [Prod.mk.injEq] at e; rw [← e.1]
      have := ih.k _ _ _ hk
      exact ⟨by simp [wfTag, this.1], by simp [normAny, this.2]⟩
    · simp only [Option.map_eq_some_iff] at h
      obtain ⟨⟨kvs, r'⟩, hk, e⟩ := h
      simp only [Prod.mk.injEq] at e; rw [← e.1]
      have := ih.k _ _ _ hk
      exact ⟨by simp [wfTag, this.1], by simp [normAny, this.2]⟩
    · simp only [Option.map_eq_some_iff] at h
      obtain ⟨⟨b, r'⟩, _, e⟩ := h
      simp only [Prod.mk.injEq] at e; rw [← e.1]; exact good_bytes b
    · simp only [Option.map_eq_some_iff] at h
      obtain ⟨⟨b, r'⟩, _, e⟩ := h
      simp only [Prod.mk.injEq] at e; rw [← e.1]; exact good_bytes b
    · simp only [Option.map_eq_some_iff] at h
      obtain ⟨⟨xs, r'⟩, hv, e⟩ := h
      simp only [Prod.mk.injEq] at e; rw [← e.1]
      have := ih.v _ _ _ hv
      exact ⟨by simp [wfTag, this.1], by simp [normAny, this.2]⟩
    · simp only [Option.map_eq_some_iff] at h
      obtain ⟨⟨xs, r'⟩, hv, e⟩ := h
      simp only [Prod.mk.injEq] at e; rw [← e.1]
      have := ih.v _ _ _ hv
      exact ⟨by simp [wfTag, this.1], by simp [normAny, this.2]⟩
    · simp at h
  c := by
    intro bs d r h
    simp only [decConstr] at h
    split at h
    · simp at h
    · rename_i t r0 _
      split at h
      · rename_i hc
        simp only [Option.map_eq_some_iff] at h
        obtain ⟨⟨⟨df, xs⟩, r'⟩, hm, e⟩ := h
        simp only [Prod.mk.injEq] at e; rw [← e.1]
        exact good_constr t df xs hc (ih.m _ _ _ _ hm)
      · split at h
        · split at h
          · simp at h
          · split at h
            · simp at h
            · simp only [Option.map_eq_some_iff] at h
              obtain ⟨⟨⟨df, xs⟩, r'⟩, hm, e⟩ := h
              simp only [Prod.mk.injEq] at e; rw [← e.1]
              exact good_constr102 _ df xs (ih.m _ _ _ _ hm)
        · simp at h
  m := by
    intro bs df xs r h
    simp only [decMaybeIndef] at h
    split at h
    · simp only [Option.map_eq_some_iff] at h
      obtain ⟨⟨ys, r'⟩, hv, e⟩ := h
      simp only [Prod.mk.injEq] at e; rw [← e.1.2]; exact ih.v _ _ _ hv
    · simp only [Option.map_eq_some_iff] at h
      obtain ⟨⟨ys, r'⟩, hv, e⟩ := h
      simp only [Prod.mk.injEq] at e; rw [← e.1.2]; exact ih.v _ _ _ hv
    · simp at h
  v := by
    intro bs xs r h
    simp only [decVec] at h
    split at h
    · simp at h
    · exact ih.n _ _ _ _ h
    · exact ih.b _ _ _ h
  k := by
    intro bs xs r h
    simp only [decKvs] at h
    split at h
    · simp at h
    · exact ih.pn _ _ _ _ h
    · exact ih.pb _ _ _ h
  n := by
    intro n bs xs r h
    cases n with
    | zero => simp [decN] at h; rw [h.1]; exact goodL_nil
    | succ n =>
      simp only [decN] at h
      split at h
      · simp at h
      · rename_i x r1 hx
        split at h
        · simp at h
        · rename_i ys r2 hys
          simp only [Option.some.injEq, Prod.mk.injEq] at h; rw [← h.1]
          exact goodL_cons (ih.p _ _ _ hx) (ih.n _ _ _ _ hys)
  b := by
    intro bs xs r h
    cases bs with
    | nil => simp [decBreak] at h
    | cons b0 rest =>
      simp only [decBreak] at h
      split at h
      · simp only [Option.some.injEq, Prod.mk.injEq] at h; rw [← h.1]; exact goodL_nil
      · split at h
        · simp at h
        · rename_i x r1 hx
          split at h
          · simp at h
          · rename_i ys r2 hys
            simp only [Option.some.injEq, Prod.mk.injEq] at h; rw [← h.1]
            exact goodL_cons (ih.p _ _ _ hx) (ih.b _ _ _ hys)
  pn := by
    intro n bs xs r h
    cases n with
    | zero => simp [decPairsN] at h; rw [h.1]; exact goodK_nil
    | succ n =>
      simp only [decPairsN] at h
      split at h
      · simp at h
      · rename_i k r1 hk
        split at h
        · simp at h
        · rename_i v r2 hv
          split at h
          · simp at h
          · rename_i ys r3 hys
            simp only [Option.some.injEq, Prod.mk.injEq] at h; rw [← h.1]
            exact goodK_cons (ih.p _ _ _ hk) (ih.p _ _ _ hv) (ih.pn _ _ _ _ hys)
  pb := by
    intro bs xs r h
    cases bs with
    | nil => simp [decPairsBreak] at h
    | cons b0 rest =>
      simp only [decPairsBreak] at h
      split at h
      · simp only [Option.some.injEq, Prod.mk.injEq] at h; rw [← h.1]; exact goodK_nil
      · split at h
        · simp at h
        · rename_i k r1 hk
          split at h
          · simp at h
          · rename_i v r2 hv
            split at h
            · simp at h
            · rename_i ys r3 hys
              simp only [Option.some.injEq, Prod.mk.injEq] at h; rw [← h.1]
              exact goodK_cons (ih.p _ _ _ hk) (ih.p _ _ _ hv) (ih.pb _ _ _ hys)

theorem goodAt : ∀ fuel, GoodAt fuel
  | 0 => goodAt_zero
  | f + 1 => goodAt_succ f (goodAt f)

/-- whatever the byte-level decoder returns, on any input, has valid constructor tags (so the
    comparison cannot panic on it) and is in `any_constructor` normal form -/
theorem decodeBytes_good (bs : Bytes) (d : PData) (r : Bytes) (h : decodeBytes bs = some (d, r)) :
    wfTag d = true ∧ normAny d = d := (goodAt _).p bs d r h

end PallasVerif.PlutusData.Dec
