import PallasVerif.Proofs.SchemaNodes
/-! Wrapper nodes with one component. -/
namespace PallasVerif.Schema
open PallasVerif.Cbor

theorem good_vec {e d K nr} (h : Good e d K nr) : Good (encVec e) (decVec d) [.array] nr := by
  intro v it hr he
  cases v <;> simp [encVec] at he
  case list vs =>
    obtain ⟨hl, items, hm, rfl⟩ := he
    simp only [Value.rawFree] at hr
    obtain ⟨w, l, vs', dd, ss, nn⟩ := mapOpt_good h vs items hr hm
    refine ⟨mkArray_wf items (by omega) w, by simp [mkArray_typeOf], .list vs', ?_, by simp [Value.strip, ss], fun x => by rw [nn x]⟩
    simp [decVec, decVecItems, mkArray_items, dd]

theorem good_opt {e d K nr} (h : Good e d K nr) (hk : Ty.null ∉ K) :
    Good (encOpt e) (decOpt d) (.null :: K) nr := by
  intro v it hr he
  cases v <;> simp [encOpt] at he
  case none =>
    subst he
    exact ⟨mkNull_wf, by simp [typeOf, mkNull], .none, by simp [decOpt, typeOf, mkNull], by simp [Value.strip], fun _ => rfl⟩
  case some x =>
    simp only [Value.rawFree] at hr
    obtain ⟨w, t, v', dd, ss, nn⟩ := h x it hr he
    have hne : typeOf it ≠ .null := fun e => hk (e ▸ t)
    refine ⟨w, by simp [t], .some v', by simp [decOpt, hne, dd], by simp [Value.strip, ss], fun x => by rw [nn x]⟩

theorem good_keepRaw {e d K nr} (h : Good e d K nr) : Good (encKeepRaw e) (decKeepRaw d) K False := by
  intro v it hr he
  cases v <;> simp [encKeepRaw] at he
  case raw r x =>
    simp only [Value.rawFree, Bool.and_eq_true, Option.isNone_iff_eq_none] at hr
    obtain ⟨rfl, hx⟩ := hr
    obtain ⟨w, t, v', dd, ss, _⟩ := h x it hx he
    exact ⟨w, t, .raw (some it) v', by simp [decKeepRaw, dd], by simp [Value.strip, ss], fun f => f.elim⟩

theorem good_nullable {e d K nr} (h : Good e d K nr) (hk : Ty.null ∉ K) (hu : Ty.undefined ∉ K) :
    Good (encNullable e) (decNullable d) (.null :: .undefined :: K) nr := by
  intro v it hr he
  cases v with
  | variant pos fields =>
    match pos, fields, he with
    | 0, [x], he =>
      simp only [encNullable] at he
      simp only [Value.rawFree, rawFreeList, Bool.and_true] at hr
      obtain ⟨w, t, v', dd, ss, nn⟩ := h x it hr he
      have h1 : typeOf it ≠ .null := fun e => hk (e ▸ t)
      have h2 : typeOf it ≠ .undefined := fun e => hu (e ▸ t)
      exact ⟨w, by simp [t], .variant 0 [v'], by simp [decNullable, h1, h2, dd], by simp [Value.strip, stripList, ss],
        fun x => by rw [nn x]⟩
    | 1, [], he =>
      simp only [encNullable, Option.some.injEq] at he; subst he
      exact ⟨mkNull_wf, by simp [typeOf, mkNull], _, by simp [decNullable, typeOf, mkNull], by simp [Value.strip, stripList], fun _ => rfl⟩
    | 2, [], he =>
      simp only [encNullable, Option.some.injEq] at he; subst he
      exact ⟨mkUndefined_wf, by simp [typeOf, mkUndefined], _, by simp [decNullable, typeOf, mkUndefined], by simp [Value.strip, stripList], fun _ => rfl⟩
    | 0, [], he => simp [encNullable] at he
    | 0, _ :: _ :: _, he => simp [encNullable] at he
    | 1, _ :: _, he => simp [encNullable] at he
    | 2, _ :: _, he => simp [encNullable] at he
    | _ + 3, _, he => simp [encNullable] at he
  | _ => simp [encNullable] at he

theorem good_set {e d K nr} (h : Good e d K nr) : Good (encSet e) (decSet d) [.tag] nr := by
  intro v it hr he
  simp only [encSet, Option.map_eq_some_iff] at he
  obtain ⟨a, ha, rfl⟩ := he
  obtain ⟨w, t, v', dd, ss, nn⟩ := good_vec h v a hr ha
  refine ⟨mkTag_wf 258 a (by decide) w, by simp [mkTag_typeOf], v', ?_, ss, nn⟩
  have hv : (minHead 6 258).val = 258 := minHead_val 6 258 (by decide)
  simp [decSet, mkTag, typeOf, hv, dd]

theorem good_tagWrap {e d K nr} (t : Nat) (h : Good e d K nr) : Good (fun v => encTagWrap e t v) (decTagWrap d) [.tag] nr := by
  intro v it hr he
  simp only [encTagWrap] at he
  split at he
  · rename_i ht
    simp only [Option.map_eq_some_iff] at he
    obtain ⟨a, ha, rfl⟩ := he
    obtain ⟨w, _, v', dd, ss, nn⟩ := h v a hr ha
    exact ⟨mkTag_wf t a ht w, by simp [mkTag_typeOf], v', by simp [decTagWrap, mkTag, dd], ss, nn⟩
  · simp at he

theorem good_cborWrap {e d K nr} (h : Good e d K nr) : Good (encCborWrap e) (decCborWrap d) [.tag] nr := by
  intro v it hr he
  simp only [encCborWrap] at he
  cases ha : e v with
  | none => simp [ha] at he
  | some a =>
    simp only [ha] at he
    split at he
    · rename_i hl
      simp only [Option.some.injEq] at he; subst he
      obtain ⟨w, _, v', dd, ss, nn⟩ := h v a hr ha
      refine ⟨mkTag_wf 24 _ (by decide) (mkBytes_wf _ hl), by simp [mkTag_typeOf], v', ?_, ss, nn⟩
      have hp := parseItem_encode a [] w
      simp only [List.append_nil] at hp
      simp [decCborWrap, mkTag, mkBytes, minHead_major, hp, dd]
    · simp at he

theorem good_zeroOrOne {e d K nr} (h : Good e d K nr) : Good (encZeroOrOne e) (decZeroOrOne d) [.array] nr := by
  intro v it hr he
  cases v <;> simp [encZeroOrOne] at he
  case none =>
    subst he
    exact ⟨by decide, by decide, .none, by simp [decZeroOrOne, mkArray, minHead_major], by simp [Value.strip], fun _ => rfl⟩
  case some x =>
    obtain ⟨a, ha, rfl⟩ := he
    simp only [Value.rawFree] at hr
    obtain ⟨w, _, v', dd, ss, nn⟩ := h x a hr ha
    exact ⟨mkArray_wf [a] (by simp) (by simp [wfList, w]), by simp [mkArray_typeOf], .some v',
      by simp [decZeroOrOne, mkArray, minHead_major, dd], by simp [Value.strip, ss], fun x => by rw [nn x]⟩

theorem seqIndef4_wf (xs : List Item) (hw : wfList xs = true) : (Item.seqIndef 4 xs).wf = true := by
  simp [Item.wf, hw]

theorem good_maybeIndef {e d K nr} (h : Good e d K nr) :
    Good (encMaybeIndef e) (decMaybeIndef d) [.array, .arrayIndef] nr := by
  intro v it hr he
  cases v with
  | variant pos fields =>
    match pos, fields, he with
    | 0, [x], he =>
      simp only [encMaybeIndef] at he
      simp only [Value.rawFree, rawFreeList, Bool.and_true] at hr
      obtain ⟨w, t, v', dd, ss, nn⟩ := good_vec h x it hr he
      simp only [List.mem_singleton] at t
      exact ⟨w, by simp [t], .variant 0 [v'], by simp [decMaybeIndef, t, dd], by simp [Value.strip, stripList, ss],
        fun x => by rw [nn x]⟩
    | 1, [.list vs], he =>
      simp only [encMaybeIndef, Option.map_eq_some_iff] at he
      obtain ⟨items, hm, rfl⟩ := he
      simp only [Value.rawFree, rawFreeList, Bool.and_true] at hr
      obtain ⟨w, _, vs', dd, ss, nn⟩ := mapOpt_good h vs items hr hm
      refine ⟨seqIndef4_wf items w, by simp [typeOf], .variant 1 [.list vs'], ?_, by simp [Value.strip, stripList, ss],
        fun x => by rw [nn x]⟩
      simp [decMaybeIndef, typeOf, decVec, decVecItems, Item.arrayItems?, dd]
    | 0, [], he => simp [encMaybeIndef] at he
    | 0, _ :: _ :: _, he => simp [encMaybeIndef] at he
    | 1, [], he => simp [encMaybeIndef] at he
    | 1, [.nat _], he | 1, [.int _], he | 1, [.bytes _], he | 1, [.text _], he | 1, [.bool _], he | 1, [.unit], he
    | 1, [.none], he | 1, [.some _], he | 1, [.variant _ _], he | 1, [.raw _ _], he | 1, [.any _], he =>
      simp [encMaybeIndef] at he
    | 1, _ :: _ :: _, he => simp [encMaybeIndef] at he
    | _ + 2, _, he => simp [encMaybeIndef] at he
  | _ => simp [encMaybeIndef] at he

end PallasVerif.Schema
